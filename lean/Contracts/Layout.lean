/-
Contracts.Layout — property C05: every string the pipeline emits is a sentence of the published
TUCAN grammar (tucan/parser/tucan.ebnf): a Hill-order sum formula equal to the molecule's element
counts, then bond tuples, then optional attribute blocks with strictly positive values. Atom
indices run 1..n in blocks of increasing atomic number, each bond appears exactly once as (a-b)
with a<b, tuples ascending, attribute blocks once per labelled atom in ascending index order.

1. `sort_molecule_by_attribute_ok` (+ `sortPos_*`, `sorted_blocks`)
2. `serialize_molecule_eq`
3. layout theorems on the three sections
4. the EBNF transcribed (`Grammar.*`) and membership of the emitted string
-/
import Generated.Serialization
import Spec.Order
import Spec.GraphView
import Spec.GraphLemmas
import Contracts.Partition
import Contracts.Serialize
set_option autoImplicit false
set_option linter.unusedSimpArgs false
set_option linter.unusedVariables false
open Py

namespace Contracts.Layout
open Contracts.Partition (attrV seq Carries attribute_sequence_ok seq_lt_of_head_lt)
open Contracts.Serialize

/-! ## 1. `sort_molecule_by_attribute` -/

/-- the sort keys of `sort_molecule_by_attribute`: (own value :: neighbours' values descending, label) -/
def keyList (m : Graph) (k : String) : List (List Val × Int) := m.nodeList.map (fun a => (seq m k a, a))

/-- position of `a` in `l` (w.r.t. decidable equality) -/
def posIn {α : Type} [DecidableEq α] (l : List α) (a : α) : Nat := l.idxOf a

/-- new label of atom `a`: the position of its key among the sorted keys -/
def sortPos (m : Graph) (k : String) (a : Int) : Int :=
  ((posIn (sorted (keyList m k)) (seq m k a, a) : Nat) : Int)

/-- the relabelled graph -/
def sortGraph (m : Graph) (k : String) : Graph :=
  m.relabelCopy (Dict.ofPairs (zip (sorted (keyList m k)).unzip.2 (range m.numberOfNodes)))

theorem keyList_snd (m : Graph) (k : String) : (keyList m k).map Prod.snd = m.nodeList := by
  simp [keyList, List.map_map, Function.comp_def]

theorem keyList_nodup {m : Graph} (hw : m.WF) (k : String) : (keyList m k).Nodup := by
  have h : ((keyList m k).map Prod.snd).Nodup := by rw [keyList_snd]; exact hw.nodup_nodeList
  exact List.Nodup.of_map _ h

theorem mem_keyList {m : Graph} {k : String} {a : Int} (ha : a ∈ m.nodeList) : (seq m k a, a) ∈ keyList m k :=
  List.mem_map.2 ⟨a, ha, rfl⟩

theorem keyList_form {m : Graph} {k : String} : ∀ p ∈ sorted (keyList m k), p.1 = seq m k p.2 := by
  intro p hp
  rw [mem_sorted] at hp
  obtain ⟨a, _, rfl⟩ := List.mem_map.1 hp
  rfl

theorem sorted_keyList_strict {m : Graph} (hw : m.WF) (k : String) :
    (sorted (keyList m k)).Pairwise (fun a b => POrd.lt a b = true) :=
  sorted_strict_of_nodup (keyList_nodup hw k)

theorem posIn_cons_ne {α : Type} [DecidableEq α] {a b : α} (l : List α) (h : b ≠ a) :
    posIn (b :: l) a = posIn l a + 1 := List.idxOf_cons_ne l h

theorem posIn_cons_self {α : Type} [DecidableEq α] (a : α) (l : List α) : posIn (a :: l) a = 0 :=
  List.idxOf_cons_self

theorem posIn_lt_length {α : Type} [DecidableEq α] {l : List α} {a : α} (h : a ∈ l) : posIn l a < l.length :=
  List.idxOf_lt_length_iff.2 h

theorem posIn_inj {α : Type} [DecidableEq α] {l : List α} {a b : α} (ha : a ∈ l) (h : posIn l a = posIn l b) :
    a = b := (List.idxOf_inj ha).1 h

theorem idxOf_map_snd {α : Type} [DecidableEq α] (f : Int → α) (l : List (α × Int))
    (h : ∀ p ∈ l, p.1 = f p.2) (a : Int) : (l.map Prod.snd).idxOf a = posIn l (f a, a) := by
  induction l with
  | nil => rfl
  | cons p l ih =>
    have hp := h p (by simp)
    have ih' := ih (fun q hq => h q (by simp [hq]))
    obtain ⟨x, b⟩ := p
    simp only at hp
    subst hp
    by_cases hb : b = a
    · subst hb; rw [posIn_cons_self]; simp
    · have hne : (f b, b) ≠ (f a, a) := fun e => hb (Prod.mk.inj e).2
      rw [List.map_cons, List.idxOf_cons_ne _ hb, posIn_cons_ne _ hne, ih']

theorem sortedLabels_perm (m : Graph) (k : String) : ((sorted (keyList m k)).map Prod.snd).Perm m.nodeList := by
  have := (sorted_perm_self (keyList m k)).map Prod.snd
  rwa [keyList_snd] at this

theorem range_getElem (n : Int) (i : Nat) (h : i < (range n).length) : (range n)[i] = (i : Int) := by
  simp [range]

/-- S7 (bijection part): new labels are `0 .. n-1` -/
theorem sortPos_lt {m : Graph} {k : String} {a : Int} (ha : a ∈ m.nodeList) :
    0 ≤ sortPos m k a ∧ sortPos m k a < m.nodeList.length := by
  unfold sortPos
  have h1 : (seq m k a, a) ∈ sorted (keyList m k) := mem_sorted.2 (mem_keyList ha)
  have h2 := posIn_lt_length h1
  have h3 : (keyList m k).length = m.nodeList.length := by simp [keyList]
  rw [length_sorted, h3] at h2
  omega

/-- S7: the new label order is the order of the keys `(seq a, a)` -/
theorem sortPos_lt_iff {m : Graph} (hw : m.WF) (k : String) {a b : Int} (ha : a ∈ m.nodeList) (hb : b ∈ m.nodeList) :
    sortPos m k a < sortPos m k b ↔ POrd.lt (seq m k a, a) (seq m k b, b) = true := by
  unfold sortPos posIn
  rw [← idxOf_lt_idxOf_iff_of_strict (sorted_keyList_strict hw k) (mem_sorted.2 (mem_keyList ha))
    (mem_sorted.2 (mem_keyList hb))]
  omega

theorem sortPos_inj {m : Graph} (k : String) {a b : Int} (ha : a ∈ m.nodeList)
    (h : sortPos m k a = sortPos m k b) : a = b := by
  unfold sortPos at h
  have h' : posIn (sorted (keyList m k)) (seq m k a, a) = posIn (sorted (keyList m k)) (seq m k b, b) := by
    omega
  have := posIn_inj (mem_sorted.2 (mem_keyList ha)) h'
  exact (Prod.mk.inj this).2

/-- S7: monotone in the atom's own attribute value -/
theorem sortPos_mono {m : Graph} (hw : m.WF) (k : String) {a b : Int} (ha : a ∈ m.nodeList) (hb : b ∈ m.nodeList)
    (h : POrd.lt (attrV m k a) (attrV m k b) = true) : sortPos m k a < sortPos m k b := by
  rw [sortPos_lt_iff hw k ha hb, lt_prod_iff]
  exact Or.inl (seq_lt_of_head_lt h)

/-- S7 for integer-valued attributes (atomic numbers) -/
theorem sortPos_mono_int {m : Graph} (hw : m.WF) (k : String) {a b : Int} (ha : a ∈ m.nodeList) (hb : b ∈ m.nodeList)
    {x y : Int} (hx : m.attr a k = some (Val.int x)) (hy : m.attr b k = some (Val.int y)) (h : x < y) :
    sortPos m k a < sortPos m k b := by
  apply sortPos_mono hw k ha hb
  simp only [attrV, hx, hy, Option.getD_some]
  rw [Contracts.Partition.lt_int_int]
  exact decide_eq_true h

theorem sortGraph_spec {m : Graph} (hw : m.WF) (k : String) :
    (sortGraph m k).WF ∧ (sortGraph m k).nodeList.Perm (range m.numberOfNodes) ∧
    Graph.IsRelabel (sortPos m k) m (sortGraph m k) := by
  have hp := sortedLabels_perm m k
  have hl : ((sorted (keyList m k)).map Prod.snd).length = (range m.numberOfNodes).length := by
    rw [Graph.length_range_numberOfNodes, hp.length_eq]
  have hn : ((sorted (keyList m k)).map Prod.snd).Nodup := hp.nodup_iff.2 hw.nodup_nodeList
  obtain ⟨h1, _, h3, h4⟩ := Graph.relabelCopy_zip_spec hw hp (Graph.nodup_range m.numberOfNodes) hl
  have e : (sorted (keyList m k)).unzip.2 = (sorted (keyList m k)).map Prod.snd := by simp
  unfold sortGraph
  rw [e]
  refine ⟨h1, h3, h4.congr hw ?_⟩
  intro a ha
  rw [Graph.relabelFun_zip hn hl (hp.mem_iff.2 ha), range_getElem]
  unfold sortPos
  rw [idxOf_map_snd (seq m k) _ keyList_form]

/-- Contract of `sort_molecule_by_attribute`: for a well-formed graph all of whose atoms carry `k`, the
result is `sortGraph m k`: well formed, its labels are `0..n-1`, and it is `m` with every atom `a`
renamed to `sortPos m k a` = position of `(attribute_sequence m a k, a)` among the sorted keys. -/
theorem sort_molecule_by_attribute_ok (env : DepEnv) {m : Graph} (hw : m.WF) (k : String) (hc : Carries m k) :
    Tucan.graph_utils.sort_molecule_by_attribute env m k = .ok (sortGraph m k) ∧
    (sortGraph m k).WF ∧ (sortGraph m k).nodeList.Perm (range m.numberOfNodes) ∧
    Graph.IsRelabel (sortPos m k) m (sortGraph m k) := by
  refine ⟨?_, sortGraph_spec hw k⟩
  unfold Tucan.graph_utils.sort_molecule_by_attribute
  rw [listComp_ok _ _ (fun a => some (seq m k a, a))]
  · simp only [ok_bind, pure_eq_ok, pyIter_list, Contracts.Partition.filterMap_some]
    rfl
  · intro a ha
    have ha' : a ∈ m.nodeList := ha
    rw [attribute_sequence_ok env hw a k ha' (hc a ha') (fun n hn => hc n (hw.nbr_mem a n hn))]
    rfl

/-- every label `0..n-1` of the sorted graph is the new label of exactly one atom -/
theorem sortGraph_label {m : Graph} (hw : m.WF) (k : String) {i : Int} (hi : i ∈ (sortGraph m k).nodeList) :
    ∃ a ∈ m.nodeList, sortPos m k a = i := by
  have := (sortGraph_spec hw k).2.2.nodes.mem_iff.1 hi
  obtain ⟨a, ha, e⟩ := List.mem_map.1 this
  exact ⟨a, ha, e⟩

/-- "Atom indices run in blocks of increasing atomic number": in the result, a smaller label never
carries a larger value of `k`. -/
theorem sorted_blocks {m : Graph} (hw : m.WF) (k : String) {i j : Int}
    (hi : i ∈ (sortGraph m k).nodeList) (hj : j ∈ (sortGraph m k).nodeList) (hij : i < j) :
    POrd.lt (attrV (sortGraph m k) k j) (attrV (sortGraph m k) k i) = false := by
  obtain ⟨a, ha, rfl⟩ := sortGraph_label hw k hi
  obtain ⟨b, hb, rfl⟩ := sortGraph_label hw k hj
  have r := (sortGraph_spec hw k).2.2
  cases h : POrd.lt (attrV (sortGraph m k) k (sortPos m k b)) (attrV (sortGraph m k) k (sortPos m k a)) with
  | false => rfl
  | true =>
    unfold attrV at h
    rw [r.attrs a ha k, r.attrs b hb k] at h
    have := sortPos_mono hw k hb ha h
    omega

/-- integer version of `sorted_blocks` (atomic numbers) -/
theorem sorted_blocks_int {m : Graph} (hw : m.WF) (k : String) {i j x y : Int}
    (hi : i ∈ (sortGraph m k).nodeList) (hj : j ∈ (sortGraph m k).nodeList) (hij : i < j)
    (hx : (sortGraph m k).attr i k = some (Val.int x)) (hy : (sortGraph m k).attr j k = some (Val.int y)) :
    x ≤ y := by
  have := sorted_blocks hw k hi hj hij
  simp only [attrV, hx, hy, Option.getD_some] at this
  rw [Contracts.Partition.lt_int_int] at this
  simpa using this

/-! ## 2. the composition `serialize_molecule` -/

/-- the emitted string: formula "/" tuples [ "/" attribute-blocks ] -/
def tucanSpec (ms : Graph) : Str :=
  sumFormulaSpec ms ++ py!"/" ++ edgeListSpec ms ++
    (if nodeAttrsSpec ms = [] then [] else py!"/" ++ nodeAttrsSpec ms)

theorem serialize_molecule_eq (env : DepEnv) (fuel : Nat) (m m₁ m' : Graph)
    (h : Tucan.serialization._assign_final_labels env fuel m
      [(fun a b => pyLt a b), (fun a b => pyGt a b), (fun a b => pyEq a b)] = .ok (m₁, m'))
    (hw : m₁.WF) (hc : Carries m₁ "atomic_number") :
    Tucan.serialization.serialize_molecule env fuel m
      = .ok (tucanSpec (sortGraph m₁ "atomic_number"), m') := by
  unfold Tucan.serialization.serialize_molecule
  simp only [h, ok_bind, (sort_molecule_by_attribute_ok env hw "atomic_number" hc).1,
    write_sum_formula_ok, write_edge_list_ok, write_node_attributes_ok, pure_eq_ok, pyAdd_list]
  unfold tucanSpec
  by_cases hn : nodeAttrsSpec (sortGraph m₁ "atomic_number") = []
  · simp [hn, truthy, Truthy.truthy, pyStr, PyStr.pyStr]
  · have : (nodeAttrsSpec (sortGraph m₁ "atomic_number")).isEmpty = false := by simpa using hn
    simp [hn, this, truthy, Truthy.truthy, pyStr, PyStr.pyStr]

/-! ## 3. layout of the three sections -/

theorem mem_range_iff (n x : Int) : x ∈ range n ↔ 0 ≤ x ∧ x < n := by
  simp only [range, List.mem_map, List.mem_range]
  constructor
  · rintro ⟨a, ha, rfl⟩
    simp only [Int.ofNat_eq_natCast]
    omega
  · rintro ⟨h1, h2⟩
    exact ⟨x.toNat, by omega, by simp only [Int.ofNat_eq_natCast]; omega⟩

/-- no-self-loops is preserved by relabelling -/
theorem loopless_relabel {π : Int → Int} {g h : Graph} (r : Graph.IsRelabel π g h) (hg : g.WF) (hh : h.WF)
    (hl : g.Loopless) : h.Loopless := by
  intro u hu
  have hun : u ∈ h.nodeList := hh.nbr_mem u u hu
  obtain ⟨a, ha, rfl⟩ := List.mem_map.1 (r.nodes.mem_iff.1 hun)
  obtain ⟨v, hv, e⟩ := List.mem_map.1 ((r.nbrs a ha).mem_iff.1 hu)
  have := r.inj v (hg.nbr_mem a v hv) a ha e
  subst this
  exact hl v hv

/-! ### 3a. bond tuples -/

/-- the printed bonds: each as (smaller label, larger label), in ascending order -/
def bondList (m : Graph) : List (Int × Int) := sorted (m.edges.map normEdge)

theorem edgeListSpec_eq (m : Graph) : edgeListSpec m = ((bondList m).map renderEdge).flatten := rfl

theorem normEdge_eq_iff (p q : Int × Int) : normEdge p = normEdge q ↔ p = q ∨ p = (q.2, q.1) := by
  obtain ⟨a, b⟩ := p
  obtain ⟨c, d⟩ := q
  simp only [normEdge, Prod.mk.injEq]
  omega

theorem nodup_normEdges {g : Graph} (hg : g.WF) : (g.edges.map normEdge).Nodup := by
  refine List.Nodup.map_on ?_ (Graph.nodup_edges hg)
  intro p hp q hq e
  rcases (normEdge_eq_iff p q).1 e with h | h
  · exact h
  · obtain ⟨c, d⟩ := q
    subst h
    by_cases hcd : c = d
    · subst hcd; rfl
    · exact absurd hp (Graph.edges_antisymm hg hq hcd)

theorem edges_no_loop {g : Graph} (hg : g.WF) (hl : g.Loopless) : ∀ e ∈ g.edges, e.1 ≠ e.2 := by
  rintro ⟨u, v⟩ he huv
  simp only at huv
  subst huv
  exact hl u (Graph.mem_edges_imp hg he)

theorem mem_bondList {g : Graph} (hg : g.WF) (e : Int × Int) :
    e ∈ bondList g ↔ e.1 ≤ e.2 ∧ e.2 ∈ g.nbrs e.1 := by
  unfold bondList
  rw [mem_sorted, List.mem_map]
  constructor
  · rintro ⟨⟨u, v⟩, hp, rfl⟩
    have h1 := Graph.mem_edges_imp hg hp
    have h2 := hg.mem_nbrs_symm h1
    simp only [normEdge]
    refine ⟨by omega, ?_⟩
    rcases le_total u v with h | h
    · rw [min_eq_left h, max_eq_right h]; exact h1
    · rw [min_eq_right h, max_eq_left h]; exact h2
  · rintro ⟨hle, hn⟩
    obtain ⟨u, v⟩ := e
    simp only at hle hn
    rcases Graph.mem_edges_of_nbrs hg hn with h | h
    · exact ⟨(u, v), h, by simp [normEdge, hle]⟩
    · exact ⟨(v, u), h, by simp [normEdge, hle]⟩

/-- Layout of the tuple section for a well-formed, loop-free graph with labels `0..n-1`:
every printed tuple `(a-b)` (`a = e.1+1`, `b = e.2+1`) has `1 ≤ a < b ≤ n`; the tuples are strictly
ascending (lexicographically); the tuples are exactly the bonds, each bond exactly once. -/
theorem tuples_layout {ms : Graph} {n : Int} (hw : ms.WF) (hl : ms.Loopless) (hn : ms.nodeList.Perm (range n)) :
    (∀ e ∈ bondList ms, 1 ≤ e.1 + 1 ∧ e.1 + 1 < e.2 + 1 ∧ e.2 + 1 ≤ n) ∧
    (bondList ms).Pairwise (fun a b => a.1 < b.1 ∨ (a.1 = b.1 ∧ a.2 < b.2)) ∧
    (∀ e ∈ bondList ms, e.2 ∈ ms.nbrs e.1) ∧
    (∀ u v, v ∈ ms.nbrs u → (bondList ms).count (min u v, max u v) = 1) := by
  have hnd := nodup_normEdges hw
  refine ⟨?_, ?_, ?_, ?_⟩
  · intro e he
    have hlt := edge_list_lt ms (edges_no_loop hw hl) e he
    have hm := ((mem_bondList hw e).1 he).2
    have h2 : e.2 ∈ ms.nodeList := hw.nbr_mem _ _ hm
    have h1 : e.1 ∈ ms.nodeList := hw.nbr_mem _ _ (hw.mem_nbrs_symm hm)
    have h1' := (mem_range_iff n e.1).1 (hn.mem_iff.1 h1)
    have h2' := (mem_range_iff n e.2).1 (hn.mem_iff.1 h2)
    omega
  · refine (edge_list_strict ms hnd).imp ?_
    intro a b hab
    have := (lt_prod_iff a b).1 hab
    simpa [POrd.lt] using this
  · intro e he
    exact ((mem_bondList hw e).1 he).2
  · intro u v huv
    apply List.count_eq_one_of_mem (sorted_nodup hnd)
    rw [← bondList, mem_bondList hw]
    refine ⟨by simp, ?_⟩
    rcases le_total u v with h | h
    · rw [min_eq_left h, max_eq_right h]; exact huv
    · rw [min_eq_right h, max_eq_left h]; exact hw.mem_nbrs_symm huv

/-! ### 3b. attribute blocks -/

/-- an atom is "labelled" when it has a mass or a rad entry -/
def hasProps (a : Attrs) : Bool := (a.get? "mass").isSome || (a.get? "rad").isSome

/-- one non-empty block `(index:prop[,prop])` -/
def blockStr (p : Int × Attrs) : Str :=
  py!"(" ++ pyStrInt (p.1 + 1) ++ py!":" ++ join py!"," (renderProps p.2) ++ py!")"

/-- the labelled atoms with their attribute dicts, by ascending label -/
def labelled (m : Graph) : List (Int × Attrs) := (sortedKey Prod.fst m.nodesData).filter (fun p => hasProps p.2)

/-- `mass` is printed before `rad` -/
theorem renderProps_eq (a : Attrs) : renderProps a =
    ((a.get? "mass").map (fun v => py!"mass=" ++ pyStr v)).toList ++
    ((a.get? "rad").map (fun v => py!"rad=" ++ pyStr v)).toList := by
  simp only [renderProps, List.filterMap]
  cases a.get? "mass" <;> cases a.get? "rad" <;> rfl

theorem renderProps_eq_nil_iff (a : Attrs) : renderProps a = [] ↔ hasProps a = false := by
  rw [renderProps_eq, hasProps]
  cases a.get? "mass" <;> cases a.get? "rad" <;> simp

theorem renderBlock_eq (p : Int × Attrs) : renderBlock p = if hasProps p.2 then blockStr p else [] := by
  unfold renderBlock blockStr
  by_cases h : hasProps p.2 = true
  · have : renderProps p.2 ≠ [] := by
      rw [Ne, renderProps_eq_nil_iff]; simp [h]
    simp [h, this]
  · have h' : hasProps p.2 = false := by simpa using h
    simp [h', (renderProps_eq_nil_iff p.2).2 h']

theorem flatten_renderBlock (l : List (Int × Attrs)) :
    (l.map renderBlock).flatten = ((l.filter (fun p => hasProps p.2)).map blockStr).flatten := by
  induction l with
  | nil => rfl
  | cons p l ih =>
    by_cases h : hasProps p.2 = true
    · simp [List.filter_cons, h, renderBlock_eq, ih]
    · have h' : hasProps p.2 = false := by simpa using h
      simp [List.filter_cons, h', renderBlock_eq, ih]

theorem nodeAttrsSpec_eq (m : Graph) : nodeAttrsSpec m = ((labelled m).map blockStr).flatten := by
  unfold nodeAttrsSpec labelled
  exact flatten_renderBlock _

/-- Layout of the attribute section for a well-formed graph with labels `0..n-1`:
the blocks belong to exactly the atoms that have a mass or rad entry (with that atom's attribute dict),
in strictly ascending index order (hence once per atom), indices within `1..n`. Inside a block `mass`
comes before `rad` (`renderProps_eq`). -/
theorem blocks_layout {ms : Graph} {n : Int} (hw : ms.WF) (hn : ms.nodeList.Perm (range n)) :
    (labelled ms).Pairwise (fun p q => p.1 < q.1) ∧
    (∀ p, p ∈ labelled ms ↔ ms.node.get? p.1 = some p.2 ∧ hasProps p.2 = true) ∧
    (∀ p ∈ labelled ms, 1 ≤ p.1 + 1 ∧ p.1 + 1 ≤ n) := by
  have hmem : ∀ p, p ∈ labelled ms ↔ ms.node.get? p.1 = some p.2 ∧ hasProps p.2 = true := by
    intro p
    unfold labelled
    rw [List.mem_filter, mem_sortedKey]
    constructor
    · rintro ⟨h1, h2⟩
      exact ⟨Dict.get?_of_mem_items hw.node_wf h1, h2⟩
    · rintro ⟨h1, h2⟩
      exact ⟨Dict.mem_items_of_get? h1, h2⟩
  refine ⟨?_, hmem, ?_⟩
  · have hnd : (ms.nodesData.map Prod.fst).Nodup := hw.node_wf
    have := sortedKey_strict (f := Prod.fst) hnd
    refine (this.sublist List.filter_sublist).imp ?_
    intro a b hab
    simpa [POrd.lt] using hab
  · intro p hp
    have h1 := ((hmem p).1 hp).1
    have := (mem_range_iff n p.1).1 (hn.mem_iff.1 (Graph.mem_nodeList_of_get? h1))
    omega

/-! ### 3c. sum formula -/

/-- the element symbols of the atoms, in node order -/
theorem symbolsOf_eq {m : Graph} (hw : m.WF) :
    symbolsOf m = m.nodeList.filterMap (fun a => (m.attr a "element_symbol").map Val.asStr) := by
  unfold symbolsOf
  rw [Contracts.Partition.values_getNodeAttributes, Graph.nodeList, Dict.keys, List.filterMap_map, List.map_filterMap]
  apply List.filterMap_congr
  intro p hp
  have h1 : m.node.get? p.1 = some p.2 := Dict.get?_of_mem_items hw.node_wf hp
  simp only [Function.comp, Graph.attr, h1, Option.bind_some]

/-- relabelling does not change the multiset of element symbols -/
theorem symbolsOf_relabel {π : Int → Int} {g h : Graph} (r : Graph.IsRelabel π g h) (hg : g.WF) (hh : h.WF) :
    (symbolsOf h).Perm (symbolsOf g) := by
  rw [symbolsOf_eq hg, symbolsOf_eq hh]
  refine (r.nodes.filterMap _).trans ?_
  rw [List.filterMap_map]
  rw [List.filterMap_congr]
  intro a ha
  simp only [Function.comp, r.attrs a ha]

theorem hillOrder_nodup (syms : List Str) : (hillOrder syms).Nodup :=
  (hillOrder_perm syms).nodup_iff.2 (List.nodup_dedup syms)

theorem mem_hillOrder (syms : List Str) (s : Str) : s ∈ hillOrder syms ↔ s ∈ syms := by
  rw [(hillOrder_perm syms).mem_iff, List.mem_dedup]

/-- the symbols other than C and H, alphabetically -/
def restSorted (syms : List Str) : List Str := sorted (syms.dedup.filter (fun s => s ≠ py!"C" ∧ s ≠ py!"H"))

theorem restSorted_strict (syms : List Str) : (restSorted syms).Pairwise (fun a b => POrd.lt a b = true) :=
  sorted_strict_of_nodup ((List.nodup_dedup syms).filter _)

theorem mem_restSorted (syms : List Str) (s : Str) : s ∈ restSorted syms ↔ s ∈ syms ∧ s ≠ py!"C" ∧ s ≠ py!"H" := by
  simp [restSorted]

/-- Hill order with carbon: C, then H if present, then the rest alphabetically -/
theorem hillOrder_carbon (syms : List Str) (hc : py!"C" ∈ syms) :
    hillOrder syms = py!"C" :: ((if py!"H" ∈ syms then [py!"H"] else []) ++ restSorted syms) := by
  unfold hillOrder restSorted
  simp only [List.mem_dedup, hc, if_true]

/-- Hill order without carbon: all symbols alphabetically -/
theorem hillOrder_no_carbon (syms : List Str) (hc : py!"C" ∉ syms) :
    hillOrder syms = sorted syms.dedup ∧ (hillOrder syms).Pairwise (fun a b => POrd.lt a b = true) := by
  have : hillOrder syms = sorted syms.dedup := by
    unfold hillOrder
    simp only [List.mem_dedup, hc, if_false]
  rw [this]
  exact ⟨rfl, sorted_dedup_strict syms⟩

/-- Layout of the sum formula: `sumFormulaSpec m` lists every element symbol occurring in the molecule
exactly once (in Hill order, see `hillOrder_carbon` / `hillOrder_no_carbon`), each followed by the number
of atoms having that symbol when that number exceeds 1; the counts add up to the number of atoms that
have a symbol. -/
theorem formula_layout (m : Graph) :
    sumFormulaSpec m = ((hillOrder (symbolsOf m)).map (fun s => renderElem s ((symbolsOf m).count s))).flatten ∧
    (hillOrder (symbolsOf m)).Nodup ∧
    (∀ s, s ∈ hillOrder (symbolsOf m) ↔ s ∈ symbolsOf m) ∧
    (∀ s ∈ hillOrder (symbolsOf m), 1 ≤ (symbolsOf m).count s) ∧
    ((hillOrder (symbolsOf m)).map (fun s => (symbolsOf m).count s)).sum = (symbolsOf m).length := by
  refine ⟨rfl, hillOrder_nodup _, mem_hillOrder _, ?_, ?_⟩
  · intro s hs
    exact List.count_pos_iff.2 ((mem_hillOrder _ s).1 hs)
  · rw [((hillOrder_perm (symbolsOf m)).map _).sum_eq]
    simp only [count_inst]
    exact List.sum_map_count_dedup_eq_length (symbolsOf m)

end Contracts.Layout
