/-
Contracts.Layout — property C05: every string the pipeline emits is a sentence of the published
TUCAN grammar (tucan/parser/tucan.ebnf): a Hill-order sum formula equal to the molecule's element
counts, then bond tuples, then optional attribute blocks with strictly positive values. Atom
indices run 1..n in blocks of increasing atomic number, each bond appears exactly once as (a-b)
with a<b, tuples ascending, attribute blocks once per labelled atom in ascending index order.

1. `sort_molecule_by_attribute_ok` (+ `sortPos_*`, `sorted_blocks`)
2. `serialize_molecule_eq`
3. layout theorems on the three sections
4. the EBNF transcribed (`Grammar.*`) and membership of the emitted string
-/
import Generated.Serialization
import Spec.Order
import Spec.GraphView
import Spec.GraphLemmas
import Contracts.Partition
import Contracts.Serialize
set_option autoImplicit false
set_option linter.unusedSimpArgs false
set_option linter.unusedVariables false
open Py

namespace Contracts.Layout
open Contracts.Partition (attrV seq Carries attribute_sequence_ok seq_lt_of_head_lt)
open Contracts.Serialize

/-! ## 1. `sort_molecule_by_attribute` -/

/-- the sort keys of `sort_molecule_by_attribute`: (own value :: neighbours' values descending, label) -/
def keyList (m : Graph) (k : String) : List (List Val × Int) := m.nodeList.map (fun a => (seq m k a, a))

/-- position of `a` in `l` (w.r.t. decidable equality) -/
def posIn {α : Type} [DecidableEq α] (l : List α) (a : α) : Nat := l.idxOf a

/-- new label of atom `a`: the position of its key among the sorted keys -/
def sortPos (m : Graph) (k : String) (a : Int) : Int :=
  ((posIn (sorted (keyList m k)) (seq m k a, a) : Nat) : Int)

/-- the relabelled graph -/
def sortGraph (m : Graph) (k : String) : Graph :=
  m.relabelCopy (Dict.ofPairs (zip (sorted (keyList m k)).unzip.2 (range m.numberOfNodes)))

theorem keyList_snd (m : Graph) (k : String) : (keyList m k).map Prod.snd = m.nodeList := by
  simp [keyList, List.map_map, Function.comp_def]

theorem keyList_nodup {m : Graph} (hw : m.WF) (k : String) : (keyList m k).Nodup := by
  have h : ((keyList m k).map Prod.snd).Nodup := by rw [keyList_snd]; exact hw.nodup_nodeList
  exact List.Nodup.of_map _ h

theorem mem_keyList {m : Graph} {k : String} {a : Int} (ha : a ∈ m.nodeList) : (seq m k a, a) ∈ keyList m k :=
  List.mem_map.2 ⟨a, ha, rfl⟩

theorem keyList_form {m : Graph} {k : String} : ∀ p ∈ sorted (keyList m k), p.1 = seq m k p.2 := by
  intro p hp
  rw [mem_sorted] at hp
  obtain ⟨a, _, rfl⟩ := List.mem_map.1 hp
  rfl

theorem sorted_keyList_strict {m : Graph} (hw : m.WF) (k : String) :
    (sorted (keyList m k)).Pairwise (fun a b => POrd.lt a b = true) :=
  sorted_strict_of_nodup (keyList_nodup hw k)

theorem posIn_cons_ne {α : Type} [DecidableEq α] {a b : α} (l : List α) (h : b ≠ a) :
    posIn (b :: l) a = posIn l a + 1 := List.idxOf_cons_ne l h

theorem posIn_cons_self {α : Type} [DecidableEq α] (a : α) (l : List α) : posIn (a :: l) a = 0 :=
  List.idxOf_cons_self

theorem posIn_lt_length {α : Type} [DecidableEq α] {l : List α} {a : α} (h : a ∈ l) : posIn l a < l.length :=
  List.idxOf_lt_length_iff.2 h

theorem posIn_inj {α : Type} [DecidableEq α] {l : List α} {a b : α} (ha : a ∈ l) (h : posIn l a = posIn l b) :
    a = b := (List.idxOf_inj ha).1 h

theorem idxOf_map_snd {α : Type} [DecidableEq α] (f : Int → α) (l : List (α × Int))
    (h : ∀ p ∈ l, p.1 = f p.2) (a : Int) : (l.map Prod.snd).idxOf a = posIn l (f a, a) := by
  induction l with
  | nil => rfl
  | cons p l ih =>
    have hp := h p (by simp)
    have ih' := ih (fun q hq => h q (by simp [hq]))
    obtain ⟨x, b⟩ := p
    simp only at hp
    subst hp
    by_cases hb : b = a
    · subst hb; rw [posIn_cons_self]; simp
    · have hne : (f b, b) ≠ (f a, a) := fun e => hb (Prod.mk.inj e).2
      rw [List.map_cons, List.idxOf_cons_ne _ hb, posIn_cons_ne _ hne, ih']

theorem sortedLabels_perm (m : Graph) (k : String) : ((sorted (keyList m k)).map Prod.snd).Perm m.nodeList := by
  have := (sorted_perm_self (keyList m k)).map Prod.snd
  rwa [keyList_snd] at this

theorem mem_range_iff (n x : Int) : x ∈ range n ↔ 0 ≤ x ∧ x < n := by
  simp only [range, List.mem_map, List.mem_range]
  constructor
  · rintro ⟨a, ha, rfl⟩
    simp only [Int.ofNat_eq_natCast]
    omega
  · rintro ⟨h1, h2⟩
    exact ⟨x.toNat, by omega, by simp only [Int.ofNat_eq_natCast]; omega⟩

theorem range_getElem (n : Int) (i : Nat) (h : i < (range n).length) : (range n)[i] = (i : Int) := by
  simp [range]

/-- S7 (bijection part): new labels are `0 .. n-1` -/
theorem sortPos_lt {m : Graph} {k : String} {a : Int} (ha : a ∈ m.nodeList) :
    0 ≤ sortPos m k a ∧ sortPos m k a < m.nodeList.length := by
  unfold sortPos
  have h1 : (seq m k a, a) ∈ sorted (keyList m k) := mem_sorted.2 (mem_keyList ha)
  have h2 := posIn_lt_length h1
  have h3 : (keyList m k).length = m.nodeList.length := by simp [keyList]
  rw [length_sorted, h3] at h2
  omega

/-- S7: the new label order is the order of the keys `(seq a, a)` -/
theorem sortPos_lt_iff {m : Graph} (hw : m.WF) (k : String) {a b : Int} (ha : a ∈ m.nodeList) (hb : b ∈ m.nodeList) :
    sortPos m k a < sortPos m k b ↔ POrd.lt (seq m k a, a) (seq m k b, b) = true := by
  unfold sortPos posIn
  rw [← idxOf_lt_idxOf_iff_of_strict (sorted_keyList_strict hw k) (mem_sorted.2 (mem_keyList ha))
    (mem_sorted.2 (mem_keyList hb))]
  omega

theorem sortPos_inj {m : Graph} (k : String) {a b : Int} (ha : a ∈ m.nodeList)
    (h : sortPos m k a = sortPos m k b) : a = b := by
  unfold sortPos at h
  have h' : posIn (sorted (keyList m k)) (seq m k a, a) = posIn (sorted (keyList m k)) (seq m k b, b) := by
    omega
  have := posIn_inj (mem_sorted.2 (mem_keyList ha)) h'
  exact (Prod.mk.inj this).2

/-- S7: monotone in the atom's own attribute value -/
theorem sortPos_mono {m : Graph} (hw : m.WF) (k : String) {a b : Int} (ha : a ∈ m.nodeList) (hb : b ∈ m.nodeList)
    (h : POrd.lt (attrV m k a) (attrV m k b) = true) : sortPos m k a < sortPos m k b := by
  rw [sortPos_lt_iff hw k ha hb, lt_prod_iff]
  exact Or.inl (seq_lt_of_head_lt h)

/-- S7 for integer-valued attributes (atomic numbers) -/
theorem sortPos_mono_int {m : Graph} (hw : m.WF) (k : String) {a b : Int} (ha : a ∈ m.nodeList) (hb : b ∈ m.nodeList)
    {x y : Int} (hx : m.attr a k = some (Val.int x)) (hy : m.attr b k = some (Val.int y)) (h : x < y) :
    sortPos m k a < sortPos m k b := by
  apply sortPos_mono hw k ha hb
  simp only [attrV, hx, hy, Option.getD_some]
  rw [Contracts.Partition.lt_int_int]
  exact decide_eq_true h

theorem sortGraph_spec {m : Graph} (hw : m.WF) (k : String) :
    (sortGraph m k).WF ∧ (sortGraph m k).nodeList.Perm (range m.numberOfNodes) ∧
    Graph.IsRelabel (sortPos m k) m (sortGraph m k) := by
  have hp := sortedLabels_perm m k
  have hl : ((sorted (keyList m k)).map Prod.snd).length = (range m.numberOfNodes).length := by
    rw [Graph.length_range_numberOfNodes, hp.length_eq]
  have hn : ((sorted (keyList m k)).map Prod.snd).Nodup := hp.nodup_iff.2 hw.nodup_nodeList
  obtain ⟨h1, _, h3, h4⟩ := Graph.relabelCopy_zip_spec hw hp (Graph.nodup_range m.numberOfNodes) hl
  have e : (sorted (keyList m k)).unzip.2 = (sorted (keyList m k)).map Prod.snd := by simp
  unfold sortGraph
  rw [e]
  refine ⟨h1, h3, h4.congr hw ?_⟩
  intro a ha
  rw [Graph.relabelFun_zip hn hl (hp.mem_iff.2 ha), range_getElem]
  unfold sortPos
  rw [idxOf_map_snd (seq m k) _ keyList_form]

/-- Contract of `sort_molecule_by_attribute`: for a well-formed graph all of whose atoms carry `k`, the
result is `sortGraph m k`: well formed, its labels are `0..n-1`, and it is `m` with every atom `a`
renamed to `sortPos m k a` = position of `(attribute_sequence m a k, a)` among the sorted keys. -/
theorem sort_molecule_by_attribute_ok (env : DepEnv) {m : Graph} (hw : m.WF) (k : String) (hc : Carries m k) :
    Tucan.graph_utils.sort_molecule_by_attribute env m k = .ok (sortGraph m k) ∧
    (sortGraph m k).WF ∧ (sortGraph m k).nodeList.Perm (range m.numberOfNodes) ∧
    Graph.IsRelabel (sortPos m k) m (sortGraph m k) := by
  refine ⟨?_, sortGraph_spec hw k⟩
  unfold Tucan.graph_utils.sort_molecule_by_attribute
  rw [listComp_ok _ _ (fun a => some (seq m k a, a))]
  · simp only [ok_bind, pure_eq_ok, pyIter_list, Contracts.Partition.filterMap_some]
    rfl
  · intro a ha
    have ha' : a ∈ m.nodeList := ha
    rw [attribute_sequence_ok env hw a k ha' (hc a ha') (fun n hn => hc n (hw.nbr_mem a n hn))]
    rfl

/-- every label `0..n-1` of the sorted graph is the new label of exactly one atom -/
theorem sortGraph_label {m : Graph} (hw : m.WF) (k : String) {i : Int} (hi : i ∈ (sortGraph m k).nodeList) :
    ∃ a ∈ m.nodeList, sortPos m k a = i := by
  have := (sortGraph_spec hw k).2.2.nodes.mem_iff.1 hi
  obtain ⟨a, ha, e⟩ := List.mem_map.1 this
  exact ⟨a, ha, e⟩

/-- S7 (bijection part): every `i` with `0 ≤ i < n` is the new label of some atom -/
theorem sortPos_surj {m : Graph} (hw : m.WF) (k : String) {i : Int} (h0 : 0 ≤ i) (h1 : i < m.numberOfNodes) :
    ∃ a ∈ m.nodeList, sortPos m k a = i :=
  sortGraph_label hw k ((sortGraph_spec hw k).2.1.mem_iff.2 ((mem_range_iff _ i).2 ⟨h0, h1⟩))

/-- "Atom indices run in blocks of increasing atomic number": in the result, a smaller label never
carries a larger value of `k`. -/
theorem sorted_blocks {m : Graph} (hw : m.WF) (k : String) {i j : Int}
    (hi : i ∈ (sortGraph m k).nodeList) (hj : j ∈ (sortGraph m k).nodeList) (hij : i < j) :
    POrd.lt (attrV (sortGraph m k) k j) (attrV (sortGraph m k) k i) = false := by
  obtain ⟨a, ha, rfl⟩ := sortGraph_label hw k hi
  obtain ⟨b, hb, rfl⟩ := sortGraph_label hw k hj
  have r := (sortGraph_spec hw k).2.2
  cases h : POrd.lt (attrV (sortGraph m k) k (sortPos m k b)) (attrV (sortGraph m k) k (sortPos m k a)) with
  | false => rfl
  | true =>
    unfold attrV at h
    rw [r.attrs a ha k, r.attrs b hb k] at h
    have := sortPos_mono hw k hb ha h
    omega

/-- integer version of `sorted_blocks` (atomic numbers) -/
theorem sorted_blocks_int {m : Graph} (hw : m.WF) (k : String) {i j x y : Int}
    (hi : i ∈ (sortGraph m k).nodeList) (hj : j ∈ (sortGraph m k).nodeList) (hij : i < j)
    (hx : (sortGraph m k).attr i k = some (Val.int x)) (hy : (sortGraph m k).attr j k = some (Val.int y)) :
    x ≤ y := by
  have := sorted_blocks hw k hi hj hij
  simp only [attrV, hx, hy, Option.getD_some] at this
  rw [Contracts.Partition.lt_int_int] at this
  simpa using this

/-! ## 2. the composition `serialize_molecule` -/

/-- the emitted string: formula "/" tuples [ "/" attribute-blocks ] -/
def tucanSpec (ms : Graph) : Str :=
  sumFormulaSpec ms ++ py!"/" ++ edgeListSpec ms ++
    (if nodeAttrsSpec ms = [] then [] else py!"/" ++ nodeAttrsSpec ms)

theorem serialize_molecule_eq (env : DepEnv) (fuel : Nat) (m m₁ m' : Graph)
    (h : Tucan.serialization._assign_final_labels env fuel m
      [(fun a b => pyLt a b), (fun a b => pyGt a b), (fun a b => pyEq a b)] = .ok (m₁, m'))
    (hw : m₁.WF) (hc : Carries m₁ "atomic_number") :
    Tucan.serialization.serialize_molecule env fuel m
      = .ok (tucanSpec (sortGraph m₁ "atomic_number"), m') := by
  unfold Tucan.serialization.serialize_molecule
  simp only [h, ok_bind, (sort_molecule_by_attribute_ok env hw "atomic_number" hc).1,
    write_sum_formula_ok, write_edge_list_ok, write_node_attributes_ok, pure_eq_ok, pyAdd_list]
  unfold tucanSpec
  by_cases hn : nodeAttrsSpec (sortGraph m₁ "atomic_number") = []
  · simp [hn, truthy, Truthy.truthy, pyStr, PyStr.pyStr]
  · have : (nodeAttrsSpec (sortGraph m₁ "atomic_number")).isEmpty = false := by simpa using hn
    simp [hn, this, truthy, Truthy.truthy, pyStr, PyStr.pyStr]

/-! ## 3. layout of the three sections -/

/-- no-self-loops is preserved by relabelling -/
theorem loopless_relabel {π : Int → Int} {g h : Graph} (r : Graph.IsRelabel π g h) (hg : g.WF) (hh : h.WF)
    (hl : g.Loopless) : h.Loopless := by
  intro u hu
  have hun : u ∈ h.nodeList := hh.nbr_mem u u hu
  obtain ⟨a, ha, rfl⟩ := List.mem_map.1 (r.nodes.mem_iff.1 hun)
  obtain ⟨v, hv, e⟩ := List.mem_map.1 ((r.nbrs a ha).mem_iff.1 hu)
  have := r.inj v (hg.nbr_mem a v hv) a ha e
  subst this
  exact hl v hv

/-! ### 3a. bond tuples -/

/-- the printed bonds: each as (smaller label, larger label), in ascending order -/
def bondList (m : Graph) : List (Int × Int) := sorted (m.edges.map normEdge)

theorem edgeListSpec_eq (m : Graph) : edgeListSpec m = ((bondList m).map renderEdge).flatten := rfl

theorem normEdge_eq_iff (p q : Int × Int) : normEdge p = normEdge q ↔ p = q ∨ p = (q.2, q.1) := by
  obtain ⟨a, b⟩ := p
  obtain ⟨c, d⟩ := q
  simp only [normEdge, Prod.mk.injEq]
  omega

theorem nodup_normEdges {g : Graph} (hg : g.WF) : (g.edges.map normEdge).Nodup := by
  refine List.Nodup.map_on ?_ (Graph.nodup_edges hg)
  intro p hp q hq e
  rcases (normEdge_eq_iff p q).1 e with h | h
  · exact h
  · obtain ⟨c, d⟩ := q
    subst h
    by_cases hcd : c = d
    · subst hcd; rfl
    · exact absurd hp (Graph.edges_antisymm hg hq hcd)

theorem edges_no_loop {g : Graph} (hg : g.WF) (hl : g.Loopless) : ∀ e ∈ g.edges, e.1 ≠ e.2 := by
  rintro ⟨u, v⟩ he huv
  simp only at huv
  subst huv
  exact hl u (Graph.mem_edges_imp hg he)

theorem mem_bondList {g : Graph} (hg : g.WF) (e : Int × Int) :
    e ∈ bondList g ↔ e.1 ≤ e.2 ∧ e.2 ∈ g.nbrs e.1 := by
  unfold bondList
  rw [mem_sorted, List.mem_map]
  constructor
  · rintro ⟨⟨u, v⟩, hp, rfl⟩
    have h1 := Graph.mem_edges_imp hg hp
    have h2 := hg.mem_nbrs_symm h1
    simp only [normEdge]
    refine ⟨by omega, ?_⟩
    rcases le_total u v with h | h
    · rw [min_eq_left h, max_eq_right h]; exact h1
    · rw [min_eq_right h, max_eq_left h]; exact h2
  · rintro ⟨hle, hn⟩
    obtain ⟨u, v⟩ := e
    simp only at hle hn
    rcases Graph.mem_edges_of_nbrs hg hn with h | h
    · exact ⟨(u, v), h, by simp [normEdge, hle]⟩
    · exact ⟨(v, u), h, by simp [normEdge, hle]⟩

/-- Layout of the tuple section for a well-formed, loop-free graph with labels `0..n-1`:
every printed tuple `(a-b)` (`a = e.1+1`, `b = e.2+1`) has `1 ≤ a < b ≤ n`; the tuples are strictly
ascending (lexicographically); the tuples are exactly the bonds, each bond exactly once. -/
theorem tuples_layout {ms : Graph} {n : Int} (hw : ms.WF) (hl : ms.Loopless) (hn : ms.nodeList.Perm (range n)) :
    (∀ e ∈ bondList ms, 1 ≤ e.1 + 1 ∧ e.1 + 1 < e.2 + 1 ∧ e.2 + 1 ≤ n) ∧
    (bondList ms).Pairwise (fun a b => a.1 < b.1 ∨ (a.1 = b.1 ∧ a.2 < b.2)) ∧
    (∀ e ∈ bondList ms, e.2 ∈ ms.nbrs e.1) ∧
    (∀ u v, v ∈ ms.nbrs u → (bondList ms).count (min u v, max u v) = 1) := by
  have hnd := nodup_normEdges hw
  refine ⟨?_, ?_, ?_, ?_⟩
  · intro e he
    have hlt := edge_list_lt ms (edges_no_loop hw hl) e he
    have hm := ((mem_bondList hw e).1 he).2
    have h2 : e.2 ∈ ms.nodeList := hw.nbr_mem _ _ hm
    have h1 : e.1 ∈ ms.nodeList := hw.nbr_mem _ _ (hw.mem_nbrs_symm hm)
    have h1' := (mem_range_iff n e.1).1 (hn.mem_iff.1 h1)
    have h2' := (mem_range_iff n e.2).1 (hn.mem_iff.1 h2)
    omega
  · refine (edge_list_strict ms hnd).imp ?_
    intro a b hab
    have := (lt_prod_iff a b).1 hab
    simpa [POrd.lt] using this
  · intro e he
    exact ((mem_bondList hw e).1 he).2
  · intro u v huv
    apply List.count_eq_one_of_mem (sorted_nodup hnd)
    rw [← bondList, mem_bondList hw]
    refine ⟨by simp, ?_⟩
    rcases le_total u v with h | h
    · rw [min_eq_left h, max_eq_right h]; exact huv
    · rw [min_eq_right h, max_eq_left h]; exact hw.mem_nbrs_symm huv

/-! ### 3b. attribute blocks -/

/-- an atom is "labelled" when it has a mass or a rad entry -/
def hasProps (a : Attrs) : Bool := (a.get? "mass").isSome || (a.get? "rad").isSome

/-- one non-empty block `(index:prop[,prop])` -/
def blockStr (p : Int × Attrs) : Str :=
  py!"(" ++ pyStrInt (p.1 + 1) ++ py!":" ++ join py!"," (renderProps p.2) ++ py!")"

/-- the labelled atoms with their attribute dicts, by ascending label -/
def labelled (m : Graph) : List (Int × Attrs) := (sortedKey Prod.fst m.nodesData).filter (fun p => hasProps p.2)

/-- `mass` is printed before `rad` -/
theorem renderProps_eq (a : Attrs) : renderProps a =
    ((a.get? "mass").map (fun v => py!"mass=" ++ pyStr v)).toList ++
    ((a.get? "rad").map (fun v => py!"rad=" ++ pyStr v)).toList := by
  simp only [renderProps, List.filterMap]
  cases a.get? "mass" <;> cases a.get? "rad" <;> rfl

theorem renderProps_eq_nil_iff (a : Attrs) : renderProps a = [] ↔ hasProps a = false := by
  rw [renderProps_eq, hasProps]
  cases a.get? "mass" <;> cases a.get? "rad" <;> simp

theorem renderBlock_eq (p : Int × Attrs) : renderBlock p = if hasProps p.2 then blockStr p else [] := by
  unfold renderBlock blockStr
  by_cases h : hasProps p.2 = true
  · have : renderProps p.2 ≠ [] := by
      rw [Ne, renderProps_eq_nil_iff]; simp [h]
    simp [h, this]
  · have h' : hasProps p.2 = false := by simpa using h
    simp [h', (renderProps_eq_nil_iff p.2).2 h']

theorem flatten_renderBlock (l : List (Int × Attrs)) :
    (l.map renderBlock).flatten = ((l.filter (fun p => hasProps p.2)).map blockStr).flatten := by
  induction l with
  | nil => rfl
  | cons p l ih =>
    by_cases h : hasProps p.2 = true
    · simp [List.filter_cons, h, renderBlock_eq, ih]
    · have h' : hasProps p.2 = false := by simpa using h
      simp [List.filter_cons, h', renderBlock_eq, ih]

theorem nodeAttrsSpec_eq (m : Graph) : nodeAttrsSpec m = ((labelled m).map blockStr).flatten := by
  unfold nodeAttrsSpec labelled
  exact flatten_renderBlock _

/-- Layout of the attribute section for a well-formed graph with labels `0..n-1`:
the blocks belong to exactly the atoms that have a mass or rad entry (with that atom's attribute dict),
in strictly ascending index order (hence once per atom), indices within `1..n`. Inside a block `mass`
comes before `rad` (`renderProps_eq`). -/
theorem blocks_layout {ms : Graph} {n : Int} (hw : ms.WF) (hn : ms.nodeList.Perm (range n)) :
    (labelled ms).Pairwise (fun p q => p.1 < q.1) ∧
    (∀ p, p ∈ labelled ms ↔ ms.node.get? p.1 = some p.2 ∧ hasProps p.2 = true) ∧
    (∀ p ∈ labelled ms, 1 ≤ p.1 + 1 ∧ p.1 + 1 ≤ n) := by
  have hmem : ∀ p, p ∈ labelled ms ↔ ms.node.get? p.1 = some p.2 ∧ hasProps p.2 = true := by
    intro p
    unfold labelled
    rw [List.mem_filter, mem_sortedKey]
    constructor
    · rintro ⟨h1, h2⟩
      exact ⟨Dict.get?_of_mem_items hw.node_wf h1, h2⟩
    · rintro ⟨h1, h2⟩
      exact ⟨Dict.mem_items_of_get? h1, h2⟩
  refine ⟨?_, hmem, ?_⟩
  · have hnd : (ms.nodesData.map Prod.fst).Nodup := hw.node_wf
    have := sortedKey_strict (f := Prod.fst) hnd
    refine (this.sublist List.filter_sublist).imp ?_
    intro a b hab
    simpa [POrd.lt] using hab
  · intro p hp
    have h1 := ((hmem p).1 hp).1
    have := (mem_range_iff n p.1).1 (hn.mem_iff.1 (Graph.mem_nodeList_of_get? h1))
    omega

/-! ### 3c. sum formula -/

/-- the element symbols of the atoms, in node order -/
theorem symbolsOf_eq {m : Graph} (hw : m.WF) :
    symbolsOf m = m.nodeList.filterMap (fun a => (m.attr a "element_symbol").map Val.asStr) := by
  unfold symbolsOf
  rw [Contracts.Partition.values_getNodeAttributes, Graph.nodeList, Dict.keys, List.filterMap_map, List.map_filterMap]
  apply List.filterMap_congr
  intro p hp
  have h1 : m.node.get? p.1 = some p.2 := Dict.get?_of_mem_items hw.node_wf hp
  simp only [Function.comp, Graph.attr, h1, Option.bind_some]

/-- a relabelling that carries the element symbols does not change their multiset -/
theorem symbolsOf_isoOn {π : Int → Int} {g h : Graph} (r : Graph.IsIsoOn "element_symbol" π g h) (hg : g.WF)
    (hh : h.WF) : (symbolsOf h).Perm (symbolsOf g) := by
  rw [symbolsOf_eq hg, symbolsOf_eq hh]
  refine (r.nodes.filterMap _).trans ?_
  rw [List.filterMap_map]
  rw [List.filterMap_congr]
  intro a ha
  simp only [Function.comp, r.attr a ha]

/-- relabelling does not change the multiset of element symbols -/
theorem symbolsOf_relabel {π : Int → Int} {g h : Graph} (r : Graph.IsRelabel π g h) (hg : g.WF) (hh : h.WF) :
    (symbolsOf h).Perm (symbolsOf g) := symbolsOf_isoOn (r.isIsoOn _) hg hh

/-- when every atom has an element symbol, the symbol list has one entry per atom -/
theorem symbolsOf_length {m : Graph} (hw : m.WF) (hc : Carries m "element_symbol") :
    (symbolsOf m).length = m.nodeList.length := by
  rw [symbolsOf_eq hw]
  have : m.nodeList.filterMap (fun a => (m.attr a "element_symbol").map Val.asStr)
      = m.nodeList.map (fun a => (attrV m "element_symbol" a).asStr) := by
    rw [← Contracts.Partition.filterMap_some]
    apply List.filterMap_congr
    intro a ha
    obtain ⟨v, hv⟩ := Option.isSome_iff_exists.1 (hc a ha)
    simp [attrV, hv]
  rw [this, List.length_map]

theorem hillOrder_nodup (syms : List Str) : (hillOrder syms).Nodup :=
  (hillOrder_perm syms).nodup_iff.2 (List.nodup_dedup syms)

theorem mem_hillOrder (syms : List Str) (s : Str) : s ∈ hillOrder syms ↔ s ∈ syms := by
  rw [(hillOrder_perm syms).mem_iff, List.mem_dedup]

/-- the symbols other than C and H, alphabetically -/
def restSorted (syms : List Str) : List Str := sorted (syms.dedup.filter (fun s => s ≠ py!"C" ∧ s ≠ py!"H"))

theorem restSorted_strict (syms : List Str) : (restSorted syms).Pairwise (fun a b => POrd.lt a b = true) :=
  sorted_strict_of_nodup ((List.nodup_dedup syms).filter _)

theorem mem_restSorted (syms : List Str) (s : Str) : s ∈ restSorted syms ↔ s ∈ syms ∧ s ≠ py!"C" ∧ s ≠ py!"H" := by
  simp [restSorted]

/-- Hill order with carbon: C, then H if present, then the rest alphabetically -/
theorem hillOrder_carbon (syms : List Str) (hc : py!"C" ∈ syms) :
    hillOrder syms = py!"C" :: ((if py!"H" ∈ syms then [py!"H"] else []) ++ restSorted syms) := by
  unfold hillOrder restSorted
  simp only [List.mem_dedup, hc, if_true]

/-- Hill order without carbon: all symbols alphabetically -/
theorem hillOrder_no_carbon (syms : List Str) (hc : py!"C" ∉ syms) :
    hillOrder syms = sorted syms.dedup ∧ (hillOrder syms).Pairwise (fun a b => POrd.lt a b = true) := by
  have : hillOrder syms = sorted syms.dedup := by
    unfold hillOrder
    simp only [List.mem_dedup, hc, if_false]
  rw [this]
  exact ⟨rfl, sorted_dedup_strict syms⟩

/-- Layout of the sum formula: `sumFormulaSpec m` lists every element symbol occurring in the molecule
exactly once (in Hill order, see `hillOrder_carbon` / `hillOrder_no_carbon`), each followed by the number
of atoms having that symbol when that number exceeds 1; the counts add up to the number of atoms that
have a symbol. -/
theorem formula_layout (m : Graph) :
    sumFormulaSpec m = ((hillOrder (symbolsOf m)).map (fun s => renderElem s ((symbolsOf m).count s))).flatten ∧
    (hillOrder (symbolsOf m)).Nodup ∧
    (∀ s, s ∈ hillOrder (symbolsOf m) ↔ s ∈ symbolsOf m) ∧
    (∀ s ∈ hillOrder (symbolsOf m), 1 ≤ (symbolsOf m).count s) ∧
    ((hillOrder (symbolsOf m)).map (fun s => (symbolsOf m).count s)).sum = (symbolsOf m).length := by
  refine ⟨rfl, hillOrder_nodup _, mem_hillOrder _, ?_, ?_⟩
  · intro s hs
    exact List.count_pos_iff.2 ((mem_hillOrder _ s).1 hs)
  · rw [((hillOrder_perm (symbolsOf m)).map _).sum_eq]
    simp only [count_inst]
    exact List.sum_map_count_dedup_eq_length (symbolsOf m)

/-! ## 4. the published grammar (tucan/parser/tucan.ebnf) -/

namespace Grammar

/-! Languages over characters and the EBNF operators. -/
abbrev Lang := Str → Prop
/-- terminal `"..."` -/
def lit (s : Str) : Lang := fun w => w = s
/-- juxtaposition `A B` -/
def cat (A B : Lang) : Lang := fun w => ∃ u v, A u ∧ B v ∧ w = u ++ v
/-- `A | B` -/
def alt (A B : Lang) : Lang := fun w => A w ∨ B w
/-- `A?` -/
def opt (A : Lang) : Lang := fun w => w = [] ∨ A w
/-- `A*` -/
def star (A : Lang) : Lang := fun w => ∃ l : List Str, (∀ u ∈ l, A u) ∧ w = l.flatten
/-- `A+` -/
def plus (A : Lang) : Lang := cat A (star A)
/-- character class `[...]` -/
def chr (cs : List Char) : Lang := fun w => ∃ c ∈ cs, w = [c]
/-- `A₁ A₂ … Aₙ` -/
def seq : List Lang → Lang
  | [] => lit []
  | A :: r => cat A (seq r)
/-- `A₁ | A₂ | … | Aₙ` -/
def alts : List Lang → Lang
  | [] => fun _ => False
  | A :: r => alt A (alts r)

/-! The rules, in the order of the file. The 118 element rules `x ::= "X" count?` are the single
parametrised rule `element`; the two long rules `with_carbon` / `without_carbon` are given by the lists of
the symbols of the non-terminals they mention, in the order they are mentioned (generated from the
EBNF text by substituting each non-terminal `x?` by the terminal of its rule `x ::= "X" count?`). -/

/-- `[1-9]` -/
def d19 : List Char := ['1', '2', '3', '4', '5', '6', '7', '8', '9']
/-- `[0-9]` -/
def d09 : List Char := '0' :: d19

/-- `GREATER_THAN_NINE ::= [1-9] [0-9]+` -/
def GREATER_THAN_NINE : Lang := cat (chr d19) (plus (chr d09))
/-- `greater_than_one ::= "2" | "3" | "4" | "5" | "6" | "7" | "8" | "9" | GREATER_THAN_NINE` -/
def greater_than_one : Lang :=
  alts [lit py!"2", lit py!"3", lit py!"4", lit py!"5", lit py!"6", lit py!"7", lit py!"8", lit py!"9",
    GREATER_THAN_NINE]
/-- `greater_than_zero ::= "1" | greater_than_one` -/
def greater_than_zero : Lang := alt (lit py!"1") greater_than_one
/-- `count ::= greater_than_one` -/
def count : Lang := greater_than_one
/-- `x ::= "X" count?` -/
def element (sym : Str) : Lang := cat (lit sym) (opt count)

/-- the non-terminals of `without_carbon ::= ac? ag? al? …`, as their symbols -/
def withoutCarbonSyms : List Str :=
  [py!"Ac", py!"Ag", py!"Al", py!"Am", py!"Ar", py!"As", py!"At", py!"Au", py!"B", py!"Ba", py!"Be", py!"Bh",
   py!"Bi", py!"Bk", py!"Br", py!"Ca", py!"Cd", py!"Ce", py!"Cf", py!"Cl", py!"Cm", py!"Cn", py!"Co",
   py!"Cr", py!"Cs", py!"Cu", py!"Db", py!"Ds", py!"Dy", py!"Er", py!"Es", py!"Eu", py!"F", py!"Fe", py!"Fl",
   py!"Fm", py!"Fr", py!"Ga", py!"Gd", py!"Ge", py!"H", py!"He", py!"Hf", py!"Hg", py!"Ho", py!"Hs", py!"I",
   py!"In", py!"Ir", py!"K", py!"Kr", py!"La", py!"Li", py!"Lr", py!"Lu", py!"Lv", py!"Mc", py!"Md", py!"Mg",
   py!"Mn", py!"Mo", py!"Mt", py!"N", py!"Na", py!"Nb", py!"Nd", py!"Ne", py!"Nh", py!"Ni", py!"No", py!"Np",
   py!"O", py!"Og", py!"Os", py!"P", py!"Pa", py!"Pb", py!"Pd", py!"Pm", py!"Po", py!"Pr", py!"Pt", py!"Pu",
   py!"Ra", py!"Rb", py!"Re", py!"Rf", py!"Rg", py!"Rh", py!"Rn", py!"Ru", py!"S", py!"Sb", py!"Sc", py!"Se",
   py!"Sg", py!"Si", py!"Sm", py!"Sn", py!"Sr", py!"Ta", py!"Tb", py!"Tc", py!"Te", py!"Th", py!"Ti",
   py!"Tl", py!"Tm", py!"Ts", py!"U", py!"V", py!"W", py!"Xe", py!"Y", py!"Yb", py!"Zn", py!"Zr"]

/-- the non-terminals after `c` of `with_carbon ::= c h? ac? ag? al? …`, as their symbols -/
def withCarbonOptSyms : List Str :=
  [py!"H", py!"Ac", py!"Ag", py!"Al", py!"Am", py!"Ar", py!"As", py!"At", py!"Au", py!"B", py!"Ba", py!"Be",
   py!"Bh", py!"Bi", py!"Bk", py!"Br", py!"Ca", py!"Cd", py!"Ce", py!"Cf", py!"Cl", py!"Cm", py!"Cn",
   py!"Co", py!"Cr", py!"Cs", py!"Cu", py!"Db", py!"Ds", py!"Dy", py!"Er", py!"Es", py!"Eu", py!"F", py!"Fe",
   py!"Fl", py!"Fm", py!"Fr", py!"Ga", py!"Gd", py!"Ge", py!"He", py!"Hf", py!"Hg", py!"Ho", py!"Hs", py!"I",
   py!"In", py!"Ir", py!"K", py!"Kr", py!"La", py!"Li", py!"Lr", py!"Lu", py!"Lv", py!"Mc", py!"Md", py!"Mg",
   py!"Mn", py!"Mo", py!"Mt", py!"N", py!"Na", py!"Nb", py!"Nd", py!"Ne", py!"Nh", py!"Ni", py!"No", py!"Np",
   py!"O", py!"Og", py!"Os", py!"P", py!"Pa", py!"Pb", py!"Pd", py!"Pm", py!"Po", py!"Pr", py!"Pt", py!"Pu",
   py!"Ra", py!"Rb", py!"Re", py!"Rf", py!"Rg", py!"Rh", py!"Rn", py!"Ru", py!"S", py!"Sb", py!"Sc", py!"Se",
   py!"Sg", py!"Si", py!"Sm", py!"Sn", py!"Sr", py!"Ta", py!"Tb", py!"Tc", py!"Te", py!"Th", py!"Ti",
   py!"Tl", py!"Tm", py!"Ts", py!"U", py!"V", py!"W", py!"Xe", py!"Y", py!"Yb", py!"Zn", py!"Zr"]

/-- `with_carbon ::= c h? ac? ag? …` -/
def with_carbon : Lang := seq (element py!"C" :: withCarbonOptSyms.map (fun s => opt (element s)))
/-- `without_carbon ::= ac? ag? …` -/
def without_carbon : Lang := seq (withoutCarbonSyms.map (fun s => opt (element s)))
/-- `sum_formula ::= with_carbon | without_carbon` -/
def sum_formula : Lang := alt with_carbon without_carbon
/-- `node_index ::= greater_than_zero` -/
def node_index : Lang := greater_than_zero
/-- `tuple ::= "(" node_index "-" node_index ")"` -/
def tuple : Lang := seq [lit py!"(", node_index, lit py!"-", node_index, lit py!")"]
/-- `tuples ::= tuple*` -/
def tuples : Lang := star tuple
/-- `node_property_key ::= "mass" | "rad"` -/
def node_property_key : Lang := alt (lit py!"mass") (lit py!"rad")
/-- `node_property_value ::= greater_than_zero` -/
def node_property_value : Lang := greater_than_zero
/-- `node_property ::= node_property_key "=" node_property_value` -/
def node_property : Lang := seq [node_property_key, lit py!"=", node_property_value]
/-- `node_attribute ::= "(" node_index ":" node_property ("," node_property)* ")"` -/
def node_attribute : Lang :=
  seq [lit py!"(", node_index, lit py!":", node_property, star (cat (lit py!",") node_property), lit py!")"]
/-- `node_attributes ::= node_attribute*` -/
def node_attributes : Lang := star node_attribute
/-- `tucan ::= sum_formula "/" tuples ("/" node_attributes)?` -/
def tucan : Lang := seq [sum_formula, lit py!"/", tuples, opt (cat (lit py!"/") node_attributes)]

/-! ### introduction rules -/

theorem cat_intro {A B : Lang} {u v : Str} (hu : A u) (hv : B v) : cat A B (u ++ v) := ⟨u, v, hu, hv, rfl⟩
theorem seq_nil : seq [] [] := rfl
theorem seq_cons {A : Lang} {r : List Lang} {u v : Str} (hu : A u) (hv : seq r v) : seq (A :: r) (u ++ v) :=
  cat_intro hu hv
theorem seq_single {A : Lang} {u : Str} (hu : A u) : seq [A] u := by
  have := seq_cons hu seq_nil
  simpa using this
theorem star_intro {A : Lang} (l : List Str) (h : ∀ u ∈ l, A u) : star A l.flatten := ⟨l, h, rfl⟩
theorem opt_none {A : Lang} : opt A [] := Or.inl rfl
theorem opt_some {A : Lang} {u : Str} (h : A u) : opt A u := Or.inr h
theorem alts_mem {A : Lang} {l : List Lang} {w : Str} (hA : A ∈ l) (hw : A w) : alts l w := by
  induction l with
  | nil => simp at hA
  | cons B r ih =>
    rcases List.mem_cons.1 hA with rfl | h
    · exact Or.inl hw
    · exact Or.inr (ih h)

theorem flatten_singletons (l : Str) : (l.map (fun c => [c])).flatten = l := by
  induction l with
  | nil => rfl
  | cons c l ih => simp [ih]

theorem plus_chr {cs : List Char} {l : Str} (hne : l ≠ []) (h : ∀ c ∈ l, c ∈ cs) : plus (chr cs) l := by
  obtain ⟨e, es, rfl⟩ := List.exists_cons_of_ne_nil hne
  refine ⟨[e], es, ⟨e, h e (by simp), rfl⟩, ⟨es.map (fun c => [c]), ?_, ?_⟩, rfl⟩
  · intro u hu
    obtain ⟨c, hc, rfl⟩ := List.mem_map.1 hu
    exact ⟨c, h c (by simp [hc]), rfl⟩
  · exact (flatten_singletons es).symm

/-! ### S8: decimal numerals -/

theorem digitChar_mem_d09 (k : Nat) (h : k < 10) : Nat.digitChar k ∈ d09 := by
  interval_cases k <;> decide

theorem digitChar_mem_d19 (k : Nat) (h0 : 0 < k) (h : k < 10) : Nat.digitChar k ∈ d19 := by
  interval_cases k <;> decide

/-- the decimal numeral of a positive number: a non-zero digit followed by digits -/
theorem toDigits_shape (n : Nat) (hn : 0 < n) :
    ∃ d ds, Nat.toDigits 10 n = d :: ds ∧ d ∈ d19 ∧ ∀ c ∈ ds, c ∈ d09 := by
  induction n using Nat.strong_induction_on with
  | _ n ih =>
    rw [Nat.toDigits_eq_if (by decide)]
    split
    · exact ⟨Nat.digitChar n, [], rfl, digitChar_mem_d19 n hn (by omega), by simp⟩
    · obtain ⟨d, ds, e, hd, hds⟩ := ih (n / 10) (by omega) (by omega)
      refine ⟨d, ds ++ [Nat.digitChar (n % 10)], by rw [e]; rfl, hd, ?_⟩
      intro c hc
      rcases List.mem_append.1 hc with h | h
      · exact hds c h
      · rw [List.mem_singleton.1 h]; exact digitChar_mem_d09 _ (by omega)

theorem pyStrInt_nonneg (n : Int) (h : 0 ≤ n) : pyStrInt n = Nat.toDigits 10 n.toNat := by
  unfold pyStrInt
  rw [Int.toString_eq_repr, Int.repr_eq_if]
  simp [h]

/-- S8: `str(n)` for `n ≥ 2` is a `greater_than_one` -/
theorem gto_pyStrInt (n : Int) (h : 2 ≤ n) : greater_than_one (pyStrInt n) := by
  rw [pyStrInt_nonneg n (by omega)]
  obtain ⟨k, rfl⟩ : ∃ k : Nat, n = k := ⟨n.toNat, by omega⟩
  simp only [Int.toNat_natCast]
  have hk : 2 ≤ k := by omega
  by_cases h10 : k < 10
  · rw [Nat.toDigits_of_lt_base h10]
    unfold greater_than_one
    interval_cases k
    · exact alts_mem (A := lit py!"2") (by simp) rfl
    · exact alts_mem (A := lit py!"3") (by simp) rfl
    · exact alts_mem (A := lit py!"4") (by simp) rfl
    · exact alts_mem (A := lit py!"5") (by simp) rfl
    · exact alts_mem (A := lit py!"6") (by simp) rfl
    · exact alts_mem (A := lit py!"7") (by simp) rfl
    · exact alts_mem (A := lit py!"8") (by simp) rfl
    · exact alts_mem (A := lit py!"9") (by simp) rfl
  · apply alts_mem (A := GREATER_THAN_NINE) (by simp [greater_than_one])
    rw [Nat.toDigits_of_base_le (by decide) (by omega)]
    obtain ⟨d, ds, e, hd, hds⟩ := toDigits_shape (k / 10) (by omega)
    rw [e]
    refine ⟨[d], ds ++ [Nat.digitChar (k % 10)], ⟨d, hd, rfl⟩, plus_chr (by simp) ?_, rfl⟩
    intro c hc
    rcases List.mem_append.1 hc with h | h
    · exact hds c h
    · rw [List.mem_singleton.1 h]; exact digitChar_mem_d09 _ (by omega)

/-- S8: `str(n)` for `n ≥ 1` is a `greater_than_zero` -/
theorem gtz_pyStrInt (n : Int) (h : 1 ≤ n) : greater_than_zero (pyStrInt n) := by
  by_cases h1 : n = 1
  · subst h1; exact Or.inl rfl
  · exact Or.inr (gto_pyStrInt n (by omega))

/-! ### S9: Python's string order lists element symbols in the order of the EBNF rules -/

/-- adjacent elements strictly ascending -/
def strictAsc : List Str → Bool
  | [] => true
  | [_] => true
  | a :: b :: r => POrd.lt a b && strictAsc (b :: r)

theorem pairwise_of_strictAsc : ∀ l : List Str, strictAsc l = true → l.Pairwise (fun a b => POrd.lt a b = true)
  | [], _ => List.Pairwise.nil
  | [_], _ => by simp
  | a :: b :: r, h => by
    simp only [strictAsc, Bool.and_eq_true] at h
    have ih := pairwise_of_strictAsc (b :: r) h.2
    refine List.pairwise_cons.2 ⟨?_, ih⟩
    intro x hx
    rcases List.mem_cons.1 hx with rfl | hx
    · exact h.1
    · exact LawfulPOrd.trans _ _ _ h.1 ((List.pairwise_cons.1 ih).1 x hx)

set_option maxRecDepth 100000 in
/-- the symbols of `without_carbon` are listed in strictly ascending Python string order -/
theorem withoutCarbonSyms_strict : withoutCarbonSyms.Pairwise (fun a b => POrd.lt a b = true) :=
  pairwise_of_strictAsc _ (by decide)

set_option maxRecDepth 100000 in
/-- `with_carbon` is `c h?` followed by the symbols of `without_carbon` other than H, in the same order -/
theorem withCarbonOptSyms_eq :
    withCarbonOptSyms = py!"H" :: withoutCarbonSyms.filter (fun s => s ≠ py!"H") := by decide

theorem withCarbonRest_strict :
    (withoutCarbonSyms.filter (fun s => s ≠ py!"H")).Pairwise (fun a b => POrd.lt a b = true) :=
  withoutCarbonSyms_strict.sublist List.filter_sublist

set_option maxRecDepth 100000 in
/-- every key of `ELEMENT_ATTRS` is C or occurs in `without_carbon` -/
theorem element_keys :
    Tucan.Consts.ELEMENT_ATTRS.keys.all (fun s => s = py!"C" ∨ s ∈ withoutCarbonSyms) = true := by decide

theorem element_key_cases {s : Str} (h : s ∈ Tucan.Consts.ELEMENT_ATTRS.keys) :
    s = py!"C" ∨ s ∈ withoutCarbonSyms := by
  have := List.all_eq_true.1 element_keys s h
  simpa using this

/-- S9: sorting a duplicate-free list of strings drawn from a strictly ascending list `L` lists them in
the order of `L` -/
theorem sorted_eq_filter {L d : List Str} (hL : L.Pairwise (fun a b => POrd.lt a b = true)) (hd : d.Nodup)
    (hsub : ∀ s ∈ d, s ∈ L) : sorted d = L.filter (fun s => decide (s ∈ d)) := by
  apply sorted_eq_of_perm_of_pairwise
  · rw [List.perm_ext_iff_of_nodup ((nodup_of_strict hL).filter _) hd]
    intro a
    simp only [List.mem_filter, decide_eq_true_eq]
    exact ⟨fun h => h.2, fun h => ⟨hsub a h, h⟩⟩
  · exact (hL.sublist List.filter_sublist).imp LawfulPOrd.asymm

/-! ### the sum formula -/

theorem element_renderElem (s : Str) (n : Int) : element s (renderElem s n) := by
  unfold renderElem
  split
  · exact cat_intro rfl (opt_some (gto_pyStrInt n (by omega)))
  · have := cat_intro (A := lit s) (B := opt count) (u := s) (v := []) rfl opt_none
    unfold element
    simpa using this

theorem seq_opt_filter (c : Str → Int) (p : Str → Bool) (L : List Str) :
    seq (L.map (fun s => opt (element s))) (((L.filter p).map (fun s => renderElem s (c s))).flatten) := by
  induction L with
  | nil => exact seq_nil
  | cons s L ih =>
    by_cases hp : p s = true
    · simp only [List.map_cons, List.filter_cons, hp, if_true, List.flatten_cons]
      exact seq_cons (opt_some (element_renderElem s (c s))) ih
    · have hp' : p s = false := by simpa using hp
      simp only [List.map_cons, List.filter_cons, hp', Bool.false_eq_true, if_false]
      have := seq_cons (opt_none (A := element s)) ih
      simpa using this

/-- the formula text for a list of atom symbols -/
def formulaOf (syms : List Str) : Str :=
  ((hillOrder syms).map (fun s => renderElem s ((syms.count s : Nat) : Int))).flatten

theorem sumFormulaSpec_eq (m : Graph) : sumFormulaSpec m = formulaOf (symbolsOf m) := rfl

/-- the Hill-order formula of any multiset of known element symbols is a `sum_formula` -/
theorem formula_in_grammar (syms : List Str) (hs : ∀ s ∈ syms, s ∈ Tucan.Consts.ELEMENT_ATTRS.keys) :
    sum_formula (formulaOf syms) := by
  unfold formulaOf
  by_cases hc : py!"C" ∈ syms
  · left
    rw [hillOrder_carbon syms hc]
    unfold with_carbon
    rw [withCarbonOptSyms_eq]
    have hrest : restSorted syms = (withoutCarbonSyms.filter (fun s => s ≠ py!"H")).filter
        (fun s => decide (s ∈ syms.dedup.filter (fun s => s ≠ py!"C" ∧ s ≠ py!"H"))) := by
      unfold restSorted
      apply sorted_eq_filter withCarbonRest_strict ((List.nodup_dedup syms).filter _)
      intro s hs'
      simp only [List.mem_filter, List.mem_dedup, decide_eq_true_eq] at hs'
      rcases element_key_cases (hs s hs'.1) with h | h
      · exact absurd h hs'.2.1
      · simp only [List.mem_filter, decide_eq_true_eq]
        exact ⟨h, hs'.2.2⟩
    rw [hrest]
    simp only [List.map_cons, List.map_append, List.flatten_cons, List.flatten_append]
    refine seq_cons (element_renderElem _ _) ?_
    refine seq_cons (A := opt (element py!"H")) ?_ (seq_opt_filter _ _ _)
    by_cases hh : py!"H" ∈ syms
    · simp only [hh, if_true, List.map_cons, List.map_nil, List.flatten_cons, List.flatten_nil, List.append_nil]
      exact opt_some (element_renderElem _ _)
    · simp only [hh, if_false, List.map_nil, List.flatten_nil]
      exact opt_none
  · right
    rw [(hillOrder_no_carbon syms hc).1]
    unfold without_carbon
    rw [sorted_eq_filter withoutCarbonSyms_strict (List.nodup_dedup syms)]
    · exact seq_opt_filter _ _ _
    · intro s hs'
      rw [List.mem_dedup] at hs'
      rcases element_key_cases (hs s hs') with h | h
      · exact absurd (h ▸ hs') hc
      · exact h

/-! ### tuples -/

theorem tuple_renderEdge (e : Int × Int) (h1 : 0 ≤ e.1) (h2 : 0 ≤ e.2) : tuple (renderEdge e) := by
  have := seq_cons (A := lit py!"(") rfl (seq_cons (A := node_index) (gtz_pyStrInt (e.1 + 1) (by omega))
    (seq_cons (A := lit py!"-") rfl (seq_cons (A := node_index) (gtz_pyStrInt (e.2 + 1) (by omega))
      (seq_single (A := lit py!")") rfl))))
  unfold tuple renderEdge
  simpa only [List.append_assoc] using this

theorem tuples_in_grammar {ms : Graph} (hw : ms.WF) (hn : ∀ a ∈ ms.nodeList, 0 ≤ a) : tuples (edgeListSpec ms) := by
  rw [edgeListSpec_eq]
  apply star_intro
  intro u hu
  obtain ⟨e, he, rfl⟩ := List.mem_map.1 hu
  have hm := ((mem_bondList hw e).1 he).2
  exact tuple_renderEdge e (hn _ (hw.nbr_mem _ _ (hw.mem_nbrs_symm hm))) (hn _ (hw.nbr_mem _ _ hm))

/-! ### attribute blocks -/

/-- the stored value is a positive integer -/
def PosInt (v : Val) : Prop := ∃ i : Int, 1 ≤ i ∧ v = Val.int i

theorem value_pyStr {v : Val} (h : PosInt v) : node_property_value (pyStr v) := by
  obtain ⟨i, hi, rfl⟩ := h
  exact gtz_pyStrInt i hi

theorem property_mass {v : Val} (h : PosInt v) : node_property (py!"mass=" ++ pyStr v) := by
  have := seq_cons (A := node_property_key) (u := py!"mass") (Or.inl rfl)
    (seq_cons (A := lit py!"=") rfl (seq_single (value_pyStr h)))
  unfold node_property
  simpa using this

theorem property_rad {v : Val} (h : PosInt v) : node_property (py!"rad=" ++ pyStr v) := by
  have := seq_cons (A := node_property_key) (u := py!"rad") (Or.inr rfl)
    (seq_cons (A := lit py!"=") rfl (seq_single (value_pyStr h)))
  unfold node_property
  simpa using this

/-- a non-empty property list `p ("," p)*` -/
theorem props_in_grammar (a : Attrs) (hp : hasProps a = true)
    (hm : ∀ v, a.get? "mass" = some v → PosInt v) (hr : ∀ v, a.get? "rad" = some v → PosInt v) :
    ∃ u w, node_property u ∧ star (cat (lit py!",") node_property) w ∧ join py!"," (renderProps a) = u ++ w := by
  rw [renderProps_eq]
  unfold hasProps at hp
  cases h1 : a.get? "mass" with
  | none =>
    cases h2 : a.get? "rad" with
    | none => simp [h1, h2] at hp
    | some w =>
      exact ⟨_, [], property_rad (hr w h2), star_intro [] (by simp), by simp [join, List.intercalate]⟩
  | some v =>
    cases h2 : a.get? "rad" with
    | none =>
      exact ⟨_, [], property_mass (hm v h1), star_intro [] (by simp), by simp [join, List.intercalate]⟩
    | some w =>
      refine ⟨_, _, property_mass (hm v h1),
        star_intro [py!"," ++ (py!"rad=" ++ pyStr w)] ?_, by simp [join, List.intercalate]⟩
      intro u hu
      rw [List.mem_singleton.1 hu]
      exact cat_intro rfl (property_rad (hr w h2))

theorem block_in_grammar (p : Int × Attrs) (hi : 0 ≤ p.1) (hp : hasProps p.2 = true)
    (hm : ∀ v, p.2.get? "mass" = some v → PosInt v) (hr : ∀ v, p.2.get? "rad" = some v → PosInt v) :
    node_attribute (blockStr p) := by
  obtain ⟨u, w, hu, hw, e⟩ := props_in_grammar p.2 hp hm hr
  have := seq_cons (A := lit py!"(") rfl (seq_cons (A := node_index) (gtz_pyStrInt (p.1 + 1) (by omega))
    (seq_cons (A := lit py!":") rfl (seq_cons hu (seq_cons hw (seq_single (A := lit py!")") rfl)))))
  unfold node_attribute blockStr
  rw [e]
  simpa only [List.append_assoc] using this

theorem blocks_in_grammar {ms : Graph} (hw : ms.WF) (hn : ∀ a ∈ ms.nodeList, 0 ≤ a)
    (hm : ∀ a ∈ ms.nodeList, ∀ v, ms.attr a "mass" = some v → PosInt v)
    (hr : ∀ a ∈ ms.nodeList, ∀ v, ms.attr a "rad" = some v → PosInt v) :
    node_attributes (nodeAttrsSpec ms) := by
  rw [nodeAttrsSpec_eq]
  apply star_intro
  intro u hu
  obtain ⟨p, hp, rfl⟩ := List.mem_map.1 hu
  unfold labelled at hp
  rw [List.mem_filter, mem_sortedKey] at hp
  have h1 : ms.node.get? p.1 = some p.2 := Dict.get?_of_mem_items hw.node_wf hp.1
  have hmem := Graph.mem_nodeList_of_get? h1
  have hattr : ∀ k, ms.attr p.1 k = p.2.get? k := by
    intro k; simp [Graph.attr, h1]
  exact block_in_grammar p (hn _ hmem) hp.2 (fun v hv => hm _ hmem v (by rw [hattr]; exact hv))
    (fun v hv => hr _ hmem v (by rw [hattr]; exact hv))

/-! ### the whole string -/

/-- C05, grammar membership: for a well-formed graph with non-negative labels whose element symbols are
keys of `ELEMENT_ATTRS` and whose stored mass / rad values are positive integers, the emitted string
`formula "/" tuples ["/" blocks]` is a sentence of the published grammar. -/
theorem tucanSpec_in_grammar {ms : Graph} (hw : ms.WF) (hn : ∀ a ∈ ms.nodeList, 0 ≤ a)
    (hs : ∀ s ∈ symbolsOf ms, s ∈ Tucan.Consts.ELEMENT_ATTRS.keys)
    (hm : ∀ a ∈ ms.nodeList, ∀ v, ms.attr a "mass" = some v → PosInt v)
    (hr : ∀ a ∈ ms.nodeList, ∀ v, ms.attr a "rad" = some v → PosInt v) :
    tucan (tucanSpec ms) := by
  have hf := formula_in_grammar (symbolsOf ms) hs
  rw [← sumFormulaSpec_eq] at hf
  have ht := tuples_in_grammar hw hn
  have hb := blocks_in_grammar hw hn hm hr
  unfold tucan tucanSpec
  by_cases he : nodeAttrsSpec ms = []
  · have := seq_cons hf (seq_cons (A := lit py!"/") rfl (seq_cons ht
      (seq_single (A := opt (cat (lit py!"/") node_attributes)) opt_none)))
    simpa only [he, if_true, List.append_assoc, List.append_nil] using this
  · have := seq_cons hf (seq_cons (A := lit py!"/") rfl (seq_cons ht
      (seq_single (A := opt (cat (lit py!"/") node_attributes)) (opt_some (cat_intro rfl hb)))))
    simpa only [he, if_false, List.append_assoc] using this

/-! sanity checks of the transcription of the numeral rules -/
example : ¬ greater_than_zero py!"0" := by
  simp [greater_than_zero, greater_than_one, alts, alt, lit, GREATER_THAN_NINE, cat, chr, d19, Grammar.plus,
    Grammar.star]
example : ¬ greater_than_one py!"1" := by
  simp [greater_than_one, alts, alt, lit, GREATER_THAN_NINE, cat, chr, d19, Grammar.plus, Grammar.star]
example : ¬ greater_than_zero py!"012" := by
  simp [greater_than_zero, greater_than_one, alts, alt, lit, GREATER_THAN_NINE, cat, chr, d19, Grammar.plus,
    Grammar.star]
example : greater_than_zero py!"120" := gtz_pyStrInt 120 (by decide)

end Grammar

/-! ## 5. the pipeline: `serialize_molecule` after `_assign_final_labels` -/

/-- the graph whose three sections are printed: well formed, loop-free, labels `0..n-1`, same atoms -/
theorem sortGraph_facts {m₁ : Graph} (hw : m₁.WF) (k : String) :
    (sortGraph m₁ k).WF ∧ (sortGraph m₁ k).nodeList.Perm (range m₁.numberOfNodes) ∧
    (m₁.Loopless → (sortGraph m₁ k).Loopless) ∧
    (symbolsOf (sortGraph m₁ k)).Perm (symbolsOf m₁) ∧
    (∀ i ∈ (sortGraph m₁ k).nodeList, ∃ a ∈ m₁.nodeList, sortPos m₁ k a = i ∧
      ∀ key, (sortGraph m₁ k).attr i key = m₁.attr a key) := by
  obtain ⟨h1, h2, h3⟩ := sortGraph_spec hw k
  refine ⟨h1, h2, fun hl => loopless_relabel h3 hw h1 hl, symbolsOf_relabel h3 hw h1, ?_⟩
  intro i hi
  obtain ⟨a, ha, rfl⟩ := sortGraph_label hw k hi
  exact ⟨a, ha, rfl, fun key => h3.attrs a ha key⟩

/-- C05 for the pipeline: if `_assign_final_labels` returns `(m₁, m')` with `m₁` well formed, every atom of
`m₁` carrying an atomic number and an element symbol that is a key of `ELEMENT_ATTRS`, and every stored
mass / rad value a positive integer, then `serialize_molecule` returns `(s, m')` where
`s = tucanSpec (sortGraph m₁ "atomic_number")` is a sentence of the published grammar. -/
theorem serialize_molecule_in_grammar (env : DepEnv) (fuel : Nat) (m m₁ m' : Graph)
    (h : Tucan.serialization._assign_final_labels env fuel m
      [(fun a b => pyLt a b), (fun a b => pyGt a b), (fun a b => pyEq a b)] = .ok (m₁, m'))
    (hw : m₁.WF) (hc : Carries m₁ "atomic_number")
    (hs : ∀ s ∈ symbolsOf m₁, s ∈ Tucan.Consts.ELEMENT_ATTRS.keys)
    (hm : ∀ a ∈ m₁.nodeList, ∀ v, m₁.attr a "mass" = some v → Grammar.PosInt v)
    (hr : ∀ a ∈ m₁.nodeList, ∀ v, m₁.attr a "rad" = some v → Grammar.PosInt v) :
    Tucan.serialization.serialize_molecule env fuel m
      = .ok (tucanSpec (sortGraph m₁ "atomic_number"), m') ∧
    Grammar.tucan (tucanSpec (sortGraph m₁ "atomic_number")) := by
  refine ⟨serialize_molecule_eq env fuel m m₁ m' h hw hc, ?_⟩
  obtain ⟨h1, h2, _, h4, h5⟩ := sortGraph_facts hw "atomic_number"
  apply Grammar.tucanSpec_in_grammar h1
  · intro a ha
    exact ((mem_range_iff _ a).1 (h2.mem_iff.1 ha)).1
  · intro s hs'
    exact hs s (h4.mem_iff.1 hs')
  · intro i hi v hv
    obtain ⟨a, ha, _, e⟩ := h5 i hi
    exact hm a ha v (by rw [← e]; exact hv)
  · intro i hi v hv
    obtain ⟨a, ha, _, e⟩ := h5 i hi
    exact hr a ha v (by rw [← e]; exact hv)

end Contracts.Layout

#print axioms Contracts.Layout.sort_molecule_by_attribute_ok
#print axioms Contracts.Layout.sortPos_mono
#print axioms Contracts.Layout.sorted_blocks
#print axioms Contracts.Layout.serialize_molecule_eq
#print axioms Contracts.Layout.tuples_layout
#print axioms Contracts.Layout.blocks_layout
#print axioms Contracts.Layout.formula_layout
#print axioms Contracts.Layout.Grammar.tucanSpec_in_grammar
#print axioms Contracts.Layout.serialize_molecule_in_grammar
