/-
Contracts.V30Line — writer's 72-character wrap (`_add_v30_line`) and reader's continuation
splicing (`_concat_lines_with_dash`, `_tokenize_lines`): contracts against spec functions taken
from the CTfile format text (DESIGN.md §6a), and the inverse law used by C07 and C09.
-/
import Generated.Writer
import Generated.V3000
set_option autoImplicit false
open Py

namespace Contracts.V30Line

def v30 : Str := py!"M  V30 "

/-- spec of the writer: a logical line of more than 72 characters is cut after 71 characters,
each non-final piece gets a trailing `-`, every piece is prefixed with `M  V30 ` -/
def wrap (l : Str) : List Str :=
  if h : l.length ≤ 72 then [v30 ++ l] else (v30 ++ l.take 71 ++ ['-']) :: wrap (l.drop 71)
termination_by l.length
decreasing_by simp [List.length_drop]; omega

/-- C09: no physical line exceeds 79 characters (80 with the newline) -/
theorem wrap_length_le (l : Str) : ∀ p ∈ wrap l, p.length ≤ 79 := sorry

/-- contract of `_add_v30_line` (total correctness: enough fuel ⇒ terminates with the spec value;
frame: `lines` is only appended to) -/
theorem add_v30_line_ok (env : DepEnv) (fuel : Nat) (lines : List Str) (l : Str) (hf : l.length / 71 + 1 ≤ fuel) :
    Tucan.molfile_writer._add_v30_line env fuel lines l = .ok (lines ++ wrap l) := sorry

/-- physical lines for arbitrary cut points (any spelling the format permits, C07): every piece but
the last gets a trailing dash -/
def phys : List Str → List Str
  | [] => []
  | [p] => [v30 ++ p]
  | p :: q :: r => (v30 ++ p ++ ['-']) :: phys (q :: r)

theorem wrap_eq_phys (l : Str) : ∃ pieces : List Str, pieces ≠ [] ∧ pieces.flatten = l ∧ wrap l = phys pieces ∧
    (∀ p ∈ pieces.dropLast, p.length = 71) := sorry

/-- spec of the reader: splice every run of continued lines -/
def splice : List Str → M (List Str)
  | [] => pure []
  | [l] => pure [l]
  | l :: l₂ :: r =>
    if startswith l v30 && endswith l ['-'] then
      if startswith l₂ v30 then splice ((l.dropLast ++ l₂.drop 7) :: r)
      else throw (Err.custom "MolfileParserException")
    else do
      let rest ← splice (l₂ :: r)
      pure (l :: rest)
termination_by ls => ls.length

/-- contract of `_concat_lines_with_dash`: equals the spec, including the rejecting path -/
theorem concat_lines_with_dash_ok (env : DepEnv) (fuel : Nat) (ls : List Str) (hf : ls.length + 1 ≤ fuel) :
    Tucan.molfile_v3000_reader._concat_lines_with_dash env fuel ls = splice ls := sorry

/-- the inverse law: a logical line that does not end in `-`, cut at arbitrary points, is spliced
back to exactly that line, whatever follows -/
theorem splice_phys (pieces : List Str) (rest : List Str) (hne : pieces ≠ [])
    (hlast : (pieces.flatten).getLast? ≠ some '-') :
    splice (phys pieces ++ rest) = (do let t ← splice rest; pure ((v30 ++ pieces.flatten) :: t)) := sorry

/-- C09 corollary: what the writer wraps, the reader splices back -/
theorem splice_wrap (l : Str) (rest : List Str) (hlast : l.getLast? ≠ some '-') :
    splice (wrap l ++ rest) = (do let t ← splice rest; pure ((v30 ++ l) :: t)) := sorry

/-- blank-separated tokens of a line -/
def tokens (l : Str) : List Str := (split (rstrip l) py!" ").filter (· ≠ [])

theorem tokenize_lines_ok (env : DepEnv) (fuel : Nat) (ls : List Str) (hf : ls.length + 1 ≤ fuel) :
    Tucan.molfile_v3000_reader._tokenize_lines env fuel ls = (do let s ← splice ls; pure (s.map tokens)) := sorry

end Contracts.V30Line
