/-
Contracts.V30Line — writer's 72-character wrap (`_add_v30_line`) and reader's continuation
splicing (`_concat_lines_with_dash`, `_tokenize_lines`): contracts against spec functions taken
from the CTfile format text (DESIGN.md §6a), and the inverse law used by C07 and C09.
-/
import Generated.Writer
import Generated.V3000
set_option autoImplicit false
open Py

namespace Contracts.V30Line

def v30 : Str := py!"M  V30 "

/-! ### general lemmas about the PyModel slice / prefix / suffix operations -/

theorem take_min_length {α} (k : Nat) (l : List α) : l.take (min k l.length) = l.take k := by
  rw [List.take_eq_take_iff]; simp

theorem drop_min_length {α} (k : Nat) (l : List α) : l.drop (min k l.length) = l.drop k := by
  rcases Nat.le_total k l.length with h | h
  · rw [Nat.min_eq_left h]
  · rw [Nat.min_eq_right h, List.drop_length, List.drop_eq_nil_of_le h]

/-- `l[:k]` -/
theorem slice_take {α} (l : List α) (k : Nat) : slice l none (some (k : Int)) = l.take k := by
  have h : ¬ ((k : Int) < 0) := by omega
  simp only [slice, clampIndex, h, if_false, Int.toNat_natCast, List.drop_zero, take_min_length]

/-- `l[k:]` -/
theorem slice_drop {α} (l : List α) (k : Nat) : slice l (some (k : Int)) none = l.drop k := by
  have h : ¬ ((k : Int) < 0) := by omega
  simp only [slice, clampIndex, h, if_false, Int.toNat_natCast, List.take_length, drop_min_length]

/-- `l[0:-1]` -/
theorem slice_dropLast {α} (l : List α) : slice l (some 0) (some (-1)) = l.dropLast := by
  have : ((-1 : Int) + (l.length : Int)).toNat = l.length - 1 := by omega
  simp [slice, clampIndex, List.dropLast_eq_take, this]

theorem slice_take_71 {α} (l : List α) : slice l none (some (71 : Int)) = l.take 71 := slice_take l 71
theorem slice_drop_71 {α} (l : List α) : slice l (some (71 : Int)) none = l.drop 71 := slice_drop l 71
theorem slice_drop_7 {α} (l : List α) : slice l (some (7 : Int)) none = l.drop 7 := slice_drop l 7

theorem startswith_v30 (x : Str) : startswith (v30 ++ x) v30 = true := by
  simp [startswith]

theorem endswith_dash (x : Str) : endswith (x ++ ['-']) ['-'] = true := by
  simp [endswith]

theorem endswith_dash_false (p : Str) (h : p.getLast? ≠ some '-') : endswith (v30 ++ p) ['-'] = false := by
  rw [Bool.eq_false_iff]
  intro hc
  simp only [endswith, List.isSuffixOf_iff_suffix] at hc
  obtain ⟨t, ht⟩ := hc
  have : (v30 ++ p).getLast? = some '-' := by rw [← ht]; simp
  rw [List.getLast?_append] at this
  cases hp : p.getLast? with
  | none => rw [hp] at this; simp [v30] at this
  | some c => rw [hp] at this h; simp at this; exact h (by rw [this])

/-! ### the writer -/

/-- spec of the writer: a logical line of more than 72 characters is cut after 71 characters,
each non-final piece gets a trailing `-`, every piece is prefixed with `M  V30 ` -/
def wrap (l : Str) : List Str :=
  if _h : l.length ≤ 72 then [v30 ++ l] else (v30 ++ l.take 71 ++ ['-']) :: wrap (l.drop 71)
termination_by l.length
decreasing_by simp [List.length_drop]; omega

theorem wrap_of_le {l : Str} (h : l.length ≤ 72) : wrap l = [v30 ++ l] := by
  rw [wrap]; simp [h]

theorem wrap_of_gt {l : Str} (h : ¬ l.length ≤ 72) :
    wrap l = (v30 ++ l.take 71 ++ ['-']) :: wrap (l.drop 71) := by
  rw [wrap]; simp [h]

/-- C09: no physical line exceeds 79 characters (80 with the newline) -/
theorem wrap_length_le (l : Str) : ∀ p ∈ wrap l, p.length ≤ 79 := by
  induction l using wrap.induct with
  | case1 l h =>
    intro p hp
    rw [wrap_of_le h] at hp
    simp at hp; subst hp; simp [v30]; omega
  | case2 l h ih =>
    intro p hp
    rw [wrap_of_gt h] at hp
    simp only [List.mem_cons] at hp
    rcases hp with rfl | hp
    · simp [v30, List.length_take]; omega
    · exact ih p hp

/-- the last piece of the wrapped line (value of the loop variable `line` at loop exit) -/
def lastPiece (l : Str) : Str :=
  if _h : l.length ≤ 72 then l else lastPiece (l.drop 71)
termination_by l.length
decreasing_by simp [List.length_drop]; omega

/-- loop invariant of `_add_v30_line`, for any loop body that performs the step described by `hbody`:
with enough fuel the loop exits through `break` with `lines ++ wrap line` -/
theorem add_v30_loop {β : Type} (body : β → List Str × Str × Bool → M (ForInStep (List Str × Str × Bool)))
    (hbody : ∀ x lines line d, body x (lines, line, d) =
      if line.length ≤ 72 then .ok (.done (lines ++ [v30 ++ line], line, true))
      else .ok (.yield (lines ++ [v30 ++ line.take 71 ++ ['-']], line.drop 71, d)))
    (xs : List β) (lines : List Str) (line : Str) (hf : line.length / 71 + 1 ≤ xs.length) :
    forIn xs (lines, line, false) body = .ok (lines ++ wrap line, lastPiece line, true) := by
  induction xs generalizing lines line with
  | nil => simp at hf
  | cons x xs ih =>
    rw [List.forIn_cons, hbody]
    by_cases h : line.length ≤ 72
    · rw [wrap_of_le h, lastPiece]; simp [h]
    · have hf' : (line.drop 71).length / 71 + 1 ≤ xs.length := by
        simp only [List.length_drop, List.length_cons] at hf ⊢; omega
      rw [wrap_of_gt h, lastPiece]; simp [h, ih _ _ hf']

/-- contract of `_add_v30_line` (total correctness: enough fuel ⇒ terminates with the spec value;
frame: `lines` is only appended to) -/
theorem add_v30_line_ok (env : DepEnv) (fuel : Nat) (lines : List Str) (l : Str) (hf : l.length / 71 + 1 ≤ fuel) :
    Tucan.molfile_writer._add_v30_line env fuel lines l = .ok (lines ++ wrap l) := by
  unfold Tucan.molfile_writer._add_v30_line
  simp only []
  rw [add_v30_loop]
  · simp
  · intro x lines line d
    simp [pyLe, PyCmp.gt, POrd.lt, slice_take_71, slice_drop_71, pyStr, v30]
  · simpa using hf

/-- physical lines for arbitrary cut points (any spelling the format permits, C07): every piece but
the last gets a trailing dash -/
def phys : List Str → List Str
  | [] => []
  | [p] => [v30 ++ p]
  | p :: q :: r => (v30 ++ p ++ ['-']) :: phys (q :: r)

theorem phys_cons_of_ne_nil (p : Str) {r : List Str} (h : r ≠ []) :
    phys (p :: r) = (v30 ++ p ++ ['-']) :: phys r := by
  cases r with
  | nil => exact absurd rfl h
  | cons q r => simp [phys]

theorem wrap_eq_phys (l : Str) : ∃ pieces : List Str, pieces ≠ [] ∧ pieces.flatten = l ∧ wrap l = phys pieces ∧
    (∀ p ∈ pieces.dropLast, p.length = 71) := by
  induction l using wrap.induct with
  | case1 l h => exact ⟨[l], by simp, by simp, by rw [wrap_of_le h]; simp [phys], by simp⟩
  | case2 l h ih =>
    obtain ⟨pieces, hne, hfl, hw, hlen⟩ := ih
    refine ⟨l.take 71 :: pieces, by simp, ?_, ?_, ?_⟩
    · rw [List.flatten_cons, hfl, List.take_append_drop]
    · rw [wrap_of_gt h, hw, phys_cons_of_ne_nil _ hne]
    · intro p hp
      rw [List.dropLast_cons_of_ne_nil hne, List.mem_cons] at hp
      rcases hp with rfl | hp
      · rw [List.length_take]; omega
      · exact hlen p hp

/-! ### the reader -/

/-- spec of the reader: splice every run of continued lines -/
def splice : List Str → M (List Str)
  | [] => pure []
  | [l] => pure [l]
  | l :: l₂ :: r =>
    if startswith l v30 && endswith l ['-'] then
      if startswith l₂ v30 then splice ((l.dropLast ++ l₂.drop 7) :: r)
      else throw (Err.custom "MolfileParserException")
    else do
      let rest ← splice (l₂ :: r)
      pure (l :: rest)
termination_by ls => ls.length

/-- loop invariant of `_concat_lines_with_dash`, for any loop body that performs the step described by
`hbody`: `final_lines ++ splice deque` is preserved, `|deque|` decreases -/
theorem concat_loop {β : Type} (body : β → List Str × List Str × Bool → M (ForInStep (List Str × List Str × Bool)))
    (hbody : ∀ x final deque d, body x (final, deque, d) =
      match deque with
      | [] => .ok (.done (final, [], true))
      | [l] => .ok (.done (final ++ [l], [], true))
      | l :: l₂ :: r =>
        if startswith l v30 && endswith l ['-'] then
          if startswith l₂ v30 then .ok (.yield (final, (l.dropLast ++ l₂.drop 7) :: r, d))
          else .error (Err.custom "MolfileParserException")
        else .ok (.yield (final ++ [l], l₂ :: r, d)))
    (xs : List β) (final deque : List Str) (hf : deque.length + 1 ≤ xs.length) :
    forIn xs (final, deque, false) body =
      (do let s ← splice deque; pure (final ++ s, ([] : List Str), true)) := by
  induction xs generalizing final deque with
  | nil => simp at hf
  | cons x xs ih =>
    rw [List.forIn_cons, hbody]
    match deque, hf with
    | [], _ => simp [splice]
    | [l], _ => simp [splice]
    | l :: l₂ :: r, hf =>
      simp only [List.length_cons] at hf
      rw [splice]
      by_cases h1 : (startswith l v30 && endswith l ['-']) = true
      · by_cases h2 : startswith l₂ v30 = true
        · simp only [h1, h2, if_true, Py.ok_bind]
          rw [ih]
          simp only [List.length_cons]; omega
        · simp [h1, h2]
      · simp only [h1, if_false, Py.ok_bind, Bool.false_eq_true]
        rw [ih _ _ (by simp only [List.length_cons]; omega)]
        cases splice (l₂ :: r) <;> simp

/-- contract of `_concat_lines_with_dash`: equals the spec, including the rejecting path -/
theorem concat_lines_with_dash_ok (env : DepEnv) (fuel : Nat) (ls : List Str) (hf : ls.length + 1 ≤ fuel) :
    Tucan.molfile_v3000_reader._concat_lines_with_dash env fuel ls = splice ls := by
  unfold Tucan.molfile_v3000_reader._concat_lines_with_dash
  simp only []
  rw [concat_loop]
  · simp only [pyIter_list]
    cases splice ls <;> simp
  · intro x final deque d
    rcases deque with _ | ⟨l, _ | ⟨l₂, r⟩⟩
    · simp [truthy]
    · simp [truthy, popFirst]
    · simp [truthy, popFirst, slice_dropLast, slice_drop_7, v30]
      split_ifs <;> simp_all
  · simpa using hf

theorem phys_cons (q : Str) (r : List Str) : ∃ sfx tl, ∀ p : Str,
    phys ((p ++ q) :: r) = (v30 ++ (p ++ q) ++ sfx) :: tl := by
  cases r with
  | nil => exact ⟨[], [], fun p => by simp [phys]⟩
  | cons q' r' => exact ⟨['-'], phys (q' :: r'), fun p => by simp [phys]⟩

theorem splice_phys_aux (r : List Str) : ∀ (p : Str) (rest : List Str),
    ((p :: r).flatten).getLast? ≠ some '-' →
    splice (phys (p :: r) ++ rest) = (do let t ← splice rest; pure ((v30 ++ (p :: r).flatten) :: t)) := by
  induction r with
  | nil =>
    intro p rest h
    simp only [List.flatten_cons, List.flatten_nil, List.append_nil] at h ⊢
    cases rest with
    | nil => simp [phys, splice]
    | cons l₂ r =>
      simp only [phys, List.cons_append, List.nil_append]
      rw [splice]
      simp [endswith_dash_false p h]
  | cons q r ih =>
    intro p rest h
    obtain ⟨sfx, tl, hq⟩ := phys_cons q r
    have h0 := hq []
    simp only [List.nil_append] at h0
    have hl : phys (p :: q :: r) = (v30 ++ p ++ ['-']) :: phys (q :: r) := by simp [phys]
    rw [hl, h0, List.cons_append, List.cons_append, splice]
    have e1 : startswith (v30 ++ p ++ ['-']) v30 = true := by
      rw [List.append_assoc]; exact startswith_v30 _
    have e2 : startswith (v30 ++ q ++ sfx) v30 = true := by
      rw [List.append_assoc]; exact startswith_v30 _
    have e3 : (v30 ++ p ++ ['-']).dropLast ++ (v30 ++ q ++ sfx).drop 7 = v30 ++ (p ++ q) ++ sfx := by
      have d1 : (v30 ++ p ++ ['-']).dropLast = v30 ++ p := List.dropLast_concat
      have d2 : (v30 ++ q ++ sfx).drop 7 = q ++ sfx := by simp [v30]
      rw [d1, d2]; simp
    simp only [e1, e2, e3, endswith_dash, Bool.and_self, if_true]
    rw [← List.cons_append, ← hq p, ih (p ++ q) rest (by simpa using h)]
    simp

/-- the inverse law: a logical line that does not end in `-`, cut at arbitrary points, is spliced
back to exactly that line, whatever follows -/
theorem splice_phys (pieces : List Str) (rest : List Str) (hne : pieces ≠ [])
    (hlast : (pieces.flatten).getLast? ≠ some '-') :
    splice (phys pieces ++ rest) = (do let t ← splice rest; pure ((v30 ++ pieces.flatten) :: t)) := by
  cases pieces with
  | nil => exact absurd rfl hne
  | cons p r => exact splice_phys_aux r p rest hlast

/-- C09 corollary: what the writer wraps, the reader splices back -/
theorem splice_wrap (l : Str) (rest : List Str) (hlast : l.getLast? ≠ some '-') :
    splice (wrap l ++ rest) = (do let t ← splice rest; pure ((v30 ++ l) :: t)) := by
  obtain ⟨pieces, hne, hfl, hw, _⟩ := wrap_eq_phys l
  rw [hw, splice_phys pieces rest hne (by rw [hfl]; exact hlast), hfl]

/-- blank-separated tokens of a line -/
def tokens (l : Str) : List Str := (split (rstrip l) py!" ").filter (· ≠ [])

theorem filterMap_ne_nil (line : List Str) :
    line.filterMap (fun value => if value ≠ [] then some value else none) = line.filter (· ≠ []) := by
  induction line with
  | nil => rfl
  | cons a t ih => by_cases ha : a = [] <;> simpa [ha] using ih

theorem slice_take_4 {α} (l : List α) : slice l none (some (4 : Int)) = l.take 4 := slice_take l 4
theorem slice_drop_4 {α} (l : List α) : slice l (some (4 : Int)) none = l.drop 4 := slice_drop l 4

/-- contract of `_tokenize_lines`: the first four lines (header block) are never spliced, only
tokenized; continuation splicing applies from the fifth line on -/
theorem tokenize_lines_ok (env : DepEnv) (fuel : Nat) (ls : List Str) (hf : (ls.drop 4).length + 1 ≤ fuel) :
    Tucan.molfile_v3000_reader._tokenize_lines env fuel ls =
      (do let s ← splice (ls.drop 4); pure ((ls.take 4 ++ s).map tokens)) := by
  unfold Tucan.molfile_v3000_reader._tokenize_lines
  simp only [slice_take_4, slice_drop_4]
  rw [concat_lines_with_dash_ok env fuel (ls.drop 4) hf]
  cases splice (ls.drop 4) with
  | error e => simp
  | ok s =>
    simp only [Py.ok_bind, pyIter_list, Py.pure_eq_ok, pyAdd_list]
    rw [listComp_ok (ls.take 4 ++ s) _ (fun line => some (split (rstrip line) py!" ")) (fun _ _ => rfl)]
    simp only [Py.ok_bind]
    rw [listComp_ok _ _ (fun line => some (line.filter (· ≠ [])))]
    · have ht : tokens = fun l => (split (rstrip l) py!" ").filter (· ≠ []) := rfl
      simp [ht, Function.comp_def]
    · intro line _
      rw [listComp_ok line _ (fun value => if value ≠ [] then some value else none)]
      · simp only [Py.ok_bind]
        rw [filterMap_ne_nil]
      · intro value _
        by_cases hv : value = [] <;> simp [pyNe, PyCmp.eq, hv]

#print axioms wrap_length_le
#print axioms add_v30_line_ok
#print axioms wrap_eq_phys
#print axioms concat_lines_with_dash_ok
#print axioms splice_phys
#print axioms splice_wrap
#print axioms tokenize_lines_ok

end Contracts.V30Line
