/-
Contracts.Relabel — contracts of the relabelling functions of tucan/graph_utils.py and
tucan/canonicalization.py (properties C16 and C12): `_sort_molecule_by_label`, `_permute_molecule`,
`permute_molecule`, `partition_molecule_by_attribute`, `refine_partitions`, `canonicalize_molecule`.
-/
import Spec.GraphLemmas
import Generated.Canonicalization
set_option autoImplicit false

open Py Py.Graph

namespace Contracts.Relabel

/-! ## generic helpers -/

theorem bind_eq_ok {α β : Type} {x : M α} {f : α → M β} {b : β} :
    (x >>= f) = .ok b ↔ ∃ a, x = .ok a ∧ f a = .ok b := by
  cases x with
  | error e => simp
  | ok a => simp

/-- invariant rule for `for … in l` loops with `break`: `P` holds while iterating, `Q` at exit -/
theorem forIn_invariant {σ α : Type} (P Q : σ → Prop) (body : α → σ → M (ForInStep σ))
    (hstep : ∀ a s, P s → ∀ r, body a s = .ok r →
      match r with
      | .done s' => Q s'
      | .yield s' => P s')
    (hPQ : ∀ s, P s → Q s) :
    ∀ (l : List α) (s s' : σ), P s → forIn l s body = .ok s' → Q s' := by
  intro l
  induction l with
  | nil => intro s s' hP h; simp only [List.forIn_nil, pure_eq_ok, Except.ok.injEq] at h; exact h ▸ hPQ s hP
  | cons a l ih =>
    intro s s' hP h
    rw [List.forIn_cons] at h
    cases hb : body a s with
    | error e => rw [hb] at h; cases h
    | ok r =>
      rw [hb] at h
      have := hstep a s hP r hb
      cases r with
      | done s₁ => simp only [ok_bind, pure_eq_ok, Except.ok.injEq] at h; exact h ▸ this
      | yield s₁ => exact ih s₁ s' this h

/-! ## sorting `(label, attrs)` pairs -/

theorem lt_pair_iff (a b : Int × Attrs) : POrd.lt a b = true ↔ a.1 < b.1 := by
  show (if POrd.lt a.1 b.1 then true else if POrd.lt b.1 a.1 then false else POrd.lt a.2 b.2) = true ↔ _
  have h1 : ∀ x y : Int, POrd.lt x y = decide (x < y) := fun _ _ => rfl
  have h2 : POrd.lt a.2 b.2 = false := rfl
  rw [h1, h1, h2]
  by_cases h : a.1 < b.1 <;> simp [h]

theorem sorted_nodes_perm (l : List (Int × Attrs)) : (sorted l).Perm l := List.mergeSort_perm _ _

theorem sorted_nodes_pairwise (l : List (Int × Attrs)) : (sorted l).Pairwise (fun a b => a.1 ≤ b.1) := by
  have le_iff : ∀ a b : Int × Attrs, (!POrd.lt b a) = true ↔ a.1 ≤ b.1 := by
    intro a b
    rw [Bool.not_eq_true', ← Bool.not_eq_true, lt_pair_iff]; omega
  have := List.pairwise_mergeSort (le := fun (a b : Int × Attrs) => !POrd.lt b a)
    (fun a b c hab hbc => by rw [le_iff] at *; omega)
    (fun a b => by
      rw [Bool.or_eq_true, le_iff, le_iff]; omega) l
  exact this.imp (fun h => (le_iff _ _).1 h)

/-- the labels come out strictly ascending when they are distinct -/
theorem sorted_nodes_ascending (l : List (Int × Attrs)) (hn : (l.map Prod.fst).Nodup) :
    ((sorted l).map Prod.fst).Pairwise (· < ·) := by
  have hnd : ((sorted l).map Prod.fst).Nodup := ((sorted_nodes_perm l).map Prod.fst).nodup_iff.2 hn
  have hle : ((sorted l).map Prod.fst).Pairwise (· ≤ ·) := by
    rw [List.pairwise_map]; exact sorted_nodes_pairwise l
  exact (hle.and hnd).imp (fun h => lt_of_le_of_ne h.1 h.2)

theorem lookup_perm {l₁ l₂ : List (Int × Attrs)} (hp : l₁.Perm l₂) (hn : (l₂.map Prod.fst).Nodup) (k : Int) :
    List.lookup k l₁ = List.lookup k l₂ := by
  have hn₁ : (l₁.map Prod.fst).Nodup := (hp.map Prod.fst).nodup_iff.2 hn
  cases h : List.lookup k l₂ with
  | some v => exact lookup_of_mem_nodup l₁ k v hn₁ (hp.mem_iff.2 (lookup_mem l₂ k v h))
  | none =>
    rw [lookup_eq_none_iff'] at h ⊢
    exact fun hk => h ((hp.map Prod.fst).mem_iff.1 hk)

/-! ## `_sort_molecule_by_label` -/

/-- what `_sort_molecule_by_label` and `_permute_molecule` promise about their result -/
structure SortedRelabel (π : Int → Int) (m r : Graph) : Prop where
  wf : r.WF
  relabel : IsRelabel π m r
  ascending : r.nodeList.Pairwise (· < ·)

theorem sort_molecule_by_label_eq (env : DepEnv) (m : Graph) :
    Tucan.graph_utils._sort_molecule_by_label env m =
      .ok ((Graph.empty.addNodesFromData (sorted m.node.items)).addEdgesFromData m.edgesData) := rfl

/-- `_sort_molecule_by_label`: total; the result is the same labelled graph (every node attribute dict
and every bond with its data carried along), listed in ascending label order. -/
theorem sort_molecule_by_label_spec (env : DepEnv) {m : Graph} (hm : m.WF) :
    ∃ r, Tucan.graph_utils._sort_molecule_by_label env m = .ok r ∧ r.WF ∧ Same m r ∧
      r.nodeList.Perm m.nodeList ∧ r.nodeList.Pairwise (· < ·) ∧
      (∀ n, r.node.get? n = m.node.get? n) ∧
      (∀ u ∈ m.nodeList, ∀ v ∈ m.nodeList, r.edgeAttrs u v = m.edgeAttrs u v) := by
  refine ⟨_, sort_molecule_by_label_eq env m, ?_⟩
  have hp := sorted_nodes_perm m.node.items
  have hnd : ((sorted m.node.items).map Prod.fst).Nodup := (hp.map Prod.fst).nodup_iff.2 hm.node_wf
  have hattrs : ∀ p ∈ sorted m.node.items, p.2.WF := fun p hp' => hm.node_items_wf p (hp.mem_iff.1 hp')
  rw [bare_eq _ hattrs hnd]
  have key := addEdgesFromData_rebuild hm (WF_bare _ hattrs hnd) id (fun _ _ _ _ e => e)
    (fun n hn => by
      rw [nodeList_bare]; exact (hp.map Prod.fst).mem_iff.2 hn)
    (edgeAttrs_bare _) m.edgesData (fun e he => edgeAttrs_of_mem_edgesData hm he)
    (fun u v a h => mem_edgesData_of_edgeAttrs hm h)
  simp only [id, Prod.mk.eta, List.map_id'] at key
  obtain ⟨k1, k2, k3⟩ := key
  have hnl : ((bare (sorted m.node.items)).addEdgesFromData m.edgesData).nodeList
      = (sorted m.node.items).map Prod.fst := by
    unfold nodeList; rw [k2]; rfl
  have hget : ∀ n, ((bare (sorted m.node.items)).addEdgesFromData m.edgesData).node.get? n = m.node.get? n := by
    intro n; rw [k2]; exact lookup_perm hp hm.node_wf n
  have hperm : ((bare (sorted m.node.items)).addEdgesFromData m.edgesData).nodeList.Perm m.nodeList := by
    rw [hnl]; exact hp.map Prod.fst
  refine ⟨k1, ?_, hperm, ?_, hget, k3⟩
  · exact IsRelabel.of_view hm k1 (fun _ _ _ _ e => e) (by simpa using hperm) (fun n _ => hget n) k3
  · rw [hnl]; exact sorted_nodes_ascending _ hm.node_wf

/-! ## `_permute_molecule`, `permute_molecule` (property C16) -/

/-- assumed contract of `random.shuffle`: the result is a rearrangement of the argument -/
def ShuffleLawful (env : DepEnv) : Prop := ∀ (s : Val) (k : Nat) (l : List Int), (env.shuffle s k l).Perm l

theorem permute_molecule_aux_eq (env : DepEnv) (rng : Rng) (m : Graph) :
    Tucan.graph_utils._permute_molecule env rng m =
      (do let r ← Tucan.graph_utils._sort_molecule_by_label env
            (m.relabelCopy (Dict.ofPairs (zip (env.shuffle rng.seed rng.count m.nodeList) m.nodeList)))
          pure (r, rng.next)) := rfl

/-- `_permute_molecule`: total; returns a graph on the same label set, listed in ascending label order,
that is the argument renamed by a bijection of its labels, every attribute and bond carried along. -/
theorem permute_molecule_aux_spec {env : DepEnv} (hs : ShuffleLawful env) (rng : Rng) {m : Graph} (hm : m.WF) :
    ∃ r π, Tucan.graph_utils._permute_molecule env rng m = .ok (r, rng.next) ∧
      SortedRelabel π m r ∧ r.nodeList.Perm m.nodeList := by
  have hp := hs rng.seed rng.count m.nodeList
  obtain ⟨w1, -, p1, r1⟩ := relabelCopy_zip_spec hm hp hm.nodup_nodeList hp.length_eq
  obtain ⟨r, hr, w2, s2, p2, asc, -, -⟩ := sort_molecule_by_label_spec env w1
  refine ⟨r, _, ?_, ⟨w2, r1.trans_same s2, asc⟩, p2.trans p1⟩
  rw [permute_molecule_aux_eq, hr]; rfl

/-- C16, partial correctness of `permute_molecule` (the `while` loop is bounded by `fuel`):
the result is well-formed, has the same label set listed in ascending order, is the argument under a
one-to-one renaming `π` with every atom and bond attribute carried along, and — when enforcement applies
(more than one bond, not a complete graph) — its edge set differs from the original. -/
theorem permute_molecule_spec {env : DepEnv} (hs : ShuffleLawful env) (fuel : Nat) (rng : Rng) {m : Graph}
    (hm : m.WF) (seed : Val) {r : Graph} {rng' : Rng}
    (h : Tucan.graph_utils.permute_molecule env fuel rng m seed = .ok (r, rng')) :
    r.WF ∧ r.nodeList.Perm m.nodeList ∧ r.nodeList.Pairwise (· < ·) ∧ (∃ π, IsRelabel π m r) ∧
    (m.numberOfEdges > 1 ∧ m.densityNeOne = true → m.edgesEq r = false) := by
  unfold Tucan.graph_utils.permute_molecule at h
  simp only [pure_eq_ok] at h
  obtain ⟨r₀, π₀, hr₀, sr₀, p₀⟩ := permute_molecule_aux_spec hs (Rng.ofSeed (toVal seed)) hm
  rw [hr₀] at h
  simp only [ok_bind] at h
  have henf : truthy (pyGt m.numberOfEdges (1 : Int) && m.densityNeOne) = true ↔
      (m.numberOfEdges > 1 ∧ m.densityNeOne = true) := by
    show (decide ((1 : Int) < m.numberOfEdges) && m.densityNeOne) = true ↔ _
    simp
  split at h
  · -- enforcement loop
    next hcond =>
    let Good : Graph → Prop := fun g => g.WF ∧ g.nodeList.Perm m.nodeList ∧ g.nodeList.Pairwise (· < ·) ∧
      ∃ π, IsRelabel π m g
    have good₀ : Good r₀ := ⟨sr₀.wf, p₀, sr₀.ascending, π₀, sr₀.relabel⟩
    obtain ⟨s, hloop, h⟩ := bind_eq_ok.1 h
    · have inv := forIn_invariant (σ := Rng × Graph × Bool)
        (fun s => Good s.2.1 ∧ s.2.2 = false) (fun s => Good s.2.1 ∧ (s.2.2 = true → m.edgesEq s.2.1 = false))
        _ ?_ ?_ _ _ s ⟨good₀, rfl⟩ hloop
      · split at h
        · simp only [throw_eq_error, error_bind] at h; cases h
        · next hdone =>
          simp only [Except.ok.injEq, Prod.mk.injEq] at h
          obtain ⟨rfl, rfl⟩ := h
          obtain ⟨⟨g1, g2, g3, g4⟩, g5⟩ := inv
          refine ⟨g1, g2, g3, g4, fun _ => g5 ?_⟩
          simpa using hdone
      · intro a s hP r' hbody
        split at hbody
        · next hne =>
          simp only [Except.ok.injEq] at hbody
          subst hbody
          exact ⟨hP.1, fun _ => by simpa using hne⟩
        · obtain ⟨r₁, π₁, hr₁, sr₁, p₁⟩ := permute_molecule_aux_spec hs s.1 hm
          rw [hr₁] at hbody
          simp only [ok_bind, Except.ok.injEq] at hbody
          subst hbody
          exact ⟨⟨sr₁.wf, p₁, sr₁.ascending, π₁, sr₁.relabel⟩, hP.2⟩
      · intro s hP; exact ⟨hP.1, fun hd => by rw [hP.2] at hd; cases hd⟩
  · next hcond =>
    simp only [Except.ok.injEq, Prod.mk.injEq] at h
    obtain ⟨rfl, rfl⟩ := h
    exact ⟨sr₀.wf, p₀, sr₀.ascending, ⟨π₀, sr₀.relabel⟩, fun hc => absurd (henf.2 hc) hcond⟩

/-- determinism ("same result for the same seed"): the extracted function is a pure function of
`(env, fuel, m, seed)`; in particular it ignores the incoming generator state (it reseeds). -/
theorem permute_molecule_rng_irrelevant (env : DepEnv) (fuel : Nat) (rng₁ rng₂ : Rng) (m : Graph) (seed : Val) :
    Tucan.graph_utils.permute_molecule env fuel rng₁ m seed =
      Tucan.graph_utils.permute_molecule env fuel rng₂ m seed := rfl

/-! ## `partition_molecule_by_attribute`, `refine_partitions`, `canonicalize_molecule` (property C12) -/

/-- `h` is `g` with (at most) the node attribute `key` rewritten: same node order, every other node
attribute and every bond with exactly its data kept -/
structure OnlyAttrChanged (key : String) (g h : Graph) : Prop where
  nodeList : h.nodeList = g.nodeList
  attr : ∀ n k, k ≠ key → h.attr n k = g.attr n k
  edgeAttrs : ∀ u v, h.edgeAttrs u v = g.edgeAttrs u v

theorem OnlyAttrChanged.refl (key : String) (g : Graph) : OnlyAttrChanged key g g :=
  ⟨rfl, fun _ _ _ => rfl, fun _ _ => rfl⟩

theorem OnlyAttrChanged.trans {key : String} {g h k : Graph} (h₁ : OnlyAttrChanged key g h)
    (h₂ : OnlyAttrChanged key h k) : OnlyAttrChanged key g k :=
  ⟨h₂.nodeList.trans h₁.nodeList, fun n a ha => (h₂.attr n a ha).trans (h₁.attr n a ha),
    fun u v => (h₂.edgeAttrs u v).trans (h₁.edgeAttrs u v)⟩

theorem OnlyAttrChanged.nbrs_perm {key : String} {g h : Graph} (c : OnlyAttrChanged key g h) (hg : g.WF)
    (hh : h.WF) (n : Int) : (h.nbrs n).Perm (g.nbrs n) := by
  refine (List.perm_ext_iff_of_nodup (hh.nodup_nbrs n) (hg.nodup_nbrs n)).2 (fun v => ?_)
  rw [mem_nbrs_iff, mem_nbrs_iff, c.edgeAttrs]

/-- `Graph.copy` followed by `set_node_attributes(…, name)` only rewrites the attribute `name` -/
theorem onlyAttrChanged_copy_set {m : Graph} (hm : m.WF) (values : Dict Int Val) (name : String) :
    (m.copy.setNodeAttrNamed values name).WF ∧ OnlyAttrChanged name m (m.copy.setNodeAttrNamed values name) :=
  ⟨WF_setNodeAttrNamed (WF_copy hm) _ _,
   ⟨by rw [nodeList_setNodeAttrNamed, nodeList_copy hm],
    fun n k hk => by rw [attr_setNodeAttrNamed_ne _ _ _ _ hk, attr_copy hm],
    fun u v => by rw [edgeAttrs_setNodeAttrNamed, edgeAttrs_copy hm]⟩⟩

/-- `partition_molecule_by_attribute` (partial correctness): the result is the argument with only the
`partition` attribute rewritten. -/
theorem partition_molecule_by_attribute_frame (env : DepEnv) {m : Graph} (hm : m.WF) (attribute_ : String)
    {r : Graph} (h : Tucan.canonicalization.partition_molecule_by_attribute env m attribute_ = .ok r) :
    r.WF ∧ OnlyAttrChanged "partition" m r := by
  unfold Tucan.canonicalization.partition_molecule_by_attribute at h
  simp only [pure_eq_ok] at h
  obtain ⟨seqs, -, h⟩ := bind_eq_ok.1 h
  obtain ⟨parts, -, h⟩ := bind_eq_ok.1 h
  simp only [Except.ok.injEq] at h
  subst h
  exact onlyAttrChanged_copy_set hm _ _

/-- `refine_partitions` (partial correctness): every returned graph is the argument with only the
`partition` attribute rewritten. -/
theorem refine_partitions_frame (env : DepEnv) (fuel : Nat) {m : Graph} (hm : m.WF) {out : List Graph}
    (h : Tucan.canonicalization.refine_partitions env fuel m = .ok out) :
    ∀ r ∈ out, r.WF ∧ OnlyAttrChanged "partition" m r := by
  unfold Tucan.canonicalization.refine_partitions at h
  simp only [pure_eq_ok] at h
  obtain ⟨s, hloop, h⟩ := bind_eq_ok.1 h
  let Good : Graph → Prop := fun g => g.WF ∧ OnlyAttrChanged "partition" m g
  have inv := forIn_invariant (σ := Option (List Graph) × Graph × List Graph)
    (fun s => s.1 = none ∧ (∀ g ∈ s.2.2, Good g) ∧ Good s.2.1)
    (fun s => ∀ l, s.1 = some l → ∀ g ∈ l, Good g)
    _ ?_ ?_ _ _ s ⟨rfl, by simp, hm, OnlyAttrChanged.refl _ _⟩ hloop
  · split at h
    · next l hl =>
      simp only [Except.ok.injEq] at h
      subst h
      exact inv l hl
    · simp at h
  · intro a s hP r' hbody
    obtain ⟨g', hg', hbody⟩ := bind_eq_ok.1 hbody
    obtain ⟨n₁, -, hbody⟩ := bind_eq_ok.1 hbody
    obtain ⟨n₂, -, hbody⟩ := bind_eq_ok.1 hbody
    obtain ⟨w, c⟩ := partition_molecule_by_attribute_frame env hP.2.2.1 "partition" hg'
    have good' : Good g' := ⟨w, hP.2.2.2.trans c⟩
    split at hbody
    · simp only [Except.ok.injEq] at hbody
      subst hbody
      intro l hl g hg
      simp only [Option.some.injEq] at hl
      subst hl
      rcases List.mem_append.1 hg with hg | hg
      · exact hP.2.1 g hg
      · simp only [List.mem_singleton] at hg; subst hg; exact good'
    · simp only [Except.ok.injEq] at hbody
      subst hbody
      exact ⟨rfl, hP.2.1, good'⟩
  · intro s hP l hl; rw [hP.1] at hl; cases hl

/-- assumed contract of bliss via igraph, in the weak form needed for C12: permuting the vertices by the
canonical permutation keeps the multiset of vertex names -/
def BlissPermLawful (env : DepEnv) : Prop :=
  ∀ (ig : IGraph) (c : List Val), (env.permuteVertices ig (env.canonicalPermutation ig c)).names.Perm ig.names

/-- `h` is `g` renamed by `π`, except that the node attribute `key` may have been rewritten -/
structure IsRelabelExcept (key : String) (π : Int → Int) (g h : Graph) : Prop where
  inj : ∀ a ∈ g.nodeList, ∀ b ∈ g.nodeList, π a = π b → a = b
  nodes : h.nodeList.Perm (g.nodeList.map π)
  attrs : ∀ n ∈ g.nodeList, ∀ k, k ≠ key → h.attr (π n) k = g.attr n k
  nbrs : ∀ n ∈ g.nodeList, (h.nbrs (π n)).Perm ((g.nbrs n).map π)
  eattrs : ∀ u ∈ g.nodeList, ∀ v ∈ g.nodeList, ∀ a, g.edgeAttrs u v = some a →
    ∃ b, h.edgeAttrs (π u) (π v) = some b ∧ AttrsEq a b

theorem IsRelabelExcept.isIsoOn {key : String} {π : Int → Int} {g h : Graph} (r : IsRelabelExcept key π g h)
    {k : String} (hk : k ≠ key) : IsIsoOn k π g h :=
  ⟨r.inj, r.nodes, fun n hn => r.attrs n hn k hk, r.nbrs⟩

theorem IsRelabelExcept.of_changed_relabel {key : String} {π : Int → Int} {g h k : Graph} (hg : g.WF) (hh : h.WF)
    (c : OnlyAttrChanged key g h) (r : IsRelabel π h k) : IsRelabelExcept key π g k where
  inj := by rw [← c.nodeList]; exact r.inj
  nodes := by rw [← c.nodeList]; exact r.nodes
  attrs := fun n hn a ha => by rw [r.attrs n (c.nodeList ▸ hn), c.attr n a ha]
  nbrs := fun n hn => (r.nbrs n (c.nodeList ▸ hn)).trans ((c.nbrs_perm hg hh n).map π)
  eattrs := fun u hu v hv a ha =>
    r.eattrs u (c.nodeList ▸ hu) v (c.nodeList ▸ hv) a (by rw [c.edgeAttrs]; exact ha)

theorem mem_of_getItem_last {l : List Graph} {r : Graph} (h : getItem l (-1 : Int) = .ok r) : r ∈ l := by
  change listGet l (-1) = .ok r at h
  unfold listGet at h
  simp only at h
  split at h
  · cases h
  · split at h
    · next a ha =>
      simp only [pure_eq_ok, Except.ok.injEq] at h
      subst h
      exact List.mem_of_getElem? ha
    · cases h

/-- C12, partial correctness of `canonicalize_molecule`: the result is well-formed, its labels are
`0 .. n-1`, and it is the input under a one-to-one renaming `π` of the atoms: every atom keeps every
attribute other than `partition`, adjacency is carried along (`IsIsoOn k π` for every `k ≠ "partition"`),
and every bond keeps its data. -/
theorem canonicalize_molecule_spec {env : DepEnv} (hb : BlissPermLawful env) (fuel : Nat) {m : Graph} (hm : m.WF)
    {r : Graph} (h : Tucan.canonicalization.canonicalize_molecule env fuel m = .ok r) :
    r.WF ∧ r.nodeList.Perm (range m.numberOfNodes) ∧
    ∃ π, IsRelabelExcept "partition" π m r ∧ (∀ k, k ≠ "partition" → IsIsoOn k π m r) := by
  unfold Tucan.canonicalization.canonicalize_molecule Tucan.canonicalization.assign_canonical_labels at h
  simp only [pure_eq_ok, ok_bind] at h
  obtain ⟨m₁, h₁, h⟩ := bind_eq_ok.1 h
  obtain ⟨out, h₂, h⟩ := bind_eq_ok.1 h
  obtain ⟨m₂, h₃, h⟩ := bind_eq_ok.1 h
  simp only [Except.ok.injEq] at h
  obtain ⟨w₁, c₁⟩ := partition_molecule_by_attribute_frame env hm _ h₁
  obtain ⟨w₂, c₂⟩ := refine_partitions_frame env fuel w₁ h₂ m₂ (mem_of_getItem_last h₃)
  have c := c₁.trans c₂
  have hp := hb (IGraph.fromNetworkx m₂) ((IGraph.fromNetworkx m₂).vsAttr "partition")
  generalize (env.permuteVertices (IGraph.fromNetworkx m₂) (env.canonicalPermutation (IGraph.fromNetworkx m₂)
    ((IGraph.fromNetworkx m₂).vsAttr "partition"))) = ig' at hp h
  have hp' : ig'.names.Perm m₂.nodeList := hp
  have hl : ig'.names.length = (range (pyLen ig'.vsNames)).length := by
    rw [length_range]; simp [IGraph.vsNames]
  obtain ⟨w, -, p, rel⟩ := relabelCopy_zip_spec w₂ hp' (nodup_range _) hl
  simp only [pyIter_list] at h
  have hvs : ig'.vsNames = ig'.names := rfl
  rw [hvs] at h hl p rel w
  rw [h] at w p rel
  refine ⟨w, ?_, _, IsRelabelExcept.of_changed_relabel hm w₂ c rel, fun k hk =>
    (IsRelabelExcept.of_changed_relabel hm w₂ c rel).isIsoOn hk⟩
  have : (pyLen ig'.names : Int) = m.numberOfNodes := by
    rw [numberOfNodes_eq, ← c.nodeList, ← hp'.length_eq]; rfl
  rw [this] at p; exact p

end Contracts.Relabel

#print axioms Contracts.Relabel.sort_molecule_by_label_spec
#print axioms Contracts.Relabel.permute_molecule_aux_spec
#print axioms Contracts.Relabel.permute_molecule_spec
#print axioms Contracts.Relabel.permute_molecule_rng_irrelevant
#print axioms Contracts.Relabel.partition_molecule_by_attribute_frame
#print axioms Contracts.Relabel.refine_partitions_frame
#print axioms Contracts.Relabel.canonicalize_molecule_spec
#print axioms Py.Graph.relabelCopy_spec
#print axioms Py.Graph.isRelabel_relabelCopy
#print axioms Py.Graph.numberOfEdges_relabelCopy
#print axioms Py.Graph.convertNodeLabelsToIntegers_spec
#print axioms Py.Graph.copy_spec
#print axioms Py.Graph.same_copy
#print axioms Py.Graph.WF_addEdge
#print axioms Py.Dict.get?_ofPairs_zip
