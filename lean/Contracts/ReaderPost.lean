/-
Contracts.ReaderPost — the unconditional postcondition of the molfile reader entry point (AUDIT2 §0, finding 6).

Every other reader contract has the form "on a rendering of such-and-such a file class the result is spec".
Here: for EVERY text and every environment, *whenever* `graph_from_molfile_text` returns a graph, that graph
satisfies every hypothesis of the pipeline theorems — in particular of `Pipeline.C05_pipeline` — no matter how the
text is laid out (star atoms, `ENDPTS`, repeated keywords, stale charge codes, atom lists, short lines, …).

 1. shape lemmas `f … = .ok r → Shape r`, one per function on the path, for arbitrary input:
    V3000: `parse_atom_attributes_post`, `parse_atom_block_post`, `v3000_post`
           (`_tokenize_lines`, `_validate_counts_line`, `_parse_bond_block` with the star-atom expansion may return
           anything: all that is needed about the bonds is established by `_validate_bond_indices`, whose exact
           contract is `V3000._validate_bond_indices_eq`)
    V2000: `parse_atom_line_post`, `parse_atom_block_v2000_post`, `parse_bond_block_v2000_post`,
           `parse_attribute_block_post`, `v2000_post`
    shape (`Shape A B`): the atom dictionary has distinct keys; every entry is a duplicate-free dict with an element
    symbol of the periodic table and that element's atomic number (an unknown symbol raises `KeyError`); `mass` /
    `rad`, where present, are non-zero integers; both ends of every bond key are keys of the atom dictionary.
 2. `graph_post`: validation (`_validate_atom_attributes`, `_validate_bonds`) + `graph_from_molecule` on
    dictionaries of that shape give `IdOK g`, `g.Loopless`, nodes `0 … n-1`.
 3. `graph_from_molfile_text_inv`, `graph_from_molfile_text_post` — the dispatcher, any text.
 4. `C05_any_reader_output` — C05 in the property's words: for every graph the reader can return (with at least
    one atom) the pipeline emits a sentence of the grammar obeying the layout rules.
-/
import Contracts.Final
import Contracts.V2000
set_option autoImplicit false

open Py Py.Graph Contracts

namespace Contracts.ReaderPost
open Contracts.Parser (periodicTable atomicNumber keys_eq_table table_ok)
open Contracts.Final (AttrsOK PosIntVal IdOK)
open Contracts.Reader (NegMolecule SelfBonded NegAttr isNeg)
open Contracts.FinalLabels (fuelBound)

/-! ## 0. generic helpers: inversion of `>>=`, of `for` loops and of list comprehensions -/

theorem bind_ok {α β : Type} {x : M α} {f : α → M β} {b : β} (h : (x >>= f) = .ok b) :
    ∃ a, x = .ok a ∧ f a = .ok b := by
  cases x with
  | error e => cases h
  | ok a => exact ⟨a, rfl, h⟩

def stepVal {σ : Type} : ForInStep σ → σ
  | .done s => s
  | .yield s => s

theorem forIn_inv {σ α : Type} (P : σ → Prop) (body : α → σ → M (ForInStep σ)) :
    ∀ (l : List α) (s s' : σ), P s → (∀ a ∈ l, ∀ s, P s → ∀ r, body a s = .ok r → P (stepVal r)) →
      forIn l s body = .ok s' → P s' := by
  intro l
  induction l with
  | nil => intro s s' hP _ h; simp only [List.forIn_nil, pure_eq_ok, Except.ok.injEq] at h; exact h ▸ hP
  | cons a l ih =>
    intro s s' hP hstep h
    rw [List.forIn_cons] at h
    obtain ⟨r, hr, h⟩ := bind_ok h
    have := hstep a (by simp) s hP r hr
    cases r with
    | done s₁ => simp only [pure_eq_ok, Except.ok.injEq] at h; exact h ▸ this
    | yield s₁ => exact ih s₁ s' this (fun a ha => hstep a (by simp [ha])) h

/-- inversion of a list comprehension without filter -/
theorem listComp_inv {α β : Type} (R : α → β → Prop) (f : α → M (Option β))
    (hf : ∀ x o, f x = .ok o → ∃ b, o = some b ∧ R x b) :
    ∀ (xs : List α) (ys : List β), listComp xs f = .ok ys → List.Forall₂ R xs ys := by
  intro xs
  induction xs with
  | nil => intro ys h; simp only [listComp, pure_eq_ok, Except.ok.injEq] at h; subst h; exact .nil
  | cons x xs ih =>
    intro ys h
    unfold listComp at h
    obtain ⟨o, ho, h⟩ := bind_ok h
    obtain ⟨zs, hzs, h⟩ := bind_ok h
    obtain ⟨b, rfl, hb⟩ := hf x o ho
    simp only [pure_eq_ok, Except.ok.injEq] at h
    subst h
    exact .cons hb (ih zs hzs)


theorem forall₂_map_eq {α β γ : Type} {R : α → β → Prop} (f : α → γ) (g : β → γ) (hR : ∀ x y, R x y → f x = g y) :
    ∀ {xs : List α} {ys : List β}, List.Forall₂ R xs ys → xs.map f = ys.map g := by
  intro xs ys h
  induction h with
  | nil => rfl
  | cons hxy _ ih => simp only [List.map_cons, hR _ _ hxy, ih]

theorem forall₂_mem_right {α β : Type} {R : α → β → Prop} :
    ∀ {xs : List α} {ys : List β}, List.Forall₂ R xs ys → ∀ y ∈ ys, ∃ x ∈ xs, R x y := by
  intro xs ys h
  induction h with
  | nil => intro y hy; cases hy
  | cons hxy _ ih =>
    intro y hy
    rcases List.mem_cons.1 hy with rfl | hy
    · exact ⟨_, by simp, hxy⟩
    · obtain ⟨x, hx, hr⟩ := ih y hy; exact ⟨x, by simp [hx], hr⟩

theorem mem_items_set {κ ν : Type} [DecidableEq κ] (d : Dict κ ν) (k : κ) (v : ν) (p : κ × ν)
    (h : p ∈ (d.set k v).items) : p = (k, v) ∨ p ∈ d.items := by
  unfold Dict.set at h
  split_ifs at h
  · simp only [List.mem_map] at h
    obtain ⟨q, hq, rfl⟩ := h
    by_cases hk : q.1 = k
    · simp [hk]
    · simp [hk, hq]
  · simp only [List.mem_append, List.mem_singleton] at h
    tauto


theorem getItem_dict_inv {κ ν : Type} [DecidableEq κ] (d : Dict κ ν) (k : κ) (v : ν) [ToKey κ κ]
    (hk : (toKey k : κ) = k) (h : (getItem d k : M ν) = .ok v) : d.get? k = some v := by
  simp only [getItem, hk] at h
  cases hg : d.get? k with
  | none => rw [hg] at h; cases h
  | some v' => rw [hg] at h; exact congrArg some (Except.ok.inj h)

/-! ## 1. the shape of the dictionaries the connection-table readers return -/

/-- a non-zero integer value -/
def NZ (v : Val) : Prop := ∃ z : Int, z ≠ 0 ∧ v = Val.int z

/-- an atom dictionary entry as the connection-table readers produce it, before validation -/
structure AttrsPre (A : Attrs) : Prop where
  wf : A.WF
  elem : ∃ s ∈ periodicTable, A.get? "element_symbol" = some (Val.str s) ∧
    A.get? "atomic_number" = some (Val.int (atomicNumber s))
  mass : ∀ v, A.get? "mass" = some v → NZ v
  rad : ∀ v, A.get? "rad" = some v → NZ v

/-- the atom dictionary of a reader: distinct keys, every entry `AttrsPre` -/
def AtomsPre (A : Dict Int Attrs) : Prop := A.WF ∧ ∀ p ∈ A.items, AttrsPre p.2

theorem atomsPre_empty : AtomsPre Dict.empty := ⟨Dict.WF_empty, fun p hp => by cases hp⟩

theorem atomsPre_set {A : Dict Int Attrs} (h : AtomsPre A) (k : Int) {a : Attrs} (ha : AttrsPre a) :
    AtomsPre (A.set k a) := by
  refine ⟨Dict.WF_set h.1 k a, fun p hp => ?_⟩
  rcases mem_items_set A k a p hp with rfl | hp
  · exact ha
  · exact h.2 p hp

/-- what the connection-table readers guarantee about the dictionaries they return -/
structure Shape (A : Dict Int Attrs) (B : Dict (Int × Int) Attrs) : Prop where
  atoms : AtomsPre A
  ends : ∀ b ∈ B.keys, b.1 ∈ A.keys ∧ b.2 ∈ A.keys

/-! ## 2. the V3000 path (star atoms included) -/

/-- looking a symbol up in the element table: the symbol is in the periodic table, the number is its atomic number -/
theorem table_lookup {el : Str} {ea : Attrs} {z : Val}
    (h1 : (getItem Tucan.Consts.ELEMENT_ATTRS el : M Attrs) = .ok ea) (h2 : (getItem ea "atomic_number" : M Val) = .ok z) :
    el ∈ periodicTable ∧ z = Val.int (atomicNumber el) := by
  apply Contracts.Final.atomicNumber_ok
  unfold Contracts.V3000.atomicNumber
  simp only [getItem, toKey, id_eq] at h1 h2
  cases hg : Tucan.Consts.ELEMENT_ATTRS.get? el with
  | none => rw [hg] at h1; cases h1
  | some ea' =>
    rw [hg] at h1
    obtain rfl : ea' = ea := Except.ok.inj h1
    cases hz : Dict.get? ea' "atomic_number" with
    | none => rw [hz] at h2; cases h2
    | some z' =>
      rw [hz] at h2
      obtain rfl : z' = z := Except.ok.inj h2
      simp only [hz]; rfl

theorem lastNonzero_ne (l : List Int) (n : Int) (h : Contracts.V3000.lastNonzero l = some n) : n ≠ 0 := by
  unfold Contracts.V3000.lastNonzero at h
  have := (Option.filter_eq_some_iff.1 h).2
  simpa using this

theorem attrsPre_mk (el : Str) (hel : el ∈ periodicTable) (fx fy fz : Flt) (c m r : Option Int)
    (hm : ∀ n, m = some n → n ≠ 0) (hr : ∀ n, r = some n → n ≠ 0) :
    AttrsPre (Contracts.V3000.mkAtomAttrs el (Val.int (atomicNumber el)) fx fy fz c m r) := by
  have g := Reader.mkAtomAttrs_get el (Val.int (atomicNumber el)) fx fy fz c m r
  refine ⟨Reader.mkAtomAttrs_wf _ _ _ _ _ _ _ _, ⟨el, hel, g.1, g.2.1⟩, ?_, ?_⟩
  · intro v hv
    rw [g.2.2.1] at hv
    obtain ⟨n, hn, rfl⟩ := Option.map_eq_some_iff.1 hv
    exact ⟨n, hm n hn, rfl⟩
  · intro v hv
    rw [g.2.2.2] at hv
    obtain ⟨n, hn, rfl⟩ := Option.map_eq_some_iff.1 hv
    exact ⟨n, hr n hn, rfl⟩

/-- **`_parse_atom_attributes`, any token list**: a returned non-star entry is `AttrsPre` -/
theorem parse_atom_attributes_post (env : DepEnv) (line : List Str) (attrs : Attrs) (b : Bool)
    (h : Tucan.molfile_v3000_reader._parse_atom_attributes env line = .ok (attrs, b)) (hb : b = false) :
    AttrsPre attrs := by
  unfold Tucan.molfile_v3000_reader._parse_atom_attributes at h
  obtain ⟨sym, hsym, h⟩ := bind_ok h
  by_cases hs : pyEq sym py!"*" = true
  · simp only [hs, if_true, pure_eq_ok, Except.ok.injEq, Prod.mk.injEq] at h
    rw [hb] at h; exact absurd h.2 (by decide)
  · simp only [hs, if_false, Bool.false_eq_true, Contracts.V3000.detect_hydrogen_isotopes_ok, ok_bind] at h
    obtain ⟨ea, hea, h⟩ := bind_ok h
    obtain ⟨z, hz, h⟩ := bind_ok h
    obtain ⟨tx, _, h⟩ := bind_ok h
    obtain ⟨fx, _, h⟩ := bind_ok h
    obtain ⟨ty, _, h⟩ := bind_ok h
    obtain ⟨fy, _, h⟩ := bind_ok h
    obtain ⟨tz, _, h⟩ := bind_ok h
    obtain ⟨fz, _, h⟩ := bind_ok h
    obtain ⟨chg, _, h⟩ := bind_ok h
    obtain ⟨mass, hmass, h⟩ := bind_ok h
    obtain ⟨rad, _, h⟩ := bind_ok h
    obtain ⟨hel, rfl⟩ := table_lookup hea hz
    have hitems : (Dict.ofPairs [("chg", chg), ("mass", mass), ("rad", rad)]).items = [("chg", chg), ("mass", mass), ("rad", rad)] := by
      simp [Dict.ofPairs, Dict.set, Dict.contains, Dict.get?, Dict.empty, List.lookup]
    simp only [hitems, List.forIn_cons, List.forIn_nil, Contracts.V3000.optStep] at h
    simp only [ok_bind, pure_eq_ok] at h
    have h' := Contracts.V3000.optSet_mk (Contracts.V3000.hydrogenIsotope sym).1 (Val.int (atomicNumber (Contracts.V3000.hydrogenIsotope sym).1)) fx fy fz
      (Contracts.V3000.lastNonzero chg) (Contracts.V3000.lastNonzero mass) (Contracts.V3000.lastNonzero rad)
    have h'' : (toVal (Val.int (atomicNumber (Contracts.V3000.hydrogenIsotope sym).1)) : Val) = Val.int (atomicNumber (Contracts.V3000.hydrogenIsotope sym).1) := rfl
    rw [h''] at h h'
    rw [h'] at h
    obtain ⟨rfl, _⟩ := Prod.mk.inj (Except.ok.inj h)
    exact attrsPre_mk _ hel _ _ _ _ _ _ (fun n hn => lastNonzero_ne _ _ hn) (fun n hn => lastNonzero_ne _ _ hn)

/-- **`_parse_atom_block` (V3000), any token lines** -/
theorem parse_atom_block_post (env : DepEnv) (lines : List (List Str)) (A : Dict Int Attrs) (stars : List Int)
    (h : Tucan.molfile_v3000_reader._parse_atom_block env lines = .ok (A, stars)) : AtomsPre A := by
  unfold Tucan.molfile_v3000_reader._parse_atom_block at h
  obtain ⟨c5, _, h⟩ := bind_ok h
  obtain ⟨c53, _, h⟩ := bind_ok h
  obtain ⟨na, _, h⟩ := bind_ok h
  obtain ⟨l6, _, h⟩ := bind_ok h
  simp only [] at h
  split_ifs at h with h1
  · cases h
  obtain ⟨le, _, h⟩ := bind_ok h
  split_ifs at h with h2
  · cases h
  obtain ⟨s, hs, h⟩ := bind_ok h
  obtain ⟨rfl, _⟩ := Prod.mk.inj (Except.ok.inj h)
  refine forIn_inv (fun s : Dict Int Attrs × List Int => AtomsPre s.1) _ _ _ _ atomsPre_empty ?_ hs
  intro line _ s hP r hr
  obtain ⟨t, _, hr⟩ := bind_ok hr
  obtain ⟨i, _, hr⟩ := bind_ok hr
  obtain ⟨ab, hab, hr⟩ := bind_ok hr
  obtain ⟨attrs, b⟩ := ab
  by_cases hb : truthy b = true
  · simp only [hb, if_true, pure_eq_ok, Except.ok.injEq] at hr
    subst hr; exact hP
  · simp only [hb, if_false, Bool.false_eq_true, setItem_dict, ok_bind, pure_eq_ok, Except.ok.injEq] at hr
    subst hr
    have hb' : b = false := by
      cases b with
      | false => rfl
      | true => exact absurd (rfl : truthy true = true) hb
    exact atomsPre_set hP _ (parse_atom_attributes_post env line attrs b hab hb')

/-- **the V3000 connection-table reader, any list of lines** -/
theorem v3000_post (env : DepEnv) (fuel : Nat) (lines : List Str) (A : Dict Int Attrs) (B : Dict (Int × Int) Attrs)
    (h : Tucan.molfile_v3000_reader.graph_attributes_from_molfile_v3000 env fuel lines = .ok (A, B)) : Shape A B := by
  unfold Tucan.molfile_v3000_reader.graph_attributes_from_molfile_v3000 at h
  obtain ⟨toks, _, h⟩ := bind_ok h
  obtain ⟨_, _, h⟩ := bind_ok h
  obtain ⟨as, has, h⟩ := bind_ok h
  obtain ⟨A', stars⟩ := as
  obtain ⟨B', _, h⟩ := bind_ok h
  obtain ⟨_, hv, h⟩ := bind_ok h
  obtain ⟨rfl, rfl⟩ := Prod.mk.inj (Except.ok.inj h)
  refine ⟨parse_atom_block_post env toks _ stars has, ?_⟩
  rw [Contracts.V3000._validate_bond_indices_eq] at hv
  split_ifs at hv with hall
  · exact hall
  · cases hv

/-! ## 3. the V2000 path -/

theorem v2atomAttrs_get (sym : Str) (z fx fy fz : Val) (c m : Int) :
    (Contracts.V2000.atomAttrs sym z fx fy fz c m).get? "element_symbol" = some (Val.str sym) ∧
    (Contracts.V2000.atomAttrs sym z fx fy fz c m).get? "atomic_number" = some z ∧
    (Contracts.V2000.atomAttrs sym z fx fy fz c m).get? "mass" = (if m = 0 then none else some (Val.int m)) ∧
    (Contracts.V2000.atomAttrs sym z fx fy fz c m).get? "rad" = (if c = 4 then some (Val.int 2) else none) := by
  unfold Contracts.V2000.atomAttrs Contracts.V2000.chargeOfCode
  refine ⟨rfl, rfl, ?_, ?_⟩
  · split_ifs <;> simp [Dict.get?, List.lookup]
  · split_ifs <;> first | omega | simp [Dict.get?, List.lookup]

theorem v2atomAttrs_wf (sym : Str) (z fx fy fz : Val) (c m : Int) :
    (Contracts.V2000.atomAttrs sym z fx fy fz c m).WF := by
  unfold Contracts.V2000.atomAttrs Dict.WF
  rcases Contracts.V2000.chargeOfCode_cases c with h | ⟨v, h | h⟩ <;> by_cases hm : m = 0 <;>
    simp [h, hm, Dict.keys]

open Tucan.molfile_v2000_reader in
/-- **`_parse_atom_line` (V2000), any line** -/
theorem parse_atom_line_post (env : DepEnv) (line : Str) (a : Attrs) (h : _parse_atom_line env line = .ok a) :
    AttrsPre a := by
  have h0 := h
  unfold _parse_atom_line at h
  simp only [Contracts.V2000.detect_hydrogen_isotopes_ok, ok_bind] at h
  obtain ⟨ea, hea, h⟩ := bind_ok h
  obtain ⟨z, hz, h⟩ := bind_ok h
  obtain ⟨fx, hx, h⟩ := bind_ok h
  obtain ⟨fy, hy, h⟩ := bind_ok h
  obtain ⟨fz, hzc, h⟩ := bind_ok h
  obtain ⟨c, hc, _⟩ := bind_ok h
  rw [Contracts.V2000.slice_eq_field line 31 34 31 3 rfl rfl] at hea
  rw [Contracts.V2000._to_float_eq, Contracts.V2000.slice_eq_field line 0 10 0 10 rfl rfl] at hx
  rw [Contracts.V2000._to_float_eq, Contracts.V2000.slice_eq_field line 10 20 10 10 rfl rfl] at hy
  rw [Contracts.V2000._to_float_eq, Contracts.V2000.slice_eq_field line 20 30 20 10 rfl rfl] at hzc
  rw [Contracts.V2000._to_int_eq, Contracts.V2000.slice_eq_field line 36 39 36 3 rfl rfl] at hc
  have hea' : Tucan.Consts.ELEMENT_ATTRS.get?
      (Contracts.V2000.hydrogenIsotope (stripChar (Contracts.V2000.field line 31 3) ' ')).1 = some ea :=
    getItem_dict_inv _ _ _ rfl hea
  have hz' := getItem_dict_inv _ _ _ rfl hz
  have hshape := Contracts.V2000._parse_atom_line_ok env line _ ea z fx fy fz c rfl hea' hz' hx hy hzc hc
  rw [h0] at hshape
  obtain rfl := Except.ok.inj hshape
  have hmem : (Contracts.V2000.hydrogenIsotope (stripChar (Contracts.V2000.field line 31 3) ' ')).1 ∈ periodicTable := by
    rw [← keys_eq_table]; exact Dict.mem_keys_of_get? hea'
  have hzv : z = Val.int (atomicNumber (Contracts.V2000.hydrogenIsotope (stripChar (Contracts.V2000.field line 31 3) ' ')).1) := by
    have ht := table_ok _ hmem
    rw [hea'] at ht
    simp only [Option.bind_some] at ht
    rw [hz'] at ht
    exact Option.some.inj ht
  obtain ⟨g1, g2, g3, g4⟩ := v2atomAttrs_get (Contracts.V2000.hydrogenIsotope (stripChar (Contracts.V2000.field line 31 3) ' ')).1 z fx fy fz c
    (Contracts.V2000.hydrogenIsotope (stripChar (Contracts.V2000.field line 31 3) ' ')).2
  refine ⟨v2atomAttrs_wf _ _ _ _ _ _ _, ⟨_, hmem, g1, by rw [g2, hzv]⟩, ?_, ?_⟩
  · intro v hv
    rw [g3] at hv
    split_ifs at hv with hm
    exact ⟨_, hm, (Option.some.inj hv).symm⟩
  · intro v hv
    rw [g4] at hv
    split_ifs at hv
    exact ⟨2, by decide, (Option.some.inj hv).symm⟩

open Tucan.molfile_v2000_reader

/-- **`_parse_atom_block` (V2000), any lines** -/
theorem parse_atom_block_v2000_post (env : DepEnv) (lines : List Str) (A : Dict Int Attrs)
    (h : _parse_atom_block env lines = .ok A) : AtomsPre A := by
  unfold _parse_atom_block at h
  obtain ⟨l, hl, h⟩ := bind_ok h
  have hf := listComp_inv (fun (x : Int × Str) (y : Int × Attrs) => y.1 = x.1 ∧ _parse_atom_line env x.2 = .ok y.2) _
    (by
      intro x o ho
      obtain ⟨a, ha, ho⟩ := bind_ok ho
      simp only [pure_eq_ok, Except.ok.injEq] at ho
      exact ⟨_, ho.symm, rfl, ha⟩) _ _ hl
  simp only [pyIter_list] at hf
  have hkeys : l.map Prod.fst = (enumerate lines 0).map Prod.fst :=
    (forall₂_map_eq Prod.fst Prod.fst (fun _ _ h => h.1.symm) hf).symm
  have hnd : (l.map Prod.fst).Nodup := by rw [hkeys]; exact Contracts.V2000.nodup_keys_enumerate lines 0
  simp only [pure_eq_ok, Except.ok.injEq] at h
  subst h
  rw [Dict.ofPairs_of_nodup l hnd]
  refine ⟨hnd, fun p hp => ?_⟩
  obtain ⟨x, _, _, hx⟩ := forall₂_mem_right hf p hp
  exact parse_atom_line_post env x.2 p.2 hx

/-- **`_parse_bond_block` (V2000), any lines**: both ends of every bond key are atom indices -/
theorem parse_bond_block_v2000_post (env : DepEnv) (lines : List Str) (atoms : Dict Int Attrs)
    (B : Dict (Int × Int) Attrs) (h : _parse_bond_block env lines atoms = .ok B) :
    ∀ b ∈ B.keys, b.1 ∈ atoms.keys ∧ b.2 ∈ atoms.keys := by
  unfold _parse_bond_block at h
  obtain ⟨l, hl, h⟩ := bind_ok h
  have hf := listComp_inv (fun (x : Str) (y : (Int × Int) × Attrs) => y.1.1 ∈ atoms.keys ∧ y.1.2 ∈ atoms.keys) _
    (by
      intro x o ho
      obtain ⟨a, ha, ho⟩ := bind_ok ho
      simp only [pure_eq_ok, Except.ok.injEq] at ho
      refine ⟨_, ho.symm, ?_⟩
      rw [Contracts.V2000._parse_bond_line_eq] at ha
      unfold Contracts.V2000.bondLine at ha
      obtain ⟨i, _, ha⟩ := bind_ok ha
      obtain ⟨j, _, ha⟩ := bind_ok ha
      split_ifs at ha with hc
      · obtain ⟨t, _, ha⟩ := bind_ok ha
        simp only [pure_eq_ok, Except.ok.injEq] at ha
        subst ha
        simp only [Bool.and_eq_true] at hc
        exact ⟨(Dict.contains_iff _ _).1 hc.1, (Dict.contains_iff _ _).1 hc.2⟩) _ _ hl
  simp only [pure_eq_ok, Except.ok.injEq] at h
  subst h
  intro b hb
  rw [Dict.ofPairs_eq_updatePairs, Dict.mem_keys_updatePairs] at hb
  rcases hb with hb | hb
  · cases hb
  · obtain ⟨p, hp, rfl⟩ := List.mem_map.1 hb
    obtain ⟨x, _, hx⟩ := forall₂_mem_right hf p hp
    exact hx


open Contracts.V2000 (specGet applyProps propLines) in
theorem specGet_nz (pl : List (Contracts.V2000.Kind × List (Int × Int))) (a : Int) (old : Attrs) (k : String)
    (hk : k = "mass" ∨ k = "rad") (hold : ∀ v, old.get? k = some v → NZ v) :
    ∀ v, specGet pl a old k = some v → NZ v := by
  intro v hv
  rcases hk with rfl | rfl
  · rw [Contracts.V2000.specGet_mass] at hv
    cases ho : old.get? "mass" with
    | some m => rw [ho] at hv; cases hv; exact hold _ ho
    | none =>
      rw [ho] at hv
      cases hl : Contracts.V2000.lastWins (Contracts.V2000.entriesOf pl .iso) a with
      | none => rw [hl] at hv; cases hv
      | some w =>
        rw [hl] at hv
        simp only at hv
        split_ifs at hv with hw
        exact ⟨w, hw, (Option.some.inj hv).symm⟩
  · rw [Contracts.V2000.specGet_rad] at hv
    cases hl : Contracts.V2000.lastWins (Contracts.V2000.entriesOf pl .rad) a with
    | none =>
      rw [hl] at hv
      simp only at hv
      split_ifs at hv
      exact hold _ hv
    | some w =>
      rw [hl] at hv
      simp only at hv
      split_ifs at hv with hw
      · exact hold _ hv
      · exact ⟨w, hw, (Option.some.inj hv).symm⟩

/-- **`_parse_attribute_block` (V2000), any lines**: same atom indices, entries still `AttrsPre` -/
theorem parse_attribute_block_post (env : DepEnv) (lines : List Str) (atoms A : Dict Int Attrs) (hat : AtomsPre atoms)
    (h : _parse_attribute_block env lines atoms = .ok A) : AtomsPre A ∧ A.keys = atoms.keys := by
  rw [Contracts.V2000._parse_attribute_block_eq env lines atoms hat.1] at h
  obtain ⟨pl, _, h⟩ := bind_ok h
  simp only [pure_eq_ok, Except.ok.injEq] at h
  subst h
  have hk := Contracts.V2000.applyProps_keys pl atoms
  have hwf : (Contracts.V2000.applyProps pl atoms).WF := by unfold Dict.WF; rw [hk]; exact hat.1
  refine ⟨⟨hwf, fun p hp => ?_⟩, hk⟩
  obtain ⟨a, new⟩ := p
  have hget : (Contracts.V2000.applyProps pl atoms).get? a = some new := Dict.get?_of_mem_items hwf hp
  have ha : a ∈ atoms.keys := by rw [← hk]; exact Dict.mem_keys_of_get? hget
  obtain ⟨old, hold⟩ := Dict.exists_get?_of_mem_keys ha
  have hpre := hat.2 (a, old) (Dict.mem_items_of_get? hold)
  obtain ⟨new', h1, h2, h3⟩ := Contracts.V2000.applyProps_get? pl atoms a old hold
  rw [hget] at h1
  obtain rfl := Option.some.inj h1
  refine ⟨h2 hpre.wf, ?_, ?_, ?_⟩
  · obtain ⟨s, hs, e1, e2⟩ := hpre.elem
    refine ⟨s, hs, ?_, ?_⟩
    · rw [h3, Contracts.V2000.specGet_other _ _ _ _ (by decide) (by decide) (by decide)]; exact e1
    · rw [h3, Contracts.V2000.specGet_other _ _ _ _ (by decide) (by decide) (by decide)]; exact e2
  · intro v hv; rw [h3] at hv; exact specGet_nz pl a old "mass" (Or.inl rfl) hpre.mass v hv
  · intro v hv; rw [h3] at hv; exact specGet_nz pl a old "rad" (Or.inr rfl) hpre.rad v hv

/-- **the V2000 connection-table reader, any list of lines** -/
theorem v2000_post (env : DepEnv) (lines : List Str) (A : Dict Int Attrs) (B : Dict (Int × Int) Attrs)
    (h : graph_attributes_from_molfile_v2000 env lines = .ok (A, B)) : Shape A B := by
  unfold graph_attributes_from_molfile_v2000 at h
  obtain ⟨l3, _, h⟩ := bind_ok h
  obtain ⟨na, _, h⟩ := bind_ok h
  obtain ⟨l3', _, h⟩ := bind_ok h
  obtain ⟨nb, _, h⟩ := bind_ok h
  obtain ⟨l3'', _, h⟩ := bind_ok h
  obtain ⟨nl, _, h⟩ := bind_ok h
  obtain ⟨atoms, hatoms, h⟩ := bind_ok h
  obtain ⟨bonds, hbonds, h⟩ := bind_ok h
  obtain ⟨A', hA, h⟩ := bind_ok h
  obtain ⟨rfl, rfl⟩ := Prod.mk.inj (Except.ok.inj h)
  have hat := parse_atom_block_v2000_post env _ atoms hatoms
  obtain ⟨hpre, hk⟩ := parse_attribute_block_post env _ atoms _ hat hA
  refine ⟨hpre, ?_⟩
  rw [hk]
  exact parse_bond_block_v2000_post env _ atoms _ hbonds

/-! ## 4. validation and `graph_from_molecule` -/

theorem posIntVal_of_nz {v : Val} (h : NZ v) (hn : isNeg v = false) : PosIntVal v := by
  obtain ⟨z, hz, rfl⟩ := h
  rw [Reader.isNeg_int] at hn
  have : ¬ z < 0 := by simpa using hn
  exact ⟨z, by omega, rfl⟩

/-- validation turns `AttrsPre` into `AttrsOK` -/
theorem attrsOK_of_pre {a : Attrs} (h : AttrsPre a) (hn : ¬ NegAttr a) : AttrsOK a := by
  rw [Reader.negAttr_iff] at hn
  refine ⟨h.elem, fun v hv => posIntVal_of_nz (h.mass v hv) ?_, fun v hv => posIntVal_of_nz (h.rad v hv) ?_⟩
  · by_contra hc
    exact hn (Or.inl ⟨v, hv, by simpa using hc⟩)
  · by_contra hc
    exact hn (Or.inr ⟨v, hv, by simpa using hc⟩)

theorem Shape.molOK {A : Dict Int Attrs} {B : Dict (Int × Int) Attrs} (h : Shape A B) : Reader.MolOK A B where
  wf := h.atoms.1
  attrs_wf := fun p hp => (h.atoms.2 p hp).wf
  z := fun p hp => by obtain ⟨s, _, _, e⟩ := (h.atoms.2 p hp).elem; exact ⟨_, e⟩
  ends := h.ends

/-- **validated dictionaries of shape `Shape` give a graph fit for the pipeline** -/
theorem graph_post (env : DepEnv) {A : Dict Int Attrs} {B : Dict (Int × Int) Attrs} (h : Shape A B)
    (hneg : ¬ NegMolecule A) (hself : ¬ SelfBonded B) {g : Graph} {R : Dict Int Attrs}
    (e : Tucan.graph_utils.graph_from_molecule env A B = .ok (g, R)) :
    IdOK g ∧ g.Loopless ∧ g.nodeList = range (A.keys.length : Int) := by
  have hm := h.molOK
  have ok : IdOK g := Contracts.Final.graph_from_molecule_idOK env A B hm
    (fun p hp => attrsOK_of_pre (h.atoms.2 p hp) (fun hn => hneg ⟨p, hp, hn⟩)) e
  obtain ⟨g', R', hg, wg, ng, ag, bg⟩ := Reader.graph_from_molecule_general env A B hm.wf hm.attrs_wf hm.z hm.ends
  rw [e] at hg
  obtain ⟨rfl, rfl⟩ := Prod.mk.inj (Except.ok.inj hg)
  refine ⟨ok, ?_, ng⟩
  intro u hu
  have hn := wg.nbr_mem u u hu
  rw [ng, Contracts.Parser.mem_range] at hn
  obtain ⟨i, rfl⟩ := Int.eq_ofNat_of_zero_le hn.1
  obtain ⟨k, a, _, _, _, hk, hidx⟩ := Reader.general_at A hm.wf i (by exact_mod_cast hn.2)
  have := (bg k hk k hk)
  rw [hidx] at this
  have hb := this.1 hu
  exact hself ⟨(k, k), by tauto, rfl⟩

/-! ## 5. the entry point `graph_from_molfile_text`, any text -/

/-- **Inversion of the reader entry point.** Whenever `graph_from_molfile_text` returns `g` — for any text, any
environment, any fuel — one of the two connection-table readers returned dictionaries `(A, B)` of shape `Shape`, both
validators accepted them, and `g` is the graph `graph_from_molecule` builds from them. -/
theorem graph_from_molfile_text_inv (env : DepEnv) (fuel : Nat) (text : Str) (g : Graph)
    (h : Tucan.molfile_reader.graph_from_molfile_text env fuel text = .ok g) :
    ∃ A B R, (Tucan.molfile_v3000_reader.graph_attributes_from_molfile_v3000 env fuel (splitlines text) = .ok (A, B) ∨
        Tucan.molfile_v2000_reader.graph_attributes_from_molfile_v2000 env (splitlines text) = .ok (A, B)) ∧
      Shape A B ∧ ¬ NegMolecule A ∧ ¬ SelfBonded B ∧
      Tucan.graph_utils.graph_from_molecule env A B = .ok (g, R) := by
  rw [Reader.graph_from_molfile_text_eq] at h
  unfold Reader.readSpec at h
  cases h3 : (splitlines text)[3]? with
  | none => rw [h3] at h; cases h
  | some l3 =>
    rw [h3] at h
    obtain ⟨AB, hAB, h⟩ := bind_ok h
    obtain ⟨A, B⟩ := AB
    have hsrc : (Tucan.molfile_v3000_reader.graph_attributes_from_molfile_v3000 env fuel (splitlines text) = .ok (A, B) ∨
        Tucan.molfile_v2000_reader.graph_attributes_from_molfile_v2000 env (splitlines text) = .ok (A, B)) := by
      split_ifs at hAB
      · exact Or.inl hAB
      · exact Or.inr hAB
    have hshape : Shape A B := by
      rcases hsrc with h' | h'
      · exact v3000_post env fuel _ A B h'
      · exact v2000_post env _ A B h'
    unfold Reader.molGraph at h
    split_ifs at h with hbad
    · cases h
    · obtain ⟨gR, hg, h⟩ := bind_ok h
      obtain ⟨g', R⟩ := gR
      simp only [pure_eq_ok, Except.ok.injEq] at h
      subst h
      exact ⟨A, B, R, hsrc, hshape, fun hn => hbad (Or.inl hn), fun hs => hbad (Or.inr hs), hg⟩

/-- **Unconditional postcondition of the reader entry point.** For every text, every environment and every fuel:
if `graph_from_molfile_text` returns `g`, then `g` is a well-formed graph with the identity facts `IdOK` (element
symbols from the periodic table with the table's atomic number, `mass` / `rad` absent or positive integers,
invariant code = (atomic number, mass or 0, rad or 0)), without self-loops, with the nodes `0 … n-1` in this order. -/
theorem graph_from_molfile_text_post (env : DepEnv) (fuel : Nat) (text : Str) (g : Graph)
    (h : Tucan.molfile_reader.graph_from_molfile_text env fuel text = .ok g) :
    g.WF ∧ IdOK g ∧ g.Loopless ∧ g.nodeList = range (g.nodeList.length : Int) := by
  obtain ⟨A, B, R, _, hshape, hneg, hself, hg⟩ := graph_from_molfile_text_inv env fuel text g h
  obtain ⟨ok, hl, hn⟩ := graph_post env hshape hneg hself hg
  refine ⟨ok.wf, ok, hl, ?_⟩
  have : g.nodeList.length = A.keys.length := by rw [hn, Contracts.RoundTrip.length_range]
  rw [this]; exact hn

/-- the element symbols of a graph with the identity facts are keys of the element table -/
theorem symbols_ok {g : Graph} (ok : IdOK g) :
    ∀ s ∈ Contracts.Serialize.symbolsOf g, s ∈ Tucan.Consts.ELEMENT_ATTRS.keys := by
  intro s hs
  rw [Contracts.Layout.symbolsOf_eq ok.wf, List.mem_filterMap] at hs
  obtain ⟨a, ha, e⟩ := hs
  obtain ⟨t, ht, e1, _⟩ := ok.elem a ha
  rw [e1] at e
  simp only [Option.map_some, Option.some.injEq] at e
  subst e
  rw [keys_eq_table]
  exact ht

/-- **C05 for every graph the molfile readers can produce.** `envr`, `rf`, `text`: any reader environment, fuel and
text. If the reader returns `g` and `g` has at least one atom, then the pipeline (environment `env` with a lawful
`set` order and a lawful bliss, sufficient fuels) emits a string `s` that is a sentence of the published grammar and
obeys the layout rules — the conclusion of `Pipeline.C05_pipeline` for `g`, with the premise `Loopless` of the
bond-tuple clause discharged. -/
theorem C05_any_reader_output {env : DepEnv} (hs : env.SetLawful) (hb : BlissLawful env)
    (envr : DepEnv) (rf : Nat) (text : Str) (g : Graph)
    (h : Tucan.molfile_reader.graph_from_molfile_text envr rf text = .ok g) (hne : g.nodeList ≠ [])
    (fuel₁ fuel₂ : Nat) (hf₁ : fuel₁ ≥ g.nodeList.length + 1) (hf₂ : fuel₂ ≥ fuelBound g) :
    ∃ c ms s, Contracts.Pipeline.Run env fuel₁ fuel₂ g c ms s ∧ Contracts.Layout.Grammar.tucan s ∧
      -- sum formula
      (Contracts.Serialize.symbolsOf ms).Perm (Contracts.Serialize.symbolsOf g) ∧
      Contracts.Serialize.sumFormulaSpec ms =
        ((Contracts.Serialize.hillOrder (Contracts.Serialize.symbolsOf g)).map
          (fun x => Contracts.Serialize.renderElem x ((Contracts.Serialize.symbolsOf g).count x))).flatten ∧
      -- attribute blocks
      ((Contracts.Layout.labelled ms).Pairwise (fun p q => p.1 < q.1) ∧
        (∀ p, p ∈ Contracts.Layout.labelled ms ↔ ms.node.get? p.1 = some p.2 ∧ Contracts.Layout.hasProps p.2 = true) ∧
        (∀ p ∈ Contracts.Layout.labelled ms, 1 ≤ p.1 + 1 ∧ p.1 + 1 ≤ g.numberOfNodes)) ∧
      -- bond tuples
      (ms.Loopless ∧
        (∀ e ∈ Contracts.Layout.bondList ms, 1 ≤ e.1 + 1 ∧ e.1 + 1 < e.2 + 1 ∧ e.2 + 1 ≤ g.numberOfNodes) ∧
        (Contracts.Layout.bondList ms).Pairwise (fun a b => a.1 < b.1 ∨ (a.1 = b.1 ∧ a.2 < b.2)) ∧
        (∀ e ∈ Contracts.Layout.bondList ms, e.2 ∈ ms.nbrs e.1) ∧
        (∀ u v, v ∈ ms.nbrs u → (Contracts.Layout.bondList ms).count (min u v, max u v) = 1)) := by
  obtain ⟨wg, ok, hl, _⟩ := graph_from_molfile_text_post envr rf text g h
  obtain ⟨c, ms, s, R, G, h1, h2, h3, h4⟩ := Contracts.Pipeline.C05_pipeline hs hb wg hne ok.carries_code ok.carries_Z
    (symbols_ok ok) (fun a ha v hv => ok.mass a ha v hv) (fun a ha v hv => ok.rad a ha v hv) fuel₁ fuel₂ hf₁ hf₂
  exact ⟨c, ms, s, R, G, h1, h2, h3, h4 hl⟩

end Contracts.ReaderPost

/-! ## axioms -/
#print axioms Contracts.ReaderPost.parse_atom_attributes_post
#print axioms Contracts.ReaderPost.v3000_post
#print axioms Contracts.ReaderPost.v2000_post
#print axioms Contracts.ReaderPost.graph_post
#print axioms Contracts.ReaderPost.graph_from_molfile_text_inv
#print axioms Contracts.ReaderPost.graph_from_molfile_text_post
#print axioms Contracts.ReaderPost.C05_any_reader_output
