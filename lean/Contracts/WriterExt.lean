/-
Contracts.WriterExt — closes finding 3 of lean/AUDIT.md (property C09):

(a) the float law V5 as a Lean hypothesis `FloatLawful env` (satisfiable: `floatLawful_satisfiable`, model `floatEnv`)
    and the clause "coordinates to six decimals" for the graph that `graph_from_molfile_text` returns (`C09_coords`,
    which also states same atoms / same order / element / charge / radical / mass / adjacency at the graph level);
(b) the writer's side conditions `NodeRT` / `EdgeRT` / plain values derived from the float law and the property's
    ranges (`InRange`, `nodeRT_of_inRange`, `plain_logicalLines'`), discharged for every graph the TUCAN parser
    returns (`parsed_noBondData`, `parsed_bare`, `parsed_inRange`, `parsed_nodeRT_edgeRT`); `Final.C09_tucan` /
    `Final.C09_string` restated without them (`C09_tucan'`, `C09_string'`: dependency contracts, canonical pipeline
    output, size and fuel bounds only);
(c) a format-level well-formedness predicate `WellFormedV3000` of a list of lines, written from the CTfile rules,
    and `written_wellformed` (+ `_of_inRange`, `_parsed`): the lines of the writer's output satisfy it.
Non-vacuity: `C09_coords_witness`, `written_wellformed_witness` (a carbon atom with coordinates, `floatEnv`).
-/
import Contracts.Writer
import Contracts.Final
set_option autoImplicit false
open Py Py.Graph Contracts
open Contracts.V30Line

namespace Contracts.WriterExt
open Contracts.Writer
open Contracts.Final (IdOK InvariantCodeOK posOf)
open Contracts.FinalLabels (fuelBound)
open Contracts.Pipeline (tucan)
open Contracts.Parser (Ast treeOf denote Represents AbstractMol withCode)
open Contracts.RoundTrip (V4 graphFromTucan MolOK idKeys)

/-! ## 1. decimal numerals with six decimals; the float law V5 -/

/-- a decimal numeral with exactly six decimals: optional `-`, at least one digit, `.`, six digits — the shape of
`f"{x:.6f}"` for a finite number `x` (for `inf` / `nan` Python prints `inf` / `nan`) -/
def Dec6 (s : Str) : Prop :=
  ∃ sgn ip fp : Str, s = sgn ++ ip ++ '.' :: fp ∧ (sgn = [] ∨ sgn = ['-']) ∧ ip ≠ [] ∧
    (∀ c ∈ ip, c.isDigit = true) ∧ fp.length = 6 ∧ (∀ c ∈ fp, c.isDigit = true)

theorem dec6_zero : Dec6 py!"0.000000" :=
  ⟨[], py!"0", py!"000000", rfl, Or.inl rfl, by decide, by decide, rfl, by decide⟩

theorem Dec6.chars {s : Str} (h : Dec6 s) : ∀ c ∈ s, c.isDigit = true ∨ c = '-' ∨ c = '.' := by
  obtain ⟨sgn, ip, fp, rfl, hs, _, hip, _, hfp⟩ := h
  intro c hc
  simp only [List.mem_append, List.mem_cons] at hc
  rcases hc with (hc | hc) | rfl | hc
  · rcases hs with rfl | rfl
    · simp at hc
    · simp only [List.mem_singleton] at hc; exact Or.inr (Or.inl hc)
  · exact Or.inl (hip c hc)
  · exact Or.inr (Or.inr rfl)
  · exact Or.inl (hfp c hc)

theorem Dec6.ne_nil {s : Str} (h : Dec6 s) : s ≠ [] := by
  obtain ⟨sgn, ip, fp, rfl, _⟩ := h
  simp

theorem Dec6.cleanTok {s : Str} (h : Dec6 s) : CleanTok s := by
  refine ⟨h.ne_nil, ?_, ?_⟩ <;>
  · intro hc
    rcases h.chars _ hc with h | h | h <;> exact absurd h (by decide)

theorem Dec6.plain {s : Str} (h : Dec6 s) : Plain s := by
  intro c hc
  rcases h.chars c hc with h | rfl | rfl
  · exact lineBreak_not_digit c (Or.inl h)
  · decide
  · decide

/-- `v` is a finite number, as far as the opaque float model can tell: `f"{v:.6f}"` is a decimal numeral -/
def Finite (env : DepEnv) (v : Val) : Prop := Dec6 (env.fmt6 v)

/-- **Assumption V5 (floats), as a hypothesis.** `f"{0:.6f}"` is `0.000000` (the writer's default coordinate),
and for every finite `v`: `float(f"{v:.6f}")` is defined, and formatting the result gives the same text again
(formatting to six decimals is idempotent through parsing). -/
structure FloatLawful (env : DepEnv) : Prop where
  zero : env.fmt6 (Val.int 0) = py!"0.000000"
  reparse : ∀ v, Finite env v → ∃ f, env.parseFloat (env.fmt6 v) = .ok f ∧ env.fmt6 (Val.flt f) = env.fmt6 v

theorem FloatLawful.finite_zero {env : DepEnv} (h : FloatLawful env) : Finite env (Val.int 0) := by
  unfold Finite; rw [h.zero]; exact dec6_zero

open Classical in
/-- a model of the float operations: a float is the text it was read from; a float whose text is a six-decimal
numeral prints as that text, any other float is not finite and prints `nan`; an integer prints with six zeros
(time stamp and version string as the writer expects them) -/
noncomputable def floatEnv : DepEnv :=
  { BlissModel.env with
    nowStamp := py!"0928261200"
    version := py!"1.0.0"
    parseFloat := fun s => .ok ⟨s⟩
    fmt6 := fun v => match v with
      | .sc (.flt f) => if Dec6 f.tok then f.tok else py!"nan"
      | .sc (.int i) => pyStrInt i ++ py!".000000"
      | _ => py!"nan" }

open Classical in
/-- **the float law is satisfiable** -/
theorem floatLawful_floatEnv : FloatLawful floatEnv where
  zero := by decide
  reparse := by
    intro v hv
    refine ⟨⟨floatEnv.fmt6 v⟩, rfl, ?_⟩
    show (if Dec6 (floatEnv.fmt6 v) then floatEnv.fmt6 v else py!"nan") = _
    exact if_pos hv

/-- ... together with the bliss and the set contracts -/
theorem floatLawful_satisfiable : ∃ env : DepEnv, FloatLawful env ∧ BlissLawful env ∧ env.SetLawful :=
  ⟨floatEnv, floatLawful_floatEnv, ⟨BlissModel.blissLawful_env.names_perm, BlissModel.blissLawful_env.canonical⟩,
    fun _ => List.Perm.refl _⟩

open Classical in
/-- the model has finite and non-finite values -/
theorem floatEnv_not_all_finite : ¬ Finite floatEnv (Val.flt ⟨py!"inf"⟩) := by
  intro h
  have hn : ¬ Dec6 py!"inf" := by
    intro hd
    rcases hd.chars 'i' (by decide) with h | h | h <;> exact absurd h (by decide)
  have : floatEnv.fmt6 (Val.flt ⟨py!"inf"⟩) = py!"nan" := by
    show (if Dec6 py!"inf" then py!"inf" else py!"nan") = _
    rw [if_neg hn]
  unfold Finite at h
  rw [this] at h
  rcases h.chars 'n' (by decide) with h | h | h <;> exact absurd h (by decide)

/-! ## 2. the writer's side conditions from ranges; `splitlines` without `∀ v, Plain (fmt6 v)` -/

def coordKeys : List String := ["x_coord", "y_coord", "z_coord"]

/-- the property's range restrictions for the writer's environment `env` (beyond the identity facts `IdOK`):
finite (or absent) coordinates, integer (or absent) bond types, and the size bounds of CPython's `int` / `str`
conversion for labels, isotope masses and the atom and bond counts -/
structure InRange (env : DepEnv) (g : Graph) : Prop where
  coords : ∀ p ∈ g.nodesData, ∀ k ∈ coordKeys, Finite env (coord p.2 k)
  bond : ∀ e ∈ g.edgesData, EdgeRT e
  label : ∀ n ∈ g.nodeList, (n + 1).natAbs < 10 ^ 4300
  mass : ∀ p ∈ g.nodesData, ∀ m, wMass p.2 = some m → m.natAbs < 10 ^ 4300
  na : g.nodesData.length < 10 ^ 4300
  nb : g.edgesData.length < 10 ^ 4300

theorem node_of_mem {g : Graph} (wf : g.WF) {p : Int × Attrs} (hp : p ∈ g.nodesData) :
    g.node.get? p.1 = some p.2 ∧ p.1 ∈ g.nodeList ∧ ∀ k, g.attr p.1 k = p.2.get? k := by
  have hget : g.node.get? p.1 = some p.2 := Dict.get?_of_mem_items wf.node_wf hp
  exact ⟨hget, Dict.mem_keys_of_get? hget, fun k => by rw [Graph.attr_eq, hget]; rfl⟩

/-- `NodeRT` (the per-node hypothesis of `Writer.C09`) follows from the identity facts, the float law and the ranges -/
theorem nodeRT_of_inRange {env : DepEnv} (hfl : FloatLawful env) {g : Graph} (ok : IdOK g) (hr : InRange env g) :
    ∀ p ∈ g.nodesData, NodeRT env p := by
  intro p hp
  obtain ⟨_, hn, hattr⟩ := node_of_mem ok.wf hp
  obtain ⟨s, hs, e1, _⟩ := ok.elem p.1 hn
  have hx := hr.coords p hp "x_coord" (by decide)
  have hy := hr.coords p hp "y_coord" (by decide)
  have hz := hr.coords p hp "z_coord" (by decide)
  obtain ⟨fx, hfx, _⟩ := hfl.reparse _ hx
  obtain ⟨fy, hfy, _⟩ := hfl.reparse _ hy
  obtain ⟨fz, hfz, _⟩ := hfl.reparse _ hz
  exact ⟨⟨s, by rw [← hattr]; exact e1, Contracts.Parser.keys_eq_table ▸ hs⟩, ⟨hx.cleanTok, hy.cleanTok, hz.cleanTok⟩,
    ⟨hr.label p.1 hn, hr.mass p hp⟩, ⟨fx, hfx⟩, ⟨fy, hfy⟩, ⟨fz, hfz⟩⟩

set_option maxRecDepth 100000 in
theorem elements_plain : ∀ k ∈ Tucan.Consts.ELEMENT_ATTRS.keys, ∀ c ∈ k, isLineBreak c = false := by
  decide

theorem plain_atomLogical' (env : DepEnv) (p : Int × Attrs) (hx : Plain (env.fmt6 (coord p.2 "x_coord")))
    (hy : Plain (env.fmt6 (coord p.2 "y_coord"))) (hz : Plain (env.fmt6 (coord p.2 "z_coord")))
    (hsym : Plain (symbolOf p.2)) : Plain (atomLogical env p) := by
  have h1 := plain_field py!" CHG=" (by decide) (intAttr p.2 "chg") (fun c => c ≠ 0 ∧ -15 ≤ c ∧ c ≤ 15)
  have h2 := plain_field py!" RAD=" (by decide) (intAttr p.2 "rad") (fun c => 1 ≤ c ∧ c ≤ 3)
  have h3 := plain_field py!" MASS=" (by decide) (intAttr p.2 "mass") (fun c => 0 < c)
  have hb : Plain py!" " := by decide
  have h0 : Plain py!" 0" := by decide
  exact plain_append (plain_append (plain_append (plain_append (plain_append (plain_append (plain_append (plain_append
    (plain_append (plain_append (plain_append (plain_append (plain_pyStrInt _) hb) hsym) hb) hx) hb) hy) hb)
    hz) h0) h1) h2) h3

/-- no logical line of the connection table contains a line-break character -/
theorem plain_logicalLines' {env : DepEnv} {g : Graph}
    (hn : ∀ p ∈ g.nodesData, ∃ s, p.2.get? "element_symbol" = some (Val.str s) ∧ s ∈ Tucan.Consts.ELEMENT_ATTRS.keys)
    (hc : ∀ p ∈ g.nodesData, ∀ k ∈ coordKeys, Finite env (coord p.2 k)) (he : ∀ e ∈ g.edgesData, EdgeRT e) :
    ∀ l ∈ logicalLines env g, Plain l := by
  intro l hl
  simp only [logicalLines, List.mem_append, List.mem_cons, List.not_mem_nil, or_false] at hl
  rcases hl with ((((rfl | rfl | rfl) | hl) | rfl) | hl) | rfl
  · decide
  · exact plain_append (plain_append (plain_append (plain_append (by decide) (plain_pyStrInt _)) (by decide))
      (plain_pyStrInt _)) (by decide)
  · decide
  · simp only [atomLines, List.mem_map] at hl
    obtain ⟨p, hp, rfl⟩ := hl
    obtain ⟨s, hs, hel⟩ := hn p hp
    have hso : symbolOf p.2 = s := by simp [symbolOf, hs, pyStr]
    exact plain_atomLogical' env p (hc p hp _ (by decide)).plain (hc p hp _ (by decide)).plain
      (hc p hp _ (by decide)).plain (by rw [hso]; exact elements_plain s hel)
  · decide
  · unfold bondBlock at hl
    split at hl
    · simp at hl
    · simp only [List.mem_append, List.mem_cons, List.not_mem_nil, or_false, bondLines, List.mem_map] at hl
      rcases hl with (rfl | ⟨p, hp, rfl⟩) | rfl
      · decide
      · obtain ⟨b, hb, _⟩ := he p.2 (mem_numbered _ p hp)
        have hty : bondTypeOf p.2.2.2 = pyStrInt b := by simp [bondTypeOf, hb, pyStr]
        exact plain_bondLogical p (by rw [hty]; exact plain_pyStrInt b)
      · decide
  · decide

theorem plain_fileLines' {env : DepEnv} {g : Graph} (hv : Plain env.version) (hs : Plain env.nowStamp)
    (hl : ∀ l ∈ logicalLines env g, Plain l) : ∀ p ∈ fileLines env g, Plain p := by
  intro p hp
  simp only [fileLines, List.mem_append, List.mem_flatMap, List.mem_cons, List.not_mem_nil, or_false] at hp
  rcases hp with (hp | ⟨l, hl', hp⟩) | rfl
  · exact plain_header env hv hs p hp
  · intro c hc
    rcases mem_wrap l p hp _ hc with h1 | h1 | h1
    · exact (by decide : Plain v30) c h1
    · exact hl l hl' c h1
    · rw [h1]; decide
  · decide

/-- `splitlines()` (the reader) and `split("\n")` of the written text are exactly the physical lines -/
theorem splitlines_written {env : DepEnv} {g : Graph} (hv : Plain env.version) (hs : Plain env.nowStamp)
    (hl : ∀ l ∈ logicalLines env g, Plain l) :
    splitlines (join py!"\n" (fileLines env g)) = fileLines env g ∧
      split (join py!"\n" (fileLines env g)) py!"\n" = fileLines env g :=
  ⟨splitlines_join _ (plain_fileLines' hv hs hl) (by simp [fileLines]),
    split_join '\n' (fileLines env g) (by simp [fileLines]) (fun p hp => (plain_fileLines' hv hs hl p hp).nl)⟩

/-! ## 3. graph → molfile → graph: what the graph read back looks like -/

/-- **writer, then `graph_from_molfile_text`.** The text is the physical lines joined by newlines; the reader
returns a graph `g₂` whose nodes are `0 … n-1`; node number `i` carries the attributes read back from the line of
the `i`-th node of `g` (plus the invariant code); identity attributes and adjacency are carried. -/
theorem writeRead_core {envw : DepEnv} {g : Graph} (ok : IdOK g) (hl : g.Loopless)
    (hrad : ∀ i ∈ g.nodeList, ∀ r : Int, g.attr i "rad" = some (Val.int r) → r ≤ 3)
    (hn : ∀ p ∈ g.nodesData, NodeRT envw p) (he : ∀ e ∈ g.edgesData, EdgeRT e)
    (hna : g.nodesData.length < 10 ^ 4300) (hnb : g.edgesData.length < 10 ^ 4300)
    (hsplit : splitlines (join py!"\n" (fileLines envw g)) = fileLines envw g)
    (wfuel rfuel : Nat) (hf : maxLen (logicalLines envw g) / 71 + 1 ≤ wfuel)
    (hf' : (fileLines envw g).length + 1 ≤ rfuel) :
    ∃ g₂, Tucan.molfile_writer.graph_to_molfile envw wfuel g false = .ok (join py!"\n" (fileLines envw g)) ∧
      Tucan.molfile_reader.graph_from_molfile_text envw rfuel (join py!"\n" (fileLines envw g)) = .ok g₂ ∧
      g₂.WF ∧ InvariantCodeOK g₂ ∧ g₂.nodeList = range (g.nodeList.length : Int) ∧
      (∀ n ∈ g.nodeList, ∃ a, g.node.get? n = some a ∧
        g₂.node.get? (posOf g.nodeList n) = some (withCode (nodeReadBack envw a))) ∧
      (∀ k ∈ idKeys, IsIsoOn k (posOf g.nodeList) g g₂) := by
  obtain ⟨g₂, R, e, wg₂, cg₂, iso⟩ := Contracts.Final.writeRead_iso envw ok hrad
  have hm := Contracts.Final.back_molOK envw ok.wf
  obtain ⟨g₂', R', e', _, ng, ag, _⟩ :=
    Reader.graph_from_molecule_general envw _ _ hm.wf hm.attrs_wf hm.z hm.ends
  obtain ⟨rfl, rfl⟩ := Prod.mk.inj (Except.ok.inj (e'.symm.trans e))
  rw [Contracts.Final.atomsBack_keys] at ng ag
  refine ⟨g₂', graph_to_molfile_ok envw wfuel g (Contracts.Final.nodeOk_of_idOK ok) hf, ?_, wg₂, cg₂, ng, ?_, iso⟩
  · rw [Reader.graph_from_molfile_text_eq]
    unfold Reader.readSpec
    rw [hsplit]
    have h3 : (fileLines envw g)[3]? = some py!"  0  0  0     0  0            999 V3000" := rfl
    have hw : Reader.lastWord py!"  0  0  0     0  0            999 V3000" = py!"V3000" := by decide
    simp only [h3, hw, if_true]
    rw [C09_file_roundtrip envw g rfuel (GraphOk.of_WF ok.wf) hn he hna hnb hf']
    simp only [ok_bind]
    rw [Reader.molGraph_ok envw _ (Contracts.Final.not_neg_atomsBack envw g)
      (Contracts.Final.not_self_bondsBack ok.wf hl), e]
    rfl
  · intro n hn'
    cases ha : g.node.get? n with
    | none => exact absurd hn' ((Dict.get?_eq_none_iff _ _).1 ha)
    | some a =>
      refine ⟨a, rfl, ag n _ ?_⟩
      rw [Contracts.Final.atomsBack_get?, ha]; rfl

theorem nodeReadBack_coord (env : DepEnv) (a : Attrs) :
    (nodeReadBack env a).get? "x_coord" = some (Val.flt (fltOf env (coord a "x_coord"))) ∧
    (nodeReadBack env a).get? "y_coord" = some (Val.flt (fltOf env (coord a "y_coord"))) ∧
    (nodeReadBack env a).get? "z_coord" = some (Val.flt (fltOf env (coord a "z_coord"))) ∧
    (nodeReadBack env a).get? "chg" = (wChg a).map Val.int := by
  unfold nodeReadBack readBack Contracts.V3000.mkAtomAttrs
  cases wChg a <;> cases wMass a <;> cases wRad a <;>
    simp [Dict.get?, Contracts.V3000.optAttr, List.lookup]

theorem fltOf_sixDecimals {env : DepEnv} (hfl : FloatLawful env) {v : Val} (hv : Finite env v) :
    env.fmt6 (Val.flt (fltOf env v)) = env.fmt6 v := by
  obtain ⟨f, hf, e⟩ := hfl.reparse v hv
  unfold fltOf; rw [hf]; exact e


/-- **C09, graph level, with the coordinates clause.** `g`: a molecule graph with the identity facts (`IdOK`), no
self-loops, radicals `≤ 3`, attributes in the format's ranges for the writer's environment (`InRange`: finite
coordinates, integer bond types, sizes); `envw` obeys the float law. Then the writer returns a text, the reader
`graph_from_molfile_text` accepts it and returns a graph `g₂` with
* the same atoms in the same order: the nodes of `g₂` are `0 … n-1`, node `i` stands for the `i`-th node of `g`;
* the same element symbol, atomic number, isotope mass and radical (`idKeys`), the charge if it is in `-15..15`;
* **the same coordinates to six decimals**: `x_coord`, `y_coord`, `z_coord` are floats `f` with
  `f"{f:.6f}" == f"{v:.6f}"` for the coordinate `v` of `g` (default `0`);
* the same bonds: positions are adjacent in `g₂` iff the nodes are adjacent in `g`. -/
theorem C09_coords {envw : DepEnv} (hfl : FloatLawful envw) {g : Graph} (ok : IdOK g) (hl : g.Loopless)
    (hrad : ∀ i ∈ g.nodeList, ∀ r : Int, g.attr i "rad" = some (Val.int r) → r ≤ 3)
    (hr : InRange envw g) (hv : Plain envw.version) (hsP : Plain envw.nowStamp)
    (wfuel rfuel : Nat) (hf : maxLen (logicalLines envw g) / 71 + 1 ≤ wfuel)
    (hf' : (fileLines envw g).length + 1 ≤ rfuel) :
    ∃ text g₂, Tucan.molfile_writer.graph_to_molfile envw wfuel g false = .ok text ∧
      Tucan.molfile_reader.graph_from_molfile_text envw rfuel text = .ok g₂ ∧
      g₂.nodeList = range (g.nodeList.length : Int) ∧
      (∀ n ∈ g.nodeList, ∀ a, g.node.get? n = some a →
        (∀ k ∈ idKeys, g₂.attr (posOf g.nodeList n) k = a.get? k) ∧
        g₂.attr (posOf g.nodeList n) "chg" = (wChg a).map Val.int ∧
        ∀ k ∈ coordKeys, ∃ f : Flt, g₂.attr (posOf g.nodeList n) k = some (Val.flt f) ∧
          envw.fmt6 (Val.flt f) = envw.fmt6 (coord a k)) ∧
      (∀ u ∈ g.nodeList, ∀ v ∈ g.nodeList,
        posOf g.nodeList v ∈ g₂.nbrs (posOf g.nodeList u) ↔ v ∈ g.nbrs u) := by
  have hn := nodeRT_of_inRange hfl ok hr
  have hpl := plain_logicalLines' (fun p hp => (hn p hp).sym) hr.coords hr.bond
  obtain ⟨g₂, w, r, wg₂, _, ng, hnode, iso⟩ := writeRead_core ok hl hrad hn hr.bond hr.na hr.nb
    (splitlines_written hv hsP hpl).1 wfuel rfuel hf hf'
  refine ⟨_, g₂, w, r, ng, ?_, ?_⟩
  · intro n hn' a ha
    obtain ⟨a', ha', h2⟩ := hnode n hn'
    obtain rfl : a' = a := Option.some.inj (ha'.symm.trans ha)
    have hattr : ∀ k, g.attr n k = a'.get? k := fun k => by rw [Graph.attr_eq, ha]; rfl
    obtain ⟨cx, cy, cz, cc⟩ := nodeReadBack_coord envw a'
    have hp : (n, a') ∈ g.nodesData := by
      have := Dict.mem_items_of_get? ha
      exact this
    refine ⟨fun k hk => ?_, ?_, ?_⟩
    · rw [← hattr, ← (iso k hk).attr n hn']
    · rw [Contracts.Final.attr_withCode_ne h2 _ (by decide), cc]
    · intro k hk
      have hfin := hr.coords _ hp k hk
      simp only [coordKeys, List.mem_cons, List.not_mem_nil, or_false] at hk
      rcases hk with rfl | rfl | rfl
      · exact ⟨_, by rw [Contracts.Final.attr_withCode_ne h2 _ (by decide), cx], fltOf_sixDecimals hfl hfin⟩
      · exact ⟨_, by rw [Contracts.Final.attr_withCode_ne h2 _ (by decide), cy], fltOf_sixDecimals hfl hfin⟩
      · exact ⟨_, by rw [Contracts.Final.attr_withCode_ne h2 _ (by decide), cz], fltOf_sixDecimals hfl hfin⟩
  · intro u hu v hv'
    have r1 := iso "mass" (by decide)
    rw [(r1.nbrs u hu).mem_iff, List.mem_map]
    constructor
    · rintro ⟨w', hw', e⟩
      have := r1.inj w' (ok.wf.nbr_mem u w' hw') v hv' e
      rw [← this]; exact hw'
    · intro h; exact ⟨v, h, rfl⟩


/-- **C09 (graph → molfile → graph keeps the TUCAN string)** — `Final.C09_tucan` with the writer's side conditions
`NodeRT` / `PlainValues` replaced by the float law and the property's ranges. -/
theorem C09_tucan' {env₁ env₂ : DepEnv} (envw : DepEnv) (hs₁ : env₁.SetLawful) (hs₂ : env₂.SetLawful)
    (hb : BlissLawful env₁) (hcp : env₂.canonicalPermutation = env₁.canonicalPermutation)
    (hpv : env₂.permuteVertices = env₁.permuteVertices) (hfl : FloatLawful envw)
    {g : Graph} (ok : IdOK g) (hl : g.Loopless) (hne : g.nodeList ≠ [])
    (hrad : ∀ i ∈ g.nodeList, ∀ r : Int, g.attr i "rad" = some (Val.int r) → r ≤ 3)
    (hr : InRange envw g) (hv : Plain envw.version) (hsP : Plain envw.nowStamp)
    (wfuel rfuel : Nat) (hf : maxLen (logicalLines envw g) / 71 + 1 ≤ wfuel)
    (hf' : (fileLines envw g).length + 1 ≤ rfuel) :
    ∃ text g₂, Tucan.molfile_writer.graph_to_molfile envw wfuel g false = .ok text ∧
      Tucan.molfile_reader.graph_from_molfile_text envw rfuel text = .ok g₂ ∧ fuelBound g₂ = fuelBound g ∧
      ∀ fuel ≥ fuelBound g, ∀ fuel' ≥ fuelBound g, ∃ s, tucan env₁ fuel g = .ok s ∧ tucan env₂ fuel' g₂ = .ok s := by
  have hn := nodeRT_of_inRange hfl ok hr
  have hpl := plain_logicalLines' (fun p hp => (hn p hp).sym) hr.coords hr.bond
  obtain ⟨g₂, w, r, wg₂, cg₂, _, _, iso⟩ := writeRead_core ok hl hrad hn hr.bond hr.na hr.nb
    (splitlines_written hv hsP hpl).1 wfuel rfuel hf hf'
  have hiso := Contracts.Final.isIsoOn_code iso ok.code cg₂
  have fb : fuelBound g₂ = fuelBound g := Contracts.RoundTrip.fuelBound_iso hiso
  refine ⟨_, g₂, w, r, fb, ?_⟩
  intro fuel hfu fuel' hfu'
  exact Contracts.Pipeline.C01_tucan hs₁ hs₂ hb hcp hpv ok.wf wg₂ hne ok.carries_code ok.carries_Z hiso
    (fun key hk n hn' => (iso key hk).attr n hn') ok.codeDetermines fuel fuel' hfu (by rw [fb]; exact hfu')

/-! ## 4. the TUCAN parser's graphs are in range -/

section parser
open Contracts.Parser

/-- a graph built by `graph_from_molecule` from a bond dictionary whose values are all empty carries no bond data -/
theorem graph_from_molecule_noBondData (env : DepEnv) (A : Dict Int Attrs) (B : Dict (Int × Int) Attrs)
    (hB : ∀ p ∈ B.items, p.2 = Dict.empty) {g : Graph} {R : Dict Int Attrs}
    (e : Tucan.graph_utils.graph_from_molecule env A B = .ok (g, R)) :
    ∀ x y d, g.edgeAttrs x y = some d → ∀ k, d.get? k = none := by
  unfold Tucan.graph_utils.graph_from_molecule at e
  simp only [] at e
  revert e
  generalize Tucan.graph_utils._add_invariant_code env A _ = r
  cases r with
  | error err => intro e; cases e
  | ok T =>
    intro e
    simp only [ok_bind, pure_eq_ok] at e
    obtain ⟨rfl, -⟩ := Prod.mk.inj (Except.ok.inj e)
    have w1 : (Graph.empty.addNodesFrom T.keys).WF := Graph.WF_addNodesFrom Graph.WF_empty _
    have e1 : ∀ x y, (Graph.empty.addNodesFrom T.keys).edgeAttrs x y = none := by
      intro x y
      rw [Graph.addNodesFrom_eq, Graph.edgeAttrs_addNodesFromData Graph.WF_empty]
      · rfl
      · intro p hp; obtain ⟨i, _, rfl⟩ := List.mem_map.mp hp; exact Dict.WF_empty
    set G2 := (Graph.empty.addNodesFrom T.keys).setNodeAttrDicts T with hG2
    have w2 : G2.WF := Graph.WF_setNodeAttrDicts w1 _
    have e2 : ∀ x y, G2.edgeAttrs x y = none := by
      intro x y; rw [hG2, Graph.edgeAttrs_setNodeAttrDicts, e1]
    set G3 := G2.addEdgesFrom B.keys with hG3
    have w3 : G3.WF := Graph.WF_addEdgesFrom w2 _
    have p3 : Contracts.Parser.Plain G3 :=
      Contracts.Parser.plain_addEdgesFrom G2 w2 (fun x y a h => by rw [e2] at h; cases h) _
    have h4 : G3.setEdgeAttrDicts B = G3 := Contracts.Parser.setEdgeAttrDicts_plain G3 w3 B hB
    rw [h4]
    obtain ⟨w5, -, rel, -⟩ := Graph.convertNodeLabelsToIntegers_spec w3
    intro x y d hd k
    have hx := w5.left_mem_of_edgeAttrs hd
    obtain ⟨u, hu, rfl⟩ := List.mem_map.1 (rel.nodes.mem_iff.1 hx)
    have hy : y ∈ G3.convertNodeLabelsToIntegers.nbrs (Int.ofNat (G3.nodeList.idxOf u)) := by
      rw [Graph.mem_nbrs_iff, hd]; rfl
    obtain ⟨v, hv, rfl⟩ := List.mem_map.1 ((rel.nbrs u hu).mem_iff.1 hy)
    have hvn := w3.nbr_mem u v hv
    rw [Graph.mem_nbrs_iff] at hv
    obtain ⟨a, ha⟩ := Option.isSome_iff_exists.1 hv
    obtain ⟨b, hb, hab⟩ := rel.eattrs u hu v hvn a ha
    rw [hb] at hd
    obtain rfl := Option.some.inj hd
    rw [← hab k, p3 _ _ a ha]; rfl

/-- **the TUCAN parser puts no data on bonds**: every bond of the graph returned for a well-formed syntax tree
carries an attribute dict without any key (`to_graph` calls `graph_from_molecule` with `{bond: {}}`) -/
theorem parsed_noBondData (env : DepEnv) (a : Ast) (h : a.Wf) {g : Graph}
    (hg : Tucan.parser.graph_from_tree env (treeOf a) = .ok g) :
    ∀ x y d, g.edgeAttrs x y = some d → ∀ k, d.get? k = none := by
  have hgt : Tucan.parser.graph_from_tree env (treeOf a) = (walkSpec a >>= Tucan.parser.TucanListenerImpl.to_graph env) := by
    unfold Tucan.parser.graph_from_tree
    rw [walk_treeOf env a (wf_syms a h) h]
  rw [hgt] at hg
  by_cases hsd : a.SelfBond ∨ a.DupAttr
  · rw [walkSpec_error a hsd] at hg; cases hg
  · rw [not_or] at hsd
    obtain ⟨D, hw, hinv⟩ := walkSpec_ok a hsd.1 hsd.2
    have hD0 : ∀ i ∈ D.keys, 0 ≤ i := by
      intro i hi
      rw [hinv.keys, settings0_eq] at hi
      obtain ⟨s0, hs0, rfl⟩ := hi
      obtain ⟨s, hs, rfl⟩ := List.mem_map.mp hs0
      have := settings_pos a h s hs
      simp only [shift]; omega
    rw [hw] at hg
    simp only [ok_bind] at hg
    rw [to_graph_eq env (expand a.formula) (bondsOf a.tuples) D hinv.wf hD0] at hg
    split at hg
    · cases hm : Tucan.graph_utils.graph_from_molecule env (tab (expand a.formula).length (joined (expand a.formula) D))
          (Dict.ofPairs ((bondsOf a.tuples).map (fun b => (b, (Dict.empty : Attrs))))) with
      | error err => rw [hm] at hg; cases hg
      | ok r =>
        rw [hm] at hg
        obtain ⟨g', R⟩ := r
        obtain rfl : g' = g := Except.ok.inj hg
        refine graph_from_molecule_noBondData env _ _ ?_ hm
        intro p hp
        rw [Dict.ofPairs_eq_updatePairs] at hp
        rcases mem_items_updatePairs _ _ _ hp with h | h
        · simp [Dict.empty] at h
        · obtain ⟨b, _, rfl⟩ := List.mem_map.mp h; rfl
    · cases hg

/-- a graph without coordinates and bond data, nodes `0 … n-1`, small numbers, is in range for every lawful
writer environment -/
theorem inRange_of_bare {env : DepEnv} (hfl : FloatLawful env) {g : Graph} (hm : MolOK g)
    (hnodes : ∃ n : Nat, g.nodeList = range (n : Int))
    (hnoc : ∀ i, ∀ k ∈ coordKeys, g.attr i k = none)
    (hnob : ∀ x y d, g.edgeAttrs x y = some d → d.get? "bond_type" = none)
    (hnb : g.edgesData.length < 10 ^ 4300) : InRange env g := by
  have hlen : g.nodesData.length = g.nodeList.length := by simp [Graph.nodesData, Graph.nodeList, Dict.keys]
  refine ⟨?_, ?_, ?_, ?_, by rw [hlen]; exact hm.small, hnb⟩
  · intro p hp k hk
    obtain ⟨_, _, hattr⟩ := node_of_mem hm.wf hp
    have : coord p.2 k = Val.int 0 := by
      unfold coord; rw [← hattr, hnoc p.1 k hk]; rfl
    rw [this]; exact hfl.finite_zero
  · intro e he
    have := hnob _ _ _ (Graph.edgeAttrs_of_mem_edgesData hm.wf he)
    exact ⟨1, by rw [this]; rfl, by norm_num⟩
  · intro n hn
    obtain ⟨N, hN⟩ := hnodes
    have hs := hm.small
    rw [hN, Contracts.RoundTrip.length_range] at hs
    rw [hN, Contracts.Parser.mem_range] at hn
    have : (n + 1).natAbs ≤ N := by omega
    omega
  · intro p hp m hmm
    obtain ⟨_, hn, hattr⟩ := node_of_mem hm.wf hp
    obtain ⟨hi, _⟩ := wMass_spec p.2 m hmm
    have hv : g.attr p.1 "mass" = some (Val.int m) := by
      rw [hattr]
      unfold intAttr at hi
      split at hi
      · rename_i i hget; rw [hget]; cases hi; rfl
      · cases hi
    obtain ⟨i, h1, h2, e⟩ := hm.mass p.1 hn _ hv
    cases e
    omega



/-- the graph the parser returns for a well-formed syntax tree has no coordinates (its node attributes are among
`element_symbol, atomic_number, partition, mass, rad, invariant_code`) and no bond data -/
theorem parsed_bare (env : DepEnv) (a : Ast) (h : a.Wf) {g : Graph}
    (hg : Tucan.parser.graph_from_tree env (treeOf a) = .ok g) :
    (∃ n : Nat, g.nodeList = range (n : Int)) ∧ (∀ i, ∀ k ∈ coordKeys, g.attr i k = none) ∧
      (∀ x y d, g.edgeAttrs x y = some d → d.get? "bond_type" = none) := by
  have hok := graph_from_tree_ok env a h
  cases ea : denote a with
  | error err => rw [ea] at hok; rw [hg] at hok; cases hok
  | ok mol =>
    rw [ea] at hok
    obtain ⟨g', hg', R⟩ := hok
    obtain rfl : g' = g := Except.ok.inj (hg'.symm.trans hg)
    refine ⟨⟨_, R.nodes⟩, ?_, fun x y d hd => parsed_noBondData env a h hg x y d hd _⟩
    intro i k hk
    by_contra hne
    have := R.noOther i k hne
    revert hk this
    simp only [coordKeys, attrNames, List.mem_cons, List.not_mem_nil, or_false]
    rintro (rfl | rfl | rfl) <;> decide

/-- the string the pipeline emits is parsed from a well-formed syntax tree (V4) -/
theorem pipeline_output_tree (antlr : Str → Option PTree) (hV4 : V4 antlr) {env : DepEnv}
    (hs : env.SetLawful) (hb : BlissLawful env) {m : Graph} {s : Str} (hm : MolOK m) (hne : m.nodeList ≠ [])
    (hcode : InvariantCodeOK m) (fuel : Nat) (hf : fuel ≥ fuelBound m) (e : tucan env fuel m = .ok s) :
    ∃ a : Ast, a.Wf ∧ antlr s = some (treeOf a) := by
  have okm := Contracts.Final.MolOK.idOK hm hcode
  obtain ⟨c, ρ, hcan, wc, pc, ic'⟩ := RoundTrip.canonicalize_facts hs hb hm.wf hne okm.carries_code fuel
    (le_trans (Pipeline.length_le_fuelBound m) hf)
  have i' : ∀ k ∈ idKeys, IsIsoOn k ρ m c := fun k hk => ic' k (RoundTrip.idKeys_ne_partition hk)
  have okc : MolOK c := hm.of_iso wc i'
  obtain ⟨ms, σ, hser, sm, iso2⟩ := RoundTrip.serialize_molecule_sorted env hs fuel okc pc
    (by rw [RoundTrip.fuelBound_iso (i' "mass" (by decide))]; exact hf)
  have hs' : s = Layout.tucanSpec ms := by
    unfold tucan at e
    simp only [hcan, hser, ok_bind, pure_eq_ok] at e
    exact (Except.ok.inj e).symm
  subst hs'
  exact ⟨_, sm.astOf_wf, by rw [RoundTrip.tucanSpec_eq_render, hV4 _ sm.astOf_wf sm.in_grammar]⟩


end parser

/-- **every graph the parser returns is in range.** `a`: any well-formed syntax tree (any accepted TUCAN string,
canonical or not) with fewer than `10^4300` atoms; `g`: the graph the parser returns for it. Then `g` has the identity
facts, no self-loops, and is in the writer's ranges for every environment obeying the float law. -/
theorem parsed_inRange {envw : DepEnv} (hfl : FloatLawful envw) (envp : DepEnv) {a : Ast} (ha : a.Wf)
    (hsm : (Contracts.Parser.expand a.formula).length < 10 ^ 4300) {g : Graph}
    (hg : Tucan.parser.graph_from_tree envp (treeOf a) = .ok g) (hnb : g.edgesData.length < 10 ^ 4300) :
    IdOK g ∧ g.Loopless ∧ InRange envw g := by
  have hok := Contracts.Parser.graph_from_tree_ok envp a ha
  cases ea : denote a with
  | error err => rw [ea] at hok; rw [hg] at hok; cases hok
  | ok mol =>
    rw [ea] at hok
    obtain ⟨g', hg', R⟩ := hok
    obtain rfl : g' = g := Except.ok.inj (hg'.symm.trans hg)
    have hm := Contracts.Final.denote_molWf ha ea
    have okg := Contracts.Final.parsed_molOK R hm (Contracts.Final.denote_small ha ea hsm)
    obtain ⟨hnodes, hnoc, hnob⟩ := parsed_bare envp a ha hg
    exact ⟨Contracts.Final.parsed_idOK R hm, okg.loopless, inRange_of_bare hfl okg hnodes hnoc hnob hnb⟩

/-- `NodeRT`, `EdgeRT` and the plainness of everything printed — the three undischarged hypotheses of
`Final.C09_tucan` / `Final.C09_string` — hold for every graph returned by the parser -/
theorem parsed_nodeRT_edgeRT {envw : DepEnv} (hfl : FloatLawful envw) (envp : DepEnv) {a : Ast} (ha : a.Wf)
    (hsm : (Contracts.Parser.expand a.formula).length < 10 ^ 4300) {g : Graph}
    (hg : Tucan.parser.graph_from_tree envp (treeOf a) = .ok g) (hnb : g.edgesData.length < 10 ^ 4300) :
    (∀ p ∈ g.nodesData, NodeRT envw p) ∧ (∀ e ∈ g.edgesData, EdgeRT e) ∧ (∀ l ∈ logicalLines envw g, Plain l) := by
  obtain ⟨ok, _, hr⟩ := parsed_inRange hfl envp ha hsm hg hnb
  have hn := nodeRT_of_inRange hfl ok hr
  exact ⟨hn, hr.bond, plain_logicalLines' (fun p hp => (hn p hp).sym) hr.coords hr.bond⟩


/-! ## 5. the string round trip -/

/-- **C09 (string → graph → molfile → graph → string).** Hypotheses: the dependency contracts (V4 for the
recogniser, the bliss contract, set iteration, the float law for the writer's / reader's environment, version string
and time stamp without line breaks), `s` is pipeline output for a molecule `m` fit for the pipeline whose radicals are
in the format's range `1..3`, `g` is the parser's graph for `s`, and size / fuel bounds. Nothing is assumed about `g`. -/
theorem C09_string' (antlr : Str → Option PTree) (hV4 : V4 antlr) {env env₂ : DepEnv} (envp envw : DepEnv)
    (hs : env.SetLawful) (hs₂ : env₂.SetLawful) (hb : BlissLawful env)
    (hcp : env₂.canonicalPermutation = env.canonicalPermutation)
    (hpv : env₂.permuteVertices = env.permuteVertices) (hfl : FloatLawful envw)
    (hv : Plain envw.version) (hsP : Plain envw.nowStamp)
    {m g : Graph} {s : Str} (hm : MolOK m) (hne : m.nodeList ≠ []) (hcode : InvariantCodeOK m)
    (hradm : ∀ i ∈ m.nodeList, ∀ r : Int, m.attr i "rad" = some (Val.int r) → r ≤ 3)
    (fuel : Nat) (hf : fuel ≥ fuelBound m)
    (e : tucan env fuel m = .ok s) (p : graphFromTucan antlr envp s = .ok g)
    (hnb : g.edgesData.length < 10 ^ 4300)
    (wfuel rfuel : Nat) (hfw : maxLen (logicalLines envw g) / 71 + 1 ≤ wfuel)
    (hfr : (fileLines envw g).length + 1 ≤ rfuel) :
    ∃ text g₂, Tucan.molfile_writer.graph_to_molfile envw wfuel g false = .ok text ∧
      Tucan.molfile_reader.graph_from_molfile_text envw rfuel text = .ok g₂ ∧
      ∀ fuel' ≥ fuelBound m, tucan env₂ fuel' g₂ = .ok s := by
  obtain ⟨⟨π, iso⟩, okg, hne', _, idg, fb, hrun⟩ :=
    Contracts.Final.C03_fixpoint antlr hV4 envp hs hs hb rfl rfl hm hne hcode fuel hf e p
  have hradg : ∀ i ∈ g.nodeList, ∀ r : Int, g.attr i "rad" = some (Val.int r) → r ≤ 3 := by
    intro i hi r hr
    have r4 := iso "rad" (by decide)
    obtain ⟨a, ha, rfl⟩ := List.mem_map.1 (r4.nodes.mem_iff.1 hi)
    rw [r4.attr a ha] at hr
    exact hradm a ha r hr
  obtain ⟨a, ha, htree⟩ := pipeline_output_tree antlr hV4 hs hb hm hne hcode fuel hf e
  have hg : Tucan.parser.graph_from_tree envp (treeOf a) = .ok g := by
    unfold graphFromTucan at p; rw [htree] at p; exact p
  obtain ⟨hnodes, hnoc, hnob⟩ := parsed_bare envp a ha hg
  have hr := inRange_of_bare hfl okg hnodes hnoc hnob hnb
  obtain ⟨text, g₂, w, r, _, hsame⟩ := C09_tucan' envw hs hs₂ hb hcp hpv hfl idg okg.loopless hne' hradg hr hv hsP
    wfuel rfuel hfw hfr
  refine ⟨text, g₂, w, r, ?_⟩
  intro fuel' hfu'
  obtain ⟨s', e1, e2⟩ := hsame (fuelBound g) le_rfl fuel' (by rw [fb]; exact hfu')
  rw [hrun (fuelBound g) le_rfl] at e1
  cases e1
  exact e2


/-! ## 6. "a well-formed V3000 file": a format-level predicate, written from the CTfile rules -/

/-- **continuation rule.** The physical lines `ps` carry the logical line `l` (the text after `M  V30 `): `l` is cut
into pieces at arbitrary points, every piece is prefixed with `M  V30 `, every piece but the last is followed by the
continuation dash `-`; no physical line has more than 80 characters including its newline; `l` itself does not end in
a dash (so the end of the logical line is unambiguous). -/
def Carry (l : Str) (ps : List Str) : Prop :=
  ∃ pieces : List Str, pieces ≠ [] ∧ pieces.flatten = l ∧ ps = phys pieces ∧ (∀ p ∈ ps, p.length + 1 ≤ 80) ∧
    l.getLast? ≠ some '-'

/-- an optional atom property the writer may emit: `CHG=c` (`0 < |c| ≤ 15`), `RAD=r` (`1 ≤ r ≤ 3`), `MASS=m` (`m > 0`) -/
def AtomProp (t : Str) : Prop :=
  (∃ c : Int, (c ≠ 0 ∧ -15 ≤ c ∧ c ≤ 15) ∧ t = py!"CHG=" ++ pyStrInt c) ∨
  (∃ r : Int, (1 ≤ r ∧ r ≤ 3) ∧ t = py!"RAD=" ++ pyStrInt r) ∨
  (∃ m : Int, 0 < m ∧ t = py!"MASS=" ++ pyStrInt m)

/-- atom line `index type x y z aamap [CHG=] [RAD=] [MASS=]`: blank-separated fields, positive index, a non-empty
atom type without blank or `=`, three decimal coordinates, atom-atom mapping `0`, optional properties -/
def AtomLineWF (idx : Int) (l : Str) : Prop :=
  ∃ (sym x y z : Str) (props : List Str),
    l = join py!" " ([pyStrInt idx, sym, x, y, z, py!"0"] ++ props) ∧ 1 ≤ idx ∧ CleanTok sym ∧
      Dec6 x ∧ Dec6 y ∧ Dec6 z ∧ ∀ t ∈ props, AtomProp t

/-- bond line `index type atom1 atom2`: the `k`-th bond line has index `k`, an integer type, and two indices of atom
lines of the file -/
def BondLineWF (atomIdx : List Int) (k : Int) (l : Str) : Prop :=
  ∃ t a1 a2 : Int, l = join py!" " [pyStrInt k, pyStrInt t, pyStrInt a1, pyStrInt a2] ∧ a1 ∈ atomIdx ∧ a2 ∈ atomIdx

/-- the logical lines of a connection table with the given atom and bond lines; the bond block is omitted when
there are no bonds -/
def ctabLogical (atoms bonds : List Str) : List Str :=
  [py!"BEGIN CTAB", countsLine atoms.length bonds.length, py!"BEGIN ATOM"] ++ atoms ++ [py!"END ATOM"] ++
    (if bonds = [] then [] else [py!"BEGIN BOND"] ++ bonds ++ [py!"END BOND"]) ++ [py!"END CTAB"]

/-- **a well-formed V3000 molfile** (as a list of lines): three header lines (molecule name; two blanks, an
eight-character program name, a ten-character time stamp, the dimension code; comment), the V3000 counts line
`  0  0  0     0  0            999 V3000`, the connection table `BEGIN CTAB` / `COUNTS na nb 0 0 0` / `BEGIN ATOM` /
`na` atom lines / `END ATOM` / optionally `BEGIN BOND` / `nb` bond lines / `END BOND` / `END CTAB`, every logical line
carried by `M  V30 ` lines under the continuation rule, and `M  END`; no line exceeds 80 characters including the
newline or contains a line-break character; atom indices are positive and pairwise different; bond lines are
numbered `1 … nb` and refer to atom indices of the file. -/
def WellFormedV3000 (ls : List Str) : Prop :=
  ∃ (name pn ts comment : Str) (atoms : List (Int × Str)) (bonds : List Str) (ph : List (List Str)),
    ls = [name, py!"  " ++ pn ++ ts ++ py!"3D", comment, py!"  0  0  0     0  0            999 V3000"] ++ ph.flatten ++
      [py!"M  END"] ∧
    pn.length = 8 ∧ ts.length = 10 ∧
    List.Forall₂ Carry (ctabLogical (atoms.map Prod.snd) bonds) ph ∧
    (∀ l ∈ ls, l.length + 1 ≤ 80 ∧ Plain l) ∧
    (∀ p ∈ atoms, AtomLineWF p.1 p.2) ∧ (atoms.map Prod.fst).Nodup ∧
    (∀ (k : Nat) b, bonds[k]? = some b → BondLineWF (atoms.map Prod.fst) ((k : Int) + 1) b)

theorem carry_wrap (l : Str) (h : l.getLast? ≠ some '-') : Carry l (wrap l) := by
  obtain ⟨pieces, hne, hfl, hw, _⟩ := wrap_eq_phys l
  exact ⟨pieces, hne, hfl, hw, fun p hp => by have := wrap_length_le l p hp; omega, h⟩

theorem mem_optTok' (key : Str) (o : Option Int) (P : Int → Prop) [DecidablePred P] (t : Str) (h : t ∈ optTok key o P) :
    ∃ c, P c ∧ t = key ++ pyStrInt c := by
  cases o with
  | none => simp [optTok] at h
  | some c =>
    by_cases hp : P c
    · simp only [optTok, hp, if_true, List.mem_singleton] at h; exact ⟨c, hp, h⟩
    · simp [optTok, hp] at h

theorem atomLineWF_atomLogical {env : DepEnv} (p : Int × Attrs) (hpos : 0 ≤ p.1) (hsym : CleanTok (symbolOf p.2))
    (hc : ∀ k ∈ coordKeys, Finite env (coord p.2 k)) : AtomLineWF (p.1 + 1) (atomLogical env p) := by
  refine ⟨symbolOf p.2, _, _, _,
    optTok py!"CHG=" (intAttr p.2 "chg") (fun c => c ≠ 0 ∧ -15 ≤ c ∧ c ≤ 15) ++
    (optTok py!"RAD=" (intAttr p.2 "rad") (fun c => 1 ≤ c ∧ c ≤ 3) ++
     optTok py!"MASS=" (intAttr p.2 "mass") (fun c => 0 < c)), ?_, by omega, hsym,
    hc "x_coord" (by decide), hc "y_coord" (by decide), hc "z_coord" (by decide), ?_⟩
  · rw [atomLogical_eq_join]; simp [atomFields, List.append_assoc]
  · intro t ht
    simp only [List.mem_append] at ht
    rcases ht with ht | ht | ht
    · exact Or.inl (mem_optTok' _ _ _ t ht)
    · exact Or.inr (Or.inl (mem_optTok' _ _ _ t ht))
    · exact Or.inr (Or.inr (mem_optTok' _ _ _ t ht))

theorem numbered_getElem? {α} (l : List α) (k : Nat) : (numbered l)[k]? = (l[k]?).map (fun a => ((k : Int) + 1, a)) := by
  simp only [numbered, List.getElem?_map, List.getElem?_zipIdx]
  cases l[k]? <;> simp


/-- **C09, "a well-formed V3000 file".** `g`: a well-formed graph whose nodes have non-negative labels and carry an
element symbol of the element table (and an integer `mass` if any), with finite coordinates and integer bond types;
the time stamp has its ten characters, version and time stamp contain no line break; the environment obeys the float
law. Then the writer returns a text whose lines — for `splitlines()` and for `split("\n")` alike — form a
well-formed V3000 molfile. -/
theorem written_wellformed {env : DepEnv} {g : Graph} (hg : g.WF)
    (hok : ∀ p ∈ g.nodesData, NodeOk p.2)
    (hsym : ∀ p ∈ g.nodesData, ∃ s, p.2.get? "element_symbol" = some (Val.str s) ∧ s ∈ Tucan.Consts.ELEMENT_ATTRS.keys)
    (hc : ∀ p ∈ g.nodesData, ∀ k ∈ coordKeys, Finite env (coord p.2 k)) (he : ∀ e ∈ g.edgesData, EdgeRT e)
    (hlab : ∀ n ∈ g.nodeList, 0 ≤ n)
    (hstamp : env.nowStamp.length = 10) (hv : Plain env.version) (hs : Plain env.nowStamp)
    (fuel : Nat) (hf : maxLen (logicalLines env g) / 71 + 1 ≤ fuel) :
    ∃ text, Tucan.molfile_writer.graph_to_molfile env fuel g false = .ok text ∧
      WellFormedV3000 (splitlines text) ∧ split text py!"\n" = splitlines text := by
  have hpl := plain_logicalLines' hsym hc he
  obtain ⟨hsl, hsp⟩ := splitlines_written hv hs hpl
  refine ⟨_, graph_to_molfile_ok env fuel g hok hf, ?_, by rw [hsl, hsp]⟩
  rw [hsl]
  have hgo := GraphOk.of_WF hg
  have hkeys : g.nodesData.map Prod.fst = g.nodeList := rfl
  refine ⟨[], progName env, env.nowStamp, [], g.nodesData.map (fun p => (p.1 + 1, atomLogical env p)), bondLines g,
    (logicalLines env g).map wrap, ?_, length_progName env, hstamp, ?_, ?_, ?_, ?_, ?_⟩
  · simp [fileLines, header, List.flatMap_def]
  · have hl : ctabLogical ((g.nodesData.map (fun p => (p.1 + 1, atomLogical env p))).map Prod.snd) (bondLines g) =
        logicalLines env g := by
      have h1 : (g.nodesData.map (fun p => (p.1 + 1, atomLogical env p))).map Prod.snd = atomLines env g := by
        simp [atomLines, List.map_map, Function.comp_def]
      have h2 : (atomLines env g).length = g.nodesData.length := by simp [atomLines]
      have h3 : (bondLines g).length = g.edgesData.length := by simp [bondLines, length_numbered]
      have h4 : bondLines g = [] ↔ g.edgesData.length = 0 := by
        rw [← h3]; exact List.length_eq_zero_iff.symm
      unfold ctabLogical logicalLines bondBlock
      rw [h1, h2, h3]
      by_cases h0 : g.edgesData.length = 0
      · rw [if_pos (h4.2 h0), if_pos h0]
      · rw [if_neg (fun h => h0 (h4.1 h)), if_neg h0]
    rw [hl]
    have := forall₂_map_same Carry id wrap (logicalLines env g)
      (fun l hl' => carry_wrap l (getLast?_logicalLines env g l hl'))
    simpa using this
  · intro l hl
    have := C09_line_length env g hstamp l hl
    exact ⟨by omega, plain_fileLines' hv hs hpl l hl⟩
  · intro q hq
    obtain ⟨p, hp, rfl⟩ := List.mem_map.1 hq
    obtain ⟨_, hn, _⟩ := node_of_mem hg hp
    obtain ⟨s, hs', hel⟩ := hsym p hp
    obtain ⟨h1, h2, h3, _⟩ := elements_clean s hel
    have hso : symbolOf p.2 = s := by simp [symbolOf, hs', pyStr]
    exact atomLineWF_atomLogical p (hlab _ hn) (by rw [hso]; exact ⟨h1, h2, h3⟩) (hc p hp)
  · have : (g.nodesData.map (fun p => (p.1 + 1, atomLogical env p))).map Prod.fst = g.nodeList.map (· + 1) := by
      rw [← hkeys]; simp [List.map_map, Function.comp_def]
    rw [this]
    exact hg.nodup_nodeList.map (fun a b e => by simpa using e)
  · intro k b hb
    simp only [bondLines, List.getElem?_map, numbered_getElem?, Option.map_map, Option.map_eq_some_iff] at hb
    obtain ⟨e, hek, rfl⟩ := hb
    have hmem : e ∈ g.edgesData := List.mem_of_getElem? hek
    obtain ⟨bt, hbt, _⟩ := he e hmem
    obtain ⟨hu, hv'⟩ := hgo.ends e hmem
    have hty : bondTypeOf e.2.2 = pyStrInt bt := by simp [bondTypeOf, hbt, pyStr]
    have hidx : ∀ x, x ∈ g.nodesData.map Prod.fst →
        x + 1 ∈ (g.nodesData.map (fun p => (p.1 + 1, atomLogical env p))).map Prod.fst := by
      intro x hx
      obtain ⟨p, hp, rfl⟩ := List.mem_map.1 hx
      exact List.mem_map.2 ⟨_, List.mem_map.2 ⟨p, hp, rfl⟩, rfl⟩
    refine ⟨bt, e.1 + 1, e.2.1 + 1, ?_, hidx _ hu, hidx _ hv'⟩
    simp only [Function.comp_apply]
    rw [bondLogical_eq_join, hty]

/-- `written_wellformed` for a graph with the identity facts (parser / reader output) in the format's ranges -/
theorem written_wellformed_of_inRange {env : DepEnv} (hfl : FloatLawful env) {g : Graph} (ok : IdOK g)
    (hr : InRange env g) (hlab : ∀ n ∈ g.nodeList, 0 ≤ n)
    (hstamp : env.nowStamp.length = 10) (hv : Plain env.version) (hs : Plain env.nowStamp)
    (fuel : Nat) (hf : maxLen (logicalLines env g) / 71 + 1 ≤ fuel) :
    ∃ text, Tucan.molfile_writer.graph_to_molfile env fuel g false = .ok text ∧
      WellFormedV3000 (splitlines text) ∧ split text py!"\n" = splitlines text :=
  written_wellformed ok.wf (Contracts.Final.nodeOk_of_idOK ok)
    (fun p hp => (nodeRT_of_inRange hfl ok hr p hp).sym) hr.coords hr.bond hlab hstamp hv hs fuel hf


/-- the parser's graphs: the file written for any graph the parser returns is a well-formed V3000 file -/
theorem written_wellformed_parsed {envw : DepEnv} (hfl : FloatLawful envw) (envp : DepEnv) {a : Ast} (ha : a.Wf)
    (hsm : (Contracts.Parser.expand a.formula).length < 10 ^ 4300) {g : Graph}
    (hg : Tucan.parser.graph_from_tree envp (treeOf a) = .ok g) (hnb : g.edgesData.length < 10 ^ 4300)
    (hstamp : envw.nowStamp.length = 10) (hv : Plain envw.version) (hs : Plain envw.nowStamp)
    (fuel : Nat) (hf : maxLen (logicalLines envw g) / 71 + 1 ≤ fuel) :
    ∃ text, Tucan.molfile_writer.graph_to_molfile envw fuel g false = .ok text ∧
      WellFormedV3000 (splitlines text) ∧ split text py!"\n" = splitlines text := by
  obtain ⟨ok, _, hr⟩ := parsed_inRange hfl envp ha hsm hg hnb
  obtain ⟨⟨n, hn⟩, _, _⟩ := parsed_bare envp a ha hg
  refine written_wellformed_of_inRange hfl ok hr ?_ hstamp hv hs fuel hf
  intro i hi
  rw [hn, Contracts.Parser.mem_range] at hi
  exact hi.1

/-! ## 7. non-vacuity: a carbon atom with coordinates, in the model `floatEnv` -/

def exCattrs : Attrs :=
  ⟨[("element_symbol", Val.str py!"C"), ("atomic_number", Val.int 6),
    ("x_coord", Val.flt ⟨py!"1.250000"⟩), ("z_coord", Val.flt ⟨py!"-0.500000"⟩),
    ("invariant_code", Val.tup [.int 6, .int 0, .int 0])]⟩

/-- one carbon atom at `(1.25, 0 (absent), -0.5)` -/
def exC : Graph := Graph.empty.addNode 0 exCattrs

theorem exC_nodesData : exC.nodesData = [(0, exCattrs)] := by decide

theorem exC_idOK : IdOK exC := by
  have w : exC.WF := Graph.WF_addNode Graph.WF_empty 0 (by unfold Dict.WF Dict.keys; decide)
  have hn : exC.nodeList = [0] := by decide
  refine ⟨w, ?_, ?_, ?_, ?_⟩
  · intro i hi
    rw [hn] at hi; simp only [List.mem_singleton] at hi; subst hi
    exact ⟨py!"C", by decide, by decide, by decide⟩
  · intro i hi v hv
    rw [hn] at hi; simp only [List.mem_singleton] at hi; subst hi
    have : exC.attr 0 "mass" = none := by decide
    rw [this] at hv; cases hv
  · intro i hi v hv
    rw [hn] at hi; simp only [List.mem_singleton] at hi; subst hi
    have : exC.attr 0 "rad" = none := by decide
    rw [this] at hv; cases hv
  · intro i hi
    rw [hn] at hi; simp only [List.mem_singleton] at hi; subst hi
    decide

open Classical in
theorem exC_inRange : InRange floatEnv exC := by
  have d1 : Dec6 py!"1.250000" := ⟨[], py!"1", py!"250000", rfl, Or.inl rfl, by decide, by decide, rfl, by decide⟩
  have d2 : Dec6 py!"-0.500000" := ⟨py!"-", py!"0", py!"500000", rfl, Or.inr rfl, by decide, by decide, rfl, by decide⟩
  have small : ∀ n : Nat, n < 100 → n < 10 ^ 4300 := fun n h =>
    by exact_mod_cast Contracts.RoundTrip.small_lit n (by exact_mod_cast h)
  refine ⟨?_, ?_, ?_, ?_, ?_, ?_⟩
  · intro p hp k hk
    rw [exC_nodesData] at hp
    simp only [List.mem_singleton] at hp; subst hp
    simp only [coordKeys, List.mem_cons, List.not_mem_nil, or_false] at hk
    rcases hk with rfl | rfl | rfl
    · show Dec6 (if Dec6 py!"1.250000" then py!"1.250000" else py!"nan")
      rw [if_pos d1]; exact d1
    · exact floatLawful_floatEnv.finite_zero
    · show Dec6 (if Dec6 py!"-0.500000" then py!"-0.500000" else py!"nan")
      rw [if_pos d2]; exact d2
  · intro e he
    have : exC.edgesData = [] := by decide
    rw [this] at he; cases he
  · intro n hn
    have : exC.nodeList = [0] := by decide
    rw [this] at hn; simp only [List.mem_singleton] at hn; subst hn
    exact small _ (by decide)
  · intro p hp m hm
    rw [exC_nodesData] at hp
    simp only [List.mem_singleton] at hp; subst hp
    have : wMass exCattrs = none := by decide
    rw [this] at hm; cases hm
  · rw [exC_nodesData]; exact small _ (by decide)
  · have : exC.edgesData = [] := by decide
    rw [this]; exact small _ (by decide)

/-- `C09_coords`, instance: its hypotheses can be met by a molecule with non-trivial coordinates; the graph read
back has coordinates that print as `1.250000`, `0.000000`, `-0.500000` -/
theorem C09_coords_witness :
    ∃ text g₂, Tucan.molfile_writer.graph_to_molfile floatEnv (maxLen (logicalLines floatEnv exC) / 71 + 1) exC false = .ok text ∧
      Tucan.molfile_reader.graph_from_molfile_text floatEnv ((fileLines floatEnv exC).length + 1) text = .ok g₂ ∧
      g₂.nodeList = range 1 ∧
      ∃ fx fy fz : Flt, g₂.attr 0 "x_coord" = some (Val.flt fx) ∧ g₂.attr 0 "y_coord" = some (Val.flt fy) ∧
        g₂.attr 0 "z_coord" = some (Val.flt fz) ∧
        floatEnv.fmt6 (Val.flt fx) = floatEnv.fmt6 (Val.flt ⟨py!"1.250000"⟩) ∧
        floatEnv.fmt6 (Val.flt fy) = py!"0.000000" ∧
        floatEnv.fmt6 (Val.flt fz) = floatEnv.fmt6 (Val.flt ⟨py!"-0.500000"⟩) := by
  have hl : exC.Loopless := by
    intro u hu
    have : exC.nbrs u = [] := by
      unfold Graph.nbrs exC Graph.addNode
      simp [Graph.empty, Dict.get?, Dict.set, Dict.empty, Dict.contains]
      simp only [List.lookup]
      split <;> simp [Dict.keys]
    rw [this] at hu; cases hu
  have hrad : ∀ i ∈ exC.nodeList, ∀ r : Int, exC.attr i "rad" = some (Val.int r) → r ≤ 3 := by
    intro i hi r hr
    have hn : exC.nodeList = [0] := by decide
    rw [hn] at hi; simp only [List.mem_singleton] at hi; subst hi
    have : exC.attr 0 "rad" = none := by decide
    rw [this] at hr; cases hr
  obtain ⟨text, g₂, w, r, ng, hat, _⟩ := C09_coords floatLawful_floatEnv exC_idOK hl hrad exC_inRange
    (by decide) (by decide) _ _ (le_refl _) (le_refl _)
  have h0 : (0 : Int) ∈ exC.nodeList := by decide
  obtain ⟨_, _, hco⟩ := hat 0 h0 exCattrs (by decide)
  have hp : posOf exC.nodeList 0 = 0 := by decide
  rw [hp] at hco
  obtain ⟨fx, ex, hx⟩ := hco "x_coord" (by decide)
  obtain ⟨fy, ey, hy⟩ := hco "y_coord" (by decide)
  obtain ⟨fz, ez, hz⟩ := hco "z_coord" (by decide)
  exact ⟨text, g₂, w, r, ng, fx, fy, fz, ex, ey, ez, hx, hy.trans floatLawful_floatEnv.zero, hz⟩

/-- `written_wellformed`, instance -/
theorem written_wellformed_witness :
    ∃ text, Tucan.molfile_writer.graph_to_molfile floatEnv (maxLen (logicalLines floatEnv exC) / 71 + 1) exC false = .ok text ∧
      WellFormedV3000 (splitlines text) ∧ split text py!"\n" = splitlines text :=
  written_wellformed_of_inRange floatLawful_floatEnv exC_idOK exC_inRange
    (by intro n hn; have : exC.nodeList = [0] := by decide
        rw [this] at hn; simp only [List.mem_singleton] at hn; omega)
    (by decide) (by decide) (by decide) _ (le_refl _)



#print axioms floatLawful_satisfiable
#print axioms C09_coords
#print axioms C09_tucan'
#print axioms parsed_noBondData
#print axioms parsed_inRange
#print axioms parsed_nodeRT_edgeRT
#print axioms C09_string'
#print axioms written_wellformed
#print axioms written_wellformed_parsed
#print axioms C09_coords_witness
#print axioms written_wellformed_witness

end Contracts.WriterExt
