/-
Contracts.Witness4 — vacuity guards / variants asked for by AUDIT2 "Addendum 2" (findings 2 and 3).

 1. `read_v2000_eq_v3000_lists_coords'`   `C08Coords.read_v2000_eq_v3000_lists_coords` without the redundant
    hypothesis `CoordsOK envr m` (derived from `V3OK` under `FloatIgnoresBlanks` by `C08Coords.coordsOK_of_v3ok`).
 2. `lists_coords_witness`   complete instance of it with a NON-EMPTY atom-list part: `Witness2.mol3` / `dress3`,
    `choiceL3` = `Witness2.choice3` plus one V2000 atom-list line (`  1 F    2   7   8`), reader environment
    `C08Coords.envF`.
 3. `star_witness4`, `files_star_witness4`   instance of `FileIsoStar.IdentityIsoStar` / `C01_C06_files_star` on tables
    with FOUR non-star atoms, the fourth (`O`) linked to one carbon only: "not linked ↦ not linked" is exercised off
    the diagonal.

No `sorry`, no axioms beyond propext / Classical.choice / Quot.sound (printed at the end).
-/
import Contracts.C08Coords
import Contracts.FileIsoStar
set_option autoImplicit false
open Py

namespace Contracts.Witness4

open Contracts.V2000File
open Contracts.Reader (Ctab Dress fileLines fltOf IsSep isSep_crlf isSep_lf)
open Contracts.FinalLabels (fuelBound)
open Contracts.Pipeline (tucan)
open Contracts.C08Coords (FloatIgnoresBlanks coordsOK_of_v3ok read_v2000_eq_v3000_lists_coords envF
  floatIgnoresBlanks_envF mol3_v3ok_envF)

/-! ## 1. the lists variant without `CoordsOK` -/

/-- `C08Coords.read_v2000_eq_v3000_lists_coords` without the hypothesis `CoordsOK` (it follows from `V3OK` under the
law `FloatIgnoresBlanks`) -/
theorem read_v2000_eq_v3000_lists_coords' {env₁ env₂ : DepEnv} (envr : DepEnv) (hs₁ : env₁.SetLawful)
    (hs₂ : env₂.SetLawful) (hb : BlissLawful env₁) (hcp : env₂.canonicalPermutation = env₁.canonicalPermutation)
    (hpv : env₂.permuteVertices = env₁.permuteVertices)
    (hF : FloatIgnoresBlanks envr)
    (m : AMol) (hm : m.WF) (hne : m.atoms ≠ [])
    (rf : Nat) (sep : Str) (hsep : IsSep sep) (h3 : V3OK envr m) (D : Dress) (hok : D.OK (toCtab m))
    (hnbD : D.NoBreaks (toCtab m)) (hrf : ((fileLines (toCtab m) D).drop 4).length + 1 ≤ rf)
    (rf' : Nat) (sep' : Str) (hsep' : IsSep sep') (c : ChoiceL) (hc : c.toChoice.OK m) (hnb : c.toChoice.NoBreaks m)
    (hl : c.ListsOK) :
    ∃ g g', Tucan.molfile_reader.graph_from_molfile_text envr rf (join sep (fileLines (toCtab m) D ++ [[]])) = .ok g ∧
      Tucan.molfile_reader.graph_from_molfile_text envr rf' (renderV2000L sep' m c) = .ok g' ∧
      g'.nodeList = g.nodeList ∧
      (∀ n k, g'.attr n k = g.attr n k) ∧
      (∀ x y, y ∈ g'.nbrs x ↔ y ∈ g.nbrs x) ∧
      ((∀ b ∈ m.bonds, ∀ b' ∈ m.bonds, b.SamePair b' → b'.typ = b.typ) → ∀ x y, g'.edgeAttrs x y = g.edgeAttrs x y) ∧
      fuelBound g' = fuelBound g ∧
      ∀ fuel ≥ fuelBound g, ∀ fuel' ≥ fuelBound g, ∃ s, tucan env₁ fuel g = .ok s ∧ tucan env₂ fuel' g' = .ok s :=
  read_v2000_eq_v3000_lists_coords envr hs₁ hs₂ hb hcp hpv hF m hm hne rf sep hsep h3 D hok hnbD hrf rf' sep' hsep'
    c hc hnb hl (coordsOK_of_v3ok hF h3)

/-! ## 2. an instance with an atom-list line -/

section ListsWitness
open Contracts.Witness (env0 env1 env0_set env1_set env0_bliss env1_cp env1_pv)
open Contracts.Witness2 (mol3 mol3_wf choice3 choice3_ok choice3_noBreaks dress3 dress3_ok dress3_noBreaks)

/-- `Witness2.choice3` with one atom-list line (`aaa kSSSSn 111 222`): atom 1 is one of the two elements N (7), O (8) -/
def choiceL3 : ChoiceL := { toChoice := choice3, lists := [py!"  1 F    2   7   8"] }

/-- the V2000 file of the instance: `lll` of the counts line is 1, the atom-list line stands between the bond block
and the property block -/
example : v2000LinesL mol3 choiceL3 = [
    py!"mol3", py!"", py!"comment",
    py!"  3  2  1  0  0  0  0  0  0  0999 V2000",
    py!"    1.2000      -0.5         0 N   0  1  0  0  0",
    py!"       2.0         0         0 D   0  4  0  0  0",
    py!"       4.0         0         0 O   0  0  0  0  0",
    py!"  1  2  1  0", py!"  3  1  2  0",
    py!"  1 F    2   7   8",
    py!"M  RAD  1   1   2", py!"M  STY  1   1 SUP", py!"M  ISO  1   3  18", py!"M  CHG  2   1   1   3   0",
    py!"M  END", py!"$$$$"] := by decide

theorem choiceL3_listsOK : choiceL3.ListsOK where
  len := by decide
  shape := by
    intro l hl
    simp only [choiceL3, List.mem_cons, List.not_mem_nil, or_false] at hl
    subst hl
    exact ⟨1, py!" F    2   7   8", by decide⟩
  noBreak := by
    intro l hl
    simp only [choiceL3, List.mem_cons, List.not_mem_nil, or_false] at hl
    subst hl
    decide

/-- **`read_v2000_eq_v3000_lists_coords'`, instance with a non-empty atom-list part**: the V3000 file of
`Witness2.read_v2000_eq_v3000_witness` (LF) and the V2000 file above (CRLF, one atom-list line), read with a `float()`
that obeys the law, give node for node the same attributes — coordinates included —, the same adjacency and edge
data, one TUCAN string under two `set` orders -/
theorem lists_coords_witness :
    choiceL3.lists ≠ [] ∧
    ∃ g g', Tucan.molfile_reader.graph_from_molfile_text envF (((fileLines (toCtab mol3) dress3).drop 4).length + 1)
        (join py!"\n" (fileLines (toCtab mol3) dress3 ++ [[]])) = .ok g ∧
      Tucan.molfile_reader.graph_from_molfile_text envF 0 (renderV2000L py!"\r\n" mol3 choiceL3) = .ok g' ∧
      g'.nodeList = g.nodeList ∧
      (∀ n k, g'.attr n k = g.attr n k) ∧
      g'.attr 0 "x_coord" = some (Val.flt ⟨py!"1.2000"⟩) ∧ g.attr 0 "x_coord" = some (Val.flt ⟨py!"1.2000"⟩) ∧
      g'.attr 0 "y_coord" = some (Val.flt ⟨py!"-0.5"⟩) ∧
      (∀ x y, y ∈ g'.nbrs x ↔ y ∈ g.nbrs x) ∧ (∀ x y, g'.edgeAttrs x y = g.edgeAttrs x y) ∧
      ∃ s, tucan env0 (fuelBound g) g = .ok s ∧ tucan env1 (fuelBound g) g' = .ok s := by
  refine ⟨by decide, ?_⟩
  have hF : FloatIgnoresBlanks envF := floatIgnoresBlanks_envF
  obtain ⟨g, g', e, e', hn, ha, hb, hed, _, hs⟩ :=
    read_v2000_eq_v3000_lists_coords' envF env0_set env1_set env0_bliss env1_cp env1_pv hF mol3 mol3_wf (by decide)
      _ py!"\n" isSep_lf mol3_v3ok_envF dress3 dress3_ok dress3_noBreaks (le_refl _)
      0 py!"\r\n" isSep_crlf choiceL3 choice3_ok choice3_noBreaks choiceL3_listsOK
  obtain ⟨g₁, hg₁, _, _, _, ag, _⟩ := read_v3000_render envF _ py!"\n" isSep_lf mol3 mol3_wf mol3_v3ok_envF dress3
    dress3_ok dress3_noBreaks (le_refl _)
  obtain rfl : g₁ = g := Except.ok.inj (hg₁.symm.trans e)
  have hx : g₁.attr 0 "x_coord" = some (Val.flt ⟨py!"1.2000"⟩) := by
    have := ag 0 _ (by rfl : mol3.atoms[0]? = some _) "x_coord"
    rw [show ((0 : Nat) : Int) = 0 from rfl] at this
    rw [this]; decide
  have hy : g₁.attr 0 "y_coord" = some (Val.flt ⟨py!"-0.5"⟩) := by
    have := ag 0 _ (by rfl : mol3.atoms[0]? = some _) "y_coord"
    rw [show ((0 : Nat) : Int) = 0 from rfl] at this
    rw [this]; decide
  refine ⟨g₁, g', e, e', hn, ha, (ha 0 "x_coord").trans hx, hx, (ha 0 "y_coord").trans hy, hb, hed ?_,
    hs _ (le_refl _) _ (le_refl _)⟩
  intro b hb b' hb' hsp
  simp only [mol3, List.mem_cons, List.not_mem_nil, or_false] at hb hb'
  rcases hb with rfl | rfl <;> rcases hb' with rfl | rfl <;> simp [ABond.SamePair] at hsp ⊢

end ListsWitness

/-! ## 3. `IdentityIsoStar` / `C01_C06_files_star` with four non-star atoms and unlinked pairs -/

section StarWitness
open Contracts.V3000 (AtomLine BondLine intOf hydrogenIsotope atomicNumber_known propInt Prop')
open Contracts.Reader (Ctab Dress fileLines IsSep isSep_crlf isSep_lf)
open Contracts.FinalLabels (fuelBound)
open Contracts.Pipeline (tucan)
open Contracts.C07Star (Starry real NegMassRad SelfLink noDash_of_check)
open Contracts.FileIsoStar (IdentityIsoStar LinkedPos linkedPosB linkedPos_iff_B C01_C06_files_star)
open Contracts.Witness (env0 env1 env0_set env1_set env0_bliss env1_cp env1_pv isInt_of_eq)

/-- `C07Star.starCtab` with a fifth atom line: 1 C, 2 `*`, 3 C⁻, 4 Fe, 5 O; bond lines 1 (1–3) and 2 (4 — `*`,
`ENDPTS=(2 1 3)`) as there, bond line 3 joins O to carbon 1. O is linked to neither C⁻ (3) nor Fe (4). -/
def starCtab4 : Ctab :=
  ⟨[⟨py!"1", py!"C", py!"0", py!"0", py!"0", py!"0", []⟩,
    ⟨py!"2", py!"*", py!"0", py!"0", py!"0", py!"0", []⟩,
    ⟨py!"3", py!"C", py!"1.4", py!"0", py!"0", py!"0", [⟨py!"CHG", py!"-1", []⟩]⟩,
    ⟨py!"4", py!"Fe", py!"0", py!"2", py!"0", py!"0", []⟩,
    ⟨py!"5", py!"O", py!"-1", py!"0", py!"0", py!"0", []⟩],
   [⟨py!"1", py!"1", py!"1", py!"3", [], none⟩,
    ⟨py!"2", py!"9", py!"4", py!"2", [], some ([py!"2", py!"1", py!"3"], [py!"ATTACH=ALL"])⟩,
    ⟨py!"3", py!"1", py!"5", py!"1", [], none⟩]⟩

/-- the same molecule without a star atom, atom lines in the reverse order and with other indices: O (index 7), Fe (1),
C (2, `RAD=0`), C (3); the star bond expanded into `1 — 3`, `2 — 1`; C–C written `3 — 2` with type 2; C–O written
`3 — 7` with type 2 -/
def expandedCtab4 : Ctab :=
  ⟨[⟨py!"7", py!"O", py!"9", py!"9", py!"0", py!"0", []⟩,
    ⟨py!"1", py!"Fe", py!"5", py!"5", py!"0", py!"0", []⟩,
    ⟨py!"2", py!"C", py!"0", py!"1", py!"0", py!"0", [⟨py!"RAD", py!"0", []⟩]⟩,
    ⟨py!"3", py!"C", py!"0", py!"0", py!"0", py!"0", []⟩],
   [⟨py!"1", py!"1", py!"1", py!"3", [], none⟩,
    ⟨py!"2", py!"1", py!"2", py!"1", [], none⟩,
    ⟨py!"3", py!"2", py!"3", py!"2", [], none⟩,
    ⟨py!"4", py!"2", py!"3", py!"7", [], none⟩]⟩

/-- position 0 (C, index 1) ↦ 3, position 1 (C⁻, index 3) ↦ 2, position 2 (Fe, index 4) ↦ 1, position 3 (O, index 5) ↦ 0 -/
def sigma4 (i : Nat) : Nat := 3 - i

/-- in `starCtab4` there are unlinked pairs of distinct non-star atoms (O–C⁻, O–Fe) as well as linked ones -/
theorem starCtab4_links : (real starCtab4).length = 4 ∧
    LinkedPos starCtab4 0 3 ∧ LinkedPos starCtab4 0 1 ∧ LinkedPos starCtab4 0 2 ∧ LinkedPos starCtab4 1 2 ∧
    ¬ LinkedPos starCtab4 1 3 ∧ ¬ LinkedPos starCtab4 2 3 ∧ ¬ LinkedPos starCtab4 3 1 ∧ ¬ LinkedPos starCtab4 3 2 := by
  simp only [linkedPos_iff_B]
  decide

theorem star_witness4 : IdentityIsoStar starCtab4 expandedCtab4 sigma4 where
  natoms := by decide
  pos := ⟨by decide, by decide⟩
  atoms := by
    intro i a a' ha ha'
    have hi : i < 4 := (List.getElem?_eq_some_iff.mp ha).1
    interval_cases i
    · cases ha; cases ha'; decide
    · cases ha; cases ha'; decide
    · cases ha; cases ha'; decide
    · cases ha; cases ha'; decide
  links := by
    intro i hi j hj
    rw [linkedPos_iff_B, linkedPos_iff_B]
    revert i j
    decide

theorem starCtab4_starry : Starry env0 starCtab4 where
  wf := by
    intro a ha
    simp only [starCtab4, List.mem_cons, List.not_mem_nil, or_false] at ha
    rcases ha with rfl | rfl | rfl | rfl | rfl
    · exact ⟨⟨1, by decide⟩, by decide, by decide, by decide, by decide, by decide, (by intro p hp; cases hp), by decide⟩
    · exact ⟨⟨2, by decide⟩, by decide, by decide, by decide, by decide, by decide, (by intro p hp; cases hp), by decide⟩
    · refine ⟨⟨3, by decide⟩, by decide, by decide, by decide, by decide, by decide, ?_, by decide⟩
      intro p hp _
      simp only [List.mem_cons, List.not_mem_nil, or_false] at hp
      subst hp
      exact ⟨-1, by decide⟩
    · exact ⟨⟨4, by decide⟩, by decide, by decide, by decide, by decide, by decide, (by intro p hp; cases hp), by decide⟩
    · exact ⟨⟨5, by decide⟩, by decide, by decide, by decide, by decide, by decide, (by intro p hp; cases hp), by decide⟩
  known := by
    intro a ha hs
    simp only [starCtab4, List.mem_cons, List.not_mem_nil, or_false] at ha
    rcases ha with rfl | rfl | rfl | rfl | rfl
    · obtain ⟨n, hn⟩ := atomicNumber_known py!"C" (by decide)
      exact ⟨_, (by decide : (hydrogenIsotope py!"C").1 = py!"C") ▸ hn⟩
    · exact absurd rfl hs
    · obtain ⟨n, hn⟩ := atomicNumber_known py!"C" (by decide)
      exact ⟨_, (by decide : (hydrogenIsotope py!"C").1 = py!"C") ▸ hn⟩
    · obtain ⟨n, hn⟩ := atomicNumber_known py!"Fe" (by decide)
      exact ⟨_, (by decide : (hydrogenIsotope py!"Fe").1 = py!"Fe") ▸ hn⟩
    · obtain ⟨n, hn⟩ := atomicNumber_known py!"O" (by decide)
      exact ⟨_, (by decide : (hydrogenIsotope py!"O").1 = py!"O") ▸ hn⟩
  coords := fun a _ _ => ⟨⟨_, rfl⟩, ⟨_, rfl⟩, ⟨_, rfl⟩⟩
  uniq := by decide
  bondInts := by
    intro b hb
    simp only [starCtab4, List.mem_cons, List.not_mem_nil, or_false] at hb
    rcases hb with rfl | rfl | rfl
    · exact ⟨⟨1, by decide⟩, ⟨3, by decide⟩, ⟨1, by decide⟩⟩
    · exact ⟨⟨4, by decide⟩, ⟨2, by decide⟩, ⟨9, by decide⟩⟩
    · exact ⟨⟨5, by decide⟩, ⟨1, by decide⟩, ⟨1, by decide⟩⟩
  noStarStar := by decide
  star := by
    intro b hb hs
    simp only [starCtab4, List.mem_cons, List.not_mem_nil, or_false] at hb
    rcases hb with rfl | rfl | rfl
    · exact absurd hs (by decide)
    · refine ⟨_, _, rfl, ?_, 2, [1, 3], by decide, rfl⟩
      intro t ht
      simp only [List.mem_cons, List.not_mem_nil, or_false] at ht
      rcases ht with rfl | rfl | rfl
      · exact ⟨2, by decide⟩
      · exact ⟨1, by decide⟩
      · exact ⟨3, by decide⟩
    · exact absurd hs (by decide)
  ends := by decide

theorem starCtab4_notNeg : ¬ NegMassRad starCtab4 := by
  rintro ⟨a, ha, h⟩
  have hr : real starCtab4 = [⟨py!"1", py!"C", py!"0", py!"0", py!"0", py!"0", []⟩,
      ⟨py!"3", py!"C", py!"1.4", py!"0", py!"0", py!"0", [⟨py!"CHG", py!"-1", []⟩]⟩,
      ⟨py!"4", py!"Fe", py!"0", py!"2", py!"0", py!"0", []⟩,
      ⟨py!"5", py!"O", py!"-1", py!"0", py!"0", py!"0", []⟩] := by rfl
  simp only [hr, List.mem_cons, List.not_mem_nil, or_false] at ha
  have e0m : propInt ([] : List Prop') py!"MASS" = none := rfl
  have e0r : propInt ([] : List Prop') py!"RAD" = none := rfl
  have e1 : propInt [(⟨py!"CHG", py!"-1", []⟩ : Prop')] py!"MASS" = none := by decide
  have e2 : propInt [(⟨py!"CHG", py!"-1", []⟩ : Prop')] py!"RAD" = none := by decide
  rcases ha with rfl | rfl | rfl | rfl
  · simp only [e0m, e0r] at h; simp at h
  · simp only [e1, e2] at h; simp at h
  · simp only [e0m, e0r] at h; simp at h
  · simp only [e0m, e0r] at h; simp at h

/-- header lines, `END CTAB`, `M  END`; the star bond line is cut inside the `ENDPTS` list -/
def starDress4 : Dress where
  h0 := py!"name"
  h1 := py!""
  h2 := py!"comment"
  h3 := py!"  0  0  0     0  0            999 V3000"
  cntA := py!"5"
  cntB := py!"3"
  cntRest := [py!"0", py!"0", py!"0"]
  extra := [[py!"END", py!"CTAB"]]
  tail := [py!"M  END"]
  spell := fun i => if i = 11 then { gaps := [0, 1], cuts := [19] } else {}

example : fileLines starCtab4 starDress4 =
    [py!"name", py!"", py!"comment", py!"  0  0  0     0  0            999 V3000",
      py!"M  V30 BEGIN CTAB", py!"M  V30 COUNTS 5 3 0 0 0", py!"M  V30 BEGIN ATOM",
      py!"M  V30 1 C 0 0 0 0", py!"M  V30 2 * 0 0 0 0", py!"M  V30 3 C 1.4 0 0 0 CHG=-1", py!"M  V30 4 Fe 0 2 0 0",
      py!"M  V30 5 O -1 0 0 0",
      py!"M  V30 END ATOM", py!"M  V30 BEGIN BOND", py!"M  V30 1 1 1 3",
      py!"M  V30 2  9 4 2 ENDPTS=(2 -", py!"M  V30 1 3) ATTACH=ALL", py!"M  V30 3 1 5 1", py!"M  V30 END BOND",
      py!"M  V30 END CTAB", py!"M  END"] := by
  decide

theorem starDress4_ok : starDress4.OK starCtab4 where
  ver := by decide
  tail := by decide
  clean := by decide
  nodash := noDash_of_check _ _ (by decide)
  cntA := by decide
  cntB := by decide

theorem starDress4_noBreaks : starDress4.NoBreaks starCtab4 where
  hdr := by decide
  toks := by decide
  tail := by decide

theorem starCtab4_bondShape : ∀ b ∈ starCtab4.bonds, b.Shape := by
  intro b hb
  simp only [starCtab4, List.mem_cons, List.not_mem_nil, or_false] at hb
  rcases hb with rfl | rfl | rfl
  · exact ⟨by decide, by intro nums post h; cases h⟩
  · refine ⟨by decide, ?_⟩
    intro nums post h
    cases h
    exact ⟨by decide, by decide, by decide⟩
  · exact ⟨by decide, by intro nums post h; cases h⟩

theorem expanded4_plain : expandedCtab4.Plain env0 where
  wf := by
    intro a ha
    simp only [expandedCtab4, List.mem_cons, List.not_mem_nil, or_false] at ha
    rcases ha with rfl | rfl | rfl | rfl
    · refine ⟨isInt_of_eq (n := 7) (by decide), by decide, by decide, by decide, by decide, by decide, ?_, by decide⟩
      intro p hp _; simp at hp
    · refine ⟨isInt_of_eq (n := 1) (by decide), by decide, by decide, by decide, by decide, by decide, ?_, by decide⟩
      intro p hp _; simp at hp
    · refine ⟨isInt_of_eq (n := 2) (by decide), by decide, by decide, by decide, by decide, by decide, ?_, by decide⟩
      intro p hp _
      simp only [List.mem_cons, List.not_mem_nil, or_false] at hp
      subst hp; exact isInt_of_eq (n := 0) (by decide)
    · refine ⟨isInt_of_eq (n := 3) (by decide), by decide, by decide, by decide, by decide, by decide, ?_, by decide⟩
      intro p hp _; simp at hp
  nostar := by decide
  known := by
    intro a ha
    simp only [expandedCtab4, List.mem_cons, List.not_mem_nil, or_false] at ha
    rcases ha with rfl | rfl | rfl | rfl
    · obtain ⟨n, hn⟩ := atomicNumber_known py!"O" (by decide)
      exact ⟨_, (by decide : (hydrogenIsotope py!"O").1 = py!"O") ▸ hn⟩
    · obtain ⟨n, hn⟩ := atomicNumber_known py!"Fe" (by decide)
      exact ⟨_, (by decide : (hydrogenIsotope py!"Fe").1 = py!"Fe") ▸ hn⟩
    · obtain ⟨n, hn⟩ := atomicNumber_known py!"C" (by decide)
      exact ⟨_, (by decide : (hydrogenIsotope py!"C").1 = py!"C") ▸ hn⟩
    · obtain ⟨n, hn⟩ := atomicNumber_known py!"C" (by decide)
      exact ⟨_, (by decide : (hydrogenIsotope py!"C").1 = py!"C") ▸ hn⟩
  coords := fun a _ => ⟨⟨_, rfl⟩, ⟨_, rfl⟩, ⟨_, rfl⟩⟩
  uniq := by decide
  bondInts := by
    intro b hb
    simp only [expandedCtab4, List.mem_cons, List.not_mem_nil, or_false] at hb
    rcases hb with rfl | rfl | rfl | rfl
    · exact ⟨isInt_of_eq (n := 1) (by decide), isInt_of_eq (n := 3) (by decide), isInt_of_eq (n := 1) (by decide)⟩
    · exact ⟨isInt_of_eq (n := 2) (by decide), isInt_of_eq (n := 1) (by decide), isInt_of_eq (n := 1) (by decide)⟩
    · exact ⟨isInt_of_eq (n := 3) (by decide), isInt_of_eq (n := 2) (by decide), isInt_of_eq (n := 2) (by decide)⟩
    · exact ⟨isInt_of_eq (n := 3) (by decide), isInt_of_eq (n := 7) (by decide), isInt_of_eq (n := 2) (by decide)⟩
  bondEnds := by decide

/-- other header lines, no continuation cuts -/
def expandedDress4 : Dress where
  h0 := py!"ferrocene fragment with O, expanded"
  h1 := py!"  prog"
  h2 := py!""
  h3 := py!"  0  0  0     0  0            999 V3000"
  cntA := py!"4"
  cntB := py!"4"
  cntRest := [py!"0", py!"0", py!"0"]
  extra := [[py!"END", py!"CTAB"]]
  tail := [py!"M  END"]
  spell := fun _ => {}

theorem expandedDress4_ok : expandedDress4.OK expandedCtab4 where
  ver := by decide
  tail := by decide
  clean := by decide
  nodash := noDash_of_check _ _ (by decide)
  cntA := by decide
  cntB := by decide

theorem expandedDress4_noBreaks : expandedDress4.NoBreaks expandedCtab4 where
  hdr := by decide
  toks := by decide
  tail := by decide

theorem expanded4_bondShape : ∀ b ∈ expandedCtab4.bonds, b.Shape := by
  intro b hb
  simp only [expandedCtab4, List.mem_cons, List.not_mem_nil, or_false] at hb
  rcases hb with rfl | rfl | rfl | rfl
  · exact ⟨by decide, by intro nums post h; cases h⟩
  · exact ⟨by decide, by intro nums post h; cases h⟩
  · exact ⟨by decide, by intro nums post h; cases h⟩
  · exact ⟨by decide, by intro nums post h; cases h⟩

/-- **`C01_C06_files_star`, instance with an unlinked pair of distinct atoms**: the CRLF file of `starCtab4` and the LF
file of `expandedCtab4` are both read and get the same TUCAN string, under two `set` orders. -/
theorem files_star_witness4 :
    ∃ g g', Tucan.molfile_reader.graph_from_molfile_text env0 (((fileLines starCtab4 starDress4).drop 4).length + 1)
        (join py!"\r\n" (fileLines starCtab4 starDress4 ++ [[]])) = .ok g ∧
      Tucan.molfile_reader.graph_from_molfile_text env0 (((fileLines expandedCtab4 expandedDress4).drop 4).length + 1)
        (join py!"\n" (fileLines expandedCtab4 expandedDress4 ++ [[]])) = .ok g' ∧ fuelBound g' = fuelBound g ∧
      ∀ fuel ≥ fuelBound g, ∀ fuel' ≥ fuelBound g, ∃ s, tucan env0 fuel g = .ok s ∧ tucan env1 fuel' g' = .ok s := by
  obtain ⟨g, g', e, e', _, fb, run⟩ := C01_C06_files_star env0 env0 env0_set env1_set env0_bliss env1_cp env1_pv
    starCtab4 expandedCtab4 starCtab4_starry (C07Star.starry_of_plain _ _ expanded4_plain) sigma4 star_witness4
    starCtab4_notNeg (by decide) (by decide) _ _ isSep_crlf isSep_lf starDress4 expandedDress4 starDress4_ok
    expandedDress4_ok starDress4_noBreaks expandedDress4_noBreaks starCtab4_bondShape expanded4_bondShape _ _
    (le_refl _) (le_refl _)
  exact ⟨g, g', e, e', fb, run⟩

end StarWitness

end Contracts.Witness4

#print axioms Contracts.Witness4.read_v2000_eq_v3000_lists_coords'
#print axioms Contracts.Witness4.lists_coords_witness
#print axioms Contracts.Witness4.starCtab4_links
#print axioms Contracts.Witness4.star_witness4
#print axioms Contracts.Witness4.files_star_witness4
