/-
Contracts.FileIso — C01 and C06 for molfile *texts* (AUDIT.md findings 4 and 9): two molfiles describing the same
molecule — atom lines in any order, index values renumbered, identity spelled differently (`D` = `H MASS=2`,
`MASS=0` = no `MASS=`), any coordinates / charges / keywords / bond types / bond order and direction / headers /
line endings — are both READ (`.ok g`, `.ok g'`) and get ONE TUCAN string.

 1. `PosIso`, `liftPos`, `tucan_eq_of_posIso`   graph-level core: two graphs on the nodes `0 … n-1`, the second a
                                               renumbering of the first ⇒ `IsIsoOn` ⇒ `Pipeline.C01_tucan`
 3. `Identity`, `identityOf`, `IdentityIso C C' σ`   the relation on V3000 connection tables
    `C01_C06_ctab`, `C01_C06_texts` (any text with `splitlines text = fileLines C D`), `C01_C06_files` (`join sep`)
    `identityIso_of_same`, `C06_reader_text_of_iso`   `Final.C06_reader_text` is the case `σ = id`
 4. `Redescribed` (atom / bond lines rewritten and listed in any order) ⇒ `∃ σ, IdentityIso`;
    `Rendering`, `C01_C06_redescribed`; `Relisted` / `C01_files` (the words of C01); `Redrawn` / `C06_files`,
    `ResonanceRedrawing` / `C06_resonance` (the words of C06)
 5. `V2000Parsed`, `C01_C06_v2000` (two V2000 files), `idFacts_of_atomLine` (the V2000 reader's atoms satisfy
    `IdFacts`), `C01_C06_v3000_v2000` (generalises `Final.C08_agree` by `σ`)
 6. `splitlines_terminated`, `Rendering.of_terminated`   LF and CRLF mixed within one file
Non-vacuity: `Contracts/FileIsoWitness.lean`.
-/
import Contracts.Final
import Contracts.Reader
import Contracts.Pipeline
import Contracts.V2000
set_option autoImplicit false

open Py Py.Graph Contracts

namespace Contracts.FileIso
open Contracts.Partition (Carries)
open Contracts.Canonicalize (identityKeys CodeDetermines)
open Contracts.FinalLabels (fuelBound)
open Contracts.Pipeline (tucan C01_tucan)
open Contracts.Parser (withCode codeOf periodicTable atomicNumber)
open Contracts.RoundTrip (idKeys fuelBound_iso)
open Contracts.Final (IdOK InvariantCodeOK AttrsOK PosIntVal)

/-! ## 1. renumbering the positions `0 … n-1` -/

/-- `σ` maps the positions `0 … n-1` injectively into themselves — hence is a bijection of them (`PosIso.surj`) -/
structure PosIso (n : Nat) (σ : Nat → Nat) : Prop where
  maps : ∀ i < n, σ i < n
  inj : ∀ i < n, ∀ j < n, σ i = σ j → i = j

/-- the renaming of graph nodes induced by a renumbering of positions -/
def liftPos (σ : Nat → Nat) (x : Int) : Int := ((σ x.toNat : Nat) : Int)

@[simp] theorem liftPos_nat (σ : Nat → Nat) (i : Nat) : liftPos σ (i : Int) = (σ i : Int) := by
  simp [liftPos]

theorem mem_range_nat {n : Nat} {x : Int} (h : x ∈ range (n : Int)) : ∃ i : Nat, i < n ∧ x = (i : Int) := by
  rw [Contracts.Parser.mem_range] at h
  exact ⟨x.toNat, by omega, by omega⟩

theorem nat_mem_range {n i : Nat} (h : i < n) : (i : Int) ∈ range (n : Int) := by
  rw [Contracts.Parser.mem_range]; omega

theorem PosIso.perm {n : Nat} {σ : Nat → Nat} (h : PosIso n σ) :
    (range (n : Int)).Perm ((range (n : Int)).map (liftPos σ)) := by
  have hnd : ((range (n : Int)).map (liftPos σ)).Nodup := by
    refine (Graph.nodup_range _).map_on ?_
    intro a ha b hb e
    obtain ⟨i, hi, rfl⟩ := mem_range_nat ha
    obtain ⟨j, hj, rfl⟩ := mem_range_nat hb
    simp only [liftPos_nat, Nat.cast_inj] at e
    rw [h.inj i hi j hj e]
  have hsub : (range (n : Int)).map (liftPos σ) ⊆ range (n : Int) := by
    intro x hx
    obtain ⟨a, ha, rfl⟩ := List.mem_map.mp hx
    obtain ⟨i, hi, rfl⟩ := mem_range_nat ha
    rw [liftPos_nat]
    exact nat_mem_range (h.maps i hi)
  exact ((List.subperm_of_subset hnd hsub).perm_of_length_le (by simp)).symm

/-- every position is hit -/
theorem PosIso.surj {n : Nat} {σ : Nat → Nat} (h : PosIso n σ) : ∀ j < n, ∃ i < n, σ i = j := by
  intro j hj
  have := h.perm.subset (nat_mem_range hj)
  obtain ⟨a, ha, e⟩ := List.mem_map.mp this
  obtain ⟨i, hi, rfl⟩ := mem_range_nat ha
  rw [liftPos_nat] at e
  exact ⟨i, hi, by exact_mod_cast e⟩

theorem posIso_id (n : Nat) : PosIso n id := ⟨fun _ h => h, fun _ _ _ _ e => e⟩

/-! ## 2. the graph-level core: two graphs on the positions `0 … n-1`, the second a renumbering of the first -/

/-- `g`, `g'`: graphs on the nodes `0 … n-1` (as all three readers return them), `g` with the identity facts
`IdOK`; `σ` a renumbering of the positions that carries the four identity attributes and the invariant code and
maps adjacent pairs to adjacent pairs and non-adjacent pairs to non-adjacent pairs. Then the pipeline gives both
graphs the same TUCAN string (any two lawful `set` orders, any sufficient fuels). -/
theorem tucan_eq_of_posIso {env₁ env₂ : DepEnv} (hs₁ : env₁.SetLawful) (hs₂ : env₂.SetLawful)
    (hb : BlissLawful env₁) (hcp : env₂.canonicalPermutation = env₁.canonicalPermutation)
    (hpv : env₂.permuteVertices = env₁.permuteVertices)
    {g g' : Graph} {n : Nat} {σ : Nat → Nat} (ok : IdOK g) (wg' : g'.WF)
    (hn : g.nodeList = range (n : Int)) (hn' : g'.nodeList = range (n : Int)) (hpos : 0 < n)
    (hσ : PosIso n σ)
    (hattr : ∀ i < n, ∀ k ∈ idKeys ++ ["invariant_code"], g'.attr (σ i : Int) k = g.attr (i : Int) k)
    (hnb : ∀ i < n, ∀ j < n, ((σ j : Int) ∈ g'.nbrs (σ i : Int) ↔ (j : Int) ∈ g.nbrs (i : Int))) :
    (∀ k ∈ idKeys ++ ["invariant_code"], IsIsoOn k (liftPos σ) g g') ∧ fuelBound g' = fuelBound g ∧
      ∀ fuel ≥ fuelBound g, ∀ fuel' ≥ fuelBound g,
        ∃ s, tucan env₁ fuel g = .ok s ∧ tucan env₂ fuel' g' = .ok s := by
  have iso : ∀ k ∈ idKeys ++ ["invariant_code"], IsIsoOn k (liftPos σ) g g' := by
    intro k hk
    refine ⟨?_, ?_, ?_, ?_⟩
    · intro a ha b hb e
      rw [hn] at ha hb
      obtain ⟨i, hi, rfl⟩ := mem_range_nat ha
      obtain ⟨j, hj, rfl⟩ := mem_range_nat hb
      simp only [liftPos_nat, Nat.cast_inj] at e
      rw [hσ.inj i hi j hj e]
    · rw [hn, hn']; exact hσ.perm
    · intro a ha
      rw [hn] at ha
      obtain ⟨i, hi, rfl⟩ := mem_range_nat ha
      rw [liftPos_nat]; exact hattr i hi k hk
    · intro a ha
      rw [hn] at ha
      obtain ⟨i, hi, rfl⟩ := mem_range_nat ha
      rw [liftPos_nat]
      have hnd : ((g.nbrs (i : Int)).map (liftPos σ)).Nodup := by
        refine (ok.wf.nodup_nbrs _).map_on ?_
        intro a ha b hb e
        have ha' := ok.wf.nbr_mem _ _ ha
        have hb' := ok.wf.nbr_mem _ _ hb
        rw [hn] at ha' hb'
        obtain ⟨p, hp, rfl⟩ := mem_range_nat ha'
        obtain ⟨q, hq, rfl⟩ := mem_range_nat hb'
        simp only [liftPos_nat, Nat.cast_inj] at e
        rw [hσ.inj p hp q hq e]
      refine (List.perm_ext_iff_of_nodup (wg'.nodup_nbrs _) hnd).2 ?_
      intro m
      constructor
      · intro hm
        have hm' := wg'.nbr_mem _ _ hm
        rw [hn'] at hm'
        obtain ⟨q, hq, rfl⟩ := mem_range_nat hm'
        obtain ⟨j, hj, rfl⟩ := hσ.surj q hq
        exact List.mem_map.mpr ⟨(j : Int), (hnb i hi j hj).1 hm, liftPos_nat σ j⟩
      · intro hm
        obtain ⟨b, hb, rfl⟩ := List.mem_map.mp hm
        have hb' := ok.wf.nbr_mem _ _ hb
        rw [hn] at hb'
        obtain ⟨j, hj, rfl⟩ := mem_range_nat hb'
        rw [liftPos_nat]
        exact (hnb i hi j hj).2 hb
  have isoC := iso "invariant_code" (by simp)
  have fb := fuelBound_iso isoC
  have hne : g.nodeList ≠ [] := by
    rw [hn]; intro h0
    have := congrArg List.length h0
    rw [Contracts.RoundTrip.length_range] at this
    simp at this; omega
  refine ⟨iso, fb, ?_⟩
  intro fuel hf fuel' hf'
  exact C01_tucan hs₁ hs₂ hb hcp hpv ok.wf wg' hne ok.carries_code ok.carries_Z isoC
    (fun key hk a ha => (iso key (by
      simp only [identityKeys, List.mem_cons, List.not_mem_nil, or_false] at hk
      rcases hk with rfl | rfl | rfl | rfl <;> simp [idKeys])).attr a ha)
    ok.codeDetermines fuel fuel' hf (by rw [fb]; exact hf')


/-- nodes carrying `withCode A`, `withCode A'` with `A'`, `A` agreeing on the identity attributes agree on the
identity attributes and on the invariant code -/
theorem attr_of_withCode {g g' : Graph} {m m' : Int} {A A' : Attrs} (e : g.node.get? m = some (withCode A))
    (e' : g'.node.get? m' = some (withCode A')) (hid : ∀ k ∈ idKeys, A'.get? k = A.get? k) :
    ∀ k ∈ idKeys ++ ["invariant_code"], g'.attr m' k = g.attr m k := by
  intro k hk
  rcases List.mem_append.mp hk with hk | hk
  · have hne : k ≠ "invariant_code" := by
      intro e; subst e; revert hk; decide
    rw [Final.attr_withCode_ne e k hne, Final.attr_withCode_ne e' k hne]
    exact hid k hk
  · simp only [List.mem_singleton] at hk; subst hk
    rw [Graph.attr_eq, Graph.attr_eq, e, e']
    simp only [Option.bind_some]
    rw [Reader.withCode_get?_code, Reader.withCode_get?_code, Reader.codeOf_congr A' A hid]

/-! ## 3. V3000 connection tables: normalised identity, `IdentityIso` -/

open Contracts.V3000 (AtomLine BondLine hydrogenIsotope propInt intOf)
open Contracts.Reader (Ctab attrsOf fileMeaning Dress fileLines IsSep SameIdentityCtab zOf)

/-- what an atom line says about *which atom* it is: element, isotope mass, radical state -/
structure Identity where
  element : Str
  mass : Option Int
  rad : Option Int
deriving DecidableEq

/-- **the normalised identity of an atom line** (format rules: the symbols `D` and `T` denote hydrogen of mass 2
and 3; otherwise the symbol is the element and `MASS=` gives the isotope mass; `RAD=` gives the radical state; an
absent `MASS=` / `RAD=` and the value 0 both mean "not set" — `propInt`). Index, coordinates, atom-atom mapping,
`CHG=` and every other keyword do not enter. -/
def identityOf (a : AtomLine) : Identity :=
  if a.sym = py!"D" then ⟨py!"H", some 2, propInt a.props py!"RAD"⟩
  else if a.sym = py!"T" then ⟨py!"H", some 3, propInt a.props py!"RAD"⟩
  else ⟨a.sym, propInt a.props py!"MASS", propInt a.props py!"RAD"⟩

/-- `D` and `H … MASS=2` (`T` and `H … MASS=3`) are the same atom -/
theorem identityOf_D (a a' : AtomLine) (h : a.sym = py!"D") (h' : a'.sym = py!"H")
    (hm : propInt a'.props py!"MASS" = some 2) (hr : propInt a'.props py!"RAD" = propInt a.props py!"RAD") :
    identityOf a' = identityOf a := by
  simp [identityOf, h, h', hm, hr]

theorem identityOf_T (a a' : AtomLine) (h : a.sym = py!"T") (h' : a'.sym = py!"H")
    (hm : propInt a'.props py!"MASS" = some 3) (hr : propInt a'.props py!"RAD" = propInt a.props py!"RAD") :
    identityOf a' = identityOf a := by
  simp [identityOf, h, h', hm, hr]

/-- the reader's identity attributes of an atom line are a function of its normalised identity -/
theorem attrsOf_identity (env : DepEnv) (a : AtomLine) :
    (attrsOf env a).get? "element_symbol" = some (Val.str (identityOf a).element) ∧
    (attrsOf env a).get? "atomic_number" = some (zOf (identityOf a).element) ∧
    (attrsOf env a).get? "mass" = (identityOf a).mass.map Val.int ∧
    (attrsOf env a).get? "rad" = (identityOf a).rad.map Val.int := by
  have g := Reader.mkAtomAttrs_get
  simp only [attrsOf, Contracts.V3000.atomAttrs, (g _ _ _ _ _ _ _ _).1, (g _ _ _ _ _ _ _ _).2.1,
    (g _ _ _ _ _ _ _ _).2.2.1, (g _ _ _ _ _ _ _ _).2.2.2]
  unfold identityOf hydrogenIsotope
  by_cases hD : a.sym = py!"D"
  · simp [hD]
  · by_cases hT : a.sym = py!"T"
    · simp [hT]
    · simp [hD, hT]

theorem attrsOf_congr (env env' : DepEnv) (a a' : AtomLine) (h : identityOf a' = identityOf a) :
    ∀ k ∈ idKeys, (attrsOf env' a').get? k = (attrsOf env a).get? k := by
  intro k hk
  obtain ⟨p1, p2, p3, p4⟩ := attrsOf_identity env a
  obtain ⟨q1, q2, q3, q4⟩ := attrsOf_identity env' a'
  simp only [idKeys, List.mem_cons, List.not_mem_nil, or_false] at hk
  rcases hk with rfl | rfl | rfl | rfl
  · rw [p1, q1, h]
  · rw [p2, q2, h]
  · rw [p3, q3, h]
  · rw [p4, q4, h]

/-- validity (no negative isotope mass or radical state) is a statement about the normalised identity -/
theorem negMassRad_iff (C : Ctab) : C.NegMassRad ↔ ∃ a ∈ C.atoms,
    (∃ m, (identityOf a).mass = some m ∧ m < 0) ∨ ∃ r, (identityOf a).rad = some r ∧ r < 0 := by
  unfold Ctab.NegMassRad
  refine exists_congr (fun a => and_congr_right (fun _ => ?_))
  unfold identityOf hydrogenIsotope
  by_cases hD : a.sym = py!"D"
  · simp [hD]
  · by_cases hT : a.sym = py!"T"
    · simp [hT]
    · simp [hD, hT]

/-- the atom lines at positions `i` and `j` are joined by some bond line (in either direction, of any type) -/
def BondedPos (C : Ctab) (i j : Nat) : Prop :=
  ∃ a b, C.atoms[i]? = some a ∧ C.atoms[j]? = some b ∧ C.joined (intOf a.idx) (intOf b.idx)

/-- **two connection tables describe the same molecule, atom position `i` of `C` being atom position `σ i` of
`C'`**: `σ` is a bijection between the atom positions (equally many atom lines, `σ` maps positions to positions
injectively — `PosIso.surj`); corresponding atom lines have the same normalised identity; two positions of `C` are
joined by a bond line iff the corresponding positions of `C'` are.
Free: the order of the atom lines (`σ`), the index tokens, coordinates, atom-atom mapping, `CHG=`, all other
keywords; the spelling of the identity (`D` / `H MASS=2`, `MASS=0` / no `MASS=`); number, order, direction, type
and keywords of the bond lines, repeated bond lines. -/
structure IdentityIso (C C' : Ctab) (σ : Nat → Nat) : Prop where
  natoms : C'.atoms.length = C.atoms.length
  pos : PosIso C.atoms.length σ
  atoms : ∀ (i : Nat) a a', C.atoms[i]? = some a → C'.atoms[σ i]? = some a' → identityOf a' = identityOf a
  bonds : ∀ i < C.atoms.length, ∀ j < C.atoms.length, (BondedPos C i j ↔ BondedPos C' (σ i) (σ j))


theorem bondedPos_iff {C : Ctab} {i j : Nat} {a b : AtomLine} (ha : C.atoms[i]? = some a) (hb : C.atoms[j]? = some b) :
    BondedPos C i j ↔ C.joined (intOf a.idx) (intOf b.idx) := by
  constructor
  · rintro ⟨a₀, b₀, ha₀, hb₀, hj⟩
    rw [ha] at ha₀; rw [hb] at hb₀
    cases ha₀; cases hb₀; exact hj
  · intro hj; exact ⟨a, b, ha, hb, hj⟩

theorem getElem?_of_lt {α} (l : List α) {i : Nat} (h : i < l.length) : l[i]? = some l[i] := by simp [h]

namespace IdentityIso
variable {C C' : Ctab} {σ : Nat → Nat}

/-- every atom line of `C'` corresponds to one of `C` -/
theorem preimage (hs : IdentityIso C C' σ) {a' : AtomLine} (ha' : a' ∈ C'.atoms) :
    ∃ (i : Nat) (a : AtomLine), i < C.atoms.length ∧ C.atoms[i]? = some a ∧ C'.atoms[σ i]? = some a' := by
  obtain ⟨q, hq, rfl⟩ := List.getElem_of_mem ha'
  obtain ⟨i, hi, rfl⟩ := hs.pos.surj q (hs.natoms ▸ hq)
  exact ⟨i, C.atoms[i], hi, getElem?_of_lt _ hi, getElem?_of_lt _ hq⟩

/-- validity is part of the identity data: if `C` is valid (no negative isotope mass / radical state, no bond from
an atom to itself), so is every `C'` describing the same molecule -/
theorem valid (env' : DepEnv) (h' : C'.Plain env') (hs : IdentityIso C C' σ) (hneg : ¬ C.NegMassRad)
    (hself : ¬ C.SelfBond) : ¬ C'.NegMassRad ∧ ¬ C'.SelfBond := by
  constructor
  · rw [negMassRad_iff] at hneg ⊢
    rintro ⟨a', ha', hbad⟩
    obtain ⟨i, a, _, hia, hia'⟩ := hs.preimage ha'
    exact hneg ⟨a, List.mem_of_getElem? hia, by rw [← hs.atoms i a a' hia hia']; exact hbad⟩
  · rintro ⟨b', hb', he⟩
    obtain ⟨a', ha', hidx⟩ := List.mem_map.mp (h'.bondEnds b' hb').1
    obtain ⟨i, a, hi, hia, hia'⟩ := hs.preimage ha'
    have hj' : BondedPos C' (σ i) (σ i) :=
      ⟨a', a', hia', hia', b', hb', Or.inl ⟨hidx.symm, by rw [← he, hidx]⟩⟩
    obtain ⟨b, hb, hbb⟩ := (bondedPos_iff hia hia).1 ((hs.bonds i hi i hi).2 hj')
    exact hself ⟨b, hb, by rcases hbb with ⟨h1, h2⟩ | ⟨h1, h2⟩ <;> rw [h1, h2]⟩

end IdentityIso

/-- **C01 + C06, connection-table level.** Two readable star-free V3000 connection tables (each readable under
its own `float`), `C'` describing the same molecule as `C` with atom position `i` of `C` at position `σ i` of `C'`
(`IdentityIso`), `C` valid and with at least one atom: both are read successfully; the second graph is the first
renumbered by `σ`, with `element_symbol`, `atomic_number`, `mass`, `rad` and `invariant_code` carried along; and the
pipeline gives the two graphs the same TUCAN string (any two lawful `set` orders, any sufficient fuels). -/
theorem C01_C06_ctab {env₁ env₂ : DepEnv} (envr envr' : DepEnv) (hs₁ : env₁.SetLawful) (hs₂ : env₂.SetLawful)
    (hb : BlissLawful env₁) (hcp : env₂.canonicalPermutation = env₁.canonicalPermutation)
    (hpv : env₂.permuteVertices = env₁.permuteVertices)
    (C C' : Ctab) (h : C.Plain envr) (h' : C'.Plain envr') (σ : Nat → Nat) (hiso : IdentityIso C C' σ)
    (hneg : ¬ C.NegMassRad) (hself : ¬ C.SelfBond) (hne : C.atoms ≠ []) :
    ∃ g g', fileMeaning envr C = .ok g ∧ fileMeaning envr' C' = .ok g' ∧
      (∀ k ∈ idKeys ++ ["invariant_code"], IsIsoOn k (liftPos σ) g g') ∧ fuelBound g' = fuelBound g ∧
      ∀ fuel ≥ fuelBound g, ∀ fuel' ≥ fuelBound g, ∃ s, tucan env₁ fuel g = .ok s ∧ tucan env₂ fuel' g' = .ok s := by
  obtain ⟨g, e, _, _, _, _, _, _, _, ok⟩ := Final.read_ok envr C h hneg hself hne
  obtain ⟨g₀, e₀, _, ng, ag, bg⟩ := Reader.fileMeaning_plain_graph envr C h hneg hself
  obtain rfl : g₀ = g := Except.ok.inj (e₀.symm.trans e)
  obtain ⟨hneg', hself'⟩ := hiso.valid envr' h' hneg hself
  obtain ⟨g', e', wg', ng', ag', bg'⟩ := Reader.fileMeaning_plain_graph envr' C' h' hneg' hself'
  rw [hiso.natoms] at ng'
  have hpos : 0 < C.atoms.length := List.length_pos_iff.mpr hne
  refine ⟨g₀, g', e, e', tucan_eq_of_posIso hs₁ hs₂ hb hcp hpv ok wg' ng ng' hpos hiso.pos ?_ ?_⟩
  · intro i hi
    have hi' : σ i < C'.atoms.length := hiso.natoms ▸ hiso.pos.maps i hi
    have ha := getElem?_of_lt C.atoms hi
    have ha' := getElem?_of_lt C'.atoms hi'
    exact attr_of_withCode (ag i _ ha) (ag' (σ i) _ ha') (attrsOf_congr envr envr' _ _ (hiso.atoms i _ _ ha ha'))
  · intro i hi j hj
    have hi' : σ i < C'.atoms.length := hiso.natoms ▸ hiso.pos.maps i hi
    have hj' : σ j < C'.atoms.length := hiso.natoms ▸ hiso.pos.maps j hj
    have ha := getElem?_of_lt C.atoms hi
    have hb := getElem?_of_lt C.atoms hj
    have ha' := getElem?_of_lt C'.atoms hi'
    have hb' := getElem?_of_lt C'.atoms hj'
    rw [bg i j _ _ ha hb, bg' (σ i) (σ j) _ _ ha' hb', ← bondedPos_iff ha hb, ← bondedPos_iff ha' hb']
    exact (hiso.bonds i hi j hj).symm

/-- **C01 + C06 for molfile texts, general form.** `text`, `text'`: any two texts whose lines (`str.splitlines`:
LF, CRLF, CR and the other Unicode line boundaries, in any mixture) are renderings `fileLines C D`, `fileLines C' D'`
(`Dress`: arbitrary header / comment lines, blank runs, trailing blanks, continuation cut points, further V30 lines
and blocks, trailing lines) of two readable star-free connection tables describing the same molecule
(`IdentityIso C C' σ`), `C` valid with at least one atom. Then **both texts are read successfully** and **the pipeline
gives both graphs one and the same TUCAN string** — for any two lawful `set` orders and any sufficient fuels. -/
theorem C01_C06_texts {env₁ env₂ : DepEnv} (envr envr' : DepEnv) (hs₁ : env₁.SetLawful) (hs₂ : env₂.SetLawful)
    (hb : BlissLawful env₁) (hcp : env₂.canonicalPermutation = env₁.canonicalPermutation)
    (hpv : env₂.permuteVertices = env₁.permuteVertices)
    (C C' : Ctab) (h : C.Plain envr) (h' : C'.Plain envr') (σ : Nat → Nat) (hiso : IdentityIso C C' σ)
    (hneg : ¬ C.NegMassRad) (hself : ¬ C.SelfBond) (hne : C.atoms ≠ [])
    (D D' : Dress) (hok : D.OK C) (hok' : D'.OK C')
    (hB : ∀ b ∈ C.bonds, b.Shape) (hB' : ∀ b ∈ C'.bonds, b.Shape)
    (text text' : Str) (hlines : splitlines text = fileLines C D) (hlines' : splitlines text' = fileLines C' D')
    (rf rf' : Nat)
    (hrf : ((fileLines C D).drop 4).length + 1 ≤ rf) (hrf' : ((fileLines C' D').drop 4).length + 1 ≤ rf') :
    ∃ g g', Tucan.molfile_reader.graph_from_molfile_text envr rf text = .ok g ∧
      Tucan.molfile_reader.graph_from_molfile_text envr' rf' text' = .ok g' ∧
      (∀ k ∈ idKeys ++ ["invariant_code"], IsIsoOn k (liftPos σ) g g') ∧ fuelBound g' = fuelBound g ∧
      ∀ fuel ≥ fuelBound g, ∀ fuel' ≥ fuelBound g, ∃ s, tucan env₁ fuel g = .ok s ∧ tucan env₂ fuel' g' = .ok s := by
  obtain ⟨g, g', e, e', rest⟩ := C01_C06_ctab envr envr' hs₁ hs₂ hb hcp hpv C C' h h' σ hiso hneg hself hne
  refine ⟨g, g', ?_, ?_, rest⟩
  · rw [Reader.graph_from_molfile_text_v3000 envr rf text C D hlines hok (fun a ha => (h.wf a ha).shape) hB hrf, e]
  · rw [Reader.graph_from_molfile_text_v3000 envr' rf' text' C' D' hlines' hok'
      (fun a ha => (h'.wf a ha).shape) hB' hrf', e']

/-- **C01 + C06 for molfile texts** (finding 4 and finding 9): the same with each text written with one
line-ending style (`IsSep`: LF, CRLF or CR — the two files may use different ones) and a terminator after the last
line. `Final.C06_reader_text` is the special case `σ = id`, `envr' = envr`, `SameIdentityCtab`
(`C06_reader_text_of_iso`). -/
theorem C01_C06_files {env₁ env₂ : DepEnv} (envr envr' : DepEnv) (hs₁ : env₁.SetLawful) (hs₂ : env₂.SetLawful)
    (hb : BlissLawful env₁) (hcp : env₂.canonicalPermutation = env₁.canonicalPermutation)
    (hpv : env₂.permuteVertices = env₁.permuteVertices)
    (C C' : Ctab) (h : C.Plain envr) (h' : C'.Plain envr') (σ : Nat → Nat) (hiso : IdentityIso C C' σ)
    (hneg : ¬ C.NegMassRad) (hself : ¬ C.SelfBond) (hne : C.atoms ≠ [])
    (sep sep' : Str) (hsep : IsSep sep) (hsep' : IsSep sep') (D D' : Dress)
    (hok : D.OK C) (hok' : D'.OK C') (hnb : D.NoBreaks C) (hnb' : D'.NoBreaks C')
    (hB : ∀ b ∈ C.bonds, b.Shape) (hB' : ∀ b ∈ C'.bonds, b.Shape) (rf rf' : Nat)
    (hrf : ((fileLines C D).drop 4).length + 1 ≤ rf) (hrf' : ((fileLines C' D').drop 4).length + 1 ≤ rf') :
    ∃ g g', Tucan.molfile_reader.graph_from_molfile_text envr rf (join sep (fileLines C D ++ [[]])) = .ok g ∧
      Tucan.molfile_reader.graph_from_molfile_text envr' rf' (join sep' (fileLines C' D' ++ [[]])) = .ok g' ∧
      (∀ k ∈ idKeys ++ ["invariant_code"], IsIsoOn k (liftPos σ) g g') ∧ fuelBound g' = fuelBound g ∧
      ∀ fuel ≥ fuelBound g, ∀ fuel' ≥ fuelBound g, ∃ s, tucan env₁ fuel g = .ok s ∧ tucan env₂ fuel' g' = .ok s :=
  C01_C06_texts envr envr' hs₁ hs₂ hb hcp hpv C C' h h' σ hiso hneg hself hne D D' hok hok' hB hB' _ _
    (Reader.splitlines_join_terminated sep hsep _ (Reader.noBreak_fileLines C D hnb))
    (Reader.splitlines_join_terminated sep' hsep' _ (Reader.noBreak_fileLines C' D' hnb')) rf rf' hrf hrf'

/-! ### `SameIdentityCtab` is the case `σ = id`, literally equal symbols -/

theorem identityIso_of_same {C C' : Ctab} (hs : SameIdentityCtab C C') : IdentityIso C C' id where
  natoms := hs.natoms.symm
  pos := posIso_id _
  atoms := by
    intro i a a' ha ha'
    obtain ⟨e1, e2, e3⟩ := hs.atoms i a a' ha ha'
    simp only [identityOf, e1, e2, e3]
  bonds := by
    intro i hi j hj
    have hi' : i < C'.atoms.length := hs.natoms ▸ hi
    have hj' : j < C'.atoms.length := hs.natoms ▸ hj
    have ha := getElem?_of_lt C.atoms hi
    have hb := getElem?_of_lt C.atoms hj
    have ha' := getElem?_of_lt C'.atoms hi'
    have hb' := getElem?_of_lt C'.atoms hj'
    simp only [id]
    rw [bondedPos_iff ha hb, bondedPos_iff ha' hb']
    exact hs.bonds i j _ _ _ _ ha hb ha' hb'

/-- `Final.C06_reader_text`, obtained from `C01_C06_files` (same statement, verbatim) -/
theorem C06_reader_text_of_iso {env₁ env₂ : DepEnv} (envr : DepEnv) (hs₁ : env₁.SetLawful) (hs₂ : env₂.SetLawful)
    (hb : BlissLawful env₁) (hcp : env₂.canonicalPermutation = env₁.canonicalPermutation)
    (hpv : env₂.permuteVertices = env₁.permuteVertices)
    (C C' : Ctab) (h : C.Plain envr) (h' : C'.Plain envr) (hsame : SameIdentityCtab C C')
    (hneg : ¬ C.NegMassRad) (hself : ¬ C.SelfBond) (hne : C.atoms ≠ [])
    (sep sep' : Str) (hsep : IsSep sep) (hsep' : IsSep sep') (D D' : Dress)
    (hok : D.OK C) (hok' : D'.OK C') (hnb : D.NoBreaks C) (hnb' : D'.NoBreaks C')
    (hB : ∀ b ∈ C.bonds, b.Shape) (hB' : ∀ b ∈ C'.bonds, b.Shape) (rf rf' : Nat)
    (hrf : ((fileLines C D).drop 4).length + 1 ≤ rf) (hrf' : ((fileLines C' D').drop 4).length + 1 ≤ rf') :
    ∃ g g', Tucan.molfile_reader.graph_from_molfile_text envr rf (join sep (fileLines C D ++ [[]])) = .ok g ∧
      Tucan.molfile_reader.graph_from_molfile_text envr rf' (join sep' (fileLines C' D' ++ [[]])) = .ok g' ∧
      fuelBound g' = fuelBound g ∧
      ∀ fuel ≥ fuelBound g, ∀ fuel' ≥ fuelBound g, ∃ s, tucan env₁ fuel g = .ok s ∧ tucan env₂ fuel' g' = .ok s := by
  obtain ⟨g, g', e, e', _, fb, run⟩ := C01_C06_files envr envr hs₁ hs₂ hb hcp hpv C C' h h' id
    (identityIso_of_same hsame) hneg hself hne sep sep' hsep hsep' D D' hok hok' hnb hnb' hB hB' rf rf' hrf hrf'
  exact ⟨g, g', e, e', fb, run⟩


/-! ## 4. the corollaries in the words of C01 and C06 -/

/-- a listing `l'` of the elements of `L` in another order (elements told apart by an integer key) determines the
renumbering of positions -/
theorem exists_posIso_of_perm {α : Type} (key : α → Int) {l' L : List α} (hp : l'.Perm L)
    (hnd : (L.map key).Nodup) :
    ∃ σ : Nat → Nat, PosIso L.length σ ∧ ∀ (i : Nat) (hi : i < L.length), l'[σ i]? = some L[i] := by
  have hnd' : (l'.map key).Nodup := (hp.map key).nodup_iff.mpr hnd
  have hat : ∀ (i : Nat) (hi : i < L.length), ∃ p, ∃ hp' : p < l'.length, l'[p] = L[i] ∧
      (l'.map key).idxOf (key L[i]) = p := by
    intro i hi
    obtain ⟨p, hp', e⟩ := List.getElem_of_mem (hp.mem_iff.mpr (List.getElem_mem hi))
    refine ⟨p, hp', e, ?_⟩
    have h1 : p < (l'.map key).length := by simpa using hp'
    have := List.Nodup.idxOf_getElem hnd' p h1
    rwa [List.getElem_map, e] at this
  refine ⟨fun i => if hi : i < L.length then (l'.map key).idxOf (key L[i]) else 0, ⟨?_, ?_⟩, ?_⟩
  · intro i hi
    obtain ⟨p, hp', _, e⟩ := hat i hi
    simp only [hi, dif_pos, e]
    rw [← hp.length_eq]; exact hp'
  · intro i hi j hj e
    obtain ⟨p, hp', e1, e2⟩ := hat i hi
    obtain ⟨q, hq', e3, e4⟩ := hat j hj
    simp only [hi, hj, dif_pos, e2, e4] at e
    subst e
    have hk : (L.map key)[i]'(by simpa using hi) = (L.map key)[j]'(by simpa using hj) := by
      simp only [List.getElem_map]; rw [← e1, ← e3]
    exact (List.Nodup.getElem_inj_iff hnd).mp hk
  · intro i hi
    obtain ⟨p, hp', e1, e2⟩ := hat i hi
    simp only [hi, dif_pos, e2]
    rw [← e1]; exact getElem?_of_lt _ hp'

theorem forall₂_mem_left {α β : Type} {R : α → β → Prop} {l : List α} {l' : List β} (h : List.Forall₂ R l l')
    {a : α} (ha : a ∈ l) : ∃ b ∈ l', R a b := by
  induction h with
  | nil => cases ha
  | cons hab _ ih =>
    rcases List.mem_cons.mp ha with rfl | ha
    · exact ⟨_, by simp, hab⟩
    · obtain ⟨b, hb, r⟩ := ih ha; exact ⟨b, by simp [hb], r⟩

theorem forall₂_mem_right {α β : Type} {R : α → β → Prop} {l : List α} {l' : List β} (h : List.Forall₂ R l l')
    {b : β} (hb : b ∈ l') : ∃ a ∈ l, R a b := by
  induction h with
  | nil => cases hb
  | cons hab _ ih =>
    rcases List.mem_cons.mp hb with rfl | hb
    · exact ⟨_, by simp, hab⟩
    · obtain ⟨a, ha, r⟩ := ih hb; exact ⟨a, by simp [ha], r⟩

theorem forall₂_getElem {α β : Type} {R : α → β → Prop} {l : List α} {l' : List β} (h : List.Forall₂ R l l') :
    ∀ (i : Nat) (hi : i < l.length) (hi' : i < l'.length), R l[i] l'[i] := by
  induction h with
  | nil => intro i hi; cases hi
  | cons hab _ ih =>
    intro i hi hi'
    cases i with
    | zero => exact hab
    | succ i => exact ih i (by simpa using hi) (by simpa using hi')

theorem forall₂_map_eq {α β γ : Type} {R : α → β → Prop} {l : List α} {l' : List β} (h : List.Forall₂ R l l')
    {f : β → γ} {g : α → γ} (hfg : ∀ a b, R a b → f b = g a) : l'.map f = l.map g := by
  induction h with
  | nil => rfl
  | cons hab _ ih => simp only [List.map_cons, hfg _ _ hab, ih]

/-- atom line `a'` states the atom of atom line `a` again: the same normalised identity, the index renumbered by
`ρ`. Coordinates, atom-atom mapping, `CHG=`, other keywords, the spelling of the identity are free. -/
def AtomRewritten (ρ : Int → Int) (a a' : AtomLine) : Prop :=
  identityOf a' = identityOf a ∧ intOf a'.idx = ρ (intOf a.idx)

/-- bond line `b'` joins the (renumbered) atoms of bond line `b`, written in either direction. Bond index, bond
type and bond keywords are free. -/
def BondRewritten (ρ : Int → Int) (b b' : BondLine) : Prop :=
  (intOf b'.a1 = ρ (intOf b.a1) ∧ intOf b'.a2 = ρ (intOf b.a2)) ∨
    (intOf b'.a1 = ρ (intOf b.a2) ∧ intOf b'.a2 = ρ (intOf b.a1))

/-- **`C'` is another description of the molecule of `C`**: its atom lines are those of `C` rewritten
(`AtomRewritten`: index values renumbered by `ρ`, non-identity data changed at will) and listed in any order; its
bond lines are those of `C` rewritten (`BondRewritten`: endpoints renumbered, in either direction, any bond type /
keywords) and listed in any order. -/
structure Redescribed (C C' : Ctab) (ρ : Int → Int) : Prop where
  atoms : ∃ L, List.Forall₂ (AtomRewritten ρ) C.atoms L ∧ C'.atoms.Perm L
  bonds : ∃ M, List.Forall₂ (BondRewritten ρ) C.bonds M ∧ C'.bonds.Perm M

/-- a redescription is an `IdentityIso` (the renumbering of positions is determined by the index values) -/
theorem Redescribed.identityIso {env env' : DepEnv} {C C' : Ctab} {ρ : Int → Int} (h : C.Plain env)
    (h' : C'.Plain env') (hr : Redescribed C C' ρ) : ∃ σ, IdentityIso C C' σ := by
  obtain ⟨L, hL, pL⟩ := hr.atoms
  obtain ⟨M, hM, pM⟩ := hr.bonds
  have hlen : L.length = C.atoms.length := hL.length_eq.symm
  have hkL : L.map (fun a => intOf a.idx) = (C.atoms.map (fun a => intOf a.idx)).map ρ := by
    rw [List.map_map]
    exact forall₂_map_eq hL (fun a a' r => r.2)
  have hndL : (L.map (fun a => intOf a.idx)).Nodup := ((pL.map _).nodup_iff).mp h'.uniq
  have hρ : ∀ u ∈ C.atoms.map (fun a => intOf a.idx), ∀ v ∈ C.atoms.map (fun a => intOf a.idx), ρ u = ρ v → u = v := by
    rw [hkL] at hndL
    exact List.inj_on_of_nodup_map hndL
  obtain ⟨σ, hσ, hat⟩ := exists_posIso_of_perm (fun a : AtomLine => intOf a.idx) pL hndL
  rw [hlen] at hσ
  -- joined pairs correspond
  have hjoin : ∀ u ∈ C.atoms.map (fun a => intOf a.idx), ∀ v ∈ C.atoms.map (fun a => intOf a.idx),
      (C.joined u v ↔ C'.joined (ρ u) (ρ v)) := by
    intro u hu v hv
    constructor
    · rintro ⟨b, hb, hor⟩
      obtain ⟨b', hb', hbr⟩ := forall₂_mem_left hM hb
      refine ⟨b', pM.mem_iff.mpr hb', ?_⟩
      rcases hor with ⟨rfl, rfl⟩ | ⟨rfl, rfl⟩ <;> rcases hbr with ⟨r1, r2⟩ | ⟨r1, r2⟩
      · exact Or.inl ⟨r1, r2⟩
      · exact Or.inr ⟨r1, r2⟩
      · exact Or.inr ⟨r1, r2⟩
      · exact Or.inl ⟨r1, r2⟩
    · rintro ⟨b', hb', hor⟩
      obtain ⟨b, hb, hbr⟩ := forall₂_mem_right hM (pM.mem_iff.mp hb')
      obtain ⟨m1, m2⟩ := h.bondEnds b hb
      refine ⟨b, hb, ?_⟩
      rcases hor with ⟨e1, e2⟩ | ⟨e1, e2⟩ <;> rcases hbr with ⟨r1, r2⟩ | ⟨r1, r2⟩ <;> rw [e1] at r1 <;> rw [e2] at r2
      · exact Or.inl ⟨(hρ _ hu _ m1 r1).symm, (hρ _ hv _ m2 r2).symm⟩
      · exact Or.inr ⟨(hρ _ hv _ m1 r2).symm, (hρ _ hu _ m2 r1).symm⟩
      · exact Or.inr ⟨(hρ _ hv _ m1 r1).symm, (hρ _ hu _ m2 r2).symm⟩
      · exact Or.inl ⟨(hρ _ hu _ m1 r2).symm, (hρ _ hv _ m2 r1).symm⟩
  have hrel : ∀ (i : Nat) (hi : i < C.atoms.length) a', C'.atoms[σ i]? = some a' →
      AtomRewritten ρ C.atoms[i] a' := by
    intro i hi a' ha'
    have hiL : i < L.length := hlen ▸ hi
    rw [hat i hiL] at ha'
    cases ha'
    exact forall₂_getElem hL i hi hiL
  refine ⟨σ, ?_, hσ, ?_, ?_⟩
  · rw [pL.length_eq, hlen]
  · intro i a a' ha ha'
    obtain ⟨hi, rfl⟩ := List.getElem?_eq_some_iff.mp ha
    exact (hrel i hi a' ha').1
  · intro i hi j hj
    have hi' : σ i < C'.atoms.length := by rw [pL.length_eq, hlen]; exact hσ.maps i hi
    have hj' : σ j < C'.atoms.length := by rw [pL.length_eq, hlen]; exact hσ.maps j hj
    have ha := getElem?_of_lt C.atoms hi
    have hb := getElem?_of_lt C.atoms hj
    have ha' := getElem?_of_lt C'.atoms hi'
    have hb' := getElem?_of_lt C'.atoms hj'
    rw [bondedPos_iff ha hb, bondedPos_iff ha' hb', (hrel i hi _ ha').2, (hrel j hj _ hb').2]
    exact hjoin _ (List.mem_map.mpr ⟨_, List.getElem_mem hi, rfl⟩) _ (List.mem_map.mpr ⟨_, List.getElem_mem hj, rfl⟩)


/-- `text` is a V3000 molfile whose lines are a rendering (`Dress`: header / comment lines, counts line, blank
runs, trailing blanks, continuation cut points, further V30 lines and blocks, trailing lines) of the readable
star-free connection table `C`; `rf` bounds the number of continuation steps. The line endings are whatever
`str.splitlines` accepts (LF, CRLF, CR, …, mixed). All fields are format rules except `plain.nostar` (scope),
`plain.coords` (`float` accepts the coordinate tokens) and `fuel` (size). -/
structure Rendering (envr : DepEnv) (C : Ctab) (D : Dress) (text : Str) (rf : Nat) : Prop where
  plain : C.Plain envr
  ok : D.OK C
  shape : ∀ b ∈ C.bonds, b.Shape
  lines : splitlines text = fileLines C D
  fuel : ((fileLines C D).drop 4).length + 1 ≤ rf

/-- every physical line terminated by `sep` (LF, CRLF or CR) -/
theorem Rendering.of_join {envr : DepEnv} {C : Ctab} {D : Dress} {rf : Nat} (h : C.Plain envr) (hok : D.OK C)
    (hB : ∀ b ∈ C.bonds, b.Shape) (hrf : ((fileLines C D).drop 4).length + 1 ≤ rf)
    (sep : Str) (hsep : IsSep sep) (hnb : D.NoBreaks C) :
    Rendering envr C D (join sep (fileLines C D ++ [[]])) rf :=
  ⟨h, hok, hB, Reader.splitlines_join_terminated sep hsep _ (Reader.noBreak_fileLines C D hnb), hrf⟩

/-- **C01 + C06 for two descriptions of one molecule.** Two V3000 molfile texts (any headers, spellings, extra
blocks, line endings: `Rendering`) of star-free connection tables `C`, `C'`, where `C'` is another description of
the molecule of `C` (`Redescribed`: atom lines in any order, index values renumbered, non-identity data of atoms
and bonds changed at will, bond lines in any order and direction), `C` valid with at least one atom: both texts
are read successfully and get the same TUCAN string. -/
theorem C01_C06_redescribed {env₁ env₂ : DepEnv} (envr envr' : DepEnv) (hs₁ : env₁.SetLawful)
    (hs₂ : env₂.SetLawful) (hb : BlissLawful env₁) (hcp : env₂.canonicalPermutation = env₁.canonicalPermutation)
    (hpv : env₂.permuteVertices = env₁.permuteVertices)
    {C C' : Ctab} {D D' : Dress} {text text' : Str} {rf rf' : Nat}
    (R : Rendering envr C D text rf) (R' : Rendering envr' C' D' text' rf')
    (ρ : Int → Int) (hre : Redescribed C C' ρ)
    (hneg : ¬ C.NegMassRad) (hself : ¬ C.SelfBond) (hne : C.atoms ≠ []) :
    ∃ g g', Tucan.molfile_reader.graph_from_molfile_text envr rf text = .ok g ∧
      Tucan.molfile_reader.graph_from_molfile_text envr' rf' text' = .ok g' ∧ fuelBound g' = fuelBound g ∧
      ∀ fuel ≥ fuelBound g, ∀ fuel' ≥ fuelBound g, ∃ s, tucan env₁ fuel g = .ok s ∧ tucan env₂ fuel' g' = .ok s := by
  obtain ⟨σ, hiso⟩ := hre.identityIso R.plain R'.plain
  obtain ⟨g, g', e, e', _, fb, run⟩ := C01_C06_texts envr envr' hs₁ hs₂ hb hcp hpv C C' R.plain R'.plain σ hiso
    hneg hself hne D D' R.ok R'.ok R.shape R'.shape text text' R.lines R'.lines rf rf' R.fuel R'.fuel
  exact ⟨g, g', e, e', fb, run⟩

/-! ### C01: "differ only in the numbering of atoms, the order in which atoms and bonds are listed, or the
direction of bond endpoints" -/

/-- the same atom line with another index value -/
def AtomRenumbered (ρ : Int → Int) (a a' : AtomLine) : Prop :=
  a'.sym = a.sym ∧ a'.x = a.x ∧ a'.y = a.y ∧ a'.z = a.z ∧ a'.aamap = a.aamap ∧ a'.props = a.props ∧
    intOf a'.idx = ρ (intOf a.idx)

/-- the same bond line (type, keywords) with the endpoints renumbered and possibly written the other way round -/
def BondRenumbered (ρ : Int → Int) (b b' : BondLine) : Prop :=
  b'.typ = b.typ ∧ b'.pre = b.pre ∧ b'.endpts = b.endpts ∧
    ((intOf b'.a1 = ρ (intOf b.a1) ∧ intOf b'.a2 = ρ (intOf b.a2)) ∨
      (intOf b'.a1 = ρ (intOf b.a2) ∧ intOf b'.a2 = ρ (intOf b.a1)))

/-- `C'` is `C` with the atoms renumbered by `ρ`, the atom lines and the bond lines listed in another order, bond
endpoints possibly swapped — nothing else changed -/
structure Relisted (C C' : Ctab) (ρ : Int → Int) : Prop where
  atoms : ∃ L, List.Forall₂ (AtomRenumbered ρ) C.atoms L ∧ C'.atoms.Perm L
  bonds : ∃ M, List.Forall₂ (BondRenumbered ρ) C.bonds M ∧ C'.bonds.Perm M

theorem Relisted.redescribed {C C' : Ctab} {ρ : Int → Int} (h : Relisted C C' ρ) : Redescribed C C' ρ := by
  obtain ⟨L, hL, pL⟩ := h.atoms
  obtain ⟨M, hM, pM⟩ := h.bonds
  refine ⟨⟨L, hL.imp ?_, pL⟩, ⟨M, hM.imp ?_, pM⟩⟩
  · rintro a a' ⟨e1, _, _, _, _, e2, e3⟩
    exact ⟨by simp only [identityOf, e1, e2], e3⟩
  · rintro b b' ⟨_, _, _, e⟩; exact e

/-- **C01 for molfile texts.** Two V3000 molfiles of the same star-free connection table that differ only in the
numbering of the atoms (`ρ`), the order of the atom lines, the order of the bond lines and the direction of bond
endpoints (`Relisted`) — and in headers, spelling, line endings (`Rendering`) — are both read and yield
byte-identical TUCAN strings. -/
theorem C01_files {env₁ env₂ : DepEnv} (envr envr' : DepEnv) (hs₁ : env₁.SetLawful)
    (hs₂ : env₂.SetLawful) (hb : BlissLawful env₁) (hcp : env₂.canonicalPermutation = env₁.canonicalPermutation)
    (hpv : env₂.permuteVertices = env₁.permuteVertices)
    {C C' : Ctab} {D D' : Dress} {text text' : Str} {rf rf' : Nat}
    (R : Rendering envr C D text rf) (R' : Rendering envr' C' D' text' rf')
    (ρ : Int → Int) (hre : Relisted C C' ρ)
    (hneg : ¬ C.NegMassRad) (hself : ¬ C.SelfBond) (hne : C.atoms ≠ []) :
    ∃ g g', Tucan.molfile_reader.graph_from_molfile_text envr rf text = .ok g ∧
      Tucan.molfile_reader.graph_from_molfile_text envr' rf' text' = .ok g' ∧ fuelBound g' = fuelBound g ∧
      ∀ fuel ≥ fuelBound g, ∀ fuel' ≥ fuelBound g, ∃ s, tucan env₁ fuel g = .ok s ∧ tucan env₂ fuel' g' = .ok s :=
  C01_C06_redescribed envr envr' hs₁ hs₂ hb hcp hpv R R' ρ hre.redescribed hneg hself hne

/-! ### C06: "changing anything other than which atoms exist, their element, isotope mass and radical state, and
which pairs are bonded" -/

/-- `C'` has the atoms of `C` in the same order with the same normalised identity (element, isotope mass, radical
state; `D` = `H MASS=2`, `T` = `H MASS=3`, `MASS=0` / `RAD=0` = absent) and bond lines joining the same pairs.
Changed at will: coordinates, atom-atom mapping, `CHG=` (formal charges), every other atom keyword, the index values
(`ρ`), bond types (bond orders), bond keywords and annotations, bond indices, order and direction of the bond
lines. -/
structure Redrawn (C C' : Ctab) (ρ : Int → Int) : Prop where
  atoms : List.Forall₂ (AtomRewritten ρ) C.atoms C'.atoms
  bonds : ∃ M, List.Forall₂ (BondRewritten ρ) C.bonds M ∧ C'.bonds.Perm M

theorem Redrawn.redescribed {C C' : Ctab} {ρ : Int → Int} (h : Redrawn C C' ρ) : Redescribed C C' ρ :=
  ⟨⟨C'.atoms, h.atoms, List.Perm.refl _⟩, h.bonds⟩

/-- **C06 for molfile texts.** Two V3000 molfiles with the same atoms (element, isotope mass, radical state) and
the same bonded pairs (`Redrawn`) — whatever their coordinates, bond orders and bond annotations, formal charges,
header and comment lines, numeric atom indices, other keywords and trailing blocks, line-ending styles — are both
read and get the same TUCAN string. -/
theorem C06_files {env₁ env₂ : DepEnv} (envr envr' : DepEnv) (hs₁ : env₁.SetLawful)
    (hs₂ : env₂.SetLawful) (hb : BlissLawful env₁) (hcp : env₂.canonicalPermutation = env₁.canonicalPermutation)
    (hpv : env₂.permuteVertices = env₁.permuteVertices)
    {C C' : Ctab} {D D' : Dress} {text text' : Str} {rf rf' : Nat}
    (R : Rendering envr C D text rf) (R' : Rendering envr' C' D' text' rf')
    (ρ : Int → Int) (hre : Redrawn C C' ρ)
    (hneg : ¬ C.NegMassRad) (hself : ¬ C.SelfBond) (hne : C.atoms ≠ []) :
    ∃ g g', Tucan.molfile_reader.graph_from_molfile_text envr rf text = .ok g ∧
      Tucan.molfile_reader.graph_from_molfile_text envr' rf' text' = .ok g' ∧ fuelBound g' = fuelBound g ∧
      ∀ fuel ≥ fuelBound g, ∀ fuel' ≥ fuelBound g, ∃ s, tucan env₁ fuel g = .ok s ∧ tucan env₂ fuel' g' = .ok s :=
  C01_C06_redescribed envr envr' hs₁ hs₂ hb hcp hpv R R' ρ hre.redescribed hneg hself hne

/-- a resonance / tautomer-style redrawing: the same atom lines up to the properties other than `MASS=` / `RAD=`
(so `CHG=` may move) and up to coordinates; the same bond lines up to the bond type (bond orders may move) and the
bond keywords -/
structure ResonanceRedrawing (C C' : Ctab) : Prop where
  atoms : List.Forall₂ (fun a a' => a'.idx = a.idx ∧ a'.sym = a.sym ∧
    propInt a'.props py!"MASS" = propInt a.props py!"MASS" ∧
    propInt a'.props py!"RAD" = propInt a.props py!"RAD") C.atoms C'.atoms
  bonds : List.Forall₂ (fun b b' => b'.a1 = b.a1 ∧ b'.a2 = b.a2) C.bonds C'.bonds

theorem ResonanceRedrawing.redrawn {C C' : Ctab} (h : ResonanceRedrawing C C') : Redrawn C C' id := by
  refine ⟨h.atoms.imp ?_, C'.bonds, h.bonds.imp ?_, List.Perm.refl _⟩
  · rintro a a' ⟨e1, e2, e3, e4⟩
    exact ⟨by simp only [identityOf, e2, e3, e4], by rw [e1]; rfl⟩
  · rintro b b' ⟨e1, e2⟩
    exact Or.inl ⟨by rw [e1]; rfl, by rw [e2]; rfl⟩

/-- **C06, "resonance or tautomer-style redrawings that only move bond orders and charges get the same
identifier"** -/
theorem C06_resonance {env₁ env₂ : DepEnv} (envr envr' : DepEnv) (hs₁ : env₁.SetLawful)
    (hs₂ : env₂.SetLawful) (hb : BlissLawful env₁) (hcp : env₂.canonicalPermutation = env₁.canonicalPermutation)
    (hpv : env₂.permuteVertices = env₁.permuteVertices)
    {C C' : Ctab} {D D' : Dress} {text text' : Str} {rf rf' : Nat}
    (R : Rendering envr C D text rf) (R' : Rendering envr' C' D' text' rf')
    (hre : ResonanceRedrawing C C')
    (hneg : ¬ C.NegMassRad) (hself : ¬ C.SelfBond) (hne : C.atoms ≠ []) :
    ∃ g g', Tucan.molfile_reader.graph_from_molfile_text envr rf text = .ok g ∧
      Tucan.molfile_reader.graph_from_molfile_text envr' rf' text' = .ok g' ∧ fuelBound g' = fuelBound g ∧
      ∀ fuel ≥ fuelBound g, ∀ fuel' ≥ fuelBound g, ∃ s, tucan env₁ fuel g = .ok s ∧ tucan env₂ fuel' g' = .ok s :=
  C06_files envr envr' hs₁ hs₂ hb hcp hpv R R' id hre.redrawn hneg hself hne


/-! ## 5. V2000 files -/

section V2000
open Contracts.V2000 (Item endLine lineKind specGet fieldInt field)
open Contracts.Reader (lastWord isNeg)

/-- `text` is a V2000 molfile that the reader parses into the atom-block data `attrs`, the bond data `bonds` and
the property-block lines `items`: the hypotheses of `Reader.graph_from_molfile_text_v2000`, bundled (the physical
lines are existentially quantified). -/
structure V2000Parsed (env : DepEnv) (text : Str) (attrs : List Attrs) (bonds : List ((Int × Int) × Attrs))
    (items : List Item) : Prop where
  shape : ∃ (h0 h1 h2 counts : Str) (atomLines bondLines post : List Str),
    splitlines text =
      h0 :: h1 :: h2 :: counts :: (atomLines ++ (bondLines ++ (items.map Item.render ++ endLine :: post))) ∧
    lastWord counts = py!"V2000" ∧
    fieldInt (field counts 0 3) = .ok atomLines.length ∧
    fieldInt (field counts 3 3) = .ok bondLines.length ∧
    fieldInt (field counts 6 3) = .ok 0 ∧
    List.Forall₂ (fun l a => Tucan.molfile_v2000_reader._parse_atom_line env l = .ok a) atomLines attrs ∧
    List.Forall₂ (fun l b => Tucan.molfile_v2000_reader._parse_bond_line env l (Contracts.V2000.atomDict attrs) = .ok b)
      bondLines bonds ∧
    ∀ l ∈ bondLines, lineKind l = none ∧ l ≠ endLine
  legal : ∀ it ∈ items, it.Legal (Contracts.V2000.atomDict attrs)
  wf : ∀ a ∈ attrs, a.WF
  z : ∀ a ∈ attrs, ∃ z, a.get? "atomic_number" = some z
  ends : ∀ b ∈ bonds, b.1.1 ∈ range (attrs.length : Int) ∧ b.1.2 ∈ range (attrs.length : Int)
  nonneg : ∀ (i : Nat) (hi : i < attrs.length), ∀ k ∈ ["mass", "rad"], ∀ v,
    specGet (items.filterMap Item.parsed) i attrs[i] k = some v → isNeg v = false
  noself : ∀ b ∈ bonds, b.1.1 ≠ b.1.2

/-- the identity attributes of atom `i` of a parsed V2000 file (atom block as modified by the property block) -/
def v2get (attrs : List Attrs) (items : List Item) (i : Nat) (k : String) : Option Val :=
  match attrs[i]? with
  | some a => specGet (items.filterMap Item.parsed) i a k
  | none => none

theorem v2get_of_lt {attrs : List Attrs} {items : List Item} {i : Nat} (hi : i < attrs.length) (k : String) :
    v2get attrs items i k = specGet (items.filterMap Item.parsed) i attrs[i] k := by
  simp [v2get, hi]

/-- some bond line joins the atoms at positions `i` and `j` -/
def V2Bonded (bonds : List ((Int × Int) × Attrs)) (i j : Nat) : Prop :=
  ∃ q ∈ bonds, q.1 = ((i : Int), (j : Int)) ∨ q.1 = ((j : Int), (i : Int))

theorem V2000Parsed.read {env : DepEnv} {text : Str} {attrs : List Attrs} {bonds : List ((Int × Int) × Attrs)}
    {items : List Item} (P : V2000Parsed env text attrs bonds items) (fuel : Nat) :
    ∃ g, Tucan.molfile_reader.graph_from_molfile_text env fuel text = .ok g ∧ g.WF ∧
      g.nodeList = range (attrs.length : Int) ∧
      (∀ i < attrs.length, ∃ new, g.node.get? (i : Int) = some (withCode new) ∧
        ∀ k, new.get? k = v2get attrs items i k) ∧
      (∀ i j : Nat, (j : Int) ∈ g.nbrs (i : Int) ↔ V2Bonded bonds i j) := by
  obtain ⟨h0, h1, h2, counts, atomLines, bondLines, post, hl, hv, hna, hnb, hnl, hat, hbo, hbl⟩ := P.shape
  obtain ⟨g, e, wg, ng, ag, bg⟩ := Reader.graph_from_molfile_text_v2000 env fuel text h0 h1 h2 counts atomLines
    bondLines attrs bonds items post hl hv hna hnb hnl hat hbo hbl P.legal P.wf P.z P.ends P.nonneg P.noself
  refine ⟨g, e, wg, ng, ?_, fun i j => bg _ _⟩
  intro i hi
  obtain ⟨new, h1, h2⟩ := ag i hi
  exact ⟨new, h1, fun k => by rw [h2 k, v2get_of_lt hi]⟩

/-- the identity facts of one atom: element symbol of the periodic table with its atomic number; isotope mass and
radical state, where present, positive integers -/
structure IdFacts (get : String → Option Val) : Prop where
  elem : ∃ s ∈ periodicTable, get "element_symbol" = some (Val.str s) ∧
    get "atomic_number" = some (Val.int (atomicNumber s))
  mass : ∀ v, get "mass" = some v → PosIntVal v
  rad : ∀ v, get "rad" = some v → PosIntVal v

/-- **C01 + C06 for two V2000 molfiles.** Two texts that the V2000 reader parses (`V2000Parsed`, each under its own
`float`) into data describing the same molecule — `σ` a bijection between the atom positions; corresponding atoms
have the same element symbol, atomic number, isotope mass and radical state (atom block as modified by the
`M  ISO` / `M  RAD` / `M  CHG` lines); two positions are joined by a bond line of the first file iff the
corresponding positions are joined in the second (order, direction, type of the bond lines free; coordinates,
charges, other property lines, headers, line endings free) — are both read successfully and get the same TUCAN
string. `hid`: the first file's atoms are atoms (`IdFacts`; see `idFacts_of_atomLine`). -/
theorem C01_C06_v2000 {env₁ env₂ : DepEnv} (envr envr' : DepEnv) (hs₁ : env₁.SetLawful) (hs₂ : env₂.SetLawful)
    (hb : BlissLawful env₁) (hcp : env₂.canonicalPermutation = env₁.canonicalPermutation)
    (hpv : env₂.permuteVertices = env₁.permuteVertices)
    {text text' : Str} {attrs attrs' : List Attrs} {bonds bonds' : List ((Int × Int) × Attrs)}
    {items items' : List Item}
    (P : V2000Parsed envr text attrs bonds items) (P' : V2000Parsed envr' text' attrs' bonds' items')
    (hid : ∀ i < attrs.length, IdFacts (v2get attrs items i)) (hne : attrs ≠ [])
    (σ : Nat → Nat) (hlen : attrs'.length = attrs.length) (hσ : PosIso attrs.length σ)
    (hsameA : ∀ i < attrs.length, ∀ k ∈ idKeys, v2get attrs' items' (σ i) k = v2get attrs items i k)
    (hsameB : ∀ i < attrs.length, ∀ j < attrs.length, (V2Bonded bonds i j ↔ V2Bonded bonds' (σ i) (σ j)))
    (rf rf' : Nat) :
    ∃ g g', Tucan.molfile_reader.graph_from_molfile_text envr rf text = .ok g ∧
      Tucan.molfile_reader.graph_from_molfile_text envr' rf' text' = .ok g' ∧
      (∀ k ∈ idKeys ++ ["invariant_code"], IsIsoOn k (liftPos σ) g g') ∧ fuelBound g' = fuelBound g ∧
      ∀ fuel ≥ fuelBound g, ∀ fuel' ≥ fuelBound g, ∃ s, tucan env₁ fuel g = .ok s ∧ tucan env₂ fuel' g' = .ok s := by
  obtain ⟨g, e, wg, ng, ag, bg⟩ := P.read rf
  obtain ⟨g', e', wg', ng', ag', bg'⟩ := P'.read rf'
  rw [hlen] at ng'
  have ok : IdOK g := by
    apply Final.idOK_of_withCode wg
    intro m hm
    rw [ng] at hm
    obtain ⟨i, hi, rfl⟩ := mem_range_nat hm
    obtain ⟨new, h1, h2⟩ := ag i hi
    have f := hid i hi
    refine ⟨new, h1, ?_, ?_, ?_⟩
    · obtain ⟨s, hs, e1, e2⟩ := f.elem
      exact ⟨s, hs, by rw [h2, e1], by rw [h2, e2]⟩
    · intro v hv; rw [h2] at hv; exact f.mass v hv
    · intro v hv; rw [h2] at hv; exact f.rad v hv
  have hpos : 0 < attrs.length := List.length_pos_iff.mpr hne
  refine ⟨g, g', e, e', tucan_eq_of_posIso hs₁ hs₂ hb hcp hpv ok wg' ng ng' hpos hσ ?_ ?_⟩
  · intro i hi
    obtain ⟨new, h1, h2⟩ := ag i hi
    obtain ⟨new', h1', h2'⟩ := ag' (σ i) (hlen ▸ hσ.maps i hi)
    exact attr_of_withCode h1 h1' (fun k hk => by rw [h2, h2', hsameA i hi k hk])
  · intro i hi j hj
    rw [bg, bg']
    exact (hsameB i hi j hj).symm


/-! ### discharging `IdFacts` for atoms read from V2000 atom lines -/

theorem v2atomAttrs_get (sym : Str) (z fx fy fz : Val) (c m : Int) :
    (Contracts.V2000.atomAttrs sym z fx fy fz c m).get? "element_symbol" = some (Val.str sym) ∧
    (Contracts.V2000.atomAttrs sym z fx fy fz c m).get? "atomic_number" = some z ∧
    (Contracts.V2000.atomAttrs sym z fx fy fz c m).get? "mass" = (if m = 0 then none else some (Val.int m)) ∧
    (Contracts.V2000.atomAttrs sym z fx fy fz c m).get? "rad" = (if c = 4 then some (Val.int 2) else none) := by
  unfold Contracts.V2000.atomAttrs Contracts.V2000.chargeOfCode
  refine ⟨rfl, rfl, ?_, ?_⟩
  · split_ifs <;> simp [Dict.get?, List.lookup]
  · split_ifs <;> first | omega | simp [Dict.get?, List.lookup]

/-- **the atoms the V2000 reader returns are atoms**: if atom line `i` was read (`V2000._parse_atom_line_ok`) as
symbol `sym` (`D` / `T` normalised by `hydrogenIsotope`) found in the element table, and the file is valid (no
negative isotope mass / radical state after the property block), then `IdFacts` holds for atom `i`. -/
theorem idFacts_of_atomLine {attrs : List Attrs} {items : List Item} {i : Nat} (hi : i < attrs.length)
    (sym : Str) (ea : Attrs) (z fx fy fz : Val) (c : Int)
    (hea : Tucan.Consts.ELEMENT_ATTRS.get? (Contracts.V2000.hydrogenIsotope sym).1 = some ea)
    (hz : ea.get? "atomic_number" = some z)
    (hshape : attrs[i] = Contracts.V2000.atomAttrs (Contracts.V2000.hydrogenIsotope sym).1 z fx fy fz c
      (Contracts.V2000.hydrogenIsotope sym).2)
    (hnonneg : ∀ k ∈ ["mass", "rad"], ∀ v,
      specGet (items.filterMap Item.parsed) i attrs[i] k = some v → isNeg v = false) :
    IdFacts (v2get attrs items i) := by
  have hmem : (Contracts.V2000.hydrogenIsotope sym).1 ∈ periodicTable := by
    rw [← Contracts.Parser.keys_eq_table]; exact Dict.mem_keys_of_get? hea
  have hzv : z = Val.int (atomicNumber (Contracts.V2000.hydrogenIsotope sym).1) := by
    have ht := Contracts.Parser.table_ok _ hmem
    rw [hea] at ht
    simp only [Option.bind_some] at ht
    rw [hz] at ht
    exact Option.some.inj ht
  obtain ⟨g1, g2, g3, g4⟩ := v2atomAttrs_get (Contracts.V2000.hydrogenIsotope sym).1 z fx fy fz c
    (Contracts.V2000.hydrogenIsotope sym).2
  have hm23 : (Contracts.V2000.hydrogenIsotope sym).2 = 0 ∨ (Contracts.V2000.hydrogenIsotope sym).2 = 2 ∨
      (Contracts.V2000.hydrogenIsotope sym).2 = 3 := by
    unfold Contracts.V2000.hydrogenIsotope; split_ifs <;> simp
  have pos_of : ∀ k ∈ ["mass", "rad"], ∀ v : Int, v ≠ 0 →
      specGet (items.filterMap Item.parsed) i attrs[i] k = some (Val.int v) → PosIntVal (Val.int v) := by
    intro k hk v hv0 hs
    have := hnonneg k hk _ hs
    rw [Reader.isNeg_int] at this
    have : ¬ v < 0 := by simpa using this
    exact ⟨v, by omega, rfl⟩
  refine ⟨⟨_, hmem, ?_, ?_⟩, ?_, ?_⟩
  · rw [v2get_of_lt hi, Contracts.V2000.specGet_other _ _ _ _ (by decide) (by decide) (by decide), hshape, g1]
  · rw [v2get_of_lt hi, Contracts.V2000.specGet_other _ _ _ _ (by decide) (by decide) (by decide), hshape, g2, hzv]
  · intro v hv
    rw [v2get_of_lt hi] at hv
    have hv' := hv
    rw [Contracts.V2000.specGet_mass] at hv
    have old : ∀ w, attrs[i].get? "mass" = some w → PosIntVal w := by
      intro w hw
      rw [hshape, g3] at hw
      split_ifs at hw with h0
      cases hw
      exact ⟨_, by omega, rfl⟩
    -- a mass from the atom block (D / T) stays whatever the ISO lines say; otherwise the last ISO entry
    cases ho : attrs[i].get? "mass" with
    | some m => rw [ho] at hv; exact old v (ho.trans hv)
    | none =>
      rw [ho] at hv
      cases hl : Contracts.V2000.lastWins (Contracts.V2000.entriesOf (items.filterMap Item.parsed) .iso) i with
      | none => rw [hl] at hv; cases hv
      | some w =>
        rw [hl] at hv
        simp only at hv
        split_ifs at hv with h0
        cases hv; exact pos_of "mass" (by simp) w h0 hv'
  · intro v hv
    rw [v2get_of_lt hi] at hv
    have hv' := hv
    rw [Contracts.V2000.specGet_rad] at hv
    have old : ∀ w, (if Contracts.V2000.supersedes (items.filterMap Item.parsed) = true then none
        else attrs[i].get? "rad") = some w → PosIntVal w := by
      intro w hw
      split_ifs at hw with h0
      rw [hshape, g4] at hw
      split_ifs at hw with h4
      cases hw
      exact ⟨2, by omega, rfl⟩
    cases hl : Contracts.V2000.lastWins (Contracts.V2000.entriesOf (items.filterMap Item.parsed) .rad) i with
    | none => rw [hl] at hv; exact old v hv
    | some w =>
      rw [hl] at hv
      simp only at hv
      by_cases h0 : w = 0
      · rw [if_pos h0] at hv; exact old v hv
      · rw [if_neg h0] at hv; cases hv; exact pos_of "rad" (by simp) w h0 hv'


/-! ### a V3000 file and a V2000 file (generalises `Final.C08_agree` by the renumbering `σ`) -/

/-- **C01 + C06 across the two formats.** A V3000 text (`Rendering` of a readable, valid, star-free table `C` with
at least one atom) and a V2000 text (`V2000Parsed`) describing the same molecule — `σ` a bijection from the atom
positions of `C` to those of the V2000 file; corresponding atoms have the same element symbol, atomic number,
isotope mass and radical state; bonded pairs correspond — are both read and get the same TUCAN string. -/
theorem C01_C06_v3000_v2000 {env₁ env₂ : DepEnv} (envr envr' : DepEnv) (hs₁ : env₁.SetLawful)
    (hs₂ : env₂.SetLawful) (hb : BlissLawful env₁) (hcp : env₂.canonicalPermutation = env₁.canonicalPermutation)
    (hpv : env₂.permuteVertices = env₁.permuteVertices)
    {C : Ctab} {D : Dress} {text : Str} {rf : Nat} (R : Rendering envr C D text rf)
    (hneg : ¬ C.NegMassRad) (hself : ¬ C.SelfBond) (hne : C.atoms ≠ [])
    {text' : Str} {attrs' : List Attrs} {bonds' : List ((Int × Int) × Attrs)} {items' : List Item}
    (P' : V2000Parsed envr' text' attrs' bonds' items') (rf' : Nat)
    (σ : Nat → Nat) (hlen : attrs'.length = C.atoms.length) (hσ : PosIso C.atoms.length σ)
    (hsameA : ∀ (i : Nat) a, C.atoms[i]? = some a → ∀ k ∈ idKeys,
      v2get attrs' items' (σ i) k = (attrsOf envr a).get? k)
    (hsameB : ∀ i < C.atoms.length, ∀ j < C.atoms.length, (BondedPos C i j ↔ V2Bonded bonds' (σ i) (σ j))) :
    ∃ g g', Tucan.molfile_reader.graph_from_molfile_text envr rf text = .ok g ∧
      Tucan.molfile_reader.graph_from_molfile_text envr' rf' text' = .ok g' ∧
      (∀ k ∈ idKeys ++ ["invariant_code"], IsIsoOn k (liftPos σ) g g') ∧ fuelBound g' = fuelBound g ∧
      ∀ fuel ≥ fuelBound g, ∀ fuel' ≥ fuelBound g, ∃ s, tucan env₁ fuel g = .ok s ∧ tucan env₂ fuel' g' = .ok s := by
  obtain ⟨g, e, _, _, _, _, _, _, _, ok⟩ := Final.read_ok envr C R.plain hneg hself hne
  obtain ⟨g₀, e₀, _, ng, ag, bg⟩ := Reader.fileMeaning_plain_graph envr C R.plain hneg hself
  obtain rfl : g₀ = g := Except.ok.inj (e₀.symm.trans e)
  obtain ⟨g', e', wg', ng', ag', bg'⟩ := P'.read rf'
  rw [hlen] at ng'
  have hpos : 0 < C.atoms.length := List.length_pos_iff.mpr hne
  have et : Tucan.molfile_reader.graph_from_molfile_text envr rf text = .ok g₀ := by
    rw [Reader.graph_from_molfile_text_v3000 envr rf text C D R.lines R.ok
      (fun a ha => (R.plain.wf a ha).shape) R.shape R.fuel, e]
  refine ⟨g₀, g', et, e', tucan_eq_of_posIso hs₁ hs₂ hb hcp hpv ok wg' ng ng' hpos hσ ?_ ?_⟩
  · intro i hi
    have ha := getElem?_of_lt C.atoms hi
    obtain ⟨new', h1', h2'⟩ := ag' (σ i) (hlen ▸ hσ.maps i hi)
    exact attr_of_withCode (ag i _ ha) h1' (fun k hk => by rw [h2', hsameA i _ ha k hk])
  · intro i hi j hj
    rw [bg i j _ _ (getElem?_of_lt C.atoms hi) (getElem?_of_lt C.atoms hj), bg',
      ← bondedPos_iff (getElem?_of_lt C.atoms hi) (getElem?_of_lt C.atoms hj)]
    exact (hsameB i hi j hj).symm

end V2000


/-! ## 6. mixed line endings -/

/-- every line followed by its own terminator -/
def terminated : List (Str × Str) → Str
  | [] => []
  | (l, t) :: r => l ++ (t ++ terminated r)

/-- a text in which every line is terminated by LF or by CRLF — the two styles mixed at will — splits into its
lines (so it is a `Rendering` of `C`, `D` whenever its lines are `fileLines C D`) -/
theorem splitlines_terminated (ls : List (Str × Str)) (hl : ∀ p ∈ ls, Reader.NoBreak p.1)
    (ht : ∀ p ∈ ls, p.2 = py!"\n" ∨ p.2 = py!"\r\n") : splitlines (terminated ls) = ls.map Prod.fst := by
  unfold splitlines
  induction ls with
  | nil => simp [terminated, Reader.splitlinesAux_nil]
  | cons p r ih =>
    obtain ⟨l, t⟩ := p
    have ih' := ih (fun q hq => hl q (by simp [hq])) (fun q hq => ht q (by simp [hq]))
    simp only [terminated, List.map_cons]
    rw [Reader.splitlinesAux_line l (hl (l, t) (by simp))]
    rcases ht (l, t) (by simp) with h | h <;> simp only at h <;> subst h
    · show splitlinesAux ('\n' :: terminated r) _ = _
      rw [Reader.splitlinesAux_lf, ih']; simp
    · show splitlinesAux ('\r' :: '\n' :: terminated r) _ = _
      rw [Reader.splitlinesAux_crlf, ih']; simp

theorem Rendering.of_terminated {envr : DepEnv} {C : Ctab} {D : Dress} {rf : Nat} (h : C.Plain envr) (hok : D.OK C)
    (hB : ∀ b ∈ C.bonds, b.Shape) (hrf : ((fileLines C D).drop 4).length + 1 ≤ rf) (hnb : D.NoBreaks C)
    (ts : List Str) (hlen : ts.length = (fileLines C D).length) (ht : ∀ t ∈ ts, t = py!"\n" ∨ t = py!"\r\n") :
    Rendering envr C D (terminated ((fileLines C D).zip ts)) rf := by
  refine ⟨h, hok, hB, ?_, hrf⟩
  rw [splitlines_terminated]
  · exact List.map_fst_zip (le_of_eq hlen.symm)
  · intro p hp; exact Reader.noBreak_fileLines C D hnb _ (List.of_mem_zip hp).1
  · intro p hp; exact ht _ (List.of_mem_zip hp).2

#print axioms tucan_eq_of_posIso
#print axioms C01_C06_ctab
#print axioms C01_C06_texts
#print axioms C01_C06_files
#print axioms C06_reader_text_of_iso
#print axioms Redescribed.identityIso
#print axioms C01_C06_redescribed
#print axioms C01_files
#print axioms C06_files
#print axioms C06_resonance
#print axioms C01_C06_v2000
#print axioms idFacts_of_atomLine
#print axioms C01_C06_v3000_v2000
#print axioms Rendering.of_terminated

end Contracts.FileIso
