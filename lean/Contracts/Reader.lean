/-
Contracts.Reader — the top-level molfile reader `graph_from_molfile_text` (C06, C07):
 1. dispatch on the version word of line 3 (`graph_from_molfile_text_eq`),
 2. line-ending independence of `splitlines` (`splitlines_join`, `splitlines_crlf`),
 3. a renderer of V3000 connection tables to physical lines with every spelling freedom the format
    permits (blank runs, trailing blanks, continuation dashes at arbitrary cut points, arbitrary header
    lines, further V30 lines after the bond block) and the theorem that the reader maps every such
    rendering to the meaning of the connection table.
-/
import Generated.Reader
import Contracts.V30Line
import Contracts.V3000
import Contracts.V2000
import Contracts.Parser
set_option autoImplicit false
open Py

namespace Contracts.Reader

open Contracts.V30Line (v30 phys splice tokens splice_phys tokenize_lines_ok)
open Contracts.V3000 (AtomLine BondLine Clean CtabAt AtomBlockAt BondBlockAt ctabMeaning parserError)

/-! ## 1. `str.split(" ")` without fuel, last word -/

/-- `s.split(" ")` as a structural recursion (`cur` = reversed current word) -/
def sp : Str → Str → List Str
  | [], cur => [cur.reverse]
  | c :: cs, cur => if c = ' ' then cur.reverse :: sp cs [] else sp cs (c :: cur)

theorem splitOnAux_blank (s : Str) : ∀ (fuel : Nat) (cur : Str), s.length < fuel →
    splitOnAux [' '] fuel s cur = sp s cur := by
  induction s with
  | nil => intro fuel cur h; cases fuel <;> simp [splitOnAux, sp]
  | cons c cs ih =>
    intro fuel cur h
    cases fuel with
    | zero => simp at h
    | succ f =>
      have hf : cs.length < f := by simpa using h
      by_cases hc : c = ' '
      · subst hc
        simp [splitOnAux, sp, ih f [] hf]
      · have : ¬ ([' '] <+: c :: cs) := by
          intro hp
          obtain ⟨t, ht⟩ := hp
          simp at ht
          exact hc ht.1.symm
        simp [splitOnAux, sp, hc, this, ih f (c :: cur) hf]

theorem split_blank (s : Str) : split s py!" " = sp s [] :=
  splitOnAux_blank s _ [] (by simp)

theorem sp_ne_nil (s cur : Str) : sp s cur ≠ [] := by
  induction s generalizing cur with
  | nil => simp [sp]
  | cons c cs ih => by_cases hc : c = ' ' <;> simp [sp, hc, ih]

/-- the text after the last blank -/
def afterLastBlank (s : Str) : Str := (s.reverse.takeWhile (· ≠ ' ')).reverse

/-- the last blank-separated word of a line, trailing whitespace ignored -/
def lastWord (l : Str) : Str := afterLastBlank (rstrip l)

theorem takeWhile_append_cons_neg {α} (p : α → Bool) (x : List α) (c : α) (y : List α) (hc : p c = false) :
    (x ++ c :: y).takeWhile p = x.takeWhile p := by
  induction x with
  | nil => simp [hc]
  | cons a x ih => by_cases ha : p a = true <;> simp [ha, ih]

theorem sp_getLast (s : Str) : ∀ cur : Str, ' ' ∉ cur →
    (sp s cur).getLast? = some (afterLastBlank (cur.reverse ++ s)) := by
  induction s with
  | nil =>
    intro cur h
    simp only [sp, afterLastBlank, List.append_nil, List.reverse_reverse, List.getLast?_singleton,
      Option.some.injEq]
    symm
    rw [List.reverse_eq_iff, List.reverse_reverse, List.takeWhile_eq_self_iff]
    intro c hc
    simp only [ne_eq, decide_not, Bool.not_eq_eq_eq_not, Bool.not_true, decide_eq_false_iff_not]
    rintro rfl; exact h hc
  | cons c cs ih =>
    intro cur h
    by_cases hc : c = ' '
    · subst hc
      simp only [sp, if_true]
      rw [List.getLast?_cons_of_ne_nil (sp_ne_nil _ _)]
      rw [ih [] (by simp)]
      simp only [afterLastBlank, List.reverse_nil, List.nil_append, List.reverse_append, List.reverse_cons,
        List.reverse_reverse, List.append_assoc, List.singleton_append]
      rw [takeWhile_append_cons_neg _ _ _ _ (by simp)]
    · simp only [sp, hc, if_false]
      rw [ih (c :: cur) (by simp [h, Ne.symm hc])]
      simp

theorem getItem_last {α} (l : List α) (x : α) (h : l.getLast? = some x) : getItem l (-1 : Int) = .ok x := by
  rcases List.eq_nil_or_concat l with rfl | ⟨l', y, rfl⟩
  · simp at h
  · simp at h; subst h
    rw [List.concat_eq_append]
    exact Contracts.V3000.getItem_neg_one l' y

/-- `line.rstrip().split(" ")[-1]` is the last word of the line -/
theorem version_word (l : Str) : getItem (split (rstrip l) py!" ") (-1 : Int) = .ok (lastWord l) := by
  apply getItem_last
  rw [split_blank, sp_getLast _ [] (by simp)]
  rfl

/-! ## 1. the dispatcher -/

/-! ### the two validators between the connection-table readers and `graph_from_molecule` -/

/-- `v < 0` as Python evaluates it on an attribute value (for an integer `i`: `i < 0`) -/
def isNeg (v : Val) : Bool := pyLt v (0 : Int)

theorem isNeg_int (i : Int) : isNeg (Val.int i) = decide (i < 0) := rfl

/-- the atom has a negative isotope mass or radical state -/
def NegAttr (a : Attrs) : Prop := ∃ k ∈ ["mass", "rad"], ∃ v, a.get? k = some v ∧ isNeg v = true

instance (a : Attrs) : Decidable (NegAttr a) := by unfold NegAttr; infer_instance

/-- some atom has a negative `mass` or `rad` -/
def NegMolecule (A : Dict Int Attrs) : Prop := ∃ p ∈ A.items, NegAttr p.2
/-- some bond joins an atom to itself -/
def SelfBonded (B : Dict (Int × Int) Attrs) : Prop := ∃ b ∈ B.keys, b.1 = b.2

instance (A : Dict Int Attrs) : Decidable (NegMolecule A) := by unfold NegMolecule; infer_instance
instance (B : Dict (Int × Int) Attrs) : Decidable (SelfBonded B) := by unfold SelfBonded; infer_instance

theorem negAttr_iff (a : Attrs) :
    NegAttr a ↔ (∃ v, a.get? "mass" = some v ∧ isNeg v = true) ∨ (∃ v, a.get? "rad" = some v ∧ isNeg v = true) := by
  simp [NegAttr]

/-- the inner loop of `_validate_atom_attributes` on one atom -/
theorem validate_inner (a : Attrs) :
    (forIn (pyIter ["mass", "rad"]) PUnit.unit (fun (key : String) (_ : PUnit) => (do
        let c ← (if pyContains key a = true then (do let x ← (getItem a key : M Val); pure (pyLt x (0 : Int))) else pure false : M Bool)
        if c = true then (do throw (Err.custom "MolfileParserException"); pure (ForInStep.yield PUnit.unit))
        else pure (ForInStep.yield PUnit.unit) : M (ForInStep PUnit))) : M PUnit) =
      if NegAttr a then parserError else .ok PUnit.unit := by
  have hstep : ∀ (k : String), (if pyContains k a = true then (do let x ← (getItem a k : M Val); pure (pyLt x (0 : Int))) else pure false : M Bool) =
      .ok (match a.get? k with | some v => isNeg v | none => false) := by
    intro k
    cases hg : a.get? k with
    | none => simp [pyContains_dict, Dict.contains, hg]
    | some v => simp [pyContains_dict, Dict.contains, getItem, GetItem.getItem, toKey, ToKey.toKey, hg, isNeg]
  simp only [pyIter_list, List.forIn_cons, List.forIn_nil, hstep, ok_bind, negAttr_iff]
  cases hm : a.get? "mass" with
  | none =>
    cases hr : a.get? "rad" with
    | none => simp
    | some w => by_cases hw : isNeg w = true <;> simp [hw, parserError]
  | some v =>
    by_cases hv : isNeg v = true
    · simp [hv, parserError]
    · cases hr : a.get? "rad" with
      | none => simp [hv]
      | some w => by_cases hw : isNeg w = true <;> simp [hv, hw, parserError]

/-- **contract of `_validate_atom_attributes`** (exact): rejects iff some atom has a negative mass or rad -/
theorem _validate_atom_attributes_eq (env : DepEnv) (A : Dict Int Attrs) :
    Tucan.molfile_reader._validate_atom_attributes env A = if NegMolecule A then parserError else .ok () := by
  unfold Tucan.molfile_reader._validate_atom_attributes
  simp only [validate_inner]
  by_cases h : NegMolecule A
  · rw [if_pos h]
    unfold NegMolecule at h
    generalize A.items = items at h
    induction items with
    | nil => simp at h
    | cons p r ih =>
      obtain ⟨k, a⟩ := p
      simp only [List.forIn_cons]
      by_cases hn : NegAttr a
      · simp [hn, parserError]
      · simp only [hn, if_false, ok_bind, pure_eq_ok]
        apply ih
        obtain ⟨q, hq, hqn⟩ := h
        rcases List.mem_cons.mp hq with rfl | hq
        · exact absurd hqn hn
        · exact ⟨q, hq, hqn⟩
  · rw [if_neg h]
    unfold NegMolecule at h
    generalize A.items = items at h
    induction items with
    | nil => rfl
    | cons p r ih =>
      obtain ⟨k, a⟩ := p
      have hn : ¬ NegAttr a := fun hn => h ⟨(k, a), by simp, hn⟩
      simp only [List.forIn_cons, hn, if_false, ok_bind, pure_eq_ok]
      exact ih (fun ⟨p, hp, hq⟩ => h ⟨p, by simp [hp], hq⟩)

/-- **contract of `_validate_bonds`** (exact): rejects iff some bond key has identical endpoints -/
theorem _validate_bonds_eq (env : DepEnv) (B : Dict (Int × Int) Attrs) :
    Tucan.molfile_reader._validate_bonds env B = if SelfBonded B then parserError else .ok () := by
  unfold Tucan.molfile_reader._validate_bonds
  by_cases h : SelfBonded B
  · rw [if_pos h]
    unfold SelfBonded at h
    generalize B.keys = ks at h
    induction ks with
    | nil => simp at h
    | cons b r ih =>
      obtain ⟨u, v⟩ := b
      simp only [List.forIn_cons]
      by_cases huv : u = v
      · simp [pyEq, PyCmp.eq, huv, parserError]
      · simp only [pyEq, PyCmp.eq, huv, decide_false, Bool.false_eq_true, if_false, pure_eq_ok, ok_bind]
        apply ih
        obtain ⟨q, hq, hqn⟩ := h
        rcases List.mem_cons.mp hq with rfl | hq
        · exact absurd hqn huv
        · exact ⟨q, hq, hqn⟩
  · rw [if_neg h]
    unfold SelfBonded at h
    generalize B.keys = ks at h
    induction ks with
    | nil => rfl
    | cons b r ih =>
      obtain ⟨u, v⟩ := b
      have huv : ¬ u = v := fun e => h ⟨(u, v), by simp, e⟩
      simp only [List.forIn_cons, pyEq, PyCmp.eq, huv, decide_false, Bool.false_eq_true, if_false, pure_eq_ok, ok_bind]
      exact ih (fun ⟨p, hp, hq⟩ => h ⟨p, by simp [hp], hq⟩)

/-- what the reader makes of the atom and bond dictionaries: rejected if some atom has a negative mass
or rad or some bond joins an atom to itself, otherwise the graph built by `graph_from_molecule` -/
def molGraph (env : DepEnv) (AB : Dict Int Attrs × Dict (Int × Int) Attrs) : M Graph :=
  if NegMolecule AB.1 ∨ SelfBonded AB.2 then parserError else do
    let gR ← Tucan.graph_utils.graph_from_molecule env AB.1 AB.2
    pure gR.1

theorem molGraph_ok (env : DepEnv) (AB : Dict Int Attrs × Dict (Int × Int) Attrs)
    (h1 : ¬ NegMolecule AB.1) (h2 : ¬ SelfBonded AB.2) :
    molGraph env AB = (do let gR ← Tucan.graph_utils.graph_from_molecule env AB.1 AB.2; pure gR.1) := by
  simp [molGraph, h1, h2]

theorem molGraph_reject (env : DepEnv) (AB : Dict Int Attrs × Dict (Int × Int) Attrs)
    (h : NegMolecule AB.1 ∨ SelfBonded AB.2) : molGraph env AB = parserError := by
  simp [molGraph, h]

/-- specification of the top-level reader: split into lines; the last word of line 3 (0-based) selects
the connection-table reader (no line 3 → `IndexError`, unknown version → `MolfileParserException`);
the atom and bond dictionaries are validated and turned into a graph (`molGraph`) -/
def readSpec (env : DepEnv) (fuel : Nat) (text : Str) : M Graph :=
  match (splitlines text)[3]? with
  | none => throw .index
  | some l3 => do
    let AB ← (if lastWord l3 = py!"V3000" then
        Tucan.molfile_v3000_reader.graph_attributes_from_molfile_v3000 env fuel (splitlines text)
      else if lastWord l3 = py!"V2000" then
        Tucan.molfile_v2000_reader.graph_attributes_from_molfile_v2000 env (splitlines text)
      else throw (Err.custom "MolfileParserException"))
    molGraph env AB

theorem getItem_3_eq {α} (l : List α) :
    (getItem l (3 : Int) : M α) = match l[3]? with | some a => .ok a | none => .error .index := by
  show listGet l 3 = _
  simp only [listGet, normIndex]
  cases h : l[3]? <;> simp [h]

/-- validation followed by construction is `molGraph` -/
theorem validate_then_build (env : DepEnv) (A : Dict Int Attrs) (B : Dict (Int × Int) Attrs) :
    (do let _ ← Tucan.molfile_reader._validate_atom_attributes env A
        let _ ← Tucan.molfile_reader._validate_bonds env B
        let gR ← Tucan.graph_utils.graph_from_molecule env A B
        pure gR.1 : M Graph) = molGraph env (A, B) := by
  rw [_validate_atom_attributes_eq, _validate_bonds_eq]
  unfold molGraph
  by_cases h1 : NegMolecule A <;> by_cases h2 : SelfBonded B <;> simp [h1, h2, parserError]

/-- **deliverable 1**: `graph_from_molfile_text` equals its specification, rejecting paths included -/
theorem graph_from_molfile_text_eq (env : DepEnv) (fuel : Nat) (text : Str) :
    Tucan.molfile_reader.graph_from_molfile_text env fuel text = readSpec env fuel text := by
  unfold Tucan.molfile_reader.graph_from_molfile_text readSpec
  simp only [getItem_3_eq]
  cases h3 : (splitlines text)[3]? with
  | none => rfl
  | some l3 =>
    simp only [ok_bind, version_word, pyEq, PyCmp.eq]
    by_cases h30 : lastWord l3 = py!"V3000"
    · simp only [h30, decide_true, if_true]
      rcases Tucan.molfile_v3000_reader.graph_attributes_from_molfile_v3000 env fuel (splitlines text) with e | ⟨A, B⟩
      · rfl
      · simp only [ok_bind]
        exact validate_then_build env A B
    · by_cases h20 : lastWord l3 = py!"V2000"
      · have hne : py!"V2000" ≠ py!"V3000" := by decide
        simp only [h20, hne, decide_false, decide_true, if_true, if_false, Bool.false_eq_true]
        rcases Tucan.molfile_v2000_reader.graph_attributes_from_molfile_v2000 env (splitlines text) with e | ⟨A, B⟩
        · rfl
        · simp only [ok_bind]
          exact validate_then_build env A B
      · simp only [h30, h20, decide_false, if_false, Bool.false_eq_true]
        rfl

/-! ## 2. line endings -/

/-- a line: no character that `str.splitlines` treats as a line boundary -/
def NoBreak (l : Str) : Prop := ∀ c ∈ l, isLineBreak c = false

theorem splitlinesAux_nil (cur : Str) : splitlinesAux [] cur = if cur = [] then [] else [cur.reverse] := by
  rw [splitlinesAux]

theorem splitlinesAux_crlf (cs cur : Str) :
    splitlinesAux ('\r' :: '\n' :: cs) cur = cur.reverse :: splitlinesAux cs [] := by
  rw [splitlinesAux]

theorem splitlinesAux_char (c : Char) (cs cur : Str) (hc : isLineBreak c = false) :
    splitlinesAux (c :: cs) cur = splitlinesAux cs (c :: cur) := by
  rw [splitlinesAux]
  · simp [hc]
  · rintro cs' rfl; exact absurd hc (by decide)

theorem splitlinesAux_lf (cs cur : Str) :
    splitlinesAux ('\n' :: cs) cur = cur.reverse :: splitlinesAux cs [] := by
  rw [splitlinesAux]
  · simp [isLineBreak]
  · rintro cs' h; cases h

theorem splitlinesAux_cr (cs cur : Str) (h : cs.head? ≠ some '\n') :
    splitlinesAux ('\r' :: cs) cur = cur.reverse :: splitlinesAux cs [] := by
  rw [splitlinesAux]
  · simp [isLineBreak]
  · rintro cs' - rfl; simp at h

theorem splitlinesAux_line (l : Str) (hl : NoBreak l) : ∀ (rest cur : Str),
    splitlinesAux (l ++ rest) cur = splitlinesAux rest (l.reverse ++ cur) := by
  induction l with
  | nil => intro rest cur; rfl
  | cons c l ih =>
    intro rest cur
    rw [List.cons_append, splitlinesAux_char c _ _ (hl c (by simp)), ih (fun d hd => hl d (by simp [hd]))]
    simp

theorem join_single (sep l : Str) : join sep [l] = l := by simp [join, List.intercalate]

theorem join_cons_cons (sep l l' : Str) (r : List Str) :
    join sep (l :: l' :: r) = l ++ (sep ++ join sep (l' :: r)) := by
  simp [join, List.intercalate]

/-- what `splitlines` makes of lines joined by a separator: a final empty line is lost (as in Python:
`"a\n".splitlines() == ["a"]`) -/
def dropFinalEmpty (ls : List Str) : List Str := if ls.getLast? = some [] then ls.dropLast else ls

theorem dropFinalEmpty_of_ne (ls : List Str) (h : ls.getLast? ≠ some []) : dropFinalEmpty ls = ls := by
  simp [dropFinalEmpty, h]

theorem dropFinalEmpty_cons_cons (l l' : Str) (r : List Str) :
    dropFinalEmpty (l :: l' :: r) = l :: dropFinalEmpty (l' :: r) := by
  simp only [dropFinalEmpty, List.getLast?_cons_cons, List.dropLast_cons_cons]
  split_ifs <;> rfl

/-- a line separator: behaves like one in front of anything that follows it in a joined text -/
structure IsSep (sep : Str) : Prop where
  split : ∀ rest cur, (sep = ['\n'] ∨ rest.head? ≠ some '\n') →
    splitlinesAux (sep ++ rest) cur = cur.reverse :: splitlinesAux rest []
  head : sep = ['\n'] ∨ ∃ c r, sep = c :: r ∧ c ≠ '\n'

theorem isSep_lf : IsSep py!"\n" := ⟨fun rest cur _ => splitlinesAux_lf rest cur, Or.inl rfl⟩
theorem isSep_crlf : IsSep py!"\r\n" :=
  ⟨fun rest cur _ => splitlinesAux_crlf rest cur, Or.inr ⟨'\r', ['\n'], rfl, by decide⟩⟩
theorem isSep_cr : IsSep py!"\r" :=
  ⟨fun rest cur h => splitlinesAux_cr rest cur (h.resolve_left (by decide)), Or.inr ⟨'\r', [], rfl, by decide⟩⟩

theorem head_join (sep : Str) (hs : IsSep sep) : ∀ ls : List Str, (∀ l ∈ ls, NoBreak l) →
    sep = ['\n'] ∨ (join sep ls).head? ≠ some '\n' := by
  intro ls hls
  rcases hs.head with h | ⟨c, r, rfl, hc⟩
  · exact Or.inl h
  refine Or.inr ?_
  have hline : ∀ l : Str, NoBreak l → ∀ rest : Str, rest.head? ≠ some '\n' → (l ++ rest).head? ≠ some '\n' := by
    intro l hl rest hr
    cases l with
    | nil => simpa using hr
    | cons d l =>
      simp only [List.cons_append, List.head?_cons, ne_eq, Option.some.injEq]
      rintro rfl; exact absurd (hl '\n' (by simp)) (by decide)
  match ls, hls with
  | [], _ => simp [join]
  | [l], hls => rw [join_single]; simpa using hline l (hls l (by simp)) [] (by simp)
  | l :: l' :: r', hls =>
    rw [join_cons_cons]
    exact hline l (hls l (by simp)) _ (by simpa using hc)

theorem splitlinesAux_join (sep : Str) (hs : IsSep sep) : ∀ ls : List Str, ls ≠ [] → (∀ l ∈ ls, NoBreak l) →
    splitlinesAux (join sep ls) [] = dropFinalEmpty ls := by
  intro ls
  induction ls with
  | nil => intro h; exact absurd rfl h
  | cons l r ih =>
    intro _ hls
    cases r with
    | nil =>
      rw [join_single]
      have := splitlinesAux_line l (hls l (by simp)) [] []
      rw [List.append_nil] at this
      rw [this, splitlinesAux_nil]
      by_cases hl : l = [] <;> simp [dropFinalEmpty, hl]
    | cons l' r =>
      have hr : ∀ x ∈ l' :: r, NoBreak x := fun x hx => hls x (by simp [List.mem_cons.mp hx])
      rw [join_cons_cons, splitlinesAux_line l (hls l (by simp)), hs.split _ _ (head_join sep hs _ hr),
        ih (by simp) hr, dropFinalEmpty_cons_cons]
      simp

/-- **deliverable 2** (general form): `splitlines` undoes joining lines with LF, CRLF or CR, except that a
final empty line is lost -/
theorem splitlines_join (sep : Str) (hs : IsSep sep) (ls : List Str) (hls : ∀ l ∈ ls, NoBreak l) :
    splitlines (join sep ls) = dropFinalEmpty ls := by
  cases ls with
  | nil => simp [splitlines, join, dropFinalEmpty, splitlinesAux_nil]
  | cons l r => exact splitlinesAux_join sep hs _ (by simp) hls

/-- **deliverable 2** (C06, line-ending style): for lines without line-break characters whose last line is
not empty, CRLF-, LF- and CR-terminated texts split into the same lines, namely the given ones -/
theorem splitlines_crlf (ls : List Str) (hls : ∀ l ∈ ls, NoBreak l) (hlast : ls.getLast? ≠ some []) :
    splitlines (join py!"\r\n" ls) = ls ∧ splitlines (join py!"\n" ls) = ls ∧ splitlines (join py!"\r" ls) = ls := by
  rw [splitlines_join _ isSep_crlf ls hls, splitlines_join _ isSep_lf ls hls, splitlines_join _ isSep_cr ls hls,
    dropFinalEmpty_of_ne ls hlast]
  exact ⟨rfl, rfl, rfl⟩

/-- a terminator after the last line makes no difference (files normally end with a line break) -/
theorem splitlines_join_terminated (sep : Str) (hs : IsSep sep) (ls : List Str) (hls : ∀ l ∈ ls, NoBreak l) :
    splitlines (join sep (ls ++ [[]])) = ls := by
  rw [splitlines_join sep hs _ (by
    intro l hl; rcases List.mem_append.mp hl with h | h
    · exact hls l h
    · simp at h; subst h; intro c hc; cases hc)]
  simp [dropFinalEmpty]

/-! ## 3. spelling of V30 lines: blank runs, trailing blanks, continuation dashes -/

def blanks (n : Nat) : Str := List.replicate n ' '

/-- the tokens `ts`, token `i` preceded by a run of `gs[i] + 1` blanks (one blank where `gs` is exhausted) -/
def gapped : List Str → List Nat → Str
  | [], _ => []
  | t :: ts, gs => blanks (gs.headD 0 + 1) ++ (t ++ gapped ts gs.tail)

/-- the spelling choices for one logical V30 line: lengths of the blank runs (beyond the mandatory one
blank) before each token, number of trailing blanks, and the lengths of the pieces into which the line
is cut for continuation (every piece but the last gets a trailing `-`, every piece the prefix `M  V30 `) -/
structure Spell where
  gaps : List Nat := []
  trail : Nat := 0
  cuts : List Nat := []

/-- the text of a logical V30 line after the prefix `M  V30 ` -/
def body (s : Spell) (ts : List Str) : Str := (gapped ts s.gaps).drop 1 ++ blanks s.trail

/-- the logical V30 line with tokens `M V30 ts` -/
def lineText (s : Spell) (ts : List Str) : Str := v30 ++ body s ts

/-- cut a text into pieces of the given lengths (the last piece takes the rest; lengths beyond the end
of the text give empty pieces, which the format also permits) -/
def cut : List Nat → Str → List Str
  | [], s => [s]
  | n :: ns, s => s.take n :: cut ns (s.drop n)

theorem cut_ne_nil (ns : List Nat) (s : Str) : cut ns s ≠ [] := by cases ns <;> simp [cut]

theorem cut_flatten (ns : List Nat) : ∀ s : Str, (cut ns s).flatten = s := by
  induction ns with
  | nil => intro s; simp [cut]
  | cons n ns ih => intro s; simp [cut, ih]

/-- every way of cutting a text into pieces is a `cut` -/
theorem cut_surjective (pieces : List Str) (hne : pieces ≠ []) :
    cut (pieces.dropLast.map List.length) pieces.flatten = pieces := by
  induction pieces with
  | nil => exact absurd rfl hne
  | cons p r ih =>
    cases r with
    | nil => simp [cut]
    | cons q r =>
      have := ih (by simp)
      simp only [List.dropLast_cons_cons, List.map_cons, cut, List.flatten_cons, List.take_left',
        List.drop_left', List.cons.injEq, true_and]
      simpa using this

/-- the physical lines of one logical V30 line -/
def renderLine (s : Spell) (ts : List Str) : List Str := phys (cut s.cuts (body s ts))

/-- a line the reader takes for the first part of a continued line -/
def Cont (l : Str) : Prop := startswith l v30 = true ∧ endswith l ['-'] = true

theorem splice_notCont (l : Str) (rest : List Str) (h : ¬ Cont l) :
    splice (l :: rest) = (do let t ← splice rest; pure (l :: t)) := by
  cases rest with
  | nil => simp [splice]
  | cons l₂ r =>
    rw [splice]
    have : (startswith l v30 && endswith l ['-']) = false := by
      rw [Bool.eq_false_iff]; intro hc; exact h (by simpa [Cont] using hc)
    simp [this]

theorem splice_all_notCont (ls : List Str) (h : ∀ l ∈ ls, ¬ Cont l) : splice ls = .ok ls := by
  induction ls with
  | nil => simp [splice]
  | cons l r ih => rw [splice_notCont l r (h l (by simp)), ih (fun x hx => h x (by simp [hx]))]; rfl

/-- the reader splices the physical lines of a logical line back together, whatever the cut points,
provided the logical line does not end in `-` (which the format forbids, since a final `-` means
"continued") -/
theorem splice_renderLine (s : Spell) (ts : List Str) (rest : List Str)
    (hdash : (body s ts).getLast? ≠ some '-') :
    splice (renderLine s ts ++ rest) = (do let t ← splice rest; pure (lineText s ts :: t)) := by
  unfold renderLine lineText
  have := splice_phys (cut s.cuts (body s ts)) rest (cut_ne_nil _ _) (by rw [cut_flatten]; exact hdash)
  rw [cut_flatten] at this
  exact this

/-! ### tokens of a spelled line -/

theorem rstrip_blanks (x : Str) (n : Nat) : rstrip (x ++ blanks n) = rstrip x := by
  unfold rstrip blanks
  congr 1
  rw [List.reverse_append, List.reverse_replicate]
  induction n with
  | zero => rfl
  | succ n ih => rw [List.replicate_succ, List.cons_append, List.dropWhile_cons]; simp [isPySpace, ih]

theorem rstrip_of_getLast (x : Str) (h : ∀ c, x.getLast? = some c → isPySpace c = false) : rstrip x = x := by
  unfold rstrip
  rcases List.eq_nil_or_concat x with rfl | ⟨y, c, rfl⟩
  · rfl
  · have hc := h c (by simp)
    simp [hc]

theorem getLast_gapped (ts : List Str) (hts : ∀ t ∈ ts, Clean t) : ∀ (p : Str) (gs : List Nat),
    (∀ c, p.getLast? = some c → isPySpace c = false) →
    ∀ c, (p ++ gapped ts gs).getLast? = some c → isPySpace c = false := by
  induction ts with
  | nil => intro p gs hp c hc; exact hp c (by simpa [gapped] using hc)
  | cons t ts ih =>
    intro p gs hp c hc
    have ht := hts t (by simp)
    have : p ++ gapped (t :: ts) gs = (p ++ blanks (gs.headD 0 + 1) ++ t) ++ gapped ts gs.tail := by
      simp [gapped]
    rw [this] at hc
    refine ih (fun u hu => hts u (by simp [hu])) _ _ ?_ c hc
    intro d hd
    rw [List.getLast?_append_of_ne_nil _ ht.1] at hd
    exact ht.2 d (List.mem_of_getLast? hd)

theorem sp_blanks (n : Nat) (r : Str) : (sp (blanks n ++ r) []).filter (· ≠ []) = (sp r []).filter (· ≠ []) := by
  induction n with
  | zero => rfl
  | succ n ih => simpa [blanks, List.replicate_succ, sp] using ih

theorem sp_word (t : Str) (ht : ' ' ∉ t) : ∀ (r cur : Str), sp (t ++ r) cur = sp r (t.reverse ++ cur) := by
  induction t with
  | nil => intro r cur; rfl
  | cons c t ih =>
    intro r cur
    have hc : c ≠ ' ' := fun e => ht (by simp [e])
    simp [sp, hc, ih (fun h => ht (by simp [h]))]

theorem clean_no_blank {t : Str} (h : Clean t) : ' ' ∉ t := fun hc => by
  have := h.2 ' ' hc; revert this; decide

theorem sp_gapped (ts : List Str) (hts : ∀ t ∈ ts, Clean t) : ∀ (gs : List Nat) (cur : Str), cur ≠ [] →
    (sp (gapped ts gs) cur).filter (· ≠ []) = cur.reverse :: ts := by
  induction ts with
  | nil => intro gs cur hcur; simp [gapped, sp, hcur]
  | cons t ts ih =>
    intro gs cur hcur
    have ht := hts t (by simp)
    have e1 : gapped (t :: ts) gs = ' ' :: (blanks (gs.headD 0) ++ (t ++ gapped ts gs.tail)) := by
      simp [gapped, blanks, List.replicate_succ]
    rw [e1]
    simp only [sp, if_true]
    rw [List.filter_cons_of_pos (by simpa using hcur), sp_blanks, sp_word t (clean_no_blank ht),
      ih (fun u hu => hts u (by simp [hu])) _ _ (by simpa using ht.1)]
    simp

/-- **tokens of a spelled line** (`tokens_join_blanks`): whatever the blank runs and trailing blanks, the
reader's tokenizer returns `M`, `V30` and the tokens -/
theorem tokens_lineText (s : Spell) (ts : List Str) (hts : ∀ t ∈ ts, Clean t) :
    tokens (lineText s ts) = py!"M" :: py!"V30" :: ts := by
  have hV : Clean py!"V30" := by refine ⟨by simp, ?_⟩; decide
  have key : ∀ (us : List Str) (gs : List Nat) (n : Nat), (∀ t ∈ us, Clean t) →
      tokens ('M' :: (gapped us gs ++ blanks n)) = py!"M" :: us := by
    intro us gs n hus
    unfold tokens
    rw [show 'M' :: (gapped us gs ++ blanks n) = (['M'] ++ gapped us gs) ++ blanks n by simp, rstrip_blanks,
      rstrip_of_getLast _ (getLast_gapped us hus ['M'] gs (by simp; decide)), split_blank]
    simp only [List.singleton_append, sp, Char.reduceEq, if_false]
    rw [sp_gapped us hus gs ['M'] (by simp)]
    rfl
  have hline : ∃ n, lineText s ts = 'M' :: (gapped (py!"V30" :: ts) (1 :: s.gaps) ++ blanks n) := by
    unfold lineText body
    cases ts with
    | nil => exact ⟨s.trail + 1, by simp [gapped, v30, blanks, List.replicate_succ]⟩
    | cons t ts => exact ⟨s.trail, by simp [gapped, v30, blanks, List.replicate_succ]⟩
  obtain ⟨n, hn⟩ := hline
  rw [hn, key _ _ _ (by intro t ht; rcases List.mem_cons.mp ht with rfl | h; exacts [hV, hts t h])]

/-! ### several logical lines -/

/-- physical lines of the logical lines `L` (token lists after `M V30`), line `i` spelled as `sp i` says -/
def renderLines (sp : Nat → Spell) : List (List Str) → List Str
  | [] => []
  | ts :: r => renderLine (sp 0) ts ++ renderLines (fun i => sp (i + 1)) r

/-- no logical line ends in `-` -/
def NoDash (sp : Nat → Spell) (L : List (List Str)) : Prop :=
  ∀ i ts, L[i]? = some ts → (body (sp i) ts).getLast? ≠ some '-'

theorem NoDash.tail {sp : Nat → Spell} {ts : List Str} {r : List (List Str)} (h : NoDash sp (ts :: r)) :
    NoDash (fun i => sp (i + 1)) r := fun i us hi => h (i + 1) us (by simpa using hi)

/-! ### discharging `NoDash`: a logical line ends in `-` only if it has no trailing blanks and its last
token ends in `-` -/

theorem gapped_ne_nil (t : Str) (ts : List Str) (gs : List Nat) : gapped (t :: ts) gs ≠ [] := by
  simp [gapped, blanks, List.replicate_succ]

theorem getLast?_gapped (ts : List Str) (hts : ∀ t ∈ ts, t ≠ []) : ∀ gs : List Nat, ts ≠ [] →
    (gapped ts gs).getLast? = ts.getLast?.bind List.getLast? := by
  induction ts with
  | nil => intro gs h; exact absurd rfl h
  | cons t r ih =>
    intro gs _
    cases r with
    | nil =>
      simp only [gapped, List.append_nil, List.getLast?_singleton, Option.bind_some]
      rw [List.getLast?_append_of_ne_nil _ (hts t (by simp))]
    | cons t' r =>
      have hne := gapped_ne_nil t' r gs.tail
      rw [gapped, List.getLast?_append_of_ne_nil _ (by simp [hne]), List.getLast?_append_of_ne_nil _ hne,
        ih (fun u hu => hts u (by simp [hu])) _ (by simp), List.getLast?_cons_cons]

theorem noDash_of_trail (s : Spell) (ts : List Str) (h : 0 < s.trail) : (body s ts).getLast? ≠ some '-' := by
  obtain ⟨n, hn⟩ : ∃ n, s.trail = n + 1 := ⟨s.trail - 1, by omega⟩
  have : blanks s.trail = blanks n ++ [' '] := by
    rw [hn]; simp [blanks, List.replicate_succ']
  rw [body, this, ← List.append_assoc, List.getLast?_concat]
  simp

theorem noDash_of_lastToken (s : Spell) (ts : List Str) (hts : ∀ t ∈ ts, t ≠ [])
    (h : ∀ t, ts.getLast? = some t → t.getLast? ≠ some '-') : (body s ts).getLast? ≠ some '-' := by
  by_cases htr : 0 < s.trail
  · exact noDash_of_trail s ts htr
  · have h0 : s.trail = 0 := by omega
    cases ts with
    | nil => simp [body, gapped, blanks, h0]
    | cons t r =>
      have hlen : 1 < (gapped (t :: r) s.gaps).length := by
        have := List.length_pos_iff.mpr (hts t (by simp))
        simp only [gapped, blanks, List.length_append, List.length_replicate]; omega
      rw [body, h0]
      simp only [blanks, List.replicate_zero, List.append_nil]
      rw [List.getLast?_drop, if_neg (by omega), getLast?_gapped _ hts _ (by simp)]
      cases hl : (t :: r).getLast? with
      | none => simp
      | some u => simpa using h u hl

/-- all physical lines are spliced back; the tokenizer then sees `M V30 ts` for every logical line -/
theorem splice_renderLines (L : List (List Str)) : ∀ (sp : Nat → Spell) (rest : List Str),
    NoDash sp L → (∀ ts ∈ L, ∀ t ∈ ts, Clean t) →
    ∃ texts : List Str, texts.map tokens = L.map (fun ts => py!"M" :: py!"V30" :: ts) ∧
      splice (renderLines sp L ++ rest) = (do let t ← splice rest; pure (texts ++ t)) := by
  induction L with
  | nil =>
    intro sp rest _ _
    refine ⟨[], rfl, ?_⟩
    show splice rest = _
    cases splice rest <;> rfl
  | cons ts r ih =>
    intro sp rest hd hc
    obtain ⟨texts, ht, hs⟩ := ih (fun i => sp (i + 1)) rest hd.tail (fun us hus => hc us (by simp [hus]))
    refine ⟨lineText (sp 0) ts :: texts, ?_, ?_⟩
    · simp [ht, tokens_lineText (sp 0) ts (hc ts (by simp))]
    · rw [renderLines, List.append_assoc, splice_renderLine _ _ _ (hd 0 ts rfl), hs]
      cases splice rest <;> rfl

/-! ### characters of the physical lines -/

theorem mem_gapped (c : Char) : ∀ (ts : List Str) (gs : List Nat), c ∈ gapped ts gs → c = ' ' ∨ ∃ t ∈ ts, c ∈ t := by
  intro ts
  induction ts with
  | nil => intro gs h; simp [gapped] at h
  | cons t ts ih =>
    intro gs h
    simp only [gapped, List.mem_append] at h
    rcases h with h | h | h
    · exact Or.inl (List.eq_of_mem_replicate h)
    · exact Or.inr ⟨t, by simp, h⟩
    · rcases ih _ h with h | ⟨u, hu, hc⟩
      · exact Or.inl h
      · exact Or.inr ⟨u, by simp [hu], hc⟩

theorem mem_body (c : Char) (s : Spell) (ts : List Str) (h : c ∈ body s ts) : c = ' ' ∨ ∃ t ∈ ts, c ∈ t := by
  simp only [body, List.mem_append] at h
  rcases h with h | h
  · exact mem_gapped c ts _ (List.mem_of_mem_drop h)
  · exact Or.inl (List.eq_of_mem_replicate h)

theorem mem_cut (c : Char) : ∀ (ns : List Nat) (s p : Str), p ∈ cut ns s → c ∈ p → c ∈ s := by
  intro ns
  induction ns with
  | nil => intro s p hp hc; simp [cut] at hp; subst hp; exact hc
  | cons n ns ih =>
    intro s p hp hc
    simp only [cut, List.mem_cons] at hp
    rcases hp with rfl | hp
    · exact List.mem_of_mem_take hc
    · exact List.mem_of_mem_drop (ih _ _ hp hc)

theorem mem_phys (c : Char) : ∀ (pieces : List Str) (l : Str), l ∈ phys pieces → c ∈ l →
    c ∈ v30 ∨ c = '-' ∨ ∃ p ∈ pieces, c ∈ p := by
  intro pieces
  induction pieces with
  | nil => intro l hl; simp [phys] at hl
  | cons p r ih =>
    intro l hl hc
    cases r with
    | nil =>
      simp only [phys, List.mem_singleton] at hl; subst hl
      rcases List.mem_append.mp hc with h | h
      · exact Or.inl h
      · exact Or.inr (Or.inr ⟨p, by simp, h⟩)
    | cons q r =>
      simp only [phys, List.mem_cons] at hl
      rcases hl with rfl | hl
      · simp only [List.mem_append, List.mem_singleton] at hc
        rcases hc with (h | h) | h
        · exact Or.inl h
        · exact Or.inr (Or.inr ⟨p, by simp, h⟩)
        · exact Or.inr (Or.inl h)
      · rcases ih l (by simpa [phys] using hl) hc with h | h | ⟨u, hu, h⟩
        · exact Or.inl h
        · exact Or.inr (Or.inl h)
        · exact Or.inr (Or.inr ⟨u, by simp [List.mem_cons.mp hu], h⟩)

/-- physical lines contain no line-break characters if the tokens contain none -/
theorem noBreak_renderLines (L : List (List Str)) (hL : ∀ ts ∈ L, ∀ t ∈ ts, NoBreak t) :
    ∀ (sp : Nat → Spell), ∀ l ∈ renderLines sp L, NoBreak l := by
  induction L with
  | nil => intro sp l hl; simp [renderLines] at hl
  | cons ts r ih =>
    intro sp l hl
    simp only [renderLines, List.mem_append] at hl
    rcases hl with hl | hl
    · intro c hc
      rcases mem_phys c _ l hl hc with h | h | ⟨p, hp, h⟩
      · revert h; simp only [v30, List.mem_cons, List.not_mem_nil, or_false]
        rintro (rfl | rfl | rfl | rfl | rfl | rfl | rfl) <;> decide
      · subst h; decide
      · rcases mem_body c _ _ (mem_cut c _ _ _ hp h) with h | ⟨t, ht, h⟩
        · subst h; decide
        · exact hL ts (by simp) t ht c h
    · exact ih (fun us hus => hL us (by simp [hus])) _ l hl

/-! ## 3. V3000 files -/

/-- abstract connection table: the atom lines and the bond lines -/
structure Ctab where
  atoms : List AtomLine
  bonds : List BondLine

/-- the tokens of an atom line after `M V30` -/
def atomFields (a : AtomLine) : List Str :=
  [a.idx, a.sym, a.x, a.y, a.z, a.aamap] ++ a.props.flatMap Contracts.V3000.Prop'.tokens
/-- the tokens of a bond line after `M V30` -/
def bondFields (b : BondLine) : List Str := b.tokens.drop 2

theorem atom_tokens (a : AtomLine) : a.tokens = py!"M" :: py!"V30" :: atomFields a := rfl
theorem bond_tokens (b : BondLine) : b.tokens = py!"M" :: py!"V30" :: bondFields b := rfl

/-- everything in a V3000 molfile that is not the connection table's content: the three header lines
(name, program/timestamp, comment) and the version line; the count tokens and the rest of the counts
line; further V30 lines after the bond block (an empty bond block, Sgroup / collection / 3D blocks,
`END CTAB`); the lines after the connection table (`M  END`, …); and the spelling of every V30 line -/
structure Dress where
  h0 : Str
  h1 : Str
  h2 : Str
  h3 : Str
  cntA : Str
  cntB : Str
  cntRest : List Str
  extra : List (List Str)
  tail : List Str
  spell : Nat → Spell

/-- the bond block is optional when there are no bonds (an empty one can be put into `Dress.extra`) -/
def bondBlock (bonds : List BondLine) : List (List Str) :=
  if bonds = [] then [] else [py!"BEGIN", py!"BOND"] :: (bonds.map bondFields ++ [[py!"END", py!"BOND"]])

/-- the logical V30 lines of the file (tokens after `M V30`) -/
def logical (C : Ctab) (D : Dress) : List (List Str) :=
  [py!"BEGIN", py!"CTAB"] :: (py!"COUNTS" :: D.cntA :: D.cntB :: D.cntRest) :: [py!"BEGIN", py!"ATOM"] ::
    (C.atoms.map atomFields ++ ([py!"END", py!"ATOM"] :: (bondBlock C.bonds ++ D.extra)))

/-- **the renderer**: the physical lines of the file -/
def fileLines (C : Ctab) (D : Dress) : List Str :=
  [D.h0, D.h1, D.h2, D.h3] ++ (renderLines D.spell (logical C D) ++ D.tail)

/-- side conditions of the renderer (all of them format rules). The header lines 0–2 are subject to no
condition at all: since the repair of `_tokenize_lines` the four header lines are never spliced. -/
structure Dress.OK (D : Dress) (C : Ctab) : Prop where
  /-- the version line ends with the word `V3000` -/
  ver : lastWord D.h3 = py!"V3000"
  /-- nor does a line after the connection table -/
  tail : ∀ l ∈ D.tail, ¬ Cont l
  /-- tokens are non-empty and free of whitespace -/
  clean : ∀ ts ∈ logical C D, ∀ t ∈ ts, Clean t
  /-- no logical line ends in `-` -/
  nodash : NoDash D.spell (logical C D)
  /-- the counts line states the number of atom lines and bond lines -/
  cntA : parseInt D.cntA = .ok (C.atoms.length : Int)
  cntB : parseInt D.cntB = .ok (C.bonds.length : Int)

theorem getElem?_at {α} (P : List α) (x : α) (Q : List α) (n : Nat) (h : P.length = n) :
    (P ++ x :: Q)[n]? = some x := by
  subst h; simp

theorem drop_take_at {α} (P A Q : List α) (n m : Nat) (hP : P.length = n) (hA : A.length = m) :
    ((P ++ (A ++ Q)).drop n).take m = A := by
  subst hP hA; simp

/-- the tokenized lines of a rendered file contain the connection table where the reader looks for it -/
theorem ctabAt_tokenized (C : Ctab) (D : Dress) (hcA : parseInt D.cntA = .ok (C.atoms.length : Int))
    (hcB : parseInt D.cntB = .ok (C.bonds.length : Int)) (H T : List (List Str)) (hH : H.length = 4) :
    CtabAt (H ++ ((logical C D).map (fun ts => py!"M" :: py!"V30" :: ts) ++ T)) C.atoms C.bonds := by
  obtain ⟨a, b, c, d, rfl⟩ : ∃ a b c d, H = [a, b, c, d] := by
    match H, hH with
    | [a, b, c, d], _ => exact ⟨a, b, c, d, rfl⟩
  set TL := [a, b, c, d] ++ ((logical C D).map (fun ts => py!"M" :: py!"V30" :: ts) ++ T) with hTL
  have hatoms : (C.atoms.map atomFields).map (fun ts => py!"M" :: py!"V30" :: ts) = C.atoms.map AtomLine.tokens := by
    simp [List.map_map, Function.comp_def, atom_tokens]
  have hbonds : (C.bonds.map bondFields).map (fun ts => py!"M" :: py!"V30" :: ts) = C.bonds.map BondLine.tokens := by
    simp [List.map_map, Function.comp_def, bond_tokens]
  -- shape up to the end of the atom block
  obtain ⟨Q, hQ, hQb⟩ : ∃ Q, TL = [a, b, c, d, [py!"M", py!"V30", py!"BEGIN", py!"CTAB"],
        py!"M" :: py!"V30" :: py!"COUNTS" :: D.cntA :: D.cntB :: D.cntRest,
        [py!"M", py!"V30", py!"BEGIN", py!"ATOM"]] ++
        (C.atoms.map AtomLine.tokens ++ ([py!"M", py!"V30", py!"END", py!"ATOM"] :: Q)) ∧
      Q = (bondBlock C.bonds).map (fun ts => py!"M" :: py!"V30" :: ts) ++
        (D.extra.map (fun ts => py!"M" :: py!"V30" :: ts) ++ T) := by
    refine ⟨_, ?_, rfl⟩
    simp [hTL, logical, ← hatoms]
  have h5 : TL[5]? = some (py!"M" :: py!"V30" :: py!"COUNTS" :: D.cntA :: D.cntB :: D.cntRest) := by
    rw [hQ]; rfl
  have h6 : TL[6]? = some [py!"M", py!"V30", py!"BEGIN", py!"ATOM"] := by rw [hQ]; rfl
  have hEA : TL[7 + C.atoms.length]? = some [py!"M", py!"V30", py!"END", py!"ATOM"] := by
    rw [hQ, ← List.append_assoc]; exact getElem?_at _ _ _ _ (by simp; omega)
  have hAt : (TL.drop 7).take C.atoms.length = C.atoms.map AtomLine.tokens := by
    rw [hQ]; exact drop_take_at _ _ _ _ _ rfl (by simp)
  refine ⟨⟨_, D.cntA, D.cntB, h5, rfl, rfl, rfl, hcA, hcB⟩, ⟨⟨_, D.cntA, h5, rfl, hcA⟩, ⟨_, h6, rfl⟩, ⟨_, hEA, rfl⟩, hAt⟩, ?_⟩
  intro hne
  -- the bond block
  obtain ⟨Q', hQ'⟩ : ∃ Q', Q = [py!"M", py!"V30", py!"BEGIN", py!"BOND"] ::
      (C.bonds.map BondLine.tokens ++ ([py!"M", py!"V30", py!"END", py!"BOND"] :: Q')) := by
    refine ⟨D.extra.map (fun ts => py!"M" :: py!"V30" :: ts) ++ T, ?_⟩
    rw [hQb]; simp [bondBlock, hne, ← hbonds]
  set P7 := [a, b, c, d, [py!"M", py!"V30", py!"BEGIN", py!"CTAB"],
        py!"M" :: py!"V30" :: py!"COUNTS" :: D.cntA :: D.cntB :: D.cntRest,
        [py!"M", py!"V30", py!"BEGIN", py!"ATOM"]] with hP7
  have hP : (P7 ++ C.atoms.map AtomLine.tokens ++ [[py!"M", py!"V30", py!"END", py!"ATOM"]]).length = 7 + C.atoms.length + 1 := by
    simp [hP7]; omega
  have hTL2 : TL = (P7 ++ C.atoms.map AtomLine.tokens ++ [[py!"M", py!"V30", py!"END", py!"ATOM"]]) ++
      ([py!"M", py!"V30", py!"BEGIN", py!"BOND"] ::
        (C.bonds.map BondLine.tokens ++ ([py!"M", py!"V30", py!"END", py!"BOND"] :: Q'))) := by
    rw [hQ, hQ']; simp
  refine ⟨⟨_, D.cntA, D.cntB, h5, rfl, rfl, hcA, hcB⟩, ⟨[py!"M", py!"V30", py!"BEGIN", py!"BOND"], ?_, rfl⟩,
    ⟨[py!"M", py!"V30", py!"END", py!"BOND"], ?_, rfl⟩, ?_⟩
  · rw [hTL2]; exact getElem?_at _ _ _ _ hP
  · have : TL = ((P7 ++ C.atoms.map AtomLine.tokens ++ [[py!"M", py!"V30", py!"END", py!"ATOM"]]) ++
        [[py!"M", py!"V30", py!"BEGIN", py!"BOND"]] ++ C.bonds.map BondLine.tokens) ++
        ([py!"M", py!"V30", py!"END", py!"BOND"] :: Q') := by rw [hTL2]; simp
    rw [this]; exact getElem?_at _ _ _ _ (by simp [hP7]; omega)
  · have : TL = ((P7 ++ C.atoms.map AtomLine.tokens ++ [[py!"M", py!"V30", py!"END", py!"ATOM"]]) ++
        [[py!"M", py!"V30", py!"BEGIN", py!"BOND"]]) ++ (C.bonds.map BondLine.tokens ++
        ([py!"M", py!"V30", py!"END", py!"BOND"] :: Q')) := by rw [hTL2]; simp
    rw [this]; exact drop_take_at _ _ _ _ _ (by simp [hP7]; omega) (by simp)

/-- the tokenizer on a rendered file: header and trailing lines are tokenized as they are, every logical
V30 line yields `M V30` and its tokens — for every spelling -/
theorem tokenize_fileLines (env : DepEnv) (fuel : Nat) (C : Ctab) (D : Dress) (hok : D.OK C)
    (hfuel : ((fileLines C D).drop 4).length + 1 ≤ fuel) :
    Tucan.molfile_v3000_reader._tokenize_lines env fuel (fileLines C D) =
      .ok ([D.h0, D.h1, D.h2, D.h3].map tokens ++
        ((logical C D).map (fun ts => py!"M" :: py!"V30" :: ts) ++ D.tail.map tokens)) := by
  have hdrop : (fileLines C D).drop 4 = renderLines D.spell (logical C D) ++ D.tail := rfl
  have htake : (fileLines C D).take 4 = [D.h0, D.h1, D.h2, D.h3] := rfl
  rw [tokenize_lines_ok env fuel _ hfuel, hdrop, htake]
  obtain ⟨texts, ht, hs⟩ := splice_renderLines (logical C D) D.spell D.tail hok.nodash hok.clean
  rw [hs, splice_all_notCont _ hok.tail]
  simp [ht]

/-- **deliverable 3, connection-table level (C07)**: on the physical lines of any rendering of the
connection table — whatever the header lines, the lengths of the blank runs, the trailing blanks, the
continuation cut points, the further V30 lines after the bond block and the trailing lines — the V3000
reader returns the meaning of the connection table (or rejects exactly as the meaning does) -/
theorem graph_attributes_fileLines (env : DepEnv) (fuel : Nat) (C : Ctab) (D : Dress) (hok : D.OK C)
    (hA : ∀ a ∈ C.atoms, a.Shape) (hB : ∀ b ∈ C.bonds, b.Shape)
    (hfuel : ((fileLines C D).drop 4).length + 1 ≤ fuel) :
    Tucan.molfile_v3000_reader.graph_attributes_from_molfile_v3000 env fuel (fileLines C D) =
      ctabMeaning env C.atoms C.bonds :=
  Contracts.V3000.graph_attributes_from_molfile_v3000_eq env fuel _ _ (tokenize_fileLines env fuel C D hok hfuel)
    C.atoms C.bonds (ctabAt_tokenized C D hok.cntA hok.cntB _ _ (by simp)) hA hB

/-- the value of the whole reader on a V3000 connection table -/
def fileMeaning (env : DepEnv) (C : Ctab) : M Graph := do
  let AB ← ctabMeaning env C.atoms C.bonds
  molGraph env AB

/-- **deliverable 3, text level**: any text whose lines are a rendering of the connection table, with
`V3000` as the last word of the version line, is read as the meaning of the connection table -/
theorem graph_from_molfile_text_v3000 (env : DepEnv) (fuel : Nat) (text : Str) (C : Ctab) (D : Dress)
    (hlines : splitlines text = fileLines C D) (hok : D.OK C)
    (hA : ∀ a ∈ C.atoms, a.Shape) (hB : ∀ b ∈ C.bonds, b.Shape)
    (hfuel : ((fileLines C D).drop 4).length + 1 ≤ fuel) :
    Tucan.molfile_reader.graph_from_molfile_text env fuel text = fileMeaning env C := by
  rw [graph_from_molfile_text_eq]
  unfold readSpec fileMeaning
  rw [hlines]
  have : (fileLines C D)[3]? = some D.h3 := rfl
  simp only [this, hok.ver, if_true, graph_attributes_fileLines env fuel C D hok hA hB hfuel]

/-- line-break freedom of the parts of a file -/
structure Dress.NoBreaks (D : Dress) (C : Ctab) : Prop where
  hdr : ∀ h ∈ [D.h0, D.h1, D.h2, D.h3], NoBreak h
  toks : ∀ ts ∈ logical C D, ∀ t ∈ ts, NoBreak t
  tail : ∀ l ∈ D.tail, NoBreak l

theorem noBreak_fileLines (C : Ctab) (D : Dress) (h : D.NoBreaks C) : ∀ l ∈ fileLines C D, NoBreak l := by
  intro l hl
  simp only [fileLines, List.mem_append] at hl
  rcases hl with hl | hl | hl
  · exact h.hdr l hl
  · exact noBreak_renderLines _ h.toks _ l hl
  · exact h.tail l hl

/-- **deliverable 3, final form (C07 + C06 line endings)**: the text obtained by terminating every physical
line of any rendering of the connection table with LF, CRLF or CR (the same throughout) is read as the
meaning of the connection table. The result does not depend on the header lines 0–2, the blank runs, the
trailing blanks, the cut points, the other V30 lines, the trailing lines or the line-ending style. -/
theorem graph_from_molfile_text_render (env : DepEnv) (fuel : Nat) (sep : Str) (hsep : IsSep sep)
    (C : Ctab) (D : Dress) (hok : D.OK C) (hnb : D.NoBreaks C)
    (hA : ∀ a ∈ C.atoms, a.Shape) (hB : ∀ b ∈ C.bonds, b.Shape)
    (hfuel : ((fileLines C D).drop 4).length + 1 ≤ fuel) :
    Tucan.molfile_reader.graph_from_molfile_text env fuel (join sep (fileLines C D ++ [[]])) = fileMeaning env C :=
  graph_from_molfile_text_v3000 env fuel _ C D
    (splitlines_join_terminated sep hsep _ (noBreak_fileLines C D hnb)) hok hA hB hfuel

/-- the same without a terminator after the last line (which must then be non-empty) -/
theorem graph_from_molfile_text_render' (env : DepEnv) (fuel : Nat) (sep : Str) (hsep : IsSep sep)
    (C : Ctab) (D : Dress) (hok : D.OK C) (hnb : D.NoBreaks C)
    (hA : ∀ a ∈ C.atoms, a.Shape) (hB : ∀ b ∈ C.bonds, b.Shape)
    (hlast : (fileLines C D).getLast? ≠ some [])
    (hfuel : ((fileLines C D).drop 4).length + 1 ≤ fuel) :
    Tucan.molfile_reader.graph_from_molfile_text env fuel (join sep (fileLines C D)) = fileMeaning env C :=
  graph_from_molfile_text_v3000 env fuel _ C D
    (by rw [splitlines_join sep hsep _ (noBreak_fileLines C D hnb), dropFinalEmpty_of_ne _ hlast]) hok hA hB hfuel

/-- C06 as a corollary: two renderings of the same connection table (different header and comment
lines, blank runs, cut points, unrelated V30 lines, trailing lines, line-ending styles) are read as the
same graph -/
theorem graph_from_molfile_text_dress_irrelevant (env : DepEnv) (fuel : Nat) (sep sep' : Str)
    (hsep : IsSep sep) (hsep' : IsSep sep') (C : Ctab) (D D' : Dress)
    (hok : D.OK C) (hok' : D'.OK C) (hnb : D.NoBreaks C) (hnb' : D'.NoBreaks C)
    (hA : ∀ a ∈ C.atoms, a.Shape) (hB : ∀ b ∈ C.bonds, b.Shape)
    (hfuel : ((fileLines C D).drop 4).length + 1 ≤ fuel) (hfuel' : ((fileLines C D').drop 4).length + 1 ≤ fuel) :
    Tucan.molfile_reader.graph_from_molfile_text env fuel (join sep (fileLines C D ++ [[]])) =
      Tucan.molfile_reader.graph_from_molfile_text env fuel (join sep' (fileLines C D' ++ [[]])) := by
  rw [graph_from_molfile_text_render env fuel sep hsep C D hok hnb hA hB hfuel,
    graph_from_molfile_text_render env fuel sep' hsep' C D' hok' hnb' hA hB hfuel']

/-! ## 4. identity data (C06): `graph_from_molecule` on arbitrary atom indices and bond data -/

open Contracts.Parser (codeOf withCode edgeStep setEdgeAttrDicts_eq)

theorem dict_set_middle {ν : Type} (X Y : List (Int × ν)) (k : Int) (a v : ν)
    (hX : k ∉ X.map Prod.fst) (hY : k ∉ Y.map Prod.fst) :
    (⟨X ++ (k, a) :: Y⟩ : Dict Int ν).set k v = ⟨X ++ (k, v) :: Y⟩ := by
  have hc : (⟨X ++ (k, a) :: Y⟩ : Dict Int ν).contains k = true := by
    rw [Dict.contains_iff]; simp [Dict.keys]
  unfold Dict.set
  rw [if_pos hc]
  congr 1
  have hid : ∀ Z : List (Int × ν), k ∉ Z.map Prod.fst → Z.map (fun p => if p.1 = k then (k, v) else p) = Z := by
    intro Z hZ
    conv_rhs => rw [← List.map_id Z]
    apply List.map_congr_left
    intro p hp
    have : p.1 ≠ k := fun e => hZ (e ▸ List.mem_map_of_mem hp)
    simp [this]
  simp [hid X hX, hid Y hY]

theorem dict_get_middle {ν : Type} (X Y : List (Int × ν)) (k : Int) (a : ν) (hX : k ∉ X.map Prod.fst) :
    (⟨X ++ (k, a) :: Y⟩ : Dict Int ν).get? k = some a := by
  have : List.lookup k X = none := by
    rw [lookup_eq_none_iff']; exact hX
  simp [Dict.get?, lookup_append', this, List.lookup_cons_self]

/-- a loop over the items of a dict that rewrites the entry of the current key -/
theorem forIn_items_rewrite (body : Int × Attrs → Dict Int Attrs → M (ForInStep (Dict Int Attrs))) (F : Attrs → Attrs)
    (P : Int × Attrs → Prop)
    (hbody : ∀ (k : Int) (a : Attrs) (d : Dict Int Attrs), d.get? k = some a → P (k, a) →
      body (k, a) d = .ok (.yield (d.set k (F a)))) :
    ∀ (post pre : List (Int × Attrs)), ((pre ++ post).map Prod.fst).Nodup → (∀ p ∈ post, P p) →
      forIn post (⟨pre.map (fun p => (p.1, F p.2)) ++ post⟩ : Dict Int Attrs) body =
        .ok ⟨(pre ++ post).map (fun p => (p.1, F p.2))⟩ := by
  intro post
  induction post with
  | nil => intro pre _ _; simp
  | cons q post ih =>
    intro pre hn hP
    obtain ⟨k, a⟩ := q
    have hn' : (pre.map Prod.fst ++ k :: post.map Prod.fst).Nodup := by simpa using hn
    have hk1 : k ∉ pre.map Prod.fst := fun h => (List.nodup_append.mp hn').2.2 k h k (by simp) rfl
    have hk2 : k ∉ post.map Prod.fst := (List.nodup_cons.mp (List.nodup_append.mp hn').2.1).1
    have hk1' : k ∉ (pre.map (fun p => (p.1, F p.2))).map Prod.fst := by
      simpa [List.map_map, Function.comp_def] using hk1
    rw [List.forIn_cons, hbody k a _ (dict_get_middle _ _ k a hk1') (hP _ (by simp)), ok_bind,
      dict_set_middle _ _ k a (F a) hk1' hk2]
    have := ih (pre ++ [(k, a)]) (by simpa using hn) (fun p hp => hP p (by simp [hp]))
    simpa using this

theorem forIn_items_rewrite' (body : Int × Attrs → Dict Int Attrs → M (ForInStep (Dict Int Attrs))) (F : Attrs → Attrs)
    (P : Int × Attrs → Prop)
    (hbody : ∀ (k : Int) (a : Attrs) (d : Dict Int Attrs), d.get? k = some a → P (k, a) →
      body (k, a) d = .ok (.yield (d.set k (F a))))
    (items : List (Int × Attrs)) (hn : (items.map Prod.fst).Nodup) (hP : ∀ p ∈ items, P p) :
    (forIn items (⟨items⟩ : Dict Int Attrs) body >>= fun s => Except.ok s) =
      (.ok ⟨items.map (fun p => (p.1, F p.2))⟩ : M (Dict Int Attrs)) := by
  have := forIn_items_rewrite body F P hbody items [] (by simpa using hn) hP
  simp only [List.map_nil, List.nil_append] at this
  rw [this]; rfl

/-- the atom dictionary with the invariant code added to every atom -/
def coded (A : Dict Int Attrs) : Dict Int Attrs := ⟨A.items.map (fun p => (p.1, withCode p.2))⟩

theorem add_invariant_code_general (env : DepEnv) (A : Dict Int Attrs) (hA : A.WF)
    (hz : ∀ p ∈ A.items, ∃ z, p.2.get? "atomic_number" = some z) :
    Tucan.graph_utils._add_invariant_code env A
      [{ key := "atomic_number" }, { key := "mass", default_value := some (toVal (0 : Int)) },
        { key := "rad", default_value := some (toVal (0 : Int)) }] = .ok (coded A) := by
  unfold Tucan.graph_utils._add_invariant_code
  obtain ⟨items⟩ := A
  dsimp only
  refine forIn_items_rewrite' _ withCode (fun p => ∃ z, p.2.get? "atomic_number" = some z) ?_ items hA hz
  intro k a d hd ⟨z, hz⟩
  have hg : (getItem d k : M Attrs) = .ok a := Contracts.Parser.getItem_dict_ok _ _ _ hd
  have hga : (getItem a "atomic_number" : M Val) = .ok z := Contracts.Parser.getItem_dict_ok _ _ _ hz
  simp [listComp, isNone, hga, hg, codeOf, withCode, hz, toVal, ToVal.toVal]

/-- one step of `nx.set_edge_attributes`: well-formedness, the nodes and the set of bonds are kept -/
theorem edgeStep_spec (g : Graph) (hg : g.WF) (u v : Int) (a : Attrs) :
    (edgeStep g ((u, v), a)).WF ∧ (edgeStep g ((u, v), a)).node = g.node ∧
      ∀ x y, ((edgeStep g ((u, v), a)).edgeAttrs x y).isSome = (g.edgeAttrs x y).isSome := by
  unfold edgeStep
  simp only
  cases hu : g.adj.get? u with
  | none => exact ⟨hg, rfl, fun _ _ => rfl⟩
  | some au =>
    simp only
    cases hvv : au.get? v with
    | none => exact ⟨hg, rfl, fun _ _ => rfl⟩
    | some d =>
      simp only
      have huv : g.edgeAttrs u v = some d := by simp [Graph.edgeAttrs, hu, hvv]
      have hvu : g.edgeAttrs v u = some d := hg.symm u v d huv
      have hun : u ∈ g.nodeList := hg.left_mem_of_edgeAttrs huv
      have hvn : v ∈ g.nodeList := hg.right_mem_of_edgeAttrs huv
      have hd' : (d.update a).WF := Dict.WF_update (hg.eattrs_wf u v d huv) _
      have e1 : ({ g with adj := g.adj.set u (au.set v (d.update a)) } : Graph) = g.setAdj u v (d.update a) := by
        simp [Graph.setAdj, hu]
      have w1 : (g.setAdj u v (d.update a)).DirWF := hg.dirWF.setAdj hun hvn hd'
      obtain ⟨av, hav⟩ : ∃ av, (g.setAdj u v (d.update a)).adj.get? v = some av := by
        apply Dict.exists_get?_of_mem_keys
        rw [w1.adj_keys]; exact hvn
      have hav' : (g.adj.set u (au.set v (d.update a))).get? v = some av := by
        simpa [Graph.setAdj, hu] using hav
      simp only [hav']
      have e2 : ({ node := g.node, adj := (g.adj.set u (au.set v (d.update a))).set v (av.set u (d.update a)) } : Graph) =
          (g.setAdj u v (d.update a)).setAdj v u (d.update a) := by
        simp [Graph.setAdj, hu, hav']
      rw [e2]
      have w2 : ((g.setAdj u v (d.update a)).setAdj v u (d.update a)).DirWF :=
        w1.setAdj (by simpa using hvn) (by simpa using hun) hd'
      have he : ∀ x y, ((g.setAdj u v (d.update a)).setAdj v u (d.update a)).edgeAttrs x y =
          if (x = v ∧ y = u) ∨ (x = u ∧ y = v) then some (d.update a) else g.edgeAttrs x y := by
        intro x y
        rw [Graph.edgeAttrs_setAdj, Graph.edgeAttrs_setAdj]
        by_cases h1 : x = v ∧ y = u <;> by_cases h2 : x = u ∧ y = v <;> simp [h1, h2]
      refine ⟨w2.toWF ?_, trivial, ?_⟩
      · intro x y b hb
        rw [he] at hb ⊢
        by_cases h : (x = v ∧ y = u) ∨ (x = u ∧ y = v)
        · have h' : (y = v ∧ x = u) ∨ (y = u ∧ x = v) := by tauto
          rw [if_pos h] at hb; rw [if_pos h']; exact hb
        · have h' : ¬ ((y = v ∧ x = u) ∨ (y = u ∧ x = v)) := by tauto
          rw [if_neg h] at hb; rw [if_neg h']; exact hg.symm x y b hb
      · intro x y
        rw [he]
        by_cases h : (x = v ∧ y = u) ∨ (x = u ∧ y = v)
        · rw [if_pos h]
          rcases h with ⟨rfl, rfl⟩ | ⟨rfl, rfl⟩
          · simp [hvu]
          · simp [huv]
        · rw [if_neg h]

theorem setEdgeAttrDicts_spec (g : Graph) (hg : g.WF) (values : Dict (Int × Int) Attrs) :
    (g.setEdgeAttrDicts values).WF ∧ (g.setEdgeAttrDicts values).node = g.node ∧
      ∀ x y, y ∈ (g.setEdgeAttrDicts values).nbrs x ↔ y ∈ g.nbrs x := by
  rw [setEdgeAttrDicts_eq]
  have key : ∀ (l : List ((Int × Int) × Attrs)) (g : Graph), g.WF →
      (l.foldl edgeStep g).WF ∧ (l.foldl edgeStep g).node = g.node ∧
      ∀ x y, ((l.foldl edgeStep g).edgeAttrs x y).isSome = (g.edgeAttrs x y).isSome := by
    intro l
    induction l with
    | nil => intro g hg; exact ⟨hg, rfl, fun _ _ => rfl⟩
    | cons p l ih =>
      intro g hg
      obtain ⟨⟨u, v⟩, a⟩ := p
      obtain ⟨w, hn, he⟩ := edgeStep_spec g hg u v a
      obtain ⟨w', hn', he'⟩ := ih _ w
      exact ⟨w', hn'.trans hn, fun x y => (he' x y).trans (he x y)⟩
  obtain ⟨w, hn, he⟩ := key values.items g hg
  refine ⟨w, hn, fun x y => ?_⟩
  rw [Graph.mem_nbrs_iff, Graph.mem_nbrs_iff, he]

theorem coded_keys (A : Dict Int Attrs) : (coded A).keys = A.keys := by
  simp [coded, Dict.keys, List.map_map, Function.comp_def]

theorem coded_get? (A : Dict Int Attrs) (k : Int) : (coded A).get? k = (A.get? k).map withCode :=
  lookup_map_snd A.items (fun _ a => withCode a) k

/-- **`graph_from_molecule` for arbitrary atom indices and bond data**: the atoms are numbered
consecutively in the order of the atom dictionary; atom number `i` carries the attributes of the `i`-th
entry plus the invariant code; two atoms are adjacent iff the bond dictionary has a key joining their
indices (in either direction). The bond data do not influence nodes, node attributes or adjacency. -/
theorem graph_from_molecule_general (env : DepEnv) (A : Dict Int Attrs) (B : Dict (Int × Int) Attrs)
    (hA : A.WF) (hAw : ∀ p ∈ A.items, p.2.WF)
    (hz : ∀ p ∈ A.items, ∃ z, p.2.get? "atomic_number" = some z)
    (hb : ∀ b ∈ B.keys, b.1 ∈ A.keys ∧ b.2 ∈ A.keys) :
    ∃ g R, Tucan.graph_utils.graph_from_molecule env A B = .ok (g, R) ∧ g.WF ∧
      g.nodeList = range (A.keys.length : Int) ∧
      (∀ k a, A.get? k = some a → g.node.get? (Int.ofNat (A.keys.idxOf k)) = some (withCode a)) ∧
      (∀ u ∈ A.keys, ∀ v ∈ A.keys,
        (Int.ofNat (A.keys.idxOf v) ∈ g.nbrs (Int.ofNat (A.keys.idxOf u)) ↔ (u, v) ∈ B.keys ∨ (v, u) ∈ B.keys)) := by
  unfold Tucan.graph_utils.graph_from_molecule
  simp only [add_invariant_code_general env A hA hz, ok_bind, pure_eq_ok]
  rw [coded_keys]
  have hTw : (coded A).WF := by unfold Dict.WF; rw [coded_keys]; exact hA
  -- nodes
  have hnd : (Graph.empty.nodeList ++ A.keys).Nodup := by
    have : Graph.empty.nodeList = [] := rfl
    rw [this, List.nil_append]; exact hA
  have w1 : (Graph.empty.addNodesFrom A.keys).WF := Graph.WF_addNodesFrom Graph.WF_empty _
  have n1 : (Graph.empty.addNodesFrom A.keys).nodeList = A.keys := by
    rw [Graph.nodeList_addNodesFrom_fresh Graph.WF_empty _ hnd]; simp [Graph.empty, Graph.nodeList, Dict.keys, Dict.empty]
  have g1 : ∀ i ∈ A.keys, (Graph.empty.addNodesFrom A.keys).node.get? i = some Dict.empty := by
    intro i hi
    apply Dict.get?_of_mem_items w1.node_wf
    rw [(Graph.addNodesFrom_fresh Graph.WF_empty _ hnd).1]
    simp only [Graph.empty, Dict.empty, List.nil_append, List.mem_map]
    exact ⟨i, hi, rfl⟩
  have e1 : ∀ x y, (Graph.empty.addNodesFrom A.keys).edgeAttrs x y = none := by
    intro x y
    rw [Graph.addNodesFrom_eq, Graph.edgeAttrs_addNodesFromData Graph.WF_empty]
    · rfl
    · intro p hp; obtain ⟨i, _, rfl⟩ := List.mem_map.mp hp; exact Dict.WF_empty
  -- node attributes
  set G2 := (Graph.empty.addNodesFrom A.keys).setNodeAttrDicts (coded A) with hG2
  have w2 : G2.WF := Graph.WF_setNodeAttrDicts w1 _
  have n2 : G2.nodeList = A.keys := by rw [hG2, Graph.nodeList_setNodeAttrDicts, n1]
  have g2 : ∀ k a, A.get? k = some a → G2.node.get? k = some (withCode a) := by
    intro k a hk
    have hmem : k ∈ A.keys := Dict.mem_keys_of_get? hk
    rw [hG2, Graph.node_get?_setNodeAttrDicts _ hTw, coded_get?, hk]
    simp only [Option.map_some, g1 k hmem]
    have hw : (withCode a).WF := Dict.WF_update (hAw (k, a) (Dict.mem_items_of_get? hk)) _
    rw [Dict.empty_update hw]
  have e2 : ∀ x y, G2.edgeAttrs x y = none := by
    intro x y; rw [hG2, Graph.edgeAttrs_setNodeAttrDicts, e1]
  -- bonds
  set G3 := G2.addEdgesFrom B.keys with hG3
  have w3 : G3.WF := Graph.WF_addEdgesFrom w2 _
  have hmem : ∀ e ∈ B.keys, e.1 ∈ G2.nodeList ∧ e.2 ∈ G2.nodeList := by
    intro e he; rw [n2]; exact hb e he
  have nd3 : G3.node = G2.node := Graph.node_addEdgesFrom_of_mem _ hmem
  have b3 : ∀ x y, y ∈ G3.nbrs x ↔ (x, y) ∈ B.keys ∨ (y, x) ∈ B.keys := by
    intro x y
    rw [hG3, Graph.mem_nbrs_addEdgesFrom w2, Graph.mem_nbrs_iff, e2]
    simp
  obtain ⟨w4, nd4, b4⟩ := setEdgeAttrDicts_spec G3 w3 B
  set G4 := G3.setEdgeAttrDicts B with hG4
  have n4 : G4.nodeList = A.keys := by unfold Graph.nodeList; rw [nd4, nd3]; exact n2
  -- relabelling
  obtain ⟨w5, n5, rel, get5⟩ := Graph.convertNodeLabelsToIntegers_spec w4
  refine ⟨_, _, rfl, w5, ?_, ?_, ?_⟩
  · rw [n5, Graph.numberOfNodes_eq, n4]
  · intro k a hk
    have hmem : k ∈ G4.nodeList := by rw [n4]; exact Dict.mem_keys_of_get? hk
    have := get5 k hmem
    rw [n4] at this
    rw [this, nd4, nd3, g2 k a hk]
  · intro u hu v hv
    have hu4 : u ∈ G4.nodeList := by rw [n4]; exact hu
    have hv4 : v ∈ G4.nodeList := by rw [n4]; exact hv
    have hp := (rel.nbrs u hu4).mem_iff (a := Int.ofNat (G4.nodeList.idxOf v))
    rw [n4] at hp
    rw [hp, ← b3, ← b4]
    simp only [List.mem_map]
    constructor
    · rintro ⟨w, hw, he⟩
      have hw4 : w ∈ G4.nodeList := w4.nbr_mem u w hw
      have := rel.inj w hw4 v hv4 (by rw [n4]; exact he)
      rw [← this]; exact hw
    · intro h; exact ⟨v, h, rfl⟩

/-- the attributes that make up an atom's identity (those the invariant code is built from, plus the
element symbol) -/
def idKeys : List String := ["element_symbol", "atomic_number", "mass", "rad"]

theorem withCode_get?_ne (a : Attrs) (k : String) (hk : k ≠ "invariant_code") : (withCode a).get? k = a.get? k := by
  unfold withCode
  rw [Dict.get?_update _ (Dict.WF_ofPairs _)]
  have : (Dict.ofPairs [("invariant_code", codeOf a)] : Attrs).get? k = none := by
    rw [Dict.get?_ofPairs_of_nodup _ _ (by simp)]
    have : (k == "invariant_code") = false := by simpa using hk
    simp [List.lookup_cons, this]
  rw [this]; rfl

theorem withCode_get?_code (a : Attrs) : (withCode a).get? "invariant_code" = some (codeOf a) := by
  unfold withCode
  rw [Dict.get?_update _ (Dict.WF_ofPairs _), Dict.get?_ofPairs_of_nodup _ _ (by simp)]
  simp

theorem codeOf_congr (a a' : Attrs) (h : ∀ k ∈ idKeys, a.get? k = a'.get? k) : codeOf a = codeOf a' := by
  unfold codeOf Dict.getD
  rw [h "atomic_number" (by simp [idKeys]), h "mass" (by simp [idKeys]), h "rad" (by simp [idKeys])]

/-- two molecules (atom and bond dictionaries as returned by the connection-table readers) with the same
identity data: equally many atoms; atoms at the same position (file order) agree on element, atomic
number, isotope mass and radical state; the bonds join the same positions. Atom indices, coordinates,
charges, other atom attributes and all bond data are free. -/
structure SameIdentity (A A' : Dict Int Attrs) (B B' : Dict (Int × Int) Attrs) : Prop where
  len : A.keys.length = A'.keys.length
  attrs : ∀ (i : Nat) p p', A.items[i]? = some p → A'.items[i]? = some p' → ∀ k ∈ idKeys, p.2.get? k = p'.2.get? k
  bonds : ∀ (i j : Nat) u v u' v', A.keys[i]? = some u → A.keys[j]? = some v →
    A'.keys[i]? = some u' → A'.keys[j]? = some v' →
    (((u, v) ∈ B.keys ∨ (v, u) ∈ B.keys) ↔ ((u', v') ∈ B'.keys ∨ (v', u') ∈ B'.keys))

/-- hypotheses of `graph_from_molecule_general` -/
structure MolOK (A : Dict Int Attrs) (B : Dict (Int × Int) Attrs) : Prop where
  wf : A.WF
  attrs_wf : ∀ p ∈ A.items, p.2.WF
  z : ∀ p ∈ A.items, ∃ z, p.2.get? "atomic_number" = some z
  ends : ∀ b ∈ B.keys, b.1 ∈ A.keys ∧ b.2 ∈ A.keys

/-- position `i` of the graph built from `(A, B)` -/
theorem general_at (A : Dict Int Attrs) (hA : A.WF) (i : Nat) (hi : i < A.keys.length) :
    ∃ k a, A.items[i]? = some (k, a) ∧ A.keys[i]? = some k ∧ A.get? k = some a ∧ k ∈ A.keys ∧ A.keys.idxOf k = i := by
  have hi' : i < A.items.length := by simpa [Dict.keys] using hi
  refine ⟨A.items[i].1, A.items[i].2, by simp [hi'], ?_, ?_, ?_, ?_⟩
  · simp [Dict.keys, hi']
  · exact Dict.get?_of_mem_items hA (List.getElem_mem hi')
  · exact List.mem_map_of_mem (List.getElem_mem hi')
  · have : A.items[i].1 = A.keys[i] := by simp [Dict.keys]
    rw [this]; exact List.Nodup.idxOf_getElem hA i hi

/-- **deliverable 4 (C06), dictionary level**: molecules with the same identity data give graphs with the
same nodes, the same `element_symbol`, `atomic_number`, `mass`, `rad` and `invariant_code` at every node,
and the same adjacency -/
theorem same_identity_graph (env : DepEnv) (A A' : Dict Int Attrs) (B B' : Dict (Int × Int) Attrs)
    (h : MolOK A B) (h' : MolOK A' B') (hs : SameIdentity A A' B B') :
    ∃ g R g' R', Tucan.graph_utils.graph_from_molecule env A B = .ok (g, R) ∧
      Tucan.graph_utils.graph_from_molecule env A' B' = .ok (g', R') ∧
      g.nodeList = g'.nodeList ∧
      (∀ n, ∀ k ∈ idKeys ++ ["invariant_code"], g.attr n k = g'.attr n k) ∧
      (∀ x y, y ∈ g.nbrs x ↔ y ∈ g'.nbrs x) := by
  obtain ⟨g, R, hg, wg, ng, ag, bg⟩ := graph_from_molecule_general env A B h.wf h.attrs_wf h.z h.ends
  obtain ⟨g', R', hg', wg', ng', ag', bg'⟩ := graph_from_molecule_general env A' B' h'.wf h'.attrs_wf h'.z h'.ends
  have hnl : g.nodeList = g'.nodeList := by rw [ng, ng', hs.len]
  refine ⟨g, R, g', R', hg, hg', hnl, ?_, ?_⟩
  · intro n k hk
    by_cases hn : n ∈ g.nodeList
    · have hn2 := hn
      rw [ng, Contracts.Parser.mem_range] at hn2
      obtain ⟨i, rfl⟩ : ∃ i : Nat, n = (i : Int) := ⟨n.toNat, by omega⟩
      have hi : i < A.keys.length := by omega
      obtain ⟨u, a, hit, -, hget, -, hidx⟩ := general_at A h.wf i hi
      obtain ⟨u', a', hit', -, hget', -, hidx'⟩ := general_at A' h'.wf i (hs.len ▸ hi)
      have e1 := ag u a hget
      have e2 := ag' u' a' hget'
      rw [hidx] at e1; rw [hidx'] at e2
      have hid := hs.attrs i _ _ hit hit'
      simp only [Graph.attr_eq]
      rw [show ((i : Nat) : Int) = Int.ofNat i from rfl, e1, e2]
      simp only [Option.bind_some]
      rcases List.mem_append.mp hk with hk | hk
      · have hne : k ≠ "invariant_code" := by
          intro e; subst e; revert hk; decide
        rw [withCode_get?_ne _ _ hne, withCode_get?_ne _ _ hne]
        exact hid k hk
      · simp only [List.mem_singleton] at hk; subst hk
        rw [withCode_get?_code, withCode_get?_code, codeOf_congr a a' hid]
    · have hn' : n ∉ g'.nodeList := hnl ▸ hn
      have e1 : g.node.get? n = none := (Dict.get?_eq_none_iff _ _).2 hn
      have e2 : g'.node.get? n = none := (Dict.get?_eq_none_iff _ _).2 hn'
      simp [Graph.attr_eq, e1, e2]
  · intro x y
    by_cases hx : x ∈ g.nodeList
    · by_cases hy : y ∈ g.nodeList
      · have hx2 := hx; have hy2 := hy
        rw [ng, Contracts.Parser.mem_range] at hx2 hy2
        obtain ⟨i, rfl⟩ : ∃ i : Nat, x = (i : Int) := ⟨x.toNat, by omega⟩
        obtain ⟨j, rfl⟩ : ∃ j : Nat, y = (j : Int) := ⟨y.toNat, by omega⟩
        have hi : i < A.keys.length := by omega
        have hj : j < A.keys.length := by omega
        obtain ⟨u, a, -, hku, -, hum, hidx⟩ := general_at A h.wf i hi
        obtain ⟨v, b, -, hkv, -, hvm, hjdx⟩ := general_at A h.wf j hj
        obtain ⟨u', a', -, hku', -, hum', hidx'⟩ := general_at A' h'.wf i (hs.len ▸ hi)
        obtain ⟨v', b', -, hkv', -, hvm', hjdx'⟩ := general_at A' h'.wf j (hs.len ▸ hj)
        have e1 := bg u hum v hvm
        have e2 := bg' u' hum' v' hvm'
        rw [hidx, hjdx] at e1; rw [hidx', hjdx'] at e2
        show (Int.ofNat j ∈ g.nbrs (Int.ofNat i)) ↔ (Int.ofNat j ∈ g'.nbrs (Int.ofNat i))
        rw [e1, e2]
        exact hs.bonds i j u v u' v' hku hkv hku' hkv'
      · have hy' : y ∉ g'.nodeList := hnl ▸ hy
        exact ⟨fun hm => absurd (wg.nbr_mem x y hm) hy, fun hm => absurd (wg'.nbr_mem x y hm) hy'⟩
    · have hx' : x ∉ g'.nodeList := hnl ▸ hx
      simp [Graph.nbrs, wg.adj_get?_eq_none hx, wg'.adj_get?_eq_none hx']

/-! ### deliverable 4 at the connection-table level (no star atoms) -/

open Contracts.V3000 (IsInt intOf intOf_eq atomAttrs mkAtomAttrs optAttr atomicNumber hydrogenIsotope propInt bondAttrs
  atomMeaning_ok atomEntries bondEntries bondMeaning atomBlockMeaning bondBlockMeaning nonStar stars)

def fltOf (env : DepEnv) (s : Str) : Flt := match env.parseFloat s with | .ok f => f | .error _ => ⟨[]⟩
def zOf (el : Str) : Val := match atomicNumber el with | .ok z => z | .error _ => Val.none

/-- node attributes of a (well-formed, non-star) atom line -/
def attrsOf (env : DepEnv) (a : AtomLine) : Attrs :=
  atomAttrs a (zOf (hydrogenIsotope a.sym).1) (fltOf env a.x) (fltOf env a.y) (fltOf env a.z)

/-- the atom dictionary of a connection table: file index − 1 ↦ attributes, in file order -/
def Ctab.atomDict (env : DepEnv) (C : Ctab) : Dict Int Attrs :=
  ⟨C.atoms.map (fun a => (intOf a.idx - 1, attrsOf env a))⟩
/-- the bond dictionary: (atom1 − 1, atom2 − 1) ↦ {bond_type} -/
def Ctab.bondDict (C : Ctab) : Dict (Int × Int) Attrs :=
  Dict.ofPairs (C.bonds.map (fun b => ((intOf b.a1 - 1, intOf b.a2 - 1), bondAttrs (intOf b.typ))))

/-- a readable connection table without star atoms: well-formed atom lines with known element symbols,
coordinates that `float()` accepts and unique indices; bond lines whose type and atom numbers are
integers, the atom numbers being indices of atom lines -/
structure Ctab.Plain (env : DepEnv) (C : Ctab) : Prop where
  wf : ∀ a ∈ C.atoms, a.WF
  nostar : ∀ a ∈ C.atoms, a.sym ≠ py!"*"
  known : ∀ a ∈ C.atoms, ∃ Z, atomicNumber (hydrogenIsotope a.sym).1 = .ok Z
  coords : ∀ a ∈ C.atoms, (∃ f, env.parseFloat a.x = .ok f) ∧ (∃ f, env.parseFloat a.y = .ok f) ∧
    (∃ f, env.parseFloat a.z = .ok f)
  uniq : (C.atoms.map (fun a => intOf a.idx)).Nodup
  bondInts : ∀ b ∈ C.bonds, IsInt b.a1 ∧ IsInt b.a2 ∧ IsInt b.typ
  bondEnds : ∀ b ∈ C.bonds, intOf b.a1 ∈ C.atoms.map (fun a => intOf a.idx) ∧
    intOf b.a2 ∈ C.atoms.map (fun a => intOf a.idx)

theorem parseInt_of_isInt {s : Str} (h : IsInt s) : parseInt s = .ok (intOf s) := by
  obtain ⟨n, hn⟩ := h; rw [intOf_eq s n hn, hn]

theorem atomEntries_plain (env : DepEnv) (atoms : List AtomLine) (hwf : ∀ a ∈ atoms, a.WF)
    (hns : ∀ a ∈ atoms, a.sym ≠ py!"*") (hk : ∀ a ∈ atoms, ∃ Z, atomicNumber (hydrogenIsotope a.sym).1 = .ok Z)
    (hc : ∀ a ∈ atoms, (∃ f, env.parseFloat a.x = .ok f) ∧ (∃ f, env.parseFloat a.y = .ok f) ∧
      (∃ f, env.parseFloat a.z = .ok f)) :
    atomEntries env atoms = .ok (atoms.map (fun a => (intOf a.idx - 1, some (attrsOf env a)))) := by
  induction atoms with
  | nil => rfl
  | cons a r ih =>
    obtain ⟨Z, hZ⟩ := hk a (by simp)
    obtain ⟨⟨fx, hx⟩, ⟨fy, hy⟩, ⟨fz, hz⟩⟩ := hc a (by simp)
    have hm := atomMeaning_ok env a (hwf a (by simp)) (hns a (by simp)) Z fx fy fz hZ hx hy hz
    have : attrsOf env a = atomAttrs a Z fx fy fz := by simp [attrsOf, zOf, fltOf, hZ, hx, hy, hz]
    simp only [atomEntries, parseInt_of_isInt (hwf a (by simp)).idx, hm, ok_bind, pure_eq_ok, List.map_cons, this,
      ih (fun b hb => hwf b (by simp [hb])) (fun b hb => hns b (by simp [hb])) (fun b hb => hk b (by simp [hb]))
        (fun b hb => hc b (by simp [hb]))]

theorem bondEntries_plain (bonds : List BondLine) (h : ∀ b ∈ bonds, IsInt b.a1 ∧ IsInt b.a2 ∧ IsInt b.typ) :
    bondEntries [] bonds = .ok (bonds.map (fun b => ((intOf b.a1 - 1, intOf b.a2 - 1), bondAttrs (intOf b.typ)))) := by
  induction bonds with
  | nil => rfl
  | cons b r ih =>
    obtain ⟨h1, h2, h3⟩ := h b (by simp)
    simp [bondEntries, bondMeaning, parseInt_of_isInt h1, parseInt_of_isInt h2, parseInt_of_isInt h3,
      ih (fun c hc => h c (by simp [hc]))]

theorem Ctab.atomDict_keys (env : DepEnv) (C : Ctab) : (C.atomDict env).keys = C.atoms.map (fun a => intOf a.idx - 1) := by
  simp [Ctab.atomDict, Dict.keys, List.map_map, Function.comp_def]

theorem Ctab.Plain.atomDict_wf {env : DepEnv} {C : Ctab} (h : C.Plain env) : (C.atomDict env).WF := by
  unfold Dict.WF
  rw [Ctab.atomDict_keys]
  have : C.atoms.map (fun a => intOf a.idx - 1) = (C.atoms.map (fun a => intOf a.idx)).map (· - 1) := by
    simp [List.map_map, Function.comp_def]
  rw [this]
  exact h.uniq.map (fun x y hxy => by simpa using hxy)

theorem Ctab.Plain.ends {env : DepEnv} {C : Ctab} (h : C.Plain env) :
    ∀ b ∈ C.bondDict.keys, b.1 ∈ (C.atomDict env).keys ∧ b.2 ∈ (C.atomDict env).keys := by
  intro p hp
  rw [Ctab.bondDict, Dict.ofPairs_eq_updatePairs, Dict.mem_keys_updatePairs] at hp
  rcases hp with hp | hp
  · simp [Dict.empty, Dict.keys] at hp
  · simp only [List.map_map, Function.comp_def, List.mem_map] at hp
    obtain ⟨b, hb, rfl⟩ := hp
    obtain ⟨e1, e2⟩ := h.bondEnds b hb
    rw [Ctab.atomDict_keys]
    simp only [List.mem_map] at e1 e2 ⊢
    obtain ⟨a1, ha1, q1⟩ := e1
    obtain ⟨a2, ha2, q2⟩ := e2
    exact ⟨⟨a1, ha1, by rw [q1]⟩, ⟨a2, ha2, by rw [q2]⟩⟩

/-- the meaning of a readable star-free connection table, explicitly -/
theorem ctabMeaning_plain (env : DepEnv) (C : Ctab) (h : C.Plain env) :
    ctabMeaning env C.atoms C.bonds = .ok (C.atomDict env, C.bondDict) := by
  unfold ctabMeaning atomBlockMeaning bondBlockMeaning
  rw [atomEntries_plain env C.atoms h.wf h.nostar h.known h.coords]
  have hns : nonStar (C.atoms.map (fun a => (intOf a.idx - 1, some (attrsOf env a)))) =
      C.atoms.map (fun a => (intOf a.idx - 1, attrsOf env a)) := by
    simp [nonStar, List.filterMap_map]
  have hst : stars (C.atoms.map (fun a => (intOf a.idx - 1, some (attrsOf env a)))) = [] := by
    simp [stars, List.filterMap_map]
  have hA : Dict.ofPairs (C.atoms.map (fun a => (intOf a.idx - 1, attrsOf env a))) = C.atomDict env :=
    Dict.ofPairs_of_nodup _ h.atomDict_wf
  simp only [ok_bind, pure_eq_ok, hns, hst, hA, bondEntries_plain C.bonds h.bondInts]
  have := h.ends
  show (if ∀ b ∈ C.bondDict.keys, b.1 ∈ (C.atomDict env).keys ∧ b.2 ∈ (C.atomDict env).keys then
      Except.ok (C.atomDict env, C.bondDict) else parserError) = _
  rw [if_pos (fun b hb => this b hb)]

theorem mkAtomAttrs_wf (el : Str) (Z : Val) (fx fy fz : Flt) (c m r : Option Int) :
    (mkAtomAttrs el Z fx fy fz c m r).WF := by
  cases c <;> cases m <;> cases r <;> simp [Dict.WF, Dict.keys, mkAtomAttrs, optAttr]

theorem mkAtomAttrs_get (el : Str) (Z : Val) (fx fy fz : Flt) (c m r : Option Int) :
    (mkAtomAttrs el Z fx fy fz c m r).get? "element_symbol" = some (Val.str el) ∧
    (mkAtomAttrs el Z fx fy fz c m r).get? "atomic_number" = some Z ∧
    (mkAtomAttrs el Z fx fy fz c m r).get? "mass" = m.map Val.int ∧
    (mkAtomAttrs el Z fx fy fz c m r).get? "rad" = r.map Val.int := by
  cases c <;> cases m <;> cases r <;> simp [Dict.get?, mkAtomAttrs, optAttr, List.lookup]

theorem Ctab.Plain.molOK {env : DepEnv} {C : Ctab} (h : C.Plain env) : MolOK (C.atomDict env) C.bondDict where
  wf := h.atomDict_wf
  attrs_wf := by
    intro p hp
    simp only [Ctab.atomDict, List.mem_map] at hp
    obtain ⟨a, _, rfl⟩ := hp
    exact mkAtomAttrs_wf _ _ _ _ _ _ _ _
  z := by
    intro p hp
    simp only [Ctab.atomDict, List.mem_map] at hp
    obtain ⟨a, _, rfl⟩ := hp
    exact ⟨_, (mkAtomAttrs_get _ _ _ _ _ _ _ _).2.1⟩
  ends := h.ends

/-- some bond line joins the atoms with file indices `m` and `n` -/
def Ctab.joined (C : Ctab) (m n : Int) : Prop :=
  ∃ b ∈ C.bonds, (intOf b.a1 = m ∧ intOf b.a2 = n) ∨ (intOf b.a1 = n ∧ intOf b.a2 = m)

/-- two connection tables with the same identity data: equally many atom lines; the atom lines at the
same position have the same element symbol and the same effective `MASS` and `RAD` values; bond lines
join the same positions (the index tokens may be renumbered consistently). Coordinates, atom-atom
mapping, `CHG`, all other properties, bond indices, bond types, other bond properties, and the order and
direction of the bond lines are free. -/
structure SameIdentityCtab (C C' : Ctab) : Prop where
  natoms : C.atoms.length = C'.atoms.length
  atoms : ∀ (i : Nat) a a', C.atoms[i]? = some a → C'.atoms[i]? = some a' →
    a.sym = a'.sym ∧ propInt a.props py!"MASS" = propInt a'.props py!"MASS" ∧
      propInt a.props py!"RAD" = propInt a'.props py!"RAD"
  bonds : ∀ (i j : Nat) a b a' b', C.atoms[i]? = some a → C.atoms[j]? = some b →
    C'.atoms[i]? = some a' → C'.atoms[j]? = some b' →
    (C.joined (intOf a.idx) (intOf b.idx) ↔ C'.joined (intOf a'.idx) (intOf b'.idx))

theorem Ctab.mem_bondDict_keys (C : Ctab) (u v : Int) :
    (u, v) ∈ C.bondDict.keys ↔ ∃ b ∈ C.bonds, intOf b.a1 - 1 = u ∧ intOf b.a2 - 1 = v := by
  rw [Ctab.bondDict, Dict.ofPairs_eq_updatePairs, Dict.mem_keys_updatePairs]
  simp [Dict.empty, Dict.keys, List.map_map, Function.comp_def]

theorem Ctab.joined_iff (C : Ctab) (m n : Int) :
    ((m - 1, n - 1) ∈ C.bondDict.keys ∨ (n - 1, m - 1) ∈ C.bondDict.keys) ↔ C.joined m n := by
  simp only [Ctab.mem_bondDict_keys, Ctab.joined]
  constructor
  · rintro (⟨b, hb, h1, h2⟩ | ⟨b, hb, h1, h2⟩)
    · exact ⟨b, hb, Or.inl ⟨by omega, by omega⟩⟩
    · exact ⟨b, hb, Or.inr ⟨by omega, by omega⟩⟩
  · rintro ⟨b, hb, ⟨h1, h2⟩ | ⟨h1, h2⟩⟩
    · exact Or.inl ⟨b, hb, by omega, by omega⟩
    · exact Or.inr ⟨b, hb, by omega, by omega⟩

theorem sameIdentity_of_ctab (env : DepEnv) (C C' : Ctab) (hs : SameIdentityCtab C C') :
    SameIdentity (C.atomDict env) (C'.atomDict env) C.bondDict C'.bondDict where
  len := by rw [Ctab.atomDict_keys, Ctab.atomDict_keys]; simpa using hs.natoms
  attrs := by
    intro i p p' hp hp' k hk
    simp only [Ctab.atomDict, List.getElem?_map, Option.map_eq_some_iff] at hp hp'
    obtain ⟨a, ha, rfl⟩ := hp
    obtain ⟨a', ha', rfl⟩ := hp'
    obtain ⟨hsym, hmass, hrad⟩ := hs.atoms i a a' ha ha'
    simp only [attrsOf, atomAttrs]
    have g := mkAtomAttrs_get
    simp only [idKeys, List.mem_cons, List.not_mem_nil, or_false] at hk
    rcases hk with rfl | rfl | rfl | rfl
    · rw [(g _ _ _ _ _ _ _ _).1, (g _ _ _ _ _ _ _ _).1, hsym]
    · rw [(g _ _ _ _ _ _ _ _).2.1, (g _ _ _ _ _ _ _ _).2.1, hsym]
    · rw [(g _ _ _ _ _ _ _ _).2.2.1, (g _ _ _ _ _ _ _ _).2.2.1, hsym, hmass]
    · rw [(g _ _ _ _ _ _ _ _).2.2.2, (g _ _ _ _ _ _ _ _).2.2.2, hrad]
  bonds := by
    intro i j u v u' v' hu hv hu' hv'
    rw [Ctab.atomDict_keys] at hu hv hu' hv'
    simp only [List.getElem?_map, Option.map_eq_some_iff] at hu hv hu' hv'
    obtain ⟨a, ha, rfl⟩ := hu
    obtain ⟨b, hb, rfl⟩ := hv
    obtain ⟨a', ha', rfl⟩ := hu'
    obtain ⟨b', hb', rfl⟩ := hv'
    rw [Ctab.joined_iff, Ctab.joined_iff]
    exact hs.bonds i j a b a' b' ha hb ha' hb'

/-! ### validity of a connection table (the two validators of the top-level reader) -/

/-- some atom line states a negative isotope mass (`MASS=` on a symbol other than D/T, whose mass is
fixed) or a negative radical state -/
def Ctab.NegMassRad (C : Ctab) : Prop := ∃ a ∈ C.atoms,
  ((hydrogenIsotope a.sym).2 = 0 ∧ ∃ m, propInt a.props py!"MASS" = some m ∧ m < 0) ∨
    ∃ r, propInt a.props py!"RAD" = some r ∧ r < 0
/-- some bond line joins an atom to itself -/
def Ctab.SelfBond (C : Ctab) : Prop := ∃ b ∈ C.bonds, intOf b.a1 = intOf b.a2

theorem negAttr_attrsOf (env : DepEnv) (a : AtomLine) :
    NegAttr (attrsOf env a) ↔ (((hydrogenIsotope a.sym).2 = 0 ∧ ∃ m, propInt a.props py!"MASS" = some m ∧ m < 0) ∨
      ∃ r, propInt a.props py!"RAD" = some r ∧ r < 0) := by
  rw [negAttr_iff]
  simp only [attrsOf, atomAttrs, (mkAtomAttrs_get _ _ _ _ _ _ _ _).2.2.1, (mkAtomAttrs_get _ _ _ _ _ _ _ _).2.2.2]
  apply or_congr
  · by_cases h0 : (hydrogenIsotope a.sym).2 = 0
    · simp only [h0, if_true, true_and]
      cases propInt a.props py!"MASS" with
      | none => simp
      | some m => simp [isNeg_int]
    · rcases Contracts.V3000.hydrogenIsotope_mass a.sym with h | h | h
      · exact absurd h h0
      · simp [h, isNeg_int]
      · simp [h, isNeg_int]
  · cases propInt a.props py!"RAD" with
    | none => simp
    | some r => simp [isNeg_int]

theorem negMolecule_atomDict (env : DepEnv) (C : Ctab) : NegMolecule (C.atomDict env) ↔ C.NegMassRad := by
  simp only [NegMolecule, Ctab.atomDict, Ctab.NegMassRad, List.mem_map]
  constructor
  · rintro ⟨p, ⟨a, ha, rfl⟩, hn⟩; exact ⟨a, ha, (negAttr_attrsOf env a).mp hn⟩
  · rintro ⟨a, ha, hn⟩; exact ⟨_, ⟨a, ha, rfl⟩, (negAttr_attrsOf env a).mpr hn⟩

theorem selfBonded_bondDict (C : Ctab) : SelfBonded C.bondDict ↔ C.SelfBond := by
  simp only [SelfBonded, Ctab.SelfBond]
  constructor
  · rintro ⟨⟨u, v⟩, hb, he⟩
    obtain ⟨b, hb, h1, h2⟩ := (C.mem_bondDict_keys u v).mp hb
    simp only at he
    exact ⟨b, hb, by omega⟩
  · rintro ⟨b, hb, he⟩
    exact ⟨(intOf b.a1 - 1, intOf b.a2 - 1), (C.mem_bondDict_keys _ _).mpr ⟨b, hb, rfl, rfl⟩, by simp [he]⟩

/-- **accepted case**: a readable star-free connection table with no negative mass / radical value and no
self-bond is read as the graph `graph_from_molecule` builds from its atom and bond dictionaries -/
theorem fileMeaning_plain_ok (env : DepEnv) (C : Ctab) (h : C.Plain env) (hneg : ¬ C.NegMassRad) (hself : ¬ C.SelfBond) :
    fileMeaning env C =
      (do let gR ← Tucan.graph_utils.graph_from_molecule env (C.atomDict env) C.bondDict; pure gR.1) := by
  unfold fileMeaning
  rw [ctabMeaning_plain env C h]
  exact molGraph_ok env _ (by rwa [negMolecule_atomDict]) (by rwa [selfBonded_bondDict])

/-- **rejected case**: a negative `MASS=`/`RAD=` value or a bond from an atom to itself → `MolfileParserException` -/
theorem fileMeaning_plain_reject (env : DepEnv) (C : Ctab) (h : C.Plain env) (hbad : C.NegMassRad ∨ C.SelfBond) :
    fileMeaning env C = parserError := by
  unfold fileMeaning
  rw [ctabMeaning_plain env C h]
  exact molGraph_reject env _ (by rwa [negMolecule_atomDict, selfBonded_bondDict])

/-- **C07, the graph of a connection table**: one node per atom line, numbered in file order, carrying
the attributes the line states (element, atomic number, coordinates, charge, isotope mass, radical state)
plus the invariant code; two nodes are adjacent iff a bond line joins the two atom indices -/
theorem fileMeaning_plain_graph (env : DepEnv) (C : Ctab) (h : C.Plain env) (hneg : ¬ C.NegMassRad) (hself : ¬ C.SelfBond) :
    ∃ g, fileMeaning env C = .ok g ∧ g.WF ∧ g.nodeList = range (C.atoms.length : Int) ∧
      (∀ (i : Nat) a, C.atoms[i]? = some a → g.node.get? (i : Int) = some (withCode (attrsOf env a))) ∧
      (∀ (i j : Nat) a b, C.atoms[i]? = some a → C.atoms[j]? = some b →
        ((j : Int) ∈ g.nbrs (i : Int) ↔ C.joined (intOf a.idx) (intOf b.idx))) := by
  have hm := h.molOK
  obtain ⟨g, R, hg, wg, ng, ag, bg⟩ :=
    graph_from_molecule_general env (C.atomDict env) C.bondDict hm.wf hm.attrs_wf hm.z hm.ends
  have hlen : (C.atomDict env).keys.length = C.atoms.length := by rw [Ctab.atomDict_keys]; simp
  have hat : ∀ (i : Nat) a, C.atoms[i]? = some a →
      (C.atomDict env).get? (intOf a.idx - 1) = some (attrsOf env a) ∧ intOf a.idx - 1 ∈ (C.atomDict env).keys ∧
        (C.atomDict env).keys.idxOf (intOf a.idx - 1) = i := by
    intro i a ha
    have hi : i < (C.atomDict env).keys.length := by
      rw [hlen]; exact (List.getElem?_eq_some_iff.mp ha).1
    obtain ⟨k, v, hit, -, hget, hmem, hidx⟩ := general_at _ hm.wf i hi
    simp only [Ctab.atomDict, List.getElem?_map, ha, Option.map_some, Option.some.injEq, Prod.mk.injEq] at hit
    obtain ⟨rfl, rfl⟩ := hit
    exact ⟨hget, hmem, hidx⟩
  refine ⟨g, ?_, wg, by rw [ng, hlen], ?_, ?_⟩
  · rw [fileMeaning_plain_ok env C h hneg hself, hg]; rfl
  · intro i a ha
    obtain ⟨hget, -, hidx⟩ := hat i a ha
    have := ag _ _ hget
    rwa [hidx] at this
  · intro i j a b ha hb
    obtain ⟨-, hma, hia⟩ := hat i a ha
    obtain ⟨-, hmb, hib⟩ := hat j b hb
    have := bg _ hma _ hmb
    rw [hia, hib, Ctab.joined_iff] at this
    exact this

/-- validity is part of the identity data: if `C` is valid, so is every `C'` with the same identity data -/
theorem valid_of_sameIdentityCtab (env : DepEnv) (C C' : Ctab) (h' : C'.Plain env) (hs : SameIdentityCtab C C')
    (hneg : ¬ C.NegMassRad) (hself : ¬ C.SelfBond) : ¬ C'.NegMassRad ∧ ¬ C'.SelfBond := by
  have hpos : ∀ a' ∈ C'.atoms, ∃ (i : Nat) (a : AtomLine), C.atoms[i]? = some a ∧ C'.atoms[i]? = some a' := by
    intro a' ha'
    obtain ⟨i, hi, rfl⟩ := List.getElem_of_mem ha'
    have hi2 : i < C.atoms.length := by rw [hs.natoms]; exact hi
    exact ⟨i, C.atoms[i], by simp [hi2], by simp [hi]⟩
  constructor
  · rintro ⟨a', ha', hbad⟩
    obtain ⟨i, a, hia, hia'⟩ := hpos a' ha'
    obtain ⟨hsym, hmass, hrad⟩ := hs.atoms i a a' hia hia'
    exact hneg ⟨a, List.mem_of_getElem? hia, by rw [hsym, hmass, hrad]; exact hbad⟩
  · rintro ⟨b', hb', he⟩
    obtain ⟨a', ha', hidx⟩ := List.mem_map.mp (h'.bondEnds b' hb').1
    obtain ⟨i, a, hia, hia'⟩ := hpos a' ha'
    have hj' : C'.joined (intOf a'.idx) (intOf a'.idx) := ⟨b', hb', Or.inl ⟨hidx.symm, by rw [← he, hidx]⟩⟩
    obtain ⟨b, hb, hbb⟩ := (hs.bonds i i a a a' a' hia hia hia' hia').mpr hj'
    exact hself ⟨b, hb, by rcases hbb with ⟨h1, h2⟩ | ⟨h1, h2⟩ <;> rw [h1, h2]⟩

/-- **deliverable 4 (C06, identity data only)**: two readable star-free connection tables with the same
identity data, the first of which is valid (no negative mass / radical value, no self-bond), are read as
graphs with the same nodes, the same `element_symbol`, `atomic_number`, `mass`, `rad` and
`invariant_code` at every node, and the same adjacency. Together with `graph_from_molfile_text_render`
this holds for the graphs read from any renderings of the two tables. -/
theorem same_identity_ctab (env : DepEnv) (C C' : Ctab) (h : C.Plain env) (h' : C'.Plain env)
    (hs : SameIdentityCtab C C') (hneg : ¬ C.NegMassRad) (hself : ¬ C.SelfBond) :
    ∃ g g', fileMeaning env C = .ok g ∧ fileMeaning env C' = .ok g' ∧
      g.nodeList = g'.nodeList ∧
      (∀ n, ∀ k ∈ idKeys ++ ["invariant_code"], g.attr n k = g'.attr n k) ∧
      (∀ x y, y ∈ g.nbrs x ↔ y ∈ g'.nbrs x) := by
  obtain ⟨g, R, g', R', e, e', hn, ha, hb⟩ :=
    same_identity_graph env _ _ _ _ h.molOK h'.molOK (sameIdentity_of_ctab env C C' hs)
  obtain ⟨hneg', hself'⟩ := valid_of_sameIdentityCtab env C C' h' hs hneg hself
  refine ⟨g, g', ?_, ?_, hn, ha, hb⟩
  · rw [fileMeaning_plain_ok env C h hneg hself, e]; rfl
  · rw [fileMeaning_plain_ok env C' h' hneg' hself', e']; rfl

/-- the invalid case of deliverable 4: if `C` is rejected for a negative mass / radical value or a
self-bond, so is every `C'` with the same identity data -/
theorem same_identity_ctab_reject (env : DepEnv) (C C' : Ctab) (h : C.Plain env) (h' : C'.Plain env)
    (hs : SameIdentityCtab C' C) (hbad : C.NegMassRad ∨ C.SelfBond) :
    fileMeaning env C = parserError ∧ fileMeaning env C' = parserError := by
  refine ⟨fileMeaning_plain_reject env C h hbad, fileMeaning_plain_reject env C' h' ?_⟩
  by_contra hc
  rw [not_or] at hc
  obtain ⟨h1, h2⟩ := valid_of_sameIdentityCtab env C' C h hs hc.1 hc.2
  rcases hbad with hb | hb
  · exact h1 hb
  · exact h2 hb

/-! ### the V3000 reader on texts: accepted and rejected renderings -/

/-- **C07 at the text level, accepted case**: every rendering (any header and comment lines, blank runs,
trailing blanks, continuation cut points, further V30 lines, trailing lines, LF/CRLF/CR) of a readable
star-free connection table without negative mass / radical values and self-bonds is read as the graph
with one node per atom line in file order, carrying the stated attributes plus the invariant code, and
one edge per bond line between the stated atoms -/
theorem graph_from_molfile_text_render_ok (env : DepEnv) (fuel : Nat) (sep : Str) (hsep : IsSep sep)
    (C : Ctab) (D : Dress) (hok : D.OK C) (hnb : D.NoBreaks C)
    (hB : ∀ b ∈ C.bonds, b.Shape) (hfuel : ((fileLines C D).drop 4).length + 1 ≤ fuel)
    (h : C.Plain env) (hneg : ¬ C.NegMassRad) (hself : ¬ C.SelfBond) :
    ∃ g, Tucan.molfile_reader.graph_from_molfile_text env fuel (join sep (fileLines C D ++ [[]])) = .ok g ∧
      g.WF ∧ g.nodeList = range (C.atoms.length : Int) ∧
      (∀ (i : Nat) a, C.atoms[i]? = some a → g.node.get? (i : Int) = some (withCode (attrsOf env a))) ∧
      (∀ (i j : Nat) a b, C.atoms[i]? = some a → C.atoms[j]? = some b →
        ((j : Int) ∈ g.nbrs (i : Int) ↔ C.joined (intOf a.idx) (intOf b.idx))) := by
  obtain ⟨g, hg, rest⟩ := fileMeaning_plain_graph env C h hneg hself
  exact ⟨g, by rw [graph_from_molfile_text_render env fuel sep hsep C D hok hnb
    (fun a ha => (h.wf a ha).shape) hB hfuel, hg], rest⟩

/-- **rejected case**: every rendering of a readable star-free connection table with a negative `MASS=` /
`RAD=` value or a bond from an atom to itself raises `MolfileParserException` -/
theorem graph_from_molfile_text_render_reject (env : DepEnv) (fuel : Nat) (sep : Str) (hsep : IsSep sep)
    (C : Ctab) (D : Dress) (hok : D.OK C) (hnb : D.NoBreaks C)
    (hB : ∀ b ∈ C.bonds, b.Shape) (hfuel : ((fileLines C D).drop 4).length + 1 ≤ fuel)
    (h : C.Plain env) (hbad : C.NegMassRad ∨ C.SelfBond) :
    Tucan.molfile_reader.graph_from_molfile_text env fuel (join sep (fileLines C D ++ [[]])) = parserError := by
  rw [graph_from_molfile_text_render env fuel sep hsep C D hok hnb (fun a ha => (h.wf a ha).shape) hB hfuel,
    fileMeaning_plain_reject env C h hbad]

/-! ## 5. the V2000 reader at the top level -/

theorem idxOf_range (n i : Nat) (hi : i < n) : (range (n : Int)).idxOf (i : Int) = i := by
  have hlen : i < (range (n : Int)).length := by simp [range, hi]
  have hget : (range (n : Int))[i] = (i : Int) := by simp [range]
  have := List.Nodup.idxOf_getElem (Graph.nodup_range (n : Int)) i hlen
  rwa [hget] at this

open Contracts.V2000 (Item endLine lineKind specGet atomDict fieldInt field) in
/-- **deliverable 5 (C08 at the top level)**: a text whose lines are a V2000 molfile (header, counts line
ending in the word `V2000`, atom block, bond block, property block up to `M  END`; hypotheses as in
`graph_attributes_from_molfile_v2000_ok`) is read as the graph with one node per atom line, numbered in
file order, carrying the atom-block attributes as modified by the property block (`specGet`) plus the
invariant code, and with one edge per bond line. -/
theorem graph_from_molfile_text_v2000 (env : DepEnv) (fuel : Nat) (text : Str) (h0 h1 h2 counts : Str)
    (atomLines bondLines : List Str) (attrs : List Attrs) (bonds : List ((Int × Int) × Attrs))
    (items : List Item) (post : List Str)
    (hlines : splitlines text =
      h0 :: h1 :: h2 :: counts :: (atomLines ++ (bondLines ++ (items.map Item.render ++ endLine :: post))))
    (hver : lastWord counts = py!"V2000")
    (hna : fieldInt (field counts 0 3) = .ok atomLines.length)
    (hnb : fieldInt (field counts 3 3) = .ok bondLines.length)
    (hnl : fieldInt (field counts 6 3) = .ok 0)
    (hatoms : List.Forall₂ (fun l a => Tucan.molfile_v2000_reader._parse_atom_line env l = .ok a) atomLines attrs)
    (hbonds : List.Forall₂ (fun l b => Tucan.molfile_v2000_reader._parse_bond_line env l (atomDict attrs) = .ok b)
      bondLines bonds)
    (hbl : ∀ l ∈ bondLines, lineKind l = none ∧ l ≠ endLine)
    (hitems : ∀ it ∈ items, it.Legal (atomDict attrs))
    (hwf : ∀ a ∈ attrs, a.WF) (hZ : ∀ a ∈ attrs, ∃ z, a.get? "atomic_number" = some z)
    (hends : ∀ b ∈ bonds, b.1.1 ∈ range (attrs.length : Int) ∧ b.1.2 ∈ range (attrs.length : Int))
    (hneg : ∀ (i : Nat) (hi : i < attrs.length), ∀ k ∈ ["mass", "rad"], ∀ v,
      specGet (items.filterMap Item.parsed) i attrs[i] k = some v → isNeg v = false)
    (hself : ∀ b ∈ bonds, b.1.1 ≠ b.1.2) :
    ∃ g, Tucan.molfile_reader.graph_from_molfile_text env fuel text = .ok g ∧ g.WF ∧
      g.nodeList = range (attrs.length : Int) ∧
      (∀ (i : Nat) (hi : i < attrs.length), ∃ new, g.node.get? (i : Int) = some (withCode new) ∧
        ∀ k, new.get? k = specGet (items.filterMap Item.parsed) i attrs[i] k) ∧
      (∀ x y, y ∈ g.nbrs x ↔ ∃ b ∈ bonds, b.1 = (x, y) ∨ b.1 = (y, x)) := by
  obtain ⟨r, hr, hkeys, hget⟩ := Contracts.V2000.graph_attributes_from_molfile_v2000_ok env h0 h1 h2 counts
    atomLines bondLines attrs bonds items post hna hnb hnl hatoms hbonds hbl hitems
  have hrw : r.WF := by unfold Dict.WF; rw [hkeys]; exact Graph.nodup_range _
  have hlen : r.keys.length = attrs.length := by rw [hkeys]; simp [range]
  -- every entry of `r`
  have hentry : ∀ p ∈ r.items, ∃ (i : Nat) (hi : i < attrs.length), p.1 = (i : Int) ∧ (attrs[i].WF → p.2.WF) ∧
      ∀ k, p.2.get? k = specGet (items.filterMap Item.parsed) i attrs[i] k := by
    intro p hp
    have hk : p.1 ∈ range (attrs.length : Int) := by rw [← hkeys]; exact List.mem_map_of_mem hp
    rw [Contracts.Parser.mem_range] at hk
    obtain ⟨i, hi⟩ : ∃ i : Nat, p.1 = (i : Int) := ⟨p.1.toNat, by omega⟩
    have hi' : i < attrs.length := by omega
    obtain ⟨new, hnew, hw, hs⟩ := hget i hi'
    have : r.get? p.1 = some p.2 := Dict.get?_of_mem_items hrw hp
    rw [hi, hnew] at this
    cases this
    exact ⟨i, hi', hi, hw, hs⟩
  have hmol : MolOK r (Dict.ofPairs bonds) := by
    refine ⟨hrw, ?_, ?_, ?_⟩
    · intro p hp
      obtain ⟨i, hi, _, hw, _⟩ := hentry p hp
      exact hw (hwf _ (List.getElem_mem hi))
    · intro p hp
      obtain ⟨i, hi, _, _, hs⟩ := hentry p hp
      obtain ⟨z, hz⟩ := hZ _ (List.getElem_mem hi)
      exact ⟨z, by rw [hs, Contracts.V2000.specGet_other _ _ _ _ (by decide) (by decide) (by decide), hz]⟩
    · intro b hb
      rw [Dict.ofPairs_eq_updatePairs, Dict.mem_keys_updatePairs] at hb
      rcases hb with hb | hb
      · simp [Dict.empty, Dict.keys] at hb
      · obtain ⟨q, hq, rfl⟩ := List.mem_map.mp hb
        rw [hkeys]; exact hends q hq
  obtain ⟨g, R, hg, wg, ng, ag, bg⟩ :=
    graph_from_molecule_general env r (Dict.ofPairs bonds) hmol.wf hmol.attrs_wf hmol.z hmol.ends
  have hbk : ∀ e, e ∈ (Dict.ofPairs bonds : Dict (Int × Int) Attrs).keys ↔ ∃ b ∈ bonds, b.1 = e := by
    intro e
    rw [Dict.ofPairs_eq_updatePairs, Dict.mem_keys_updatePairs]
    simp [Dict.empty, Dict.keys]
  refine ⟨g, ?_, wg, by rw [ng, hlen], ?_, ?_⟩
  · rw [graph_from_molfile_text_eq]
    unfold readSpec
    rw [hlines]
    have h3 : (h0 :: h1 :: h2 :: counts :: (atomLines ++ (bondLines ++ (items.map Item.render ++ endLine :: post))))[3]? =
        some counts := rfl
    have hne : py!"V2000" ≠ py!"V3000" := by decide
    have hnn : ¬ NegMolecule r := by
      rintro ⟨p, hp, k, hk, v, hv, hvn⟩
      obtain ⟨i, hi, _, _, hs⟩ := hentry p hp
      rw [hs] at hv
      rw [hneg i hi k hk v hv] at hvn; cases hvn
    have hns : ¬ SelfBonded (Dict.ofPairs bonds : Dict (Int × Int) Attrs) := by
      rintro ⟨b, hb, he⟩
      obtain ⟨q, hq, rfl⟩ := (hbk b).mp hb
      exact hself q hq he
    simp only [h3, hver, hne, if_true, if_false, hr, ok_bind]
    rw [molGraph_ok env _ hnn hns, hg]; rfl
  · intro i hi
    obtain ⟨new, hnew, _, hs⟩ := hget i hi
    refine ⟨new, ?_, hs⟩
    have := ag (i : Int) new hnew
    rwa [hkeys, idxOf_range _ _ hi] at this
  · intro x y
    by_cases hx : x ∈ range (attrs.length : Int)
    · by_cases hy : y ∈ range (attrs.length : Int)
      · have hx2 := hx; have hy2 := hy
        rw [Contracts.Parser.mem_range] at hx2 hy2
        obtain ⟨i, rfl⟩ : ∃ i : Nat, x = (i : Int) := ⟨x.toNat, by omega⟩
        obtain ⟨j, rfl⟩ : ∃ j : Nat, y = (j : Int) := ⟨y.toNat, by omega⟩
        have := bg (i : Int) (hkeys ▸ hx) (j : Int) (hkeys ▸ hy)
        rw [hkeys, idxOf_range _ _ (by omega), idxOf_range _ _ (by omega)] at this
        show (Int.ofNat j ∈ g.nbrs (Int.ofNat i)) ↔ _
        rw [this, hbk, hbk]
        constructor
        · rintro (⟨b, hb, e⟩ | ⟨b, hb, e⟩)
          · exact ⟨b, hb, Or.inl e⟩
          · exact ⟨b, hb, Or.inr e⟩
        · rintro ⟨b, hb, e | e⟩
          · exact Or.inl ⟨b, hb, e⟩
          · exact Or.inr ⟨b, hb, e⟩
      · constructor
        · intro hm; exact absurd (by rw [← hlen, ← ng]; exact wg.nbr_mem x y hm) hy
        · rintro ⟨b, hb, e | e⟩
          · exact absurd (by have := (hends b hb).2; rw [e] at this; exact this) hy
          · exact absurd (by have := (hends b hb).1; rw [e] at this; exact this) hy
    · have hxg : x ∉ g.nodeList := by rw [ng, hlen]; exact hx
      constructor
      · intro hm; simp [Graph.nbrs, wg.adj_get?_eq_none hxg] at hm
      · rintro ⟨b, hb, e | e⟩
        · exact absurd (by have := (hends b hb).1; rw [e] at this; exact this) hx
        · exact absurd (by have := (hends b hb).2; rw [e] at this; exact this) hx

open Contracts.V2000 (Item endLine lineKind specGet atomDict fieldInt field) in
/-- the rejecting counterpart: a negative isotope mass or radical state after the property block, or a
bond line from an atom to itself → `MolfileParserException` -/
theorem graph_from_molfile_text_v2000_reject (env : DepEnv) (fuel : Nat) (text : Str) (h0 h1 h2 counts : Str)
    (atomLines bondLines : List Str) (attrs : List Attrs) (bonds : List ((Int × Int) × Attrs))
    (items : List Item) (post : List Str)
    (hlines : splitlines text =
      h0 :: h1 :: h2 :: counts :: (atomLines ++ (bondLines ++ (items.map Item.render ++ endLine :: post))))
    (hver : lastWord counts = py!"V2000")
    (hna : fieldInt (field counts 0 3) = .ok atomLines.length)
    (hnb : fieldInt (field counts 3 3) = .ok bondLines.length)
    (hnl : fieldInt (field counts 6 3) = .ok 0)
    (hatoms : List.Forall₂ (fun l a => Tucan.molfile_v2000_reader._parse_atom_line env l = .ok a) atomLines attrs)
    (hbonds : List.Forall₂ (fun l b => Tucan.molfile_v2000_reader._parse_bond_line env l (atomDict attrs) = .ok b)
      bondLines bonds)
    (hbl : ∀ l ∈ bondLines, lineKind l = none ∧ l ≠ endLine)
    (hitems : ∀ it ∈ items, it.Legal (atomDict attrs))
    (hbad : (∃ (i : Nat) (hi : i < attrs.length), ∃ k ∈ ["mass", "rad"], ∃ v,
        specGet (items.filterMap Item.parsed) i attrs[i] k = some v ∧ isNeg v = true) ∨
      ∃ b ∈ bonds, b.1.1 = b.1.2) :
    Tucan.molfile_reader.graph_from_molfile_text env fuel text = parserError := by
  obtain ⟨r, hr, hkeys, hget⟩ := Contracts.V2000.graph_attributes_from_molfile_v2000_ok env h0 h1 h2 counts
    atomLines bondLines attrs bonds items post hna hnb hnl hatoms hbonds hbl hitems
  rw [graph_from_molfile_text_eq]
  unfold readSpec
  rw [hlines]
  have h3 : (h0 :: h1 :: h2 :: counts :: (atomLines ++ (bondLines ++ (items.map Item.render ++ endLine :: post))))[3]? =
      some counts := rfl
  have hne : py!"V2000" ≠ py!"V3000" := by decide
  simp only [h3, hver, hne, if_true, if_false, hr, ok_bind]
  apply molGraph_reject
  rcases hbad with ⟨i, hi, k, hk, v, hv, hvn⟩ | ⟨b, hb, he⟩
  · left
    obtain ⟨new, hnew, _, hs⟩ := hget i hi
    exact ⟨(↑i, new), Dict.mem_items_of_get? hnew, k, hk, v, by rw [hs, hv], hvn⟩
  · right
    refine ⟨b.1, ?_, he⟩
    rw [Dict.ofPairs_eq_updatePairs, Dict.mem_keys_updatePairs]
    exact Or.inr (List.mem_map_of_mem hb)

/-! ## sanity checks of the specs on concrete data, and axioms -/

example : lastWord py!"  0  0  0     0  0            999 V3000  " = py!"V3000" := by decide
example : lastWord py!"  2  1  0  0  0  0  0  0  0  0999 V2000" = py!"V2000" := by decide
example : splitlines py!"a\r\nb\n\nc\r" = [py!"a", py!"b", py!"", py!"c"] := by decide
example : dropFinalEmpty [py!"a", py!""] = [py!"a"] := by decide

/-- `M  V30 1   C  0 0 0 0 CHG=1` with two extra blanks before `C`, one before the first `0`, two trailing
blanks, cut after 9 and after 5 more characters -/
example : renderLine { gaps := [0, 2, 1], trail := 2, cuts := [9, 5] }
      [py!"1", py!"C", py!"0", py!"0", py!"0", py!"0", py!"CHG=1"] =
    [py!"M  V30 1   C  0 -", py!"M  V30 0 0 0-", py!"M  V30  CHG=1  "] := by decide

example : tokens py!"M  V30 1   C  0 0 0 0 CHG=1  " =
    [py!"M", py!"V30", py!"1", py!"C", py!"0", py!"0", py!"0", py!"0", py!"CHG=1"] := by decide

/-- a whole file: CO with a charge, atom indices 7 and 3, the first atom line continued -/
def exampleCtab : Ctab :=
  ⟨[⟨py!"7", py!"C", py!"0", py!"0", py!"0", py!"0", [⟨py!"CHG", py!"1", []⟩]⟩,
    ⟨py!"3", py!"O", py!"1.2", py!"0", py!"0", py!"0", []⟩], [⟨py!"1", py!"2", py!"7", py!"3", [], none⟩]⟩
def exampleDress : Dress where
  h0 := py!"name"
  h1 := py!""
  h2 := py!"comment"
  h3 := py!"  0  0  0     0  0            999 V3000"
  cntA := py!"2"
  cntB := py!"1"
  cntRest := [py!"0", py!"0", py!"0"]
  extra := [[py!"END", py!"CTAB"]]
  tail := [py!"M  END"]
  spell := fun i => if i = 3 then { gaps := [0, 2], cuts := [6] } else {}

example : fileLines exampleCtab exampleDress =
    [py!"name", py!"", py!"comment", py!"  0  0  0     0  0            999 V3000",
      py!"M  V30 BEGIN CTAB", py!"M  V30 COUNTS 2 1 0 0 0", py!"M  V30 BEGIN ATOM",
      py!"M  V30 7   C -", py!"M  V30 0 0 0 0 CHG=1", py!"M  V30 3 O 1.2 0 0 0", py!"M  V30 END ATOM",
      py!"M  V30 BEGIN BOND", py!"M  V30 1 2 7 3", py!"M  V30 END BOND", py!"M  V30 END CTAB", py!"M  END"] := by
  decide

example : NegAttr ⟨[("mass", Val.int (-3))]⟩ := by decide
example : ¬ NegAttr ⟨[("mass", Val.int 13), ("rad", Val.int 2), ("chg", Val.int (-1))]⟩ := by decide
example (env : DepEnv) : Tucan.molfile_reader._validate_bonds env ⟨[((0, 1), Dict.empty), ((2, 2), Dict.empty)]⟩ = parserError := by
  rw [_validate_bonds_eq]; decide

#print axioms _validate_atom_attributes_eq
#print axioms _validate_bonds_eq
#print axioms graph_from_molfile_text_eq
#print axioms fileMeaning_plain_graph
#print axioms fileMeaning_plain_reject
#print axioms graph_from_molfile_text_render_ok
#print axioms graph_from_molfile_text_render_reject
#print axioms same_identity_ctab_reject
#print axioms graph_from_molfile_text_v2000_reject
#print axioms splitlines_join
#print axioms splitlines_crlf
#print axioms tokens_lineText
#print axioms splice_renderLines
#print axioms graph_attributes_fileLines
#print axioms graph_from_molfile_text_v3000
#print axioms graph_from_molfile_text_render
#print axioms graph_from_molfile_text_dress_irrelevant
#print axioms graph_from_molecule_general
#print axioms same_identity_graph
#print axioms same_identity_ctab
#print axioms graph_from_molfile_text_v2000

end Contracts.Reader
