/-
Contracts.Reader — the top-level molfile reader `graph_from_molfile_text` (C06, C07):
 1. dispatch on the version word of line 3 (`graph_from_molfile_text_eq`),
 2. line-ending independence of `splitlines` (`splitlines_join`, `splitlines_crlf`),
 3. a renderer of V3000 connection tables to physical lines with every spelling freedom the format
    permits (blank runs, trailing blanks, continuation dashes at arbitrary cut points, arbitrary header
    lines, further V30 lines after the bond block) and the theorem that the reader maps every such
    rendering to the meaning of the connection table.
-/
import Generated.Reader
import Contracts.V30Line
import Contracts.V3000
import Contracts.V2000
import Contracts.Parser
set_option autoImplicit false
open Py

namespace Contracts.Reader

open Contracts.V30Line (v30 phys splice tokens splice_phys tokenize_lines_ok)
open Contracts.V3000 (AtomLine BondLine Clean CtabAt AtomBlockAt BondBlockAt ctabMeaning parserError)

/-! ## 1. `str.split(" ")` without fuel, last word -/

/-- `s.split(" ")` as a structural recursion (`cur` = reversed current word) -/
def sp : Str → Str → List Str
  | [], cur => [cur.reverse]
  | c :: cs, cur => if c = ' ' then cur.reverse :: sp cs [] else sp cs (c :: cur)

theorem splitOnAux_blank (s : Str) : ∀ (fuel : Nat) (cur : Str), s.length < fuel →
    splitOnAux [' '] fuel s cur = sp s cur := by
  induction s with
  | nil => intro fuel cur h; cases fuel <;> simp [splitOnAux, sp]
  | cons c cs ih =>
    intro fuel cur h
    cases fuel with
    | zero => simp at h
    | succ f =>
      have hf : cs.length < f := by simpa using h
      by_cases hc : c = ' '
      · subst hc
        simp [splitOnAux, sp, ih f [] hf]
      · have : ¬ ([' '] <+: c :: cs) := by
          intro hp
          obtain ⟨t, ht⟩ := hp
          simp at ht
          exact hc ht.1.symm
        simp [splitOnAux, sp, hc, this, ih f (c :: cur) hf]

theorem split_blank (s : Str) : split s py!" " = sp s [] :=
  splitOnAux_blank s _ [] (by simp)

theorem sp_ne_nil (s cur : Str) : sp s cur ≠ [] := by
  induction s generalizing cur with
  | nil => simp [sp]
  | cons c cs ih => by_cases hc : c = ' ' <;> simp [sp, hc, ih]

/-- the text after the last blank -/
def afterLastBlank (s : Str) : Str := (s.reverse.takeWhile (· ≠ ' ')).reverse

/-- the last blank-separated word of a line, trailing whitespace ignored -/
def lastWord (l : Str) : Str := afterLastBlank (rstrip l)

theorem takeWhile_append_cons_neg {α} (p : α → Bool) (x : List α) (c : α) (y : List α) (hc : p c = false) :
    (x ++ c :: y).takeWhile p = x.takeWhile p := by
  induction x with
  | nil => simp [hc]
  | cons a x ih => by_cases ha : p a = true <;> simp [ha, ih]

theorem sp_getLast (s : Str) : ∀ cur : Str, ' ' ∉ cur →
    (sp s cur).getLast? = some (afterLastBlank (cur.reverse ++ s)) := by
  induction s with
  | nil =>
    intro cur h
    simp only [sp, afterLastBlank, List.append_nil, List.reverse_reverse, List.getLast?_singleton,
      Option.some.injEq]
    symm
    rw [List.reverse_eq_iff, List.reverse_reverse, List.takeWhile_eq_self_iff]
    intro c hc
    simp only [ne_eq, decide_not, Bool.not_eq_eq_eq_not, Bool.not_true, decide_eq_false_iff_not]
    rintro rfl; exact h hc
  | cons c cs ih =>
    intro cur h
    by_cases hc : c = ' '
    · subst hc
      simp only [sp, if_true]
      rw [List.getLast?_cons_of_ne_nil (sp_ne_nil _ _)]
      rw [ih [] (by simp)]
      simp only [afterLastBlank, List.reverse_nil, List.nil_append, List.reverse_append, List.reverse_cons,
        List.reverse_reverse, List.append_assoc, List.singleton_append]
      rw [takeWhile_append_cons_neg _ _ _ _ (by simp)]
    · simp only [sp, hc, if_false]
      rw [ih (c :: cur) (by simp [h, Ne.symm hc])]
      simp

theorem getItem_last {α} (l : List α) (x : α) (h : l.getLast? = some x) : getItem l (-1 : Int) = .ok x := by
  rcases List.eq_nil_or_concat l with rfl | ⟨l', y, rfl⟩
  · simp at h
  · simp at h; subst h
    rw [List.concat_eq_append]
    exact Contracts.V3000.getItem_neg_one l' y

/-- `line.rstrip().split(" ")[-1]` is the last word of the line -/
theorem version_word (l : Str) : getItem (split (rstrip l) py!" ") (-1 : Int) = .ok (lastWord l) := by
  apply getItem_last
  rw [split_blank, sp_getLast _ [] (by simp)]
  rfl

/-! ## 1. the dispatcher -/

/-- specification of the top-level reader: split into lines; the last word of line 3 (0-based) selects
the connection-table reader (no line 3 → `IndexError`, unknown version → `MolfileParserException`);
the atom and bond dictionaries are turned into a graph by `graph_from_molecule` -/
def readSpec (env : DepEnv) (fuel : Nat) (text : Str) : M Graph :=
  match (splitlines text)[3]? with
  | none => throw .index
  | some l3 => do
    let AB ← (if lastWord l3 = py!"V3000" then
        Tucan.molfile_v3000_reader.graph_attributes_from_molfile_v3000 env fuel (splitlines text)
      else if lastWord l3 = py!"V2000" then
        Tucan.molfile_v2000_reader.graph_attributes_from_molfile_v2000 env (splitlines text)
      else throw (Err.custom "MolfileParserException"))
    let gR ← Tucan.graph_utils.graph_from_molecule env AB.1 AB.2
    pure gR.1

theorem getItem_3_eq {α} (l : List α) :
    (getItem l (3 : Int) : M α) = match l[3]? with | some a => .ok a | none => .error .index := by
  show listGet l 3 = _
  simp only [listGet, normIndex]
  cases h : l[3]? <;> simp [h]

/-- **deliverable 1**: `graph_from_molfile_text` equals its specification, rejecting paths included -/
theorem graph_from_molfile_text_eq (env : DepEnv) (fuel : Nat) (text : Str) :
    Tucan.molfile_reader.graph_from_molfile_text env fuel text = readSpec env fuel text := by
  unfold Tucan.molfile_reader.graph_from_molfile_text readSpec
  simp only [getItem_3_eq]
  cases h3 : (splitlines text)[3]? with
  | none => rfl
  | some l3 =>
    simp only [ok_bind, version_word, pyEq, PyCmp.eq]
    by_cases h30 : lastWord l3 = py!"V3000"
    · simp only [h30, decide_true, if_true]
    · by_cases h20 : lastWord l3 = py!"V2000"
      · have hne : py!"V2000" ≠ py!"V3000" := by decide
        simp only [h20, hne, decide_false, decide_true, if_true, if_false, Bool.false_eq_true]
      · simp only [h30, h20, decide_false, if_false, Bool.false_eq_true]
        rfl

/-! ## 2. line endings -/

/-- a line: no character that `str.splitlines` treats as a line boundary -/
def NoBreak (l : Str) : Prop := ∀ c ∈ l, isLineBreak c = false

theorem splitlinesAux_nil (cur : Str) : splitlinesAux [] cur = if cur = [] then [] else [cur.reverse] := by
  rw [splitlinesAux]

theorem splitlinesAux_crlf (cs cur : Str) :
    splitlinesAux ('\r' :: '\n' :: cs) cur = cur.reverse :: splitlinesAux cs [] := by
  rw [splitlinesAux]

theorem splitlinesAux_char (c : Char) (cs cur : Str) (hc : isLineBreak c = false) :
    splitlinesAux (c :: cs) cur = splitlinesAux cs (c :: cur) := by
  rw [splitlinesAux]
  · simp [hc]
  · rintro cs' rfl; exact absurd hc (by decide)

theorem splitlinesAux_lf (cs cur : Str) :
    splitlinesAux ('\n' :: cs) cur = cur.reverse :: splitlinesAux cs [] := by
  rw [splitlinesAux]
  · simp [isLineBreak]
  · rintro cs' h; cases h

theorem splitlinesAux_cr (cs cur : Str) (h : cs.head? ≠ some '\n') :
    splitlinesAux ('\r' :: cs) cur = cur.reverse :: splitlinesAux cs [] := by
  rw [splitlinesAux]
  · simp [isLineBreak]
  · rintro cs' - rfl; simp at h

theorem splitlinesAux_line (l : Str) (hl : NoBreak l) : ∀ (rest cur : Str),
    splitlinesAux (l ++ rest) cur = splitlinesAux rest (l.reverse ++ cur) := by
  induction l with
  | nil => intro rest cur; rfl
  | cons c l ih =>
    intro rest cur
    rw [List.cons_append, splitlinesAux_char c _ _ (hl c (by simp)), ih (fun d hd => hl d (by simp [hd]))]
    simp

theorem join_single (sep l : Str) : join sep [l] = l := by simp [join, List.intercalate]

theorem join_cons_cons (sep l l' : Str) (r : List Str) :
    join sep (l :: l' :: r) = l ++ (sep ++ join sep (l' :: r)) := by
  simp [join, List.intercalate]

/-- what `splitlines` makes of lines joined by a separator: a final empty line is lost (as in Python:
`"a\n".splitlines() == ["a"]`) -/
def dropFinalEmpty (ls : List Str) : List Str := if ls.getLast? = some [] then ls.dropLast else ls

theorem dropFinalEmpty_of_ne (ls : List Str) (h : ls.getLast? ≠ some []) : dropFinalEmpty ls = ls := by
  simp [dropFinalEmpty, h]

theorem dropFinalEmpty_cons_cons (l l' : Str) (r : List Str) :
    dropFinalEmpty (l :: l' :: r) = l :: dropFinalEmpty (l' :: r) := by
  simp only [dropFinalEmpty, List.getLast?_cons_cons, List.dropLast_cons_cons]
  split_ifs <;> rfl

/-- a line separator: behaves like one in front of anything that follows it in a joined text -/
structure IsSep (sep : Str) : Prop where
  split : ∀ rest cur, (sep = ['\n'] ∨ rest.head? ≠ some '\n') →
    splitlinesAux (sep ++ rest) cur = cur.reverse :: splitlinesAux rest []
  head : sep = ['\n'] ∨ ∃ c r, sep = c :: r ∧ c ≠ '\n'

theorem isSep_lf : IsSep py!"\n" := ⟨fun rest cur _ => splitlinesAux_lf rest cur, Or.inl rfl⟩
theorem isSep_crlf : IsSep py!"\r\n" :=
  ⟨fun rest cur _ => splitlinesAux_crlf rest cur, Or.inr ⟨'\r', ['\n'], rfl, by decide⟩⟩
theorem isSep_cr : IsSep py!"\r" :=
  ⟨fun rest cur h => splitlinesAux_cr rest cur (h.resolve_left (by decide)), Or.inr ⟨'\r', [], rfl, by decide⟩⟩

theorem head_join (sep : Str) (hs : IsSep sep) : ∀ ls : List Str, (∀ l ∈ ls, NoBreak l) →
    sep = ['\n'] ∨ (join sep ls).head? ≠ some '\n' := by
  intro ls hls
  rcases hs.head with h | ⟨c, r, rfl, hc⟩
  · exact Or.inl h
  refine Or.inr ?_
  have hline : ∀ l : Str, NoBreak l → ∀ rest : Str, rest.head? ≠ some '\n' → (l ++ rest).head? ≠ some '\n' := by
    intro l hl rest hr
    cases l with
    | nil => simpa using hr
    | cons d l =>
      simp only [List.cons_append, List.head?_cons, ne_eq, Option.some.injEq]
      rintro rfl; exact absurd (hl '\n' (by simp)) (by decide)
  match ls, hls with
  | [], _ => simp [join]
  | [l], hls => rw [join_single]; simpa using hline l (hls l (by simp)) [] (by simp)
  | l :: l' :: r', hls =>
    rw [join_cons_cons]
    exact hline l (hls l (by simp)) _ (by simpa using hc)

theorem splitlinesAux_join (sep : Str) (hs : IsSep sep) : ∀ ls : List Str, ls ≠ [] → (∀ l ∈ ls, NoBreak l) →
    splitlinesAux (join sep ls) [] = dropFinalEmpty ls := by
  intro ls
  induction ls with
  | nil => intro h; exact absurd rfl h
  | cons l r ih =>
    intro _ hls
    cases r with
    | nil =>
      rw [join_single]
      have := splitlinesAux_line l (hls l (by simp)) [] []
      rw [List.append_nil] at this
      rw [this, splitlinesAux_nil]
      by_cases hl : l = [] <;> simp [dropFinalEmpty, hl]
    | cons l' r =>
      have hr : ∀ x ∈ l' :: r, NoBreak x := fun x hx => hls x (by simp [List.mem_cons.mp hx])
      rw [join_cons_cons, splitlinesAux_line l (hls l (by simp)), hs.split _ _ (head_join sep hs _ hr),
        ih (by simp) hr, dropFinalEmpty_cons_cons]
      simp

/-- **deliverable 2** (general form): `splitlines` undoes joining lines with LF, CRLF or CR, except that a
final empty line is lost -/
theorem splitlines_join (sep : Str) (hs : IsSep sep) (ls : List Str) (hls : ∀ l ∈ ls, NoBreak l) :
    splitlines (join sep ls) = dropFinalEmpty ls := by
  cases ls with
  | nil => simp [splitlines, join, dropFinalEmpty, splitlinesAux_nil]
  | cons l r => exact splitlinesAux_join sep hs _ (by simp) hls

/-- **deliverable 2** (C06, line-ending style): for lines without line-break characters whose last line is
not empty, CRLF-, LF- and CR-terminated texts split into the same lines, namely the given ones -/
theorem splitlines_crlf (ls : List Str) (hls : ∀ l ∈ ls, NoBreak l) (hlast : ls.getLast? ≠ some []) :
    splitlines (join py!"\r\n" ls) = ls ∧ splitlines (join py!"\n" ls) = ls ∧ splitlines (join py!"\r" ls) = ls := by
  rw [splitlines_join _ isSep_crlf ls hls, splitlines_join _ isSep_lf ls hls, splitlines_join _ isSep_cr ls hls,
    dropFinalEmpty_of_ne ls hlast]
  exact ⟨rfl, rfl, rfl⟩

/-- a terminator after the last line makes no difference (files normally end with a line break) -/
theorem splitlines_join_terminated (sep : Str) (hs : IsSep sep) (ls : List Str) (hls : ∀ l ∈ ls, NoBreak l) :
    splitlines (join sep (ls ++ [[]])) = ls := by
  rw [splitlines_join sep hs _ (by
    intro l hl; rcases List.mem_append.mp hl with h | h
    · exact hls l h
    · simp at h; subst h; intro c hc; cases hc)]
  simp [dropFinalEmpty]

/-! ## 3. spelling of V30 lines: blank runs, trailing blanks, continuation dashes -/

def blanks (n : Nat) : Str := List.replicate n ' '

/-- the tokens `ts`, token `i` preceded by a run of `gs[i] + 1` blanks (one blank where `gs` is exhausted) -/
def gapped : List Str → List Nat → Str
  | [], _ => []
  | t :: ts, gs => blanks (gs.headD 0 + 1) ++ (t ++ gapped ts gs.tail)

/-- the spelling choices for one logical V30 line: lengths of the blank runs (beyond the mandatory one
blank) before each token, number of trailing blanks, and the lengths of the pieces into which the line
is cut for continuation (every piece but the last gets a trailing `-`, every piece the prefix `M  V30 `) -/
structure Spell where
  gaps : List Nat := []
  trail : Nat := 0
  cuts : List Nat := []

/-- the text of a logical V30 line after the prefix `M  V30 ` -/
def body (s : Spell) (ts : List Str) : Str := (gapped ts s.gaps).drop 1 ++ blanks s.trail

/-- the logical V30 line with tokens `M V30 ts` -/
def lineText (s : Spell) (ts : List Str) : Str := v30 ++ body s ts

/-- cut a text into pieces of the given lengths (the last piece takes the rest; lengths beyond the end
of the text give empty pieces, which the format also permits) -/
def cut : List Nat → Str → List Str
  | [], s => [s]
  | n :: ns, s => s.take n :: cut ns (s.drop n)

theorem cut_ne_nil (ns : List Nat) (s : Str) : cut ns s ≠ [] := by cases ns <;> simp [cut]

theorem cut_flatten (ns : List Nat) : ∀ s : Str, (cut ns s).flatten = s := by
  induction ns with
  | nil => intro s; simp [cut]
  | cons n ns ih => intro s; simp [cut, ih]

/-- every way of cutting a text into pieces is a `cut` -/
theorem cut_surjective (pieces : List Str) (hne : pieces ≠ []) :
    cut (pieces.dropLast.map List.length) pieces.flatten = pieces := by
  induction pieces with
  | nil => exact absurd rfl hne
  | cons p r ih =>
    cases r with
    | nil => simp [cut]
    | cons q r =>
      have := ih (by simp)
      simp only [List.dropLast_cons_cons, List.map_cons, cut, List.flatten_cons, List.take_left',
        List.drop_left', List.cons.injEq, true_and]
      simpa using this

/-- the physical lines of one logical V30 line -/
def renderLine (s : Spell) (ts : List Str) : List Str := phys (cut s.cuts (body s ts))

/-- a line the reader takes for the first part of a continued line -/
def Cont (l : Str) : Prop := startswith l v30 = true ∧ endswith l ['-'] = true

theorem splice_notCont (l : Str) (rest : List Str) (h : ¬ Cont l) :
    splice (l :: rest) = (do let t ← splice rest; pure (l :: t)) := by
  cases rest with
  | nil => simp [splice]
  | cons l₂ r =>
    rw [splice]
    have : (startswith l v30 && endswith l ['-']) = false := by
      rw [Bool.eq_false_iff]; intro hc; exact h (by simpa [Cont] using hc)
    simp [this]

theorem splice_all_notCont (ls : List Str) (h : ∀ l ∈ ls, ¬ Cont l) : splice ls = .ok ls := by
  induction ls with
  | nil => simp [splice]
  | cons l r ih => rw [splice_notCont l r (h l (by simp)), ih (fun x hx => h x (by simp [hx]))]; rfl

/-- the reader splices the physical lines of a logical line back together, whatever the cut points,
provided the logical line does not end in `-` (which the format forbids, since a final `-` means
"continued") -/
theorem splice_renderLine (s : Spell) (ts : List Str) (rest : List Str)
    (hdash : (body s ts).getLast? ≠ some '-') :
    splice (renderLine s ts ++ rest) = (do let t ← splice rest; pure (lineText s ts :: t)) := by
  unfold renderLine lineText
  have := splice_phys (cut s.cuts (body s ts)) rest (cut_ne_nil _ _) (by rw [cut_flatten]; exact hdash)
  rw [cut_flatten] at this
  exact this

/-! ### tokens of a spelled line -/

theorem rstrip_blanks (x : Str) (n : Nat) : rstrip (x ++ blanks n) = rstrip x := by
  unfold rstrip blanks
  congr 1
  rw [List.reverse_append, List.reverse_replicate]
  induction n with
  | zero => rfl
  | succ n ih => rw [List.replicate_succ, List.cons_append, List.dropWhile_cons]; simpa [isPySpace] using ih

theorem rstrip_of_getLast (x : Str) (h : ∀ c, x.getLast? = some c → isPySpace c = false) : rstrip x = x := by
  unfold rstrip
  rcases List.eq_nil_or_concat x with rfl | ⟨y, c, rfl⟩
  · rfl
  · have hc := h c (by simp)
    simp [List.dropWhile_cons, hc]

theorem getLast_gapped (ts : List Str) (hts : ∀ t ∈ ts, Clean t) : ∀ (p : Str) (gs : List Nat),
    (∀ c, p.getLast? = some c → isPySpace c = false) →
    ∀ c, (p ++ gapped ts gs).getLast? = some c → isPySpace c = false := by
  induction ts with
  | nil => intro p gs hp c hc; exact hp c (by simpa [gapped] using hc)
  | cons t ts ih =>
    intro p gs hp c hc
    have ht := hts t (by simp)
    have : p ++ gapped (t :: ts) gs = (p ++ blanks (gs.headD 0 + 1) ++ t) ++ gapped ts gs.tail := by
      simp [gapped]
    rw [this] at hc
    refine ih (fun u hu => hts u (by simp [hu])) _ _ ?_ c hc
    intro d hd
    rw [List.getLast?_append_of_ne_nil _ ht.1] at hd
    exact ht.2 d (List.mem_of_getLast? hd)

theorem sp_blanks (n : Nat) (r : Str) : (sp (blanks n ++ r) []).filter (· ≠ []) = (sp r []).filter (· ≠ []) := by
  induction n with
  | zero => rfl
  | succ n ih => simpa [blanks, List.replicate_succ, sp] using ih

theorem sp_word (t : Str) (ht : ' ' ∉ t) : ∀ (r cur : Str), sp (t ++ r) cur = sp r (t.reverse ++ cur) := by
  induction t with
  | nil => intro r cur; rfl
  | cons c t ih =>
    intro r cur
    have hc : c ≠ ' ' := fun e => ht (by simp [e])
    simp [sp, hc, ih (fun h => ht (by simp [h]))]

theorem clean_no_blank {t : Str} (h : Clean t) : ' ' ∉ t := fun hc => by
  have := h.2 ' ' hc; revert this; decide

theorem sp_gapped (ts : List Str) (hts : ∀ t ∈ ts, Clean t) : ∀ (gs : List Nat) (cur : Str), cur ≠ [] →
    (sp (gapped ts gs) cur).filter (· ≠ []) = cur.reverse :: ts := by
  induction ts with
  | nil => intro gs cur hcur; simp [gapped, sp, hcur]
  | cons t ts ih =>
    intro gs cur hcur
    have ht := hts t (by simp)
    have e1 : gapped (t :: ts) gs = ' ' :: (blanks (gs.headD 0) ++ (t ++ gapped ts gs.tail)) := by
      simp [gapped, blanks, List.replicate_succ]
    rw [e1]
    simp only [sp, if_true]
    rw [List.filter_cons_of_pos (by simpa using hcur), sp_blanks, sp_word t (clean_no_blank ht),
      ih (fun u hu => hts u (by simp [hu])) _ _ (by simpa using ht.1)]
    simp

/-- **tokens of a spelled line** (`tokens_join_blanks`): whatever the blank runs and trailing blanks, the
reader's tokenizer returns `M`, `V30` and the tokens -/
theorem tokens_lineText (s : Spell) (ts : List Str) (hts : ∀ t ∈ ts, Clean t) :
    tokens (lineText s ts) = py!"M" :: py!"V30" :: ts := by
  have hV : Clean py!"V30" := by refine ⟨by simp, ?_⟩; decide
  have key : ∀ (us : List Str) (gs : List Nat) (n : Nat), (∀ t ∈ us, Clean t) →
      tokens ('M' :: (gapped us gs ++ blanks n)) = py!"M" :: us := by
    intro us gs n hus
    unfold tokens
    rw [show 'M' :: (gapped us gs ++ blanks n) = (['M'] ++ gapped us gs) ++ blanks n by simp, rstrip_blanks,
      rstrip_of_getLast _ (getLast_gapped us hus ['M'] gs (by simp; decide)), split_blank]
    simp only [List.singleton_append, sp, Char.reduceEq, if_false]
    rw [sp_gapped us hus gs ['M'] (by simp)]
    rfl
  have hline : ∃ n, lineText s ts = 'M' :: (gapped (py!"V30" :: ts) (1 :: s.gaps) ++ blanks n) := by
    unfold lineText body
    cases ts with
    | nil => exact ⟨s.trail + 1, by simp [gapped, v30, blanks, List.replicate_succ]⟩
    | cons t ts => exact ⟨s.trail, by simp [gapped, v30, blanks, List.replicate_succ]⟩
  obtain ⟨n, hn⟩ := hline
  rw [hn, key _ _ _ (by intro t ht; rcases List.mem_cons.mp ht with rfl | h; exacts [hV, hts t h])]

end Contracts.Reader
