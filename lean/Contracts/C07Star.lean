/-
Contracts.C07Star — closes audit finding 7 (property C07):
 1. star atoms at the text level (`graph_from_molfile_text_render_star`): every rendering of a
    connection table that may contain star atoms is read as the graph of its non-star atoms, a bond to
    a star atom standing for one bond per `ENDPTS` endpoint;
 2. keyword order (`atom_line_keyword_order`, `keyword_order_text`) and the documented choices where
    the format is silent (`duplicate_key_last_wins`, `hydrogen_isotope_overrides_mass`);
 3. the prefix-scan side condition `NoOpt`: discharged for lines whose tokens are numbers, symbols and
    `KEY=value` tokens (`noOpt_foreign_token`, `wf_of_format`), and the concrete line on which it fails
    (`quoted_value_misread`: a quoted string value with blanks).
 4. a concrete 19-line file with a star atom satisfying every hypothesis (`star_witness`).
The bond types of the expanded bonds are in `Contracts.C07StarBonds` (which needs `Contracts.Bonds`).
-/
import Contracts.Reader
import Contracts.V3000
import Contracts.V30Line
import Spec.BlissModel
set_option autoImplicit false
open Py

namespace Contracts.C07Star

open Contracts.V3000
open Contracts.Reader (Ctab Dress fileLines IsSep fileMeaning attrsOf molGraph molGraph_ok molGraph_reject
  parseInt_of_isInt NegMolecule SelfBonded MolOK graph_from_molecule_general general_at
  graph_from_molfile_text_render mkAtomAttrs_wf mkAtomAttrs_get negMolecule_atomDict)
open Contracts.Parser (withCode)

/-! ## 1. star atoms -/

/-- the non-star atom lines, in file order -/
def real (C : Ctab) : List AtomLine := C.atoms.filter (fun a => decide (a.sym ≠ py!"*"))

/-- the file indices of the star atom lines -/
def starIdx (C : Ctab) : List Int :=
  (C.atoms.filter (fun a => decide (a.sym = py!"*"))).map (fun a => intOf a.idx)

/-- the file indices of the non-star atom lines -/
def realIdx (C : Ctab) : List Int := (real C).map (fun a => intOf a.idx)

/-- `ENDPTS=(n a1 … an)`: the first number is the count, the others are the endpoints -/
def endpointsOf (b : BondLine) : List Int :=
  match b.endpts with
  | some (nums, _) => (nums.map intOf).tail
  | none => []

/-- **CTfile rule for a bond line** (file indices, 1-based as written): an ordinary bond line joins its two
atoms; a bond line one of whose atoms is a star atom is a multi-endpoint bond — the other atom is bonded
to each atom listed in `ENDPTS`. -/
def bondLinks (C : Ctab) (b : BondLine) : List (Int × Int) :=
  if intOf b.a1 ∈ starIdx C then (endpointsOf b).map (fun e => (intOf b.a2, e))
  else if intOf b.a2 ∈ starIdx C then (endpointsOf b).map (fun e => (intOf b.a1, e))
  else [(intOf b.a1, intOf b.a2)]

/-- the atoms with file indices `m` and `n` are bonded (in either direction) by some bond line -/
def linked (C : Ctab) (m n : Int) : Prop :=
  ∃ b ∈ C.bonds, (m, n) ∈ bondLinks C b ∨ (n, m) ∈ bondLinks C b

/-- a readable connection table that may contain star atoms -/
structure Starry (env : DepEnv) (C : Ctab) : Prop where
  /-- every atom line is well formed (integer index, integer CHG/MASS/RAD values, …) -/
  wf : ∀ a ∈ C.atoms, a.WF
  /-- the symbol of a non-star atom is in the element table (or D/T) -/
  known : ∀ a ∈ C.atoms, a.sym ≠ py!"*" → ∃ Z, atomicNumber (hydrogenIsotope a.sym).1 = .ok Z
  /-- `float()` accepts the coordinates of a non-star atom -/
  coords : ∀ a ∈ C.atoms, a.sym ≠ py!"*" → (∃ f, env.parseFloat a.x = .ok f) ∧ (∃ f, env.parseFloat a.y = .ok f) ∧
    (∃ f, env.parseFloat a.z = .ok f)
  /-- atom indices are unique (star atoms included) -/
  uniq : (C.atoms.map (fun a => intOf a.idx)).Nodup
  /-- bond type and atom numbers are integers -/
  bondInts : ∀ b ∈ C.bonds, IsInt b.a1 ∧ IsInt b.a2 ∧ IsInt b.typ
  /-- no bond between two star atoms -/
  noStarStar : ∀ b ∈ C.bonds, ¬ (intOf b.a1 ∈ starIdx C ∧ intOf b.a2 ∈ starIdx C)
  /-- a bond to a star atom carries `ENDPTS=(n a1 … an)`: integers, the first being the number of the others -/
  star : ∀ b ∈ C.bonds, (intOf b.a1 ∈ starIdx C ∨ intOf b.a2 ∈ starIdx C) →
    ∃ nums post, b.endpts = some (nums, post) ∧ (∀ t ∈ nums, IsInt t) ∧
      ∃ n es, nums.map intOf = n :: es ∧ n = es.length
  /-- every atom a bond joins (the two atoms of an ordinary bond; the non-star atom and the listed
  endpoints of a star bond) is a non-star atom of the table -/
  ends : ∀ b ∈ C.bonds, ∀ p ∈ bondLinks C b, p.1 ∈ realIdx C ∧ p.2 ∈ realIdx C

/-- some non-star atom line states a negative isotope mass or radical state -/
def NegMassRad (C : Ctab) : Prop := (Ctab.mk (real C) []).NegMassRad
/-- some bond line bonds an atom to itself -/
def SelfLink (C : Ctab) : Prop := ∃ b ∈ C.bonds, ∃ p ∈ bondLinks C b, p.1 = p.2

/-! ### atom block -/

def entryOf (env : DepEnv) (a : AtomLine) : Int × Option Attrs :=
  (intOf a.idx - 1, if a.sym = py!"*" then none else some (attrsOf env a))

theorem atomEntries_starry (env : DepEnv) (atoms : List AtomLine) (hwf : ∀ a ∈ atoms, a.WF)
    (hk : ∀ a ∈ atoms, a.sym ≠ py!"*" → ∃ Z, atomicNumber (hydrogenIsotope a.sym).1 = .ok Z)
    (hc : ∀ a ∈ atoms, a.sym ≠ py!"*" → (∃ f, env.parseFloat a.x = .ok f) ∧ (∃ f, env.parseFloat a.y = .ok f) ∧
      (∃ f, env.parseFloat a.z = .ok f)) :
    atomEntries env atoms = .ok (atoms.map (entryOf env)) := by
  induction atoms with
  | nil => rfl
  | cons a r ih =>
    have ih' := ih (fun b hb => hwf b (by simp [hb])) (fun b hb => hk b (by simp [hb]))
      (fun b hb => hc b (by simp [hb]))
    by_cases hs : a.sym = py!"*"
    · have hm : atomMeaning env a = .ok none := by unfold atomMeaning; rw [if_pos hs]; rfl
      simp only [atomEntries, parseInt_of_isInt (hwf a (by simp)).idx, hm, ih', ok_bind, pure_eq_ok, List.map_cons,
        entryOf, hs, if_true]
    · obtain ⟨Z, hZ⟩ := hk a (by simp) hs
      obtain ⟨⟨fx, hx⟩, ⟨fy, hy⟩, ⟨fz, hz⟩⟩ := hc a (by simp) hs
      have hm := atomMeaning_ok env a (hwf a (by simp)) hs Z fx fy fz hZ hx hy hz
      have : attrsOf env a = atomAttrs a Z fx fy fz := by
        simp [attrsOf, Contracts.Reader.zOf, Contracts.Reader.fltOf, hZ, hx, hy, hz]
      simp only [atomEntries, parseInt_of_isInt (hwf a (by simp)).idx, hm, ih', ok_bind, pure_eq_ok, List.map_cons,
        entryOf, hs, if_false, this]

theorem nonStar_entries (env : DepEnv) (atoms : List AtomLine) :
    nonStar (atoms.map (entryOf env)) =
      (atoms.filter (fun a => decide (a.sym ≠ py!"*"))).map (fun a => (intOf a.idx - 1, attrsOf env a)) := by
  induction atoms with
  | nil => rfl
  | cons a r ih =>
    unfold nonStar at ih ⊢
    by_cases hs : a.sym = py!"*"
    · simp only [List.map_cons, List.filterMap_cons, entryOf, hs, if_true, Option.map_none, ih]
      simp [hs]
    · simp only [List.map_cons, List.filterMap_cons, entryOf, hs, if_false, Option.map_some, ih]
      simp [hs]

theorem stars_entries (env : DepEnv) (atoms : List AtomLine) :
    stars (atoms.map (entryOf env)) =
      (atoms.filter (fun a => decide (a.sym = py!"*"))).map (fun a => intOf a.idx - 1) := by
  induction atoms with
  | nil => rfl
  | cons a r ih =>
    unfold stars at ih ⊢
    by_cases hs : a.sym = py!"*"
    · simp only [List.map_cons, List.filterMap_cons, entryOf, hs, if_true, Option.isNone_none, ih]
      simp [hs]
    · simp only [List.map_cons, List.filterMap_cons, entryOf, hs, if_false, Option.isNone_some, ih]
      simp [hs]

/-- the 0-based star indices the reader keeps -/
def stars0 (C : Ctab) : List Int := (starIdx C).map (fun x => x - 1)

theorem mem_stars0 (C : Ctab) (i : Int) : i - 1 ∈ stars0 C ↔ i ∈ starIdx C := by
  unfold stars0
  constructor
  · intro h
    obtain ⟨a, ha, e⟩ := List.mem_map.mp h
    have : a = i := by omega
    exact this ▸ ha
  · intro h; exact List.mem_map.mpr ⟨i, h, rfl⟩

/-- the atom dictionary: the non-star atoms, `index − 1 ↦ attributes`, in file order -/
def atomDict (env : DepEnv) (C : Ctab) : Dict Int Attrs := (Ctab.mk (real C) []).atomDict env

theorem atomDict_keys (env : DepEnv) (C : Ctab) : (atomDict env C).keys = (realIdx C).map (fun x => x - 1) := by
  unfold atomDict realIdx
  rw [Ctab.atomDict_keys]
  simp [List.map_map, Function.comp_def]

theorem real_sublist (C : Ctab) : (realIdx C).Sublist (C.atoms.map (fun a => intOf a.idx)) :=
  List.Sublist.map _ List.filter_sublist

theorem Starry.plainReal {env : DepEnv} {C : Ctab} (h : Starry env C) : (Ctab.mk (real C) []).Plain env where
  wf := fun a ha => h.wf a (List.mem_of_mem_filter ha)
  nostar := fun a ha => by simpa using (List.mem_filter.mp ha).2
  known := fun a ha => h.known a (List.mem_of_mem_filter ha) (by simpa using (List.mem_filter.mp ha).2)
  coords := fun a ha => h.coords a (List.mem_of_mem_filter ha) (by simpa using (List.mem_filter.mp ha).2)
  uniq := (real_sublist C).nodup h.uniq
  bondInts := by intro b hb; cases hb
  bondEnds := by intro b hb; cases hb

theorem atomBlockMeaning_starry (env : DepEnv) (C : Ctab) (h : Starry env C) :
    atomBlockMeaning env C.atoms = .ok (atomDict env C, stars0 C) := by
  unfold atomBlockMeaning
  rw [atomEntries_starry env C.atoms h.wf h.known h.coords]
  simp only [ok_bind, pure_eq_ok, nonStar_entries, stars_entries]
  have hA : Dict.ofPairs ((C.atoms.filter (fun a => decide (a.sym ≠ py!"*"))).map
      (fun a => (intOf a.idx - 1, attrsOf env a))) = atomDict env C :=
    Dict.ofPairs_of_nodup _ h.plainReal.atomDict_wf
  rw [hA]
  simp [stars0, starIdx, List.map_map, Function.comp_def]

/-! ### bond block -/

/-- file index → the reader's 0-based index -/
def dec (p : Int × Int) : Int × Int := (p.1 - 1, p.2 - 1)

theorem bondMeaning_starry (C : Ctab) (b : BondLine) (hints : IsInt b.a1 ∧ IsInt b.a2 ∧ IsInt b.typ)
    (hss : ¬ (intOf b.a1 ∈ starIdx C ∧ intOf b.a2 ∈ starIdx C))
    (hst : (intOf b.a1 ∈ starIdx C ∨ intOf b.a2 ∈ starIdx C) →
      ∃ nums post, b.endpts = some (nums, post) ∧ (∀ t ∈ nums, IsInt t) ∧
        ∃ n es, nums.map intOf = n :: es ∧ n = es.length) :
    bondMeaning (stars0 C) b = .ok ((bondLinks C b).map dec, bondAttrs (intOf b.typ)) := by
  obtain ⟨h1, h2, h3⟩ := hints
  unfold bondMeaning
  simp only [parseInt_of_isInt h1, parseInt_of_isInt h2, parseInt_of_isInt h3, ok_bind, mem_stars0]
  by_cases s1 : intOf b.a1 ∈ starIdx C
  · have s2 : intOf b.a2 ∉ starIdx C := fun s2 => hss ⟨s1, s2⟩
    obtain ⟨nums, post, he, hint, n, es, hnum, hn⟩ := hst (Or.inl s1)
    simp only [s1, s2, and_false, if_false, if_true, he, starMeaning, intsOf_ok nums hint, ok_bind, hnum, starBondsOf,
      hn, pure_eq_ok, bondLinks, endpointsOf, List.tail_cons, List.map_map]
    rfl
  · by_cases s2 : intOf b.a2 ∈ starIdx C
    · obtain ⟨nums, post, he, hint, n, es, hnum, hn⟩ := hst (Or.inr s2)
      simp only [s1, s2, false_and, if_false, if_true, he, starMeaning, intsOf_ok nums hint, ok_bind, hnum, starBondsOf,
        hn, pure_eq_ok, bondLinks, endpointsOf, List.tail_cons, List.map_map]
      rfl
    · simp only [s1, s2, false_and, if_false, ok_bind, pure_eq_ok, bondLinks, List.map_cons, List.map_nil]
      rfl

/-- the bond dictionary: `(u − 1, v − 1) ↦ {bond_type}` for every link of every bond line, in file order -/
def bondDict (C : Ctab) : Dict (Int × Int) Attrs :=
  Dict.ofPairs (C.bonds.flatMap (fun b => ((bondLinks C b).map dec).map (fun t => (t, bondAttrs (intOf b.typ)))))

theorem bondEntries_starry (C : Ctab) (bonds : List BondLine)
    (h : ∀ b ∈ bonds, bondMeaning (stars0 C) b = .ok ((bondLinks C b).map dec, bondAttrs (intOf b.typ))) :
    bondEntries (stars0 C) bonds =
      .ok (bonds.flatMap (fun b => ((bondLinks C b).map dec).map (fun t => (t, bondAttrs (intOf b.typ))))) := by
  induction bonds with
  | nil => rfl
  | cons b r ih =>
    simp only [bondEntries, h b (by simp), ih (fun c hc => h c (by simp [hc])), ok_bind, pure_eq_ok, List.flatMap_cons]

theorem mem_bondDict_keys (C : Ctab) (k : Int × Int) :
    k ∈ (bondDict C).keys ↔ ∃ b ∈ C.bonds, ∃ p ∈ bondLinks C b, dec p = k := by
  rw [bondDict, Dict.ofPairs_eq_updatePairs, Dict.mem_keys_updatePairs]
  simp only [Dict.keys_empty, List.not_mem_nil, false_or, List.mem_map, List.mem_flatMap]
  constructor
  · rintro ⟨q, ⟨b, hb, t, ⟨p, hp, rfl⟩, rfl⟩, rfl⟩
    exact ⟨b, hb, p, hp, rfl⟩
  · rintro ⟨b, hb, p, hp, rfl⟩
    exact ⟨_, ⟨b, hb, _, ⟨p, hp, rfl⟩, rfl⟩, rfl⟩

theorem dec_inj (p q : Int × Int) (h : dec p = dec q) : p = q := by
  obtain ⟨a, b⟩ := p; obtain ⟨c, d⟩ := q
  simp only [dec, Prod.mk.injEq] at h
  ext <;> simp <;> omega

/-- `(m − 1, n − 1)` is a key of the bond dictionary iff some bond line links `m` to `n` (in this direction) -/
theorem mem_bondDict_keys' (C : Ctab) (m n : Int) :
    (m - 1, n - 1) ∈ (bondDict C).keys ↔ ∃ b ∈ C.bonds, (m, n) ∈ bondLinks C b := by
  rw [mem_bondDict_keys]
  constructor
  · rintro ⟨b, hb, p, hp, e⟩
    have : p = (m, n) := dec_inj p (m, n) e
    exact ⟨b, hb, this ▸ hp⟩
  · rintro ⟨b, hb, hp⟩; exact ⟨b, hb, (m, n), hp, rfl⟩

theorem linked_iff (C : Ctab) (m n : Int) :
    ((m - 1, n - 1) ∈ (bondDict C).keys ∨ (n - 1, m - 1) ∈ (bondDict C).keys) ↔ linked C m n := by
  rw [mem_bondDict_keys', mem_bondDict_keys', linked]
  constructor
  · rintro (⟨b, hb, h⟩ | ⟨b, hb, h⟩)
    · exact ⟨b, hb, Or.inl h⟩
    · exact ⟨b, hb, Or.inr h⟩
  · rintro ⟨b, hb, h | h⟩
    · exact Or.inl ⟨b, hb, h⟩
    · exact Or.inr ⟨b, hb, h⟩

theorem Starry.ends0 {env : DepEnv} {C : Ctab} (h : Starry env C) :
    ∀ k ∈ (bondDict C).keys, k.1 ∈ (atomDict env C).keys ∧ k.2 ∈ (atomDict env C).keys := by
  intro k hk
  obtain ⟨b, hb, p, hp, rfl⟩ := (mem_bondDict_keys C k).mp hk
  obtain ⟨e1, e2⟩ := h.ends b hb p hp
  rw [atomDict_keys]
  exact ⟨List.mem_map.mpr ⟨p.1, e1, rfl⟩, List.mem_map.mpr ⟨p.2, e2, rfl⟩⟩

/-- **the meaning of a connection table with star atoms**, explicitly -/
theorem ctabMeaning_starry (env : DepEnv) (C : Ctab) (h : Starry env C) :
    ctabMeaning env C.atoms C.bonds = .ok (atomDict env C, bondDict C) := by
  unfold ctabMeaning bondBlockMeaning
  rw [atomBlockMeaning_starry env C h]
  simp only [ok_bind]
  rw [bondEntries_starry C C.bonds (fun b hb =>
    bondMeaning_starry C b (h.bondInts b hb) (h.noStarStar b hb) (h.star b hb))]
  simp only [ok_bind, pure_eq_ok]
  show (if ∀ b ∈ (bondDict C).keys, b.1 ∈ (atomDict env C).keys ∧ b.2 ∈ (atomDict env C).keys then
      Except.ok (atomDict env C, bondDict C) else parserError) = _
  rw [if_pos h.ends0]

theorem Starry.molOK {env : DepEnv} {C : Ctab} (h : Starry env C) : MolOK (atomDict env C) (bondDict C) :=
  ⟨h.plainReal.molOK.wf, h.plainReal.molOK.attrs_wf, h.plainReal.molOK.z, h.ends0⟩

theorem selfBonded_iff (C : Ctab) : SelfBonded (bondDict C) ↔ SelfLink C := by
  simp only [SelfBonded, SelfLink]
  constructor
  · rintro ⟨k, hk, he⟩
    obtain ⟨b, hb, p, hp, rfl⟩ := (mem_bondDict_keys C k).mp hk
    exact ⟨b, hb, p, hp, by simp only [dec] at he; omega⟩
  · rintro ⟨b, hb, p, hp, he⟩
    exact ⟨dec p, (mem_bondDict_keys C _).mpr ⟨b, hb, p, hp, rfl⟩, by simp [dec, he]⟩

theorem negMolecule_iff (env : DepEnv) (C : Ctab) : NegMolecule (atomDict env C) ↔ NegMassRad C :=
  negMolecule_atomDict env _

theorem fileMeaning_starry_ok (env : DepEnv) (C : Ctab) (h : Starry env C) (hneg : ¬ NegMassRad C)
    (hself : ¬ SelfLink C) :
    fileMeaning env C =
      (do let gR ← Tucan.graph_utils.graph_from_molecule env (atomDict env C) (bondDict C); pure gR.1) := by
  unfold fileMeaning
  rw [ctabMeaning_starry env C h]
  exact molGraph_ok env _ (by rwa [negMolecule_iff]) (by rwa [selfBonded_iff])

theorem fileMeaning_starry_reject (env : DepEnv) (C : Ctab) (h : Starry env C) (hbad : NegMassRad C ∨ SelfLink C) :
    fileMeaning env C = parserError := by
  unfold fileMeaning
  rw [ctabMeaning_starry env C h]
  refine molGraph_reject env _ ?_
  rcases hbad with hb | hb
  · left; rwa [negMolecule_iff]
  · right; rwa [selfBonded_iff]

/-- **C07, the graph of a connection table with star atoms**: one node per *non-star* atom line, numbered
consecutively in file order, carrying the attributes the line states plus the invariant code; two nodes
are adjacent iff some bond line links their file indices — an ordinary bond line links its two atoms, a
bond line to a star atom links its other atom to each `ENDPTS` endpoint. Since `g.WF`, neighbours are
nodes, so the last clause determines the adjacency completely. -/
theorem fileMeaning_starry_graph (env : DepEnv) (C : Ctab) (h : Starry env C) (hneg : ¬ NegMassRad C)
    (hself : ¬ SelfLink C) :
    ∃ g, fileMeaning env C = .ok g ∧ g.WF ∧ g.nodeList = range ((real C).length : Int) ∧
      (∀ (i : Nat) a, (real C)[i]? = some a → g.node.get? (i : Int) = some (withCode (attrsOf env a))) ∧
      (∀ (i j : Nat) a b, (real C)[i]? = some a → (real C)[j]? = some b →
        ((j : Int) ∈ g.nbrs (i : Int) ↔ linked C (intOf a.idx) (intOf b.idx))) := by
  have hm := h.molOK
  obtain ⟨g, R, hg, wg, ng, ag, bg⟩ :=
    graph_from_molecule_general env (atomDict env C) (bondDict C) hm.wf hm.attrs_wf hm.z hm.ends
  have hlen : (atomDict env C).keys.length = (real C).length := by rw [atomDict_keys]; simp [realIdx]
  have hat : ∀ (i : Nat) a, (real C)[i]? = some a →
      (atomDict env C).get? (intOf a.idx - 1) = some (attrsOf env a) ∧ intOf a.idx - 1 ∈ (atomDict env C).keys ∧
        (atomDict env C).keys.idxOf (intOf a.idx - 1) = i := by
    intro i a ha
    have hi : i < (atomDict env C).keys.length := by
      rw [hlen]; exact (List.getElem?_eq_some_iff.mp ha).1
    obtain ⟨k, v, hit, -, hget, hmem, hidx⟩ := general_at _ hm.wf i hi
    simp only [atomDict, Ctab.atomDict, List.getElem?_map, ha, Option.map_some, Option.some.injEq, Prod.mk.injEq] at hit
    obtain ⟨rfl, rfl⟩ := hit
    exact ⟨hget, hmem, hidx⟩
  refine ⟨g, ?_, wg, by rw [ng, hlen], ?_, ?_⟩
  · rw [fileMeaning_starry_ok env C h hneg hself, hg]; rfl
  · intro i a ha
    obtain ⟨hget, -, hidx⟩ := hat i a ha
    have := ag _ _ hget
    rwa [hidx] at this
  · intro i j a b ha hb
    obtain ⟨-, hma, hia⟩ := hat i a ha
    obtain ⟨-, hmb, hib⟩ := hat j b hb
    have := bg _ hma _ hmb
    rw [hia, hib, linked_iff] at this
    exact this

/-- an ordinary bond line (neither atom is a star atom) links its two atoms -/
theorem linked_ordinary (C : Ctab) (b : BondLine) (hb : b ∈ C.bonds) (h1 : intOf b.a1 ∉ starIdx C)
    (h2 : intOf b.a2 ∉ starIdx C) : linked C (intOf b.a1) (intOf b.a2) :=
  ⟨b, hb, Or.inl (by simp [bondLinks, h1, h2])⟩

/-- **multi-attachment bond**: a bond line whose first atom is a star atom and which carries
`ENDPTS=(n a1 … an)` links its second atom to every one of `a1 … an` (symmetrically for the second atom) -/
theorem linked_star (C : Ctab) (b : BondLine) (hb : b ∈ C.bonds) (nums post : List Str)
    (he : b.endpts = some (nums, post)) (e : Int) (hmem : e ∈ (nums.map intOf).tail) :
    (intOf b.a1 ∈ starIdx C → linked C (intOf b.a2) e) ∧
    (intOf b.a1 ∉ starIdx C → intOf b.a2 ∈ starIdx C → linked C (intOf b.a1) e) := by
  have hE : endpointsOf b = (nums.map intOf).tail := by simp [endpointsOf, he]
  constructor
  · intro h1
    exact ⟨b, hb, Or.inl (by simp only [bondLinks, h1, if_true, hE]; exact List.mem_map.mpr ⟨e, hmem, rfl⟩)⟩
  · intro h1 h2
    exact ⟨b, hb, Or.inl (by simp only [bondLinks, h1, h2, if_true, if_false, hE]; exact List.mem_map.mpr ⟨e, hmem, rfl⟩)⟩

/-- and nothing else: every link comes from an ordinary bond line or from an endpoint of a star bond -/
theorem linked_cases (C : Ctab) (m n : Int) (h : linked C m n) :
    ∃ b ∈ C.bonds,
      (intOf b.a1 ∉ starIdx C ∧ intOf b.a2 ∉ starIdx C ∧
        ((intOf b.a1 = m ∧ intOf b.a2 = n) ∨ (intOf b.a1 = n ∧ intOf b.a2 = m))) ∨
      (∃ c e, e ∈ endpointsOf b ∧
        ((intOf b.a1 ∈ starIdx C ∧ c = intOf b.a2) ∨ (intOf b.a1 ∉ starIdx C ∧ intOf b.a2 ∈ starIdx C ∧ c = intOf b.a1)) ∧
        ((c = m ∧ e = n) ∨ (c = n ∧ e = m))) := by
  obtain ⟨b, hb, hl⟩ := h
  refine ⟨b, hb, ?_⟩
  have key : ∀ u v, (u, v) ∈ bondLinks C b →
      (intOf b.a1 ∉ starIdx C ∧ intOf b.a2 ∉ starIdx C ∧ intOf b.a1 = u ∧ intOf b.a2 = v) ∨
      (v ∈ endpointsOf b ∧
        ((intOf b.a1 ∈ starIdx C ∧ u = intOf b.a2) ∨ (intOf b.a1 ∉ starIdx C ∧ intOf b.a2 ∈ starIdx C ∧ u = intOf b.a1))) := by
    intro u v huv
    unfold bondLinks at huv
    by_cases s1 : intOf b.a1 ∈ starIdx C
    · simp only [s1, if_true, List.mem_map, Prod.mk.injEq] at huv
      obtain ⟨e, he, rfl, rfl⟩ := huv
      exact Or.inr ⟨he, Or.inl ⟨s1, rfl⟩⟩
    · by_cases s2 : intOf b.a2 ∈ starIdx C
      · simp only [s1, s2, if_true, if_false, List.mem_map, Prod.mk.injEq] at huv
        obtain ⟨e, he, rfl, rfl⟩ := huv
        exact Or.inr ⟨he, Or.inr ⟨s1, s2, rfl⟩⟩
      · simp only [s1, s2, if_false, List.mem_singleton, Prod.mk.injEq] at huv
        exact Or.inl ⟨s1, s2, huv.1.symm, huv.2.symm⟩
  rcases hl with hl | hl
  · rcases key m n hl with ⟨s1, s2, e1, e2⟩ | ⟨he, hc⟩
    · exact Or.inl ⟨s1, s2, Or.inl ⟨e1, e2⟩⟩
    · exact Or.inr ⟨m, n, he, hc, Or.inl ⟨rfl, rfl⟩⟩
  · rcases key n m hl with ⟨s1, s2, e1, e2⟩ | ⟨he, hc⟩
    · exact Or.inl ⟨s1, s2, Or.inr ⟨e1, e2⟩⟩
    · exact Or.inr ⟨n, m, he, hc, Or.inr ⟨rfl, rfl⟩⟩

/-! ### the text level -/

open Contracts.Reader (graph_from_molfile_text_render) in
/-- **C07 at the text level, star atoms included (`graph_from_molfile_text_render_star`)**: every rendering —
any header and comment lines, blank runs, trailing blanks, continuation cut points, further V30 lines,
trailing lines, LF / CRLF / CR — of a readable connection table that may contain star atoms is read as the
graph `g` with
* exactly one node per non-star atom line, numbered `0 … k−1` in file order (star atoms get no node and
  do not consume a number),
* node `i` carrying the attributes stated by the `i`-th non-star line (`attrsOf` = `V3000.atomAttrs`) plus
  the invariant code,
* `j` adjacent to `i` iff some bond line links the two file indices (`linked`): an ordinary bond line links
  its two atoms, a bond line to a star atom links its other atom to each `ENDPTS` endpoint; nothing else:
  neighbours are nodes of `g`. -/
theorem graph_from_molfile_text_render_star (env : DepEnv) (fuel : Nat) (sep : Str) (hsep : IsSep sep)
    (C : Ctab) (D : Dress) (hok : D.OK C) (hnb : D.NoBreaks C)
    (hB : ∀ b ∈ C.bonds, b.Shape) (hfuel : ((fileLines C D).drop 4).length + 1 ≤ fuel)
    (h : Starry env C) (hneg : ¬ NegMassRad C) (hself : ¬ SelfLink C) :
    ∃ g, Tucan.molfile_reader.graph_from_molfile_text env fuel (join sep (fileLines C D ++ [[]])) = .ok g ∧
      g.WF ∧ g.nodeList = range ((real C).length : Int) ∧
      (∀ (i : Nat) a, (real C)[i]? = some a → g.node.get? (i : Int) = some (withCode (attrsOf env a))) ∧
      (∀ (i j : Nat) a b, (real C)[i]? = some a → (real C)[j]? = some b →
        ((j : Int) ∈ g.nbrs (i : Int) ↔ linked C (intOf a.idx) (intOf b.idx))) ∧
      (∀ x y, y ∈ g.nbrs x → x ∈ g.nodeList ∧ y ∈ g.nodeList) := by
  obtain ⟨g, hg, wg, hn, ha, hb⟩ := fileMeaning_starry_graph env C h hneg hself
  refine ⟨g, ?_, wg, hn, ha, hb, ?_⟩
  · rw [graph_from_molfile_text_render env fuel sep hsep C D hok hnb (fun a ha => (h.wf a ha).shape) hB hfuel, hg]
  · intro x y hy
    refine ⟨?_, wg.nbr_mem x y hy⟩
    by_contra hx
    simp [Graph.nbrs, wg.adj_get?_eq_none hx] at hy

/-- **rejected case**: a negative `MASS=` / `RAD=` on a non-star atom, or a bond line that links an atom to
itself (also through `ENDPTS`) → `MolfileParserException`, for every rendering -/
theorem graph_from_molfile_text_render_star_reject (env : DepEnv) (fuel : Nat) (sep : Str) (hsep : IsSep sep)
    (C : Ctab) (D : Dress) (hok : D.OK C) (hnb : D.NoBreaks C)
    (hB : ∀ b ∈ C.bonds, b.Shape) (hfuel : ((fileLines C D).drop 4).length + 1 ≤ fuel)
    (h : Starry env C) (hbad : NegMassRad C ∨ SelfLink C) :
    Tucan.molfile_reader.graph_from_molfile_text env fuel (join sep (fileLines C D ++ [[]])) = parserError := by
  rw [graph_from_molfile_text_render env fuel sep hsep C D hok hnb (fun a ha => (h.wf a ha).shape) hB hfuel,
    fileMeaning_starry_reject env C h hbad]

/-- a star-free readable table is a special case: `Starry` generalises `Ctab.Plain` -/
theorem starry_of_plain (env : DepEnv) (C : Ctab) (h : C.Plain env) : Starry env C := by
  have hs : starIdx C = [] := by
    unfold starIdx
    rw [List.filter_eq_nil_iff.mpr (fun a ha => by simpa using h.nostar a ha)]; rfl
  have hr : real C = C.atoms := by
    unfold real
    exact List.filter_eq_self.mpr (fun a ha => by simpa using h.nostar a ha)
  refine ⟨h.wf, fun a ha _ => h.known a ha, fun a ha _ => h.coords a ha, h.uniq, h.bondInts, ?_, ?_, ?_⟩
  · intro b _; simp [hs]
  · intro b _ hc; simp [hs] at hc
  · intro b hb p hp
    simp only [bondLinks, hs, List.not_mem_nil, if_false, List.mem_singleton] at hp
    subst hp
    simpa [realIdx, hr] using h.bondEnds b hb


/-! ## 2. keyword order, and the choices made where the format is silent -/

/-- the three keywords the reader decodes -/
def decoded : List Str := [py!"CHG", py!"MASS", py!"RAD"]

/-- each of `CHG`, `MASS`, `RAD` occurs at most once among the optional `KEY=value` properties -/
def KeysOnce (props : List Prop') : Prop :=
  ∀ K ∈ decoded, (props.filter (fun p => p.key = K)).length ≤ 1

/-- the meaning of an atom line depends on its optional properties only through the values of the
properties whose key is exactly `CHG`, `MASS` or `RAD` (rejections included) -/
theorem atomMeaning_congr (env : DepEnv) (a : AtomLine) (props' : List Prop')
    (h : ∀ K ∈ decoded, propVals props' K = propVals a.props K) :
    atomMeaning env { a with props := props' } = atomMeaning env a := by
  unfold atomMeaning
  simp only [h py!"CHG" (by simp [decoded]), h py!"MASS" (by simp [decoded]), h py!"RAD" (by simp [decoded])]

theorem propVals_perm (props props' : List Prop') (K : Str) (hperm : props.Perm props')
    (huniq : (props.filter (fun p => p.key = K)).length ≤ 1) : propVals props' K = propVals props K := by
  have hp := hperm.filter (fun p => decide (p.key = K))
  have : props.filter (fun p => decide (p.key = K)) = props'.filter (fun p => decide (p.key = K)) := by
    generalize props.filter (fun p => decide (p.key = K)) = F at hp huniq ⊢
    rcases F with _ | ⟨a, _ | ⟨b, r⟩⟩
    · exact hp.nil_eq
    · exact (List.perm_singleton.mp hp.symm).symm
    · simp at huniq
  simp only [propVals, this]

/-- **any order of the `KEY=value` properties (`atom_line_keyword_order`)**: if each of `CHG`, `MASS`, `RAD`
occurs at most once, every permutation of the optional properties of an atom line — decoded and foreign
ones interleaved in any way, a property with a blank-containing value moving as a whole — has the same
meaning: the same attributes, or the same rejection -/
theorem atom_line_keyword_order (env : DepEnv) (a : AtomLine) (props' : List Prop')
    (hperm : a.props.Perm props') (honce : KeysOnce a.props) :
    atomMeaning env { a with props := props' } = atomMeaning env a :=
  atomMeaning_congr env a props' (fun K hK => propVals_perm a.props props' K hperm (honce K hK))

/-- foreign keywords: a property whose key is none of `CHG`, `MASS`, `RAD` may be inserted anywhere (or
removed) without changing the meaning, whatever its value -/
theorem atom_line_foreign_keyword (env : DepEnv) (a : AtomLine) (ps qs : List Prop') (p : Prop')
    (hp : p.key ∉ decoded) (ha : a.props = ps ++ qs) :
    atomMeaning env { a with props := ps ++ p :: qs } = atomMeaning env a := by
  apply atomMeaning_congr
  intro K hK
  have : p.key ≠ K := fun e => hp (e ▸ hK)
  simp [ha, propVals, List.filter_append, this]

theorem shape_perm (a : AtomLine) (props' : List Prop') (hperm : a.props.Perm props') (h : a.Shape) :
    ({ a with props := props' } : AtomLine).Shape :=
  ⟨h.idx, h.x, h.y, h.z, h.aamap, fun p hp => h.key p (hperm.mem_iff.mpr hp),
    fun p hp => h.val p (hperm.mem_iff.mpr hp), fun p hp => h.cont p (hperm.mem_iff.mpr hp)⟩

/-- the same for the extracted code: the reader's result on the tokens of the reordered line -/
theorem _parse_atom_attributes_keyword_order (env : DepEnv) (a : AtomLine) (props' : List Prop')
    (hperm : a.props.Perm props') (honce : KeysOnce a.props) (h : a.Shape) :
    Tucan.molfile_v3000_reader._parse_atom_attributes env ({ a with props := props' } : AtomLine).tokens =
      Tucan.molfile_v3000_reader._parse_atom_attributes env a.tokens := by
  rw [_parse_atom_attributes_eq env _ (shape_perm a props' hperm h), _parse_atom_attributes_eq env a h,
    atom_line_keyword_order env a props' hperm honce]

/-- `C'` is `C` with the optional properties of every atom line reordered -/
def Reordered (C C' : Ctab) : Prop :=
  C'.bonds = C.bonds ∧
  List.Forall₂ (fun a a' => ∃ props', a.props.Perm props' ∧ KeysOnce a.props ∧ a' = { a with props := props' })
    C.atoms C'.atoms

theorem atomEntries_reordered (env : DepEnv) (atoms atoms' : List AtomLine)
    (h : List.Forall₂ (fun a a' => ∃ props', a.props.Perm props' ∧ KeysOnce a.props ∧ a' = { a with props := props' })
      atoms atoms') : atomEntries env atoms' = atomEntries env atoms := by
  induction h with
  | nil => rfl
  | cons hab _ ih =>
    obtain ⟨props', hperm, honce, rfl⟩ := hab
    simp only [atomEntries, atom_line_keyword_order env _ props' hperm honce, ih]

/-- … and hence the same graph (or the same rejection): the meaning of the whole connection table -/
theorem keyword_order_fileMeaning (env : DepEnv) (C C' : Ctab) (h : Reordered C C') :
    fileMeaning env C' = fileMeaning env C := by
  unfold fileMeaning ctabMeaning atomBlockMeaning
  rw [atomEntries_reordered env C.atoms C'.atoms h.2, h.1]

open Contracts.Reader (graph_from_molfile_text_render) in
/-- **keyword order at the text level**: two files that render the same connection table with the optional
properties of the atom lines in different orders (each of `CHG`, `MASS`, `RAD` at most once per line), and
otherwise with any dressing each, are read as the same graph — or rejected with the same exception.
Star atoms, bonds, and all other hypotheses are as general as in `graph_from_molfile_text_render`. -/
theorem keyword_order_text (env : DepEnv) (fuel : Nat) (sep sep' : Str) (hsep : IsSep sep) (hsep' : IsSep sep')
    (C C' : Ctab) (D D' : Dress) (hord : Reordered C C')
    (hok : D.OK C) (hok' : D'.OK C') (hnb : D.NoBreaks C) (hnb' : D'.NoBreaks C')
    (hA : ∀ a ∈ C.atoms, a.Shape) (hB : ∀ b ∈ C.bonds, b.Shape)
    (hfuel : ((fileLines C D).drop 4).length + 1 ≤ fuel) (hfuel' : ((fileLines C' D').drop 4).length + 1 ≤ fuel) :
    Tucan.molfile_reader.graph_from_molfile_text env fuel (join sep' (fileLines C' D' ++ [[]])) =
      Tucan.molfile_reader.graph_from_molfile_text env fuel (join sep (fileLines C D ++ [[]])) := by
  have hA' : ∀ a' ∈ C'.atoms, a'.Shape := by
    intro a' ha'
    obtain ⟨a, ha, props', hperm, -, rfl⟩ : ∃ a ∈ C.atoms, ∃ props', a.props.Perm props' ∧ KeysOnce a.props ∧
        a' = { a with props := props' } := by
      have := hord.2
      generalize C.atoms = l at this
      generalize C'.atoms = l' at this ha'
      induction this with
      | nil => cases ha'
      | cons hab _ ih =>
        rcases List.mem_cons.mp ha' with rfl | ha'
        · exact ⟨_, by simp, hab⟩
        · obtain ⟨a, ha, r⟩ := ih ha'
          exact ⟨a, by simp [ha], r⟩
    exact shape_perm a props' hperm (hA a ha)
  rw [graph_from_molfile_text_render env fuel sep hsep C D hok hnb hA hB hfuel,
    graph_from_molfile_text_render env fuel sep' hsep' C' D' hok' hnb' hA' (hord.1 ▸ hB) hfuel',
    keyword_order_fileMeaning env C C' hord]

/-! ### where the format is silent: what the reader (and therefore `atomMeaning`) does

The CTfile format lists each keyword once and says nothing about a line that repeats `CHG=`, or that gives
`MASS=` on a `D`/`T` atom. The following theorems state the behaviour of the specification function
`atomMeaning` / `atomAttrs` (which `_parse_atom_attributes_eq` proves equal to the code) in these cases.
They document a CHOICE of the implementation, not a rule of the format. -/

/-- **duplicate key: the last occurrence wins** (a final `K=0` therefore unsets an earlier `K=n`) -/
theorem duplicate_key_last_wins (ps qs : List Prop') (K v : Str) (c : List Str) (hq : ∀ q ∈ qs, q.key ≠ K) :
    propInt (ps ++ ⟨K, v, c⟩ :: qs) K = if intOf v = 0 then none else some (intOf v) := by
  have hqs : qs.filter (fun p => decide (p.key = K)) = [] :=
    List.filter_eq_nil_iff.mpr (fun q hq' => by simpa using hq q hq')
  simp only [propInt, propVals, List.filter_append, List.filter_cons, decide_true, if_true, hqs, List.map_append,
    List.map_cons, List.map_nil, lastNonzero]
  rw [List.getLast?_concat]
  by_cases h0 : intOf v = 0 <;> simp [Option.filter, h0]

/-- consequently the order of two occurrences of the same key DOES matter: `CHG=1 CHG=2` is charge 2,
`CHG=2 CHG=1` is charge 1 (so `atom_line_keyword_order` needs `KeysOnce`) -/
theorem duplicate_key_order_matters :
    propInt [⟨py!"CHG", py!"1", []⟩, ⟨py!"CHG", py!"2", []⟩] py!"CHG" = some 2 ∧
    propInt [⟨py!"CHG", py!"2", []⟩, ⟨py!"CHG", py!"1", []⟩] py!"CHG" = some 1 := by
  decide

/-- **`D` / `T` override `MASS=`**: on a `D` (`T`) line the mass is 2 (3) whatever `MASS=` properties the
line carries — they are not even evaluated, so a malformed `MASS=x` is not rejected there -/
theorem hydrogen_isotope_overrides_mass (env : DepEnv) (a : AtomLine) (props' : List Prop')
    (hDT : a.sym = py!"D" ∨ a.sym = py!"T")
    (h : ∀ K ∈ [py!"CHG", py!"RAD"], propVals props' K = propVals a.props K) :
    atomMeaning env { a with props := props' } = atomMeaning env a := by
  have h2 : (hydrogenIsotope a.sym).2 ≠ 0 := by
    rcases hDT with e | e <;> rw [e] <;> decide
  unfold atomMeaning
  simp only [h py!"CHG" (by simp), h py!"RAD" (by simp), h2, if_false]

theorem hydrogen_isotope_mass (a : AtomLine) (Z : Val) (fx fy fz : Flt) :
    (a.sym = py!"D" → (atomAttrs a Z fx fy fz).get? "mass" = some (Val.int 2) ∧
      (atomAttrs a Z fx fy fz).get? "element_symbol" = some (Val.str py!"H")) ∧
    (a.sym = py!"T" → (atomAttrs a Z fx fy fz).get? "mass" = some (Val.int 3) ∧
      (atomAttrs a Z fx fy fz).get? "element_symbol" = some (Val.str py!"H")) := by
  have eD : hydrogenIsotope py!"D" = (py!"H", 2) := by decide
  have eT : hydrogenIsotope py!"T" = (py!"H", 3) := by decide
  constructor <;> intro e <;> unfold atomAttrs <;>
    rw [(mkAtomAttrs_get _ _ _ _ _ _ _ _).2.2.1, (mkAtomAttrs_get _ _ _ _ _ _ _ _).1, e] <;> simp [eD, eT]

/-! ## 3. the prefix-scan side condition `NoOpt` -/

/-- a token without `=` is not taken for a `CHG=` / `MASS=` / `RAD=` property -/
theorem noOpt_of_no_eq (t : Str) (h : '=' ∉ t) : NoOpt t := by
  have key : ∀ (pre : Str), '=' ∈ pre → startswith t pre = false := by
    intro pre hpre
    by_contra hst
    simp only [startswith, Bool.not_eq_false, List.isPrefixOf_iff_prefix] at hst
    obtain ⟨r, rfl⟩ := hst
    exact h (List.mem_append_left _ hpre)
  exact ⟨key _ (by decide), key _ (by decide), key _ (by decide)⟩

/-- a `KEY=value` token whose key (the text before the first `=`) is none of `CHG`, `MASS`, `RAD` is not taken
for one of them, however similar the key (`EXACHG`, `XCHG`, `RADIUS`, `MASSDIFF`, …): the prefix scan compares
whole keys -/
theorem noOpt_foreign_token (k v : Str) (hk : '=' ∉ k) (hne : k ∉ decoded) : NoOpt (k ++ '=' :: v) := by
  have key : ∀ K : Str, '=' ∉ K → K ∈ decoded → startswith (k ++ '=' :: v) (K ++ ['=']) = false := by
    intro K hK hmem
    unfold startswith
    rw [isPrefixOf_key K hK k v hk]
    have : k ≠ K := fun e => hne (e ▸ hmem)
    simp [this]
  exact ⟨key py!"CHG" (by decide) (by simp [decoded]), key py!"MASS" (by decide) (by simp [decoded]),
    key py!"RAD" (by decide) (by simp [decoded])⟩

/-- **`NoOpt` discharged for lines built by the format's token rules.** The fixed fields are numbers
(index and atom-atom mapping integers, coordinates accepted by `float()`), every optional property starts
with a token `KEY=value` whose key contains no `=`, the values of `CHG`/`MASS`/`RAD` are integers, and the
further tokens of a blank-containing value (the items of a parenthesised list such as
`ATTCHORD=(4 1 Al 2 Br)`) contain no `=`. Then the line is `WF`: no token other than a property whose key is
exactly `CHG`, `MASS`, `RAD` is taken for one — in particular not `EXACHG=1`, `XCHG=…`, `RADIUS=…`.
`hfloat` is a (true) fact about Python's `float()`, which the model leaves opaque: it accepts no string
containing `=`. In particular, when every property is a single token (`cont = []`), nothing but the token
rules is assumed. -/
theorem wf_of_format (env : DepEnv) (a : AtomLine)
    (hfloat : ∀ s f, env.parseFloat s = .ok f → '=' ∉ s)
    (hidx : IsInt a.idx) (haamap : IsInt a.aamap)
    (hx : ∃ f, env.parseFloat a.x = .ok f) (hy : ∃ f, env.parseFloat a.y = .ok f) (hz : ∃ f, env.parseFloat a.z = .ok f)
    (hkey : ∀ p ∈ a.props, '=' ∉ p.key)
    (hints : ∀ p ∈ a.props, p.key ∈ [py!"CHG", py!"MASS", py!"RAD"] → IsInt p.val)
    (hcont : ∀ p ∈ a.props, ∀ t ∈ p.cont, '=' ∉ t) : a.WF := by
  obtain ⟨fx, hx⟩ := hx; obtain ⟨fy, hy⟩ := hy; obtain ⟨fz, hz⟩ := hz
  exact ⟨hidx, noOpt_of_no_eq _ (hfloat _ _ hx), noOpt_of_no_eq _ (hfloat _ _ hy), noOpt_of_no_eq _ (hfloat _ _ hz),
    haamap.noOpt, hkey, hints, fun p hp t ht => noOpt_of_no_eq t (hcont p hp t ht)⟩

/-- the line `M  V30 1 C 0 0 0 0 CLASS="x CHG=5 y"` as the format reads it: one foreign property whose
quoted value contains blanks -/
def quotedLine : AtomLine :=
  ⟨py!"1", py!"C", py!"0", py!"0", py!"0", py!"0", [⟨py!"CLASS", py!"\"x", [py!"CHG=5", py!"y\""]⟩]⟩

/-- the same tokens as the reader takes them -/
def misreadLine : AtomLine :=
  ⟨py!"1", py!"C", py!"0", py!"0", py!"0", py!"0", [⟨py!"CLASS", py!"\"x", []⟩, ⟨py!"CHG", py!"5", [py!"y\""]⟩]⟩

/-- **where `NoOpt` fails: a quoted string value with blanks.** The format quotes a string value that
contains blanks; the reader's tokenizer is not quote-aware, so the words of the string become tokens, and a
word `CHG=5` inside the string is taken for a charge. On `M  V30 1 C 0 0 0 0 CLASS="x CHG=5 y"` the format
states no charge (`propInt … = none`), the line violates `AtomLine.WF.cont`, and the extracted code returns
`chg = 5`. Replayed on /repo (`graph_from_molfile_text`): node 0 has `'chg': 5`. -/
theorem quoted_value_misread (env : DepEnv) (f : Flt) (hf : env.parseFloat py!"0" = .ok f) :
    quotedLine.tokens = [py!"M", py!"V30", py!"1", py!"C", py!"0", py!"0", py!"0", py!"0",
      py!"CLASS=\"x", py!"CHG=5", py!"y\""] ∧
    propInt quotedLine.props py!"CHG" = none ∧
    ¬ quotedLine.WF ∧
    ∃ Z, Tucan.molfile_v3000_reader._parse_atom_attributes env quotedLine.tokens =
      .ok (mkAtomAttrs py!"C" Z f f f (some 5) none none, false) := by
  refine ⟨by decide, by decide, ?_, ?_⟩
  · intro h
    have := (h.cont ⟨py!"CLASS", py!"\"x", [py!"CHG=5", py!"y\""]⟩ (by simp [quotedLine]) py!"CHG=5" (by simp)).1
    revert this; decide
  · have htok : quotedLine.tokens = misreadLine.tokens := by decide
    have hwf : misreadLine.WF := by
      refine ⟨⟨1, by decide⟩, by unfold NoOpt; decide, by unfold NoOpt; decide, by unfold NoOpt; decide,
        by unfold NoOpt; decide, by decide, ?_, ?_⟩
      · intro p hp hk
        simp only [misreadLine, List.mem_cons, List.not_mem_nil, or_false] at hp
        rcases hp with rfl | rfl
        · exact absurd hk (by decide)
        · exact ⟨5, by decide⟩
      · intro p hp t ht
        simp only [misreadLine, List.mem_cons, List.not_mem_nil, or_false] at hp
        rcases hp with rfl | rfl
        · cases ht
        · simp only [List.mem_cons, List.not_mem_nil, or_false] at ht; subst ht; unfold NoOpt; decide
    obtain ⟨n, hn⟩ := atomicNumber_known py!"C" (by decide)
    have hZ : atomicNumber (hydrogenIsotope misreadLine.sym).1 = .ok (Val.int n) := by
      have : (hydrogenIsotope misreadLine.sym).1 = py!"C" := by decide
      rw [this, hn]
    refine ⟨Val.int n, ?_⟩
    rw [htok, _parse_atom_attributes_ok env misreadLine hwf (by decide) (Val.int n) f f f hZ hf hf hf]
    have : atomAttrs misreadLine (Val.int n) f f f = mkAtomAttrs py!"C" (Val.int n) f f f (some 5) none none := by
      unfold atomAttrs
      have e1 : propInt misreadLine.props py!"CHG" = some 5 := by decide
      have e2 : propInt misreadLine.props py!"MASS" = none := by decide
      have e3 : propInt misreadLine.props py!"RAD" = none := by decide
      have e4 : hydrogenIsotope misreadLine.sym = (py!"C", 0) := by decide
      simp only [e1, e2, e3, e4, if_true]
    rw [this]


/-! ## 4. non-vacuity: a concrete file with a star atom -/

section Witness
open Contracts.Reader (Spell NoDash body logical Cont NoBreak isSep_crlf)

/-- a metallocene-style fragment: atoms 1 C, 2 `*`, 3 C⁻, 4 Fe; bond line 1 joins 1–3 (single); bond line 2
is a multi-attachment bond of type 9 from atom 4 to the star atom 2 with `ENDPTS=(2 1 3) ATTACH=ALL` -/
def starCtab : Ctab :=
  ⟨[⟨py!"1", py!"C", py!"0", py!"0", py!"0", py!"0", []⟩,
    ⟨py!"2", py!"*", py!"0", py!"0", py!"0", py!"0", []⟩,
    ⟨py!"3", py!"C", py!"1.4", py!"0", py!"0", py!"0", [⟨py!"CHG", py!"-1", []⟩]⟩,
    ⟨py!"4", py!"Fe", py!"0", py!"2", py!"0", py!"0", []⟩],
   [⟨py!"1", py!"1", py!"1", py!"3", [], none⟩,
    ⟨py!"2", py!"9", py!"4", py!"2", [], some ([py!"2", py!"1", py!"3"], [py!"ATTACH=ALL"])⟩]⟩

/-- header lines, `END CTAB`, `M  END`; the star bond line is cut inside the `ENDPTS` list -/
def starDress : Dress where
  h0 := py!"name"
  h1 := py!""
  h2 := py!"comment"
  h3 := py!"  0  0  0     0  0            999 V3000"
  cntA := py!"4"
  cntB := py!"2"
  cntRest := [py!"0", py!"0", py!"0"]
  extra := [[py!"END", py!"CTAB"]]
  tail := [py!"M  END"]
  spell := fun i => if i = 10 then { gaps := [0, 1], cuts := [19] } else {}

example : fileLines starCtab starDress =
    [py!"name", py!"", py!"comment", py!"  0  0  0     0  0            999 V3000",
      py!"M  V30 BEGIN CTAB", py!"M  V30 COUNTS 4 2 0 0 0", py!"M  V30 BEGIN ATOM",
      py!"M  V30 1 C 0 0 0 0", py!"M  V30 2 * 0 0 0 0", py!"M  V30 3 C 1.4 0 0 0 CHG=-1", py!"M  V30 4 Fe 0 2 0 0",
      py!"M  V30 END ATOM", py!"M  V30 BEGIN BOND", py!"M  V30 1 1 1 3",
      py!"M  V30 2  9 4 2 ENDPTS=(2 -", py!"M  V30 1 3) ATTACH=ALL", py!"M  V30 END BOND", py!"M  V30 END CTAB",
      py!"M  END"] := by
  decide

instance (t : Str) : Decidable (NoOpt t) := by unfold NoOpt; infer_instance
instance (l : Str) : Decidable (Cont l) := by unfold Cont; infer_instance
instance (t : Str) : Decidable (Clean t) := by unfold Clean; infer_instance
instance (l : Str) : Decidable (NoBreak l) := by unfold NoBreak; infer_instance
instance (C : Ctab) : Decidable (SelfLink C) := by unfold SelfLink; infer_instance

theorem starCtab_starry : Starry BlissModel.env starCtab where
  wf := by
    intro a ha
    simp only [starCtab, List.mem_cons, List.not_mem_nil, or_false] at ha
    rcases ha with rfl | rfl | rfl | rfl
    · exact ⟨⟨1, by decide⟩, by decide, by decide, by decide, by decide, by decide, (by intro p hp; cases hp), by decide⟩
    · exact ⟨⟨2, by decide⟩, by decide, by decide, by decide, by decide, by decide, (by intro p hp; cases hp), by decide⟩
    · refine ⟨⟨3, by decide⟩, by decide, by decide, by decide, by decide, by decide, ?_, by decide⟩
      intro p hp _
      simp only [List.mem_cons, List.not_mem_nil, or_false] at hp
      subst hp
      exact ⟨-1, by decide⟩
    · exact ⟨⟨4, by decide⟩, by decide, by decide, by decide, by decide, by decide, (by intro p hp; cases hp), by decide⟩
  known := by
    intro a ha hs
    simp only [starCtab, List.mem_cons, List.not_mem_nil, or_false] at ha
    rcases ha with rfl | rfl | rfl | rfl
    · obtain ⟨n, hn⟩ := atomicNumber_known py!"C" (by decide)
      exact ⟨_, (by decide : (hydrogenIsotope py!"C").1 = py!"C") ▸ hn⟩
    · exact absurd rfl hs
    · obtain ⟨n, hn⟩ := atomicNumber_known py!"C" (by decide)
      exact ⟨_, (by decide : (hydrogenIsotope py!"C").1 = py!"C") ▸ hn⟩
    · obtain ⟨n, hn⟩ := atomicNumber_known py!"Fe" (by decide)
      exact ⟨_, (by decide : (hydrogenIsotope py!"Fe").1 = py!"Fe") ▸ hn⟩
  coords := fun a _ _ => ⟨⟨_, rfl⟩, ⟨_, rfl⟩, ⟨_, rfl⟩⟩
  uniq := by decide
  bondInts := by
    intro b hb
    simp only [starCtab, List.mem_cons, List.not_mem_nil, or_false] at hb
    rcases hb with rfl | rfl
    · exact ⟨⟨1, by decide⟩, ⟨3, by decide⟩, ⟨1, by decide⟩⟩
    · exact ⟨⟨4, by decide⟩, ⟨2, by decide⟩, ⟨9, by decide⟩⟩
  noStarStar := by decide
  star := by
    intro b hb hs
    simp only [starCtab, List.mem_cons, List.not_mem_nil, or_false] at hb
    rcases hb with rfl | rfl
    · exact absurd hs (by decide)
    · refine ⟨_, _, rfl, ?_, 2, [1, 3], by decide, rfl⟩
      intro t ht
      simp only [List.mem_cons, List.not_mem_nil, or_false] at ht
      rcases ht with rfl | rfl | rfl
      · exact ⟨2, by decide⟩
      · exact ⟨1, by decide⟩
      · exact ⟨3, by decide⟩
  ends := by decide

theorem starCtab_notNeg : ¬ NegMassRad starCtab := by
  rintro ⟨a, ha, h⟩
  have hr : real starCtab = [⟨py!"1", py!"C", py!"0", py!"0", py!"0", py!"0", []⟩,
      ⟨py!"3", py!"C", py!"1.4", py!"0", py!"0", py!"0", [⟨py!"CHG", py!"-1", []⟩]⟩,
      ⟨py!"4", py!"Fe", py!"0", py!"2", py!"0", py!"0", []⟩] := by rfl
  simp only [hr, List.mem_cons, List.not_mem_nil, or_false] at ha
  have e0m : propInt ([] : List Prop') py!"MASS" = none := rfl
  have e0r : propInt ([] : List Prop') py!"RAD" = none := rfl
  have e1 : propInt [(⟨py!"CHG", py!"-1", []⟩ : Prop')] py!"MASS" = none := by decide
  have e2 : propInt [(⟨py!"CHG", py!"-1", []⟩ : Prop')] py!"RAD" = none := by decide
  rcases ha with rfl | rfl | rfl
  · simp only [e0m, e0r] at h; simp at h
  · simp only [e1, e2] at h; simp at h
  · simp only [e0m, e0r] at h; simp at h

/-- Boolean check of `NoDash` -/
def noDashCheck (sp : Nat → Spell) (L : List (List Str)) : Bool :=
  (List.range L.length).all (fun i => match L[i]? with
    | some ts => decide ((body (sp i) ts).getLast? ≠ some '-')
    | none => true)

theorem noDash_of_check (sp : Nat → Spell) (L : List (List Str)) (h : noDashCheck sp L = true) : NoDash sp L := by
  intro i ts hi
  have hlt : i < L.length := (List.getElem?_eq_some_iff.1 hi).1
  have := List.all_eq_true.1 h i (List.mem_range.2 hlt)
  rw [hi] at this
  simpa using this

theorem starDress_ok : starDress.OK starCtab where
  ver := by decide
  tail := by decide
  clean := by decide
  nodash := noDash_of_check _ _ (by decide)
  cntA := by decide
  cntB := by decide

theorem starDress_noBreaks : starDress.NoBreaks starCtab where
  hdr := by decide
  toks := by decide
  tail := by decide

theorem starCtab_bondShape : ∀ b ∈ starCtab.bonds, b.Shape := by
  intro b hb
  simp only [starCtab, List.mem_cons, List.not_mem_nil, or_false] at hb
  rcases hb with rfl | rfl
  · exact ⟨by decide, by intro nums post h; cases h⟩
  · refine ⟨by decide, ?_⟩
    intro nums post h
    cases h
    exact ⟨by decide, by decide, by decide⟩

theorem real_starCtab : real starCtab = [⟨py!"1", py!"C", py!"0", py!"0", py!"0", py!"0", []⟩,
    ⟨py!"3", py!"C", py!"1.4", py!"0", py!"0", py!"0", [⟨py!"CHG", py!"-1", []⟩]⟩,
    ⟨py!"4", py!"Fe", py!"0", py!"2", py!"0", py!"0", []⟩] := by rfl

theorem starCtab_b1 : (⟨py!"1", py!"1", py!"1", py!"3", [], none⟩ : BondLine) ∈ starCtab.bonds := by simp [starCtab]
theorem starCtab_b2 : (⟨py!"2", py!"9", py!"4", py!"2", [], some ([py!"2", py!"1", py!"3"], [py!"ATTACH=ALL"])⟩ : BondLine) ∈
    starCtab.bonds := by simp [starCtab]
theorem starCtab_l41 : linked starCtab 1 4 := ⟨_, starCtab_b2, Or.inr (by decide)⟩
theorem starCtab_l43 : linked starCtab 3 4 := ⟨_, starCtab_b2, Or.inr (by decide)⟩
theorem starCtab_l13 : linked starCtab 1 3 := ⟨_, starCtab_b1, Or.inl (by decide)⟩

/-- **`graph_from_molfile_text_render_star`, instance**: the 19-line CRLF file above is read as a graph with
three nodes (C, C⁻, Fe — the star atom has none and atom 3 becomes node 1); node 2 (Fe) is adjacent to nodes 0
and 1 through the one star bond line; nodes 0 and 1 are joined by the ordinary bond; node 1 carries the
attributes of atom line 3 -/
theorem star_witness :
    ∃ g, Tucan.molfile_reader.graph_from_molfile_text BlissModel.env (((fileLines starCtab starDress).drop 4).length + 1)
        (join py!"\r\n" (fileLines starCtab starDress ++ [[]])) = .ok g ∧
      g.WF ∧ g.nodeList = range 3 ∧
      (2 : Int) ∈ g.nbrs 0 ∧ (2 : Int) ∈ g.nbrs 1 ∧ (1 : Int) ∈ g.nbrs 0 ∧
      g.node.get? 1 = some (withCode (attrsOf BlissModel.env
        ⟨py!"3", py!"C", py!"1.4", py!"0", py!"0", py!"0", [⟨py!"CHG", py!"-1", []⟩]⟩)) := by
  obtain ⟨g, hg, wg, hn, hat, hadj, _⟩ :=
    graph_from_molfile_text_render_star BlissModel.env _ _ isSep_crlf starCtab starDress starDress_ok
      starDress_noBreaks starCtab_bondShape (le_refl _) starCtab_starry starCtab_notNeg (by decide)
  have hr := real_starCtab
  have i1 : intOf py!"1" = 1 := by decide
  have i3 : intOf py!"3" = 3 := by decide
  have i4 : intOf py!"4" = 4 := by decide
  refine ⟨g, hg, wg, by rw [hn, hr]; rfl, ?_, ?_, ?_, ?_⟩
  · have := (hadj 0 2 _ _ (by rw [hr]; rfl) (by rw [hr]; rfl)).mpr (by simpa only [i1, i4] using starCtab_l41)
    simpa using this
  · have := (hadj 1 2 _ _ (by rw [hr]; rfl) (by rw [hr]; rfl)).mpr (by simpa only [i3, i4] using starCtab_l43)
    simpa using this
  · have := (hadj 0 1 _ _ (by rw [hr]; rfl) (by rw [hr]; rfl)).mpr (by simpa only [i1, i3] using starCtab_l13)
    simpa using this
  · have := hat 1 _ (by rw [hr]; rfl)
    simpa using this

end Witness

#print axioms graph_from_molfile_text_render_star
#print axioms graph_from_molfile_text_render_star_reject
#print axioms atom_line_keyword_order
#print axioms keyword_order_text
#print axioms duplicate_key_last_wins
#print axioms hydrogen_isotope_overrides_mass
#print axioms wf_of_format
#print axioms quoted_value_misread
#print axioms star_witness

end Contracts.C07Star
