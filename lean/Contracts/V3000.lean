/-
Contracts.V3000 — the V3000 connection-table reader (`tucan/io/molfile_v3000_reader.py`) from
tokenized lines on (property C07): atom lines, atom block, bond lines, star-atom bonds, bond block,
index validation.  Specs are written from the CTfile format rules; the contracts are total
(`f … = .ok (spec …)`) or against an `M`-valued spec where the reader rejects by design.
-/
import Generated.V3000
set_option autoImplicit false
open Py

namespace Contracts.V3000

/-! ## general lemmas about the Python model -/

section PyLemmas

theorem splitOnAux_eq_no (s : Str) (h : '=' ∉ s) : ∀ (fuel : Nat) (cur : Str), s.length ≤ fuel →
    splitOnAux ['='] fuel s cur = [cur.reverse ++ s] := by
  induction s with
  | nil => intro fuel cur _; cases fuel <;> simp [splitOnAux]
  | cons c cs ih =>
    intro fuel cur hf
    cases fuel with
    | zero => simp at hf
    | succ fuel =>
      simp only [List.mem_cons, not_or] at h
      obtain ⟨hc, hcs⟩ := h
      simp only [splitOnAux]
      have : ¬ ((['='].isPrefixOf (c :: cs)) = true ∧ ['='] ≠ []) := by
        simp [List.isPrefixOf, hc]
      rw [if_neg this, ih hcs fuel (c :: cur) (by simpa using hf)]
      simp

theorem splitOnAux_eq_cons (k v : Str) (h : '=' ∉ k) : ∀ (fuel : Nat) (cur : Str), k.length + 1 ≤ fuel →
    splitOnAux ['='] fuel (k ++ '=' :: v) cur = (cur.reverse ++ k) :: splitOnAux ['='] (fuel - k.length - 1) v [] := by
  induction k with
  | nil =>
    intro fuel cur hf
    cases fuel with
    | zero => simp at hf
    | succ fuel => simp [splitOnAux]
  | cons c cs ih =>
    intro fuel cur hf
    cases fuel with
    | zero => simp at hf
    | succ fuel =>
      simp only [List.mem_cons, not_or] at h
      obtain ⟨hc, hcs⟩ := h
      simp only [splitOnAux, List.cons_append]
      have : ¬ ((['='].isPrefixOf (c :: (cs ++ '=' :: v))) = true ∧ ['='] ≠ []) := by
        simp [List.isPrefixOf, hc]
      rw [if_neg this, ih hcs fuel (c :: cur) (by simpa using hf)]
      simp

/-- `(k + "=" + v).split("=")` when `k` contains no `=` -/
theorem split_eq_cons (k v : Str) (h : '=' ∉ k) : split (k ++ '=' :: v) ['='] = k :: split v ['='] := by
  unfold split
  rw [splitOnAux_eq_cons k v h _ _ (by simp)]
  simp only [List.reverse_nil, List.nil_append, List.length_append, List.length_cons]
  congr 2
  omega

theorem split_eq_no (s : Str) (h : '=' ∉ s) : split s ['='] = [s] := by
  unfold split
  rw [splitOnAux_eq_no s h _ _ (by omega)]
  simp

/-- a `key=` prefix test on a `key=value` token compares the keys -/
theorem isPrefixOf_key (K : Str) (hK : '=' ∉ K) : ∀ (k v : Str), '=' ∉ k →
    (K ++ ['=']).isPrefixOf (k ++ '=' :: v) = decide (k = K) := by
  induction K with
  | nil =>
    intro k v hk
    cases k with
    | nil => simp [List.isPrefixOf]
    | cons c cs =>
      simp only [List.mem_cons, not_or] at hk
      simp [List.isPrefixOf, hk.1]
  | cons d ds ih =>
    intro k v hk
    simp only [List.mem_cons, not_or] at hK
    cases k with
    | nil => simp [List.isPrefixOf, Ne.symm hK.1]
    | cons c cs =>
      simp only [List.mem_cons, not_or] at hk
      simp only [List.cons_append, List.isPrefixOf, ih hK.2 cs v hk.2]
      by_cases h1 : d = c
      · subst h1; simp
      · have : ¬ c = d := fun e => h1 e.symm
        simp [h1, this]

theorem getItem_1 {α} (a b : α) (l : List α) : getItem (a :: b :: l) (1 : Int) = .ok b := rfl
theorem getItem_2 {α} (a b c : α) (l : List α) : getItem (a :: b :: c :: l) (2 : Int) = .ok c := rfl
theorem getItem_3 {α} (a b c d : α) (l : List α) : getItem (a :: b :: c :: d :: l) (3 : Int) = .ok d := rfl
theorem getItem_4 {α} (a b c d e : α) (l : List α) : getItem (a :: b :: c :: d :: e :: l) (4 : Int) = .ok e := rfl
theorem getItem_5 {α} (a b c d e f : α) (l : List α) :
    getItem (a :: b :: c :: d :: e :: f :: l) (5 : Int) = .ok f := rfl
theorem getItem_6 {α} (a b c d e f g : α) (l : List α) :
    getItem (a :: b :: c :: d :: e :: f :: g :: l) (6 : Int) = .ok g := rfl

theorem listComp_append {α β} (xs ys : List α) (f : α → M (Option β)) :
    listComp (xs ++ ys) f = (do let a ← listComp xs f; let b ← listComp ys f; pure (a ++ b)) := by
  induction xs with
  | nil =>
    simp only [List.nil_append, listComp, pure_eq_ok, ok_bind, List.nil_append]
    cases listComp ys f <;> rfl
  | cons x xs ih =>
    simp only [List.cons_append, listComp, ih]
    rcases f x with e | y
    · rfl
    · rcases listComp xs f with e | a
      · rfl
      · rcases listComp ys f with e | b
        · rfl
        · cases y <;> rfl

theorem listComp_none {α β} (xs : List α) (f : α → M (Option β)) (h : ∀ x ∈ xs, f x = .ok none) :
    listComp xs f = .ok [] := by
  rw [listComp_ok xs f (fun _ => none) h]; simp

/-- the characters that can occur in an argument accepted by `int()` (ASCII model) -/
def intChar (c : Char) : Bool := isPySpace c || c == '-' || c == '+' || c == '_' || isAsciiDigit c

theorem mem_dropWhile_or {α} (p : α → Bool) (l : List α) (c : α) (h : c ∈ l) : p c = true ∨ c ∈ l.dropWhile p := by
  induction l with
  | nil => simp at h
  | cons a l ih =>
    by_cases hp : p a = true
    · rw [List.dropWhile_cons_of_pos hp]
      rcases List.mem_cons.mp h with rfl | h
      · exact Or.inl hp
      · exact ih h
    · rw [List.dropWhile_cons_of_neg hp]; exact Or.inr h

theorem mem_rstrip_or (u : Str) (c : Char) (h : c ∈ u) : isPySpace c = true ∨ c ∈ rstrip u := by
  unfold rstrip
  rw [List.mem_reverse]
  exact mem_dropWhile_or _ _ _ (List.mem_reverse.mpr h)

theorem parseInt_ok_chars (s : Str) (n : Int) (h : parseInt s = .ok n) : ∀ c ∈ s, intChar c = true := by
  intro c hc
  have hsp : isPySpace c = true → intChar c = true := by intro h; simp [intChar, h]
  rcases mem_dropWhile_or isPySpace s c hc with h1 | h1
  · exact hsp h1
  rcases mem_rstrip_or _ c h1 with h2 | h2
  · exact hsp h2
  unfold parseInt at h
  generalize rstrip (s.dropWhile isPySpace) = t at h h2
  have hds : ∀ ds : Str, ((ds.filter (· ≠ '_')).all isAsciiDigit = true) → ∀ c ∈ ds, intChar c = true := by
    intro ds hall c hc
    by_cases hu : c = '_'
    · subst hu; decide
    · have : c ∈ ds.filter (· ≠ '_') := by simp [hc, hu]
      have := List.all_eq_true.mp hall c this
      simp [intChar, this]
  have key : ∀ {P : Prop} [Decidable P] {v : Int}, (if P then (throw Err.value : M Int) else pure v) = .ok n → ¬ P := by
    intro P _ v h hp; simp [hp] at h
  simp only at h
  split at h
  all_goals
    dsimp only at h
    have hcond := key h
    simp only [not_or, Bool.not_eq_false] at hcond
    have hall := hcond.2.1
  · rcases List.mem_cons.mp h2 with rfl | h2
    · decide
    · exact hds _ hall c h2
  · rcases List.mem_cons.mp h2 with rfl | h2
    · decide
    · exact hds _ hall c h2
  · exact hds _ hall c h2

theorem parseInt_ok_no_eq (s : Str) (n : Int) (h : parseInt s = .ok n) : '=' ∉ s := by
  intro hc; have := parseInt_ok_chars s n h _ hc; revert this; decide

theorem parseInt_error (s : Str) (e : Err) (h : parseInt s = .error e) : e = .value := by
  unfold parseInt at h
  simp only at h
  split at h <;> (dsimp only at h; split_ifs at h <;> first | (injection h with h; exact h.symm) | cases h)

end PyLemmas

/-! ## 1. hydrogen isotopes -/

/-- D and T denote hydrogen of mass 2 and 3; every other symbol denotes itself, no isotope mass (0) -/
def hydrogenIsotope (sym : Str) : Str × Int :=
  if sym = py!"D" then (py!"H", 2) else if sym = py!"T" then (py!"H", 3) else (sym, 0)

theorem detect_hydrogen_isotopes_ok (env : DepEnv) (s : Str) :
    Tucan.element_attributes.detect_hydrogen_isotopes env s = .ok (hydrogenIsotope s) := by
  unfold Tucan.element_attributes.detect_hydrogen_isotopes hydrogenIsotope
  simp only [pyEq, PyCmp.eq]
  by_cases h1 : s = py!"D"
  · subst h1; rfl
  · by_cases h2 : s = py!"T"
    · subst h2; rfl
    · simp [h1, h2]


/-! ## 2. atom lines -/

/-- a `key=value` property of an atom or bond line. A parenthesised or quoted value that contains
blanks (e.g. `ATTCHORD=(4 1 Al 2 Br)`) reaches the reader as several blank-separated tokens: `val`
is the part of the value in the first token, `cont` the remaining tokens. -/
structure Prop' where
  key : Str
  val : Str
  cont : List Str := []

def Prop'.tokens (p : Prop') : List Str := (p.key ++ py!"=" ++ p.val) :: p.cont

/-- abstract atom line `M  V30 index type x y z aamap [key=value]*` (all fields are tokens) -/
structure AtomLine where
  idx : Str
  sym : Str
  x : Str
  y : Str
  z : Str
  aamap : Str
  props : List Prop'

/-- the tokens of the line as written in the file -/
def AtomLine.tokens (a : AtomLine) : List Str :=
  [py!"M", py!"V30", a.idx, a.sym, a.x, a.y, a.z, a.aamap] ++ a.props.flatMap Prop'.tokens

/-- `int()` of every string in turn (`ValueError` at the first malformed one) -/
def intsOf : List Str → M (List Int)
  | [] => pure []
  | s :: r => do let n ← parseInt s; let ns ← intsOf r; pure (n :: ns)

/-- the values of all properties whose key is exactly `K`, in line order -/
def propVals (props : List Prop') (K : Str) : List Str := (props.filter (fun p => p.key = K)).map (·.val)

/-- the last value counts; `0` is the default and means "not set" -/
def lastNonzero (l : List Int) : Option Int := l.getLast?.filter (· ≠ 0)

/-- atomic number from the element table (`KeyError` for an unknown symbol) -/
def atomicNumber (el : Str) : M Val :=
  match Tucan.Consts.ELEMENT_ATTRS.get? el with
  | some ea => (match ea.get? "atomic_number" with | some z => pure z | none => throw .key)
  | none => throw .key

def optAttr (name : String) (v : Option Int) : List (String × Val) :=
  match v with | some n => [(name, Val.int n)] | none => []

/-- node attributes of a non-star atom -/
def mkAtomAttrs (el : Str) (Z : Val) (fx fy fz : Flt) (chg mass rad : Option Int) : Attrs :=
  ⟨[("element_symbol", Val.str el), ("atomic_number", Z), ("partition", Val.int 0),
    ("x_coord", Val.flt fx), ("y_coord", Val.flt fy), ("z_coord", Val.flt fz)]
   ++ optAttr "chg" chg ++ optAttr "mass" mass ++ optAttr "rad" rad⟩

/-- meaning of an atom line: `none` for a star atom, otherwise the node attributes; with the
rejections of the reader (unknown symbol → KeyError, malformed coordinates → whatever `float` raises,
malformed CHG/MASS/RAD value → ValueError) -/
def atomMeaning (env : DepEnv) (a : AtomLine) : M (Option Attrs) :=
  if a.sym = py!"*" then pure none else do
    let Z ← atomicNumber (hydrogenIsotope a.sym).1
    let fx ← env.parseFloat a.x
    let fy ← env.parseFloat a.y
    let fz ← env.parseFloat a.z
    let chg ← intsOf (propVals a.props py!"CHG")
    let mass ← (if (hydrogenIsotope a.sym).2 = 0 then intsOf (propVals a.props py!"MASS") else pure [(hydrogenIsotope a.sym).2])
    let rad ← intsOf (propVals a.props py!"RAD")
    pure (some (mkAtomAttrs (hydrogenIsotope a.sym).1 Z fx fy fz (lastNonzero chg) (lastNonzero mass) (lastNonzero rad)))

/-- a token that is not one of the three properties the reader looks for -/
def NoOpt (t : Str) : Prop :=
  startswith t py!"CHG=" = false ∧ startswith t py!"MASS=" = false ∧ startswith t py!"RAD=" = false


/-- the comprehension `[int(i.split("=")[1]) for i in line if i.startswith(pre)]` -/
def scan (pre : Str) (line : List Str) : M (List Int) :=
  listComp (pyIter line) (fun i => do if (startswith i pre) then (do return some (← parseInt (← getItem (split i py!"=") (1 : Int)))) else return Option.none)

theorem scan_append (pre : Str) (l₁ l₂ : List Str) :
    scan pre (l₁ ++ l₂) = (do let a ← scan pre l₁; let b ← scan pre l₂; pure (a ++ b)) := by
  unfold scan; simp only [pyIter_list]; exact listComp_append _ _ _

theorem scan_none (pre : Str) (l : List Str) (h : ∀ t ∈ l, startswith t pre = false) : scan pre l = .ok [] := by
  unfold scan; simp only [pyIter_list]
  apply listComp_none
  intro t ht
  simp [h t ht]

theorem scan_cons_hit (pre : Str) (k v : Str) (l : List Str) (hs : startswith (k ++ '=' :: v) pre = true)
    (hk : '=' ∉ k) (hv : '=' ∉ v) :
    scan pre ((k ++ '=' :: v) :: l) = (do let n ← parseInt v; let ns ← scan pre l; pure (n :: ns)) := by
  unfold scan
  simp only [pyIter_list, listComp, hs, if_true, split_eq_cons k v hk, split_eq_no v hv, getItem_1,
    ok_bind, pure_eq_ok, bind_assoc]

theorem scan_cons_miss (pre : Str) (t : Str) (l : List Str) (hs : startswith t pre = false) :
    scan pre (t :: l) = scan pre l := by
  rw [show t :: l = [t] ++ l from rfl, scan_append, scan_none pre [t] (by simpa using hs)]
  simp only [ok_bind, List.nil_append, pure_eq_ok]
  cases scan pre l <;> rfl

/-- scanning the property tokens of a line for `K=` yields the integer values of the properties
with key `K` -/
theorem scan_props (K pre : Str) (hpre : pre = K ++ ['=']) (hK : '=' ∉ K) (props : List Prop')
    (hkey : ∀ p ∈ props, '=' ∉ p.key) (hval : ∀ p ∈ props, p.key = K → '=' ∉ p.val)
    (hcont : ∀ p ∈ props, ∀ t ∈ p.cont, startswith t pre = false) :
    scan pre (props.flatMap Prop'.tokens) = intsOf (propVals props K) := by
  induction props with
  | nil => rfl
  | cons p ps ih =>
    have ih' := ih (fun q hq => hkey q (by simp [hq])) (fun q hq => hval q (by simp [hq]))
      (fun q hq => hcont q (by simp [hq]))
    have hc : scan pre (p.cont ++ List.flatMap Prop'.tokens ps) = intsOf (propVals ps K) := by
      rw [scan_append, scan_none pre p.cont (hcont p (by simp)), ih']
      simp only [ok_bind, List.nil_append, pure_eq_ok]
      cases intsOf (propVals ps K) <;> rfl
    have hst : startswith (p.key ++ '=' :: p.val) pre = decide (p.key = K) := by
      rw [hpre]; exact isPrefixOf_key K hK p.key p.val (hkey p (by simp))
    simp only [List.flatMap_cons, Prop'.tokens, List.append_assoc, List.cons_append, List.nil_append]
    by_cases hk : p.key = K
    · rw [scan_cons_hit pre p.key p.val _ (by rw [hst]; simp [hk]) (hkey p (by simp)) (hval p (by simp) hk), hc]
      simp [propVals, hk, intsOf]
    · rw [scan_cons_miss pre _ _ (by rw [hst]; simp [hk]), hc]
      simp [propVals, hk]


theorem lookup_mem_keys {κ ν} [DecidableEq κ] (k : κ) (v : ν) : ∀ (l : List (κ × ν)), l.lookup k = some v → k ∈ l.map Prod.fst := by
  intro l
  induction l with
  | nil => simp
  | cons p ps ih =>
    intro h
    rcases p with ⟨k', v'⟩
    by_cases hk : k = k'
    · simp [hk]
    · have : (k == k') = false := by simpa using hk
      simp only [List.lookup, this] at h
      simp [ih h]

theorem noOpt_elements : ∀ k ∈ Tucan.Consts.ELEMENT_ATTRS.keys, NoOpt k := by
  unfold NoOpt
  decide

theorem atomicNumber_noOpt (el : Str) (Z : Val) (h : atomicNumber el = .ok Z) : NoOpt el := by
  unfold atomicNumber at h
  cases hget : Tucan.Consts.ELEMENT_ATTRS.get? el with
  | none => simp [hget] at h
  | some ea => exact noOpt_elements el (lookup_mem_keys el ea _ hget)

theorem lookup_of_mem_keys {κ ν} [DecidableEq κ] (k : κ) : ∀ (l : List (κ × ν)), k ∈ l.map Prod.fst →
    ∃ v, l.lookup k = some v ∧ (k, v) ∈ l := by
  intro l
  induction l with
  | nil => simp
  | cons p ps ih =>
    intro h
    rcases p with ⟨k', v'⟩
    by_cases hk : k = k'
    · subst hk; exact ⟨v', by simp [List.lookup], by simp⟩
    · have hb : (k == k') = false := by simpa using hk
      simp only [List.map_cons, List.mem_cons, hk, false_or] at h
      obtain ⟨v, hv, hm⟩ := ih h
      exact ⟨v, by simp only [List.lookup, hb, hv], by simp [hm]⟩

def hasIntAtomicNumber (ea : Attrs) : Bool :=
  match ea.get? "atomic_number" with
  | some (Val.sc (.int _)) => true
  | _ => false

theorem elements_have_number : ∀ p ∈ Tucan.Consts.ELEMENT_ATTRS.items, hasIntAtomicNumber p.2 = true := by
  decide

/-- every symbol of the element table has an integer atomic number -/
theorem atomicNumber_known (el : Str) (h : el ∈ Tucan.Consts.ELEMENT_ATTRS.keys) :
    ∃ n : Int, atomicNumber el = .ok (Val.int n) := by
  obtain ⟨ea, hl, hm⟩ := lookup_of_mem_keys el _ h
  have := elements_have_number _ hm
  unfold atomicNumber
  simp only [Dict.get?, hl]
  simp only [hasIntAtomicNumber] at this
  split at this
  · next n hn => exact ⟨n, by simp only [Dict.get?] at hn; simp [hn]⟩
  · cases this

/-- structural assumptions on the tokens of an atom line -/
structure AtomLine.Shape (a : AtomLine) : Prop where
  idx : NoOpt a.idx
  x : NoOpt a.x
  y : NoOpt a.y
  z : NoOpt a.z
  aamap : NoOpt a.aamap
  /-- the key is the text before the first `=` -/
  key : ∀ p ∈ a.props, '=' ∉ p.key
  val : ∀ p ∈ a.props, p.key ∈ [py!"CHG", py!"MASS", py!"RAD"] → '=' ∉ p.val
  cont : ∀ p ∈ a.props, ∀ t ∈ p.cont, NoOpt t

theorem scan_tokens (a : AtomLine) (h : a.Shape) (hsym : NoOpt a.sym) (K pre : Str) (hpre : pre = K ++ ['='])
    (hK : K ∈ [py!"CHG", py!"MASS", py!"RAD"]) :
    scan pre a.tokens = intsOf (propVals a.props K) := by
  have hK' : '=' ∉ K := by
    simp only [List.mem_cons, List.not_mem_nil, or_false] at hK
    rcases hK with rfl | rfl | rfl <;> decide
  have hno : ∀ t, NoOpt t → startswith t pre = false := by
    intro t ht
    simp only [List.mem_cons, List.not_mem_nil, or_false] at hK
    rcases hK with rfl | rfl | rfl <;> subst hpre
    · exact ht.1
    · exact ht.2.1
    · exact ht.2.2
  unfold AtomLine.tokens
  rw [scan_append, scan_props K pre hpre hK' a.props h.key (fun p hp hk => h.val p hp (hk ▸ hK))
    (fun p hp t ht => hno t (h.cont p hp t ht)), scan_none]
  · simp only [ok_bind, List.nil_append, pure_eq_ok]
    cases intsOf (propVals a.props K) <;> rfl
  · intro t ht
    simp only [List.mem_cons, List.not_mem_nil, or_false] at ht
    rcases ht with rfl | rfl | rfl | rfl | rfl | rfl | rfl | rfl
    · apply hno; unfold NoOpt; decide
    · apply hno; unfold NoOpt; decide
    · exact hno _ h.idx
    · exact hno _ hsym
    · exact hno _ h.x
    · exact hno _ h.y
    · exact hno _ h.z
    · exact hno _ h.aamap


def optSet (d : Attrs) (k : String) (o : Option Int) : Attrs :=
  match o with | some n => d.set k (Val.int n) | none => d

theorem getItem_neg_one {α} (l : List α) (n : α) : getItem (l ++ [n]) (-1 : Int) = .ok n := by
  show listGet (l ++ [n]) (-1) = _
  simp [listGet, normIndex]

theorem popLast_concat {α} (l : List α) (n : α) : popLast (l ++ [n]) = .ok (n, l) := by
  simp [popLast]

theorem optStep (k : String) (val : List Int) (s : Attrs) :
    ((if truthy val = true then (getItem val (-1 : Int) >>= fun v => pure (pyNe v (0 : Int))) else pure false) >>= fun b =>
      if b = true then (popLast val >>= fun y => (setItem s k y.1 : M Attrs) >>= fun d => pure (ForInStep.yield d))
      else pure (ForInStep.yield s)) = (.ok (ForInStep.yield (optSet s k (lastNonzero val))) : M _) := by
  rcases List.eq_nil_or_concat val with rfl | ⟨l, n, rfl⟩
  · rfl
  · have ht : truthy (l ++ [n]) = true := by simp [truthy]
    simp only [List.concat_eq_append, ht, if_true, getItem_neg_one, popLast_concat, ok_bind, pure_eq_ok]
    by_cases hn : n = 0
    · subst hn; simp [pyNe, PyCmp.eq, lastNonzero, optSet, Option.filter]
    · simp [pyNe, PyCmp.eq, lastNonzero, optSet, hn, toVal, Option.filter]


theorem optSet_mk (el : Str) (Z : Val) (fx fy fz : Flt) (c m r : Option Int) :
    optSet (optSet (optSet (Dict.ofPairs [("element_symbol", toVal el), ("atomic_number", toVal Z),
      ("partition", toVal (0 : Int)), ("x_coord", toVal fx), ("y_coord", toVal fy), ("z_coord", toVal fz)])
      "chg" c) "mass" m) "rad" r = mkAtomAttrs el Z fx fy fz c m r := by
  cases c <;> cases m <;> cases r <;>
    simp [optSet, mkAtomAttrs, optAttr, Dict.ofPairs, Dict.set, Dict.contains, Dict.get?, Dict.empty, List.lookup, toVal]

def atomResult : Option Attrs → Attrs × Bool
  | none => (Dict.empty, true)
  | some d => (d, false)

/-- contract of `_parse_atom_attributes`, including the rejecting paths -/
theorem _parse_atom_attributes_eq (env : DepEnv) (a : AtomLine) (h : a.Shape) :
    Tucan.molfile_v3000_reader._parse_atom_attributes env a.tokens =
      (do let m ← atomMeaning env a; pure (atomResult m)) := by
  unfold Tucan.molfile_v3000_reader._parse_atom_attributes atomMeaning
  have g3 : getItem a.tokens (3 : Int) = .ok a.sym := rfl
  have g4 : getItem a.tokens (4 : Int) = .ok a.x := rfl
  have g5 : getItem a.tokens (5 : Int) = .ok a.y := rfl
  have g6 : getItem a.tokens (6 : Int) = .ok a.z := rfl
  simp only [g3, g4, g5, g6, ok_bind, detect_hydrogen_isotopes_ok]
  by_cases hs : a.sym = py!"*"
  · simp [hs, pyEq, PyCmp.eq, atomResult]
  have hs' : pyEq a.sym py!"*" = false := by simpa [pyEq, PyCmp.eq] using hs
  simp only [hs', hs, if_false, Bool.false_eq_true]
  -- the element table
  have hZ : (getItem Tucan.Consts.ELEMENT_ATTRS (hydrogenIsotope a.sym).1 >>= fun ea => getItem ea "atomic_number")
      = atomicNumber (hydrogenIsotope a.sym).1 := by
    unfold atomicNumber
    simp only [getItem, toKey, id_eq]
    cases Tucan.Consts.ELEMENT_ATTRS.get? (hydrogenIsotope a.sym).1 with
    | none => rfl
    | some ea => simp only [ok_bind, pure_eq_ok]; cases Dict.get? ea "atomic_number" <;> rfl
  rw [← bind_assoc, hZ]
  rcases hz : atomicNumber (hydrogenIsotope a.sym).1 with e | Z
  · rfl
  have hsym : NoOpt a.sym := by
    have := atomicNumber_noOpt _ _ hz
    unfold hydrogenIsotope at this
    split_ifs at this with h1 h2
    · rw [h1]; unfold NoOpt; decide
    · rw [h2]; unfold NoOpt; decide
    · exact this
  have hchg := scan_tokens a h hsym py!"CHG" py!"CHG=" rfl (by simp)
  have hmass := scan_tokens a h hsym py!"MASS" py!"MASS=" rfl (by simp)
  have hrad := scan_tokens a h hsym py!"RAD" py!"RAD=" rfl (by simp)
  unfold scan at hchg hmass hrad
  simp only [hchg, hmass, hrad, ok_bind]
  rcases env.parseFloat a.x with e | fx
  · rfl
  rcases env.parseFloat a.y with e | fy
  · rfl
  rcases env.parseFloat a.z with e | fz
  · rfl
  simp only [ok_bind]
  rcases intsOf (propVals a.props py!"CHG") with e | chg
  · rfl
  simp only [ok_bind]
  have hm : (if (!truthy (hydrogenIsotope a.sym).2) = true then intsOf (propVals a.props py!"MASS")
        else pure [(hydrogenIsotope a.sym).2]) =
      (if (hydrogenIsotope a.sym).2 = 0 then intsOf (propVals a.props py!"MASS") else pure [(hydrogenIsotope a.sym).2]) := by
    by_cases h0 : (hydrogenIsotope a.sym).2 = 0 <;> simp [h0, truthy]
  rw [hm]
  rcases (if (hydrogenIsotope a.sym).2 = 0 then intsOf (propVals a.props py!"MASS") else pure [(hydrogenIsotope a.sym).2]) with e | mass
  · rfl
  simp only [ok_bind]
  rcases intsOf (propVals a.props py!"RAD") with e | rad
  · rfl
  simp only [ok_bind]
  have hitems : (Dict.ofPairs [("chg", chg), ("mass", mass), ("rad", rad)]).items = [("chg", chg), ("mass", mass), ("rad", rad)] := by
    simp [Dict.ofPairs, Dict.set, Dict.contains, Dict.get?, Dict.empty, List.lookup]
  simp only [hitems, List.forIn_cons, List.forIn_nil, optStep]
  simp only [ok_bind, pure_eq_ok, optSet_mk, atomResult]


/-! ### the well-formed case, with a pure spec -/

/-- `s` is accepted by `int()` -/
def IsInt (s : Str) : Prop := ∃ n, parseInt s = .ok n
/-- the integer a well-formed token denotes -/
def intOf (s : Str) : Int := match parseInt s with | .ok n => n | .error _ => 0

theorem intOf_eq (s : Str) (n : Int) (h : parseInt s = .ok n) : intOf s = n := by simp [intOf, h]

theorem IsInt.noOpt {s : Str} (h : IsInt s) : NoOpt s := by
  obtain ⟨n, hn⟩ := h
  have hch := parseInt_ok_chars s n hn
  have key : ∀ (c : Char) (r : Str), intChar c = false → startswith s (c :: r) = false := by
    intro c r hc
    by_contra hst
    simp only [startswith, Bool.not_eq_false, List.isPrefixOf_iff_prefix] at hst
    obtain ⟨t, rfl⟩ := hst
    have := hch c (by simp)
    simp [hc] at this
  exact ⟨key _ _ (by decide), key _ _ (by decide), key _ _ (by decide)⟩

theorem intsOf_ok (l : List Str) (h : ∀ s ∈ l, IsInt s) : intsOf l = .ok (l.map intOf) := by
  induction l with
  | nil => rfl
  | cons s r ih =>
    obtain ⟨n, hn⟩ := h s (by simp)
    simp only [intsOf, hn, ih (fun t ht => h t (by simp [ht])), ok_bind, pure_eq_ok, List.map_cons, intOf_eq s n hn]

theorem intsOf_error (l : List Str) (h : ∃ s ∈ l, ¬ IsInt s) : intsOf l = .error .value := by
  induction l with
  | nil => simp at h
  | cons s r ih =>
    simp only [intsOf]
    rcases hs : parseInt s with e | n
    · rw [parseInt_error s e hs]; rfl
    · have : ∃ s ∈ r, ¬ IsInt s := by
        obtain ⟨t, ht, hnt⟩ := h
        rcases List.mem_cons.mp ht with rfl | ht
        · exact absurd ⟨n, hs⟩ hnt
        · exact ⟨t, ht, hnt⟩
      simp only [ih this, ok_bind, error_bind]

theorem intsOf_cases (l : List Str) : (∃ ns, intsOf l = .ok ns) ∨ intsOf l = .error .value := by
  by_cases h : ∀ s ∈ l, IsInt s
  · exact Or.inl ⟨_, intsOf_ok l h⟩
  · push Not at h; exact Or.inr (intsOf_error l h)

/-- well-formed atom line: index and CHG/MASS/RAD values are integers; keys contain no `=`; no other
token (coordinates, atom-atom mapping, continuation tokens of foreign properties) begins with
`CHG=`, `MASS=` or `RAD=`. Foreign keys and values are otherwise arbitrary. -/
structure AtomLine.WF (a : AtomLine) : Prop where
  idx : IsInt a.idx
  x : NoOpt a.x
  y : NoOpt a.y
  z : NoOpt a.z
  aamap : NoOpt a.aamap
  key : ∀ p ∈ a.props, '=' ∉ p.key
  ints : ∀ p ∈ a.props, p.key ∈ [py!"CHG", py!"MASS", py!"RAD"] → IsInt p.val
  cont : ∀ p ∈ a.props, ∀ t ∈ p.cont, NoOpt t

theorem AtomLine.WF.shape {a : AtomLine} (h : a.WF) : a.Shape :=
  ⟨h.idx.noOpt, h.x, h.y, h.z, h.aamap, h.key,
    fun p hp hk => by obtain ⟨n, hn⟩ := h.ints p hp hk; exact parseInt_ok_no_eq _ n hn, h.cont⟩

/-- integer value of the last property whose key is exactly `K`, if there is one and the value is not 0 -/
def propInt (props : List Prop') (K : Str) : Option Int := lastNonzero ((propVals props K).map intOf)

theorem intsOf_propVals (a : AtomLine) (h : a.WF) (K : Str) (hK : K ∈ [py!"CHG", py!"MASS", py!"RAD"]) :
    intsOf (propVals a.props K) = .ok ((propVals a.props K).map intOf) := by
  apply intsOf_ok
  intro s hs
  simp only [propVals, List.mem_map, List.mem_filter, decide_eq_true_eq] at hs
  obtain ⟨p, ⟨hp, hk⟩, rfl⟩ := hs
  exact h.ints p hp (hk ▸ hK)

/-- the node attributes of a non-star atom line, from the format rules -/
def atomAttrs (a : AtomLine) (Z : Val) (fx fy fz : Flt) : Attrs :=
  mkAtomAttrs (hydrogenIsotope a.sym).1 Z fx fy fz
    (propInt a.props py!"CHG")
    (if (hydrogenIsotope a.sym).2 = 0 then propInt a.props py!"MASS" else some (hydrogenIsotope a.sym).2)
    (propInt a.props py!"RAD")

/-! spec-level facts: defaults, foreign keys, order -/

theorem propInt_nil (K : Str) : propInt [] K = none := rfl

/-- only the properties with key exactly `K` matter (so `EXACHG=1` is not a charge) -/
theorem propInt_filter (props : List Prop') (K : Str) :
    propInt props K = propInt (props.filter (fun p => p.key = K)) K := by
  simp [propInt, propVals, List.filter_filter]

/-- an explicitly written default (`K=0` as the last `K` property) means the same as no `K` property -/
theorem propInt_append_zero (props : List Prop') (K v : Str) (c : List Str) (hv : parseInt v = .ok 0) :
    propInt (props ++ [⟨K, v, c⟩]) K = none := by
  simp [propInt, propVals, List.filter_append, lastNonzero, intOf_eq v 0 hv, Option.filter]

/-- a property with another key can be inserted anywhere -/
theorem propInt_foreign (ps qs : List Prop') (p : Prop') (K : Str) (h : p.key ≠ K) :
    propInt (ps ++ p :: qs) K = propInt (ps ++ qs) K := by
  simp [propInt, propVals, List.filter_append, h]

/-- any order of the properties: if `K` occurs at most once, permuting the properties changes nothing -/
theorem propInt_perm (props props' : List Prop') (K : Str) (hperm : props.Perm props')
    (huniq : (props.filter (fun p => p.key = K)).length ≤ 1) : propInt props K = propInt props' K := by
  have hp := hperm.filter (fun p => decide (p.key = K))
  have : props.filter (fun p => decide (p.key = K)) = props'.filter (fun p => decide (p.key = K)) := by
    generalize props.filter (fun p => decide (p.key = K)) = F at hp huniq ⊢
    rcases F with _ | ⟨a, _ | ⟨b, r⟩⟩
    · exact hp.nil_eq
    · exact (List.perm_singleton.mp hp.symm).symm
    · simp at huniq
  simp only [propInt, propVals, this]

/-- the attributes depend on the properties only through the CHG, MASS and RAD values -/
theorem atomAttrs_congr (a a' : AtomLine) (Z : Val) (fx fy fz : Flt) (hs : a.sym = a'.sym)
    (hc : propInt a.props py!"CHG" = propInt a'.props py!"CHG")
    (hm : propInt a.props py!"MASS" = propInt a'.props py!"MASS")
    (hr : propInt a.props py!"RAD" = propInt a'.props py!"RAD") :
    atomAttrs a Z fx fy fz = atomAttrs a' Z fx fy fz := by
  simp only [atomAttrs, hs, hc, hm, hr]

theorem hydrogenIsotope_mass (s : Str) : (hydrogenIsotope s).2 = 0 ∨ (hydrogenIsotope s).2 = 2 ∨ (hydrogenIsotope s).2 = 3 := by
  unfold hydrogenIsotope; split_ifs <;> simp

theorem atomMeaning_ok (env : DepEnv) (a : AtomLine) (h : a.WF) (hstar : a.sym ≠ py!"*")
    (Z : Val) (fx fy fz : Flt) (hZ : atomicNumber (hydrogenIsotope a.sym).1 = .ok Z)
    (hx : env.parseFloat a.x = .ok fx) (hy : env.parseFloat a.y = .ok fy) (hz : env.parseFloat a.z = .ok fz) :
    atomMeaning env a = .ok (some (atomAttrs a Z fx fy fz)) := by
  unfold atomMeaning atomAttrs propInt
  simp only [hstar, if_false, hZ, hx, hy, hz, ok_bind, intsOf_propVals a h _ (by simp : py!"CHG" ∈ _),
    intsOf_propVals a h _ (by simp : py!"MASS" ∈ _), intsOf_propVals a h _ (by simp : py!"RAD" ∈ _)]
  by_cases h0 : (hydrogenIsotope a.sym).2 = 0
  · simp only [h0, if_true, ok_bind, pure_eq_ok]
  · simp only [h0, if_false, ok_bind, pure_eq_ok]
    have : lastNonzero [(hydrogenIsotope a.sym).2] = some (hydrogenIsotope a.sym).2 := by
      simp [lastNonzero, Option.filter, h0]
    rw [this]

/-- **C07, atom line.** On the tokens of a well-formed non-star atom line whose symbol is in the
element table (or D/T) and whose coordinates `float()` accepts, the reader returns exactly the
attributes the format prescribes, keys in the order element_symbol, atomic_number, partition, x, y, z,
[chg], [mass], [rad]. -/
theorem _parse_atom_attributes_ok (env : DepEnv) (a : AtomLine) (h : a.WF) (hstar : a.sym ≠ py!"*")
    (Z : Val) (fx fy fz : Flt) (hZ : atomicNumber (hydrogenIsotope a.sym).1 = .ok Z)
    (hx : env.parseFloat a.x = .ok fx) (hy : env.parseFloat a.y = .ok fy) (hz : env.parseFloat a.z = .ok fz) :
    Tucan.molfile_v3000_reader._parse_atom_attributes env a.tokens = .ok (atomAttrs a Z fx fy fz, false) := by
  rw [_parse_atom_attributes_eq env a h.shape, atomMeaning_ok env a h hstar Z fx fy fz hZ hx hy hz]
  rfl

/-- variant: the assumptions on the coordinate tokens follow from the (true) fact about Python's
`float()` that it rejects strings starting with `CHG=`, `MASS=`, `RAD=` -/
theorem _parse_atom_attributes_ok_float (env : DepEnv) (a : AtomLine)
    (hfloat : ∀ s f, env.parseFloat s = .ok f → NoOpt s)
    (hidx : IsInt a.idx) (haamap : NoOpt a.aamap) (hkey : ∀ p ∈ a.props, '=' ∉ p.key)
    (hints : ∀ p ∈ a.props, p.key ∈ [py!"CHG", py!"MASS", py!"RAD"] → IsInt p.val)
    (hcont : ∀ p ∈ a.props, ∀ t ∈ p.cont, NoOpt t) (hstar : a.sym ≠ py!"*")
    (Z : Val) (fx fy fz : Flt) (hZ : atomicNumber (hydrogenIsotope a.sym).1 = .ok Z)
    (hx : env.parseFloat a.x = .ok fx) (hy : env.parseFloat a.y = .ok fy) (hz : env.parseFloat a.z = .ok fz) :
    Tucan.molfile_v3000_reader._parse_atom_attributes env a.tokens = .ok (atomAttrs a Z fx fy fz, false) :=
  _parse_atom_attributes_ok env a ⟨hidx, hfloat _ _ hx, hfloat _ _ hy, hfloat _ _ hz, haamap, hkey, hints, hcont⟩
    hstar Z fx fy fz hZ hx hy hz

/-- a star atom line (any line whose fourth token is `*`) -/
theorem _parse_atom_attributes_star (env : DepEnv) (line : List Str) (h : getItem line (3 : Int) = .ok py!"*") :
    Tucan.molfile_v3000_reader._parse_atom_attributes env line = .ok (Dict.empty, true) := by
  unfold Tucan.molfile_v3000_reader._parse_atom_attributes
  simp only [h, ok_bind]
  rfl

/-- unknown element symbol → `KeyError`, whatever else is on the line -/
theorem _parse_atom_attributes_unknown (env : DepEnv) (a : AtomLine) (hstar : a.sym ≠ py!"*")
    (hunk : Tucan.Consts.ELEMENT_ATTRS.get? (hydrogenIsotope a.sym).1 = none) :
    Tucan.molfile_v3000_reader._parse_atom_attributes env a.tokens = .error .key := by
  unfold Tucan.molfile_v3000_reader._parse_atom_attributes
  have g3 : getItem a.tokens (3 : Int) = .ok a.sym := rfl
  have hs' : pyEq a.sym py!"*" = false := by simpa [pyEq, PyCmp.eq] using hstar
  have hg : getItem Tucan.Consts.ELEMENT_ATTRS (hydrogenIsotope a.sym).1 = (.error .key : M Attrs) := by
    simp only [getItem, toKey, id_eq, hunk]; rfl
  simp only [g3, ok_bind, detect_hydrogen_isotopes_ok, hs', Bool.false_eq_true, if_false, hg, error_bind]

/-- malformed CHG/MASS/RAD value on an otherwise readable line → `ValueError` -/
theorem _parse_atom_attributes_badint (env : DepEnv) (a : AtomLine) (h : a.Shape) (hstar : a.sym ≠ py!"*")
    (Z : Val) (fx fy fz : Flt) (hZ : atomicNumber (hydrogenIsotope a.sym).1 = .ok Z)
    (hx : env.parseFloat a.x = .ok fx) (hy : env.parseFloat a.y = .ok fy) (hz : env.parseFloat a.z = .ok fz)
    (hbad : (∃ v ∈ propVals a.props py!"CHG", ¬ IsInt v) ∨
      ((hydrogenIsotope a.sym).2 = 0 ∧ ∃ v ∈ propVals a.props py!"MASS", ¬ IsInt v) ∨
      (∃ v ∈ propVals a.props py!"RAD", ¬ IsInt v)) :
    Tucan.molfile_v3000_reader._parse_atom_attributes env a.tokens = .error .value := by
  rw [_parse_atom_attributes_eq env a h]
  unfold atomMeaning
  simp only [hstar, if_false, hZ, hx, hy, hz, ok_bind]
  rcases intsOf_cases (propVals a.props py!"CHG") with ⟨c, hc⟩ | hc
  swap
  · simp only [hc, error_bind]
  rcases hbad with hb | hb | hb
  · rw [intsOf_error _ hb] at hc; cases hc
  · simp only [hc, ok_bind, hb.1, if_true, intsOf_error _ hb.2, error_bind]
  · simp only [hc, ok_bind]
    have hm : (∃ ms, (if (hydrogenIsotope a.sym).2 = 0 then intsOf (propVals a.props py!"MASS")
        else pure [(hydrogenIsotope a.sym).2]) = .ok ms) ∨ (if (hydrogenIsotope a.sym).2 = 0 then intsOf (propVals a.props py!"MASS")
        else pure [(hydrogenIsotope a.sym).2]) = .error .value := by
      split_ifs
      · exact intsOf_cases _
      · exact Or.inl ⟨_, rfl⟩
    rcases hm with ⟨ms, hm⟩ | hm
    · simp only [hm, ok_bind, intsOf_error _ hb, error_bind]
    · simp only [hm, error_bind]


/-! ## 3. atom block -/


theorem getItem_nat {α} (l : List α) (k : Nat) (a : α) (h : l[k]? = some a) : getItem l (k : Int) = .ok a := by
  show listGet l (k : Int) = _
  have : ¬ ((k : Int) < 0) := by omega
  simp [listGet, normIndex, this, h]

theorem slice_from_2 {α} (l : List α) : slice l (some (2 : Int)) none = l.drop 2 := by
  simp [slice, clampIndex]

theorem slice_block {α} (l : List α) (k n : Nat) (h : k + n ≤ l.length) :
    slice l (some (k : Int)) (some ((k : Int) + (n : Int))) = (l.drop k).take n := by
  have h1 : ¬ ((k : Int) < 0) := by omega
  have h2 : ¬ ((k : Int) + n < 0) := by omega
  have h3 : ((k : Int) + n).toNat = k + n := by omega
  simp only [slice, clampIndex, h1, h2, h3, if_false, Nat.min_eq_left h,
    Nat.min_eq_left (show k ≤ l.length by omega), Int.toNat_natCast]
  rw [List.drop_take]
  congr 1
  omega

def atomEntries (env : DepEnv) : List AtomLine → M (List (Int × Option Attrs))
  | [] => pure []
  | a :: r => do
    let i ← parseInt a.idx
    let m ← atomMeaning env a
    let rs ← atomEntries env r
    pure ((i - 1, m) :: rs)

def nonStar (es : List (Int × Option Attrs)) : List (Int × Attrs) := es.filterMap (fun e => e.2.map (fun d => (e.1, d)))
def stars (es : List (Int × Option Attrs)) : List Int := es.filterMap (fun e => if e.2.isNone then some e.1 else none)

/-- meaning of an atom block: node `index-1 ↦ attributes` for every non-star line in file order (a
repeated index keeps its first position and takes the later attributes, as a Python dict does), and
the 0-based indices of the star atoms -/
def atomBlockMeaning (env : DepEnv) (atoms : List AtomLine) : M (Dict Int Attrs × List Int) := do
  let es ← atomEntries env atoms
  pure (Dict.ofPairs (nonStar es), stars es)

abbrev AtomSt := Dict Int Attrs × List Int
def atomStep (s : AtomSt) (i : Int) (m : Option Attrs) : AtomSt :=
  match m with
  | none => ⟨s.1, s.2 ++ [i]⟩
  | some d => ⟨s.1.set i d, s.2⟩

theorem atomLoop (env : DepEnv) (body : List Str → AtomSt → M (ForInStep AtomSt)) (atoms : List AtomLine)
    (hbody : ∀ a ∈ atoms, ∀ s, body a.tokens s =
      (do let i ← parseInt a.idx; let m ← atomMeaning env a; pure (ForInStep.yield (atomStep s (i - 1) m)))) :
    ∀ s, forIn (atoms.map AtomLine.tokens) s body =
      (do let es ← atomEntries env atoms; pure (es.foldl (fun s e => atomStep s e.1 e.2) s)) := by
  induction atoms with
  | nil => intro s; rfl
  | cons a r ih =>
    intro s
    simp only [List.map_cons, List.forIn_cons, hbody a (by simp), atomEntries, bind_assoc]
    rcases parseInt a.idx with e | i
    · rfl
    rcases atomMeaning env a with e | m
    · rfl
    simp only [ok_bind, pure_eq_ok, ih (fun b hb => hbody b (by simp [hb]))]
    rcases atomEntries env r with e | es
    · rfl
    · rfl

theorem atomFold (es : List (Int × Option Attrs)) : ∀ s : AtomSt,
    es.foldl (fun s e => atomStep s e.1 e.2) s = ⟨s.1.updatePairs (nonStar es), s.2 ++ stars es⟩ := by
  induction es with
  | nil => intro s; simp [nonStar, stars, Dict.updatePairs]
  | cons e es ih =>
    intro s
    rcases e with ⟨i, m⟩
    cases m with
    | none => rw [List.foldl_cons, ih]; simp [atomStep, nonStar, stars]
    | some d => rw [List.foldl_cons, ih]; simp [atomStep, nonStar, stars, Dict.updatePairs]


/-- the atom block of `atoms` sits in `lines` where the counts line says -/
structure AtomBlockAt (lines : List (List Str)) (atoms : List AtomLine) : Prop where
  counts : ∃ c cnt, lines[5]? = some c ∧ c[3]? = some cnt ∧ parseInt cnt = .ok (atoms.length : Int)
  begin_ : ∃ l, lines[6]? = some l ∧ l.drop 2 = [py!"BEGIN", py!"ATOM"]
  end_ : ∃ l, lines[7 + atoms.length]? = some l ∧ l.drop 2 = [py!"END", py!"ATOM"]
  atoms : (lines.drop 7).take atoms.length = atoms.map AtomLine.tokens

theorem getItem_idx (a : AtomLine) : getItem a.tokens (2 : Int) = .ok a.idx := rfl

/-- **C07, atom block** (with the rejections of the individual lines) -/
theorem _parse_atom_block_eq (env : DepEnv) (lines : List (List Str)) (atoms : List AtomLine)
    (hb : AtomBlockAt lines atoms) (hshape : ∀ a ∈ atoms, a.Shape) :
    Tucan.molfile_v3000_reader._parse_atom_block env lines = atomBlockMeaning env atoms := by
  obtain ⟨c, cnt, h5, h3, hcnt⟩ := hb.counts
  obtain ⟨lb, h6, hlb⟩ := hb.begin_
  obtain ⟨le, h7, hle⟩ := hb.end_
  have hlen : 7 + atoms.length ≤ lines.length := by
    have := (List.getElem?_eq_some_iff.mp h7).1; omega
  unfold Tucan.molfile_v3000_reader._parse_atom_block atomBlockMeaning
  have g5 : getItem lines (5 : Int) = .ok c := getItem_nat lines 5 c h5
  have g3 : getItem c (3 : Int) = .ok cnt := getItem_nat c 3 cnt h3
  have g6 : getItem lines ((7 : Int) - 1) = .ok lb := getItem_nat lines 6 lb h6
  have g7 : getItem lines ((7 : Int) + (atoms.length : Int)) = .ok le := by
    have := getItem_nat lines (7 + atoms.length) le h7
    push_cast at this; exact this
  have hsl : slice lines (some (7 : Int)) (some ((7 : Int) + (atoms.length : Int))) = atoms.map AtomLine.tokens := by
    rw [← hb.atoms]; exact slice_block lines 7 atoms.length hlen
  have hjb : pyNe (join py!" " (slice lb (some (2 : Int)) none)) py!"BEGIN ATOM" = false := by
    rw [slice_from_2, hlb]; rfl
  have hje : pyNe (join py!" " (slice le (some (2 : Int)) none)) py!"END ATOM" = false := by
    rw [slice_from_2, hle]; rfl
  simp only [pyAdd_int, pyIter_list, g5, g3, hcnt, g6, g7, ok_bind, hjb, hje, hsl, Bool.false_eq_true, if_false]
  rw [atomLoop env _ atoms]
  · simp only [bind_assoc]
    rcases atomEntries env atoms with e | es
    · rfl
    · simp only [ok_bind, pure_eq_ok, atomFold]
      simp [Dict.updatePairs, Dict.ofPairs, stars]
  · intro a ha s
    simp only [getItem_idx, ok_bind, _parse_atom_attributes_eq env a (hshape a ha), bind_assoc]
    rcases parseInt a.idx with e | i
    · rfl
    rcases atomMeaning env a with e | m
    · rfl
    cases m with
    | none => simp [atomResult, atomStep, truthy]
    | some d => simp [atomResult, atomStep, truthy]


theorem atomEntries_ok (env : DepEnv) (atoms : List AtomLine) (es : List (Int × Option Attrs))
    (h : List.Forall₂ (fun a e => parseInt a.idx = .ok (e.1 + 1) ∧ atomMeaning env a = .ok e.2) atoms es) :
    atomEntries env atoms = .ok es := by
  induction h with
  | nil => rfl
  | cons hae _ ih =>
    simp only [atomEntries, hae.1, hae.2, ih, ok_bind, pure_eq_ok]
    simp

theorem Dict.updatePairs_nodup {κ ν} [DecidableEq κ] (l : List (κ × ν)) : ∀ (d : Dict κ ν),
    (l.map Prod.fst).Nodup → (∀ k ∈ l.map Prod.fst, k ∉ d.items.map Prod.fst) →
    d.updatePairs l = ⟨d.items ++ l⟩ := by
  induction l with
  | nil => intro d _ _; simp [Dict.updatePairs]
  | cons p l ih =>
    intro d hnd hdis
    have hp : d.contains p.1 = false := by
      have := hdis p.1 (by simp)
      simp only [Dict.contains, Dict.get?]
      rw [List.lookup_eq_none_iff.mpr]
      · rfl
      · intro q hq
        simp only [List.mem_map, not_exists, not_and] at this
        have h1 := this q hq
        have h2 : ¬ p.1 = q.1 := fun e => h1 e.symm
        simpa using h2
    rw [List.map_cons, List.nodup_cons] at hnd
    have hset : d.set p.1 p.2 = ⟨d.items ++ [p]⟩ := by simp [Dict.set, hp]
    simp only [Dict.updatePairs, List.foldl_cons, hset]
    have := ih ⟨d.items ++ [p]⟩ hnd.2 (by
      intro k hk
      simp only [List.map_append, List.map_cons, List.map_nil, List.mem_append, List.mem_singleton, not_or]
      refine ⟨hdis k (by simp [hk]), ?_⟩
      rintro rfl; exact hnd.1 hk)
    simp only [Dict.updatePairs] at this
    rw [this]; simp

/-- with unique keys a dict built from pairs is exactly the list of pairs, in order -/
theorem Dict.ofPairs_nodup {κ ν} [DecidableEq κ] (l : List (κ × ν)) (h : (l.map Prod.fst).Nodup) :
    Dict.ofPairs l = ⟨l⟩ := by
  have := Dict.updatePairs_nodup l Dict.empty h (by simp [Dict.empty])
  simpa [Dict.updatePairs, Dict.ofPairs, Dict.empty] using this

/-- **C07, atom block, accepted case**: if line `k` has index `eₖ.1 + 1` and meaning `eₖ.2`, the reader
returns the non-star atoms as `index-1 ↦ attributes` and the star atoms' indices, both in file order.
With unique indices the dict is literally the list of non-star lines in file order. -/
theorem _parse_atom_block_ok (env : DepEnv) (lines : List (List Str)) (atoms : List AtomLine)
    (hb : AtomBlockAt lines atoms) (hshape : ∀ a ∈ atoms, a.Shape) (es : List (Int × Option Attrs))
    (h : List.Forall₂ (fun a e => parseInt a.idx = .ok (e.1 + 1) ∧ atomMeaning env a = .ok e.2) atoms es) :
    Tucan.molfile_v3000_reader._parse_atom_block env lines = .ok (Dict.ofPairs (nonStar es), stars es) := by
  rw [_parse_atom_block_eq env lines atoms hb hshape, atomBlockMeaning, atomEntries_ok env atoms es h]
  rfl

theorem _parse_atom_block_ok_unique (env : DepEnv) (lines : List (List Str)) (atoms : List AtomLine)
    (hb : AtomBlockAt lines atoms) (hshape : ∀ a ∈ atoms, a.Shape) (es : List (Int × Option Attrs))
    (h : List.Forall₂ (fun a e => parseInt a.idx = .ok (e.1 + 1) ∧ atomMeaning env a = .ok e.2) atoms es)
    (huniq : ((nonStar es).map Prod.fst).Nodup) :
    Tucan.molfile_v3000_reader._parse_atom_block env lines = .ok (⟨nonStar es⟩, stars es) := by
  rw [_parse_atom_block_ok env lines atoms hb hshape es h, Dict.ofPairs_nodup _ huniq]

/-- BEGIN ATOM is not on line 7 → rejected -/
theorem _parse_atom_block_reject_begin (env : DepEnv) (lines : List (List Str)) (c lb : List Str) (cnt : Str) (n : Int)
    (h5 : lines[5]? = some c) (h3 : c[3]? = some cnt) (hcnt : parseInt cnt = .ok n)
    (h6 : lines[6]? = some lb) (hne : join py!" " (lb.drop 2) ≠ py!"BEGIN ATOM") :
    Tucan.molfile_v3000_reader._parse_atom_block env lines = .error (.custom "MolfileParserException") := by
  unfold Tucan.molfile_v3000_reader._parse_atom_block
  have g5 : getItem lines (5 : Int) = .ok c := getItem_nat lines 5 c h5
  have g3 : getItem c (3 : Int) = .ok cnt := getItem_nat c 3 cnt h3
  have g6 : getItem lines ((7 : Int) - 1) = .ok lb := getItem_nat lines 6 lb h6
  have hjb : pyNe (join py!" " (slice lb (some (2 : Int)) none)) py!"BEGIN ATOM" = true := by
    rw [slice_from_2]; simpa [pyNe, PyCmp.eq] using hne
  simp only [pyAdd_int, pyIter_list, g5, g3, hcnt, g6, ok_bind, hjb, if_true, throw_eq_error, error_bind]

/-- END ATOM is not where the atom count says → rejected -/
theorem _parse_atom_block_reject_end (env : DepEnv) (lines : List (List Str)) (c lb le : List Str) (cnt : Str) (n : Nat)
    (h5 : lines[5]? = some c) (h3 : c[3]? = some cnt) (hcnt : parseInt cnt = .ok (n : Int))
    (h6 : lines[6]? = some lb) (hlb : lb.drop 2 = [py!"BEGIN", py!"ATOM"])
    (h7 : lines[7 + n]? = some le) (hne : join py!" " (le.drop 2) ≠ py!"END ATOM") :
    Tucan.molfile_v3000_reader._parse_atom_block env lines = .error (.custom "MolfileParserException") := by
  unfold Tucan.molfile_v3000_reader._parse_atom_block
  have g5 : getItem lines (5 : Int) = .ok c := getItem_nat lines 5 c h5
  have g3 : getItem c (3 : Int) = .ok cnt := getItem_nat c 3 cnt h3
  have g6 : getItem lines ((7 : Int) - 1) = .ok lb := getItem_nat lines 6 lb h6
  have g7 : getItem lines ((7 : Int) + (n : Int)) = .ok le := by
    have := getItem_nat lines (7 + n) le h7
    push_cast at this; exact this
  have hjb : pyNe (join py!" " (slice lb (some (2 : Int)) none)) py!"BEGIN ATOM" = false := by
    rw [slice_from_2, hlb]; rfl
  have hje : pyNe (join py!" " (slice le (some (2 : Int)) none)) py!"END ATOM" = true := by
    rw [slice_from_2]; simpa [pyNe, PyCmp.eq] using hne
  simp only [pyAdd_int, pyIter_list, g5, g3, hcnt, g6, g7, ok_bind, hjb, hje, if_true, Bool.false_eq_true, if_false,
    throw_eq_error, error_bind]


/-! ## 4. bonds -/

def parserError {α} : M α := .error (.custom "MolfileParserException")

/-- the bond type is the integer in the fourth token -/
theorem _parse_bond_attributes_ok (env : DepEnv) (line : List Str) (t : Str) (n : Int)
    (h3 : (line)[3]? = some t) (hn : parseInt t = .ok n) :
    Tucan.molfile_v3000_reader._parse_bond_attributes env line = .ok ⟨[("bond_type", Val.int n)]⟩ := by
  unfold Tucan.molfile_v3000_reader._parse_bond_attributes
  have g3 : getItem line (3 : Int) = .ok t := getItem_nat line 3 t h3
  simp only [g3, hn, ok_bind, pure_eq_ok]
  rfl

theorem _parse_bond_attributes_eq (env : DepEnv) (line : List Str) (t : Str) (h3 : (line)[3]? = some t) :
    Tucan.molfile_v3000_reader._parse_bond_attributes env line =
      (do let n ← parseInt t; pure ⟨[("bond_type", Val.int n)]⟩) := by
  unfold Tucan.molfile_v3000_reader._parse_bond_attributes
  have g3 : getItem line (3 : Int) = .ok t := getItem_nat line 3 t h3
  simp only [g3, ok_bind]
  rcases parseInt t with e | n
  · rfl
  · rfl

/-- an endpoint must be the (0-based) index of a non-star atom -/
theorem _validate_atom_index_eq (env : DepEnv) (index : Int) (atom_attrs : Dict Int Attrs) :
    Tucan.molfile_v3000_reader._validate_atom_index env index atom_attrs =
      if index ∈ atom_attrs.keys then .ok () else parserError := by
  unfold Tucan.molfile_v3000_reader._validate_atom_index
  have : atom_attrs.contains index = decide (index ∈ atom_attrs.keys) := by
    simp only [Dict.contains, Dict.get?, Dict.keys]
    by_cases h : index ∈ atom_attrs.items.map Prod.fst
    · simp only [h, decide_true]
      cases hl : atom_attrs.items.lookup index with
      | some v => rfl
      | none =>
        rw [List.lookup_eq_none_iff] at hl
        simp only [List.mem_map] at h
        obtain ⟨q, hq, rfl⟩ := h
        simpa using hl q hq
    · simp only [h, decide_false]
      cases hl : atom_attrs.items.lookup index with
      | some v => exact absurd (lookup_mem_keys index v _ hl) h
      | none => rfl
  simp only [pyContains_dict, this]
  by_cases h : index ∈ atom_attrs.keys <;> simp [h, parserError]

/-- `_validate_bond_indices` accepts exactly when both endpoints of every bond are atom indices -/
theorem _validate_bond_indices_eq (env : DepEnv) (bond_attrs : Dict (Int × Int) Attrs) (atom_attrs : Dict Int Attrs) :
    Tucan.molfile_v3000_reader._validate_bond_indices env bond_attrs atom_attrs =
      if ∀ b ∈ bond_attrs.keys, b.1 ∈ atom_attrs.keys ∧ b.2 ∈ atom_attrs.keys then .ok () else parserError := by
  unfold Tucan.molfile_v3000_reader._validate_bond_indices
  generalize bond_attrs.keys = ks
  have g0 : ∀ b : Int × Int, getItem b (0 : Int) = .ok b.1 := fun b => rfl
  have g1 : ∀ b : Int × Int, getItem b (1 : Int) = .ok b.2 := fun b => rfl
  simp only [g0, g1, ok_bind, _validate_atom_index_eq]
  induction ks with
  | nil => simp
  | cons b ks ih =>
    simp only [List.forIn_cons]
    by_cases h1 : b.1 ∈ atom_attrs.keys
    · by_cases h2 : b.2 ∈ atom_attrs.keys
      · simp only [h1, h2, if_true, ok_bind, pure_eq_ok] at ih ⊢
        rw [ih]
        simp only [List.forall_mem_cons, h1, h2, true_and, and_self]
      · simp [h1, h2, parserError]
    · simp [h1, parserError]


/-! ### bonds to a star atom: `ENDPTS=(n a1 … an)` -/

theorem searchAux_none (s : Str) (h : '(' ∉ s) : ∀ fuel, searchEndptsAux fuel s = none := by
  induction s with
  | nil => intro fuel; cases fuel <;> rfl
  | cons c cs ih =>
    intro fuel
    cases fuel with
    | zero => rfl
    | succ fuel =>
      simp only [List.mem_cons, not_or] at h
      have hp : (py!"ENDPTS=(").isPrefixOf (c :: cs) = false := by
        by_contra hp
        simp only [Bool.not_eq_false, List.isPrefixOf_iff_prefix] at hp
        obtain ⟨t, ht⟩ := hp
        have : '(' ∈ c :: cs := by rw [← ht]; simp
        simp only [List.mem_cons] at this
        rcases this with h1 | h1
        · exact h.1 h1
        · exact h.2 h1
      simp only [searchEndptsAux, hp, Bool.false_eq_true, if_false]
      exact ih h.2 fuel

theorem noHit (P rest : Str) (hP : '(' ∉ P) (hne : P ≠ []) :
    (py!"ENDPTS=(").isPrefixOf (P ++ (py!"ENDPTS=(" ++ rest)) = false := by
  rcases P with _ | ⟨c0, _ | ⟨c1, _ | ⟨c2, _ | ⟨c3, _ | ⟨c4, _ | ⟨c5, _ | ⟨c6, _ | ⟨c7, P⟩⟩⟩⟩⟩⟩⟩⟩
  · exact absurd rfl hne
  all_goals simp only [List.mem_cons, not_or, List.not_mem_nil, not_false_eq_true, and_true] at hP
  all_goals simp [List.isPrefixOf]
  intros; exact hP.2.2.2.2.2.2.2.1

theorem lastParenIdx_hit (B Q : Str) (hB : B ≠ []) (hQ : ')' ∉ Q) :
    lastParenIdx (B ++ ')' :: Q) = some B.length := by
  unfold lastParenIdx
  have hlen : (B ++ ')' :: Q).length = (B.length + 1) + Q.length := by simp; omega
  rw [hlen, List.range_add, List.filter_append, List.range_succ, List.filter_append]
  have h2 : List.filter (fun i => decide ((B ++ ')' :: Q)[i]? = some ')' ∧ i ≥ 1))
      (List.map (fun x => B.length + 1 + x) (List.range Q.length)) = [] := by
    rw [List.filter_eq_nil_iff]
    intro i hi
    simp only [List.mem_map, List.mem_range] at hi
    obtain ⟨j, hj, rfl⟩ := hi
    have : (B ++ ')' :: Q)[B.length + 1 + j]? = Q[j]? := by
      rw [List.getElem?_append_right (by omega)]
      have : B.length + 1 + j - B.length = j + 1 := by omega
      rw [this]; rfl
    simp only [this, decide_eq_true_eq, not_and]
    intro hq
    exact absurd (List.mem_of_getElem? hq) hQ
  have h1 : List.filter (fun i => decide ((B ++ ')' :: Q)[i]? = some ')' ∧ i ≥ 1)) [B.length] = [B.length] := by
    have hpos : B.length ≥ 1 := by
      cases B with
      | nil => exact absurd rfl hB
      | cons _ _ => simp
    simp [hpos]
  rw [h1, h2]
  simp

theorem takeWhile_all {α} (p : α → Bool) (l : List α) (h : ∀ a ∈ l, p a = true) : l.takeWhile p = l := by
  induction l with
  | nil => rfl
  | cons a l ih => simp [List.takeWhile, h a (by simp), ih (fun b hb => h b (by simp [hb]))]

theorem searchAux_hit (B Q : Str) (hB : B ≠ []) (hQ : ')' ∉ Q) (hnlB : '\n' ∉ B) (hnlQ : '\n' ∉ Q) :
    ∀ (P : Str), '(' ∉ P → ∀ fuel, P.length + 1 ≤ fuel →
      searchEndptsAux fuel (P ++ (py!"ENDPTS=(" ++ (B ++ ')' :: Q))) = some (py!"ENDPTS=(" ++ (B ++ [')'])) := by
  intro P
  induction P with
  | nil =>
    intro _ fuel hf
    cases fuel with
    | zero => simp at hf
    | succ fuel =>
      have hline : List.takeWhile (fun x => !decide (x = '\n')) (B ++ ')' :: Q) = B ++ ')' :: Q := by
        apply takeWhile_all
        intro a ha
        simp only [List.mem_append, List.mem_cons] at ha
        rcases ha with ha | rfl | ha
        · simp; rintro rfl; exact hnlB ha
        · decide
        · simp; rintro rfl; exact hnlQ ha
      simp [searchEndptsAux, List.isPrefixOf, hline, lastParenIdx_hit B Q hB hQ]
      have e : 'N' :: 'D' :: 'P' :: 'T' :: 'S' :: '=' :: '(' :: (B ++ ')' :: Q) = (py!"NDPTS=(" ++ B ++ [')']) ++ Q := by simp
      rw [e, List.take_left' (by simp; omega)]; simp
  | cons c P ih =>
    intro hP fuel hf
    cases fuel with
    | zero => simp at hf
    | succ fuel =>
      have hno := noHit (c :: P) (B ++ ')' :: Q) hP (by simp)
      simp only [List.mem_cons, not_or] at hP
      simp only [List.cons_append] at hno
      simp only [List.cons_append, searchEndptsAux, hno, Bool.false_eq_true, if_false]
      exact ih hP.2 fuel (by simpa using hf)


theorem searchEndpts_none (s : Str) (h : '(' ∉ s) : searchEndpts s = none := searchAux_none s h _

/-- the regular expression finds the `ENDPTS=(…)` group when no `(` precedes it and no `)` follows it -/
theorem searchEndpts_hit (P B Q : Str) (hP : '(' ∉ P) (hB : B ≠ []) (hQ : ')' ∉ Q) (hnlB : '\n' ∉ B) (hnlQ : '\n' ∉ Q) :
    searchEndpts (P ++ (py!"ENDPTS=(" ++ (B ++ ')' :: Q))) = some (py!"ENDPTS=(" ++ (B ++ [')'])) :=
  searchAux_hit B Q hB hQ hnlB hnlQ P hP _ (by simp)

/-- `" ".join(l)` -/
def joinSp : List Str → Str
  | [] => []
  | [t] => t
  | t :: u :: r => t ++ ' ' :: joinSp (u :: r)

theorem join_eq_joinSp : ∀ l : List Str, join py!" " l = joinSp l
  | [] => rfl
  | [t] => by simp [join, List.intercalate, List.intersperse, joinSp]
  | t :: u :: r => by
    have := join_eq_joinSp (u :: r)
    simp only [join, List.intercalate, List.intersperse, joinSp, List.flatten_cons] at this ⊢
    rw [← this]; simp

/-- a token as produced by blank-splitting a line: non-empty, no whitespace -/
def Clean (t : Str) : Prop := t ≠ [] ∧ ∀ c ∈ t, isPySpace c = false

theorem splitWsAux_clean (t : Str) (h : ∀ c ∈ t, isPySpace c = false) : ∀ (rest cur : Str),
    splitWsAux (t ++ rest) cur = splitWsAux rest (t.reverse ++ cur) := by
  induction t with
  | nil => intro rest cur; rfl
  | cons c t ih =>
    intro rest cur
    simp only [List.cons_append, splitWsAux, h c (by simp), Bool.false_eq_true, if_false,
      ih (fun d hd => h d (by simp [hd])), List.reverse_cons, List.append_assoc,
      List.nil_append]

theorem splitWs_joinSp : ∀ (l : List Str), (∀ t ∈ l, Clean t) → splitWs (joinSp l) = l
  | [], _ => rfl
  | [t], h => by
    have ht := h t (by simp)
    have := splitWsAux_clean t ht.2 [] []
    simp only [List.append_nil] at this
    simp [splitWs, joinSp, this, splitWsAux, ht.1]
  | t :: u :: r, h => by
    have ht := h t (by simp)
    have ih := splitWs_joinSp (u :: r) (fun x hx => h x (by simp [hx]))
    have := splitWsAux_clean t ht.2 (' ' :: joinSp (u :: r)) []
    simp only [splitWs] at ih
    simp only [splitWs, joinSp, this, splitWsAux, List.append_nil]
    simp [isPySpace, ht.1, ih]


theorem joinSp_inj (ts us : List Str) (hts : ∀ t ∈ ts, Clean t) (hus : ∀ t ∈ us, Clean t)
    (h : joinSp ts = joinSp us) : ts = us := by
  rw [← splitWs_joinSp ts hts, h, splitWs_joinSp us hus]

/-- for blank-free non-empty tokens the delimiter test compares token lists: the reader rejects
exactly when the tokens after `M V30` are not the expected ones -/
theorem join_ne_of_tokens_ne (ts expected : List Str) (hts : ∀ t ∈ ts, Clean t) (hex : ∀ t ∈ expected, Clean t)
    (hne : ts ≠ expected) : join py!" " ts ≠ join py!" " expected := by
  rw [join_eq_joinSp, join_eq_joinSp]
  exact fun h => hne (joinSp_inj ts expected hts hex h)

theorem slice_endpts (B : Str) : slice (py!"ENDPTS=(" ++ (B ++ [')'])) (some (8 : Int)) (some (-1 : Int)) = B := by
  simp [slice, clampIndex]
  have h : ((B.length : Int) + 1 + 1 + 1 + 1 + 1 + 1 + 1 + 1).toNat = 8 + B.length := by omega
  have e : 'E' :: 'N' :: 'D' :: 'P' :: 'T' :: 'S' :: '=' :: '(' :: (B ++ [')']) = (py!"ENDPTS=(" ++ B) ++ [')'] := by simp
  rw [h, e, List.take_left' (by simp; omega)]; simp

theorem listComp_parseInt (l : List Str) :
    listComp l (fun num => do return some (← parseInt num)) = intsOf l := by
  induction l with
  | nil => rfl
  | cons s r ih =>
    simp only [listComp, intsOf, ih, bind_assoc]
    rcases parseInt s with e | n
    · rfl
    simp only [ok_bind, pure_eq_ok]

/-- the bonds a star-atom bond line stands for: the first number is the count, the others the
(1-based) endpoints -/
def starBondsOf (start : Int) (ints : List Int) : M (List (Int × Int)) :=
  match ints with
  | [] => .error .index
  | n :: es => if n = es.length then pure (es.map (fun e => (start, e - 1))) else parserError

theorem clean_no_nl (nums : List Str) (h : ∀ t ∈ nums, Clean t) : '\n' ∉ joinSp nums := by
  induction nums using joinSp.induct with
  | case1 => simp [joinSp]
  | case2 t =>
    intro hc
    have := (h t (by simp)).2 _ hc
    revert this; decide
  | case3 t u r ih =>
    simp only [joinSp, List.mem_append, List.mem_cons, not_or]
    refine ⟨?_, by decide, ih (fun x hx => h x (by simp [hx]))⟩
    intro hc
    have := (h t (by simp)).2 _ hc
    revert this; decide

theorem joinSp_ne_nil (nums : List Str) (hne : nums ≠ []) (h : ∀ t ∈ nums, Clean t) : joinSp nums ≠ [] := by
  rcases nums with _ | ⟨t, _ | ⟨u, r⟩⟩
  · exact absurd rfl hne
  · exact (h t (by simp)).1
  · simp [joinSp]

theorem _parse_bond_line_with_star_atom_core (env : DepEnv) (line : List Str) (start : Int) (P Q : Str)
    (nums : List Str) (hjoin : join py!" " line = P ++ (py!"ENDPTS=(" ++ (joinSp nums ++ ')' :: Q)))
    (hP : '(' ∉ P) (hQ : ')' ∉ Q) (hnlQ : '\n' ∉ Q) (hne : nums ≠ []) (hnums : ∀ t ∈ nums, Clean t) :
    Tucan.molfile_v3000_reader._parse_bond_line_with_star_atom env line start =
      (do let ints ← intsOf nums; starBondsOf start ints) := by
  unfold Tucan.molfile_v3000_reader._parse_bond_line_with_star_atom
  have hs := searchEndpts_hit P (joinSp nums) Q hP (joinSp_ne_nil nums hne hnums) hQ (clean_no_nl nums hnums) hnlQ
  simp only [pyIter_list, hjoin, hs, isNone, Option.isNone_some, Bool.false_eq_true, if_false, optGet, Option.getD_some,
    slice_endpts, splitWs_joinSp nums hnums, listComp_parseInt]
  rcases intsOf nums with e | ints
  · rfl
  simp only [ok_bind]
  cases ints with
  | nil => rfl
  | cons n es =>
    have g0 : getItem (n :: es) (0 : Int) = .ok n := rfl
    have hsl : slice (n :: es) (some (1 : Int)) none = es := by simp [slice, clampIndex]
    have hlc : listComp es (fun end_atom_index => (pure (some (start, end_atom_index - 1)) : M (Option (Int × Int))))
        = .ok (es.map (fun e => (start, e - 1))) := by
      have := listComp_ok es (fun e => (pure (some (start, e - 1)) : M (Option (Int × Int))))
        (fun e => some (start, e - 1)) (fun _ _ => rfl)
      rw [this]; simp
    simp only [g0, ok_bind, hsl, hlc, starBondsOf]
    by_cases hn : n = es.length
    · simp [hn, pyNe, PyCmp.eq]
    · simp [hn, pyNe, PyCmp.eq, parserError]

/-- a bond line without parentheses has no ENDPTS group: silently no bond -/
theorem _parse_bond_line_with_star_atom_none (env : DepEnv) (line : List Str) (start : Int)
    (h : '(' ∉ join py!" " line) :
    Tucan.molfile_v3000_reader._parse_bond_line_with_star_atom env line start = .ok [] := by
  unfold Tucan.molfile_v3000_reader._parse_bond_line_with_star_atom
  simp only [pyIter_list, searchEndpts_none _ h, isNone, Option.isNone_none, if_true, pure_eq_ok]



/-! ### bond lines as token lists -/

/-- append `)` to the last token -/
def closeLast : List Str → List Str
  | [] => []
  | [t] => [t ++ [')']]
  | t :: u :: r => t :: closeLast (u :: r)

/-- the blank-separated tokens of `ENDPTS=(n a1 … an)` -/
def endptsTokens : List Str → List Str
  | [] => []
  | t :: r => closeLast ((py!"ENDPTS=(" ++ t) :: r)

theorem joinSp_closeLast : ∀ (l : List Str), l ≠ [] → joinSp (closeLast l) = joinSp l ++ [')']
  | [], h => absurd rfl h
  | [t], _ => rfl
  | t :: u :: r, _ => by
    have ih := joinSp_closeLast (u :: r) (by simp)
    cases hcl : closeLast (u :: r) with
    | nil => cases r <;> simp [closeLast] at hcl
    | cons x xs =>
      simp only [closeLast, hcl, joinSp]
      rw [hcl] at ih
      rw [ih]; simp

theorem joinSp_cons (t : Str) (l : List Str) (h : l ≠ []) : joinSp (t :: l) = t ++ ' ' :: joinSp l := by
  cases l with
  | nil => exact absurd rfl h
  | cons u r => rfl

theorem joinSp_endptsTokens (nums : List Str) (h : nums ≠ []) :
    joinSp (endptsTokens nums) = py!"ENDPTS=(" ++ (joinSp nums ++ [')']) := by
  cases nums with
  | nil => exact absurd rfl h
  | cons t r =>
    rw [endptsTokens, joinSp_closeLast _ (by simp)]
    cases r with
    | nil => simp [joinSp]
    | cons u r => simp [joinSp]

theorem joinSp_append (A B : List Str) (hA : A ≠ []) (hB : B ≠ []) :
    joinSp (A ++ B) = joinSp A ++ ' ' :: joinSp B := by
  induction A with
  | nil => exact absurd rfl hA
  | cons t A ih =>
    cases A with
    | nil => simp [joinSp_cons _ _ hB, joinSp]
    | cons u A =>
      have := ih (by simp)
      simp only [List.cons_append] at this ⊢
      rw [joinSp_cons t _ (by simp), this, joinSp_cons t _ (by simp)]
      simp

theorem mem_joinSp (c : Char) : ∀ (l : List Str), c ∈ joinSp l → c = ' ' ∨ ∃ t ∈ l, c ∈ t
  | [], h => by simp [joinSp] at h
  | [t], h => Or.inr ⟨t, by simp, h⟩
  | t :: u :: r, h => by
    simp only [joinSp, List.mem_append, List.mem_cons] at h
    rcases h with h | h | h
    · exact Or.inr ⟨t, by simp, h⟩
    · exact Or.inl h
    · rcases mem_joinSp c (u :: r) h with h | ⟨x, hx, hc⟩
      · exact Or.inl h
      · exact Or.inr ⟨x, by simp [List.mem_cons.mp hx], hc⟩

/-- abstract bond line `M  V30 index type atom1 atom2 [key=value]*`; if there is an
`ENDPTS=(n a1 … an)` property, `pre` are the property tokens before it, `nums` its numbers and
`post` the property tokens after it; otherwise `pre` are all property tokens -/
structure BondLine where
  idx : Str
  typ : Str
  a1 : Str
  a2 : Str
  pre : List Str
  endpts : Option (List Str × List Str)

def BondLine.tokens (b : BondLine) : List Str :=
  [py!"M", py!"V30", b.idx, b.typ, b.a1, b.a2] ++ (b.pre ++
    match b.endpts with
    | none => []
    | some (nums, post) => endptsTokens nums ++ post)

/-- ENDPTS is the only parenthesised property (as in the CTfile format) and its numbers are clean tokens -/
structure BondLine.Shape (b : BondLine) : Prop where
  noparen : ∀ t ∈ [b.idx, b.typ, b.a1, b.a2] ++ b.pre, '(' ∉ t
  endpts : ∀ nums post, b.endpts = some (nums, post) →
    nums ≠ [] ∧ (∀ t ∈ nums, Clean t) ∧ ∀ t ∈ post, ')' ∉ t ∧ '\n' ∉ t

/-- the bonds of a line whose other end is a star atom: one per listed endpoint; none without ENDPTS -/
def starMeaning (start : Int) (endpts : Option (List Str × List Str)) : M (List (Int × Int)) :=
  match endpts with
  | none => pure []
  | some (nums, _) => do let ints ← intsOf nums; starBondsOf start ints

theorem _parse_bond_line_with_star_atom_eq (env : DepEnv) (b : BondLine) (h : b.Shape) (start : Int) :
    Tucan.molfile_v3000_reader._parse_bond_line_with_star_atom env b.tokens start = starMeaning start b.endpts := by
  have hfix : ∀ c ∈ joinSp ([py!"M", py!"V30", b.idx, b.typ, b.a1, b.a2] ++ b.pre), c ≠ '(' := by
    intro c hc
    rcases mem_joinSp c _ hc with rfl | ⟨t, ht, hct⟩
    · decide
    · rintro rfl
      simp only [List.cons_append, List.nil_append, List.mem_cons] at ht
      rcases ht with rfl | rfl | ht
      · revert hct; decide
      · revert hct; decide
      · exact h.noparen t (by simpa using ht) hct
  cases he : b.endpts with
  | none =>
    have htok : b.tokens = [py!"M", py!"V30", b.idx, b.typ, b.a1, b.a2] ++ b.pre := by
      simp [BondLine.tokens, he]
    rw [starMeaning]
    apply _parse_bond_line_with_star_atom_none
    rw [join_eq_joinSp, htok]
    intro hc; exact hfix _ hc rfl
  | some np =>
    rcases np with ⟨nums, post⟩
    obtain ⟨hne, hclean, hpost⟩ := h.endpts nums post he
    have hE : endptsTokens nums ≠ [] := by
      cases nums with
      | nil => exact absurd rfl hne
      | cons t r => cases r <;> simp [endptsTokens, closeLast]
    let Q : Str := if post = [] then [] else ' ' :: joinSp post
    have hEQ : joinSp (endptsTokens nums ++ post) = py!"ENDPTS=(" ++ (joinSp nums ++ ')' :: Q) := by
      by_cases hp : post = []
      · simp [Q, hp, joinSp_endptsTokens nums hne]
      · rw [joinSp_append _ _ hE hp, joinSp_endptsTokens nums hne]; simp [Q, hp]
    have hjoin : join py!" " b.tokens = (joinSp ([py!"M", py!"V30", b.idx, b.typ, b.a1, b.a2] ++ b.pre) ++ [' ']) ++
        (py!"ENDPTS=(" ++ (joinSp nums ++ ')' :: Q)) := by
      have htok : b.tokens = ([py!"M", py!"V30", b.idx, b.typ, b.a1, b.a2] ++ b.pre) ++ (endptsTokens nums ++ post) := by
        simp [BondLine.tokens, he]
      rw [join_eq_joinSp, htok, joinSp_append _ _ (by simp) (by simp [hE]), hEQ]
      simp
    have hQ : ∀ c ∈ Q, c ≠ ')' ∧ c ≠ '\n' := by
      intro c hc
      by_cases hp : post = []
      · simp [Q, hp] at hc
      · simp only [Q, hp, if_false, List.mem_cons] at hc
        rcases hc with rfl | hc
        · decide
        · rcases mem_joinSp c _ hc with rfl | ⟨t, ht, hct⟩
          · decide
          · exact ⟨by rintro rfl; exact (hpost t ht).1 hct, by rintro rfl; exact (hpost t ht).2 hct⟩
    rw [_parse_bond_line_with_star_atom_core env b.tokens start _ Q nums hjoin ?_ ?_ ?_ hne hclean]
    · rfl
    · intro hc
      simp only [List.mem_append, List.mem_singleton] at hc
      rcases hc with hc | hc
      · exact hfix _ hc rfl
      · revert hc; decide
    · intro hc; exact (hQ _ hc).1 rfl
    · intro hc; exact (hQ _ hc).2 rfl


/-! ### bond block -/

def bondAttrs (ty : Int) : Attrs := ⟨[("bond_type", Val.int ty)]⟩

/-- meaning of a bond line given the star atoms: the atom pairs it connects and the bond attributes.
A bond between two non-star atoms is one pair; a bond to a star atom is one pair per ENDPTS endpoint;
two star atoms may not be bonded. -/
def bondMeaning (stars : List Int) (b : BondLine) : M (List (Int × Int) × Attrs) := do
  let i1 ← parseInt b.a1
  let i2 ← parseInt b.a2
  let ty ← parseInt b.typ
  let ts ← (if i1 - 1 ∈ stars ∧ i2 - 1 ∈ stars then parserError
    else if i1 - 1 ∈ stars then starMeaning (i2 - 1) b.endpts
    else if i2 - 1 ∈ stars then starMeaning (i1 - 1) b.endpts
    else pure [(i1 - 1, i2 - 1)])
  pure (ts, bondAttrs ty)

def bondEntries (stars : List Int) : List BondLine → M (List ((Int × Int) × Attrs))
  | [] => pure []
  | b :: r => do
    let m ← bondMeaning stars b
    let rs ← bondEntries stars r
    pure (m.1.map (fun t => (t, m.2)) ++ rs)

/-- meaning of a bond block: `(atom1-1, atom2-1) ↦ {bond_type}` for every pair, in file order -/
def bondBlockMeaning (stars : List Int) (bonds : List BondLine) : M (Dict (Int × Int) Attrs) := do
  let es ← bondEntries stars bonds
  pure (Dict.ofPairs es)

theorem bondInner (ts : List (Int × Int)) (at_ : Attrs) : ∀ (d : Dict (Int × Int) Attrs),
    forIn ts d (fun t s => do let x ← (setItem s t at_ : M (Dict (Int × Int) Attrs)); pure (ForInStep.yield x)) =
      (.ok (d.updatePairs (ts.map (fun t => (t, at_)))) : M _) := by
  induction ts with
  | nil => intro d; rfl
  | cons t ts ih =>
    intro d
    simp only [List.forIn_cons, setItem_dict, ok_bind, pure_eq_ok] at ih ⊢
    rw [ih]; rfl

abbrev BondSt := List (Int × Int) × Dict (Int × Int) Attrs

theorem bondLoop (stars : List Int) (body : List Str → BondSt → M (ForInStep BondSt)) (bonds : List BondLine)
    (hbody : ∀ b ∈ bonds, ∀ s, body b.tokens s =
      (do let m ← bondMeaning stars b; pure (ForInStep.yield (m.1, s.2.updatePairs (m.1.map (fun t => (t, m.2))))))) :
    ∀ s, (do let r ← forIn (bonds.map BondLine.tokens) s body; pure r.2) =
      (do let es ← bondEntries stars bonds; pure (s.2.updatePairs es)) := by
  induction bonds with
  | nil => intro s; rfl
  | cons b r ih =>
    intro s
    simp only [List.map_cons, List.forIn_cons, hbody b (by simp), bondEntries, bind_assoc]
    rcases bondMeaning stars b with e | m
    · rfl
    simp only [ok_bind, pure_eq_ok]
    have := ih (fun c hc => hbody c (by simp [hc])) (m.1, s.2.updatePairs (m.1.map (fun t => (t, m.2))))
    simp only [pure_eq_ok] at this
    rw [this]
    rcases bondEntries stars r with e | es
    · rfl
    · simp [Dict.updatePairs]

theorem getItem_int {α} (l : List α) (i : Int) (k : Nat) (a : α) (hi : i = (k : Int)) (h : l[k]? = some a) :
    getItem l i = .ok a := by subst hi; exact getItem_nat l k a h

theorem slice_block' {α} (l : List α) (i j : Int) (k n : Nat) (hi : i = (k : Int)) (hj : j = (k : Int) + (n : Int))
    (h : k + n ≤ l.length) : slice l (some i) (some j) = (l.drop k).take n := by
  subst hi hj; exact slice_block l k n h

/-- the bond block of `bonds` sits in `lines` where the counts line (`na` atoms) says -/
structure BondBlockAt (lines : List (List Str)) (na : Nat) (bonds : List BondLine) : Prop where
  counts : ∃ c cntA cntB, lines[5]? = some c ∧ c[3]? = some cntA ∧ c[4]? = some cntB ∧
    parseInt cntA = .ok (na : Int) ∧ parseInt cntB = .ok (bonds.length : Int)
  begin_ : ∃ l, lines[7 + na + 1]? = some l ∧ l.drop 2 = [py!"BEGIN", py!"BOND"]
  end_ : ∃ l, lines[7 + na + 2 + bonds.length]? = some l ∧ l.drop 2 = [py!"END", py!"BOND"]
  bonds : (lines.drop (7 + na + 2)).take bonds.length = bonds.map BondLine.tokens

theorem bond_g3 (b : BondLine) : b.tokens[3]? = some b.typ := rfl
theorem bond_g4 (b : BondLine) : getItem b.tokens (4 : Int) = .ok b.a1 := rfl
theorem bond_g5 (b : BondLine) : getItem b.tokens (5 : Int) = .ok b.a2 := rfl

/-- **C07, bond block** (non-empty; with the rejections of the individual lines) -/
theorem _parse_bond_block_eq (env : DepEnv) (lines : List (List Str)) (stars : List Int) (na : Nat)
    (bonds : List BondLine) (hne : bonds ≠ []) (hb : BondBlockAt lines na bonds) (hshape : ∀ b ∈ bonds, b.Shape) :
    Tucan.molfile_v3000_reader._parse_bond_block env lines stars = bondBlockMeaning stars bonds := by
  obtain ⟨c, cntA, cntB, h5, h3, h4, hcA, hcB⟩ := hb.counts
  obtain ⟨lb, h6, hlb⟩ := hb.begin_
  obtain ⟨le, h7, hle⟩ := hb.end_
  have hlen : 7 + na + 2 + bonds.length ≤ lines.length := by
    have := (List.getElem?_eq_some_iff.mp h7).1; omega
  unfold Tucan.molfile_v3000_reader._parse_bond_block bondBlockMeaning
  have g5 : getItem lines (5 : Int) = .ok c := getItem_nat lines 5 c h5
  have g3 : getItem c (3 : Int) = .ok cntA := getItem_nat c 3 cntA h3
  have g4 : getItem c (4 : Int) = .ok cntB := getItem_nat c 4 cntB h4
  have g6 : getItem lines ((7 : Int) + (na : Int) + 2 - 1) = .ok lb :=
    getItem_int lines _ (7 + na + 1) lb (by push_cast; omega) h6
  have g7 : getItem lines ((7 : Int) + (na : Int) + 2 + (bonds.length : Int)) = .ok le :=
    getItem_int lines _ (7 + na + 2 + bonds.length) le (by push_cast; omega) h7
  have hsl : slice lines (some ((7 : Int) + (na : Int) + 2)) (some ((7 : Int) + (na : Int) + 2 + (bonds.length : Int)))
      = bonds.map BondLine.tokens := by
    rw [← hb.bonds]; exact slice_block' lines _ _ (7 + na + 2) bonds.length (by push_cast; omega) (by push_cast; omega) hlen
  have hjb : pyNe (join py!" " (slice lb (some (2 : Int)) none)) py!"BEGIN BOND" = false := by
    rw [slice_from_2, hlb]; rfl
  have hje : pyNe (join py!" " (slice le (some (2 : Int)) none)) py!"END BOND" = false := by
    rw [slice_from_2, hle]; rfl
  have hz : pyEq (bonds.length : Int) (0 : Int) = false := by
    cases bonds with
    | nil => exact absurd rfl hne
    | cons _ _ => simp [pyEq, PyCmp.eq]; omega
  simp only [pyAdd_int, pyIter_list, g5, g3, g4, hcA, hcB, g6, g7, ok_bind, hjb, hje, hsl, hz, Bool.false_eq_true, if_false]
  refine Eq.trans (bondLoop stars _ bonds ?hbody (default, Dict.empty)) ?hfin
  case hfin =>
    rcases bondEntries stars bonds with e | es
    · rfl
    · rfl
  case hbody =>
    intro b hb s
    unfold bondMeaning
    simp only [bond_g4, bond_g5, ok_bind, _parse_bond_attributes_eq env b.tokens b.typ (bond_g3 b),
      _parse_bond_line_with_star_atom_eq env b (hshape b hb), bind_assoc]
    rcases parseInt b.a1 with e | i1
    · rfl
    rcases parseInt b.a2 with e | i2
    · rfl
    rcases parseInt b.typ with e | ty
    · rfl
    simp only [ok_bind, pyContains_list, truthy]
    by_cases h1 : i1 - 1 ∈ stars <;> by_cases h2 : i2 - 1 ∈ stars
    · simp [h1, h2, parserError]
    · simp only [h1, h2, decide_true, decide_false, Bool.and_false, Bool.false_eq_true, if_false, if_true,
        and_false, id_eq]
      rcases starMeaning (i2 - 1) b.endpts with e | ts
      · rfl
      · simp only [ok_bind, bondInner]
        simp only [ok_bind, bondAttrs, pure_eq_ok]
    · simp only [h1, h2, decide_true, decide_false, Bool.false_and, Bool.false_eq_true, if_false, if_true,
        false_and, id_eq]
      rcases starMeaning (i1 - 1) b.endpts with e | ts
      · rfl
      · simp only [ok_bind, bondInner]
        simp only [ok_bind, bondAttrs, pure_eq_ok]
    · simp only [h1, h2, decide_false, Bool.false_and, Bool.false_eq_true, if_false, false_and, id_eq,
        ok_bind, bondInner]
      simp only [ok_bind, bondAttrs, pure_eq_ok, List.map_cons, List.map_nil]

/-- the bond block is optional: bond count 0 → no bonds, whatever follows -/
theorem _parse_bond_block_empty (env : DepEnv) (lines : List (List Str)) (stars : List Int) (c : List Str)
    (cntA cntB : Str) (na : Int) (h5 : lines[5]? = some c) (h3 : c[3]? = some cntA) (h4 : c[4]? = some cntB)
    (hcA : parseInt cntA = .ok na) (hcB : parseInt cntB = .ok 0) :
    Tucan.molfile_v3000_reader._parse_bond_block env lines stars = .ok Dict.empty := by
  unfold Tucan.molfile_v3000_reader._parse_bond_block
  have g5 : getItem lines (5 : Int) = .ok c := getItem_nat lines 5 c h5
  have g3 : getItem c (3 : Int) = .ok cntA := getItem_nat c 3 cntA h3
  have g4 : getItem c (4 : Int) = .ok cntB := getItem_nat c 4 cntB h4
  simp only [g5, g3, g4, hcA, hcB, ok_bind]
  rfl


/-- BEGIN BOND is not on the line after END ATOM → rejected (bond count non-zero) -/
theorem _parse_bond_block_reject_begin (env : DepEnv) (lines : List (List Str)) (stars : List Int) (c lb : List Str)
    (cntA cntB : Str) (na : Nat) (nb : Int) (h5 : lines[5]? = some c) (h3 : c[3]? = some cntA) (h4 : c[4]? = some cntB)
    (hcA : parseInt cntA = .ok (na : Int)) (hcB : parseInt cntB = .ok nb) (hnb : nb ≠ 0)
    (h6 : lines[7 + na + 1]? = some lb) (hne : join py!" " (lb.drop 2) ≠ py!"BEGIN BOND") :
    Tucan.molfile_v3000_reader._parse_bond_block env lines stars = parserError := by
  unfold Tucan.molfile_v3000_reader._parse_bond_block
  have g5 : getItem lines (5 : Int) = .ok c := getItem_nat lines 5 c h5
  have g3 : getItem c (3 : Int) = .ok cntA := getItem_nat c 3 cntA h3
  have g4 : getItem c (4 : Int) = .ok cntB := getItem_nat c 4 cntB h4
  have g6 : getItem lines ((7 : Int) + (na : Int) + 2 - 1) = .ok lb :=
    getItem_int lines _ (7 + na + 1) lb (by push_cast; omega) h6
  have hjb : pyNe (join py!" " (slice lb (some (2 : Int)) none)) py!"BEGIN BOND" = true := by
    rw [slice_from_2]; simpa [pyNe, PyCmp.eq] using hne
  have hz : pyEq nb (0 : Int) = false := by simpa [pyEq, PyCmp.eq] using hnb
  simp only [pyAdd_int, pyIter_list, g5, g3, g4, hcA, hcB, g6, ok_bind, hjb, hz, Bool.false_eq_true, if_false, if_true,
    throw_eq_error, error_bind, parserError]

/-- END BOND is not where the bond count says → rejected -/
theorem _parse_bond_block_reject_end (env : DepEnv) (lines : List (List Str)) (stars : List Int) (c lb le : List Str)
    (cntA cntB : Str) (na nb : Nat) (h5 : lines[5]? = some c) (h3 : c[3]? = some cntA) (h4 : c[4]? = some cntB)
    (hcA : parseInt cntA = .ok (na : Int)) (hcB : parseInt cntB = .ok (nb : Int)) (hnb : nb ≠ 0)
    (h6 : lines[7 + na + 1]? = some lb) (hlb : lb.drop 2 = [py!"BEGIN", py!"BOND"])
    (h7 : lines[7 + na + 2 + nb]? = some le) (hne : join py!" " (le.drop 2) ≠ py!"END BOND") :
    Tucan.molfile_v3000_reader._parse_bond_block env lines stars = parserError := by
  unfold Tucan.molfile_v3000_reader._parse_bond_block
  have g5 : getItem lines (5 : Int) = .ok c := getItem_nat lines 5 c h5
  have g3 : getItem c (3 : Int) = .ok cntA := getItem_nat c 3 cntA h3
  have g4 : getItem c (4 : Int) = .ok cntB := getItem_nat c 4 cntB h4
  have g6 : getItem lines ((7 : Int) + (na : Int) + 2 - 1) = .ok lb :=
    getItem_int lines _ (7 + na + 1) lb (by push_cast; omega) h6
  have g7 : getItem lines ((7 : Int) + (na : Int) + 2 + (nb : Int)) = .ok le :=
    getItem_int lines _ (7 + na + 2 + nb) le (by push_cast; omega) h7
  have hjb : pyNe (join py!" " (slice lb (some (2 : Int)) none)) py!"BEGIN BOND" = false := by
    rw [slice_from_2, hlb]; rfl
  have hje : pyNe (join py!" " (slice le (some (2 : Int)) none)) py!"END BOND" = true := by
    rw [slice_from_2]; simpa [pyNe, PyCmp.eq] using hne
  have hz : pyEq (nb : Int) (0 : Int) = false := by simpa [pyEq, PyCmp.eq] using hnb
  simp only [pyAdd_int, pyIter_list, g5, g3, g4, hcA, hcB, g6, g7, ok_bind, hjb, hje, hz, Bool.false_eq_true, if_false,
    if_true, throw_eq_error, error_bind, parserError]

/-! ### accepted case of the bond block, pure spec -/

/-- the atom pairs of a well-formed bond line (`i1`, `i2` the 1-based atom numbers) -/
def endptPairs (start : Int) (endpts : Option (List Int)) : List (Int × Int) :=
  match endpts with
  | some (_ :: es) => es.map (fun e => (start, e - 1))
  | _ => []

def bondPairs (stars : List Int) (i1 i2 : Int) (endpts : Option (List Int)) : List (Int × Int) :=
  if i1 - 1 ∈ stars then endptPairs (i2 - 1) endpts
  else if i2 - 1 ∈ stars then endptPairs (i1 - 1) endpts
  else [(i1 - 1, i2 - 1)]

/-- **C07, bond line, accepted case**: atom numbers, type and ENDPTS numbers are integers, the ENDPTS
count matches, not both ends are star atoms -/
theorem bondMeaning_ok (stars : List Int) (b : BondLine) (i1 i2 ty : Int)
    (h1 : parseInt b.a1 = .ok i1) (h2 : parseInt b.a2 = .ok i2) (ht : parseInt b.typ = .ok ty)
    (hss : ¬ (i1 - 1 ∈ stars ∧ i2 - 1 ∈ stars))
    (hE : ∀ nums post, b.endpts = some (nums, post) → (∀ t ∈ nums, IsInt t) ∧
      ∃ n es, nums.map intOf = n :: es ∧ n = es.length) :
    bondMeaning stars b = .ok (bondPairs stars i1 i2 (b.endpts.map (fun p => p.1.map intOf)), bondAttrs ty) := by
  have hstar : ∀ start, starMeaning start b.endpts = .ok (endptPairs start (b.endpts.map (fun p => p.1.map intOf))) := by
    intro start
    cases he : b.endpts with
    | none => rfl
    | some np =>
      rcases np with ⟨nums, post⟩
      obtain ⟨hint, n, es, hnum, hn⟩ := hE nums post he
      simp only [starMeaning, intsOf_ok nums hint, ok_bind, hnum, starBondsOf, hn, if_true, Option.map_some, pure_eq_ok,
        endptPairs]
  unfold bondMeaning bondPairs
  simp only [h1, h2, ht, ok_bind, hss, if_false, hstar]
  by_cases a : i1 - 1 ∈ stars
  · simp only [a, if_true, ok_bind, pure_eq_ok]
  · by_cases c : i2 - 1 ∈ stars
    · simp only [a, c, if_true, if_false, ok_bind, pure_eq_ok]
    · simp only [a, c, if_false, ok_bind, pure_eq_ok]

theorem bondEntries_ok (stars : List Int) (bonds : List BondLine) (ms : List (List (Int × Int) × Attrs))
    (h : List.Forall₂ (fun b m => bondMeaning stars b = .ok m) bonds ms) :
    bondEntries stars bonds = .ok (ms.flatMap (fun m => m.1.map (fun t => (t, m.2)))) := by
  induction h with
  | nil => rfl
  | cons hbm _ ih => simp only [bondEntries, hbm, ih, ok_bind, pure_eq_ok, List.flatMap_cons]

/-- **C07, bond block, accepted case**: one dict entry per atom pair of every bond line, in file order -/
theorem _parse_bond_block_ok (env : DepEnv) (lines : List (List Str)) (stars : List Int) (na : Nat)
    (bonds : List BondLine) (hne : bonds ≠ []) (hb : BondBlockAt lines na bonds) (hshape : ∀ b ∈ bonds, b.Shape)
    (ms : List (List (Int × Int) × Attrs)) (h : List.Forall₂ (fun b m => bondMeaning stars b = .ok m) bonds ms) :
    Tucan.molfile_v3000_reader._parse_bond_block env lines stars =
      .ok (Dict.ofPairs (ms.flatMap (fun m => m.1.map (fun t => (t, m.2))))) := by
  rw [_parse_bond_block_eq env lines stars na bonds hne hb hshape, bondBlockMeaning, bondEntries_ok stars bonds ms h]
  rfl

theorem IsInt.no_paren {s : Str} (h : IsInt s) : '(' ∉ s := by
  obtain ⟨n, hn⟩ := h
  intro hc; have := parseInt_ok_chars s n hn _ hc; revert this; decide

/-! ## composition: the connection table from tokenized lines -/

theorem _validate_counts_line_ok (env : DepEnv) (lines : List (List Str)) (c : List Str)
    (h5 : lines[5]? = some c) (h2 : c[2]? = some py!"COUNTS") (hlen : 5 ≤ c.length) :
    Tucan.molfile_v3000_reader._validate_counts_line env lines = .ok () := by
  unfold Tucan.molfile_v3000_reader._validate_counts_line
  have g5 : getItem lines (5 : Int) = .ok c := getItem_nat lines 5 c h5
  have g2 : getItem c (2 : Int) = .ok py!"COUNTS" := getItem_nat c 2 _ h2
  have hl : pyLt (pyLen c) (5 : Int) = false := by
    simp only [pyLen_list, pyLt, PyCmp.lt, POrd.lt, decide_eq_false_iff_not]; omega
  simp only [g5, g2, ok_bind, hl, pure_eq_ok]
  rfl

/-- meaning of a connection table: atoms, then bonds (given the star atoms), then every bond endpoint
must be a (non-star) atom -/
def ctabMeaning (env : DepEnv) (atoms : List AtomLine) (bonds : List BondLine) :
    M (Dict Int Attrs × Dict (Int × Int) Attrs) := do
  let A ← atomBlockMeaning env atoms
  let B ← bondBlockMeaning A.2 bonds
  if ∀ b ∈ B.keys, b.1 ∈ A.1.keys ∧ b.2 ∈ A.1.keys then pure (A.1, B) else parserError

/-- the tokenized lines contain a connection table with the given atom and bond lines -/
structure CtabAt (lines : List (List Str)) (atoms : List AtomLine) (bonds : List BondLine) : Prop where
  counts : ∃ c cntA cntB, lines[5]? = some c ∧ c[2]? = some py!"COUNTS" ∧ c[3]? = some cntA ∧ c[4]? = some cntB ∧
    parseInt cntA = .ok (atoms.length : Int) ∧ parseInt cntB = .ok (bonds.length : Int)
  atomBlock : AtomBlockAt lines atoms
  bondBlock : bonds ≠ [] → BondBlockAt lines atoms.length bonds

/-- **C07, composition** from the tokenized lines on -/
theorem graph_attributes_from_molfile_v3000_eq (env : DepEnv) (fuel : Nat) (ls : List Str) (lines : List (List Str))
    (htok : Tucan.molfile_v3000_reader._tokenize_lines env fuel ls = .ok lines)
    (atoms : List AtomLine) (bonds : List BondLine) (hc : CtabAt lines atoms bonds)
    (hA : ∀ a ∈ atoms, a.Shape) (hB : ∀ b ∈ bonds, b.Shape) :
    Tucan.molfile_v3000_reader.graph_attributes_from_molfile_v3000 env fuel ls = ctabMeaning env atoms bonds := by
  obtain ⟨c, cntA, cntB, h5, h2, h3, h4, hcA, hcB⟩ := hc.counts
  have hlen : 5 ≤ c.length := by have := (List.getElem?_eq_some_iff.mp h4).1; omega
  unfold Tucan.molfile_v3000_reader.graph_attributes_from_molfile_v3000 ctabMeaning
  simp only [htok, ok_bind, _validate_counts_line_ok env lines c h5 h2 hlen,
    _parse_atom_block_eq env lines atoms hc.atomBlock hA]
  rcases atomBlockMeaning env atoms with e | A
  · rfl
  simp only [ok_bind]
  have hbb : Tucan.molfile_v3000_reader._parse_bond_block env lines A.2 = bondBlockMeaning A.2 bonds := by
    by_cases hne : bonds = []
    · subst hne
      exact _parse_bond_block_empty env lines A.2 c cntA cntB _ h5 h3 h4 hcA hcB
    · exact _parse_bond_block_eq env lines A.2 atoms.length bonds hne (hc.bondBlock hne) hB
  rw [hbb]
  rcases bondBlockMeaning A.2 bonds with e | B
  · rfl
  simp only [ok_bind, _validate_bond_indices_eq]
  split_ifs <;> rfl


/-! ## sanity checks of the specs on concrete lines, and axioms -/

-- `M  V30 1 D 0 0 0 0 EXACHG=1 CHG=-1 ATTCHORD=(2 1 Al) MASS=13 RAD=0`
example :
    let props : List Prop' := [⟨py!"EXACHG", py!"1", []⟩, ⟨py!"CHG", py!"-1", []⟩,
      ⟨py!"ATTCHORD", py!"(2", [py!"1", py!"Al)"]⟩, ⟨py!"MASS", py!"13", []⟩, ⟨py!"RAD", py!"0", []⟩]
    propInt props py!"CHG" = some (-1) ∧ propInt props py!"MASS" = some 13 ∧ propInt props py!"RAD" = none ∧
      hydrogenIsotope py!"D" = (py!"H", 2) := by
  decide

example : endptsTokens [py!"3", py!"1", py!"2", py!"5"] = [py!"ENDPTS=(3", py!"1", py!"2", py!"5)"] := by decide
example : starBondsOf 7 [3, 1, 2, 5] = .ok [(7, 0), (7, 1), (7, 4)] := by decide
example : starBondsOf 7 [2, 1, 2, 5] = parserError := by decide

#print axioms detect_hydrogen_isotopes_ok
#print axioms _parse_atom_attributes_eq
#print axioms _parse_atom_attributes_ok
#print axioms _parse_atom_attributes_unknown
#print axioms _parse_atom_attributes_badint
#print axioms _parse_atom_block_eq
#print axioms _parse_atom_block_ok_unique
#print axioms _parse_atom_block_reject_end
#print axioms _parse_bond_attributes_ok
#print axioms _parse_bond_line_with_star_atom_eq
#print axioms _parse_bond_block_eq
#print axioms _validate_atom_index_eq
#print axioms _validate_bond_indices_eq
#print axioms graph_attributes_from_molfile_v3000_eq

end Contracts.V3000
