/-
Contracts.FinalLabels — contracts of `_labels_by_partition`, `_assign_final_labels` and the frame of
`serialize_molecule` (tucan/serialization.py); properties C12 (frame / repeatability), C15 (totality),
and the bijection property of the cosmetic relabelling.
-/
import Spec.GraphLemmas
import Spec.Order
import Contracts.Relabel
import Contracts.Partition
import Generated.Serialization
set_option autoImplicit false
set_option linter.unusedVariables false
set_option linter.unusedSimpArgs false

open Py Py.Graph

namespace Contracts.FinalLabels
open Contracts.Relabel (bind_eq_ok forIn_invariant)
open Contracts.Partition (attrV Carries)

/-! ## generic helpers -/

section DictHelpers
variable {κ ν : Type} [DecidableEq κ]

theorem set_of_contains (d : Dict κ ν) (k : κ) (v : ν) (h : d.contains k = true) :
    d.set k v = ⟨d.items.map (fun p => if p.1 = k then (k, v) else p)⟩ := by
  unfold Dict.set; rw [if_pos h]

theorem set_of_not_contains (d : Dict κ ν) (k : κ) (v : ν) (h : ¬ d.contains k = true) :
    d.set k v = ⟨d.items ++ [(k, v)]⟩ := by
  unfold Dict.set; rw [if_neg h]

/-- a second assignment to the same key overrides the first, also w.r.t. the position of the key -/
theorem dict_set_set (d : Dict κ ν) (k : κ) (v w : ν) : (d.set k v).set k w = d.set k w := by
  have h1 : (d.set k v).contains k = true := by unfold Dict.contains; rw [Dict.get?_set_self]; rfl
  rw [set_of_contains _ k w h1]
  by_cases hc : d.contains k = true
  · rw [set_of_contains d k v hc, set_of_contains d k w hc]
    simp only [List.map_map]
    congr 1
    apply List.map_congr_left
    intro p _
    by_cases hp : p.1 = k <;> simp [hp]
  · have hk : k ∉ d.keys := fun h => hc ((Dict.contains_iff d k).2 h)
    rw [set_of_not_contains d k v hc, set_of_not_contains d k w hc]
    simp only [List.map_append, List.map_cons, List.map_nil, if_true]
    congr 2
    conv_rhs => rw [← List.map_id d.items]
    apply List.map_congr_left
    intro p hp
    have : p.1 ≠ k := fun e => hk (e ▸ List.mem_map_of_mem (f := Prod.fst) hp)
    simp [this]

end DictHelpers

/-- `nx.set_node_attributes(m, False, EXPLORED)` -/
abbrev clearExplored (g : Graph) : Graph := g.setNodeAttrScalar (Val.bool false) "explored"

theorem scalar_scalar (g : Graph) (v w : Val) (k : String) :
    (g.setNodeAttrScalar v k).setNodeAttrScalar w k = g.setNodeAttrScalar w k := by
  unfold setNodeAttrScalar
  simp only [List.map_map, Function.comp_def, dict_set_set]

theorem scalar_modNode {g : Graph} (hg : g.node.WF) (n : Int) (k : String) (v w : Val) :
    (g.modNode n (fun a => a.set k v)).setNodeAttrScalar w k = g.setNodeAttrScalar w k := by
  unfold modNode
  cases h : g.node.get? n with
  | none => rfl
  | some a =>
    have hc : g.node.contains n = true := by unfold Dict.contains; rw [h]; rfl
    unfold setNodeAttrScalar
    simp only
    congr 2
    rw [set_of_contains _ _ _ hc]
    simp only [List.map_map]
    apply List.map_congr_left
    intro p hp
    by_cases hpn : p.1 = n
    · have : g.node.get? p.1 = some p.2 := Dict.get?_of_mem_items hg (by simpa using hp)
      rw [hpn, h] at this
      simp only [Option.some.injEq] at this
      simp [hpn, ← this, dict_set_set]
    · simp [hpn]

theorem nodesDataKey_scalar (g : Graph) (v : Val) (k name : String) (h : name ≠ k) :
    (g.setNodeAttrScalar v k).nodesDataKey name = g.nodesDataKey name := by
  unfold nodesDataKey setNodeAttrScalar
  simp only [List.map_map, Function.comp_def, Dict.get?_set_ne _ _ h]

theorem getItem_attrs (x : Attrs) (name : String) :
    (getItem x name : M Val) = match x.get? name with | some v => .ok v | Option.none => .error Err.key := by
  cases h : x.get? name <;> simp [getItem, GetItem.getItem, toKey, ToKey.toKey, h]

theorem nodeAttrs_scalar_getItem {β : Type} (g : Graph) (v : Val) (k name : String) (h : name ≠ k) (a : Int)
    (f : Val → M β) :
    (Graph.nodeAttrs (g.setNodeAttrScalar v k) a >>= fun x => (getItem x name : M Val) >>= f) =
      (Graph.nodeAttrs g a >>= fun x => (getItem x name : M Val) >>= f) := by
  unfold Graph.nodeAttrs
  rw [node_get?_setNodeAttrScalar]
  cases g.node.get? a with
  | none => rfl
  | some x =>
    simp only [Option.map_some, pure_eq_ok, ok_bind]
    rw [getItem_attrs, getItem_attrs, Dict.get?_set_ne _ _ h]

/-! ## the scratch flag of the input is irrelevant -/

theorem labels_by_partition_scalar (env : DepEnv) (m : Graph) (v : Val) :
    Tucan.serialization._labels_by_partition env (m.setNodeAttrScalar v "explored") =
      Tucan.serialization._labels_by_partition env m := by
  simp only [Tucan.serialization._labels_by_partition, nodesDataKey_scalar _ _ _ _ (by decide : "partition" ≠ "explored"),
    pyIter_graph, nodeList_setNodeAttrScalar,
    nodeAttrs_scalar_getItem _ _ _ _ (by decide : "partition" ≠ "explored")]

/-- `_assign_final_labels` overwrites the `explored` flags before reading them: the whole result
(returned graph, final state of the argument, or the exception) is the same as for the input with the
flags cleared. -/
theorem assign_final_labels_scalar (env : DepEnv) (fuel : Nat) (m : Graph) (pr : List (Val → Val → Bool)) :
    Tucan.serialization._assign_final_labels env fuel (clearExplored m) pr =
      Tucan.serialization._assign_final_labels env fuel m pr := by
  simp only [Tucan.serialization._assign_final_labels, labels_by_partition_scalar, scalar_scalar]

/-- inputs that differ only in the `explored` flags give the same result -/
theorem assign_final_labels_explored_irrelevant (env : DepEnv) (fuel : Nat) (m₁ m₂ : Graph)
    (pr : List (Val → Val → Bool)) (h : clearExplored m₁ = clearExplored m₂) :
    Tucan.serialization._assign_final_labels env fuel m₁ pr =
      Tucan.serialization._assign_final_labels env fuel m₂ pr := by
  rw [← assign_final_labels_scalar env fuel m₁, ← assign_final_labels_scalar env fuel m₂, h]

theorem serialize_molecule_scalar (env : DepEnv) (fuel : Nat) (m : Graph) :
    Tucan.serialization.serialize_molecule env fuel (clearExplored m) =
      Tucan.serialization.serialize_molecule env fuel m := by
  simp only [Tucan.serialization.serialize_molecule, assign_final_labels_scalar]

/-! ## FRAME (C12): `_assign_final_labels` changes nothing but the scratch flag -/

theorem node_wf_of_clear_eq {g m : Graph} (h : clearExplored g = clearExplored m) (hm : m.node.WF) : g.node.WF := by
  have h' : g.setNodeAttrScalar (Val.bool false) "explored" = m.setNodeAttrScalar (Val.bool false) "explored" := h
  have : g.nodeList = m.nodeList := by
    rw [← nodeList_setNodeAttrScalar g (Val.bool false) "explored", h', nodeList_setNodeAttrScalar]
  show g.nodeList.Nodup
  rw [this]; exact hm

/-- partial correctness: the final state `m'` of the argument is the argument with all `explored` flags
set to `False` (every other attribute, the node order, the adjacency structure incl. iteration orders and
bond data are literally unchanged), for every list of traversal priorities and any amount of fuel -/
theorem assign_final_labels_frame_eq (env : DepEnv) (fuel : Nat) {m : Graph} (hm : m.node.WF)
    (pr : List (Val → Val → Bool)) {r m' : Graph}
    (h : Tucan.serialization._assign_final_labels env fuel m pr = .ok (r, m')) : m' = clearExplored m := by
  unfold Tucan.serialization._assign_final_labels at h
  simp only [pure_eq_ok] at h
  obtain ⟨d, -, h⟩ := bind_eq_ok.1 h
  obtain ⟨s, hloop, h⟩ := bind_eq_ok.1 h
  have inv := forIn_invariant (σ := Graph × Dict Val (List Int) × Dict Int Int × Bool)
    (fun s => clearExplored s.1 = clearExplored m) (fun s => clearExplored s.1 = clearExplored m)
    _ ?_ (fun _ h => h) _ _ s (scalar_scalar _ _ _ _) hloop
  · split at h
    · simp at h
    · obtain ⟨_, -, h⟩ := bind_eq_ok.1 h
      simp only [Except.ok.injEq, Prod.mk.injEq] at h
      rw [← h.2]; exact inv
  · intro x s hP r' hbody
    obtain ⟨unex, -, hbody⟩ := bind_eq_ok.1 hbody
    split at hbody
    · simp only [Except.ok.injEq] at hbody
      subst hbody; exact hP
    · obtain ⟨u0, -, hbody⟩ := bind_eq_ok.1 hbody
      obtain ⟨s2, hinner, hbody⟩ := bind_eq_ok.1 hbody
      have inv2 := forIn_invariant (σ := Graph × Dict Val (List Int) × Dict Int Int × List Int × Bool)
        (fun s => clearExplored s.1 = clearExplored m) (fun s => clearExplored s.1 = clearExplored m)
        _ ?_ (fun _ h => h) _ _ s2 hP hinner
      · split at hbody
        · simp at hbody
        · simp only [Except.ok.injEq] at hbody
          subst hbody; exact inv2
      · intro y t hPt r2 hb
        split at hb
        · simp only [Except.ok.injEq] at hb
          subst hb; exact hPt
        · obtain ⟨⟨a, rest⟩, -, hb⟩ := bind_eq_ok.1 hb
          simp only at hb
          obtain ⟨attrs, -, hb⟩ := bind_eq_ok.1 hb
          obtain ⟨ex, -, hb⟩ := bind_eq_ok.1 hb
          split at hb
          · simp only [Except.ok.injEq] at hb
            subst hb; exact hPt
          · obtain ⟨c, -, hb⟩ := bind_eq_ok.1 hb
            obtain ⟨l, -, hb⟩ := bind_eq_ok.1 hb
            obtain ⟨⟨x5, rest6⟩, -, hb⟩ := bind_eq_ok.1 hb
            simp only at hb
            obtain ⟨c', -, hb⟩ := bind_eq_ok.1 hb
            obtain ⟨d', -, hb⟩ := bind_eq_ok.1 hb
            obtain ⟨fl', -, hb⟩ := bind_eq_ok.1 hb
            obtain ⟨nb, -, hb⟩ := bind_eq_ok.1 hb
            obtain ⟨order, -, hb⟩ := bind_eq_ok.1 hb
            obtain ⟨m2, hm2, hb⟩ := bind_eq_ok.1 hb
            simp only [Except.ok.injEq] at hb
            subst hb
            rw [setNodeAttr1_eq] at hm2
            split at hm2
            · simp only [Except.ok.injEq] at hm2
              subst hm2
              show clearExplored (t.1.modNode a _) = _
              rw [clearExplored, scalar_modNode (node_wf_of_clear_eq hPt hm)]
              exact hPt
            · cases hm2

/-- what "only the scratch attribute may differ" means, in the abstract view -/
structure OnlyExploredCleared (m m' : Graph) : Prop where
  nodeList : m'.nodeList = m.nodeList
  adj : m'.adj = m.adj
  attr : ∀ n k, k ≠ "explored" → m'.attr n k = m.attr n k
  explored : ∀ n ∈ m.nodeList, m'.attr n "explored" = some (Val.bool false)

theorem onlyExploredCleared_clear (m : Graph) : OnlyExploredCleared m (clearExplored m) where
  nodeList := nodeList_setNodeAttrScalar _ _ _
  adj := rfl
  attr := fun n k hk => by rw [attr_setNodeAttrScalar, if_neg hk]
  explored := fun n hn => by
    rw [attr_setNodeAttrScalar, if_pos rfl]
    obtain ⟨a, ha⟩ := Dict.exists_get?_of_mem_keys hn
    rw [ha]; rfl

/-- FRAME of `_assign_final_labels` (partial correctness, any priorities, any fuel) -/
theorem assign_final_labels_frame (env : DepEnv) (fuel : Nat) {m : Graph} (hm : m.node.WF)
    (pr : List (Val → Val → Bool)) {r m' : Graph}
    (h : Tucan.serialization._assign_final_labels env fuel m pr = .ok (r, m')) : OnlyExploredCleared m m' := by
  rw [assign_final_labels_frame_eq env fuel hm pr h]; exact onlyExploredCleared_clear m

theorem serialize_molecule_frame_eq (env : DepEnv) (fuel : Nat) {m : Graph} (hm : m.node.WF) {s : Str} {m' : Graph}
    (h : Tucan.serialization.serialize_molecule env fuel m = .ok (s, m')) : m' = clearExplored m := by
  unfold Tucan.serialization.serialize_molecule at h
  simp only [pure_eq_ok] at h
  obtain ⟨⟨r1, m2⟩, h1, h⟩ := bind_eq_ok.1 h
  simp only at h
  obtain ⟨_, -, h⟩ := bind_eq_ok.1 h
  obtain ⟨_, -, h⟩ := bind_eq_ok.1 h
  obtain ⟨_, -, h⟩ := bind_eq_ok.1 h
  obtain ⟨_, -, h⟩ := bind_eq_ok.1 h
  simp only [Except.ok.injEq, Prod.mk.injEq] at h
  rw [← h.2]
  exact assign_final_labels_frame_eq env fuel hm _ h1

/-- FRAME of `serialize_molecule` (C12): a successful call leaves the argument unchanged except that every
`explored` flag is `False` afterwards -/
theorem serialize_molecule_frame (env : DepEnv) (fuel : Nat) {m : Graph} (hm : m.node.WF) {s : Str} {m' : Graph}
    (h : Tucan.serialization.serialize_molecule env fuel m = .ok (s, m')) : OnlyExploredCleared m m' := by
  rw [serialize_molecule_frame_eq env fuel hm h]; exact onlyExploredCleared_clear m

/-- inputs that differ only in the `explored` flags serialize identically -/
theorem serialize_molecule_explored_irrelevant (env : DepEnv) (fuel : Nat) (m₁ m₂ : Graph)
    (h : clearExplored m₁ = clearExplored m₂) :
    Tucan.serialization.serialize_molecule env fuel m₁ = Tucan.serialization.serialize_molecule env fuel m₂ := by
  rw [← serialize_molecule_scalar env fuel m₁, ← serialize_molecule_scalar env fuel m₂, h]

/-- C12, repeatability: serializing the same object again gives the same string and leaves it as it is -/
theorem serialize_molecule_repeat (env : DepEnv) (fuel : Nat) {m : Graph} (hm : m.node.WF) {s : Str} {m' : Graph}
    (h : Tucan.serialization.serialize_molecule env fuel m = .ok (s, m')) :
    Tucan.serialization.serialize_molecule env fuel m' = .ok (s, m') := by
  have e := serialize_molecule_frame_eq env fuel hm h
  rw [e, serialize_molecule_scalar, ← e]; exact h

end Contracts.FinalLabels
