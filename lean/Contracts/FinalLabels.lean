/-
Contracts.FinalLabels — contracts of `_labels_by_partition`, `_assign_final_labels` and the frame of
`serialize_molecule` (tucan/serialization.py); properties C12 (frame / repeatability), C15 (totality),
and the bijection property of the cosmetic relabelling.
-/
import Spec.GraphLemmas
import Spec.Order
import Contracts.Relabel
import Contracts.Partition
import Generated.Serialization
set_option autoImplicit false
set_option linter.unusedVariables false
set_option linter.unusedSimpArgs false

open Py Py.Graph

namespace Contracts.FinalLabels
open Contracts.Relabel (bind_eq_ok forIn_invariant)
open Contracts.Partition (attrV Carries)

/-! ## generic helpers -/

section DictHelpers
variable {κ ν : Type} [DecidableEq κ]

theorem set_of_contains (d : Dict κ ν) (k : κ) (v : ν) (h : d.contains k = true) :
    d.set k v = ⟨d.items.map (fun p => if p.1 = k then (k, v) else p)⟩ := by
  unfold Dict.set; rw [if_pos h]

theorem set_of_not_contains (d : Dict κ ν) (k : κ) (v : ν) (h : ¬ d.contains k = true) :
    d.set k v = ⟨d.items ++ [(k, v)]⟩ := by
  unfold Dict.set; rw [if_neg h]

/-- a second assignment to the same key overrides the first, also w.r.t. the position of the key -/
theorem dict_set_set (d : Dict κ ν) (k : κ) (v w : ν) : (d.set k v).set k w = d.set k w := by
  have h1 : (d.set k v).contains k = true := by unfold Dict.contains; rw [Dict.get?_set_self]; rfl
  rw [set_of_contains _ k w h1]
  by_cases hc : d.contains k = true
  · rw [set_of_contains d k v hc, set_of_contains d k w hc]
    simp only [List.map_map]
    congr 1
    apply List.map_congr_left
    intro p _
    by_cases hp : p.1 = k <;> simp [hp]
  · have hk : k ∉ d.keys := fun h => hc ((Dict.contains_iff d k).2 h)
    rw [set_of_not_contains d k v hc, set_of_not_contains d k w hc]
    simp only [List.map_append, List.map_cons, List.map_nil, if_true]
    congr 2
    conv_rhs => rw [← List.map_id d.items]
    apply List.map_congr_left
    intro p hp
    have : p.1 ≠ k := fun e => hk (e ▸ List.mem_map_of_mem (f := Prod.fst) hp)
    simp [this]

end DictHelpers

/-- `nx.set_node_attributes(m, False, EXPLORED)` -/
abbrev clearExplored (g : Graph) : Graph := g.setNodeAttrScalar (Val.bool false) "explored"

theorem scalar_scalar (g : Graph) (v w : Val) (k : String) :
    (g.setNodeAttrScalar v k).setNodeAttrScalar w k = g.setNodeAttrScalar w k := by
  unfold setNodeAttrScalar
  simp only [List.map_map, Function.comp_def, dict_set_set]

theorem scalar_modNode {g : Graph} (hg : g.node.WF) (n : Int) (k : String) (v w : Val) :
    (g.modNode n (fun a => a.set k v)).setNodeAttrScalar w k = g.setNodeAttrScalar w k := by
  unfold modNode
  cases h : g.node.get? n with
  | none => rfl
  | some a =>
    have hc : g.node.contains n = true := by unfold Dict.contains; rw [h]; rfl
    unfold setNodeAttrScalar
    simp only
    congr 2
    rw [set_of_contains _ _ _ hc]
    simp only [List.map_map]
    apply List.map_congr_left
    intro p hp
    by_cases hpn : p.1 = n
    · have : g.node.get? p.1 = some p.2 := Dict.get?_of_mem_items hg (by simpa using hp)
      rw [hpn, h] at this
      simp only [Option.some.injEq] at this
      simp [hpn, ← this, dict_set_set]
    · simp [hpn]

theorem nodesDataKey_scalar (g : Graph) (v : Val) (k name : String) (h : name ≠ k) :
    (g.setNodeAttrScalar v k).nodesDataKey name = g.nodesDataKey name := by
  unfold nodesDataKey setNodeAttrScalar
  simp only [List.map_map, Function.comp_def, Dict.get?_set_ne _ _ h]

theorem getItem_attrs (x : Attrs) (name : String) :
    (getItem x name : M Val) = match x.get? name with | some v => .ok v | Option.none => .error Err.key := rfl

theorem getItem_dict {κ ν : Type} [DecidableEq κ] (d : Dict κ ν) (k : κ) [ToKey κ κ] (hk : (toKey k : κ) = k) :
    (getItem d k : M ν) = match d.get? k with | some v => .ok v | Option.none => .error Err.key := by
  show (match d.get? (toKey k) with | some v => pure v | Option.none => throw Err.key) = _
  rw [hk]; rfl

theorem nodeAttrs_scalar_getItem {β : Type} (g : Graph) (v : Val) (k name : String) (h : name ≠ k) (a : Int)
    (f : Val → M β) :
    (Graph.nodeAttrs (g.setNodeAttrScalar v k) a >>= fun x => (getItem x name : M Val) >>= f) =
      (Graph.nodeAttrs g a >>= fun x => (getItem x name : M Val) >>= f) := by
  unfold Graph.nodeAttrs
  rw [node_get?_setNodeAttrScalar]
  cases g.node.get? a with
  | none => rfl
  | some x =>
    simp only [Option.map_some, pure_eq_ok, ok_bind]
    rw [getItem_attrs, getItem_attrs, Dict.get?_set_ne _ _ h]

/-! ## the scratch flag of the input is irrelevant -/

theorem labels_by_partition_scalar (env : DepEnv) (m : Graph) (v : Val) :
    Tucan.serialization._labels_by_partition env (m.setNodeAttrScalar v "explored") =
      Tucan.serialization._labels_by_partition env m := by
  simp only [Tucan.serialization._labels_by_partition, nodesDataKey_scalar _ _ _ _ (by decide : "partition" ≠ "explored"),
    pyIter_graph, nodeList_setNodeAttrScalar,
    nodeAttrs_scalar_getItem _ _ _ _ (by decide : "partition" ≠ "explored")]

/-- `_assign_final_labels` overwrites the `explored` flags before reading them: the whole result
(returned graph, final state of the argument, or the exception) is the same as for the input with the
flags cleared. -/
theorem assign_final_labels_scalar (env : DepEnv) (fuel : Nat) (m : Graph) (pr : List (Val → Val → Bool)) :
    Tucan.serialization._assign_final_labels env fuel (clearExplored m) pr =
      Tucan.serialization._assign_final_labels env fuel m pr := by
  simp only [Tucan.serialization._assign_final_labels, labels_by_partition_scalar, scalar_scalar]

/-- inputs that differ only in the `explored` flags give the same result -/
theorem assign_final_labels_explored_irrelevant (env : DepEnv) (fuel : Nat) (m₁ m₂ : Graph)
    (pr : List (Val → Val → Bool)) (h : clearExplored m₁ = clearExplored m₂) :
    Tucan.serialization._assign_final_labels env fuel m₁ pr =
      Tucan.serialization._assign_final_labels env fuel m₂ pr := by
  rw [← assign_final_labels_scalar env fuel m₁, ← assign_final_labels_scalar env fuel m₂, h]

theorem serialize_molecule_scalar (env : DepEnv) (fuel : Nat) (m : Graph) :
    Tucan.serialization.serialize_molecule env fuel (clearExplored m) =
      Tucan.serialization.serialize_molecule env fuel m := by
  simp only [Tucan.serialization.serialize_molecule, assign_final_labels_scalar]

end Contracts.FinalLabels
