/-
Contracts.FinalLabels — contracts of `_labels_by_partition`, `_assign_final_labels` and the frame of
`serialize_molecule` (tucan/serialization.py); properties C12 (frame / repeatability), C15 (totality),
and the bijection property of the cosmetic relabelling.
-/
import Spec.GraphLemmas
import Spec.Order
import Contracts.Relabel
import Contracts.Partition
import Generated.Serialization
set_option autoImplicit false
set_option linter.unusedVariables false
set_option linter.unusedSimpArgs false

open Py Py.Graph

namespace Contracts.FinalLabels
open Contracts.Relabel (bind_eq_ok forIn_invariant)
open Contracts.Partition (attrV Carries)

/-! ## generic helpers -/

section DictHelpers
variable {κ ν : Type} [DecidableEq κ]

theorem set_of_contains (d : Dict κ ν) (k : κ) (v : ν) (h : d.contains k = true) :
    d.set k v = ⟨d.items.map (fun p => if p.1 = k then (k, v) else p)⟩ := by
  unfold Dict.set; rw [if_pos h]

theorem set_of_not_contains (d : Dict κ ν) (k : κ) (v : ν) (h : ¬ d.contains k = true) :
    d.set k v = ⟨d.items ++ [(k, v)]⟩ := by
  unfold Dict.set; rw [if_neg h]

/-- a second assignment to the same key overrides the first, also w.r.t. the position of the key -/
theorem dict_set_set (d : Dict κ ν) (k : κ) (v w : ν) : (d.set k v).set k w = d.set k w := by
  have h1 : (d.set k v).contains k = true := by unfold Dict.contains; rw [Dict.get?_set_self]; rfl
  rw [set_of_contains _ k w h1]
  by_cases hc : d.contains k = true
  · rw [set_of_contains d k v hc, set_of_contains d k w hc]
    simp only [List.map_map]
    congr 1
    apply List.map_congr_left
    intro p _
    by_cases hp : p.1 = k <;> simp [hp]
  · have hk : k ∉ d.keys := fun h => hc ((Dict.contains_iff d k).2 h)
    rw [set_of_not_contains d k v hc, set_of_not_contains d k w hc]
    simp only [List.map_append, List.map_cons, List.map_nil, if_true]
    congr 2
    conv_rhs => rw [← List.map_id d.items]
    apply List.map_congr_left
    intro p hp
    have : p.1 ≠ k := fun e => hk (e ▸ List.mem_map_of_mem (f := Prod.fst) hp)
    simp [this]

end DictHelpers

/-- `nx.set_node_attributes(m, False, EXPLORED)` -/
abbrev clearExplored (g : Graph) : Graph := g.setNodeAttrScalar (Val.bool false) "explored"

theorem scalar_scalar (g : Graph) (v w : Val) (k : String) :
    (g.setNodeAttrScalar v k).setNodeAttrScalar w k = g.setNodeAttrScalar w k := by
  unfold setNodeAttrScalar
  simp only [List.map_map, Function.comp_def, dict_set_set]

theorem scalar_modNode {g : Graph} (hg : g.node.WF) (n : Int) (k : String) (v w : Val) :
    (g.modNode n (fun a => a.set k v)).setNodeAttrScalar w k = g.setNodeAttrScalar w k := by
  unfold modNode
  cases h : g.node.get? n with
  | none => rfl
  | some a =>
    have hc : g.node.contains n = true := by unfold Dict.contains; rw [h]; rfl
    unfold setNodeAttrScalar
    simp only
    congr 2
    rw [set_of_contains _ _ _ hc]
    simp only [List.map_map]
    apply List.map_congr_left
    intro p hp
    by_cases hpn : p.1 = n
    · have : g.node.get? p.1 = some p.2 := Dict.get?_of_mem_items hg (by simpa using hp)
      rw [hpn, h] at this
      simp only [Option.some.injEq] at this
      simp [hpn, ← this, dict_set_set]
    · simp [hpn]

theorem nodesDataKey_scalar (g : Graph) (v : Val) (k name : String) (h : name ≠ k) :
    (g.setNodeAttrScalar v k).nodesDataKey name = g.nodesDataKey name := by
  unfold nodesDataKey setNodeAttrScalar
  simp only [List.map_map, Function.comp_def, Dict.get?_set_ne _ _ h]

theorem getItem_attrs (x : Attrs) (name : String) :
    (getItem x name : M Val) = match x.get? name with | some v => .ok v | Option.none => .error Err.key := by
  cases h : x.get? name <;> simp [getItem, GetItem.getItem, toKey, ToKey.toKey, h]

theorem nodeAttrs_scalar_getItem {β : Type} (g : Graph) (v : Val) (k name : String) (h : name ≠ k) (a : Int)
    (f : Val → M β) :
    (Graph.nodeAttrs (g.setNodeAttrScalar v k) a >>= fun x => (getItem x name : M Val) >>= f) =
      (Graph.nodeAttrs g a >>= fun x => (getItem x name : M Val) >>= f) := by
  unfold Graph.nodeAttrs
  rw [node_get?_setNodeAttrScalar]
  cases g.node.get? a with
  | none => rfl
  | some x =>
    simp only [Option.map_some, pure_eq_ok, ok_bind]
    rw [getItem_attrs, getItem_attrs, Dict.get?_set_ne _ _ h]

/-! ## the scratch flag of the input is irrelevant -/

theorem labels_by_partition_scalar (env : DepEnv) (m : Graph) (v : Val) :
    Tucan.serialization._labels_by_partition env (m.setNodeAttrScalar v "explored") =
      Tucan.serialization._labels_by_partition env m := by
  simp only [Tucan.serialization._labels_by_partition, nodesDataKey_scalar _ _ _ _ (by decide : "partition" ≠ "explored"),
    pyIter_graph, nodeList_setNodeAttrScalar,
    nodeAttrs_scalar_getItem _ _ _ _ (by decide : "partition" ≠ "explored")]

/-- `_assign_final_labels` overwrites the `explored` flags before reading them: the whole result
(returned graph, final state of the argument, or the exception) is the same as for the input with the
flags cleared. -/
theorem assign_final_labels_scalar (env : DepEnv) (fuel : Nat) (m : Graph) (pr : List (Val → Val → Bool)) :
    Tucan.serialization._assign_final_labels env fuel (clearExplored m) pr =
      Tucan.serialization._assign_final_labels env fuel m pr := by
  simp only [Tucan.serialization._assign_final_labels, labels_by_partition_scalar, scalar_scalar]

/-- inputs that differ only in the `explored` flags give the same result -/
theorem assign_final_labels_explored_irrelevant (env : DepEnv) (fuel : Nat) (m₁ m₂ : Graph)
    (pr : List (Val → Val → Bool)) (h : clearExplored m₁ = clearExplored m₂) :
    Tucan.serialization._assign_final_labels env fuel m₁ pr =
      Tucan.serialization._assign_final_labels env fuel m₂ pr := by
  rw [← assign_final_labels_scalar env fuel m₁, ← assign_final_labels_scalar env fuel m₂, h]

theorem serialize_molecule_scalar (env : DepEnv) (fuel : Nat) (m : Graph) :
    Tucan.serialization.serialize_molecule env fuel (clearExplored m) =
      Tucan.serialization.serialize_molecule env fuel m := by
  simp only [Tucan.serialization.serialize_molecule, assign_final_labels_scalar]

/-! ## FRAME (C12): `_assign_final_labels` changes nothing but the scratch flag -/

theorem node_wf_of_clear_eq {g m : Graph} (h : clearExplored g = clearExplored m) (hm : m.node.WF) : g.node.WF := by
  have h' : g.setNodeAttrScalar (Val.bool false) "explored" = m.setNodeAttrScalar (Val.bool false) "explored" := h
  have : g.nodeList = m.nodeList := by
    rw [← nodeList_setNodeAttrScalar g (Val.bool false) "explored", h', nodeList_setNodeAttrScalar]
  show g.nodeList.Nodup
  rw [this]; exact hm

/-- partial correctness: the final state `m'` of the argument is the argument with all `explored` flags
set to `False` (every other attribute, the node order, the adjacency structure incl. iteration orders and
bond data are literally unchanged), for every list of traversal priorities and any amount of fuel -/
theorem assign_final_labels_frame_eq (env : DepEnv) (fuel : Nat) {m : Graph} (hm : m.node.WF)
    (pr : List (Val → Val → Bool)) {r m' : Graph}
    (h : Tucan.serialization._assign_final_labels env fuel m pr = .ok (r, m')) : m' = clearExplored m := by
  unfold Tucan.serialization._assign_final_labels at h
  simp only [pure_eq_ok] at h
  obtain ⟨d, -, h⟩ := bind_eq_ok.1 h
  obtain ⟨s, hloop, h⟩ := bind_eq_ok.1 h
  have inv := forIn_invariant (σ := Graph × Dict Val (List Int) × Dict Int Int × Bool)
    (fun s => clearExplored s.1 = clearExplored m) (fun s => clearExplored s.1 = clearExplored m)
    _ ?_ (fun _ h => h) _ _ s (scalar_scalar _ _ _ _) hloop
  · split at h
    · simp at h
    · obtain ⟨_, -, h⟩ := bind_eq_ok.1 h
      simp only [Except.ok.injEq, Prod.mk.injEq] at h
      rw [← h.2]; exact inv
  · intro x s hP r' hbody
    obtain ⟨unex, -, hbody⟩ := bind_eq_ok.1 hbody
    split at hbody
    · simp only [Except.ok.injEq] at hbody
      subst hbody; exact hP
    · obtain ⟨u0, -, hbody⟩ := bind_eq_ok.1 hbody
      obtain ⟨s2, hinner, hbody⟩ := bind_eq_ok.1 hbody
      have inv2 := forIn_invariant (σ := Graph × Dict Val (List Int) × Dict Int Int × List Int × Bool)
        (fun s => clearExplored s.1 = clearExplored m) (fun s => clearExplored s.1 = clearExplored m)
        _ ?_ (fun _ h => h) _ _ s2 hP hinner
      · split at hbody
        · simp at hbody
        · simp only [Except.ok.injEq] at hbody
          subst hbody; exact inv2
      · intro y t hPt r2 hb
        split at hb
        · simp only [Except.ok.injEq] at hb
          subst hb; exact hPt
        · obtain ⟨⟨a, rest⟩, -, hb⟩ := bind_eq_ok.1 hb
          simp only at hb
          obtain ⟨attrs, -, hb⟩ := bind_eq_ok.1 hb
          obtain ⟨ex, -, hb⟩ := bind_eq_ok.1 hb
          split at hb
          · simp only [Except.ok.injEq] at hb
            subst hb; exact hPt
          · obtain ⟨c, -, hb⟩ := bind_eq_ok.1 hb
            obtain ⟨l, -, hb⟩ := bind_eq_ok.1 hb
            obtain ⟨⟨x5, rest6⟩, -, hb⟩ := bind_eq_ok.1 hb
            simp only at hb
            obtain ⟨c', -, hb⟩ := bind_eq_ok.1 hb
            obtain ⟨d', -, hb⟩ := bind_eq_ok.1 hb
            obtain ⟨fl', -, hb⟩ := bind_eq_ok.1 hb
            obtain ⟨nb, -, hb⟩ := bind_eq_ok.1 hb
            obtain ⟨order, -, hb⟩ := bind_eq_ok.1 hb
            obtain ⟨m2, hm2, hb⟩ := bind_eq_ok.1 hb
            simp only [Except.ok.injEq] at hb
            subst hb
            rw [setNodeAttr1_eq] at hm2
            split at hm2
            · simp only [Except.ok.injEq] at hm2
              subst hm2
              show clearExplored (t.1.modNode a _) = _
              rw [clearExplored, scalar_modNode (node_wf_of_clear_eq hPt hm)]
              exact hPt
            · cases hm2

/-- what "only the scratch attribute may differ" means, in the abstract view -/
structure OnlyExploredCleared (m m' : Graph) : Prop where
  nodeList : m'.nodeList = m.nodeList
  adj : m'.adj = m.adj
  attr : ∀ n k, k ≠ "explored" → m'.attr n k = m.attr n k
  explored : ∀ n ∈ m.nodeList, m'.attr n "explored" = some (Val.bool false)

theorem onlyExploredCleared_clear (m : Graph) : OnlyExploredCleared m (clearExplored m) where
  nodeList := nodeList_setNodeAttrScalar _ _ _
  adj := rfl
  attr := fun n k hk => by rw [attr_setNodeAttrScalar, if_neg hk]
  explored := fun n hn => by
    rw [attr_setNodeAttrScalar, if_pos rfl]
    obtain ⟨a, ha⟩ := Dict.exists_get?_of_mem_keys hn
    rw [ha]; rfl

/-- FRAME of `_assign_final_labels` (partial correctness, any priorities, any fuel) -/
theorem assign_final_labels_frame (env : DepEnv) (fuel : Nat) {m : Graph} (hm : m.node.WF)
    (pr : List (Val → Val → Bool)) {r m' : Graph}
    (h : Tucan.serialization._assign_final_labels env fuel m pr = .ok (r, m')) : OnlyExploredCleared m m' := by
  rw [assign_final_labels_frame_eq env fuel hm pr h]; exact onlyExploredCleared_clear m

theorem serialize_molecule_frame_eq (env : DepEnv) (fuel : Nat) {m : Graph} (hm : m.node.WF) {s : Str} {m' : Graph}
    (h : Tucan.serialization.serialize_molecule env fuel m = .ok (s, m')) : m' = clearExplored m := by
  unfold Tucan.serialization.serialize_molecule at h
  simp only [pure_eq_ok] at h
  obtain ⟨⟨r1, m2⟩, h1, h⟩ := bind_eq_ok.1 h
  simp only at h
  obtain ⟨_, -, h⟩ := bind_eq_ok.1 h
  obtain ⟨_, -, h⟩ := bind_eq_ok.1 h
  obtain ⟨_, -, h⟩ := bind_eq_ok.1 h
  obtain ⟨_, -, h⟩ := bind_eq_ok.1 h
  simp only [Except.ok.injEq, Prod.mk.injEq] at h
  rw [← h.2]
  exact assign_final_labels_frame_eq env fuel hm _ h1

/-- FRAME of `serialize_molecule` (C12): a successful call leaves the argument unchanged except that every
`explored` flag is `False` afterwards -/
theorem serialize_molecule_frame (env : DepEnv) (fuel : Nat) {m : Graph} (hm : m.node.WF) {s : Str} {m' : Graph}
    (h : Tucan.serialization.serialize_molecule env fuel m = .ok (s, m')) : OnlyExploredCleared m m' := by
  rw [serialize_molecule_frame_eq env fuel hm h]; exact onlyExploredCleared_clear m

/-- inputs that differ only in the `explored` flags serialize identically -/
theorem serialize_molecule_explored_irrelevant (env : DepEnv) (fuel : Nat) (m₁ m₂ : Graph)
    (h : clearExplored m₁ = clearExplored m₂) :
    Tucan.serialization.serialize_molecule env fuel m₁ = Tucan.serialization.serialize_molecule env fuel m₂ := by
  rw [← serialize_molecule_scalar env fuel m₁, ← serialize_molecule_scalar env fuel m₂, h]

/-- C12, repeatability: serializing the same object again gives the same string and leaves it as it is -/
theorem serialize_molecule_repeat (env : DepEnv) (fuel : Nat) {m : Graph} (hm : m.node.WF) {s : Str} {m' : Graph}
    (h : Tucan.serialization.serialize_molecule env fuel m = .ok (s, m')) :
    Tucan.serialization.serialize_molecule env fuel m' = .ok (s, m') := by
  have e := serialize_molecule_frame_eq env fuel hm h
  rw [e, serialize_molecule_scalar, ← e]; exact h

/-! ## `_labels_by_partition` -/

/-- a `for` loop without `break`/`continue`/exceptions is a fold -/
theorem forIn_eq_foldl {σ α : Type} (body : α → σ → M (ForInStep σ)) (step : α → σ → σ) (P : σ → Prop)
    (l : List α) (s : σ)
    (h : ∀ a ∈ l, ∀ s, P s → body a s = .ok (.yield (step a s)) ∧ P (step a s)) (hs : P s) :
    forIn l s body = .ok (l.foldl (fun s a => step a s) s) := by
  induction l generalizing s with
  | nil => rfl
  | cons a l ih =>
    obtain ⟨h1, h2⟩ := h a (by simp) s hs
    rw [List.forIn_cons, h1]
    simp only [ok_bind, List.foldl_cons]
    exact ih _ (fun b hb => h b (by simp [hb])) h2

/-- partition class of a node (`None` if the attribute is missing) -/
abbrev cls (m : Graph) (a : Int) : Val := attrV m "partition" a
/-- the nodes of a class, in node iteration order -/
def classNodes (m : Graph) (p : Val) : List Int := m.nodeList.filter (fun a => decide (cls m a = p))

theorem nodesDataKey_snd {m : Graph} (hm : m.node.WF) (k : String) :
    List.filterMap (fun x => some x.2) (m.nodesDataKey k) = m.nodeList.map (attrV m k) := by
  rw [Contracts.Partition.filterMap_some]
  unfold nodesDataKey nodeList Dict.keys
  simp only [List.map_map]
  apply List.map_congr_left
  intro p hp
  have : m.node.get? p.1 = some p.2 := Dict.get?_of_mem_items hm (by simpa using hp)
  simp [attrV, Graph.attr, this]

theorem lbp_fold (c : Int → Val) (l : List Int) (d : Dict Val (List Int)) (hk : ∀ a ∈ l, c a ∈ d.keys) :
    (l.foldl (fun d a => d.set (c a) ((d.get? (c a)).getD [] ++ [a])) d).keys = d.keys ∧
    ∀ p, (l.foldl (fun d a => d.set (c a) ((d.get? (c a)).getD [] ++ [a])) d).get? p =
      (d.get? p).map (· ++ l.filter (fun a => decide (c a = p))) := by
  induction l generalizing d with
  | nil => simp
  | cons a l ih =>
    have ha := hk a (by simp)
    obtain ⟨old, hold⟩ := Dict.exists_get?_of_mem_keys ha
    have hk1 : (d.set (c a) ((d.get? (c a)).getD [] ++ [a])).keys = d.keys := Dict.keys_set_of_mem _ _ ha
    obtain ⟨ih1, ih2⟩ := ih (d.set (c a) ((d.get? (c a)).getD [] ++ [a]))
      (fun b hb => by rw [hk1]; exact hk b (by simp [hb]))
    simp only [List.foldl_cons]
    refine ⟨ih1.trans hk1, fun p => ?_⟩
    rw [ih2, Dict.get?_set]
    by_cases hp : p = c a
    · subst hp; simp [hold]
    · have : ¬ c a = p := fun e => hp e.symm
      simp [hp, this]

theorem getItem_valdict {ν : Type} (d : Dict Val ν) (k : Val) :
    (getItem d k : M ν) = match d.get? k with | some v => .ok v | Option.none => .error Err.key := by
  cases h : d.get? k <;> simp [getItem, GetItem.getItem, toKey, ToKey.toKey, h]

theorem labels_by_partition_ok (env : DepEnv) (hs : env.SetLawful) {m : Graph} (hm : m.node.WF)
    (hc : Carries m "partition") :
    ∃ d, Tucan.serialization._labels_by_partition env m = .ok d ∧ d.WF ∧
      (∀ p, p ∈ d.keys ↔ ∃ a ∈ m.nodeList, cls m a = p) ∧
      (∀ p ∈ d.keys, d.get? p = some (sortedRev (classNodes m p))) := by
  unfold Tucan.serialization._labels_by_partition
  rw [listComp_ok _ _ (fun x => some x.2)]
  swap
  · rintro ⟨k, v⟩ _; rfl
  simp only [ok_bind]
  rw [listComp_ok _ _ (fun p => some (p, ([] : List Int)))]
  swap
  · intro p _; rfl
  simp only [ok_bind, pyIter_list, nodesDataKey_snd hm, Contracts.Partition.filterMap_some, pyIter_graph]
  -- the set of classes, in the (arbitrary) iteration order of the `set`
  have hperm := hs (mkSet (sorted (m.nodeList.map (attrV m "partition")))).elems
  generalize env.setOrder (mkSet (sorted (m.nodeList.map (attrV m "partition")))).elems = ord at hperm ⊢
  have hmem : ∀ p, p ∈ ord ↔ ∃ a ∈ m.nodeList, cls m a = p := by
    intro p
    rw [hperm.mem_iff]
    simp [mkSet]
  have hnd : ord.Nodup := hperm.nodup_iff.2 (List.nodup_dedup _)
  have hkeys0 : ((ord.map (fun p => (p, ([] : List Int)))).map Prod.fst) = ord := by
    simp [List.map_map, Function.comp_def]
  have hd0 : Dict.ofPairs (ord.map (fun p => (p, ([] : List Int)))) = ⟨ord.map (fun p => (p, ([] : List Int)))⟩ :=
    Dict.ofPairs_of_nodup _ (by rw [hkeys0]; exact hnd)
  rw [hd0]
  generalize hd : (⟨ord.map (fun p => (p, ([] : List Int)))⟩ : Dict Val (List Int)) = d0
  have hk0 : d0.keys = ord := by rw [← hd]; exact hkeys0
  have hg0 : ∀ p ∈ ord, d0.get? p = some [] := by
    intro p hp
    rw [← hd]
    exact Dict.get?_of_mem_items (by rw [Dict.WF, Dict.keys_mk, hkeys0]; exact hnd) (List.mem_map.2 ⟨p, hp, rfl⟩)
  rw [forIn_eq_foldl _ (fun a d => d.set (cls m a) ((d.get? (cls m a)).getD [] ++ [a]))
    (fun d => ∀ a ∈ m.nodeList, cls m a ∈ d.keys)]
  rotate_left
  · intro a ha d hP
    obtain ⟨x, hx1, hx2⟩ := Contracts.Partition.nodeAttrs_getItem m a "partition" (hc a ha)
    obtain ⟨old, hold⟩ := Dict.exists_get?_of_mem_keys (hP a ha)
    simp only [hx1, hx2, ok_bind, getItem_valdict, hold, setItem_dict, pyAdd_list, pure_eq_ok, Option.getD_some,
      true_and]
    intro b hb
    rw [Dict.mem_keys_set]; exact Or.inr (hP b hb)
  · intro a ha; rw [hk0, hmem]; exact ⟨a, ha, rfl⟩
  simp only [ok_bind]
  rw [listComp_ok _ _ (fun x => some (x.1, sortedRev x.2))]
  swap
  · intro p _; rfl
  simp only [ok_bind, Contracts.Partition.filterMap_some, pure_eq_ok]
  obtain ⟨f1, f2⟩ := lbp_fold (cls m) m.nodeList d0 (fun a ha => by rw [hk0, hmem]; exact ⟨a, ha, rfl⟩)
  generalize (m.nodeList.foldl (fun d a => d.set (cls m a) ((d.get? (cls m a)).getD [] ++ [a])) d0) = d1 at f1 f2 ⊢
  have hwf1 : d1.WF := by rw [Dict.WF, f1, hk0]; exact hnd
  have hk2 : (d1.updatePairs (d1.items.map (fun x => (x.1, sortedRev x.2)))).keys = ord := by
    rw [Dict.keys_updatePairs_of_subset, f1, hk0]
    intro p hp
    obtain ⟨q, hq, rfl⟩ := List.mem_map.1 hp
    exact List.mem_map.2 ⟨q, hq, rfl⟩
  refine ⟨_, rfl, ?_, ?_, ?_⟩
  · rw [Dict.WF, hk2]; exact hnd
  · intro p; rw [hk2]; exact hmem p
  · intro p hp
    rw [hk2] at hp
    rw [Dict.get?_updatePairs_of_nodup, lookup_map_snd d1.items (fun _ v => sortedRev v) p]
    · show (Option.map sortedRev (d1.get? p)).or _ = _
      rw [f2, hg0 p hp]
      simp [classNodes]
    · simp only [List.map_map, Function.comp_def]; exact hwf1

/-! ## list helpers for the termination measure -/

theorem sum_map_filter_mono {α : Type} (f : α → Nat) (p q : α → Bool) (l : List α)
    (h : ∀ x ∈ l, p x = true → q x = true) : ((l.filter p).map f).sum ≤ ((l.filter q).map f).sum := by
  induction l with
  | nil => simp
  | cons b l ih =>
    have ih' := ih (fun x hx => h x (by simp [hx]))
    have hb := h b (by simp)
    simp only [List.filter_cons]
    by_cases hp : p b = true
    · simp [hp, hb hp, ih']
    · by_cases hq : q b = true
      · simp [hp, hq]; omega
      · simp [hp, hq, ih']

theorem sum_map_filter_remove {α : Type} (f : α → Nat) (p q : α → Bool) (l : List α) (a : α) (ha : a ∈ l)
    (hqa : q a = true) (h : ∀ x ∈ l, p x = true → q x = true ∧ x ≠ a) :
    ((l.filter p).map f).sum + f a ≤ ((l.filter q).map f).sum := by
  induction l with
  | nil => simp at ha
  | cons b l ih =>
    have hb := h b (by simp)
    simp only [List.filter_cons]
    by_cases hab : a = b
    · subst hab
      have hp : ¬ p a = true := fun hp => (hb hp).2 rfl
      have := sum_map_filter_mono f p q l (fun x hx hpx => (h x (by simp [hx]) hpx).1)
      simp [hp, hqa]; omega
    · have ha' : a ∈ l := by simpa [hab] using ha
      have ih' := ih ha' (fun x hx => h x (by simp [hx]))
      by_cases hp : p b = true
      · simp [hp, (hb hp).1]; omega
      · by_cases hq : q b = true
        · simp [hp, hq]; omega
        · simp [hp, hq]; omega

theorem length_filter_lt {α : Type} (p q : α → Bool) (l : List α) (a : α) (ha : a ∈ l)
    (hqa : q a = true) (h : ∀ x ∈ l, p x = true → q x = true ∧ x ≠ a) :
    (l.filter p).length < (l.filter q).length := by
  have := sum_map_filter_remove (fun _ => 1) p q l a ha hqa h
  simp only [List.map_const', List.sum_replicate, smul_eq_mul, mul_one] at this
  omega

theorem sum_map_succ {α : Type} (f : α → Nat) (l : List α) :
    (l.map (fun u => f u + 1)).sum = (l.map f).sum + l.length := by
  induction l with
  | nil => rfl
  | cons a l ih => simp [ih]; omega

/-! ## the state invariant of the traversal -/

/-- still unexplored nodes, in node iteration order -/
def unexp (m : Graph) (fl : Dict Int Int) : List Int := m.nodeList.filter (fun a => decide (a ∉ fl.keys))
/-- termination weight of the unexplored nodes: each may still push its neighbours and be popped once -/
def wgt (m : Graph) (fl : Dict Int Int) : Nat := ((unexp m fl).map (fun u => (m.nbrs u).length + 1)).sum

/-- `g`, `d`, `fl` = current values of `m`, `labels_by_partition`, `final_labels`, relative to the
graph `m` the function was called with -/
structure Good (m g : Graph) (d : Dict Val (List Int)) (fl : Dict Int Int) : Prop where
  wf : g.WF
  clear : clearExplored g = clearExplored m
  /-- I1 -/
  expl : ∀ a ∈ m.nodeList, g.attr a "explored" = some (Val.bool (decide (a ∈ fl.keys)))
  fl_wf : fl.WF
  fl_sub : ∀ a ∈ fl.keys, a ∈ m.nodeList
  d_keys : ∀ a ∈ m.nodeList, cls m a ∈ d.keys
  /-- I2, in the strong form needed for the bijection: the labels still available in a class together with
  those already handed out to nodes of the class are exactly the nodes of the class -/
  d_perm : ∀ p l, d.get? p = some l →
    (l ++ (fl.items.filter (fun q => decide (cls m q.1 = p))).map Prod.snd).Perm (classNodes m p)

namespace Good
variable {m g : Graph} {d : Dict Val (List Int)} {fl : Dict Int Int}

theorem nodeList_eq (h : Good m g d fl) : g.nodeList = m.nodeList := by
  have h' : g.setNodeAttrScalar (Val.bool false) "explored" = m.setNodeAttrScalar (Val.bool false) "explored" := h.clear
  rw [← nodeList_setNodeAttrScalar g (Val.bool false) "explored", h', nodeList_setNodeAttrScalar]

theorem adj_eq (h : Good m g d fl) : g.adj = m.adj := by
  have h' : g.setNodeAttrScalar (Val.bool false) "explored" = m.setNodeAttrScalar (Val.bool false) "explored" := h.clear
  have := congrArg Graph.adj h'
  simpa only [adj_setNodeAttrScalar] using this

theorem nbrs_eq (h : Good m g d fl) (a : Int) : g.nbrs a = m.nbrs a := by unfold Graph.nbrs; rw [h.adj_eq]

theorem attr_eq (h : Good m g d fl) (a : Int) {k : String} (hk : k ≠ "explored") : g.attr a k = m.attr a k := by
  have h' : g.setNodeAttrScalar (Val.bool false) "explored" = m.setNodeAttrScalar (Val.bool false) "explored" := h.clear
  have := congrArg (fun x => Graph.attr x a k) h'
  simpa only [attr_setNodeAttrScalar, if_neg hk] using this

theorem cls_eq (h : Good m g d fl) (a : Int) : cls g a = cls m a := by
  unfold cls attrV; rw [h.attr_eq a (by decide)]

theorem mwf (h : Good m g d fl) : m.node.WF := by
  show m.nodeList.Nodup
  rw [← h.nodeList_eq]; exact h.wf.node_wf

theorem keys_filter (fl : Dict Int Int) (P : Int → Bool) :
    (fl.items.filter (fun q => P q.1)).map Prod.fst = fl.keys.filter P := by
  unfold Dict.keys
  rw [List.filter_map]; rfl

/-- `.pop()` succeeds (I2) and the invariant is re-established after exploring `a` -/
theorem explore (h : Good m g d fl) {a : Int} (ha : a ∈ m.nodeList) (hna : a ∉ fl.keys) {l : List Int}
    (hl : d.get? (cls m a) = some l) :
    ∃ hne : l ≠ [], Good m (g.modNode a (fun x => x.set "explored" (Val.bool true)))
      (d.set (cls m a) l.dropLast) (fl.set a (l.getLast hne)) := by
  have hne : l ≠ [] := by
    rintro rfl
    have hp := h.d_perm _ _ hl
    simp only [List.nil_append] at hp
    have hlen := hp.length_eq
    rw [List.length_map, ← List.length_map (f := Prod.fst), keys_filter fl (fun x => decide (cls m x = cls m a))] at hlen
    have hsub : fl.keys.filter (fun x => decide (cls m x = cls m a)) ⊆ (classNodes m (cls m a)).erase a := by
      intro x hx
      rw [List.mem_filter] at hx
      have hxa : x ≠ a := fun e => hna (e ▸ hx.1)
      refine (List.mem_erase_of_ne hxa).2 ?_
      exact List.mem_filter.2 ⟨h.fl_sub x hx.1, hx.2⟩
    have hnd : (fl.keys.filter (fun x => decide (cls m x = cls m a))).Nodup := h.fl_wf.filter _
    have h1 := (hnd.subperm hsub).length_le
    have hac : a ∈ classNodes m (cls m a) := List.mem_filter.2 ⟨ha, by simp⟩
    rw [List.length_erase_of_mem hac] at h1
    have : 0 < (classNodes m (cls m a)).length := List.length_pos_of_mem hac
    omega
  refine ⟨hne, ?_⟩
  have hitems : (fl.set a (l.getLast hne)).items = fl.items ++ [(a, l.getLast hne)] := Dict.items_set_of_not_mem _ _ hna
  have hsplit : l = l.dropLast ++ [l.getLast hne] := (List.dropLast_append_getLast hne).symm
  refine ⟨?_, ?_, ?_, ?_, ?_, ?_, ?_⟩
  · exact WF_modNode h.wf a (fun x hx => Dict.WF_set hx _ _)
  · rw [clearExplored, scalar_modNode h.wf.node_wf]; exact h.clear
  · intro b hb
    unfold Graph.attr
    rw [node_get?_modNode]
    by_cases hba : b = a
    · subst hba
      rw [if_pos rfl]
      obtain ⟨x, hx⟩ := Dict.exists_get?_of_mem_keys (show b ∈ g.nodeList by rw [h.nodeList_eq]; exact hb)
      have : b ∈ (fl.set b (l.getLast hne)).keys := (Dict.mem_keys_set _ _ _ _).2 (Or.inl rfl)
      simp [hx, this]
    · rw [if_neg hba]
      have e : (b ∈ (fl.set a (l.getLast hne)).keys) ↔ b ∈ fl.keys := by
        rw [Dict.mem_keys_set]; simp [hba]
      have := h.expl b hb
      unfold Graph.attr at this
      rw [this]; simp [e]
  · exact Dict.WF_set h.fl_wf _ _
  · intro b hb
    rcases (Dict.mem_keys_set _ _ _ _).1 hb with rfl | hb
    · exact ha
    · exact h.fl_sub b hb
  · intro b hb
    rw [Dict.mem_keys_set]; exact Or.inr (h.d_keys b hb)
  · intro p l' hl'
    rw [Dict.get?_set] at hl'
    rw [hitems, List.filter_append, List.map_append]
    by_cases hp : p = cls m a
    · subst hp
      rw [if_pos rfl] at hl'
      simp only [Option.some.injEq] at hl'
      subst hl'
      have hp0 := h.d_perm _ _ hl
      have : (List.filter (fun q : Int × Int => decide (cls m q.1 = cls m a)) [(a, l.getLast hne)]) = [(a, l.getLast hne)] := by
        simp
      rw [this]
      simp only [List.map_cons, List.map_nil]
      refine List.Perm.trans ?_ hp0
      conv_rhs => rw [hsplit]
      simp only [List.append_assoc]
      refine List.Perm.append_left _ ?_
      exact List.perm_append_comm
    · rw [if_neg hp] at hl'
      have : (List.filter (fun q : Int × Int => decide (cls m q.1 = p)) [(a, l.getLast hne)]) = [] := by
        have : ¬ cls m a = p := fun e => hp e.symm
        simp [this]
      rw [this]
      simpa using h.d_perm _ _ hl'

end Good

theorem mem_keys_set_mono {fl : Dict Int Int} (a x b : Int) (hb : b ∈ fl.keys) : b ∈ (fl.set a x).keys :=
  (Dict.mem_keys_set _ _ _ _).2 (Or.inr hb)

theorem wgt_set (m : Graph) (fl : Dict Int Int) {a : Int} (x : Int) (ha : a ∈ m.nodeList) (hna : a ∉ fl.keys) :
    wgt m (fl.set a x) + ((m.nbrs a).length + 1) ≤ wgt m fl := by
  unfold wgt unexp
  refine sum_map_filter_remove _ _ _ _ a ha (by simpa using hna) (fun b _ hb => ?_)
  simp only [decide_eq_true_eq, Dict.mem_keys_set, not_or] at hb ⊢
  exact ⟨hb.2, hb.1⟩

theorem wgt_le (m : Graph) (fl : Dict Int Int) :
    wgt m fl ≤ m.nodeList.length + (m.nodeList.map (fun u => (m.nbrs u).length)).sum := by
  unfold wgt unexp
  have := sum_map_filter_mono (fun u => (m.nbrs u).length + 1) (fun a => decide (a ∉ fl.keys)) (fun _ => true)
    m.nodeList (fun _ _ _ => rfl)
  rw [List.filter_true, sum_map_succ _ m.nodeList] at this
  omega

theorem unexp_lt (m : Graph) {fl0 fl : Dict Int Int} (hmono : ∀ a ∈ fl0.keys, a ∈ fl.keys) {u : Int}
    (hu : u ∈ m.nodeList) (hu0 : u ∉ fl0.keys) (hu1 : u ∈ fl.keys) : (unexp m fl).length < (unexp m fl0).length := by
  unfold unexp
  refine length_filter_lt _ _ _ u hu (by simpa using hu0) (fun b _ hb => ?_)
  simp only [decide_eq_true_eq] at hb ⊢
  exact ⟨fun h => hb (hmono b h), fun e => hb (e ▸ hu1)⟩

/-! ## the three traversal priorities split the neighbours -/

theorem prio_split (c : Val) (cs : Int → Val) (nb : List Int) :
    (nb.filter (fun n => pyEq c (cs n))).length + (nb.filter (fun n => pyGt c (cs n))).length +
      (nb.filter (fun n => pyLt c (cs n))).length = nb.length := by
  induction nb with
  | nil => rfl
  | cons n nb ih =>
    have e1 : pyEq c (cs n) = decide (c = cs n) := rfl
    have e2 : pyGt c (cs n) = POrd.lt (cs n) c := rfl
    have e3 : pyLt c (cs n) = POrd.lt c (cs n) := rfl
    simp only [List.filter_cons, e1, e2, e3]
    rcases LawfulPOrd.lt_trichotomy c (cs n) with h | h | h
    · have h' := LawfulPOrd.asymm h
      have hne : c ≠ cs n := LawfulPOrd.ne_of_lt h
      simp [h, h', hne] at ih ⊢; omega
    · have h1 : POrd.lt c (cs n) = false := h ▸ LawfulPOrd.irrefl c
      have h2 : POrd.lt (cs n) c = false := h ▸ LawfulPOrd.irrefl c
      rw [← h]
      simp only [LawfulPOrd.irrefl c, decide_true, if_true, List.length_cons]
      simp at ih ⊢
      omega
    · have h' := LawfulPOrd.asymm h
      have hne : c ≠ cs n := (LawfulPOrd.ne_of_lt h).symm
      simp [h, h', hne] at ih ⊢; omega


/-! ## total-correctness rule for fuel-bounded `while` loops -/

/-- postcondition of one iteration: a `break` establishes `Q`; otherwise `Inv` is kept and the variant
decreases -/
def StepPost {σ : Type} (Inv Q : σ → Prop) (var : σ → Nat) (s : σ) : ForInStep σ → Prop
  | .done s' => Q s'
  | .yield s' => Inv s' ∧ var s' < var s

/-- `n` iterations (or fewer, if one breaks) of a pure loop step -/
def run {σ : Type} (step : σ → ForInStep σ) : Nat → σ → σ
  | 0, s => s
  | n + 1, s =>
    match step s with
    | .done s' => s'
    | .yield s' => run step n s'

/-- `for _ in l` with a `done` flag: if, in states satisfying `Inv`, the body computes the pure function
`step` without raising, `Inv` is preserved by every iteration that continues, the variant strictly
decreases on those, every iteration that breaks establishes `Q`, and the list is longer than the initial
variant, then the loop breaks (never runs out of fuel) in the state `run step l.length s`, which
satisfies `Q`. Stated in continuation form so that it can be applied to a goal `R (forIn … >>= k)` by
unification. -/
theorem forIn_run {σ α β : Type} (Inv Q : σ → Prop) (var : σ → Nat) (step : σ → ForInStep σ)
    (body : α → σ → M (ForInStep σ)) (R : M β → Prop) (k : σ → M β) (l : List α) (s : σ)
    (hstep : ∀ a s, Inv s → body a s = .ok (step s) ∧ StepPost Inv Q var s (step s))
    (hs : Inv s) (hvar : var s < l.length)
    (hk : Q (run step l.length s) → R (k (run step l.length s))) : R (forIn l s body >>= k) := by
  induction l generalizing s with
  | nil => simp at hvar
  | cons a l ih =>
    obtain ⟨hr, hm⟩ := hstep a s hs
    rw [List.forIn_cons, hr]
    cases hst : step s with
    | done s' =>
      rw [hst] at hm
      have e : run step (a :: l).length s = s' := by simp [run, hst]
      rw [e] at hk
      simp only [ok_bind, pure_eq_ok]; exact hk hm
    | yield s' =>
      rw [hst] at hm
      have e : run step (a :: l).length s = run step l.length s' := by simp [run, hst]
      rw [e] at hk
      simp only [ok_bind]
      exact ih s' hm.1 (by simp at hvar; have := hm.2; omega) hk

/-- both steps break or both continue, in related states -/
def StepRel {σ₁ σ₂ : Type} (Rel : σ₁ → σ₂ → Prop) : ForInStep σ₁ → ForInStep σ₂ → Prop
  | .done a, .done b => Rel a b
  | .yield a, .yield b => Rel a b
  | _, _ => False

/-- two pure loops that proceed in lock-step stay related -/
theorem run_rel {σ₁ σ₂ : Type} (Rel : σ₁ → σ₂ → Prop) (st₁ : σ₁ → ForInStep σ₁) (st₂ : σ₂ → ForInStep σ₂)
    (h : ∀ s₁ s₂, Rel s₁ s₂ → StepRel Rel (st₁ s₁) (st₂ s₂)) :
    ∀ n s₁ s₂, Rel s₁ s₂ → Rel (run st₁ n s₁) (run st₂ n s₂) := by
  intro n
  induction n with
  | zero => intro s₁ s₂ hr; exact hr
  | succ n ih =>
    intro s₁ s₂ hr
    have := h s₁ s₂ hr
    unfold run
    cases h1 : st₁ s₁ <;> cases h2 : st₂ s₂ <;> rw [h1, h2] at this <;> simp only [StepRel] at this ⊢
    · exact this
    · exact ih _ _ this

/-! ## evaluation lemmas for the statements of the loop bodies -/

theorem filterMap_ite {α : Type} (p : α → Bool) (l : List α) :
    l.filterMap (fun n => if p n = true then some n else Option.none) = l.filter p := by
  induction l with
  | nil => rfl
  | cons a l ih => by_cases h : p a = true <;> simp [h, ih]

theorem popLast_ok {α : Type} (l : List α) (h : l ≠ []) : popLast l = .ok (l.getLast h, l.dropLast) := by
  unfold popLast
  rw [List.getLast?_eq_getLast_of_ne_nil h]; rfl

theorem popLast_snoc {α : Type} (l : List α) (a : α) : popLast (l ++ [a]) = .ok (a, l) := by
  unfold popLast; simp

theorem nodeDataGet_ok {g : Graph} {a : Int} (ha : a ∈ g.nodeList) (k : String) :
    g.nodeDataGet k a = .ok (attrV g k a) := by
  obtain ⟨x, hx⟩ := Dict.exists_get?_of_mem_keys ha
  simp [Graph.nodeDataGet, attrV, Graph.attr, hx]

/-- the neighbours `nb` of `a` in the order in which they are pushed: for every priority in turn, those
neighbours whose class compares accordingly with the class of `a`, sorted by label -/
def travOrder (prs : List (Val → Val → Bool)) (g : Graph) (a : Int) (nb : List Int) : List Int :=
  prs.flatMap (fun pri => sorted (nb.filter (fun n => pri (cls g a) (cls g n))))

theorem prio_loop {g : Graph} {a : Int} (ha : a ∈ g.nodeList) (nb : List Int) (hnb : ∀ n ∈ nb, n ∈ g.nodeList)
    (prs : List (Val → Val → Bool)) (acc : List Int) :
    forIn prs acc (fun (priority : Val → Val → Bool) (s : List Int) => do
      let l ← listComp nb (fun n => do
        let c ← g.nodeDataGet "partition" a
        let c' ← g.nodeDataGet "partition" n
        if priority c c' = true then pure (some n) else pure Option.none)
      pure (ForInStep.yield (pyAdd s (sorted l)))) =
    .ok (acc ++ travOrder prs g a nb) := by
  unfold travOrder
  induction prs generalizing acc with
  | nil => simp
  | cons pri prs ih =>
    rw [List.forIn_cons, listComp_ok _ _ (fun n => if pri (cls g a) (cls g n) = true then some n else Option.none)]
    · simp only [ok_bind, pure_eq_ok, pyAdd_list, filterMap_ite]
      refine (ih _).trans ?_; simp
    · intro n hn
      rw [nodeDataGet_ok ha, nodeDataGet_ok (hnb n hn)]
      simp only [ok_bind]
      split <;> rfl

theorem unexplored_eq {m g : Graph} {d : Dict Val (List Int)} {fl : Dict Int Int} (h : Good m g d fl) :
    List.filterMap (fun x : Int × Val => if (!truthy x.2) = true then some x.1 else Option.none)
      (g.nodesDataKey "explored") = unexp m fl := by
  unfold unexp nodesDataKey
  rw [← h.nodeList_eq, List.filterMap_map]
  unfold Graph.nodeList Dict.keys
  rw [← filterMap_ite, List.filterMap_map]
  apply List.filterMap_congr
  intro p hp
  have hmem : p.1 ∈ m.nodeList := by rw [← h.nodeList_eq]; exact List.mem_map_of_mem (f := Prod.fst) hp
  have h1 : g.node.get? p.1 = some p.2 := Dict.get?_of_mem_items h.wf.node_wf (by simpa using hp)
  have h2 := h.expl p.1 hmem
  unfold Graph.attr at h2
  rw [h1] at h2
  simp only [Option.bind_some] at h2
  simp only [Function.comp, h2, Option.getD_some]
  have ht : truthy (Val.bool (decide (p.1 ∈ fl.keys))) = decide (p.1 ∈ fl.keys) := rfl
  rw [ht, decide_not]
  rfl

/-- fuel that suffices for both `while` loops of `_assign_final_labels`: number of atoms + sum of the
degrees (= twice the number of bonds, for a loop-free graph) + 2 -/
def fuelBound (m : Graph) : Nat := m.nodeList.length + (m.nodeList.map (fun u => (m.nbrs u).length)).sum + 2

/-- the traversal priorities passed by `serialize_molecule` -/
abbrev prios : List (Val → Val → Bool) := [(fun a b => pyLt a b), (fun a b => pyGt a b), (fun a b => pyEq a b)]

theorem travOrder_sub (prs : List (Val → Val → Bool)) (g : Graph) (a : Int) (nb : List Int) :
    ∀ b ∈ travOrder prs g a nb, b ∈ nb := by
  intro b hb
  unfold travOrder at hb
  rw [List.mem_flatMap] at hb
  obtain ⟨pri, _, hb⟩ := hb
  rw [mem_sorted, List.mem_filter] at hb
  exact hb.1

theorem length_sorted {α : Type} [POrd α] (l : List α) : (sorted l).length = l.length :=
  (sorted_perm_self l).length_eq

/-- `<`, `>`, `==` on the classes: every neighbour is pushed exactly once -/
theorem travOrder_length (g : Graph) (a : Int) (nb : List Int) :
    (travOrder prios.reverse g a nb).length = nb.length := by
  unfold travOrder
  simp only [prios, List.reverse_cons, List.reverse_nil, List.nil_append, List.cons_append, List.flatMap_cons,
    List.flatMap_nil, List.append_nil, List.length_append, length_sorted]
  have := prio_split (cls g a) (cls g) nb
  omega

theorem travOrder_congr (prs : List (Val → Val → Bool)) {g h : Graph} (a : Int) {nb nb' : List Int}
    (hc : ∀ x, cls g x = cls h x) (hp : nb.Perm nb') : travOrder prs g a nb = travOrder prs h a nb' := by
  unfold travOrder
  congr 1
  funext pri
  simp only [hc]
  exact sorted_perm (hp.filter _)

abbrev SO := Graph × Dict Val (List Int) × Dict Int Int × Bool
abbrev SI := Graph × Dict Val (List Int) × Dict Int Int × List Int × Bool

/-- one iteration of the inner `while atom_queue:` loop, as a pure function of the loop state
`(m, labels_by_partition, final_labels, atom_queue, done_2)`; `m` is the graph the function was called with -/
def innerStep (m : Graph) (t : SI) : ForInStep SI :=
  if t.2.2.2.1 = [] then .done (t.1, t.2.1, t.2.2.1, t.2.2.2.1, true)
  else
    let a := t.2.2.2.1.getLastD 0
    let rest := t.2.2.2.1.dropLast
    if a ∈ t.2.2.1.keys then .yield (t.1, t.2.1, t.2.2.1, rest, t.2.2.2.2)
    else
      let l := (t.2.1.get? (cls m a)).getD []
      .yield (t.1.modNode a (fun x => x.set "explored" (Val.bool true)), t.2.1.set (cls m a) l.dropLast,
        t.2.2.1.set a (l.getLastD 0), (travOrder prios.reverse m a (m.nbrs a)).reverse ++ rest, t.2.2.2.2)

/-- one iteration of the outer `while unexplored := …:` loop on `(m, labels_by_partition, final_labels, done_1)` -/
def outerStep (m : Graph) (fuel : Nat) (s : SO) : ForInStep SO :=
  match sorted (unexp m s.2.2.1) with
  | [] => .done (s.1, s.2.1, s.2.2.1, true)
  | u0 :: _ =>
    let t := run (innerStep m) fuel (s.1, s.2.1, s.2.2.1, [u0], false)
    .yield (t.1, t.2.1, t.2.2.1, s.2.2.2)

/-- the `final_labels` dict computed by `_assign_final_labels`, as a pure function of the argument graph,
the fuel and the initial `labels_by_partition` -/
def specFL (m : Graph) (fuel : Nat) (d0 : Dict Val (List Int)) : Dict Int Int :=
  (run (outerStep m fuel) fuel (clearExplored m, d0, Dict.empty, false)).2.2.1

def InvO (m : Graph) (s : SO) : Prop := Good m s.1 s.2.1 s.2.2.1 ∧ s.2.2.2 = false
def QO (m : Graph) (s : SO) : Prop := Good m s.1 s.2.1 s.2.2.1 ∧ s.2.2.2 = true ∧ ∀ a ∈ m.nodeList, a ∈ s.2.2.1.keys
def varO (m : Graph) (s : SO) : Nat := (unexp m s.2.2.1).length

structure InvI (m : Graph) (u0 : Int) (fl0 : Dict Int Int) (t : SI) : Prop where
  good : Good m t.1 t.2.1 t.2.2.1
  dn : t.2.2.2.2 = false
  q_sub : ∀ a ∈ t.2.2.2.1, a ∈ m.nodeList
  mono : ∀ a ∈ fl0.keys, a ∈ t.2.2.1.keys
  u0 : u0 ∈ t.2.2.1.keys ∨ u0 ∈ t.2.2.2.1
def QI (m : Graph) (u0 : Int) (fl0 : Dict Int Int) (t : SI) : Prop :=
  Good m t.1 t.2.1 t.2.2.1 ∧ t.2.2.2.2 = true ∧ (∀ a ∈ fl0.keys, a ∈ t.2.2.1.keys) ∧ u0 ∈ t.2.2.1.keys
def varI (m : Graph) (t : SI) : Nat := t.2.2.2.1.length + wgt m t.2.2.1

theorem good_init {m : Graph} (hm : m.WF) {d0 : Dict Val (List Int)}
    (hd0k : ∀ p, p ∈ d0.keys ↔ ∃ a ∈ m.nodeList, cls m a = p)
    (hd0g : ∀ p ∈ d0.keys, d0.get? p = some (sortedRev (classNodes m p))) :
    Good m (clearExplored m) d0 Dict.empty where
  wf := WF_setNodeAttrScalar hm _ _
  clear := scalar_scalar _ _ _ _
  expl := fun a ha => by
    rw [attr_setNodeAttrScalar, if_pos rfl]
    obtain ⟨x, hx⟩ := Dict.exists_get?_of_mem_keys ha
    rw [hx]; rfl
  fl_wf := Dict.WF_empty
  fl_sub := fun a ha => by simp at ha
  d_keys := fun a ha => (hd0k _).2 ⟨a, ha, rfl⟩
  d_perm := fun p l hl => by
    rw [hd0g p (Dict.mem_keys_of_get? hl)] at hl
    simp only [Option.some.injEq] at hl
    subst hl
    simpa [Dict.empty] using sortedRev_perm_self (classNodes m p)

/-- what the traversal guarantees about `final_labels` -/
structure FinalLabelsSpec (m : Graph) (fl : Dict Int Int) : Prop where
  wf : fl.WF
  keys : fl.keys.Perm m.nodeList
  into : ∀ a x, fl.get? a = some x → x ∈ m.nodeList ∧ cls m x = cls m a
  inj : ∀ a b x, fl.get? a = some x → fl.get? b = some x → a = b

theorem Good.final {m g : Graph} {d : Dict Val (List Int)} {fl : Dict Int Int} (h : Good m g d fl)
    (hall : ∀ a ∈ m.nodeList, a ∈ fl.keys) : FinalLabelsSpec m fl := by
  have hF : ∀ a x, fl.get? a = some x → ∃ l, d.get? (cls m a) = some l ∧
      (l ++ (fl.items.filter (fun q => decide (cls m q.1 = cls m a))).map Prod.snd).Perm (classNodes m (cls m a)) ∧
      (a, x) ∈ fl.items.filter (fun q => decide (cls m q.1 = cls m a)) := by
    intro a x hax
    have ha : a ∈ m.nodeList := h.fl_sub a (Dict.mem_keys_of_get? hax)
    obtain ⟨l, hl⟩ := Dict.exists_get?_of_mem_keys (h.d_keys a ha)
    exact ⟨l, hl, h.d_perm _ _ hl, List.mem_filter.2 ⟨Dict.mem_items_of_get? hax, by simp⟩⟩
  have hcls : ∀ a x, fl.get? a = some x → x ∈ m.nodeList ∧ cls m x = cls m a := by
    intro a x hax
    obtain ⟨l, _, hp, hmem⟩ := hF a x hax
    have : x ∈ classNodes m (cls m a) :=
      hp.subset (List.mem_append_right _ (List.mem_map.2 ⟨(a, x), hmem, rfl⟩))
    simpa [classNodes] using this
  refine ⟨h.fl_wf, (List.perm_ext_iff_of_nodup h.fl_wf h.mwf).2 (fun a => ⟨h.fl_sub a, hall a⟩), hcls, ?_⟩
  intro a b x hax hbx
  obtain ⟨l, _, hp, hmem⟩ := hF a x hax
  obtain ⟨_, _, _, hmemb⟩ := hF b x hbx
  have hc : cls m b = cls m a := by rw [← (hcls a x hax).2, (hcls b x hbx).2]
  rw [hc] at hmemb
  have hnd : (classNodes m (cls m a)).Nodup := h.mwf.filter _
  have hnd2 := (hp.nodup_iff.2 hnd).of_append_right
  have := List.inj_on_of_nodup_map hnd2 hmem hmemb rfl
  exact congrArg Prod.fst this

/-- TOTALITY (C15) and functional description: with enough fuel `_assign_final_labels` does not raise;
it returns the flag-cleared argument renamed by the dict `specFL m fuel d0` (`d0` = the result of
`_labels_by_partition`) and leaves the flag-cleared argument behind -/
theorem assign_final_labels_spec (env : DepEnv) (hs : env.SetLawful) (fuel : Nat) {m : Graph} (hm : m.WF)
    (hc : Carries m "partition") (hf : fuel ≥ fuelBound m) {d0 : Dict Val (List Int)}
    (hd0 : Tucan.serialization._labels_by_partition env m = .ok d0) :
    Tucan.serialization._assign_final_labels env fuel m prios =
        .ok ((clearExplored m).relabelCopy (specFL m fuel d0), clearExplored m) ∧
      FinalLabelsSpec m (specFL m fuel d0) := by
  obtain ⟨d0', hd0', hd0wf, hd0k, hd0g⟩ := labels_by_partition_ok env hs hm.node_wf hc
  rw [hd0] at hd0'
  simp only [Except.ok.injEq] at hd0'
  subst hd0'
  unfold Tucan.serialization._assign_final_labels
  simp only [hd0, ok_bind]
  refine forIn_run (InvO m) (QO m) (varO m) (outerStep m fuel) _
    (fun x => x = .ok ((clearExplored m).relabelCopy (specFL m fuel d0), clearExplored m) ∧
      FinalLabelsSpec m (specFL m fuel d0))
    _ _ _ ?hstep ?hs ?hvar ?hk
  case hs => exact ⟨good_init hm hd0k hd0g, rfl⟩
  case hvar =>
    simp only [varO, unexp, List.length_range]
    have := List.length_filter_le (fun a => decide (a ∉ (Dict.empty : Dict Int Int).keys)) m.nodeList
    unfold fuelBound at hf
    omega
  case hk =>
    have hfl : specFL m fuel d0 = (run (outerStep m fuel) (List.range fuel).length
        (m.setNodeAttrScalar (toVal false) "explored", d0, Dict.empty, false)).2.2.1 := by
      rw [List.length_range]; rfl
    rw [hfl]
    generalize run (outerStep m fuel) (List.range fuel).length
      (m.setNodeAttrScalar (toVal false) "explored", d0, Dict.empty, false) = sfin
    obtain ⟨g, d, fl, dn⟩ := sfin
    rintro ⟨hG, hdn, hall⟩
    simp only at hG hdn hall ⊢
    subst hdn
    have hspec := hG.final hall
    refine ⟨?_, hspec⟩
    have hlen : fl.items.length = g.node.items.length := by
      have := hspec.keys.length_eq
      rw [← hG.nodeList_eq] at this
      simpa [Dict.keys, Graph.nodeList] using this
    have hassert : pyAssert (pyEq (pyLen fl) g.numberOfNodes) = .ok () := by
      have : pyEq (pyLen fl) g.numberOfNodes = true := by
        show decide ((fl.items.length : Int) = (g.node.items.length : Int)) = true
        rw [hlen]; simp
      rw [this]; rfl
    have hclear : g.setNodeAttrScalar (toVal false) "explored" = clearExplored m := hG.clear
    simp only [Bool.not_true, Bool.false_eq_true, if_false, hassert, ok_bind, hclear, pure_eq_ok]
  case hstep =>
    rintro _ ⟨g, d, fl, dn⟩ ⟨hG, hdn⟩
    simp only at hG hdn ⊢
    subst hdn
    rw [listComp_ok _ _ (fun x : Int × Val => if (!truthy x.2) = true then some x.1 else Option.none)]
    swap
    · intro x _; split <;> rfl
    simp only [ok_bind, pyIter_list, unexplored_eq hG]
    by_cases hemp : sorted (unexp m fl) = []
    · have ht : (!truthy (sorted (unexp m fl))) = true := by rw [hemp]; rfl
      have hst : outerStep m fuel (g, d, fl, false) = .done (g, d, fl, true) := by
        simp only [outerStep, hemp]
      rw [if_pos ht, hst]
      refine ⟨rfl, hG, rfl, ?_⟩
      have : unexp m fl = [] := by
        have := (sorted_perm_self (unexp m fl)).symm
        rw [hemp] at this
        exact List.perm_nil.1 this
      intro a ha
      by_contra hna
      have : a ∈ unexp m fl := List.mem_filter.2 ⟨ha, by simpa using hna⟩
      simp_all
    · obtain ⟨u0, tl, hsl⟩ := List.exists_cons_of_ne_nil hemp
      have hu0mem : u0 ∈ unexp m fl := by
        rw [← mem_sorted, hsl]; simp
      obtain ⟨hu0n, hu0k⟩ := List.mem_filter.1 hu0mem
      have hu0k : u0 ∉ fl.keys := by simpa using hu0k
      have ht : ¬ (!truthy (sorted (unexp m fl))) = true := by rw [hsl]; exact Bool.false_ne_true
      have hget : (getItem (u0 :: tl) (0 : Int) : M Int) = .ok u0 := rfl
      have hst : outerStep m fuel (g, d, fl, false) =
          .yield ((run (innerStep m) (List.range fuel).length (g, d, fl, [u0], false)).1,
            (run (innerStep m) (List.range fuel).length (g, d, fl, [u0], false)).2.1,
            (run (innerStep m) (List.range fuel).length (g, d, fl, [u0], false)).2.2.1, false) := by
        simp only [outerStep, hsl, List.length_range]
      rw [if_neg ht, hsl, hget, hst]
      simp only [ok_bind, pyIter_list]
      refine forIn_run (InvI m u0 fl) (QI m u0 fl) (varI m) (innerStep m) _
        (fun x => x = .ok (ForInStep.yield ((run (innerStep m) (List.range fuel).length (g, d, fl, [u0], false)).1,
            (run (innerStep m) (List.range fuel).length (g, d, fl, [u0], false)).2.1,
            (run (innerStep m) (List.range fuel).length (g, d, fl, [u0], false)).2.2.1, false)) ∧
          StepPost (InvO m) (QO m) (varO m) (g, d, fl, false)
            (ForInStep.yield ((run (innerStep m) (List.range fuel).length (g, d, fl, [u0], false)).1,
            (run (innerStep m) (List.range fuel).length (g, d, fl, [u0], false)).2.1,
            (run (innerStep m) (List.range fuel).length (g, d, fl, [u0], false)).2.2.1, false)))
        _ _ _ ?hstepI ?hsI ?hvarI ?hkI
      case hsI => exact ⟨hG, rfl, by simp [hu0n], fun _ h => h, Or.inr (by simp)⟩
      case hvarI =>
        have := wgt_le m fl
        unfold fuelBound at hf
        simp only [varI, List.length_range, List.length_singleton]
        omega
      case hkI =>
        generalize run (innerStep m) (List.range fuel).length (g, d, fl, [u0], false) = tfin
        obtain ⟨g', d', fl', q', dn'⟩ := tfin
        rintro ⟨hG', hdn', hmono, hu0'⟩
        simp only at hG' hdn' hmono hu0' ⊢
        subst hdn'
        refine ⟨rfl, ⟨hG', rfl⟩, ?_⟩
        exact unexp_lt m hmono hu0n hu0k hu0'
      case hstepI =>
        rintro _ ⟨g', d', fl', q, dn'⟩ ⟨hG', hdn', hq, hmono, hu0'⟩
        simp only at hG' hdn' hq hmono hu0' ⊢
        subst hdn'
        by_cases hq0 : q = []
        · subst hq0
          have ht : (!truthy ([] : List Int)) = true := rfl
          have hst : innerStep m (g', d', fl', [], false) = .done (g', d', fl', [], true) := by
            simp [innerStep]
          rw [if_pos ht, hst]
          refine ⟨rfl, hG', rfl, hmono, ?_⟩
          simpa using hu0'
        · obtain ⟨a, rest, hqa⟩ : ∃ a rest, q = rest ++ [a] :=
            ⟨_, _, (List.dropLast_append_getLast hq0).symm⟩
          subst hqa
          have ht : ¬ (!truthy (rest ++ [a])) = true := by simp [truthy, Truthy.truthy]
          have ha : a ∈ m.nodeList := hq a (by simp)
          have hag : a ∈ g'.nodeList := by rw [hG'.nodeList_eq]; exact ha
          rw [if_neg ht, popLast_snoc]
          simp only [ok_bind]
          -- the neighbours and their traversal order do not depend on the rest of the iteration
          rw [Contracts.Partition.neighbors_ok hG'.wf a hag]
          simp only [ok_bind]
          rw [prio_loop hag (g'.nbrs a) (fun n hn => hG'.wf.nbr_mem a n hn)]
          simp only [ok_bind, List.nil_append]
          have hto : travOrder prios.reverse g' a (g'.nbrs a) = travOrder prios.reverse m a (m.nbrs a) :=
            travOrder_congr _ a hG'.cls_eq (by rw [hG'.nbrs_eq])
          rw [hto]
          -- the `explored` flag of `a`
          obtain ⟨x, hx1, hx2⟩ := Contracts.Partition.nodeAttrs_getItem g' a "explored" (by rw [hG'.expl a ha]; rfl)
          have hx3 : attrV g' "explored" a = Val.bool (decide (a ∈ fl'.keys)) := by
            unfold attrV; rw [hG'.expl a ha]; rfl
          rw [hx1]
          simp only [ok_bind]
          rw [hx2, hx3]
          simp only [ok_bind]
          have htr : truthy (Val.bool (decide (a ∈ fl'.keys))) = decide (a ∈ fl'.keys) := rfl
          rw [htr]
          by_cases hex : a ∈ fl'.keys
          · have hst : innerStep m (g', d', fl', rest ++ [a], false) = .yield (g', d', fl', rest, false) := by
              simp [innerStep, hex]
            rw [if_pos (by simpa using hex), hst]
            refine ⟨rfl, ⟨hG', rfl, fun b hb => hq b (by simp [hb]), hmono, ?_⟩, ?_⟩
            · rcases hu0' with h | h
              · exact Or.inl h
              · rcases List.mem_append.1 h with h | h
                · exact Or.inr h
                · simp only [List.mem_singleton] at h; exact Or.inl (h ▸ hex)
            · simp [varI]
          · rw [if_neg (by simpa using hex)]
            obtain ⟨l, hl⟩ := Dict.exists_get?_of_mem_keys (hG'.d_keys a ha)
            obtain ⟨hne, hG''⟩ := hG'.explore ha hex hl
            have hst : innerStep m (g', d', fl', rest ++ [a], false) =
                .yield (g'.modNode a (fun x => x.set "explored" (Val.bool true)), d'.set (cls m a) l.dropLast,
                  fl'.set a (l.getLast hne), (travOrder prios.reverse m a (m.nbrs a)).reverse ++ rest, false) := by
              have h1 : l.getLast?.getD 0 = l.getLast hne := by
                rw [List.getLast?_eq_getLast_of_ne_nil hne]; rfl
              have h2 : l.getLastD 0 = l.getLast hne := by
                rw [List.getLastD_eq_getLast?, h1]
              simp [innerStep, hex, hl, h1, h2]
            have hcls : attrV g' "partition" a = cls m a := hG'.cls_eq a
            rw [nodeDataGet_ok hag, hcls, hst]
            simp only [ok_bind]
            rw [getItem_valdict, hl]
            simp only [ok_bind]
            rw [popLast_ok l hne]
            simp only [ok_bind, setItem_dict]
            rw [setNodeAttr1_eq, if_pos hag]
            simp only [ok_bind, pure_eq_ok, pyIter_list]
            refine ⟨rfl, ⟨hG'', rfl, ?_, ?_, ?_⟩, ?_⟩
            · intro b hb
              rcases List.mem_append.1 hb with hb | hb
              · rw [List.mem_reverse] at hb
                exact hG'.wf.nbr_mem a b (hG'.nbrs_eq a ▸ travOrder_sub _ m a _ b hb) |> (hG'.nodeList_eq ▸ ·)
              · exact hq b (by simp [hb])
            · intro b hb; exact mem_keys_set_mono _ _ _ (hmono b hb)
            · rcases hu0' with h | h
              · exact Or.inl (mem_keys_set_mono _ _ _ h)
              · rcases List.mem_append.1 h with h | h
                · exact Or.inr (List.mem_append_right _ h)
                · simp only [List.mem_singleton] at h
                  exact Or.inl (h ▸ (Dict.mem_keys_set _ _ _ _).2 (Or.inl rfl))
            · have h1 := wgt_set m fl' (l.getLast hne) ha hex
              have h2 := travOrder_length m a (m.nbrs a)
              simp only [varI, List.length_append, List.length_reverse, List.length_singleton]
              omega

/-! ## BIJECTION: `final_labels` permutes every partition class -/

namespace FinalLabelsSpec
variable {m : Graph} {fl : Dict Int Int}

theorem get (h : FinalLabelsSpec m fl) {a : Int} (ha : a ∈ m.nodeList) : fl.get? a = some (relabelFun fl a) := by
  obtain ⟨x, hx⟩ := Dict.exists_get?_of_mem_keys (h.keys.mem_iff.2 ha)
  unfold relabelFun; rw [hx]; rfl

/-- every node is mapped to a node of its own class -/
theorem maps_cls (h : FinalLabelsSpec m fl) {a : Int} (ha : a ∈ m.nodeList) :
    relabelFun fl a ∈ m.nodeList ∧ cls m (relabelFun fl a) = cls m a := h.into a _ (h.get ha)

theorem injOn (h : FinalLabelsSpec m fl) :
    ∀ a ∈ m.nodeList, ∀ b ∈ m.nodeList, relabelFun fl a = relabelFun fl b → a = b := by
  intro a ha b hb e
  exact h.inj a b _ (h.get ha) (e ▸ h.get hb)

theorem perm_of_sub {l : List Int} (h : FinalLabelsSpec m fl) (hnd : l.Nodup) (hl : ∀ a ∈ l, a ∈ m.nodeList)
    (hcl : ∀ a ∈ l, relabelFun fl a ∈ l) : (l.map (relabelFun fl)).Perm l := by
  have hnd' : (l.map (relabelFun fl)).Nodup :=
    List.Nodup.map_on (fun a ha b hb e => h.injOn a (hl a ha) b (hl b hb) e) hnd
  have hsub : l.map (relabelFun fl) ⊆ l := by
    intro x hx
    obtain ⟨a, ha, rfl⟩ := List.mem_map.1 hx
    exact hcl a ha
  exact (hnd'.subperm hsub).perm_of_length_le (by simp)

/-- `final_labels` is a bijection of the node set onto itself -/
theorem perm_nodes (h : FinalLabelsSpec m fl) (hm : m.node.WF) : (m.nodeList.map (relabelFun fl)).Perm m.nodeList :=
  h.perm_of_sub hm (fun _ ha => ha) (fun _ ha => (h.maps_cls ha).1)

/-- … and maps every partition class onto itself -/
theorem perm_class (h : FinalLabelsSpec m fl) (hm : m.node.WF) (p : Val) :
    ((classNodes m p).map (relabelFun fl)).Perm (classNodes m p) := by
  refine h.perm_of_sub (hm.filter _) (fun a ha => (List.mem_filter.1 ha).1) (fun a ha => ?_)
  obtain ⟨ha1, ha2⟩ := List.mem_filter.1 ha
  obtain ⟨h1, h2⟩ := h.maps_cls ha1
  exact List.mem_filter.2 ⟨h1, by rw [h2]; exact ha2⟩

/-- the returned graph is the (flag-cleared) argument renamed by the bijection `final_labels` -/
theorem relabel (h : FinalLabelsSpec m fl) (hm : m.WF) :
    ((clearExplored m).relabelCopy fl).WF ∧
    IsRelabel (relabelFun fl) (clearExplored m) ((clearExplored m).relabelCopy fl) ∧
    ((clearExplored m).relabelCopy fl).nodeList = m.nodeList.map (relabelFun fl) := by
  have hw : (clearExplored m).WF := WF_setNodeAttrScalar hm _ _
  have hn : (clearExplored m).nodeList = m.nodeList := nodeList_setNodeAttrScalar _ _ _
  have inj : ∀ a ∈ (clearExplored m).nodeList, ∀ b ∈ (clearExplored m).nodeList,
      relabelFun fl a = relabelFun fl b → a = b := by rw [hn]; exact h.injOn
  refine ⟨WF_relabelCopy hw fl inj, isRelabel_relabelCopy hw fl inj, ?_⟩
  rw [nodeList_relabelCopy hw fl inj, hn]

end FinalLabelsSpec

/-! ## more fuel never changes a successful result -/

/-- two fuel-bounded runs of a `while` loop with a `done` flag: if the run with the shorter list breaks
(flag set), the run with the longer list — whose body may differ, as long as it reproduces every successful
iteration of the first — ends in the same state -/
theorem forIn_fuel_mono {σ α α' : Type} (flag : σ → Bool) (l₁ : List α) (l₂ : List α') (s s₁ : σ)
    (b₁ : α → σ → M (ForInStep σ)) (b₂ : α' → σ → M (ForInStep σ))
    (h₁ : forIn l₁ s b₁ = .ok s₁) (hs : flag s = false) (hs₁ : flag s₁ = true) (hlen : l₁.length ≤ l₂.length)
    (hy : ∀ a s s', flag s = false → b₁ a s = .ok (.yield s') → flag s' = false)
    (hb : ∀ a a' s r, flag s = false → b₁ a s = .ok r → b₂ a' s = .ok r) :
    forIn l₂ s b₂ = .ok s₁ := by
  induction l₁ generalizing l₂ s with
  | nil =>
    simp only [List.forIn_nil, pure_eq_ok, Except.ok.injEq] at h₁
    subst h₁; rw [hs] at hs₁; cases hs₁
  | cons a l₁ ih =>
    cases l₂ with
    | nil => simp at hlen
    | cons a' l₂ =>
      rw [List.forIn_cons] at h₁ ⊢
      cases hr : b₁ a s with
      | error e => rw [hr] at h₁; cases h₁
      | ok r =>
        rw [hr] at h₁
        rw [hb a a' s r hs hr]
        cases r with
        | done s' => exact h₁
        | yield s' =>
          simp only [ok_bind] at h₁ ⊢
          exact ih l₂ s' h₁ (hy a s s' hs hr) (by simpa using hlen)

theorem assign_final_labels_fuel_mono (env : DepEnv) {fuel fuel' : Nat} (hle : fuel ≤ fuel') (m : Graph)
    (pr : List (Val → Val → Bool)) {x : Graph × Graph}
    (h : Tucan.serialization._assign_final_labels env fuel m pr = .ok x) :
    Tucan.serialization._assign_final_labels env fuel' m pr = .ok x := by
  unfold Tucan.serialization._assign_final_labels at h ⊢
  simp only [pure_eq_ok] at h ⊢
  obtain ⟨d, hd, h⟩ := bind_eq_ok.1 h
  rw [hd]
  simp only [ok_bind]
  obtain ⟨s, hloop, h⟩ := bind_eq_ok.1 h
  clear hd
  split at h
  · simp at h
  next hdone =>
  have hdone : s.2.2.2 = true := by simpa using hdone
  rw [forIn_fuel_mono (fun s => s.2.2.2) (List.range fuel) (List.range fuel') _ s _ _ hloop rfl hdone
    (by simpa using hle)]
  · simp only [ok_bind, hdone, Bool.not_true, Bool.false_eq_true, if_false] at h ⊢
    exact h
  · -- a continuing outer iteration keeps `done_1 = False`
    intro a s s' hfl hbody
    obtain ⟨unex, -, hbody⟩ := bind_eq_ok.1 hbody
    split at hbody
    · cases hbody
    · obtain ⟨u0, -, hbody⟩ := bind_eq_ok.1 hbody
      obtain ⟨t, -, hbody⟩ := bind_eq_ok.1 hbody
      split at hbody
      · simp at hbody
      · simp only [Except.ok.injEq, ForInStep.yield.injEq] at hbody
        rw [← hbody]; exact hfl
  · -- every successful outer iteration is reproduced with more fuel
    intro a a' s r hfl hbody
    obtain ⟨unex, hu, hbody⟩ := bind_eq_ok.1 hbody
    simp only [hu, ok_bind]
    split at hbody
    next hc => rw [if_pos hc]; exact hbody
    next hc =>
    rw [if_neg hc]
    obtain ⟨u0, hg, hbody⟩ := bind_eq_ok.1 hbody
    simp only [hg, ok_bind]
    obtain ⟨t, hinner, hbody⟩ := bind_eq_ok.1 hbody
    split at hbody
    · simp at hbody
    next hd2 =>
    have hd2 : t.2.2.2.2 = true := by simpa using hd2
    rw [forIn_fuel_mono (fun t => t.2.2.2.2) (List.range fuel) (List.range fuel') _ t _ _ hinner rfl hd2
      (by simpa using hle)]
    · simp only [ok_bind, hd2, Bool.not_true, Bool.false_eq_true, if_false]
      exact hbody
    · -- a continuing inner iteration keeps `done_2 = False`
      intro y t t' hfl2 hb
      split at hb
      · cases hb
      · obtain ⟨⟨a, rest⟩, -, hb⟩ := bind_eq_ok.1 hb
        simp only at hb
        obtain ⟨attrs, -, hb⟩ := bind_eq_ok.1 hb
        obtain ⟨ex, -, hb⟩ := bind_eq_ok.1 hb
        split at hb
        · simp only [Except.ok.injEq, ForInStep.yield.injEq] at hb
          rw [← hb]; exact hfl2
        · obtain ⟨c, -, hb⟩ := bind_eq_ok.1 hb
          obtain ⟨l, -, hb⟩ := bind_eq_ok.1 hb
          obtain ⟨⟨x5, rest6⟩, -, hb⟩ := bind_eq_ok.1 hb
          simp only at hb
          obtain ⟨c', -, hb⟩ := bind_eq_ok.1 hb
          obtain ⟨d', -, hb⟩ := bind_eq_ok.1 hb
          obtain ⟨fl', -, hb⟩ := bind_eq_ok.1 hb
          obtain ⟨nb, -, hb⟩ := bind_eq_ok.1 hb
          obtain ⟨order, -, hb⟩ := bind_eq_ok.1 hb
          obtain ⟨m2, -, hb⟩ := bind_eq_ok.1 hb
          simp only [Except.ok.injEq, ForInStep.yield.injEq] at hb
          rw [← hb]; exact hfl2
    · intro y y' t r _ hb; exact hb

/-- TOTALITY (C15), fuel-independent form: there is one `final_labels` dict such that for every
`fuel ≥ fuelBound m` the call succeeds, returns the flag-cleared argument renamed by it and leaves the
flag-cleared argument behind -/
theorem assign_final_labels_ok (env : DepEnv) (hs : env.SetLawful) {m : Graph} (hm : m.WF)
    (hc : Carries m "partition") :
    ∃ fl, FinalLabelsSpec m fl ∧ ∀ fuel, fuel ≥ fuelBound m →
      Tucan.serialization._assign_final_labels env fuel m prios =
        .ok ((clearExplored m).relabelCopy fl, clearExplored m) := by
  obtain ⟨d0, hd0, -⟩ := labels_by_partition_ok env hs hm.node_wf hc
  obtain ⟨h1, h2⟩ := assign_final_labels_spec env hs (fuelBound m) hm hc (le_refl _) hd0
  exact ⟨_, h2, fun fuel hf => assign_final_labels_fuel_mono env hf m prios h1⟩

/-- C15 for `_assign_final_labels`: no exception (no assertion, index or key error, no fuel exhaustion) -/
theorem assign_final_labels_total (env : DepEnv) (hs : env.SetLawful) (fuel : Nat) {m : Graph} (hm : m.WF)
    (hc : Carries m "partition") (hf : fuel ≥ fuelBound m) :
    ∃ r m', Tucan.serialization._assign_final_labels env fuel m prios = .ok (r, m') := by
  obtain ⟨fl, -, h⟩ := assign_final_labels_ok env hs hm hc
  exact ⟨_, _, h fuel hf⟩

/-- BIJECTION: the returned graph `r` is well-formed and is `m'` (the argument after the call) renamed by
a bijection `π` of the node set that maps every partition class onto itself -/
theorem assign_final_labels_relabel (env : DepEnv) (hs : env.SetLawful) (fuel : Nat) {m : Graph} (hm : m.WF)
    (hc : Carries m "partition") (hf : fuel ≥ fuelBound m) :
    ∃ r m' π, Tucan.serialization._assign_final_labels env fuel m prios = .ok (r, m') ∧
      m' = clearExplored m ∧ r.WF ∧ IsRelabel π m' r ∧ r.nodeList = m.nodeList.map π ∧
      (m.nodeList.map π).Perm m.nodeList ∧
      (∀ a ∈ m.nodeList, π a ∈ m.nodeList ∧ cls m (π a) = cls m a) ∧
      (∀ p, ((classNodes m p).map π).Perm (classNodes m p)) := by
  obtain ⟨fl, hspec, h⟩ := assign_final_labels_ok env hs hm hc
  obtain ⟨w, rel, nl⟩ := hspec.relabel hm
  exact ⟨_, _, relabelFun fl, h fuel hf, rfl, w, rel, nl, hspec.perm_nodes hm.node_wf,
    fun a ha => hspec.maps_cls ha, hspec.perm_class hm.node_wf⟩

/-! ## ORDER INDEPENDENCE (C01): node / adjacency / set iteration orders do not influence `final_labels` -/

section OrderIndep
variable {g h : Graph}

theorem same_mem (hsame : Same g h) (n : Int) : n ∈ h.nodeList ↔ n ∈ g.nodeList := by
  have := hsame.nodes.mem_iff (a := n)
  simpa using this

theorem same_perm_nodes (hsame : Same g h) : g.nodeList.Perm h.nodeList := by
  have := hsame.nodes; simpa using this.symm

theorem same_attr (hsame : Same g h) (n : Int) (k : String) : h.attr n k = g.attr n k := by
  by_cases hn : n ∈ g.nodeList
  · exact hsame.attrs n hn k
  · have hn' : n ∉ h.nodeList := fun x => hn ((same_mem hsame n).1 x)
    unfold Graph.attr
    rw [(Dict.get?_eq_none_iff _ _).2 hn, (Dict.get?_eq_none_iff _ _).2 hn']

theorem same_cls (hsame : Same g h) (a : Int) : cls g a = cls h a := by
  unfold cls attrV; rw [same_attr hsame]

theorem nbrs_of_not_mem (hg : g.WF) {n : Int} (hn : n ∉ g.nodeList) : g.nbrs n = [] := by
  unfold Graph.nbrs; rw [hg.adj_get?_eq_none hn]; rfl

theorem same_nbrs (hg : g.WF) (hh : h.WF) (hsame : Same g h) (n : Int) : (g.nbrs n).Perm (h.nbrs n) := by
  by_cases hn : n ∈ g.nodeList
  · have := hsame.nbrs n hn; simpa using this.symm
  · have hn' : n ∉ h.nodeList := fun x => hn ((same_mem hsame n).1 x)
    rw [nbrs_of_not_mem hg hn, nbrs_of_not_mem hh hn']

theorem same_carries (hsame : Same g h) {k : String} (hc : Carries g k) : Carries h k := by
  intro a ha
  rw [same_attr hsame]; exact hc a ((same_mem hsame a).1 ha)

theorem same_classNodes (hsame : Same g h) (p : Val) : (classNodes g p).Perm (classNodes h p) := by
  unfold classNodes
  simp only [same_cls hsame]
  exact (same_perm_nodes hsame).filter _

theorem same_unexp (hsame : Same g h) (fl : Dict Int Int) : sorted (unexp g fl) = sorted (unexp h fl) :=
  sorted_perm ((same_perm_nodes hsame).filter _)

/-- related loop states: same `final_labels`, same queue, same flag, `labels_by_partition` equal as maps
(the key order depends on the set iteration order); the graph component is not compared -/
def RelI (t₁ t₂ : SI) : Prop :=
  (∀ p, t₁.2.1.get? p = t₂.2.1.get? p) ∧ t₁.2.2.1 = t₂.2.2.1 ∧ t₁.2.2.2.1 = t₂.2.2.2.1 ∧ t₁.2.2.2.2 = t₂.2.2.2.2
def RelO (s₁ s₂ : SO) : Prop :=
  (∀ p, s₁.2.1.get? p = s₂.2.1.get? p) ∧ s₁.2.2.1 = s₂.2.2.1 ∧ s₁.2.2.2 = s₂.2.2.2

theorem innerStep_rel (hg : g.WF) (hh : h.WF) (hsame : Same g h) (t₁ t₂ : SI) (hr : RelI t₁ t₂) :
    StepRel RelI (innerStep g t₁) (innerStep h t₂) := by
  obtain ⟨g₁, d₁, fl₁, q₁, dn₁⟩ := t₁
  obtain ⟨g₂, d₂, fl₂, q₂, dn₂⟩ := t₂
  obtain ⟨hd, hfl, hq, hdn⟩ := hr
  simp only at hd hfl hq hdn
  subst hfl hq hdn
  have hto : ∀ a, travOrder prios.reverse g a (g.nbrs a) = travOrder prios.reverse h a (h.nbrs a) :=
    fun a => travOrder_congr _ a (same_cls hsame) (same_nbrs hg hh hsame a)
  unfold innerStep
  simp only [← same_cls hsame, hto, hd]
  by_cases hq0 : q₁ = []
  · simp only [hq0, if_true]
    exact ⟨hd, rfl, rfl, rfl⟩
  · simp only [hq0, if_false]
    by_cases hex : q₁.getLastD 0 ∈ fl₁.keys
    · simp only [hex, if_true]
      exact ⟨hd, rfl, rfl, rfl⟩
    · simp only [hex, if_false]
      refine ⟨fun p => ?_, rfl, rfl, rfl⟩
      simp only [Dict.get?_set, hd]

theorem outerStep_rel (hg : g.WF) (hh : h.WF) (hsame : Same g h) (fuel : Nat) (s₁ s₂ : SO) (hr : RelO s₁ s₂) :
    StepRel RelO (outerStep g fuel s₁) (outerStep h fuel s₂) := by
  obtain ⟨g₁, d₁, fl₁, dn₁⟩ := s₁
  obtain ⟨g₂, d₂, fl₂, dn₂⟩ := s₂
  obtain ⟨hd, hfl, hdn⟩ := hr
  simp only at hd hfl hdn
  subst hfl hdn
  unfold outerStep
  simp only [← same_unexp hsame]
  cases hsl : sorted (unexp g fl₁) with
  | nil => exact ⟨hd, rfl, rfl⟩
  | cons u0 tl =>
    simp only
    have := run_rel RelI (innerStep g) (innerStep h) (innerStep_rel hg hh hsame) fuel
      (g₁, d₁, fl₁, [u0], false) (g₂, d₂, fl₁, [u0], false) ⟨hd, rfl, rfl, rfl⟩
    exact ⟨this.1, this.2.1, rfl⟩

theorem specFL_same (hg : g.WF) (hh : h.WF) (hsame : Same g h) (fuel : Nat) {d₁ d₂ : Dict Val (List Int)}
    (hd : ∀ p, d₁.get? p = d₂.get? p) : specFL g fuel d₁ = specFL h fuel d₂ := by
  unfold specFL
  exact (run_rel RelO (outerStep g fuel) (outerStep h fuel) (outerStep_rel hg hh hsame fuel) fuel
    (clearExplored g, d₁, Dict.empty, false) (clearExplored h, d₂, Dict.empty, false) ⟨hd, rfl, rfl⟩).2.1

theorem labels_by_partition_same {env₁ env₂ : DepEnv} (hs₁ : env₁.SetLawful) (hs₂ : env₂.SetLawful)
    (hg : g.WF) (hh : h.WF) (hsame : Same g h) (cg : Carries g "partition") {d₁ d₂ : Dict Val (List Int)}
    (h₁ : Tucan.serialization._labels_by_partition env₁ g = .ok d₁)
    (h₂ : Tucan.serialization._labels_by_partition env₂ h = .ok d₂) : ∀ p, d₁.get? p = d₂.get? p := by
  obtain ⟨d₁', e₁, -, k₁, g₁⟩ := labels_by_partition_ok env₁ hs₁ hg.node_wf cg
  obtain ⟨d₂', e₂, -, k₂, g₂⟩ := labels_by_partition_ok env₂ hs₂ hh.node_wf (same_carries hsame cg)
  rw [h₁] at e₁; rw [h₂] at e₂
  simp only [Except.ok.injEq] at e₁ e₂
  subst e₁ e₂
  intro p
  have hk : p ∈ d₁.keys ↔ p ∈ d₂.keys := by
    rw [k₁, k₂]
    constructor
    · rintro ⟨a, ha, rfl⟩; exact ⟨a, (same_mem hsame a).2 ha, (same_cls hsame a).symm⟩
    · rintro ⟨a, ha, rfl⟩; exact ⟨a, (same_mem hsame a).1 ha, same_cls hsame a⟩
  by_cases hp : p ∈ d₁.keys
  · rw [g₁ p hp, g₂ p (hk.1 hp), sortedRev_perm (same_classNodes hsame p)]
  · rw [(Dict.get?_eq_none_iff _ _).2 hp, (Dict.get?_eq_none_iff _ _).2 (fun x => hp (hk.2 x))]

theorem same_fuelBound (hg : g.WF) (hh : h.WF) (hsame : Same g h) : fuelBound g = fuelBound h := by
  unfold fuelBound
  have h1 := (same_perm_nodes hsame).length_eq
  have h2 : (g.nodeList.map (fun u => (g.nbrs u).length)) = (g.nodeList.map (fun u => (h.nbrs u).length)) :=
    List.map_congr_left (fun u _ => (same_nbrs hg hh hsame u).length_eq)
  have h3 := (((same_perm_nodes hsame).map (fun u => (h.nbrs u).length)).sum_eq)
  rw [h1, h2, h3]

theorem same_clear (hsame : Same g h) : Same (clearExplored g) (clearExplored h) where
  inj := fun _ _ _ _ e => e
  nodes := by
    rw [nodeList_setNodeAttrScalar, nodeList_setNodeAttrScalar]; exact hsame.nodes
  attrs := fun n hn k => by
    rw [nodeList_setNodeAttrScalar] at hn
    have hn' : n ∈ h.nodeList := (same_mem hsame n).2 hn
    obtain ⟨x, hx⟩ := Dict.exists_get?_of_mem_keys hn
    obtain ⟨y, hy⟩ := Dict.exists_get?_of_mem_keys hn'
    simp only [id, attr_setNodeAttrScalar, hx, hy, Option.map_some]
    rw [same_attr hsame]
  nbrs := fun n hn => by
    rw [nodeList_setNodeAttrScalar] at hn
    simpa using hsame.nbrs n hn
  eattrs := fun u hu v hv a ha => by
    rw [nodeList_setNodeAttrScalar] at hu hv
    simpa using hsame.eattrs u hu v hv a (by simpa using ha)

/-- relabelling two presentations of the same labelled graph with the same injective mapping gives two
presentations of the same labelled graph -/
theorem same_relabelCopy (hg : g.WF) (hh : h.WF) (hsame : Same g h) (mapping : Dict Int Int)
    (inj : ∀ a ∈ g.nodeList, ∀ b ∈ g.nodeList, relabelFun mapping a = relabelFun mapping b → a = b) :
    Same (g.relabelCopy mapping) (h.relabelCopy mapping) := by
  have inj' : ∀ a ∈ h.nodeList, ∀ b ∈ h.nodeList, relabelFun mapping a = relabelFun mapping b → a = b :=
    fun a ha b hb => inj a ((same_mem hsame a).1 ha) b ((same_mem hsame b).1 hb)
  have rg := isRelabel_relabelCopy hg mapping inj
  have rh := isRelabel_relabelCopy hh mapping inj'
  have nlg := nodeList_relabelCopy hg mapping inj
  have nlh := nodeList_relabelCopy hh mapping inj'
  refine ⟨fun _ _ _ _ e => e, ?_, ?_, ?_, ?_⟩
  · rw [nlg, nlh, List.map_id]; exact ((same_perm_nodes hsame).map _).symm
  · intro n hn k
    rw [nlg] at hn
    obtain ⟨a, ha, rfl⟩ := List.mem_map.1 hn
    show (h.relabelCopy mapping).attr (relabelFun mapping a) k = _
    rw [rg.attrs a ha, rh.attrs a ((same_mem hsame a).2 ha), same_attr hsame]
  · intro n hn
    rw [nlg] at hn
    obtain ⟨a, ha, rfl⟩ := List.mem_map.1 hn
    rw [List.map_id]
    show ((h.relabelCopy mapping).nbrs (relabelFun mapping a)).Perm _
    exact (rh.nbrs a ((same_mem hsame a).2 ha)).trans
      (((same_nbrs hg hh hsame a).symm.map _).trans (rg.nbrs a ha).symm)
  · intro u hu v hv A hA
    rw [nlg] at hu hv
    obtain ⟨a, ha, rfl⟩ := List.mem_map.1 hu
    obtain ⟨b, hb, rfl⟩ := List.mem_map.1 hv
    rw [edgeAttrs_relabelCopy hg mapping inj ha hb] at hA
    obtain ⟨B, hB, hAB⟩ := hsame.eattrs a ha b hb A hA
    refine ⟨B, ?_, hAB⟩
    show (h.relabelCopy mapping).edgeAttrs (relabelFun mapping a) (relabelFun mapping b) = _
    rw [edgeAttrs_relabelCopy hh mapping inj' ((same_mem hsame a).2 ha) ((same_mem hsame b).2 hb)]
    exact hB

/-- ORDER INDEPENDENCE (C01): two presentations `g`, `h` of the same labelled graph (different node,
adjacency and attribute iteration orders), processed under possibly different `set` iteration orders and
with different (sufficient) amounts of fuel, get literally the same `final_labels` dict; hence the two
returned graphs are again presentations of one labelled graph. -/
theorem assign_final_labels_order_independent {env₁ env₂ : DepEnv} (hs₁ : env₁.SetLawful) (hs₂ : env₂.SetLawful)
    (hg : g.WF) (hh : h.WF) (hsame : Same g h) (cg : Carries g "partition") :
    ∃ fl, FinalLabelsSpec g fl ∧ FinalLabelsSpec h fl ∧
      (∀ fuel, fuel ≥ fuelBound g → Tucan.serialization._assign_final_labels env₁ fuel g prios =
        .ok ((clearExplored g).relabelCopy fl, clearExplored g)) ∧
      (∀ fuel, fuel ≥ fuelBound h → Tucan.serialization._assign_final_labels env₂ fuel h prios =
        .ok ((clearExplored h).relabelCopy fl, clearExplored h)) ∧
      Same ((clearExplored g).relabelCopy fl) ((clearExplored h).relabelCopy fl) := by
  have ch := same_carries hsame cg
  obtain ⟨d₁, hd₁, -⟩ := labels_by_partition_ok env₁ hs₁ hg.node_wf cg
  obtain ⟨d₂, hd₂, -⟩ := labels_by_partition_ok env₂ hs₂ hh.node_wf ch
  have hb := same_fuelBound hg hh hsame
  obtain ⟨a1, a2⟩ := assign_final_labels_spec env₁ hs₁ (fuelBound g) hg cg (le_refl _) hd₁
  obtain ⟨b1, b2⟩ := assign_final_labels_spec env₂ hs₂ (fuelBound g) hh ch (by rw [hb]) hd₂
  have e : specFL g (fuelBound g) d₁ = specFL h (fuelBound g) d₂ :=
    specFL_same hg hh hsame _ (labels_by_partition_same hs₁ hs₂ hg hh hsame cg hd₁ hd₂)
  rw [← e] at b1 b2
  refine ⟨_, a2, b2, fun fuel hf => assign_final_labels_fuel_mono env₁ hf g prios a1,
    fun fuel hf => assign_final_labels_fuel_mono env₂ (by rw [hb]; exact hf) h prios b1, ?_⟩
  refine same_relabelCopy (WF_setNodeAttrScalar hg _ _) (WF_setNodeAttrScalar hh _ _) (same_clear hsame) _ ?_
  rw [nodeList_setNodeAttrScalar]; exact a2.injOn

end OrderIndep

/-! ## lifting to the first line of `serialize_molecule` -/

/-- `serialize_molecule` depends on its argument and on the fuel only through the result of
`_assign_final_labels(m)` -/
theorem serialize_molecule_congr (env : DepEnv) {fuel₁ fuel₂ : Nat} {m₁ m₂ : Graph} {x : M (Graph × Graph)}
    (h₁ : Tucan.serialization._assign_final_labels env fuel₁ m₁ prios = x)
    (h₂ : Tucan.serialization._assign_final_labels env fuel₂ m₂ prios = x) :
    Tucan.serialization.serialize_molecule env fuel₁ m₁ = Tucan.serialization.serialize_molecule env fuel₂ m₂ := by
  simp only [Tucan.serialization.serialize_molecule]
  rw [h₁, h₂]

/-- with enough fuel the result of `serialize_molecule` (string, final state of the argument, or exception
raised by the later steps) does not depend on the fuel -/
theorem serialize_molecule_fuel_indep (env : DepEnv) (hs : env.SetLawful) {m : Graph} (hm : m.WF)
    (hc : Carries m "partition") {fuel₁ fuel₂ : Nat} (h₁ : fuel₁ ≥ fuelBound m) (h₂ : fuel₂ ≥ fuelBound m) :
    Tucan.serialization.serialize_molecule env fuel₁ m = Tucan.serialization.serialize_molecule env fuel₂ m := by
  obtain ⟨fl, -, h⟩ := assign_final_labels_ok env hs hm hc
  exact serialize_molecule_congr env (h fuel₁ h₁) (h fuel₂ h₂)

/-- the first line of `serialize_molecule` succeeds: the call equals the rest of the function run on the
relabelled graph `r = relabel_nodes(m', final_labels)`, where `m'` is the flag-cleared argument -/
theorem serialize_molecule_first_line (env : DepEnv) (hs : env.SetLawful) (fuel : Nat) {m : Graph} (hm : m.WF)
    (hc : Carries m "partition") (hf : fuel ≥ fuelBound m) :
    ∃ fl, FinalLabelsSpec m fl ∧
      Tucan.serialization._assign_final_labels env fuel m prios =
        .ok ((clearExplored m).relabelCopy fl, clearExplored m) ∧
      ((clearExplored m).relabelCopy fl).WF ∧
      IsRelabel (relabelFun fl) (clearExplored m) ((clearExplored m).relabelCopy fl) := by
  obtain ⟨fl, hspec, h⟩ := assign_final_labels_ok env hs hm hc
  obtain ⟨w, rel, -⟩ := hspec.relabel hm
  exact ⟨fl, hspec, h fuel hf, w, rel⟩


/-! ## the precondition on `partition` is exact -/

theorem exists_first {α : Type} (p : α → Prop) (l : List α) (h : ∃ a ∈ l, p a) :
    ∃ pre a post, l = pre ++ a :: post ∧ (∀ b ∈ pre, ¬ p b) ∧ p a := by
  classical
  induction l with
  | nil => simp at h
  | cons x l ih =>
    by_cases hx : p x
    · exact ⟨[], x, l, rfl, by simp, hx⟩
    · obtain ⟨a, ha, hpa⟩ := h
      have : a ∈ l := by
        rcases List.mem_cons.1 ha with rfl | h'
        · exact absurd hpa hx
        · exact h'
      obtain ⟨pre, a', post, e, h1, h2⟩ := ih ⟨a, this, hpa⟩
      refine ⟨x :: pre, a', post, by rw [e]; rfl, ?_, h2⟩
      intro b hb
      rcases List.mem_cons.1 hb with rfl | hb
      · exact hx
      · exact h1 b hb

/-- a `for` loop whose body raises at the first element violating `p` -/
theorem forIn_error {σ α : Type} (body : α → σ → M (ForInStep σ)) (step : α → σ → σ) (P : σ → Prop) (e : Err)
    (pre : List α) (a : α) (post : List α) (s : σ)
    (hpre : ∀ b ∈ pre, ∀ s, P s → body b s = .ok (.yield (step b s)) ∧ P (step b s)) (hs : P s)
    (ha : ∀ s, P s → body a s = .error e) : forIn (pre ++ a :: post) s body = .error e := by
  induction pre generalizing s with
  | nil => rw [List.nil_append, List.forIn_cons, ha s hs]; rfl
  | cons b pre ih =>
    obtain ⟨h1, h2⟩ := hpre b (by simp) s hs
    rw [List.cons_append, List.forIn_cons, h1]
    simp only [ok_bind]
    exact ih _ (fun c hc => hpre c (by simp [hc])) h2

/-- a node without `partition` attribute makes `_labels_by_partition` raise `KeyError` (`m.nodes[a][PARTITION]`) -/
theorem labels_by_partition_keyError (env : DepEnv) (hs : env.SetLawful) {m : Graph} (hm : m.node.WF)
    (hnc : ¬ Carries m "partition") :
    Tucan.serialization._labels_by_partition env m = .error Err.key := by
  have hex : ∃ a ∈ m.nodeList, ¬ (m.attr a "partition").isSome = true := by
    by_contra hcon
    exact hnc (fun a ha => by by_contra h; exact hcon ⟨a, ha, h⟩)
  obtain ⟨pre, a, post, hsplit, hpre, ha⟩ := exists_first _ _ hex
  unfold Tucan.serialization._labels_by_partition
  rw [listComp_ok _ _ (fun x => some x.2)]
  swap
  · rintro ⟨k, v⟩ _; rfl
  simp only [ok_bind]
  rw [listComp_ok _ _ (fun p => some (p, ([] : List Int)))]
  swap
  · intro p _; rfl
  simp only [ok_bind, pyIter_list, nodesDataKey_snd hm, Contracts.Partition.filterMap_some, pyIter_graph]
  have hperm := hs (mkSet (sorted (m.nodeList.map (attrV m "partition")))).elems
  generalize env.setOrder (mkSet (sorted (m.nodeList.map (attrV m "partition")))).elems = ord at hperm ⊢
  have hmem : ∀ p, p ∈ ord ↔ ∃ a ∈ m.nodeList, cls m a = p := by
    intro p
    rw [hperm.mem_iff]
    simp [mkSet]
  have hnd : ord.Nodup := hperm.nodup_iff.2 (List.nodup_dedup _)
  have hkeys0 : ((ord.map (fun p => (p, ([] : List Int)))).map Prod.fst) = ord := by
    simp [List.map_map, Function.comp_def]
  have hd0 : Dict.ofPairs (ord.map (fun p => (p, ([] : List Int)))) = ⟨ord.map (fun p => (p, ([] : List Int)))⟩ :=
    Dict.ofPairs_of_nodup _ (by rw [hkeys0]; exact hnd)
  rw [hd0]
  generalize hd : (⟨ord.map (fun p => (p, ([] : List Int)))⟩ : Dict Val (List Int)) = d0
  have hk0 : d0.keys = ord := by rw [← hd]; exact hkeys0
  have hamem : a ∈ m.nodeList := by rw [hsplit]; simp
  rw [hsplit, forIn_error _ (fun a d => d.set (cls m a) ((d.get? (cls m a)).getD [] ++ [a]))
    (fun d => ∀ a ∈ m.nodeList, cls m a ∈ d.keys) Err.key pre a post d0]
  · rfl
  · intro b hb d hP
    have hbm : b ∈ m.nodeList := by rw [hsplit]; simp [hb]
    have hcb : (m.attr b "partition").isSome = true := by
      by_contra h; exact hpre b hb h
    obtain ⟨x, hx1, hx2⟩ := Contracts.Partition.nodeAttrs_getItem m b "partition" hcb
    obtain ⟨old, hold⟩ := Dict.exists_get?_of_mem_keys (hP b hbm)
    simp only [hx1, hx2, ok_bind, getItem_valdict, hold, setItem_dict, pyAdd_list, pure_eq_ok, Option.getD_some,
      true_and]
    intro c hc
    rw [Dict.mem_keys_set]; exact Or.inr (hP c hc)
  · intro b hb; rw [hk0, hmem]; exact ⟨b, hb, rfl⟩
  · intro d _
    obtain ⟨x, hx⟩ := Dict.exists_get?_of_mem_keys hamem
    have hnone : x.get? "partition" = Option.none := by
      unfold Graph.attr at ha
      rw [hx] at ha
      simp only [Option.bind_some] at ha
      cases hxx : x.get? "partition" with
      | none => rfl
      | some v => rw [hxx] at ha; exact absurd rfl ha
    have h1 : m.nodeAttrs a = .ok x := by simp [Graph.nodeAttrs, hx]
    rw [h1]
    simp only [ok_bind]
    rw [getItem_attrs, hnone]
    rfl

theorem assign_final_labels_keyError (env : DepEnv) (hs : env.SetLawful) (fuel : Nat) {m : Graph} (hm : m.node.WF)
    (hnc : ¬ Carries m "partition") (pr : List (Val → Val → Bool)) :
    Tucan.serialization._assign_final_labels env fuel m pr = .error Err.key := by
  unfold Tucan.serialization._assign_final_labels
  simp only [labels_by_partition_keyError env hs hm hnc, error_bind]

/-- exactness of the precondition: for a well-formed graph and enough fuel, `_assign_final_labels` succeeds
if and only if every node carries a `partition` attribute (of any value: the model compares all values) -/
theorem assign_final_labels_total_iff (env : DepEnv) (hs : env.SetLawful) (fuel : Nat) {m : Graph} (hm : m.WF)
    (hf : fuel ≥ fuelBound m) :
    (∃ r m', Tucan.serialization._assign_final_labels env fuel m prios = .ok (r, m')) ↔ Carries m "partition" := by
  constructor
  · rintro ⟨r, m', h⟩
    by_contra hnc
    rw [assign_final_labels_keyError env hs fuel hm.node_wf hnc] at h
    cases h
  · exact fun hc => assign_final_labels_total env hs fuel hm hc hf


end Contracts.FinalLabels

#print axioms Contracts.FinalLabels.labels_by_partition_ok
#print axioms Contracts.FinalLabels.assign_final_labels_frame
#print axioms Contracts.FinalLabels.serialize_molecule_frame
#print axioms Contracts.FinalLabels.serialize_molecule_repeat
#print axioms Contracts.FinalLabels.assign_final_labels_explored_irrelevant
#print axioms Contracts.FinalLabels.serialize_molecule_explored_irrelevant
#print axioms Contracts.FinalLabels.assign_final_labels_spec
#print axioms Contracts.FinalLabels.assign_final_labels_fuel_mono
#print axioms Contracts.FinalLabels.assign_final_labels_ok
#print axioms Contracts.FinalLabels.assign_final_labels_total
#print axioms Contracts.FinalLabels.assign_final_labels_relabel
#print axioms Contracts.FinalLabels.assign_final_labels_order_independent
#print axioms Contracts.FinalLabels.serialize_molecule_fuel_indep
#print axioms Contracts.FinalLabels.serialize_molecule_first_line
#print axioms Contracts.FinalLabels.assign_final_labels_total_iff
