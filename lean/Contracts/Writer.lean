/-
Contracts.Writer — the V3000 molfile writer (`tucan/io/molfile_writer.py`), property C09:
the text produced from a molecule graph is a well-formed V3000 file with no physical line longer than
79 characters (80 with the newline), and the V3000 reader reads back the same atoms and bonds.

Spec functions (`atomLogical`, `bondLogical`, `logicalLines`, `header`, `fileLines`) are written from
the CTfile V3000 format text; `wrap` / `splice` / `tokens` come from Contracts.V30Line, the abstract
atom / bond lines and their meaning from Contracts.V3000.

Main theorems:
* writer contracts `_add_header_ok`, `_add_atom_block_ok` (+ `_add_atom_block_keyError`), `_add_bond_block_ok`,
  `graph_to_molfile_ok` (total correctness for every fuel ≥ longest logical line / 71 + 1);
* `C09_line_length` (every physical line ≤ 79 characters), `C09_split_lines` / `C09_splitlines`
  (`split("\n")` / `splitlines()` of the text are exactly the physical lines);
* `C09_splice` (the reader's tokenizer undoes the wrapping, for every line length);
* `C09_atom_roundtrip`, `C09_bond_roundtrip` (line level), `C09_file_roundtrip` (reader on the physical lines),
  `C09` (writer + `splitlines` + line length + reader).
-/
import Contracts.V30Line
import Contracts.V3000
import Spec.GraphLemmas
import Mathlib.Data.List.DropRight
set_option autoImplicit false
open Py
open Contracts.V30Line

namespace Contracts.Writer

/-! ## 1. spec: the logical lines of a V3000 connection table -/

/-- an integer-valued optional attribute (charge, radical, isotope mass) -/
def intAttr (attrs : Attrs) (k : String) : Option Int :=
  match attrs.get? k with
  | some (Val.int i) => some i
  | _ => none

/-- a coordinate attribute, default 0 -/
def coord (attrs : Attrs) (k : String) : Val := (attrs.get? k).getD (Val.int 0)

/-- the element symbol as text -/
def symbolOf (attrs : Attrs) : Str :=
  match attrs.get? "element_symbol" with
  | some v => pyStr v
  | none => []

/-- ` CHG=c` for a charge `c` with `0 < |c| ≤ 15` -/
def chgField (attrs : Attrs) : Str :=
  match intAttr attrs "chg" with
  | some c => if c ≠ 0 ∧ -15 ≤ c ∧ c ≤ 15 then py!" CHG=" ++ pyStrInt c else []
  | none => []

/-- ` RAD=r` for `1 ≤ r ≤ 3` -/
def radField (attrs : Attrs) : Str :=
  match intAttr attrs "rad" with
  | some r => if 1 ≤ r ∧ r ≤ 3 then py!" RAD=" ++ pyStrInt r else []
  | none => []

/-- ` MASS=m` for `m > 0` -/
def massField (attrs : Attrs) : Str :=
  match intAttr attrs "mass" with
  | some m => if 0 < m then py!" MASS=" ++ pyStrInt m else []
  | none => []

/-- atom line `index type x y z aamap [CHG=] [RAD=] [MASS=]` (1-based index, no atom-atom mapping) -/
def atomLogical (env : DepEnv) (p : Int × Attrs) : Str :=
  pyStrInt (p.1 + 1) ++ py!" " ++ symbolOf p.2 ++ py!" " ++ env.fmt6 (coord p.2 "x_coord") ++ py!" " ++
    env.fmt6 (coord p.2 "y_coord") ++ py!" " ++ env.fmt6 (coord p.2 "z_coord") ++ py!" 0" ++
    chgField p.2 ++ radField p.2 ++ massField p.2

/-- the bond type as text, default 1 -/
def bondTypeOf (attrs : Attrs) : Str := pyStr ((attrs.get? "bond_type").getD (Val.int 1))

/-- bond line `index type atom1 atom2` (1-based atom numbers) -/
def bondLogical (p : Int × Int × Int × Attrs) : Str :=
  pyStrInt p.1 ++ py!" " ++ bondTypeOf p.2.2.2 ++ py!" " ++ pyStrInt (p.2.1 + 1) ++ py!" " ++ pyStrInt (p.2.2.1 + 1)

/-- number the items of a list from 1 -/
def numbered {α} (l : List α) : List (Int × α) := l.zipIdx.map (fun p => ((p.2 : Int) + 1, p.1))

def atomLines (env : DepEnv) (g : Graph) : List Str := g.nodesData.map (atomLogical env)
def bondLines (g : Graph) : List Str := (numbered g.edgesData).map bondLogical

def countsLine (n m : Nat) : Str :=
  py!"COUNTS " ++ pyStrInt n ++ py!" " ++ pyStrInt m ++ py!" 0 0 0"

/-- the bond block is omitted when there are no bonds -/
def bondBlock (g : Graph) : List Str :=
  if g.edgesData.length = 0 then [] else [py!"BEGIN BOND"] ++ bondLines g ++ [py!"END BOND"]

/-- the logical (unwrapped, without `M  V30 `) lines of the connection table -/
def logicalLines (env : DepEnv) (g : Graph) : List Str :=
  [py!"BEGIN CTAB", countsLine g.nodesData.length g.edgesData.length, py!"BEGIN ATOM"] ++ atomLines env g ++
    [py!"END ATOM"] ++ bondBlock g ++ [py!"END CTAB"]

/-- program name field: `TUCAN` and the first three characters of the version without dots, blank-padded -/
def progName (env : DepEnv) : Str :=
  py!"TUCAN" ++ padRight ((replaceAll env.version py!"." py!"").take 3) 3 ' '

/-- header block: molecule name, program/timestamp/dimension line, comment, V3000 counts line -/
def header (env : DepEnv) : List Str :=
  [py!"", py!"  " ++ progName env ++ env.nowStamp ++ py!"3D", py!"", py!"  0  0  0     0  0            999 V3000"]

/-- all physical lines of the file -/
def fileLines (env : DepEnv) (g : Graph) : List Str :=
  header env ++ (logicalLines env g).flatMap wrap ++ [py!"M  END"]

/-- every node carries an element symbol (otherwise the writer raises `KeyError`) and the isotope
mass, if present, is an integer -/
def NodeOk (attrs : Attrs) : Prop :=
  attrs.contains "element_symbol" = true ∧ (∀ v, attrs.get? "mass" = some v → ∃ m : Int, v = Val.int m)

/-! ## 2. contracts of the writer functions -/

theorem slice_0_take {α} (l : List α) (k : Nat) : slice l (some (0 : Int)) (some (k : Int)) = l.take k := by
  have h : ¬ ((k : Int) < 0) := by omega
  simp [slice, clampIndex, h, take_min_length]

theorem _add_header_ok (env : DepEnv) (lines : List Str) :
    Tucan.molfile_writer._add_header env lines = .ok (lines ++ header env) := by
  unfold Tucan.molfile_writer._add_header header progName
  have := slice_0_take (replaceAll env.version py!"." py!"") 3
  simp only [Nat.cast_ofNat] at this
  simp [pyStr, this]

/-- a `for` loop whose body appends the wrapped line `f x` -/
theorem forIn_wrap_loop {α : Type} (f : α → Str) (body : α → List Str → M (ForInStep (List Str))) (xs : List α)
    (hbody : ∀ x ∈ xs, ∀ lines, body x lines = .ok (.yield (lines ++ wrap (f x)))) :
    ∀ lines, forIn xs lines body = .ok (lines ++ (xs.map f).flatMap wrap) := by
  induction xs with
  | nil => intro lines; simp
  | cons x xs ih =>
    intro lines
    rw [List.forIn_cons, hbody x (by simp) lines]
    simp only [Py.ok_bind]
    rw [ih (fun y hy => hbody y (by simp [hy]))]
    simp

theorem truthy_false : truthy false = false := rfl

theorem chgField_eq (attrs : Attrs) :
    (if (truthy (Dict.get? attrs "chg") && (pyLe (-15 : Int) (Dict.get? attrs "chg") && pyLe (Dict.get? attrs "chg") (15 : Int))) = true
      then py!" CHG=" ++ pyStr (Dict.get? attrs "chg") else py!"") = chgField attrs := by
  unfold chgField intAttr
  rcases Dict.get? attrs "chg" with _ | ⟨⟨_ | b | i | f | s⟩ | l⟩
  all_goals simp [truthy, pyLe, PyCmp.gt, pyGt, POrd.lt, Val.lt, Sc.lt, Sc.tag, pyStr]

theorem radField_eq (attrs : Attrs) :
    (if (truthy (Dict.get? attrs "rad") && (pyLt (0 : Int) (Dict.get? attrs "rad") && pyLe (Dict.get? attrs "rad") (3 : Int))) = true
      then py!" RAD=" ++ pyStr (Dict.get? attrs "rad") else py!"") = radField attrs := by
  unfold radField intAttr
  rcases Dict.get? attrs "rad" with _ | ⟨⟨_ | b | i | f | s⟩ | l⟩
  all_goals simp [truthy, pyLe, pyLt, PyCmp.lt, PyCmp.gt, pyGt, POrd.lt, Val.lt, Sc.lt, Sc.tag, pyStr]
  all_goals (congr 1; apply propext; constructor <;> intro h <;> omega)

theorem massField_eq (attrs : Attrs) (h : ∀ v, attrs.get? "mass" = some v → ∃ m : Int, v = Val.int m) :
    (if (truthy (Dict.get? attrs "mass") && pyGt (Dict.get? attrs "mass") (0 : Int)) = true
      then py!" MASS=" ++ pyStr (Dict.get? attrs "mass") else py!"") = massField attrs := by
  unfold massField intAttr
  rcases hm : Dict.get? attrs "mass" with _ | v
  · simp [truthy, pyGt, PyCmp.gt]
  · obtain ⟨m, rfl⟩ := h v hm
    simp [truthy, PyCmp.gt, pyGt, POrd.lt, Val.lt, Sc.lt, pyStr]
    congr 1; apply propext; constructor <;> intro h <;> omega

theorem _add_atom_block_ok (env : DepEnv) (fuel : Nat) (lines : List Str) (g : Graph)
    (hn : ∀ p ∈ g.nodesData, NodeOk p.2)
    (hf : ∀ l ∈ [py!"BEGIN ATOM"] ++ atomLines env g ++ [py!"END ATOM"], l.length / 71 + 1 ≤ fuel) :
    Tucan.molfile_writer._add_atom_block env fuel lines g false =
      .ok (lines ++ ([py!"BEGIN ATOM"] ++ atomLines env g ++ [py!"END ATOM"]).flatMap wrap) := by
  unfold Tucan.molfile_writer._add_atom_block
  simp only [truthy_false, Bool.false_eq_true, if_false]
  rw [add_v30_line_ok env fuel lines _ (hf _ (by simp))]
  simp only [Py.ok_bind, pyIter_list]
  rw [forIn_wrap_loop (atomLogical env)]
  · rw [Py.ok_bind, add_v30_line_ok env fuel _ _ (hf _ (by simp))]
    simp [atomLines]
  · rintro ⟨index, attrs⟩ hx lines
    obtain ⟨hsym, hmass⟩ := hn _ hx
    simp only [chgField_eq, radField_eq, massField_eq attrs hmass]
    have hget : ∃ v, Dict.get? attrs "element_symbol" = some v := by
      simpa [Dict.contains, Option.isSome_iff_exists] using hsym
    obtain ⟨v, hv⟩ := hget
    have hgi : (getItem attrs "element_symbol" : M Val) = .ok v := by
      simp [getItem, toKey, hv]
    simp only [hgi, Py.ok_bind, Py.pure_eq_ok]
    have key : ∀ l, l = atomLogical env (index, attrs) →
        (Tucan.molfile_writer._add_v30_line env fuel lines l >>= fun lines_2 => pure (ForInStep.yield lines_2)) =
          (.ok (ForInStep.yield (lines ++ wrap (atomLogical env (index, attrs)))) : M _) := by
      intro l hl
      rw [hl, add_v30_line_ok env fuel lines _ (hf _ (by simp [atomLines]; exact Or.inr (Or.inl ⟨_, _, hx, rfl⟩)))]
      rfl
    apply key
    simp [atomLogical, symbolOf, hv, coord, pyStr, toVal, Dict.getD]

/-- a `for` loop that appends wrapped lines until its body raises -/
theorem forIn_wrap_loop_error {α : Type} (f : α → Str) (body : α → List Str → M (ForInStep (List Str)))
    (pre : List α) (x : α) (post : List α) (e : Err)
    (hbody : ∀ y ∈ pre, ∀ lines, body y lines = .ok (.yield (lines ++ wrap (f y))))
    (hx : ∀ lines, body x lines = .error e) :
    ∀ lines, forIn (pre ++ x :: post) lines body = .error e := by
  induction pre with
  | nil => intro lines; rw [List.nil_append, List.forIn_cons, hx]; rfl
  | cons y pre ih =>
    intro lines
    rw [List.cons_append, List.forIn_cons, hbody y (by simp) lines]
    simp only [Py.ok_bind]
    exact ih (fun z hz => hbody z (by simp [hz])) _

/-- the precondition of `_add_atom_block_ok` is necessary: the first node without an element symbol
makes the writer raise `KeyError` -/
theorem _add_atom_block_keyError (env : DepEnv) (fuel : Nat) (lines : List Str) (g : Graph)
    (pre post : List (Int × Attrs)) (p : Int × Attrs) (hsplit : g.nodesData = pre ++ p :: post)
    (hpre : ∀ q ∈ pre, NodeOk q.2) (hp : p.2.contains "element_symbol" = false)
    (hf : ∀ l ∈ [py!"BEGIN ATOM"] ++ pre.map (atomLogical env), l.length / 71 + 1 ≤ fuel) :
    Tucan.molfile_writer._add_atom_block env fuel lines g false = .error .key := by
  unfold Tucan.molfile_writer._add_atom_block
  simp only [truthy_false, Bool.false_eq_true, if_false]
  rw [add_v30_line_ok env fuel lines _ (hf _ (by simp))]
  simp only [Py.ok_bind, pyIter_list, hsplit]
  rw [forIn_wrap_loop_error (atomLogical env) _ pre p post .key]
  · rfl
  · rintro ⟨index, attrs⟩ hx lines
    obtain ⟨hsym, hmass⟩ := hpre _ hx
    simp only [chgField_eq, radField_eq, massField_eq attrs hmass]
    have hget : ∃ v, Dict.get? attrs "element_symbol" = some v := by
      simpa [Dict.contains, Option.isSome_iff_exists] using hsym
    obtain ⟨v, hv⟩ := hget
    have hgi : (getItem attrs "element_symbol" : M Val) = .ok v := by
      simp [getItem, toKey, hv]
    simp only [hgi, Py.ok_bind, Py.pure_eq_ok]
    have key : ∀ l, l = atomLogical env (index, attrs) →
        (Tucan.molfile_writer._add_v30_line env fuel lines l >>= fun lines_2 => pure (ForInStep.yield lines_2)) =
          (.ok (ForInStep.yield (lines ++ wrap (atomLogical env (index, attrs)))) : M _) := by
      intro l hl
      rw [hl, add_v30_line_ok env fuel lines _ (hf _ (by simp; exact Or.inr ⟨_, _, hx, rfl⟩))]
      rfl
    apply key
    simp [atomLogical, symbolOf, hv, coord, pyStr, toVal, Dict.getD]
  · intro lines
    have hgi : (getItem p.2 "element_symbol" : M Val) = .error .key := by
      have : Dict.get? p.2 "element_symbol" = none := by
        simpa [Dict.contains] using hp
      simp [getItem, toKey, this]
    simp only [hgi, Py.ok_bind, Py.pure_eq_ok, Py.error_bind]

theorem enumerate_cons {α} (a : α) (l : List α) (s : Int) : enumerate (a :: l) s = (s, a) :: enumerate l (s + 1) := by
  simp only [enumerate, List.length_cons, List.range_succ_eq_map, List.map_cons, List.zip_cons_cons, List.map_map]
  congr 2
  · simp
  · apply List.map_congr_left
    intro i _
    simp only [Function.comp, Int.ofNat_eq_natCast]
    push_cast; omega

theorem enumerate_eq_zipIdx {α} (l : List α) : ∀ k : Nat,
    enumerate l ((k : Int) + 1) = (l.zipIdx k).map (fun p => ((p.2 : Int) + 1, p.1)) := by
  induction l with
  | nil => intro k; simp [enumerate]
  | cons a l ih =>
    intro k
    rw [enumerate_cons, List.zipIdx_cons, List.map_cons]
    have := ih (k + 1)
    push_cast at this
    rw [this]

theorem enumerate_one {α} (l : List α) : enumerate l 1 = numbered l := by
  have := enumerate_eq_zipIdx l 0
  simpa [numbered] using this

theorem _add_bond_block_ok (env : DepEnv) (fuel : Nat) (lines : List Str) (g : Graph)
    (hf : ∀ l ∈ bondBlock g, l.length / 71 + 1 ≤ fuel) :
    Tucan.molfile_writer._add_bond_block env fuel lines g = .ok (lines ++ (bondBlock g).flatMap wrap) := by
  unfold Tucan.molfile_writer._add_bond_block
  by_cases hm : g.edgesData.length = 0
  · have : pyEq (Graph.numberOfEdges g) (0 : Int) = true := by
      simp [pyEq, PyCmp.eq, Graph.numberOfEdges, hm]
    simp [this, bondBlock, hm]
  · have : pyEq (Graph.numberOfEdges g) (0 : Int) = false := by
      simp [pyEq, PyCmp.eq, Graph.numberOfEdges, hm]
    have hbb : bondBlock g = [py!"BEGIN BOND"] ++ bondLines g ++ [py!"END BOND"] := by simp [bondBlock, hm]
    rw [hbb] at hf ⊢
    simp only [this, Bool.false_eq_true, if_false]
    rw [add_v30_line_ok env fuel lines _ (hf _ (by simp))]
    simp only [Py.ok_bind, pyIter_list, enumerate_one]
    rw [forIn_wrap_loop bondLogical]
    · rw [Py.ok_bind, add_v30_line_ok env fuel _ _ (hf _ (by simp))]
      simp [bondLines]
    · rintro ⟨k, u, v, attrs⟩ hx lines
      have key : ∀ l, l = bondLogical (k, u, v, attrs) →
          (Tucan.molfile_writer._add_v30_line env fuel lines l >>= fun lines_2 => pure (ForInStep.yield lines_2)) =
            (.ok (ForInStep.yield (lines ++ wrap (bondLogical (k, u, v, attrs)))) : M _) := by
        intro l hl
        rw [hl, add_v30_line_ok env fuel lines _ (hf _ (by simp [bondLines]; exact Or.inr (Or.inl ⟨_, _, _, _, hx, rfl⟩)))]
        rfl
      apply key
      simp [bondLogical, bondTypeOf, pyStr, toVal, Dict.getD]

/-- length of the longest line -/
def maxLen (ls : List Str) : Nat := (ls.map List.length).foldr max 0

theorem le_maxLen {ls : List Str} {l : Str} (h : l ∈ ls) : l.length ≤ maxLen ls := by
  induction ls with
  | nil => simp at h
  | cons a r ih =>
    rcases List.mem_cons.mp h with rfl | h
    · simp [maxLen]
    · have := ih h
      simp only [maxLen, List.map_cons, List.foldr_cons] at this ⊢
      omega

/-- **C09, writer.** With fuel for the longest logical line, the writer returns the header, every
logical line of the connection table wrapped, and `M  END`, joined by newlines. -/
theorem graph_to_molfile_ok' (env : DepEnv) (fuel : Nat) (g : Graph)
    (hn : ∀ p ∈ g.nodesData, NodeOk p.2)
    (hf : ∀ l ∈ logicalLines env g, l.length / 71 + 1 ≤ fuel) :
    Tucan.molfile_writer.graph_to_molfile env fuel g false = .ok (join py!"\n" (fileLines env g)) := by
  unfold Tucan.molfile_writer.graph_to_molfile
  have hcounts : py!"COUNTS " ++ pyStr (Graph.numberOfNodes g) ++ py!" " ++ pyStr (Graph.numberOfEdges g) ++ py!" 0 0 0" =
      countsLine g.nodesData.length g.edgesData.length := by
    simp [countsLine, pyStr, Graph.numberOfNodes, Graph.numberOfEdges, Graph.nodesData]
  simp only [_add_header_ok, Py.ok_bind, hcounts]
  rw [add_v30_line_ok env fuel _ _ (hf _ (by simp [logicalLines]))]
  simp only [Py.ok_bind]
  rw [add_v30_line_ok env fuel _ _ (hf _ (by simp [logicalLines]))]
  simp only [Py.ok_bind]
  rw [_add_atom_block_ok env fuel _ g hn (fun l hl => hf l (by
    simp only [logicalLines, List.mem_append, List.mem_cons, List.not_mem_nil, or_false] at hl ⊢; tauto))]
  simp only [Py.ok_bind]
  rw [_add_bond_block_ok env fuel _ g (fun l hl => hf l (by
    simp only [logicalLines, List.mem_append]; tauto))]
  simp only [Py.ok_bind]
  rw [add_v30_line_ok env fuel _ _ (hf _ (by simp [logicalLines]))]
  simp [fileLines, logicalLines, List.flatMap_append]

theorem graph_to_molfile_ok (env : DepEnv) (fuel : Nat) (g : Graph)
    (hn : ∀ p ∈ g.nodesData, NodeOk p.2)
    (hf : maxLen (logicalLines env g) / 71 + 1 ≤ fuel) :
    Tucan.molfile_writer.graph_to_molfile env fuel g false = .ok (join py!"\n" (fileLines env g)) :=
  graph_to_molfile_ok' env fuel g hn (fun l hl => by
    have := le_maxLen hl
    have : l.length / 71 ≤ maxLen (logicalLines env g) / 71 := Nat.div_le_div_right this
    omega)

/-! ## 3. C09: line length, and the text splits back into the physical lines -/

theorem length_progName (env : DepEnv) : (progName env).length = 8 := by
  simp only [progName, padRight, List.length_append, List.length_replicate, List.length_take, List.length_cons,
    List.length_nil]
  omega

theorem header_length_le (env : DepEnv) (hstamp : env.nowStamp.length ≤ 67) : ∀ p ∈ header env, p.length ≤ 79 := by
  intro p hp
  simp only [header, List.mem_cons, List.not_mem_nil, or_false] at hp
  rcases hp with rfl | rfl | rfl | rfl
  · simp
  · simp only [List.length_append, length_progName]; simp; omega
  · simp
  · simp

/-- **C09, line length.** No physical line of the file is longer than 79 characters (80 with the newline),
whatever the lengths of the logical lines. -/
theorem C09_line_length' (env : DepEnv) (g : Graph) (hstamp : env.nowStamp.length ≤ 67) :
    ∀ p ∈ fileLines env g, p.length ≤ 79 := by
  intro p hp
  simp only [fileLines, List.mem_append, List.mem_flatMap, List.mem_cons, List.not_mem_nil, or_false] at hp
  rcases hp with (hp | ⟨l, _, hp⟩) | rfl
  · exact header_length_le env hstamp p hp
  · exact wrap_length_le l p hp
  · simp

theorem C09_line_length (env : DepEnv) (g : Graph) (hstamp : env.nowStamp.length = 10) :
    ∀ p ∈ fileLines env g, p.length ≤ 79 :=
  C09_line_length' env g (by omega)

/-! ### `split` on a one-character separator undoes `join` -/

/-- `s.split(c)` by structural recursion -/
def splitC (c : Char) : Str → Str → List Str
  | [], cur => [cur.reverse]
  | d :: ds, cur => if d = c then cur.reverse :: splitC c ds [] else splitC c ds (d :: cur)

theorem splitOnAux_eq_splitC (c : Char) (s : Str) : ∀ (fuel : Nat) (cur : Str), s.length ≤ fuel →
    splitOnAux [c] fuel s cur = splitC c s cur := by
  induction s with
  | nil => intro fuel cur _; cases fuel <;> simp [splitOnAux, splitC]
  | cons d ds ih =>
    intro fuel cur hf
    cases fuel with
    | zero => simp at hf
    | succ fuel =>
      simp only [List.length_cons, Nat.add_le_add_iff_right] at hf
      by_cases hd : d = c
      · subst hd
        simp [splitOnAux, splitC, ih fuel [] hf]
      · have hd' : ¬ c = d := fun e => hd e.symm
        simp [splitOnAux, splitC, hd, hd', ih fuel (d :: cur) hf]

theorem split_eq_splitC (c : Char) (s : Str) : split s [c] = splitC c s [] :=
  splitOnAux_eq_splitC c s _ _ (by omega)

theorem splitC_no (c : Char) (t : Str) (h : c ∉ t) : ∀ cur, splitC c t cur = [cur.reverse ++ t] := by
  induction t with
  | nil => intro cur; simp [splitC]
  | cons d ds ih =>
    intro cur
    have hd : d ≠ c := fun e => h (by simp [e])
    simp [splitC, hd, ih (fun hc => h (by simp [hc]))]

theorem splitC_sep (c : Char) (t rest : Str) (h : c ∉ t) : ∀ cur,
    splitC c (t ++ c :: rest) cur = (cur.reverse ++ t) :: splitC c rest [] := by
  induction t with
  | nil => intro cur; simp [splitC]
  | cons d ds ih =>
    intro cur
    have hd : d ≠ c := fun e => h (by simp [e])
    simp [splitC, hd, ih (fun hc => h (by simp [hc]))]

theorem join_cons_cons (sep a b : Str) (r : List Str) : join sep (a :: b :: r) = a ++ sep ++ join sep (b :: r) := by
  simp [join, List.intercalate, List.intersperse]

theorem join_singleton (sep a : Str) : join sep [a] = a := by
  simp [join, List.intercalate, List.intersperse]

/-- `c.join(ts).split(c) == ts` for a non-empty list of strings without `c` -/
theorem splitC_join (c : Char) : ∀ (ts : List Str), ts ≠ [] → (∀ t ∈ ts, c ∉ t) → splitC c (join [c] ts) [] = ts
  | [], h, _ => absurd rfl h
  | [a], _, h => by rw [join_singleton, splitC_no c a (h a (by simp))]; simp
  | a :: b :: r, _, h => by
    rw [join_cons_cons, List.append_assoc, List.singleton_append, splitC_sep c a _ (h a (by simp)),
      splitC_join c (b :: r) (by simp) (fun t ht => h t (by simp [ht]))]
    simp

theorem split_join (c : Char) (ts : List Str) (hne : ts ≠ []) (h : ∀ t ∈ ts, c ∉ t) : split (join [c] ts) [c] = ts := by
  rw [split_eq_splitC, splitC_join c ts hne h]

/-! ### which characters occur in the file -/

theorem pyStrInt_eq (n : Int) :
    pyStrInt n = if 0 ≤ n then Nat.toDigits 10 n.toNat else '-' :: Nat.toDigits 10 (-n).toNat := by
  unfold pyStrInt
  rw [Int.toString_eq_repr, Int.repr_eq_if]
  split <;> simp

theorem mem_pyStrInt (n : Int) : ∀ c ∈ pyStrInt n, c.isDigit = true ∨ c = '-' := by
  intro c hc
  rw [pyStrInt_eq] at hc
  split at hc
  · exact Or.inl (Nat.isDigit_of_mem_toDigits (by decide) (by decide) hc)
  · rcases List.mem_cons.mp hc with rfl | hc
    · exact Or.inr rfl
    · exact Or.inl (Nat.isDigit_of_mem_toDigits (by decide) (by decide) hc)

/-- a string without any character at which `str.splitlines()` breaks a line (`\n`, `\r`, `\x0b`,
`\x0c`, `\x1c`–`\x1e`, `\x85`, U+2028, U+2029) -/
def Plain (s : Str) : Prop := ∀ c ∈ s, isLineBreak c = false

instance (s : Str) : Decidable (Plain s) := by unfold Plain; infer_instance

theorem plain_nil : Plain [] := by simp [Plain]

theorem plain_append {a b : Str} (ha : Plain a) (hb : Plain b) : Plain (a ++ b) := by
  intro c hc
  rcases List.mem_append.mp hc with h | h
  · exact ha c h
  · exact hb c h

theorem Plain.nl {s : Str} (h : Plain s) : '\n' ∉ s := fun hc => absurd (h _ hc) (by decide)

theorem lineBreak_not_digit (c : Char) (h : c.isDigit = true ∨ c = '-') : isLineBreak c = false := by
  by_contra hb
  rw [Bool.not_eq_false] at hb
  unfold isLineBreak at hb
  simp only [decide_eq_true_eq] at hb
  rcases hb with rfl|rfl|rfl|rfl|rfl|rfl|rfl|rfl|rfl|rfl <;> revert h <;> decide

theorem plain_pyStrInt (n : Int) : Plain (pyStrInt n) :=
  fun c hc => lineBreak_not_digit c (mem_pyStrInt n c hc)

theorem mem_wrap (l : Str) : ∀ p ∈ wrap l, ∀ c ∈ p, c ∈ v30 ∨ c ∈ l ∨ c = '-' := by
  induction l using wrap.induct with
  | case1 l h =>
    intro p hp c hc
    rw [wrap_of_le h] at hp
    simp only [List.mem_singleton] at hp; subst hp
    rcases List.mem_append.mp hc with hc | hc
    · exact Or.inl hc
    · exact Or.inr (Or.inl hc)
  | case2 l h ih =>
    intro p hp c hc
    rw [wrap_of_gt h] at hp
    rcases List.mem_cons.mp hp with rfl | hp
    · simp only [List.mem_append, List.mem_singleton] at hc
      rcases hc with (hc | hc) | hc
      · exact Or.inl hc
      · exact Or.inr (Or.inl (List.mem_of_mem_take hc))
      · exact Or.inr (Or.inr hc)
    · rcases ih p hp c hc with h1 | h1 | h1
      · exact Or.inl h1
      · exact Or.inr (Or.inl (List.mem_of_mem_drop h1))
      · exact Or.inr (Or.inr h1)

theorem mem_replaceAllAux (old new : Str) (c : Char) : ∀ (fuel : Nat) (s : Str),
    c ∈ replaceAllAux old new fuel s → c ∈ s ∨ c ∈ new := by
  intro fuel
  induction fuel with
  | zero => intro s h; exact Or.inl (by simpa [replaceAllAux] using h)
  | succ fuel ih =>
    intro s h
    cases s with
    | nil => simp [replaceAllAux] at h
    | cons d ds =>
      simp only [replaceAllAux] at h
      split at h
      · rcases List.mem_append.mp h with h | h
        · exact Or.inr h
        · rcases ih _ h with h | h
          · exact Or.inl (List.mem_of_mem_drop h)
          · exact Or.inr h
      · rcases List.mem_cons.mp h with rfl | h
        · exact Or.inl (by simp)
        · rcases ih _ h with h | h
          · exact Or.inl (by simp [h])
          · exact Or.inr h

/-- the header contains no line break if the version string and the time stamp contain none -/
theorem plain_header (env : DepEnv) (hv : Plain env.version) (hs : Plain env.nowStamp) :
    ∀ p ∈ header env, Plain p := by
  have hprog : Plain (progName env) := by
    intro c h
    simp only [progName, padRight, List.mem_append, List.mem_replicate] at h
    rcases h with h | h | h
    · exact (by decide : Plain py!"TUCAN") c h
    · rcases mem_replaceAllAux _ _ _ _ _ (List.mem_of_mem_take h) with h | h
      · exact hv c h
      · simp at h
    · rw [h.2]; decide
  intro p hp
  simp only [header, List.mem_cons, List.not_mem_nil, or_false] at hp
  rcases hp with rfl | rfl | rfl | rfl
  · exact plain_nil
  · exact plain_append (plain_append (plain_append (by decide) hprog) hs) (by decide)
  · exact plain_nil
  · decide

/-- the values the writer prints contain no line break: the formatted coordinates, the element symbols
and the bond types (`str()` of an integer never does) -/
structure PlainValues (env : DepEnv) (g : Graph) : Prop where
  fmt6 : ∀ v, Plain (env.fmt6 v)
  sym : ∀ p ∈ g.nodesData, Plain (symbolOf p.2)
  bond : ∀ e ∈ g.edgesData, Plain (bondTypeOf e.2.2)

theorem plain_field (pre : Str) (hpre : Plain pre) (o : Option Int) (P : Int → Prop) [DecidablePred P] :
    Plain (match o with | some c => if P c then pre ++ pyStrInt c else [] | none => []) := by
  cases o with
  | none => exact plain_nil
  | some c =>
    by_cases h : P c
    · simp only [h, if_true]; exact plain_append hpre (plain_pyStrInt c)
    · simp only [h, if_false]; exact plain_nil

theorem plain_atomLogical (env : DepEnv) (p : Int × Attrs) (hfmt : ∀ v, Plain (env.fmt6 v))
    (hsym : Plain (symbolOf p.2)) : Plain (atomLogical env p) := by
  have h1 := plain_field py!" CHG=" (by decide) (intAttr p.2 "chg") (fun c => c ≠ 0 ∧ -15 ≤ c ∧ c ≤ 15)
  have h2 := plain_field py!" RAD=" (by decide) (intAttr p.2 "rad") (fun c => 1 ≤ c ∧ c ≤ 3)
  have h3 := plain_field py!" MASS=" (by decide) (intAttr p.2 "mass") (fun c => 0 < c)
  have hb : Plain py!" " := by decide
  have h0 : Plain py!" 0" := by decide
  exact plain_append (plain_append (plain_append (plain_append (plain_append (plain_append (plain_append (plain_append
    (plain_append (plain_append (plain_append (plain_append (plain_pyStrInt _) hb) hsym) hb) (hfmt _)) hb) (hfmt _)) hb)
    (hfmt _)) h0) h1) h2) h3

theorem plain_bondLogical (p : Int × Int × Int × Attrs) (hb : Plain (bondTypeOf p.2.2.2)) : Plain (bondLogical p) := by
  have hsp : Plain py!" " := by decide
  exact plain_append (plain_append (plain_append (plain_append (plain_append (plain_append (plain_pyStrInt _) hsp) hb) hsp)
    (plain_pyStrInt _)) hsp) (plain_pyStrInt _)

theorem mem_numbered {α} (l : List α) (p : Int × α) (h : p ∈ numbered l) : p.2 ∈ l := by
  simp only [numbered, List.mem_map] at h
  obtain ⟨q, hq, rfl⟩ := h
  have h := (List.mem_zipIdx' hq).2
  rw [h]; exact List.getElem_mem _

theorem plain_logicalLines (env : DepEnv) (g : Graph) (h : PlainValues env g) :
    ∀ l ∈ logicalLines env g, Plain l := by
  intro l hl
  simp only [logicalLines, List.mem_append, List.mem_cons, List.not_mem_nil, or_false] at hl
  rcases hl with ((((rfl | rfl | rfl) | hl) | rfl) | hl) | rfl
  · decide
  · exact plain_append (plain_append (plain_append (plain_append (by decide) (plain_pyStrInt _)) (by decide))
      (plain_pyStrInt _)) (by decide)
  · decide
  · simp only [atomLines, List.mem_map] at hl
    obtain ⟨p, hp, rfl⟩ := hl
    exact plain_atomLogical env p h.fmt6 (h.sym p hp)
  · decide
  · unfold bondBlock at hl
    split at hl
    · simp at hl
    · simp only [List.mem_append, List.mem_cons, List.not_mem_nil, or_false, bondLines, List.mem_map] at hl
      rcases hl with (rfl | ⟨p, hp, rfl⟩) | rfl
      · decide
      · exact plain_bondLogical p (h.bond p.2 (mem_numbered _ p hp))
      · decide
  · decide

theorem plain_fileLines (env : DepEnv) (g : Graph) (hv : Plain env.version) (hs : Plain env.nowStamp)
    (h : PlainValues env g) : ∀ p ∈ fileLines env g, Plain p := by
  intro p hp
  simp only [fileLines, List.mem_append, List.mem_flatMap, List.mem_cons, List.not_mem_nil, or_false] at hp
  rcases hp with (hp | ⟨l, hl, hp⟩) | rfl
  · exact plain_header env hv hs p hp
  · intro c hc
    rcases mem_wrap l p hp _ hc with h1 | h1 | h1
    · exact (by decide : Plain v30) c h1
    · exact plain_logicalLines env g h l hl c h1
    · rw [h1]; decide
  · decide

/-- **C09, physical lines (`split`).** Splitting the produced text at newlines gives back exactly the
physical lines `fileLines` (so `C09_line_length` speaks about the lines of the file). -/
theorem C09_split_lines (env : DepEnv) (g : Graph) (hv : Plain env.version) (hs : Plain env.nowStamp)
    (h : PlainValues env g) : split (join py!"\n" (fileLines env g)) py!"\n" = fileLines env g :=
  split_join '\n' (fileLines env g) (by simp [fileLines]) (fun p hp => (plain_fileLines env g hv hs h p hp).nl)

/-! ### `splitlines` (what the reader uses) undoes `"\n".join` as well -/

theorem splitlinesAux_plain (t : Str) (ht : Plain t) : ∀ (rest cur : Str),
    splitlinesAux (t ++ rest) cur = splitlinesAux rest (t.reverse ++ cur) := by
  induction t with
  | nil => intro rest cur; rfl
  | cons c t ih =>
    intro rest cur
    have hc : isLineBreak c = false := ht c (by simp)
    have hr : c ≠ '\r' := by rintro rfl; exact absurd hc (by decide)
    rw [List.cons_append, splitlinesAux]
    · simp only [hc, Bool.false_eq_true, if_false]
      rw [ih (fun d hd => ht d (by simp [hd]))]
      simp
    · intro cs h _; exact hr h

theorem splitlinesAux_nl (rest cur : Str) : splitlinesAux ('\n' :: rest) cur = cur.reverse :: splitlinesAux rest [] := by
  rw [splitlinesAux]
  · simp [isLineBreak]
  · intro cs h; exact absurd h (by decide)

/-- `"\n".join(ls).splitlines() == ls` for lines without line-break characters, the last one non-empty -/
theorem splitlines_join : ∀ (ls : List Str), (∀ l ∈ ls, Plain l) → (∀ l, ls.getLast? = some l → l ≠ []) →
    splitlinesAux (join py!"\n" ls) [] = ls
  | [], _, _ => by simp [join, splitlinesAux]
  | [a], hp, hl => by
    have ha : a ≠ [] := hl a (by simp)
    rw [join_singleton]
    have := splitlinesAux_plain a (hp a (by simp)) [] []
    simp only [List.append_nil] at this
    rw [this]
    simp [splitlinesAux, ha]
  | a :: b :: r, hp, hl => by
    rw [join_cons_cons, List.append_assoc, splitlinesAux_plain a (hp a (by simp)), List.singleton_append, splitlinesAux_nl,
      splitlines_join (b :: r) (fun l h => hp l (by simp [h])) (fun l h => hl l (by simpa using h))]
    simp

/-- **C09, physical lines (`splitlines`).** The reader's `splitlines()` gives back exactly the physical
lines `fileLines`. -/
theorem C09_splitlines (env : DepEnv) (g : Graph) (hv : Plain env.version) (hs : Plain env.nowStamp)
    (h : PlainValues env g) : splitlines (join py!"\n" (fileLines env g)) = fileLines env g :=
  splitlines_join _ (plain_fileLines env g hv hs h) (by simp [fileLines])

/-! ## 4. C09: the reader's splicing undoes the wrapping -/

/-- "does not end in `d`" is preserved by appending such strings -/
theorem getLast?_append_ne (d : Char) (a b : Str) (ha : a.getLast? ≠ some d) (hb : b.getLast? ≠ some d) :
    (a ++ b).getLast? ≠ some d := by
  rw [List.getLast?_append]
  cases h : b.getLast? with
  | none => simpa using ha
  | some c => rw [h] at hb; simpa using hb

theorem getLast?_append_of_ne (d : Char) (a b : Str) (hb : b.getLast? ≠ some d) (hne : b ≠ []) :
    (a ++ b).getLast? ≠ some d := by
  rw [List.getLast?_append]
  cases h : b.getLast? with
  | none => exact absurd (List.getLast?_eq_none_iff.mp h) hne
  | some c => rw [h] at hb; simpa using hb

theorem getLast?_toDigits (d : Char) (hd : d.isDigit = false) (n : Nat) : (Nat.toDigits 10 n).getLast? ≠ some d := by
  intro h
  have hm := List.mem_of_getLast? h
  rw [Nat.isDigit_of_mem_toDigits (by decide) (by decide) hm] at hd
  cases hd

theorem pyStrInt_ne_nil (n : Int) : pyStrInt n ≠ [] := by
  rw [pyStrInt_eq]; split <;> simp [Nat.toDigits_ne_nil]

/-- `str()` of an integer ends in a digit -/
theorem getLast?_pyStrInt (d : Char) (hd : d.isDigit = false) (n : Int) : (pyStrInt n).getLast? ≠ some d := by
  rw [pyStrInt_eq]
  split
  · exact getLast?_toDigits d hd _
  · rw [List.getLast?_cons_of_ne_nil Nat.toDigits_ne_nil]
    exact getLast?_toDigits d hd _

theorem getLast?_field (d : Char) (hd : d.isDigit = false) (pre : Str) (o : Option Int) (P : Int → Prop) [DecidablePred P] :
    (match o with | some c => if P c then pre ++ pyStrInt c else [] | none => []).getLast? ≠ some d := by
  cases o with
  | none => simp
  | some c =>
    by_cases h : P c
    · simp only [h, if_true]
      exact getLast?_append_of_ne d _ _ (getLast?_pyStrInt d hd c) (pyStrInt_ne_nil c)
    · simp [h]

/-- an atom line ends in the `0` of the atom-atom mapping or in the digits of CHG/RAD/MASS -/
theorem getLast?_atomLogical (d : Char) (hd : d.isDigit = false) (env : DepEnv) (p : Int × Attrs) :
    (atomLogical env p).getLast? ≠ some d := by
  unfold atomLogical
  refine getLast?_append_ne d _ _ (getLast?_append_ne d _ _ (getLast?_append_ne d _ _ ?_ ?_) ?_) ?_
  · rw [List.getLast?_append]
    simp only [List.getLast?_cons_cons, List.getLast?_singleton, Option.some_or, ne_eq, Option.some.injEq]
    rintro rfl; exact absurd hd (by decide)
  · exact getLast?_field d hd _ _ (fun c => c ≠ 0 ∧ -15 ≤ c ∧ c ≤ 15)
  · exact getLast?_field d hd _ _ (fun c => 1 ≤ c ∧ c ≤ 3)
  · exact getLast?_field d hd _ _ (fun c => 0 < c)

theorem getLast?_bondLogical (d : Char) (hd : d.isDigit = false) (p : Int × Int × Int × Attrs) :
    (bondLogical p).getLast? ≠ some d := by
  unfold bondLogical
  exact getLast?_append_of_ne d _ _ (getLast?_pyStrInt d hd _) (pyStrInt_ne_nil _)

/-- no logical line of the connection table ends in a dash (so no physical line is mistaken for a
continued line) -/
theorem getLast?_logicalLines (env : DepEnv) (g : Graph) : ∀ l ∈ logicalLines env g, l.getLast? ≠ some '-' := by
  intro l hl
  simp only [logicalLines, List.mem_append, List.mem_cons, List.not_mem_nil, or_false] at hl
  rcases hl with ((((rfl | rfl | rfl) | hl) | rfl) | hl) | rfl
  · decide
  · unfold countsLine
    exact getLast?_append_of_ne '-' _ _ (by decide) (by decide)
  · decide
  · simp only [atomLines, List.mem_map] at hl
    obtain ⟨p, _, rfl⟩ := hl
    exact getLast?_atomLogical '-' (by decide) env p
  · decide
  · unfold bondBlock at hl
    split at hl
    · simp at hl
    · simp only [List.mem_append, List.mem_cons, List.not_mem_nil, or_false, bondLines, List.mem_map] at hl
      rcases hl with (rfl | ⟨p, _, rfl⟩) | rfl
      · decide
      · exact getLast?_bondLogical '-' (by decide) p
      · decide
  · decide

/-- a line that is not a continued line is passed through -/
theorem splice_cons_plain (l : Str) (rest : List Str) (hne : rest ≠ [])
    (h : (startswith l v30 && endswith l ['-']) = false) :
    splice (l :: rest) = (do let t ← splice rest; pure (l :: t)) := by
  obtain ⟨l₂, r, rfl⟩ := List.exists_cons_of_ne_nil hne
  rw [splice]
  simp [h]

theorem splice_flatMap_wrap (ls : List Str) (rest : List Str) (h : ∀ l ∈ ls, l.getLast? ≠ some '-') :
    splice (ls.flatMap wrap ++ rest) = (do let t ← splice rest; pure (ls.map (fun l => v30 ++ l) ++ t)) := by
  induction ls with
  | nil => simp; cases splice rest <;> rfl
  | cons l ls ih =>
    rw [List.flatMap_cons, List.append_assoc, splice_wrap l _ (h l (by simp)), ih (fun l' hl' => h l' (by simp [hl']))]
    cases splice rest <;> simp

theorem header_not_continued (env : DepEnv) : ∀ p ∈ header env, (startswith p v30 && endswith p ['-']) = false := by
  intro p hp
  simp only [header, List.mem_cons, List.not_mem_nil, or_false] at hp
  rcases hp with rfl | rfl | rfl | rfl
  · decide
  · simp [startswith, v30]
  · decide
  · decide

/-- the spliced lines of the file: header, the logical lines with their `M  V30 ` prefix, `M  END` -/
def splicedLines (env : DepEnv) (g : Graph) : List Str :=
  header env ++ (logicalLines env g).map (fun l => v30 ++ l) ++ [py!"M  END"]

/-- splicing the connection-table part of the file (everything after the four header lines) -/
theorem splice_body (env : DepEnv) (g : Graph) :
    splice ((logicalLines env g).flatMap wrap ++ [py!"M  END"]) =
      .ok ((logicalLines env g).map (fun l => v30 ++ l) ++ [py!"M  END"]) := by
  rw [splice_flatMap_wrap _ _ (getLast?_logicalLines env g)]
  simp [splice]

/-- splicing the whole file would give the same (no header line the writer produces looks like a
continued line); readers that splice from the first line on are served as well -/
theorem splice_fileLines (env : DepEnv) (g : Graph) : splice (fileLines env g) = .ok (splicedLines env g) := by
  have hh := header_not_continued env
  have hbody := splice_body env g
  have hne : (logicalLines env g).flatMap wrap ++ [py!"M  END"] ≠ [] := by simp
  unfold fileLines splicedLines
  rw [List.append_assoc]
  generalize (logicalLines env g).flatMap wrap ++ [py!"M  END"] = body at hbody hne
  simp only [header] at hh ⊢
  simp only [List.cons_append, List.nil_append]
  rw [splice_cons_plain _ _ (by simp) (hh _ (by simp)), splice_cons_plain _ _ (by simp) (hh _ (by simp)),
    splice_cons_plain _ _ (by simp) (hh _ (by simp)), splice_cons_plain _ _ hne (hh _ (by simp)), hbody]
  simp

theorem take4_fileLines (env : DepEnv) (g : Graph) : (fileLines env g).take 4 = header env := by
  simp [fileLines, header]

theorem drop4_fileLines (env : DepEnv) (g : Graph) :
    (fileLines env g).drop 4 = (logicalLines env g).flatMap wrap ++ [py!"M  END"] := by
  simp [fileLines, header]

/-- **C09, splicing.** For every line length (no wrap, one wrap, several wraps) the reader's
tokenizer sees exactly the logical lines the writer was given (the four header lines are tokenized as
they are). -/
theorem C09_splice (env : DepEnv) (g : Graph) (fuel : Nat) (hf : (fileLines env g).length + 1 ≤ fuel) :
    Tucan.molfile_v3000_reader._tokenize_lines env fuel (fileLines env g) =
      .ok ((header env).map tokens ++ (logicalLines env g).map (fun l => tokens (v30 ++ l)) ++ [tokens py!"M  END"]) := by
  rw [tokenize_lines_ok env fuel _ (by rw [List.length_drop]; omega), take4_fileLines, drop4_fileLines, splice_body]
  simp [Function.comp_def]

/-! ## 5. reading the atom and bond lines back

### `int(str(n)) == n` (the lemmas of this subsection are the ones of Contracts.V2000, repeated here so
that the writer's contract does not depend on the V2000 reader) -/

theorem isAsciiDigit_eq (c : Char) : isAsciiDigit c = c.isDigit := by
  unfold isAsciiDigit Char.isDigit
  simp only [Char.le_def, UInt32.le_iff_toNat_le]
  rw [Bool.eq_iff_iff]
  simp

theorem not_space_of_digit (c : Char) (h : c.isDigit = true) : isPySpace c = false := by
  by_contra hs
  rw [Bool.not_eq_false] at hs
  unfold isPySpace at hs
  simp only [decide_eq_true_eq] at hs
  rcases hs with rfl|rfl|rfl|rfl|rfl|rfl|rfl|rfl|rfl|rfl|rfl|rfl <;> exact absurd h (by decide)

theorem rstrip_eq_self (ds : Str) (h : ∀ hne : ds ≠ [], isPySpace (ds.getLast hne) = false) : rstrip ds = ds := by
  unfold rstrip
  have := (List.rdropWhile_eq_self_iff (p := isPySpace) (l := ds)).2 (by simpa using h)
  simpa [List.rdropWhile] using this


theorem digit_ne (c : Char) (h : c.isDigit = true) : c ≠ '-' ∧ c ≠ '+' ∧ c ≠ '_' := by
  refine ⟨?_, ?_, ?_⟩ <;> rintro rfl <;> exact absurd h (by decide)

theorem isInfixOf_uu (ds : Str) (hd : ∀ c ∈ ds, c ≠ '_') : isInfixOf (py!"__") ds = false := by
  unfold isInfixOf
  rw [List.any_eq_false]
  intro t ht
  rw [List.mem_tails] at ht
  cases t with
  | nil => simp
  | cons c t =>
    have : c ∈ ds := ht.subset (by simp)
    have := hd c this
    simp only [List.isPrefixOf]
    intro e
    simp at e
    exact absurd e.1.symm this

/-- the sign split of `parseInt` -/
def signSplit (t : Str) : Bool × Str :=
  match t with
  | '-' :: r => (true, r)
  | '+' :: r => (false, r)
  | r => (false, r)

theorem parseInt_unfold (s : Str) : parseInt s =
    (let p := signSplit (rstrip (s.dropWhile isPySpace))
     let okUnderscores : Bool := p.2.head? ≠ some '_' ∧ p.2.getLast? ≠ some '_' ∧ isInfixOf (py!"__") p.2 = false
     let ds' := p.2.filter (· ≠ '_')
     if ds' = [] ∨ ds'.all isAsciiDigit = false ∨ okUnderscores = false ∨ ds'.length > intMaxStrDigits then throw .value
     else pure (if p.1 then - (digitsToNat ds' : Int) else (digitsToNat ds' : Int))) := by
  rfl

theorem signSplit_minus (r : Str) : signSplit ('-' :: r) = (true, r) := rfl

theorem signSplit_digit (d : Char) (r : Str) (h1 : d ≠ '-') (h2 : d ≠ '+') : signSplit (d :: r) = (false, d :: r) := by
  unfold signSplit
  split
  · rename_i h; simp at h; exact absurd h.1 h1
  · rename_i h; simp at h; exact absurd h.1 h2
  · rfl


theorem digitsToNat_eq (ds : Str) : digitsToNat ds = Nat.ofDigitChars 10 ds 0 := rfl

/-- `int()` of optional blanks, an optional minus sign and a non-empty run of at most 4300 ASCII digits -/
theorem parseInt_digits (neg : Bool) (sp ds : Str) (hsp : ∀ c ∈ sp, isPySpace c = true) (hne : ds ≠ [])
    (hd : ∀ c ∈ ds, c.isDigit = true) (hlen : ds.length ≤ 4300) :
    parseInt (sp ++ (if neg then '-' :: ds else ds)) =
      .ok (if neg then - (digitsToNat ds : Int) else (digitsToNat ds : Int)) := by
  obtain ⟨d, ds', rfl⟩ := List.exists_cons_of_ne_nil hne
  have hd0 := hd d (by simp)
  have hnu : ∀ c ∈ d :: ds', c ≠ '_' := fun c hc => (digit_ne c (hd c hc)).2.2
  have hlast : isPySpace ((d :: ds').getLast (by simp)) = false :=
    not_space_of_digit _ (hd _ (List.getLast_mem _))
  have hfilter : (d :: ds').filter (fun c => decide (c ≠ '_')) = d :: ds' := by
    rw [List.filter_eq_self]; intro c hc; simpa using hnu c hc
  have hall : (d :: ds').all isAsciiDigit = true := by
    rw [List.all_eq_true]; intro c hc; rw [isAsciiDigit_eq]; exact hd c hc
  have hhead : (d :: ds').head? ≠ some '_' := by simpa using hnu d (by simp)
  have hgl : (d :: ds').getLast? ≠ some '_' := by
    rw [List.getLast?_eq_some_getLast (by simp)]
    intro e; injection e with e
    exact hnu _ (List.getLast_mem _) e
  have hinf := isInfixOf_uu (d :: ds') hnu
  have hlen' : ¬ (d :: ds').length > intMaxStrDigits := by unfold intMaxStrDigits; omega
  have hsplit : signSplit (rstrip ((sp ++ (if neg then '-' :: d :: ds' else d :: ds')).dropWhile isPySpace)) =
      (neg, d :: ds') := by
    cases neg
    · have h1 : (sp ++ d :: ds').dropWhile isPySpace = d :: ds' := by
        rw [List.dropWhile_append_of_pos hsp, List.dropWhile_cons_of_neg (by simp [not_space_of_digit d hd0])]
      have h2 : rstrip (d :: ds') = d :: ds' := rstrip_eq_self _ (fun _ => hlast)
      simp only [Bool.false_eq_true, if_false, h1, h2]
      exact signSplit_digit d ds' (digit_ne d hd0).1 (digit_ne d hd0).2.1
    · have h1 : (sp ++ '-' :: d :: ds').dropWhile isPySpace = '-' :: d :: ds' := by
        rw [List.dropWhile_append_of_pos hsp, List.dropWhile_cons_of_neg (by decide)]
      have h2 : rstrip ('-' :: d :: ds') = '-' :: d :: ds' :=
        rstrip_eq_self _ (fun _ => by simpa [List.getLast_cons] using hlast)
      simp only [if_true, h1, h2]
      rfl
  rw [parseInt_unfold]
  simp only [hsplit, hfilter, hall, hinf, hlen']
  simp
  exact ⟨hnu d (by simp), hgl⟩


/-- `int(str(n)) == n`, also with leading blanks (right-aligned fields) -/
theorem parseInt_pyStrInt (sp : Str) (hsp : ∀ c ∈ sp, isPySpace c = true) (n : Int) (hn : n.natAbs < 10 ^ 4300) :
    parseInt (sp ++ pyStrInt n) = .ok n := by
  rw [pyStrInt_eq]
  by_cases h : 0 ≤ n
  · have := parseInt_digits false sp (Nat.toDigits 10 n.toNat) hsp Nat.toDigits_ne_nil
      (fun c hc => Nat.isDigit_of_mem_toDigits (by decide) (by decide) hc)
      ((Nat.length_toDigits_le_iff (by decide) (by decide)).2 (by omega))
    simp only [Bool.false_eq_true, if_false, digitsToNat_eq, Nat.ofDigitChars_ten_toDigits] at this
    rw [if_pos h, this]
    congr 1; omega
  · have := parseInt_digits true sp (Nat.toDigits 10 (-n).toNat) hsp Nat.toDigits_ne_nil
      (fun c hc => Nat.isDigit_of_mem_toDigits (by decide) (by decide) hc)
      ((Nat.length_toDigits_le_iff (by decide) (by decide)).2 (by omega))
    simp only [if_true, digitsToNat_eq, Nat.ofDigitChars_ten_toDigits] at this
    rw [if_neg h, this]
    congr 1; omega

theorem parseInt_pyStrInt' (n : Int) (hn : n.natAbs < 10 ^ 4300) : parseInt (pyStrInt n) = .ok n := by
  simpa using parseInt_pyStrInt [] (by simp) n hn

/-! ### the tokens of a blank-separated line -/

theorem rstrip_eq_self' (s : Str) (h : ∀ c, isPySpace c = true → s.getLast? ≠ some c) : rstrip s = s := by
  apply rstrip_eq_self
  intro hne
  by_contra hc
  rw [Bool.not_eq_false] at hc
  exact h _ hc (List.getLast?_eq_some_getLast hne)

theorem join_append (sep : Str) : ∀ (A B : List Str), A ≠ [] → B ≠ [] →
    join sep (A ++ B) = join sep A ++ sep ++ join sep B
  | [], _, h, _ => absurd rfl h
  | [a], b :: r, _, _ => by rw [List.singleton_append, join_cons_cons, join_singleton]
  | a :: a' :: r, B, _, hB => by
    rw [List.cons_append, List.cons_append, join_cons_cons, ← List.cons_append, join_append sep (a' :: r) B (by simp) hB,
      join_cons_cons]
    simp

/-- the tokens of a blank-joined list of blank-free fields are the non-empty fields -/
theorem tokens_join (ts : List Str) (hne : ts ≠ []) (hsp : ∀ t ∈ ts, ' ' ∉ t)
    (hlast : ∀ c, isPySpace c = true → (join py!" " ts).getLast? ≠ some c) :
    tokens (join py!" " ts) = ts.filter (· ≠ []) := by
  unfold tokens
  rw [rstrip_eq_self' _ hlast, split_join ' ' ts hne hsp]

theorem v30_join (ts : List Str) (hne : ts ≠ []) : v30 ++ join py!" " ts = join py!" " ([py!"M", py!"", py!"V30"] ++ ts) := by
  rw [join_append _ _ _ (by simp) hne]
  simp [v30, join_cons_cons, join_singleton]

theorem space_not_digit (c : Char) (h : isPySpace c = true) : c.isDigit = false := by
  by_contra hd
  rw [Bool.not_eq_false] at hd
  rw [not_space_of_digit c hd] at h
  cases h

theorem blank_not_mem_pyStrInt (n : Int) : ' ' ∉ pyStrInt n := by
  intro h
  rcases mem_pyStrInt n _ h with h | h
  · exact absurd h (by decide)
  · exact absurd h (by decide)

theorem eq_not_mem_pyStrInt (n : Int) : '=' ∉ pyStrInt n := by
  intro h
  rcases mem_pyStrInt n _ h with h | h
  · exact absurd h (by decide)
  · exact absurd h (by decide)

/-- the token of an optional `KEY=value` property -/
def optTok (key : Str) (o : Option Int) (P : Int → Prop) [DecidablePred P] : List Str :=
  match o with
  | some c => if P c then [key ++ pyStrInt c] else []
  | none => []

theorem join_optTok (A : List Str) (hA : A ≠ []) (key : Str) (o : Option Int) (P : Int → Prop) [DecidablePred P] :
    join py!" " (A ++ optTok key o P) =
      join py!" " A ++ (match o with | some c => if P c then (' ' :: key) ++ pyStrInt c else [] | none => []) := by
  cases o with
  | none => simp [optTok]
  | some c =>
    by_cases h : P c
    · simp only [optTok, h, if_true]
      rw [join_append _ _ _ hA (by simp), join_singleton]
      simp
    · simp [optTok, h]

theorem mem_optTok (key : Str) (o : Option Int) (P : Int → Prop) [DecidablePred P] (t : Str) (h : t ∈ optTok key o P) :
    ∃ c, t = key ++ pyStrInt c := by
  cases o with
  | none => simp [optTok] at h
  | some c =>
    by_cases hp : P c
    · simp only [optTok, hp, if_true, List.mem_singleton] at h; exact ⟨c, h⟩
    · simp [optTok, hp] at h

/-- the fields of an atom line -/
def atomFields (env : DepEnv) (p : Int × Attrs) : List Str :=
  [pyStrInt (p.1 + 1), symbolOf p.2, env.fmt6 (coord p.2 "x_coord"), env.fmt6 (coord p.2 "y_coord"),
    env.fmt6 (coord p.2 "z_coord"), py!"0"] ++
  optTok py!"CHG=" (intAttr p.2 "chg") (fun c => c ≠ 0 ∧ -15 ≤ c ∧ c ≤ 15) ++
  optTok py!"RAD=" (intAttr p.2 "rad") (fun c => 1 ≤ c ∧ c ≤ 3) ++
  optTok py!"MASS=" (intAttr p.2 "mass") (fun c => 0 < c)

theorem atomLogical_eq_join (env : DepEnv) (p : Int × Attrs) : atomLogical env p = join py!" " (atomFields env p) := by
  unfold atomFields
  rw [join_optTok _ (by simp), join_optTok _ (by simp), join_optTok _ (by simp)]
  simp only [join_cons_cons, join_singleton]
  simp [atomLogical, chgField, radField, massField]

/-! ### the atom line as the reader sees it -/

open Contracts.V3000 in
/-- the property of an optional value that is written -/
def propOf (key : Str) (w : Option Int) : List Contracts.V3000.Prop' :=
  match w with
  | some c => [⟨key, pyStrInt c, []⟩]
  | none => []

/-- the charge / radical / isotope mass that the format can express and the writer writes -/
def wChg (attrs : Attrs) : Option Int := (intAttr attrs "chg").filter (fun c => decide (c ≠ 0 ∧ -15 ≤ c ∧ c ≤ 15))
def wRad (attrs : Attrs) : Option Int := (intAttr attrs "rad").filter (fun c => decide (1 ≤ c ∧ c ≤ 3))
def wMass (attrs : Attrs) : Option Int := (intAttr attrs "mass").filter (fun c => decide (0 < c))

/-- the abstract V3000 atom line (in the sense of Contracts.V3000) that the writer produces for a node -/
def atomLineOf (env : DepEnv) (p : Int × Attrs) : Contracts.V3000.AtomLine :=
  { idx := pyStrInt (p.1 + 1), sym := symbolOf p.2, x := env.fmt6 (coord p.2 "x_coord"),
    y := env.fmt6 (coord p.2 "y_coord"), z := env.fmt6 (coord p.2 "z_coord"), aamap := py!"0",
    props := propOf py!"CHG" (wChg p.2) ++ propOf py!"RAD" (wRad p.2) ++ propOf py!"MASS" (wMass p.2) }

theorem optTok_eq (key : Str) (o : Option Int) (P : Int → Prop) [DecidablePred P] :
    optTok (key ++ py!"=") o P = (propOf key (o.filter (fun c => decide (P c)))).flatMap Contracts.V3000.Prop'.tokens := by
  cases o with
  | none => simp [optTok, propOf]
  | some c =>
    by_cases h : P c
    · simp [optTok, propOf, h, Option.filter, Contracts.V3000.Prop'.tokens]
    · simp [optTok, propOf, h, Option.filter]

theorem atomFields_eq (env : DepEnv) (p : Int × Attrs) :
    [py!"M", py!"V30"] ++ atomFields env p = (atomLineOf env p).tokens := by
  have h1 := optTok_eq py!"CHG" (intAttr p.2 "chg") (fun c => c ≠ 0 ∧ -15 ≤ c ∧ c ≤ 15)
  have h2 := optTok_eq py!"RAD" (intAttr p.2 "rad") (fun c => 1 ≤ c ∧ c ≤ 3)
  have h3 := optTok_eq py!"MASS" (intAttr p.2 "mass") (fun c => 0 < c)
  simp only [List.cons_append, List.nil_append] at h1 h2 h3
  unfold atomFields
  rw [h1, h2, h3]
  simp [Contracts.V3000.AtomLine.tokens, atomLineOf, wChg, wRad, wMass, List.flatMap_append]

/-- a field of the file: non-empty, no blank, no `=` -/
def CleanTok (t : Str) : Prop := t ≠ [] ∧ ' ' ∉ t ∧ '=' ∉ t

theorem noOpt_of_no_eq (t : Str) (h : '=' ∉ t) : Contracts.V3000.NoOpt t := by
  have key : ∀ pre : Str, '=' ∈ pre → startswith t pre = false := by
    intro pre hpre
    by_contra hst
    simp only [startswith, Bool.not_eq_false, List.isPrefixOf_iff_prefix] at hst
    exact h (hst.subset hpre)
  exact ⟨key _ (by decide), key _ (by decide), key _ (by decide)⟩

set_option maxRecDepth 100000 in
theorem elements_clean : ∀ k ∈ Tucan.Consts.ELEMENT_ATTRS.keys,
    k ≠ [] ∧ ' ' ∉ k ∧ '=' ∉ k ∧ k ≠ py!"D" ∧ k ≠ py!"T" ∧ k ≠ py!"*" := by
  decide

/-- the coordinates of a node are printed as clean fields -/
def CoordsClean (env : DepEnv) (attrs : Attrs) : Prop :=
  CleanTok (env.fmt6 (coord attrs "x_coord")) ∧ CleanTok (env.fmt6 (coord attrs "y_coord")) ∧
    CleanTok (env.fmt6 (coord attrs "z_coord"))

theorem atomFields_clean (env : DepEnv) (p : Int × Attrs) (hsym : CleanTok (symbolOf p.2)) (hc : CoordsClean env p.2) :
    ∀ t ∈ atomFields env p, t ≠ [] ∧ ' ' ∉ t := by
  intro t ht
  simp only [atomFields, List.mem_append, List.mem_cons, List.not_mem_nil, or_false] at ht
  have hopt : ∀ key : Str, ' ' ∉ key → key ≠ [] → (∃ c, t = key ++ pyStrInt c) → t ≠ [] ∧ ' ' ∉ t := by
    rintro key hk hne ⟨c, rfl⟩
    refine ⟨by simp [hne], ?_⟩
    simp only [List.mem_append, not_or]
    exact ⟨hk, blank_not_mem_pyStrInt c⟩
  rcases ht with (((rfl | rfl | rfl | rfl | rfl | rfl) | ht) | ht) | ht
  · exact ⟨pyStrInt_ne_nil _, blank_not_mem_pyStrInt _⟩
  · exact ⟨hsym.1, hsym.2.1⟩
  · exact ⟨hc.1.1, hc.1.2.1⟩
  · exact ⟨hc.2.1.1, hc.2.1.2.1⟩
  · exact ⟨hc.2.2.1, hc.2.2.2.1⟩
  · decide
  · exact hopt _ (by decide) (by decide) (mem_optTok _ _ _ t ht)
  · exact hopt _ (by decide) (by decide) (mem_optTok _ _ _ t ht)
  · exact hopt _ (by decide) (by decide) (mem_optTok _ _ _ t ht)

theorem atomLogical_ne_nil (env : DepEnv) (p : Int × Attrs) : atomLogical env p ≠ [] := by
  simp [atomLogical, pyStrInt_ne_nil]

/-- **C09, atom line, tokens.** The reader's tokenizer splits the written atom line into exactly the
fields `M V30 index symbol x y z 0 [CHG=c] [RAD=r] [MASS=m]`. -/
theorem tokens_atomLogical (env : DepEnv) (p : Int × Attrs) (hsym : CleanTok (symbolOf p.2)) (hc : CoordsClean env p.2) :
    tokens (v30 ++ atomLogical env p) = (atomLineOf env p).tokens := by
  have hcl := atomFields_clean env p hsym hc
  have hne : atomFields env p ≠ [] := by simp [atomFields]
  rw [← atomFields_eq, atomLogical_eq_join, v30_join _ hne, tokens_join]
  · have hf : (atomFields env p).filter (· ≠ []) = atomFields env p :=
      List.filter_eq_self.mpr (fun t ht => by simpa using (hcl t ht).1)
    rw [List.filter_append, hf]
    simp
  · simp
  · intro t ht
    rcases List.mem_append.mp ht with ht | ht
    · simp only [List.mem_cons, List.not_mem_nil, or_false] at ht
      rcases ht with rfl | rfl | rfl <;> decide
    · exact (hcl t ht).2
  · intro c hcs
    rw [← v30_join _ hne, ← atomLogical_eq_join]
    exact getLast?_append_of_ne c _ _ (getLast?_atomLogical c (space_not_digit c hcs) env p) (atomLogical_ne_nil env p)

theorem small_lt (c : Int) (h1 : -15 ≤ c) (h2 : c ≤ 15) : c.natAbs < 10 ^ 4300 := by
  have hc : c.natAbs < 10 ^ 2 := by norm_num; omega
  exact lt_of_lt_of_le hc (Nat.pow_le_pow_right (by decide) (by decide))

theorem wChg_spec (attrs : Attrs) (c : Int) (h : wChg attrs = some c) :
    intAttr attrs "chg" = some c ∧ c ≠ 0 ∧ -15 ≤ c ∧ c ≤ 15 := by
  simpa [wChg, Option.filter_eq_some_iff] using h

theorem wRad_spec (attrs : Attrs) (c : Int) (h : wRad attrs = some c) : intAttr attrs "rad" = some c ∧ 1 ≤ c ∧ c ≤ 3 := by
  simpa [wRad, Option.filter_eq_some_iff] using h

theorem wMass_spec (attrs : Attrs) (c : Int) (h : wMass attrs = some c) : intAttr attrs "mass" = some c ∧ 0 < c := by
  simpa [wMass, Option.filter_eq_some_iff] using h

/-- what is written can be read: a non-zero value that `int()` accepts -/
def Readable (w : Option Int) : Prop := ∀ c, w = some c → c ≠ 0 ∧ parseInt (pyStrInt c) = .ok c

theorem readable_wChg (attrs : Attrs) : Readable (wChg attrs) := by
  intro c h
  obtain ⟨_, h0, h1, h2⟩ := wChg_spec attrs c h
  exact ⟨h0, parseInt_pyStrInt' c (small_lt c h1 h2)⟩

theorem readable_wRad (attrs : Attrs) : Readable (wRad attrs) := by
  intro c h
  obtain ⟨_, h1, h2⟩ := wRad_spec attrs c h
  exact ⟨by omega, parseInt_pyStrInt' c (small_lt c (by omega) (by omega))⟩

theorem readable_wMass (attrs : Attrs) (hm : ∀ m, wMass attrs = some m → m.natAbs < 10 ^ 4300) : Readable (wMass attrs) := by
  intro c h
  obtain ⟨_, h1⟩ := wMass_spec attrs c h
  exact ⟨by omega, parseInt_pyStrInt' c (hm c h)⟩

open Contracts.V3000 in
theorem propVals_append (A B : List Prop') (K : Str) : propVals (A ++ B) K = propVals A K ++ propVals B K := by
  simp [propVals, List.filter_append]

open Contracts.V3000 in
theorem propVals_propOf_ne (key K : Str) (w : Option Int) (h : key ≠ K) : propVals (propOf key w) K = [] := by
  cases w <;> simp [propVals, propOf, h]

open Contracts.V3000 in
theorem propInt_propOf (K : Str) (w : Option Int) (h : Readable w) :
    lastNonzero ((propVals (propOf K w) K).map intOf) = w := by
  cases w with
  | none => simp [propVals, propOf, lastNonzero]
  | some c =>
    obtain ⟨h0, hp⟩ := h c rfl
    simp [propVals, propOf, lastNonzero, intOf_eq _ _ hp, Option.filter, h0]

open Contracts.V3000 in
theorem propInt_props (wc wr wm : Option Int) (hc : Readable wc) (hr : Readable wr) (hm : Readable wm) :
    propInt (propOf py!"CHG" wc ++ propOf py!"RAD" wr ++ propOf py!"MASS" wm) py!"CHG" = wc ∧
    propInt (propOf py!"CHG" wc ++ propOf py!"RAD" wr ++ propOf py!"MASS" wm) py!"RAD" = wr ∧
    propInt (propOf py!"CHG" wc ++ propOf py!"RAD" wr ++ propOf py!"MASS" wm) py!"MASS" = wm := by
  refine ⟨?_, ?_, ?_⟩
  · rw [propInt, propVals_append, propVals_append, propVals_propOf_ne py!"RAD" _ _ (by decide),
      propVals_propOf_ne py!"MASS" _ _ (by decide), List.append_nil, List.append_nil, propInt_propOf _ _ hc]
  · rw [propInt, propVals_append, propVals_append, propVals_propOf_ne py!"CHG" _ _ (by decide),
      propVals_propOf_ne py!"MASS" _ _ (by decide), List.append_nil, List.nil_append, propInt_propOf _ _ hr]
  · rw [propInt, propVals_append, propVals_append, propVals_propOf_ne py!"CHG" _ _ (by decide),
      propVals_propOf_ne py!"RAD" _ _ (by decide), List.append_nil, List.nil_append, propInt_propOf _ _ hm]

theorem mem_propOf (key : Str) (w : Option Int) (pr : Contracts.V3000.Prop') (h : pr ∈ propOf key w) :
    ∃ c, w = some c ∧ pr = ⟨key, pyStrInt c, []⟩ := by
  cases w with
  | none => simp [propOf] at h
  | some c => exact ⟨c, rfl, by simpa [propOf] using h⟩

/-- the sizes `int()` accepts (CPython refuses more than 4300 digits): index and isotope mass -/
def AtomSizeOk (p : Int × Attrs) : Prop :=
  (p.1 + 1).natAbs < 10 ^ 4300 ∧ ∀ m, wMass p.2 = some m → m.natAbs < 10 ^ 4300

/-- **C09, atom line, well-formedness.** The written atom line is a well-formed V3000 atom line. -/
theorem atomLineOf_WF (env : DepEnv) (p : Int × Attrs) (hc : CoordsClean env p.2) (hs : AtomSizeOk p) :
    (atomLineOf env p).WF := by
  refine ⟨⟨_, parseInt_pyStrInt' _ hs.1⟩, noOpt_of_no_eq _ hc.1.2.2, noOpt_of_no_eq _ hc.2.1.2.2,
    noOpt_of_no_eq _ hc.2.2.2.2,
    noOpt_of_no_eq _ (show '=' ∉ py!"0" by decide), ?_, ?_, ?_⟩
  · intro pr hpr
    simp only [atomLineOf, List.mem_append] at hpr
    rcases hpr with (hpr | hpr) | hpr <;> obtain ⟨c, _, rfl⟩ := mem_propOf _ _ _ hpr <;> simp
  · intro pr hpr _
    simp only [atomLineOf, List.mem_append] at hpr
    rcases hpr with (hpr | hpr) | hpr <;> obtain ⟨c, hw, rfl⟩ := mem_propOf _ _ _ hpr
    · exact ⟨c, (readable_wChg p.2 c hw).2⟩
    · exact ⟨c, (readable_wRad p.2 c hw).2⟩
    · exact ⟨c, (readable_wMass p.2 hs.2 c hw).2⟩
  · intro pr hpr t ht
    simp only [atomLineOf, List.mem_append] at hpr
    rcases hpr with (hpr | hpr) | hpr <;> obtain ⟨c, _, rfl⟩ := mem_propOf _ _ _ hpr <;> simp at ht

/-- the attributes the reader is expected to build for a node: symbol, atomic number, partition 0,
the re-parsed coordinates, and the written charge, isotope mass and radical -/
def readBack (sym : Str) (Z : Int) (fx fy fz : Flt) (attrs : Attrs) : Attrs :=
  Contracts.V3000.mkAtomAttrs sym (Val.int Z) fx fy fz (wChg attrs) (wMass attrs) (wRad attrs)

/-- **C09, atom line, meaning.** For a node whose element symbol is in the element table, the line
means: that symbol, its atomic number, partition 0, the coordinates `float(f"{x:.6f}")`, and exactly the
charge / isotope mass / radical that are in the format's ranges. -/
theorem atomMeaning_atomLineOf (env : DepEnv) (i : Int) (attrs : Attrs) (sym : Str) (fx fy fz : Flt)
    (hsym : attrs.get? "element_symbol" = some (Val.str sym)) (hel : sym ∈ Tucan.Consts.ELEMENT_ATTRS.keys)
    (hc : CoordsClean env attrs) (hs : AtomSizeOk (i, attrs))
    (hx : env.parseFloat (env.fmt6 (coord attrs "x_coord")) = .ok fx)
    (hy : env.parseFloat (env.fmt6 (coord attrs "y_coord")) = .ok fy)
    (hz : env.parseFloat (env.fmt6 (coord attrs "z_coord")) = .ok fz) :
    ∃ Z : Int, Contracts.V3000.atomicNumber sym = .ok (Val.int Z) ∧
      Contracts.V3000.atomMeaning env (atomLineOf env (i, attrs)) = .ok (some (readBack sym Z fx fy fz attrs)) := by
  obtain ⟨Z, hZ⟩ := Contracts.V3000.atomicNumber_known sym hel
  obtain ⟨_, _, _, hD, hT, hstar⟩ := elements_clean sym hel
  have hso : symbolOf attrs = sym := by simp [symbolOf, hsym, pyStr]
  have hiso : Contracts.V3000.hydrogenIsotope sym = (sym, 0) := by simp [Contracts.V3000.hydrogenIsotope, hD, hT]
  have hsym' : (atomLineOf env (i, attrs)).sym = sym := hso
  refine ⟨Z, hZ, ?_⟩
  rw [Contracts.V3000.atomMeaning_ok env _ (atomLineOf_WF env (i, attrs) hc hs) (by rw [hsym']; exact hstar)
    (Val.int Z) fx fy fz (by rw [hsym', hiso]; exact hZ) hx hy hz]
  obtain ⟨h1, h2, h3⟩ := propInt_props (wChg attrs) (wRad attrs) (wMass attrs) (readable_wChg attrs) (readable_wRad attrs)
    (readable_wMass attrs hs.2)
  simp only [Contracts.V3000.atomAttrs, hsym', hiso, readBack]
  simp only [atomLineOf, h1, h2, h3, if_true]

/-- **C09, atom line round trip.** `_parse_atom_attributes` on the tokens of the written line. -/
theorem C09_atom_roundtrip (env : DepEnv) (i : Int) (attrs : Attrs) (sym : Str) (fx fy fz : Flt)
    (hsym : attrs.get? "element_symbol" = some (Val.str sym)) (hel : sym ∈ Tucan.Consts.ELEMENT_ATTRS.keys)
    (hc : CoordsClean env attrs) (hs : AtomSizeOk (i, attrs))
    (hx : env.parseFloat (env.fmt6 (coord attrs "x_coord")) = .ok fx)
    (hy : env.parseFloat (env.fmt6 (coord attrs "y_coord")) = .ok fy)
    (hz : env.parseFloat (env.fmt6 (coord attrs "z_coord")) = .ok fz) :
    ∃ Z : Int, Contracts.V3000.atomicNumber sym = .ok (Val.int Z) ∧
      Tucan.molfile_v3000_reader._parse_atom_attributes env (tokens (v30 ++ atomLogical env (i, attrs))) =
        .ok (readBack sym Z fx fy fz attrs, false) ∧
      (getItem (tokens (v30 ++ atomLogical env (i, attrs))) (2 : Int) >>= parseInt) = .ok (i + 1) := by
  obtain ⟨Z, hZ, hm⟩ := atomMeaning_atomLineOf env i attrs sym fx fy fz hsym hel hc hs hx hy hz
  obtain ⟨hne, hb, he, _⟩ := elements_clean sym hel
  have hso : symbolOf attrs = sym := by simp [symbolOf, hsym, pyStr]
  have htok := tokens_atomLogical env (i, attrs) (by rw [hso]; exact ⟨hne, hb, he⟩) hc
  refine ⟨Z, hZ, ?_, ?_⟩
  · rw [htok, Contracts.V3000._parse_atom_attributes_eq env _ (atomLineOf_WF env (i, attrs) hc hs).shape, hm]
    rfl
  · rw [htok, Contracts.V3000.getItem_idx]
    exact parseInt_pyStrInt' _ hs.1

/-- in-range values are written (and hence read back) unchanged; absent ones stay absent -/
theorem wChg_of_range (attrs : Attrs) (c : Int) (h : intAttr attrs "chg" = some c) (h0 : c ≠ 0) (h1 : -15 ≤ c) (h2 : c ≤ 15) :
    wChg attrs = some c := by simp [wChg, h, Option.filter, h0, h1, h2]
theorem wRad_of_range (attrs : Attrs) (c : Int) (h : intAttr attrs "rad" = some c) (h1 : 1 ≤ c) (h2 : c ≤ 3) :
    wRad attrs = some c := by simp [wRad, h, Option.filter, h1, h2]
theorem wMass_of_range (attrs : Attrs) (c : Int) (h : intAttr attrs "mass" = some c) (h1 : 0 < c) :
    wMass attrs = some c := by simp [wMass, h, Option.filter, h1]
theorem wChg_of_none (attrs : Attrs) (h : intAttr attrs "chg" = none) : wChg attrs = none := by simp [wChg, h]
theorem wRad_of_none (attrs : Attrs) (h : intAttr attrs "rad" = none) : wRad attrs = none := by simp [wRad, h]
theorem wMass_of_none (attrs : Attrs) (h : intAttr attrs "mass" = none) : wMass attrs = none := by simp [wMass, h]

/-! ### bond lines -/

/-- the abstract V3000 bond line the writer produces: no further properties, no ENDPTS -/
def bondLineOf (p : Int × Int × Int × Attrs) : Contracts.V3000.BondLine :=
  { idx := pyStrInt p.1, typ := bondTypeOf p.2.2.2, a1 := pyStrInt (p.2.1 + 1), a2 := pyStrInt (p.2.2.1 + 1),
    pre := [], endpts := none }

theorem bondLogical_eq_join (p : Int × Int × Int × Attrs) :
    bondLogical p = join py!" " [pyStrInt p.1, bondTypeOf p.2.2.2, pyStrInt (p.2.1 + 1), pyStrInt (p.2.2.1 + 1)] := by
  simp [bondLogical, join_cons_cons, join_singleton]

theorem bondLogical_ne_nil (p : Int × Int × Int × Attrs) : bondLogical p ≠ [] := by
  simp [bondLogical, pyStrInt_ne_nil]

/-- **C09, bond line, tokens.** -/
theorem tokens_bondLogical (p : Int × Int × Int × Attrs) (hne : bondTypeOf p.2.2.2 ≠ []) (hb : ' ' ∉ bondTypeOf p.2.2.2) :
    tokens (v30 ++ bondLogical p) = (bondLineOf p).tokens := by
  rw [bondLogical_eq_join, v30_join _ (by simp), tokens_join]
  · simp [Contracts.V3000.BondLine.tokens, bondLineOf, pyStrInt_ne_nil, hne]
  · simp
  · intro t ht
    simp only [List.cons_append, List.nil_append, List.mem_cons, List.not_mem_nil, or_false] at ht
    rcases ht with rfl | rfl | rfl | rfl | rfl | rfl | rfl
    · decide
    · decide
    · decide
    · exact blank_not_mem_pyStrInt _
    · exact hb
    · exact blank_not_mem_pyStrInt _
    · exact blank_not_mem_pyStrInt _
  · intro c hcs
    rw [← v30_join _ (by simp), ← bondLogical_eq_join]
    exact getLast?_append_of_ne c _ _ (getLast?_bondLogical c (space_not_digit c hcs) p) (bondLogical_ne_nil p)

/-- **C09, bond line round trip.** For an integer bond type `b` (default 1) the written bond line
`k b u+1 v+1` is read back as the bond `(u, v)` with `bond_type = b`. -/
theorem C09_bond_roundtrip (env : DepEnv) (k u v b : Int) (attrs : Attrs)
    (hbt : (attrs.get? "bond_type").getD (Val.int 1) = Val.int b)
    (hu : (u + 1).natAbs < 10 ^ 4300) (hv : (v + 1).natAbs < 10 ^ 4300)
    (hb : b.natAbs < 10 ^ 4300) :
    tokens (v30 ++ bondLogical (k, u, v, attrs)) = (bondLineOf (k, u, v, attrs)).tokens ∧
    (bondLineOf (k, u, v, attrs)).Shape ∧
    Tucan.molfile_v3000_reader._parse_bond_attributes env (tokens (v30 ++ bondLogical (k, u, v, attrs))) =
      .ok (Contracts.V3000.bondAttrs b) ∧
    (getItem (tokens (v30 ++ bondLogical (k, u, v, attrs))) (4 : Int) >>= parseInt) = .ok (u + 1) ∧
    (getItem (tokens (v30 ++ bondLogical (k, u, v, attrs))) (5 : Int) >>= parseInt) = .ok (v + 1) ∧
    Contracts.V3000.bondMeaning [] (bondLineOf (k, u, v, attrs)) = .ok ([(u, v)], Contracts.V3000.bondAttrs b) := by
  have hty : bondTypeOf attrs = pyStrInt b := by simp [bondTypeOf, hbt, pyStr]
  have htok := tokens_bondLogical (k, u, v, attrs) (by rw [hty]; exact pyStrInt_ne_nil b)
    (by rw [hty]; exact blank_not_mem_pyStrInt b)
  have hpt : parseInt (bondLineOf (k, u, v, attrs)).typ = .ok b := by
    show parseInt (bondTypeOf attrs) = _; rw [hty]; exact parseInt_pyStrInt' b hb
  refine ⟨htok, ?_, ?_, ?_, ?_, ?_⟩
  · refine ⟨?_, by intro nums post h; cases h⟩
    intro t ht
    simp only [bondLineOf, List.append_nil, List.mem_cons, List.not_mem_nil, or_false] at ht
    have hp : ∀ n : Int, '(' ∉ pyStrInt n := by
      intro n h
      rcases mem_pyStrInt n _ h with h | h <;> exact absurd h (by decide)
    rcases ht with rfl | rfl | rfl | rfl
    · exact hp _
    · rw [hty]; exact hp _
    · exact hp _
    · exact hp _
  · rw [htok]
    exact Contracts.V3000._parse_bond_attributes_ok env _ _ b (Contracts.V3000.bond_g3 _) hpt
  · rw [htok, Contracts.V3000.bond_g4]; exact parseInt_pyStrInt' _ hu
  · rw [htok, Contracts.V3000.bond_g5]; exact parseInt_pyStrInt' _ hv
  · have h1 : parseInt (bondLineOf (k, u, v, attrs)).a1 = .ok (u + 1) := parseInt_pyStrInt' (u + 1) hu
    have h2 : parseInt (bondLineOf (k, u, v, attrs)).a2 = .ok (v + 1) := parseInt_pyStrInt' (v + 1) hv
    rw [Contracts.V3000.bondMeaning_ok [] _ (u + 1) (v + 1) b h1 h2 hpt (by simp) (by intro nums post h; cases h)]
    simp [Contracts.V3000.bondPairs]

/-! ## 6. the whole file: writer, then the V3000 reader -/

theorem tokens_countsLine (n m : Nat) :
    tokens (v30 ++ countsLine n m) = [py!"M", py!"V30", py!"COUNTS", pyStrInt n, pyStrInt m, py!"0", py!"0", py!"0"] := by
  have hj : countsLine n m = join py!" " [py!"COUNTS", pyStrInt n, pyStrInt m, py!"0", py!"0", py!"0"] := by
    simp [countsLine, join_cons_cons, join_singleton]
  rw [hj, v30_join _ (by simp), tokens_join]
  · simp [pyStrInt_ne_nil]
  · simp
  · intro t ht
    simp only [List.cons_append, List.nil_append, List.mem_cons, List.not_mem_nil, or_false] at ht
    rcases ht with rfl | rfl | rfl | rfl | rfl | rfl | rfl | rfl | rfl
    · decide
    · decide
    · decide
    · decide
    · exact blank_not_mem_pyStrInt _
    · exact blank_not_mem_pyStrInt _
    · decide
    · decide
    · decide
  · intro c hcs
    rw [← v30_join _ (by simp), ← hj]
    unfold countsLine
    refine getLast?_append_of_ne c _ _ (getLast?_append_of_ne c _ _ ?_ (by simp)) (by simp)
    simp only [List.getLast?_cons_cons, List.getLast?_singleton, ne_eq, Option.some.injEq]
    rintro rfl; exact absurd hcs (by decide)

/-- the abstract atom and bond lines of the file -/
def atomsOf (env : DepEnv) (g : Graph) : List Contracts.V3000.AtomLine := g.nodesData.map (atomLineOf env)
def bondsOf (g : Graph) : List Contracts.V3000.BondLine := (numbered g.edgesData).map bondLineOf

/-- what `_tokenize_lines` returns for the file (`C09_splice`) -/
def tokLines (env : DepEnv) (g : Graph) : List (List Str) :=
  (header env).map tokens ++ (logicalLines env g).map (fun l => tokens (v30 ++ l)) ++ [tokens py!"M  END"]

/-- per-node hypotheses of the round trip: the element symbol is in the element table, the three
coordinates are printed as clean fields that `float()` accepts, index and mass have at most 4300 digits -/
structure NodeRT (env : DepEnv) (p : Int × Attrs) : Prop where
  sym : ∃ s, p.2.get? "element_symbol" = some (Val.str s) ∧ s ∈ Tucan.Consts.ELEMENT_ATTRS.keys
  coords : CoordsClean env p.2
  size : AtomSizeOk p
  px : ∃ f, env.parseFloat (env.fmt6 (coord p.2 "x_coord")) = .ok f
  py : ∃ f, env.parseFloat (env.fmt6 (coord p.2 "y_coord")) = .ok f
  pz : ∃ f, env.parseFloat (env.fmt6 (coord p.2 "z_coord")) = .ok f

/-- the bond type is an integer (default 1) of at most 4300 digits -/
def EdgeRT (e : Int × Int × Attrs) : Prop :=
  ∃ b : Int, (e.2.2.get? "bond_type").getD (Val.int 1) = Val.int b ∧ b.natAbs < 10 ^ 4300

theorem NodeRT.symClean {env : DepEnv} {p : Int × Attrs} (h : NodeRT env p) : CleanTok (symbolOf p.2) := by
  obtain ⟨s, hs, hel⟩ := h.sym
  obtain ⟨hne, hb, he, _⟩ := elements_clean s hel
  have : symbolOf p.2 = s := by simp [symbolOf, hs, pyStr]
  rw [this]; exact ⟨hne, hb, he⟩

theorem atomToks_eq (env : DepEnv) (g : Graph) (hn : ∀ p ∈ g.nodesData, NodeRT env p) :
    (atomLines env g).map (fun l => tokens (v30 ++ l)) = (atomsOf env g).map Contracts.V3000.AtomLine.tokens := by
  simp only [atomLines, atomsOf, List.map_map]
  apply List.map_congr_left
  intro p hp
  have h1 := (hn p hp).symClean
  have h2 := (hn p hp).coords
  simp only [Function.comp_apply]
  exact tokens_atomLogical env p h1 h2

theorem bondToks_eq (g : Graph) (he : ∀ e ∈ g.edgesData, EdgeRT e) :
    (bondLines g).map (fun l => tokens (v30 ++ l)) = (bondsOf g).map Contracts.V3000.BondLine.tokens := by
  simp only [bondLines, bondsOf, List.map_map]
  apply List.map_congr_left
  intro p hp
  obtain ⟨b, hb, _⟩ := he p.2 (mem_numbered _ p hp)
  have hty : bondTypeOf p.2.2.2 = pyStrInt b := by simp [bondTypeOf, hb, pyStr]
  simp only [Function.comp_apply]
  exact tokens_bondLogical p (by rw [hty]; exact pyStrInt_ne_nil b) (by rw [hty]; exact blank_not_mem_pyStrInt b)

/-- tokens of the bond block and everything after it -/
def bondTail (g : Graph) : List (List Str) :=
  (if g.edgesData.length = 0 then [] else
    [py!"M", py!"V30", py!"BEGIN", py!"BOND"] :: ((bondsOf g).map Contracts.V3000.BondLine.tokens ++
      [[py!"M", py!"V30", py!"END", py!"BOND"]])) ++ [[py!"M", py!"V30", py!"END", py!"CTAB"], [py!"M", py!"END"]]

/-- tokens of the first seven lines: header, BEGIN CTAB, COUNTS, BEGIN ATOM -/
def pre7 (env : DepEnv) (g : Graph) : List (List Str) :=
  (header env).map tokens ++ [[py!"M", py!"V30", py!"BEGIN", py!"CTAB"],
    [py!"M", py!"V30", py!"COUNTS", pyStrInt g.nodesData.length, pyStrInt g.edgesData.length, py!"0", py!"0", py!"0"],
    [py!"M", py!"V30", py!"BEGIN", py!"ATOM"]]

theorem length_pre7 (env : DepEnv) (g : Graph) : (pre7 env g).length = 7 := by simp [pre7, header]

theorem tokLines_eq (env : DepEnv) (g : Graph) (hn : ∀ p ∈ g.nodesData, NodeRT env p) (he : ∀ e ∈ g.edgesData, EdgeRT e) :
    tokLines env g = pre7 env g ++ ((atomsOf env g).map Contracts.V3000.AtomLine.tokens ++
      ([py!"M", py!"V30", py!"END", py!"ATOM"] :: bondTail g)) := by
  have h1 : tokens (v30 ++ py!"BEGIN CTAB") = [py!"M", py!"V30", py!"BEGIN", py!"CTAB"] := by decide
  have h2 : tokens (v30 ++ py!"BEGIN ATOM") = [py!"M", py!"V30", py!"BEGIN", py!"ATOM"] := by decide
  have h3 : tokens (v30 ++ py!"END ATOM") = [py!"M", py!"V30", py!"END", py!"ATOM"] := by decide
  have h4 : tokens (v30 ++ py!"BEGIN BOND") = [py!"M", py!"V30", py!"BEGIN", py!"BOND"] := by decide
  have h5 : tokens (v30 ++ py!"END BOND") = [py!"M", py!"V30", py!"END", py!"BOND"] := by decide
  have h6 : tokens (v30 ++ py!"END CTAB") = [py!"M", py!"V30", py!"END", py!"CTAB"] := by decide
  have h7 : tokens py!"M  END" = [py!"M", py!"END"] := by decide
  have hb : (bondBlock g).map (fun l => tokens (v30 ++ l)) ++ [[py!"M", py!"V30", py!"END", py!"CTAB"], [py!"M", py!"END"]] =
      bondTail g := by
    unfold bondBlock bondTail
    split
    · simp
    · simp only [List.map_append, List.map_cons, List.map_nil, bondToks_eq g he, h4, h5]
      simp
  unfold tokLines logicalLines pre7
  simp only [List.map_append, List.map_cons, List.map_nil, atomToks_eq env g hn, tokens_countsLine, h1, h2, h3, h6, h7]
  rw [← hb]
  simp

theorem getElem?_pre {α} (pre A : List α) (x : α) (rest : List α) (k : Nat) (hk : k = pre.length + A.length) :
    (pre ++ (A ++ x :: rest))[k]? = some x := by
  subst hk; simp

theorem drop_take_pre {α} (pre A rest : List α) (k n : Nat) (hk : k = pre.length) (hn : n = A.length) :
    ((pre ++ (A ++ rest)).drop k).take n = A := by
  subst hk hn; simp

theorem length_numbered {α} (l : List α) : (numbered l).length = l.length := by simp [numbered]

theorem length_atomsOf (env : DepEnv) (g : Graph) : (atomsOf env g).length = g.nodesData.length := by simp [atomsOf]
theorem length_bondsOf (g : Graph) : (bondsOf g).length = g.edgesData.length := by simp [bondsOf, length_numbered]

theorem nat_lt_cast (n : Nat) (h : n < 10 ^ 4300) : ((n : Int)).natAbs < 10 ^ 4300 := by
  rw [Int.natAbs_natCast]; exact h

/-- the tokenized file contains the connection table where the reader looks for it -/
theorem ctabAt_tokLines (env : DepEnv) (g : Graph) (hn : ∀ p ∈ g.nodesData, NodeRT env p) (he : ∀ e ∈ g.edgesData, EdgeRT e)
    (hna : g.nodesData.length < 10 ^ 4300) (hnb : g.edgesData.length < 10 ^ 4300) :
    Contracts.V3000.CtabAt (tokLines env g) (atomsOf env g) (bondsOf g) := by
  have hl := tokLines_eq env g hn he
  have h7 := length_pre7 env g
  have hla := length_atomsOf env g
  have hlb := length_bondsOf g
  have h5 : (tokLines env g)[5]? = some [py!"M", py!"V30", py!"COUNTS", pyStrInt g.nodesData.length,
      pyStrInt g.edgesData.length, py!"0", py!"0", py!"0"] := by
    rw [hl]; simp [pre7, header]
  have h6 : (tokLines env g)[6]? = some [py!"M", py!"V30", py!"BEGIN", py!"ATOM"] := by
    rw [hl]; simp [pre7, header]
  have hpa : parseInt (pyStrInt g.nodesData.length) = .ok ((atomsOf env g).length : Int) := by
    rw [hla]; exact parseInt_pyStrInt' _ (nat_lt_cast _ hna)
  have hpb : parseInt (pyStrInt g.edgesData.length) = .ok ((bondsOf g).length : Int) := by
    rw [hlb]; exact parseInt_pyStrInt' _ (nat_lt_cast _ hnb)
  refine ⟨⟨_, _, _, h5, rfl, rfl, rfl, hpa, hpb⟩, ⟨⟨_, _, h5, rfl, hpa⟩, ⟨_, h6, rfl⟩,
    ⟨[py!"M", py!"V30", py!"END", py!"ATOM"], ?_, rfl⟩, ?_⟩, ?_⟩
  · rw [hl]
    exact getElem?_pre _ _ _ _ _ (by simp [h7])
  · rw [hl]
    exact drop_take_pre _ _ _ _ _ h7.symm (by simp)
  · intro hne
    have hm : ¬ g.edgesData.length = 0 := by
      intro h0; apply hne; apply List.eq_nil_of_length_eq_zero; rw [hlb, h0]
    have hl' : tokLines env g = (pre7 env g ++ (atomsOf env g).map Contracts.V3000.AtomLine.tokens ++
        [[py!"M", py!"V30", py!"END", py!"ATOM"], [py!"M", py!"V30", py!"BEGIN", py!"BOND"]]) ++
        ((bondsOf g).map Contracts.V3000.BondLine.tokens ++ ([py!"M", py!"V30", py!"END", py!"BOND"] ::
          [[py!"M", py!"V30", py!"END", py!"CTAB"], [py!"M", py!"END"]])) := by
      rw [hl]; simp [bondTail, hm]
    have hl'' : tokLines env g = (pre7 env g ++ (atomsOf env g).map Contracts.V3000.AtomLine.tokens ++
        [[py!"M", py!"V30", py!"END", py!"ATOM"]]) ++ ([] ++ [py!"M", py!"V30", py!"BEGIN", py!"BOND"] ::
        ((bondsOf g).map Contracts.V3000.BondLine.tokens ++ ([py!"M", py!"V30", py!"END", py!"BOND"] ::
          [[py!"M", py!"V30", py!"END", py!"CTAB"], [py!"M", py!"END"]]))) := by
      rw [hl]; simp [bondTail, hm]
    refine ⟨⟨_, _, _, h5, rfl, rfl, hpa, hpb⟩, ⟨[py!"M", py!"V30", py!"BEGIN", py!"BOND"], ?_, rfl⟩,
      ⟨[py!"M", py!"V30", py!"END", py!"BOND"], ?_, rfl⟩, ?_⟩
    · rw [hl'']
      exact getElem?_pre _ _ _ _ _ (by simp only [List.length_append, List.length_map, List.length_cons, List.length_nil, h7])
    · rw [hl']
      exact getElem?_pre _ _ _ _ _ (by
        simp only [List.length_append, List.length_map, List.length_cons, List.length_nil, h7])
    · rw [hl']
      exact drop_take_pre _ _ _ _ _ (by
        simp only [List.length_append, List.length_map, List.length_cons, List.length_nil, h7]) (by simp)

/-- `float(f"{v:.6f}")` -/
def fltOf (env : DepEnv) (v : Val) : Flt :=
  match env.parseFloat (env.fmt6 v) with
  | .ok f => f
  | .error _ => default

/-- atomic number of a symbol of the element table -/
def zOf (sym : Str) : Int :=
  match Contracts.V3000.atomicNumber sym with
  | .ok (Val.int z) => z
  | _ => 0

/-- the attributes read back for a node: element symbol, atomic number, partition 0, coordinates to six
decimals, and the charge / isotope mass / radical that are in the format's ranges -/
def nodeReadBack (env : DepEnv) (attrs : Attrs) : Attrs :=
  readBack (symbolOf attrs) (zOf (symbolOf attrs)) (fltOf env (coord attrs "x_coord")) (fltOf env (coord attrs "y_coord"))
    (fltOf env (coord attrs "z_coord")) attrs

/-- the integer bond type (default 1) -/
def bondTypeInt (attrs : Attrs) : Int :=
  match (attrs.get? "bond_type").getD (Val.int 1) with
  | Val.int b => b
  | _ => 1

theorem atomMeaning_node (env : DepEnv) (p : Int × Attrs) (h : NodeRT env p) :
    parseInt (atomLineOf env p).idx = .ok (p.1 + 1) ∧
      Contracts.V3000.atomMeaning env (atomLineOf env p) = .ok (some (nodeReadBack env p.2)) := by
  obtain ⟨i, attrs⟩ := p
  obtain ⟨s, hs, hel⟩ := h.sym
  obtain ⟨fx, hx⟩ := h.px
  obtain ⟨fy, hy⟩ := h.py
  obtain ⟨fz, hz⟩ := h.pz
  obtain ⟨Z, hZ, hm⟩ := atomMeaning_atomLineOf env i attrs s fx fy fz hs hel h.coords h.size hx hy hz
  have hso : symbolOf attrs = s := by simp [symbolOf, hs, pyStr]
  refine ⟨parseInt_pyStrInt' _ h.size.1, ?_⟩
  rw [hm]
  simp only [nodeReadBack, hso, zOf, hZ, fltOf, hx, hy, hz]

theorem map_snd_numbered {α} (l : List α) : (numbered l).map Prod.snd = l := by
  simp [numbered, Function.comp_def]

/-- what the proof uses of the networkx invariant (`Graph.WF` implies it, see `GraphOk.of_WF`) -/
structure GraphOk (g : Graph) : Prop where
  nodes_nodup : (g.nodesData.map Prod.fst).Nodup
  edges_nodup : (g.edgesData.map (fun e => (e.1, e.2.1))).Nodup
  ends : ∀ e ∈ g.edgesData, e.1 ∈ g.nodesData.map Prod.fst ∧ e.2.1 ∈ g.nodesData.map Prod.fst

theorem bondMeaning_edge (env : DepEnv) (g : Graph) (hg : GraphOk g) (hn : ∀ p ∈ g.nodesData, NodeRT env p)
    (q : Int × Int × Int × Attrs) (hq : q.2 ∈ g.edgesData) (he : EdgeRT q.2) :
    Contracts.V3000.bondMeaning [] (bondLineOf q) =
      .ok ([(q.2.1, q.2.2.1)], Contracts.V3000.bondAttrs (bondTypeInt q.2.2.2)) := by
  obtain ⟨k, u, v, attrs⟩ := q
  obtain ⟨b, hb, hbs⟩ := he
  obtain ⟨hu, hv⟩ := hg.ends _ hq
  simp only [List.mem_map] at hu hv
  obtain ⟨pu, hpu, hpu'⟩ := hu
  obtain ⟨pv, hpv, hpv'⟩ := hv
  have su := (hn pu hpu).size.1
  have sv := (hn pv hpv).size.1
  simp only at hpu' hpv' hb
  rw [hpu'] at su
  rw [hpv'] at sv
  have hbi : bondTypeInt attrs = b := by simp [bondTypeInt, hb]
  have := (C09_bond_roundtrip env k u v b attrs hb su sv hbs).2.2.2.2.2
  simp only [hbi]
  exact this

/-- the atoms read back: node index ↦ attributes, in node order -/
def atomsBack (env : DepEnv) (g : Graph) : Dict Int Attrs := ⟨g.nodesData.map (fun p => (p.1, nodeReadBack env p.2))⟩
/-- the bonds read back: `(u, v) ↦ {bond_type}`, in edge order -/
def bondsBack (g : Graph) : Dict (Int × Int) Attrs :=
  ⟨g.edgesData.map (fun e => ((e.1, e.2.1), Contracts.V3000.bondAttrs (bondTypeInt e.2.2)))⟩

theorem forall₂_map_same {α β γ : Type} (R : β → γ → Prop) (f : α → β) (k : α → γ) (l : List α)
    (h : ∀ a ∈ l, R (f a) (k a)) : List.Forall₂ R (l.map f) (l.map k) := by
  induction l with
  | nil => exact List.Forall₂.nil
  | cons a l ih => exact List.Forall₂.cons (h a (by simp)) (ih (fun b hb => h b (by simp [hb])))

theorem flatMap_single {α β : Type} (f : α → β) (l : List α) : l.flatMap (fun a => [f a]) = l.map f := by
  induction l with
  | nil => rfl
  | cons a l ih => simp [List.flatMap_cons, ih]

open Contracts.V3000 in
/-- the meaning (Contracts.V3000) of the connection table the writer produces -/
theorem ctabMeaning_file (env : DepEnv) (g : Graph) (hg : GraphOk g) (hn : ∀ p ∈ g.nodesData, NodeRT env p)
    (he : ∀ e ∈ g.edgesData, EdgeRT e) :
    ctabMeaning env (atomsOf env g) (bondsOf g) = .ok (atomsBack env g, bondsBack g) := by
  have hA : atomBlockMeaning env (atomsOf env g) = .ok (atomsBack env g, []) := by
    unfold atomBlockMeaning
    rw [atomEntries_ok env (atomsOf env g) (g.nodesData.map (fun p => (p.1, some (nodeReadBack env p.2))))
      (forall₂_map_same _ _ _ _ (fun p hp => by
        obtain ⟨h1, h2⟩ := atomMeaning_node env p (hn p hp)
        exact ⟨h1, h2⟩))]
    have h1 : nonStar (g.nodesData.map (fun p => (p.1, some (nodeReadBack env p.2)))) =
        g.nodesData.map (fun p => (p.1, nodeReadBack env p.2)) := by
      simp [nonStar, List.filterMap_map]
    have h2 : stars (g.nodesData.map (fun p => (p.1, some (nodeReadBack env p.2)))) = [] := by
      simp [stars, List.filterMap_map]
    simp only [Py.ok_bind, Py.pure_eq_ok, h1, h2]
    rw [Dict.ofPairs_nodup _ (by simpa [List.map_map, Function.comp_def] using hg.nodes_nodup)]
    rfl
  have hB : bondBlockMeaning [] (bondsOf g) = .ok (bondsBack g) := by
    unfold bondBlockMeaning
    rw [bondEntries_ok [] (bondsOf g)
      ((numbered g.edgesData).map (fun q => ([(q.2.1, q.2.2.1)], bondAttrs (bondTypeInt q.2.2.2))))
      (forall₂_map_same _ _ _ _ (fun q hq =>
        bondMeaning_edge env g hg hn q (mem_numbered _ q hq) (he _ (mem_numbered _ q hq))))]
    have h1 : ((numbered g.edgesData).map (fun q => ([(q.2.1, q.2.2.1)], bondAttrs (bondTypeInt q.2.2.2)))).flatMap
        (fun m => m.1.map (fun t => (t, m.2))) =
        g.edgesData.map (fun e => ((e.1, e.2.1), bondAttrs (bondTypeInt e.2.2))) := by
      conv_rhs => rw [← map_snd_numbered g.edgesData]
      simp [List.flatMap_map, List.map_map, Function.comp_def, flatMap_single]
    simp only [Py.ok_bind, Py.pure_eq_ok, h1]
    rw [Dict.ofPairs_nodup _ (by simpa [List.map_map, Function.comp_def] using hg.edges_nodup)]
    rfl
  unfold ctabMeaning
  simp only [hA, hB, Py.ok_bind]
  rw [if_pos]
  · rfl
  · intro b hb
    simp only [bondsBack, Dict.keys, List.map_map, List.mem_map, Function.comp_apply] at hb
    obtain ⟨e, hmem, rfl⟩ := hb
    have := hg.ends e hmem
    simpa [atomsBack, Dict.keys, List.map_map, Function.comp_def] using this

/-- **C09, whole file.** The V3000 reader, run on the physical lines the writer produces, returns the
atoms in node order with element symbol, atomic number, partition 0, the coordinates to six decimals and
the in-range charge / isotope mass / radical, and the bonds in edge order with their bond types. -/
theorem C09_file_roundtrip (env : DepEnv) (g : Graph) (fuel : Nat) (hg : GraphOk g)
    (hn : ∀ p ∈ g.nodesData, NodeRT env p) (he : ∀ e ∈ g.edgesData, EdgeRT e)
    (hna : g.nodesData.length < 10 ^ 4300) (hnb : g.edgesData.length < 10 ^ 4300)
    (hf : (fileLines env g).length + 1 ≤ fuel) :
    Tucan.molfile_v3000_reader.graph_attributes_from_molfile_v3000 env fuel (fileLines env g) =
      .ok (atomsBack env g, bondsBack g) := by
  rw [Contracts.V3000.graph_attributes_from_molfile_v3000_eq env fuel (fileLines env g) (tokLines env g)
    (C09_splice env g fuel hf) (atomsOf env g) (bondsOf g) (ctabAt_tokLines env g hn he hna hnb)
    (fun a ha => by
      simp only [atomsOf, List.mem_map] at ha
      obtain ⟨p, hp, rfl⟩ := ha
      exact (atomLineOf_WF env p (hn p hp).coords (hn p hp).size).shape)
    (fun b hb => by
      simp only [bondsOf, List.mem_map] at hb
      obtain ⟨q, hq, rfl⟩ := hb
      obtain ⟨bt, hbt, hbs⟩ := he _ (mem_numbered _ q hq)
      obtain ⟨hu, hv⟩ := hg.ends _ (mem_numbered _ q hq)
      simp only [List.mem_map] at hu hv
      obtain ⟨pu, hpu, hpu'⟩ := hu
      obtain ⟨pv, hpv, hpv'⟩ := hv
      have su := (hn pu hpu).size.1
      have sv := (hn pv hpv).size.1
      rw [hpu'] at su
      rw [hpv'] at sv
      exact (C09_bond_roundtrip env q.1 q.2.1 q.2.2.1 bt q.2.2.2 hbt su sv hbs).2.1)]
  exact ctabMeaning_file env g hg hn he

/-- a well-formed networkx graph has unique node labels, lists every bond once, between nodes -/
theorem GraphOk.of_WF {g : Graph} (hg : g.WF) : GraphOk g := by
  have hkeys : g.nodesData.map Prod.fst = g.nodeList := rfl
  refine ⟨by rw [hkeys]; exact hg.node_wf, Graph.nodup_edges hg, ?_⟩
  intro e he
  have hmem : (e.1, e.2.1) ∈ g.edges := List.mem_map.2 ⟨e, he, rfl⟩
  have h1 := Graph.mem_edges_imp hg hmem
  have h2 := Graph.WF.mem_nbrs_symm hg h1
  rw [hkeys]; exact ⟨hg.nbr_mem _ _ h2, hg.nbr_mem _ _ h1⟩

/-- **C09.** For a well-formed molecule graph whose attributes are in the format's ranges, the writer
terminates with a text (i) all of whose lines, as the reader's `splitlines()` sees them, have at most 79
characters (80 with the newline), and (ii) from which the V3000 reader recovers the atoms in node order
(element, atomic number, partition 0, coordinates to six decimals, charge, isotope mass, radical) and
the bonds in edge order with their types. -/
theorem C09 (env : DepEnv) (g : Graph) (fuel fuel' : Nat) (hg : g.WF)
    (hok : ∀ p ∈ g.nodesData, NodeOk p.2) (hn : ∀ p ∈ g.nodesData, NodeRT env p) (he : ∀ e ∈ g.edgesData, EdgeRT e)
    (hna : g.nodesData.length < 10 ^ 4300) (hnb : g.edgesData.length < 10 ^ 4300)
    (hstamp : env.nowStamp.length = 10) (hv : Plain env.version) (hs : Plain env.nowStamp) (hp : PlainValues env g)
    (hf : maxLen (logicalLines env g) / 71 + 1 ≤ fuel) (hf' : (fileLines env g).length + 1 ≤ fuel') :
    ∃ text, Tucan.molfile_writer.graph_to_molfile env fuel g false = .ok text ∧
      (∀ l ∈ splitlines text, l.length ≤ 79) ∧
      Tucan.molfile_v3000_reader.graph_attributes_from_molfile_v3000 env fuel' (splitlines text) =
        .ok (atomsBack env g, bondsBack g) := by
  refine ⟨_, graph_to_molfile_ok env fuel g hok hf, ?_, ?_⟩
  · rw [C09_splitlines env g hv hs hp]
    exact C09_line_length env g hstamp
  · rw [C09_splitlines env g hv hs hp]
    exact C09_file_roundtrip env g fuel' (GraphOk.of_WF hg) hn he hna hnb hf'

#print axioms graph_to_molfile_ok
#print axioms C09_line_length
#print axioms C09_split_lines
#print axioms C09_splice
#print axioms C09_atom_roundtrip
#print axioms C09_bond_roundtrip
#print axioms C09_splitlines
#print axioms C09_file_roundtrip
#print axioms C09

end Contracts.Writer
