/-
Contracts.Writer — the V3000 molfile writer (`tucan/io/molfile_writer.py`), property C09:
the text produced from a molecule graph is a well-formed V3000 file with no physical line longer than
79 characters (80 with the newline), and the V3000 reader reads back the same atoms and bonds.

Spec functions (`atomLogical`, `bondLogical`, `logicalLines`, `header`, `fileLines`) are written from
the CTfile V3000 format text; `wrap` / `splice` / `tokens` come from Contracts.V30Line.
-/
import Contracts.V30Line
import Contracts.V3000
set_option autoImplicit false
open Py
open Contracts.V30Line

namespace Contracts.Writer

/-! ## 1. spec: the logical lines of a V3000 connection table -/

/-- an integer-valued optional attribute (charge, radical, isotope mass) -/
def intAttr (attrs : Attrs) (k : String) : Option Int :=
  match attrs.get? k with
  | some (Val.int i) => some i
  | _ => none

/-- a coordinate attribute, default 0 -/
def coord (attrs : Attrs) (k : String) : Val := (attrs.get? k).getD (Val.int 0)

/-- the element symbol as text -/
def symbolOf (attrs : Attrs) : Str :=
  match attrs.get? "element_symbol" with
  | some v => pyStr v
  | none => []

/-- ` CHG=c` for a charge `c` with `0 < |c| ≤ 15` -/
def chgField (attrs : Attrs) : Str :=
  match intAttr attrs "chg" with
  | some c => if c ≠ 0 ∧ -15 ≤ c ∧ c ≤ 15 then py!" CHG=" ++ pyStrInt c else []
  | none => []

/-- ` RAD=r` for `1 ≤ r ≤ 3` -/
def radField (attrs : Attrs) : Str :=
  match intAttr attrs "rad" with
  | some r => if 1 ≤ r ∧ r ≤ 3 then py!" RAD=" ++ pyStrInt r else []
  | none => []

/-- ` MASS=m` for `m > 0` -/
def massField (attrs : Attrs) : Str :=
  match intAttr attrs "mass" with
  | some m => if 0 < m then py!" MASS=" ++ pyStrInt m else []
  | none => []

/-- atom line `index type x y z aamap [CHG=] [RAD=] [MASS=]` (1-based index, no atom-atom mapping) -/
def atomLogical (env : DepEnv) (p : Int × Attrs) : Str :=
  pyStrInt (p.1 + 1) ++ py!" " ++ symbolOf p.2 ++ py!" " ++ env.fmt6 (coord p.2 "x_coord") ++ py!" " ++
    env.fmt6 (coord p.2 "y_coord") ++ py!" " ++ env.fmt6 (coord p.2 "z_coord") ++ py!" 0" ++
    chgField p.2 ++ radField p.2 ++ massField p.2

/-- the bond type as text, default 1 -/
def bondTypeOf (attrs : Attrs) : Str := pyStr ((attrs.get? "bond_type").getD (Val.int 1))

/-- bond line `index type atom1 atom2` (1-based atom numbers) -/
def bondLogical (p : Int × Int × Int × Attrs) : Str :=
  pyStrInt p.1 ++ py!" " ++ bondTypeOf p.2.2.2 ++ py!" " ++ pyStrInt (p.2.1 + 1) ++ py!" " ++ pyStrInt (p.2.2.1 + 1)

/-- number the items of a list from 1 -/
def numbered {α} (l : List α) : List (Int × α) := l.zipIdx.map (fun p => ((p.2 : Int) + 1, p.1))

def atomLines (env : DepEnv) (g : Graph) : List Str := g.nodesData.map (atomLogical env)
def bondLines (g : Graph) : List Str := (numbered g.edgesData).map bondLogical

def countsLine (n m : Nat) : Str :=
  py!"COUNTS " ++ pyStrInt n ++ py!" " ++ pyStrInt m ++ py!" 0 0 0"

/-- the bond block is omitted when there are no bonds -/
def bondBlock (g : Graph) : List Str :=
  if g.edgesData.length = 0 then [] else [py!"BEGIN BOND"] ++ bondLines g ++ [py!"END BOND"]

/-- the logical (unwrapped, without `M  V30 `) lines of the connection table -/
def logicalLines (env : DepEnv) (g : Graph) : List Str :=
  [py!"BEGIN CTAB", countsLine g.nodesData.length g.edgesData.length, py!"BEGIN ATOM"] ++ atomLines env g ++
    [py!"END ATOM"] ++ bondBlock g ++ [py!"END CTAB"]

/-- program name field: `TUCAN` and the first three characters of the version without dots, blank-padded -/
def progName (env : DepEnv) : Str :=
  py!"TUCAN" ++ padRight ((replaceAll env.version py!"." py!"").take 3) 3 ' '

/-- header block: molecule name, program/timestamp/dimension line, comment, V3000 counts line -/
def header (env : DepEnv) : List Str :=
  [py!"", py!"  " ++ progName env ++ env.nowStamp ++ py!"3D", py!"", py!"  0  0  0     0  0            999 V3000"]

/-- all physical lines of the file -/
def fileLines (env : DepEnv) (g : Graph) : List Str :=
  header env ++ (logicalLines env g).flatMap wrap ++ [py!"M  END"]

/-- every node carries an element symbol (otherwise the writer raises `KeyError`) and the isotope
mass, if present, is an integer -/
def NodeOk (attrs : Attrs) : Prop :=
  attrs.contains "element_symbol" = true ∧ (∀ v, attrs.get? "mass" = some v → ∃ m : Int, v = Val.int m)

/-! ## 2. contracts of the writer functions -/

theorem slice_0_take {α} (l : List α) (k : Nat) : slice l (some (0 : Int)) (some (k : Int)) = l.take k := by
  have h : ¬ ((k : Int) < 0) := by omega
  simp [slice, clampIndex, h, take_min_length]

theorem _add_header_ok (env : DepEnv) (lines : List Str) :
    Tucan.molfile_writer._add_header env lines = .ok (lines ++ header env) := by
  unfold Tucan.molfile_writer._add_header header progName
  have := slice_0_take (replaceAll env.version py!"." py!"") 3
  simp only [Nat.cast_ofNat] at this
  simp [pyStr, this]

/-- a `for` loop whose body appends the wrapped line `f x` -/
theorem forIn_wrap_loop {α : Type} (f : α → Str) (body : α → List Str → M (ForInStep (List Str))) (xs : List α)
    (hbody : ∀ x ∈ xs, ∀ lines, body x lines = .ok (.yield (lines ++ wrap (f x)))) :
    ∀ lines, forIn xs lines body = .ok (lines ++ (xs.map f).flatMap wrap) := by
  induction xs with
  | nil => intro lines; simp
  | cons x xs ih =>
    intro lines
    rw [List.forIn_cons, hbody x (by simp) lines]
    simp only [Py.ok_bind]
    rw [ih (fun y hy => hbody y (by simp [hy]))]
    simp

theorem truthy_false : truthy false = false := rfl

theorem chgField_eq (attrs : Attrs) :
    (if (truthy (Dict.get? attrs "chg") && (pyLe (-15 : Int) (Dict.get? attrs "chg") && pyLe (Dict.get? attrs "chg") (15 : Int))) = true
      then py!" CHG=" ++ pyStr (Dict.get? attrs "chg") else py!"") = chgField attrs := by
  unfold chgField intAttr
  rcases Dict.get? attrs "chg" with _ | ⟨⟨_ | b | i | f | s⟩ | l⟩
  all_goals simp [truthy, pyLe, PyCmp.gt, pyGt, POrd.lt, Val.lt, Sc.lt, Sc.tag, pyStr]

theorem radField_eq (attrs : Attrs) :
    (if (truthy (Dict.get? attrs "rad") && (pyLt (0 : Int) (Dict.get? attrs "rad") && pyLe (Dict.get? attrs "rad") (3 : Int))) = true
      then py!" RAD=" ++ pyStr (Dict.get? attrs "rad") else py!"") = radField attrs := by
  unfold radField intAttr
  rcases Dict.get? attrs "rad" with _ | ⟨⟨_ | b | i | f | s⟩ | l⟩
  all_goals simp [truthy, pyLe, pyLt, PyCmp.lt, PyCmp.gt, pyGt, POrd.lt, Val.lt, Sc.lt, Sc.tag, pyStr]
  all_goals (congr 1; apply propext; constructor <;> intro h <;> omega)

theorem massField_eq (attrs : Attrs) (h : ∀ v, attrs.get? "mass" = some v → ∃ m : Int, v = Val.int m) :
    (if (truthy (Dict.get? attrs "mass") && pyGt (Dict.get? attrs "mass") (0 : Int)) = true
      then py!" MASS=" ++ pyStr (Dict.get? attrs "mass") else py!"") = massField attrs := by
  unfold massField intAttr
  rcases hm : Dict.get? attrs "mass" with _ | v
  · simp [truthy, pyGt, PyCmp.gt]
  · obtain ⟨m, rfl⟩ := h v hm
    simp [truthy, PyCmp.gt, pyGt, POrd.lt, Val.lt, Sc.lt, pyStr]
    congr 1; apply propext; constructor <;> intro h <;> omega

theorem _add_atom_block_ok (env : DepEnv) (fuel : Nat) (lines : List Str) (g : Graph)
    (hn : ∀ p ∈ g.nodesData, NodeOk p.2)
    (hf : ∀ l ∈ [py!"BEGIN ATOM"] ++ atomLines env g ++ [py!"END ATOM"], l.length / 71 + 1 ≤ fuel) :
    Tucan.molfile_writer._add_atom_block env fuel lines g false =
      .ok (lines ++ ([py!"BEGIN ATOM"] ++ atomLines env g ++ [py!"END ATOM"]).flatMap wrap) := by
  unfold Tucan.molfile_writer._add_atom_block
  simp only [truthy_false, Bool.false_eq_true, if_false]
  rw [add_v30_line_ok env fuel lines _ (hf _ (by simp))]
  simp only [Py.ok_bind, pyIter_list]
  rw [forIn_wrap_loop (atomLogical env)]
  · rw [Py.ok_bind, add_v30_line_ok env fuel _ _ (hf _ (by simp))]
    simp [atomLines]
  · rintro ⟨index, attrs⟩ hx lines
    obtain ⟨hsym, hmass⟩ := hn _ hx
    simp only [chgField_eq, radField_eq, massField_eq attrs hmass]
    have hget : ∃ v, Dict.get? attrs "element_symbol" = some v := by
      simpa [Dict.contains, Option.isSome_iff_exists] using hsym
    obtain ⟨v, hv⟩ := hget
    have hgi : (getItem attrs "element_symbol" : M Val) = .ok v := by
      simp [getItem, toKey, hv]
    simp only [hgi, Py.ok_bind, Py.pure_eq_ok]
    have key : ∀ l, l = atomLogical env (index, attrs) →
        (Tucan.molfile_writer._add_v30_line env fuel lines l >>= fun lines_2 => pure (ForInStep.yield lines_2)) =
          (.ok (ForInStep.yield (lines ++ wrap (atomLogical env (index, attrs)))) : M _) := by
      intro l hl
      rw [hl, add_v30_line_ok env fuel lines _ (hf _ (by simp [atomLines]; exact Or.inr (Or.inl ⟨_, _, hx, rfl⟩)))]
      rfl
    apply key
    simp [atomLogical, symbolOf, hv, coord, pyStr, toVal, Dict.getD]

theorem enumerate_cons {α} (a : α) (l : List α) (s : Int) : enumerate (a :: l) s = (s, a) :: enumerate l (s + 1) := by
  simp only [enumerate, List.length_cons, List.range_succ_eq_map, List.map_cons, List.zip_cons_cons, List.map_map]
  congr 2
  · simp
  · apply List.map_congr_left
    intro i _
    simp only [Function.comp, Int.ofNat_eq_natCast]
    push_cast; omega

theorem enumerate_eq_zipIdx {α} (l : List α) : ∀ k : Nat,
    enumerate l ((k : Int) + 1) = (l.zipIdx k).map (fun p => ((p.2 : Int) + 1, p.1)) := by
  induction l with
  | nil => intro k; simp [enumerate]
  | cons a l ih =>
    intro k
    rw [enumerate_cons, List.zipIdx_cons, List.map_cons]
    have := ih (k + 1)
    push_cast at this
    rw [this]

theorem enumerate_one {α} (l : List α) : enumerate l 1 = numbered l := by
  have := enumerate_eq_zipIdx l 0
  simpa [numbered] using this

theorem _add_bond_block_ok (env : DepEnv) (fuel : Nat) (lines : List Str) (g : Graph)
    (hf : ∀ l ∈ bondBlock g, l.length / 71 + 1 ≤ fuel) :
    Tucan.molfile_writer._add_bond_block env fuel lines g = .ok (lines ++ (bondBlock g).flatMap wrap) := by
  unfold Tucan.molfile_writer._add_bond_block
  by_cases hm : g.edgesData.length = 0
  · have : pyEq (Graph.numberOfEdges g) (0 : Int) = true := by
      simp [pyEq, PyCmp.eq, Graph.numberOfEdges, hm]
    simp [this, bondBlock, hm]
  · have : pyEq (Graph.numberOfEdges g) (0 : Int) = false := by
      simp [pyEq, PyCmp.eq, Graph.numberOfEdges, hm]
    have hbb : bondBlock g = [py!"BEGIN BOND"] ++ bondLines g ++ [py!"END BOND"] := by simp [bondBlock, hm]
    rw [hbb] at hf ⊢
    simp only [this, Bool.false_eq_true, if_false]
    rw [add_v30_line_ok env fuel lines _ (hf _ (by simp))]
    simp only [Py.ok_bind, pyIter_list, enumerate_one]
    rw [forIn_wrap_loop bondLogical]
    · rw [Py.ok_bind, add_v30_line_ok env fuel _ _ (hf _ (by simp))]
      simp [bondLines]
    · rintro ⟨k, u, v, attrs⟩ hx lines
      have key : ∀ l, l = bondLogical (k, u, v, attrs) →
          (Tucan.molfile_writer._add_v30_line env fuel lines l >>= fun lines_2 => pure (ForInStep.yield lines_2)) =
            (.ok (ForInStep.yield (lines ++ wrap (bondLogical (k, u, v, attrs)))) : M _) := by
        intro l hl
        rw [hl, add_v30_line_ok env fuel lines _ (hf _ (by simp [bondLines]; exact Or.inr (Or.inl ⟨_, _, _, _, hx, rfl⟩)))]
        rfl
      apply key
      simp [bondLogical, bondTypeOf, pyStr, toVal, Dict.getD]

/-- length of the longest line -/
def maxLen (ls : List Str) : Nat := (ls.map List.length).foldr max 0

theorem le_maxLen {ls : List Str} {l : Str} (h : l ∈ ls) : l.length ≤ maxLen ls := by
  induction ls with
  | nil => simp at h
  | cons a r ih =>
    rcases List.mem_cons.mp h with rfl | h
    · simp [maxLen]
    · have := ih h
      simp only [maxLen, List.map_cons, List.foldr_cons] at this ⊢
      omega

/-- **C09, writer.** With fuel for the longest logical line, the writer returns the header, every
logical line of the connection table wrapped, and `M  END`, joined by newlines. -/
theorem graph_to_molfile_ok' (env : DepEnv) (fuel : Nat) (g : Graph)
    (hn : ∀ p ∈ g.nodesData, NodeOk p.2)
    (hf : ∀ l ∈ logicalLines env g, l.length / 71 + 1 ≤ fuel) :
    Tucan.molfile_writer.graph_to_molfile env fuel g false = .ok (join py!"\n" (fileLines env g)) := by
  unfold Tucan.molfile_writer.graph_to_molfile
  have hcounts : py!"COUNTS " ++ pyStr (Graph.numberOfNodes g) ++ py!" " ++ pyStr (Graph.numberOfEdges g) ++ py!" 0 0 0" =
      countsLine g.nodesData.length g.edgesData.length := by
    simp [countsLine, pyStr, Graph.numberOfNodes, Graph.numberOfEdges, Graph.nodesData]
  simp only [_add_header_ok, Py.ok_bind, hcounts]
  rw [add_v30_line_ok env fuel _ _ (hf _ (by simp [logicalLines]))]
  simp only [Py.ok_bind]
  rw [add_v30_line_ok env fuel _ _ (hf _ (by simp [logicalLines]))]
  simp only [Py.ok_bind]
  rw [_add_atom_block_ok env fuel _ g hn (fun l hl => hf l (by
    simp only [logicalLines, List.mem_append, List.mem_cons, List.not_mem_nil, or_false] at hl ⊢; tauto))]
  simp only [Py.ok_bind]
  rw [_add_bond_block_ok env fuel _ g (fun l hl => hf l (by
    simp only [logicalLines, List.mem_append]; tauto))]
  simp only [Py.ok_bind]
  rw [add_v30_line_ok env fuel _ _ (hf _ (by simp [logicalLines]))]
  simp [fileLines, logicalLines, List.flatMap_append]

theorem graph_to_molfile_ok (env : DepEnv) (fuel : Nat) (g : Graph)
    (hn : ∀ p ∈ g.nodesData, NodeOk p.2)
    (hf : maxLen (logicalLines env g) / 71 + 1 ≤ fuel) :
    Tucan.molfile_writer.graph_to_molfile env fuel g false = .ok (join py!"\n" (fileLines env g)) :=
  graph_to_molfile_ok' env fuel g hn (fun l hl => by
    have := le_maxLen hl
    have : l.length / 71 ≤ maxLen (logicalLines env g) / 71 := Nat.div_le_div_right this
    omega)

/-! ## 3. C09: line length, and the text splits back into the physical lines -/

theorem length_progName (env : DepEnv) : (progName env).length = 8 := by
  simp only [progName, padRight, List.length_append, List.length_replicate, List.length_take, List.length_cons,
    List.length_nil]
  omega

theorem header_length_le (env : DepEnv) (hstamp : env.nowStamp.length ≤ 67) : ∀ p ∈ header env, p.length ≤ 79 := by
  intro p hp
  simp only [header, List.mem_cons, List.not_mem_nil, or_false] at hp
  rcases hp with rfl | rfl | rfl | rfl
  · simp
  · simp only [List.length_append, length_progName]; simp; omega
  · simp
  · simp

/-- **C09, line length.** No physical line of the file is longer than 79 characters (80 with the newline),
whatever the lengths of the logical lines. -/
theorem C09_line_length' (env : DepEnv) (g : Graph) (hstamp : env.nowStamp.length ≤ 67) :
    ∀ p ∈ fileLines env g, p.length ≤ 79 := by
  intro p hp
  simp only [fileLines, List.mem_append, List.mem_flatMap, List.mem_cons, List.not_mem_nil, or_false] at hp
  rcases hp with (hp | ⟨l, _, hp⟩) | rfl
  · exact header_length_le env hstamp p hp
  · exact wrap_length_le l p hp
  · simp

theorem C09_line_length (env : DepEnv) (g : Graph) (hstamp : env.nowStamp.length = 10) :
    ∀ p ∈ fileLines env g, p.length ≤ 79 :=
  C09_line_length' env g (by omega)

/-! ### `split` on a one-character separator undoes `join` -/

/-- `s.split(c)` by structural recursion -/
def splitC (c : Char) : Str → Str → List Str
  | [], cur => [cur.reverse]
  | d :: ds, cur => if d = c then cur.reverse :: splitC c ds [] else splitC c ds (d :: cur)

theorem splitOnAux_eq_splitC (c : Char) (s : Str) : ∀ (fuel : Nat) (cur : Str), s.length ≤ fuel →
    splitOnAux [c] fuel s cur = splitC c s cur := by
  induction s with
  | nil => intro fuel cur _; cases fuel <;> simp [splitOnAux, splitC]
  | cons d ds ih =>
    intro fuel cur hf
    cases fuel with
    | zero => simp at hf
    | succ fuel =>
      simp only [List.length_cons, Nat.add_le_add_iff_right] at hf
      by_cases hd : d = c
      · subst hd
        simp [splitOnAux, splitC, ih fuel [] hf]
      · have hd' : ¬ c = d := fun e => hd e.symm
        simp [splitOnAux, splitC, hd, hd', ih fuel (d :: cur) hf]

theorem split_eq_splitC (c : Char) (s : Str) : split s [c] = splitC c s [] :=
  splitOnAux_eq_splitC c s _ _ (by omega)

theorem splitC_no (c : Char) (t : Str) (h : c ∉ t) : ∀ cur, splitC c t cur = [cur.reverse ++ t] := by
  induction t with
  | nil => intro cur; simp [splitC]
  | cons d ds ih =>
    intro cur
    have hd : d ≠ c := fun e => h (by simp [e])
    simp [splitC, hd, ih (fun hc => h (by simp [hc]))]

theorem splitC_sep (c : Char) (t rest : Str) (h : c ∉ t) : ∀ cur,
    splitC c (t ++ c :: rest) cur = (cur.reverse ++ t) :: splitC c rest [] := by
  induction t with
  | nil => intro cur; simp [splitC]
  | cons d ds ih =>
    intro cur
    have hd : d ≠ c := fun e => h (by simp [e])
    simp [splitC, hd, ih (fun hc => h (by simp [hc]))]

theorem join_cons_cons (sep a b : Str) (r : List Str) : join sep (a :: b :: r) = a ++ sep ++ join sep (b :: r) := by
  simp [join, List.intercalate, List.intersperse]

theorem join_singleton (sep a : Str) : join sep [a] = a := by
  simp [join, List.intercalate, List.intersperse]

/-- `c.join(ts).split(c) == ts` for a non-empty list of strings without `c` -/
theorem splitC_join (c : Char) : ∀ (ts : List Str), ts ≠ [] → (∀ t ∈ ts, c ∉ t) → splitC c (join [c] ts) [] = ts
  | [], h, _ => absurd rfl h
  | [a], _, h => by rw [join_singleton, splitC_no c a (h a (by simp))]; simp
  | a :: b :: r, _, h => by
    rw [join_cons_cons, List.append_assoc, List.singleton_append, splitC_sep c a _ (h a (by simp)),
      splitC_join c (b :: r) (by simp) (fun t ht => h t (by simp [ht]))]
    simp

theorem split_join (c : Char) (ts : List Str) (hne : ts ≠ []) (h : ∀ t ∈ ts, c ∉ t) : split (join [c] ts) [c] = ts := by
  rw [split_eq_splitC, splitC_join c ts hne h]

/-! ### which characters occur in the file -/

theorem pyStrInt_eq (n : Int) :
    pyStrInt n = if 0 ≤ n then Nat.toDigits 10 n.toNat else '-' :: Nat.toDigits 10 (-n).toNat := by
  unfold pyStrInt
  rw [Int.toString_eq_repr, Int.repr_eq_if]
  split <;> simp

theorem mem_pyStrInt (n : Int) : ∀ c ∈ pyStrInt n, c.isDigit = true ∨ c = '-' := by
  intro c hc
  rw [pyStrInt_eq] at hc
  split at hc
  · exact Or.inl (Nat.isDigit_of_mem_toDigits (by decide) (by decide) hc)
  · rcases List.mem_cons.mp hc with rfl | hc
    · exact Or.inr rfl
    · exact Or.inl (Nat.isDigit_of_mem_toDigits (by decide) (by decide) hc)

theorem nl_not_mem_pyStrInt (n : Int) : '\n' ∉ pyStrInt n := by
  intro h
  rcases mem_pyStrInt n _ h with h | h
  · exact absurd h (by decide)
  · exact absurd h (by decide)

theorem mem_wrap (l : Str) : ∀ p ∈ wrap l, ∀ c ∈ p, c ∈ v30 ∨ c ∈ l ∨ c = '-' := by
  induction l using wrap.induct with
  | case1 l h =>
    intro p hp c hc
    rw [wrap_of_le h] at hp
    simp only [List.mem_singleton] at hp; subst hp
    rcases List.mem_append.mp hc with hc | hc
    · exact Or.inl hc
    · exact Or.inr (Or.inl hc)
  | case2 l h ih =>
    intro p hp c hc
    rw [wrap_of_gt h] at hp
    rcases List.mem_cons.mp hp with rfl | hp
    · simp only [List.mem_append, List.mem_singleton] at hc
      rcases hc with (hc | hc) | hc
      · exact Or.inl hc
      · exact Or.inr (Or.inl (List.mem_of_mem_take hc))
      · exact Or.inr (Or.inr hc)
    · rcases ih p hp c hc with h1 | h1 | h1
      · exact Or.inl h1
      · exact Or.inr (Or.inl (List.mem_of_mem_drop h1))
      · exact Or.inr (Or.inr h1)

theorem mem_replaceAllAux (old new : Str) (c : Char) : ∀ (fuel : Nat) (s : Str),
    c ∈ replaceAllAux old new fuel s → c ∈ s ∨ c ∈ new := by
  intro fuel
  induction fuel with
  | zero => intro s h; exact Or.inl (by simpa [replaceAllAux] using h)
  | succ fuel ih =>
    intro s h
    cases s with
    | nil => simp [replaceAllAux] at h
    | cons d ds =>
      simp only [replaceAllAux] at h
      split at h
      · rcases List.mem_append.mp h with h | h
        · exact Or.inr h
        · rcases ih _ h with h | h
          · exact Or.inl (List.mem_of_mem_drop h)
          · exact Or.inr h
      · rcases List.mem_cons.mp h with rfl | h
        · exact Or.inl (by simp)
        · rcases ih _ h with h | h
          · exact Or.inl (by simp [h])
          · exact Or.inr h

/-- the header contains no newline if the version string and the time stamp contain none -/
theorem nl_not_mem_header (env : DepEnv) (hv : '\n' ∉ env.version) (hs : '\n' ∉ env.nowStamp) :
    ∀ p ∈ header env, '\n' ∉ p := by
  have hprog : '\n' ∉ progName env := by
    intro h
    simp only [progName, padRight, List.mem_append, List.mem_replicate] at h
    rcases h with h | h | h
    · revert h; decide
    · rcases mem_replaceAllAux _ _ _ _ _ (List.mem_of_mem_take h) with h | h
      · exact hv h
      · simp at h
    · exact absurd h.2 (by decide)
  intro p hp
  simp only [header, List.mem_cons, List.not_mem_nil, or_false] at hp
  rcases hp with rfl | rfl | rfl | rfl
  · simp
  · intro h
    simp only [List.mem_append] at h
    rcases h with ((h | h) | h) | h
    · revert h; decide
    · exact hprog h
    · exact hs h
    · revert h; decide
  · simp
  · decide

/-- the values the writer prints contain no newline: the formatted coordinates, the element symbols and
the bond types (`str()` of an integer never does) -/
structure NoNewline (env : DepEnv) (g : Graph) : Prop where
  fmt6 : ∀ v, '\n' ∉ env.fmt6 v
  sym : ∀ p ∈ g.nodesData, '\n' ∉ symbolOf p.2
  bond : ∀ e ∈ g.edgesData, '\n' ∉ bondTypeOf e.2.2

theorem nl_not_mem_field (pre : Str) (hpre : '\n' ∉ pre) (o : Option Int) (P : Int → Prop) [DecidablePred P] :
    '\n' ∉ (match o with | some c => if P c then pre ++ pyStrInt c else [] | none => []) := by
  cases o with
  | none => simp
  | some c =>
    by_cases h : P c
    · simp only [h, if_true, List.mem_append, not_or]; exact ⟨hpre, nl_not_mem_pyStrInt c⟩
    · simp [h]

theorem nl_not_mem_atomLogical (env : DepEnv) (p : Int × Attrs) (hfmt : ∀ v, '\n' ∉ env.fmt6 v)
    (hsym : '\n' ∉ symbolOf p.2) : '\n' ∉ atomLogical env p := by
  have h1 := nl_not_mem_field py!" CHG=" (by decide) (intAttr p.2 "chg") (fun c => c ≠ 0 ∧ -15 ≤ c ∧ c ≤ 15)
  have h2 := nl_not_mem_field py!" RAD=" (by decide) (intAttr p.2 "rad") (fun c => 1 ≤ c ∧ c ≤ 3)
  have h3 := nl_not_mem_field py!" MASS=" (by decide) (intAttr p.2 "mass") (fun c => 0 < c)
  simp only [atomLogical, List.mem_append, not_or, and_assoc]
  exact ⟨nl_not_mem_pyStrInt _, by decide, hsym, by decide, hfmt _, by decide, hfmt _, by decide, hfmt _, by decide,
    h1, h2, h3⟩

theorem nl_not_mem_bondLogical (p : Int × Int × Int × Attrs) (hb : '\n' ∉ bondTypeOf p.2.2.2) :
    '\n' ∉ bondLogical p := by
  simp only [bondLogical, List.mem_append, not_or, and_assoc]
  exact ⟨nl_not_mem_pyStrInt _, by decide, hb, by decide, nl_not_mem_pyStrInt _, by decide, nl_not_mem_pyStrInt _⟩

theorem mem_numbered {α} (l : List α) (p : Int × α) (h : p ∈ numbered l) : p.2 ∈ l := by
  simp only [numbered, List.mem_map] at h
  obtain ⟨q, hq, rfl⟩ := h
  have h := (List.mem_zipIdx' hq).2
  rw [h]; exact List.getElem_mem _

theorem nl_not_mem_logicalLines (env : DepEnv) (g : Graph) (h : NoNewline env g) :
    ∀ l ∈ logicalLines env g, '\n' ∉ l := by
  intro l hl
  simp only [logicalLines, List.mem_append, List.mem_cons, List.not_mem_nil, or_false] at hl
  rcases hl with ((((rfl | rfl | rfl) | hl) | rfl) | hl) | rfl
  · decide
  · simp only [countsLine, List.mem_append, not_or, and_assoc]
    exact ⟨by decide, nl_not_mem_pyStrInt _, by decide, nl_not_mem_pyStrInt _, by decide⟩
  · decide
  · simp only [atomLines, List.mem_map] at hl
    obtain ⟨p, hp, rfl⟩ := hl
    exact nl_not_mem_atomLogical env p h.fmt6 (h.sym p hp)
  · decide
  · unfold bondBlock at hl
    split at hl
    · simp at hl
    · simp only [List.mem_append, List.mem_cons, List.not_mem_nil, or_false, bondLines, List.mem_map] at hl
      rcases hl with (rfl | ⟨p, hp, rfl⟩) | rfl
      · decide
      · exact nl_not_mem_bondLogical p (h.bond p.2 (mem_numbered _ p hp))
      · decide
  · decide

theorem nl_not_mem_fileLines (env : DepEnv) (g : Graph) (hv : '\n' ∉ env.version) (hs : '\n' ∉ env.nowStamp)
    (h : NoNewline env g) : ∀ p ∈ fileLines env g, '\n' ∉ p := by
  intro p hp
  simp only [fileLines, List.mem_append, List.mem_flatMap, List.mem_cons, List.not_mem_nil, or_false] at hp
  rcases hp with (hp | ⟨l, hl, hp⟩) | rfl
  · exact nl_not_mem_header env hv hs p hp
  · intro hc
    rcases mem_wrap l p hp _ hc with h1 | h1 | h1
    · revert h1; decide
    · exact nl_not_mem_logicalLines env g h l hl h1
    · revert h1; decide
  · decide

/-- **C09, physical lines.** Splitting the produced text at newlines gives back exactly the physical
lines `fileLines` (so `C09_line_length` speaks about the lines of the file). -/
theorem C09_split_lines (env : DepEnv) (g : Graph) (hv : '\n' ∉ env.version) (hs : '\n' ∉ env.nowStamp)
    (h : NoNewline env g) : split (join py!"\n" (fileLines env g)) py!"\n" = fileLines env g :=
  split_join '\n' (fileLines env g) (by simp [fileLines]) (nl_not_mem_fileLines env g hv hs h)

/-! ## 4. C09: the reader's splicing undoes the wrapping -/

/-- "does not end in a dash" is preserved by appending such strings -/
theorem getLast?_append_ne (a b : Str) (ha : a.getLast? ≠ some '-') (hb : b.getLast? ≠ some '-') :
    (a ++ b).getLast? ≠ some '-' := by
  rw [List.getLast?_append]
  cases h : b.getLast? with
  | none => simpa using ha
  | some c => rw [h] at hb; simpa using hb

theorem getLast?_toDigits (n : Nat) : (Nat.toDigits 10 n).getLast? ≠ some '-' := by
  intro h
  have hm := List.mem_of_getLast? h
  exact absurd (Nat.isDigit_of_mem_toDigits (by decide) (by decide) hm) (by decide)

/-- `str()` of an integer ends in a digit -/
theorem getLast?_pyStrInt (n : Int) : (pyStrInt n).getLast? ≠ some '-' := by
  rw [pyStrInt_eq]
  split
  · exact getLast?_toDigits _
  · rw [List.getLast?_cons_of_ne_nil Nat.toDigits_ne_nil]
    exact getLast?_toDigits _

theorem getLast?_field (pre : Str) (o : Option Int) (P : Int → Prop) [DecidablePred P] :
    (match o with | some c => if P c then pre ++ pyStrInt c else [] | none => []).getLast? ≠ some '-' := by
  cases o with
  | none => simp
  | some c =>
    by_cases h : P c
    · simp only [h, if_true]
      rw [List.getLast?_append]
      cases h' : (pyStrInt c).getLast? with
      | none => exact absurd (List.getLast?_eq_none_iff.mp h') (by
          rw [pyStrInt_eq]; split <;> simp [Nat.toDigits_ne_nil])
      | some d => have := getLast?_pyStrInt c; rw [h'] at this; simpa using this
    · simp [h]

/-- an atom line ends in the `0` of the atom-atom mapping or in the digits of CHG/RAD/MASS -/
theorem getLast?_atomLogical (env : DepEnv) (p : Int × Attrs) : (atomLogical env p).getLast? ≠ some '-' := by
  unfold atomLogical
  refine getLast?_append_ne _ _ (getLast?_append_ne _ _ (getLast?_append_ne _ _ ?_ ?_) ?_) ?_
  · rw [List.getLast?_append]; simp
  · exact getLast?_field _ _ (fun c => c ≠ 0 ∧ -15 ≤ c ∧ c ≤ 15)
  · exact getLast?_field _ _ (fun c => 1 ≤ c ∧ c ≤ 3)
  · exact getLast?_field _ _ (fun c => 0 < c)

theorem getLast?_append_of_ne (a b : Str) (hb : b.getLast? ≠ some '-') (hne : b ≠ []) :
    (a ++ b).getLast? ≠ some '-' := by
  rw [List.getLast?_append]
  cases h : b.getLast? with
  | none => exact absurd (List.getLast?_eq_none_iff.mp h) hne
  | some c => rw [h] at hb; simpa using hb

theorem pyStrInt_ne_nil (n : Int) : pyStrInt n ≠ [] := by
  rw [pyStrInt_eq]; split <;> simp [Nat.toDigits_ne_nil]

theorem getLast?_bondLogical (p : Int × Int × Int × Attrs) : (bondLogical p).getLast? ≠ some '-' := by
  unfold bondLogical
  exact getLast?_append_of_ne _ _ (getLast?_pyStrInt _) (pyStrInt_ne_nil _)

/-- no logical line of the connection table ends in a dash (so no physical line is mistaken for a
continued line) -/
theorem getLast?_logicalLines (env : DepEnv) (g : Graph) : ∀ l ∈ logicalLines env g, l.getLast? ≠ some '-' := by
  intro l hl
  simp only [logicalLines, List.mem_append, List.mem_cons, List.not_mem_nil, or_false] at hl
  rcases hl with ((((rfl | rfl | rfl) | hl) | rfl) | hl) | rfl
  · decide
  · unfold countsLine
    exact getLast?_append_of_ne _ _ (by decide) (by decide)
  · decide
  · simp only [atomLines, List.mem_map] at hl
    obtain ⟨p, _, rfl⟩ := hl
    exact getLast?_atomLogical env p
  · decide
  · unfold bondBlock at hl
    split at hl
    · simp at hl
    · simp only [List.mem_append, List.mem_cons, List.not_mem_nil, or_false, bondLines, List.mem_map] at hl
      rcases hl with (rfl | ⟨p, _, rfl⟩) | rfl
      · decide
      · exact getLast?_bondLogical p
      · decide
  · decide

/-- a line that is not a continued line is passed through -/
theorem splice_cons_plain (l : Str) (rest : List Str) (hne : rest ≠ [])
    (h : (startswith l v30 && endswith l ['-']) = false) :
    splice (l :: rest) = (do let t ← splice rest; pure (l :: t)) := by
  obtain ⟨l₂, r, rfl⟩ := List.exists_cons_of_ne_nil hne
  rw [splice]
  simp [h]

theorem splice_flatMap_wrap (ls : List Str) (rest : List Str) (h : ∀ l ∈ ls, l.getLast? ≠ some '-') :
    splice (ls.flatMap wrap ++ rest) = (do let t ← splice rest; pure (ls.map (fun l => v30 ++ l) ++ t)) := by
  induction ls with
  | nil => simp; cases splice rest <;> rfl
  | cons l ls ih =>
    rw [List.flatMap_cons, List.append_assoc, splice_wrap l _ (h l (by simp)), ih (fun l' hl' => h l' (by simp [hl']))]
    cases splice rest <;> simp

theorem header_not_continued (env : DepEnv) : ∀ p ∈ header env, (startswith p v30 && endswith p ['-']) = false := by
  intro p hp
  simp only [header, List.mem_cons, List.not_mem_nil, or_false] at hp
  rcases hp with rfl | rfl | rfl | rfl
  · decide
  · simp [startswith, v30]
  · decide
  · decide

/-- the spliced lines of the file: header, the logical lines with their `M  V30 ` prefix, `M  END` -/
def splicedLines (env : DepEnv) (g : Graph) : List Str :=
  header env ++ (logicalLines env g).map (fun l => v30 ++ l) ++ [py!"M  END"]

theorem splice_fileLines (env : DepEnv) (g : Graph) : splice (fileLines env g) = .ok (splicedLines env g) := by
  have hh := header_not_continued env
  have hbody : splice ((logicalLines env g).flatMap wrap ++ [py!"M  END"]) =
      .ok ((logicalLines env g).map (fun l => v30 ++ l) ++ [py!"M  END"]) := by
    rw [splice_flatMap_wrap _ _ (getLast?_logicalLines env g)]
    simp [splice]
  have hne : (logicalLines env g).flatMap wrap ++ [py!"M  END"] ≠ [] := by simp
  unfold fileLines splicedLines
  rw [List.append_assoc]
  generalize (logicalLines env g).flatMap wrap ++ [py!"M  END"] = body at hbody hne
  simp only [header] at hh ⊢
  simp only [List.cons_append, List.nil_append]
  rw [splice_cons_plain _ _ (by simp) (hh _ (by simp)), splice_cons_plain _ _ (by simp) (hh _ (by simp)),
    splice_cons_plain _ _ (by simp) (hh _ (by simp)), splice_cons_plain _ _ hne (hh _ (by simp)), hbody]
  simp

/-- **C09, splicing.** For every line length (no wrap, one wrap, several wraps) the reader's
tokenizer sees exactly the logical lines the writer was given. -/
theorem C09_splice (env : DepEnv) (g : Graph) (fuel : Nat) (hf : (fileLines env g).length + 1 ≤ fuel) :
    Tucan.molfile_v3000_reader._tokenize_lines env fuel (fileLines env g) =
      .ok ((header env).map tokens ++ (logicalLines env g).map (fun l => tokens (v30 ++ l)) ++ [tokens py!"M  END"]) := by
  rw [tokenize_lines_ok env fuel _ hf, splice_fileLines]
  simp [splicedLines, Function.comp_def]

end Contracts.Writer
