/-
Contracts.FileIsoWitness — non-vacuity of `FileIso.C01_C06_redescribed` / `C01_C06_files`: a concrete pair of V3000
files of deuterium fluoride that differ in the order of the atom lines, the index values, the spelling of the
isotope (`D` vs `H … MASS=2`), an explicit default (`RAD=0`, `CHG=0`), coordinates, bond type, bond direction,
header lines, and line-ending style (CRLF vs LF).
-/
import Contracts.FileIso
import Contracts.Witness
set_option autoImplicit false
open Py Py.Graph Contracts

namespace Contracts.FileIsoWitness
open Contracts.FileIso
open Contracts.Witness (env0 env1 env0_set env1_set env0_bliss env1_cp env1_pv isInt_of_eq noDash_of_check)
open Contracts.Reader (Ctab Dress exampleDress fileLines IsSep isSep_crlf isSep_lf)
open Contracts.V3000 (AtomLine BondLine IsInt intOf propInt hydrogenIsotope)
open Contracts.FinalLabels (fuelBound)
open Contracts.Pipeline (tucan)

/-- `D` (index 4) bonded to `F` (index 9) -/
def df : Ctab :=
  ⟨[⟨py!"4", py!"D", py!"0", py!"0", py!"0", py!"0", []⟩,
    ⟨py!"9", py!"F", py!"1.2", py!"0", py!"0", py!"0", [⟨py!"CHG", py!"0", []⟩]⟩],
   [⟨py!"1", py!"1", py!"4", py!"9", [], none⟩]⟩

/-- the fluorine first (index 1), then `H MASS=2 RAD=0` (index 2); the bond written from 1 to 2 with type 2 -/
def fd : Ctab :=
  ⟨[⟨py!"1", py!"F", py!"7", py!"7", py!"7", py!"0", [⟨py!"CFG", py!"1", []⟩]⟩,
    ⟨py!"2", py!"H", py!"0", py!"3", py!"0", py!"0", [⟨py!"MASS", py!"2", []⟩, ⟨py!"RAD", py!"0", []⟩]⟩],
   [⟨py!"1", py!"2", py!"1", py!"2", [], none⟩]⟩

theorem known_of (s : Str) (h : s ∈ Contracts.Parser.periodicTable) : ∃ Z, Contracts.V3000.atomicNumber s = .ok Z := by
  obtain ⟨n, hn⟩ := Contracts.V3000.atomicNumber_known s (by rw [Contracts.Parser.keys_eq_table]; exact h)
  exact ⟨_, hn⟩

theorem df_plain : df.Plain env0 where
  wf := by
    intro a ha
    simp only [df, List.mem_cons, List.not_mem_nil, or_false] at ha
    rcases ha with rfl | rfl
    · refine ⟨isInt_of_eq (n := 4) (by decide), by decide, by decide, by decide, by decide, by decide, ?_, by decide⟩
      intro p hp _; simp at hp
    · refine ⟨isInt_of_eq (n := 9) (by decide), by decide, by decide, by decide, by decide, by decide, ?_, by decide⟩
      intro p hp _
      simp only [List.mem_cons, List.not_mem_nil, or_false] at hp
      subst hp; exact isInt_of_eq (n := 0) (by decide)
  nostar := by decide
  known := by
    intro a ha
    simp only [df, List.mem_cons, List.not_mem_nil, or_false] at ha
    rcases ha with rfl | rfl
    · have e : (hydrogenIsotope py!"D").1 = py!"H" := by decide
      simp only [e]; exact known_of _ (by decide)
    · have e : (hydrogenIsotope py!"F").1 = py!"F" := by decide
      simp only [e]; exact known_of _ (by decide)
  coords := fun a _ => ⟨⟨_, rfl⟩, ⟨_, rfl⟩, ⟨_, rfl⟩⟩
  uniq := by decide
  bondInts := by
    intro b hb
    simp only [df, List.mem_cons, List.not_mem_nil, or_false] at hb
    subst hb
    exact ⟨isInt_of_eq (n := 4) (by decide), isInt_of_eq (n := 9) (by decide), isInt_of_eq (n := 1) (by decide)⟩
  bondEnds := by decide

theorem fd_plain : fd.Plain env0 where
  wf := by
    intro a ha
    simp only [fd, List.mem_cons, List.not_mem_nil, or_false] at ha
    rcases ha with rfl | rfl
    · refine ⟨isInt_of_eq (n := 1) (by decide), by decide, by decide, by decide, by decide, by decide, ?_, by decide⟩
      intro p hp hk
      simp only [List.mem_cons, List.not_mem_nil, or_false] at hp
      subst hp; exact isInt_of_eq (n := 1) (by decide)
    · refine ⟨isInt_of_eq (n := 2) (by decide), by decide, by decide, by decide, by decide, by decide, ?_, by decide⟩
      intro p hp _
      simp only [List.mem_cons, List.not_mem_nil, or_false] at hp
      rcases hp with rfl | rfl
      · exact isInt_of_eq (n := 2) (by decide)
      · exact isInt_of_eq (n := 0) (by decide)
  nostar := by decide
  known := by
    intro a ha
    simp only [fd, List.mem_cons, List.not_mem_nil, or_false] at ha
    rcases ha with rfl | rfl
    · have e : (hydrogenIsotope py!"F").1 = py!"F" := by decide
      simp only [e]; exact known_of _ (by decide)
    · have e : (hydrogenIsotope py!"H").1 = py!"H" := by decide
      simp only [e]; exact known_of _ (by decide)
  coords := fun a _ => ⟨⟨_, rfl⟩, ⟨_, rfl⟩, ⟨_, rfl⟩⟩
  uniq := by decide
  bondInts := by
    intro b hb
    simp only [fd, List.mem_cons, List.not_mem_nil, or_false] at hb
    subst hb
    exact ⟨isInt_of_eq (n := 1) (by decide), isInt_of_eq (n := 2) (by decide), isInt_of_eq (n := 2) (by decide)⟩
  bondEnds := by decide

/-- the renumbering of index values: 4 ↦ 2, 9 ↦ 1 -/
def rho (x : Int) : Int := if x = 4 then 2 else 1

/-- `fd` is another description of `df`: atom lines in the other order, `D` respelled as `H MASS=2`, bond reversed -/
theorem df_fd : Redescribed df fd rho where
  atoms := ⟨[fd.atoms[1], fd.atoms[0]], by
    refine List.Forall₂.cons ⟨by decide, by decide⟩ (List.Forall₂.cons ⟨by decide, by decide⟩ List.Forall₂.nil),
    List.Perm.swap _ _ _⟩
  bonds := ⟨fd.bonds, List.Forall₂.cons (Or.inr ⟨by decide, by decide⟩) List.Forall₂.nil, List.Perm.refl _⟩

theorem df_notNeg : ¬ df.NegMassRad := by
  rw [negMassRad_iff]
  rintro ⟨a, ha, h⟩
  simp only [df, List.mem_cons, List.not_mem_nil, or_false] at ha
  rcases ha with rfl | rfl
  · have e : identityOf ⟨py!"4", py!"D", py!"0", py!"0", py!"0", py!"0", []⟩ = ⟨py!"H", some 2, none⟩ := by decide
    rw [e] at h; simp at h
  · have e : identityOf ⟨py!"9", py!"F", py!"1.2", py!"0", py!"0", py!"0", [⟨py!"CHG", py!"0", []⟩]⟩ =
        ⟨py!"F", none, none⟩ := by decide
    rw [e] at h; simp at h

theorem df_dressOK : exampleDress.OK df where
  ver := by decide
  tail := by decide
  clean := by decide
  nodash := noDash_of_check _ _ (by decide)
  cntA := by decide
  cntB := by decide

theorem fd_dressOK : exampleDress.OK fd where
  ver := by decide
  tail := by decide
  clean := by decide
  nodash := noDash_of_check _ _ (by decide)
  cntA := by decide
  cntB := by decide

theorem bondShape (C : Ctab) (h : ∀ b ∈ C.bonds, b.endpts = none ∧ ∀ t ∈ [b.idx, b.typ, b.a1, b.a2] ++ b.pre, '(' ∉ t) :
    ∀ b ∈ C.bonds, b.Shape := by
  intro b hb
  exact ⟨(h b hb).2, by intro nums post e; rw [(h b hb).1] at e; cases e⟩

/-- **`FileIso.C01_C06_redescribed`, instance**: the CRLF file of `df` and the LF file of `fd` are both read and get
the same TUCAN string, under two `set` orders. -/
theorem C01_C06_witness :
    ∃ g g', Tucan.molfile_reader.graph_from_molfile_text env0 (((fileLines df exampleDress).drop 4).length + 1)
        (join py!"\r\n" (fileLines df exampleDress ++ [[]])) = .ok g ∧
      Tucan.molfile_reader.graph_from_molfile_text env0 (((fileLines fd exampleDress).drop 4).length + 1)
        (join py!"\n" (fileLines fd exampleDress ++ [[]])) = .ok g' ∧ fuelBound g' = fuelBound g ∧
      ∀ fuel ≥ fuelBound g, ∀ fuel' ≥ fuelBound g, ∃ s, tucan env0 fuel g = .ok s ∧ tucan env1 fuel' g' = .ok s := by
  have R : Rendering env0 df exampleDress (join py!"\r\n" (fileLines df exampleDress ++ [[]])) _ :=
    Rendering.of_join df_plain df_dressOK (bondShape df (by decide)) (le_refl _) _ isSep_crlf
      ⟨by decide, by decide, by decide⟩
  have R' : Rendering env0 fd exampleDress (join py!"\n" (fileLines fd exampleDress ++ [[]])) _ :=
    Rendering.of_join fd_plain fd_dressOK (bondShape fd (by decide)) (le_refl _) _ isSep_lf
      ⟨by decide, by decide, by decide⟩
  have hre : Redescribed df fd rho := df_fd
  have hneg : ¬ df.NegMassRad := df_notNeg
  have hself : ¬ df.SelfBond := by decide
  have hne : df.atoms ≠ [] := by decide
  exact C01_C06_redescribed env0 env0 env0_set env1_set env0_bliss env1_cp env1_pv R R' rho hre hneg hself hne

#print axioms C01_C06_witness

end Contracts.FileIsoWitness
