/-
Contracts.V2000File — C08, first clause, as a theorem about files (AUDIT findings 1 and 8).

 * `AMol`: an abstract molecule (atoms: element symbol incl. D/T, charge, radical, isotope mass, coordinate tokens;
   bonds: two distinct atom positions and a bond type), written from the file-format rules, not from the code.
 * `Choice`, `v2000Lines`, `renderV2000`: a V2000 renderer with the encoding freedoms of the format as parameters
   (header lines, rest of the counts line, charge codes vs `M  CHG`/`M  RAD` lines, `M  ISO` lines, grouping of
   entries into lines, unrelated property lines, rest of atom / bond lines, lines after `M  END`), `Choice.OK` its
   well-formedness.
 * `read_v2000_lines` / `read_v2000_render`: every rendering of a well-formed molecule is read as that molecule
   (`nodeSpec`: every attribute of every node; adjacency; bond types), and the graph satisfies `Final.IdOK`.
 * `toCtab`, `read_v3000_render`, `read_v2000_eq_v3000`: the V3000 rendering of the same molecule is read as the
   same nodes / attributes (all keys but the coordinates) / adjacency / bond types, hence the same TUCAN string
   (`Final.C08_agree` with `hsameA`, `hsameB` discharged: `sameA`, `sameB`).
 * `ChoiceL`, `lists_irrelevant`, `read_v2000_render_lists`, `read_v2000_eq_v3000_lists`: atom-list lines (`lll`).
 * `exMol`, `exChoice`, `exMol_wf`, `exChoice_ok`: a concrete rendering (checked against the real code) — the
   hypotheses are satisfiable.
 * `dMol`, `dChoice`, `read_D_iso5`: `D` with an `M  ISO` entry stating mass 5 for it is read as mass 2 (an ISO entry
   naming a `D` / `T` atom may state anything, `Choice.OK.entries`).
-/
import Contracts.Final
import Contracts.Bonds
set_option autoImplicit false
set_option linter.unusedSimpArgs false
set_option linter.unusedVariables false
set_option linter.unusedSectionVars false
set_option linter.unusedTactic false
set_option linter.unreachableTactic false
set_option linter.unnecessarySeqFocus false
open Py

namespace Contracts.V2000File

open Contracts.V2000 (fmt3 field fieldInt fieldFloat Item Kind endLine lineKind specGet atomDict entriesOf lastWins entryVals supersedes)
open Contracts.Reader (NoBreak blanks IsSep lastWord isNeg)
open Contracts.Parser (periodicTable atomicNumber withCode codeOf)
open Contracts.Final (IdOK AttrsOK PosIntVal)
open Contracts.V3000 (bondAttrs AtomLine BondLine Prop' IsInt intOf NoOpt propInt propVals lastNonzero mkAtomAttrs optAttr)
open Contracts.Reader (Ctab Dress fileLines attrsOf fltOf zOf)
open Contracts.FinalLabels (fuelBound)
open Contracts.Pipeline (tucan)

/-! ## 1. the abstract molecule -/

/-- an atom: element symbol as written in molfiles (a symbol of the periodic table, or `D` / `T`), formal charge,
radical state (0 = none, 1 singlet, 2 doublet, 3 triplet), isotope mass (0 = natural abundance; 2 / 3 for `D` / `T`),
coordinates as uninterpreted decimal tokens (e.g. `1.2000`, `-0.5`; floats are not interpreted) -/
structure AAtom where
  sym : Str
  chg : Int
  rad : Nat
  mass : Nat
  x : Str
  y : Str
  z : Str

/-- a bond between the atoms at (0-based) positions `a1 ≠ a2`, with its bond type (1 single, 2 double, …) -/
structure ABond where
  a1 : Nat
  a2 : Nat
  typ : Nat

/-- **abstract molecule**: atoms in order, bonds -/
structure AMol where
  atoms : List AAtom
  bonds : List ABond

/-- the element a symbol denotes: `D` and `T` are hydrogen -/
def elemOf (s : Str) : Str := if s = py!"D" ∨ s = py!"T" then py!"H" else s
/-- the isotope mass a symbol fixes: 2 for `D`, 3 for `T`, otherwise none (0) -/
def isoOf (s : Str) : Nat := if s = py!"D" then 2 else if s = py!"T" then 3 else 0

theorem v2_hydrogenIsotope (s : Str) : Contracts.V2000.hydrogenIsotope s = (elemOf s, (isoOf s : Int)) := by
  unfold Contracts.V2000.hydrogenIsotope elemOf isoOf
  by_cases h1 : s = py!"D"
  · subst h1; decide
  · by_cases h2 : s = py!"T"
    · subst h2; decide
    · simp [h1, h2]

theorem v3_hydrogenIsotope (s : Str) : Contracts.V3000.hydrogenIsotope s = (elemOf s, (isoOf s : Int)) := by
  unfold Contracts.V3000.hydrogenIsotope elemOf isoOf
  by_cases h1 : s = py!"D"
  · subst h1; decide
  · by_cases h2 : s = py!"T"
    · subst h2; decide
    · simp [h1, h2]

/-- `b'` joins the same two atoms as `b` (in either direction) -/
def ABond.SamePair (b b' : ABond) : Prop := (b'.a1 = b.a1 ∧ b'.a2 = b.a2) ∨ (b'.a1 = b.a2 ∧ b'.a2 = b.a1)

structure AAtom.WF (a : AAtom) : Prop where
  /-- the symbol is `D`, `T` or a symbol of the element table (otherwise the readers raise `KeyError`) -/
  elem : elemOf a.sym ∈ periodicTable
  /-- `D` is hydrogen-2, `T` hydrogen-3 -/
  iso : isoOf a.sym ≠ 0 → a.mass = isoOf a.sym
  /-- the values fit the three columns of a V2000 property entry (the format allows −15…15, 0…3, and masses < 1000) -/
  chgLo : -99 ≤ a.chg
  chgHi : a.chg ≤ 999
  rad : a.rad ≤ 999
  mass : a.mass ≤ 999
  /-- a coordinate token fits the ten columns of the V2000 atom line -/
  xlen : a.x.length ≤ 10
  ylen : a.y.length ≤ 10
  zlen : a.z.length ≤ 10

structure ABond.WF (n : Nat) (b : ABond) : Prop where
  /-- both ends are atoms of the molecule, and different ones -/
  a1 : b.a1 < n
  a2 : b.a2 < n
  ne : b.a1 ≠ b.a2
  /-- the bond type fits its three columns -/
  typ : b.typ ≤ 999

/-- well-formed molecule: at most 999 atoms and bonds (the V2000 counts line has three columns for each) -/
structure AMol.WF (m : AMol) : Prop where
  natoms : m.atoms.length ≤ 999
  nbonds : m.bonds.length ≤ 999
  atoms : ∀ a ∈ m.atoms, a.WF
  bonds : ∀ b ∈ m.bonds, b.WF m.atoms.length

/-! ## 2. the V2000 renderer -/

/-- a coordinate token right-aligned in its ten columns -/
def fmt10 (t : Str) : Str := padLeft t 10 ' '
/-- an atom symbol left-aligned in its three columns -/
def fmtSym (s : Str) : Str := s ++ blanks (3 - s.length)

/-- atom line `xxxxx.xxxxyyyyy.yyyyzzzzz.zzzz aaaddcccssshhhbbbvvvHHHrrriiimmmnnneee`: mass difference `dd` = 0,
charge code `ccc` = `code`, the remaining fields `rest` -/
def atomLine (a : AAtom) (code : Nat) (rest : Str) : Str :=
  fmt10 a.x ++ (fmt10 a.y ++ (fmt10 a.z ++ (' ' :: (fmtSym a.sym ++ (' ' :: '0' :: (fmt3 code ++ rest))))))

/-- bond line `111222tttsssxxxrrrccc`: atom numbers (1-based), bond type, the remaining fields `rest` -/
def bondLine (b : ABond) (rest : Str) : Str :=
  fmt3 ((b.a1 + 1 : Nat) : Int) ++ fmt3 ((b.a2 + 1 : Nat) : Int) ++ fmt3 (b.typ : Int) ++ rest

theorem length_fmt10 (t : Str) (h : t.length ≤ 10) : (fmt10 t).length = 10 := by
  simp [fmt10, padLeft]; omega

theorem length_fmtSym (s : Str) (h : s.length ≤ 3) : (fmtSym s).length = 3 := by
  simp [fmtSym, blanks]; omega

set_option maxRecDepth 100000 in
theorem table_syms : ∀ s ∈ periodicTable, s.length ≤ 3 ∧ ' ' ∉ s ∧ s ≠ py!"D" ∧ s ≠ py!"T" ∧
    ∀ c ∈ s, isLineBreak c = false := by decide


/-! ### fields of the rendered lines -/

theorem field_at {α : Type} (p f q : List α) (n k : Nat) (hp : p.length = n) (hf : f.length = k) :
    ((p ++ (f ++ q)).drop n).take k = f := by
  subst hp hf; simp

theorem stripChar_fmtSym (s : Str) (h : ' ' ∉ s) : stripChar (fmtSym s) ' ' = s := by
  unfold stripChar fmtSym blanks
  cases s with
  | nil =>
    have : (List.replicate (3 - ([] : Str).length) ' ').dropWhile (fun x => decide (x = ' ')) = [] := by
      rw [List.dropWhile_eq_nil_iff]; intro c hc; simp [List.eq_of_mem_replicate hc]
    simp [this]
  | cons c s =>
    have hc : c ≠ ' ' := fun e => h (by simp [e])
    have h1 : ((c :: s) ++ List.replicate (3 - (c :: s).length) ' ').dropWhile (fun x => decide (x = ' ')) =
        (c :: s) ++ List.replicate (3 - (c :: s).length) ' ' := by
      simp [List.dropWhile_cons, hc]
    rw [h1, List.reverse_append, List.reverse_replicate,
      List.dropWhile_append_of_pos (by intro a ha; simp [List.eq_of_mem_replicate ha])]
    have h2 : (c :: s).reverse.dropWhile (fun x => decide (x = ' ')) = (c :: s).reverse := by
      cases hr : (c :: s).reverse with
      | nil => rfl
      | cons d r =>
        have : d ∈ c :: s := by rw [← List.mem_reverse, hr]; simp
        have hd : d ≠ ' ' := fun e => h (e ▸ this)
        simp [List.dropWhile_cons, hd]
    rw [h2, List.reverse_reverse]

structure AAtom.Lens (a : AAtom) : Prop where
  x : a.x.length ≤ 10
  y : a.y.length ≤ 10
  z : a.z.length ≤ 10
  s : a.sym.length ≤ 3

theorem fields_atomLine (a : AAtom) (code : Nat) (rest : Str) (h : a.Lens) (hcode : code ≤ 999) :
    field (atomLine a code rest) 0 10 = fmt10 a.x ∧ field (atomLine a code rest) 10 10 = fmt10 a.y ∧
    field (atomLine a code rest) 20 10 = fmt10 a.z ∧ field (atomLine a code rest) 31 3 = fmtSym a.sym ∧
    field (atomLine a code rest) 36 3 = fmt3 code := by
  have lx := length_fmt10 a.x h.x
  have ly := length_fmt10 a.y h.y
  have lz := length_fmt10 a.z h.z
  have ls := length_fmtSym a.sym h.s
  have lc := Contracts.V2000.length_fmt3 (code : Int) (by omega) (by omega)
  unfold field atomLine
  refine ⟨?_, ?_, ?_, ?_, ?_⟩
  · exact field_at [] _ _ 0 10 rfl lx
  · exact field_at _ _ _ 10 10 lx ly
  · have := field_at (fmt10 a.x ++ fmt10 a.y) (fmt10 a.z) (' ' :: (fmtSym a.sym ++ (' ' :: '0' :: (fmt3 code ++ rest)))) 20 10
      (by simp [lx, ly]) lz
    simpa [List.append_assoc] using this
  · have := field_at (fmt10 a.x ++ fmt10 a.y ++ fmt10 a.z ++ [' ']) (fmtSym a.sym) (' ' :: '0' :: (fmt3 code ++ rest)) 31 3
      (by simp [lx, ly, lz]) ls
    simpa [List.append_assoc] using this
  · have := field_at (fmt10 a.x ++ fmt10 a.y ++ fmt10 a.z ++ [' '] ++ fmtSym a.sym ++ [' ', '0']) (fmt3 code) rest 36 3
      (by simp [lx, ly, lz, ls]) lc
    simpa [List.append_assoc] using this


theorem elem_of_table (s : Str) (hs : s ∈ periodicTable) :
    ∃ ea, Tucan.Consts.ELEMENT_ATTRS.get? s = some ea ∧
      ea.get? "atomic_number" = some (Val.int (atomicNumber s)) := by
  have h := Contracts.Parser.table_ok s hs
  cases hg : Tucan.Consts.ELEMENT_ATTRS.get? s with
  | none => rw [hg] at h; cases h
  | some ea => rw [hg] at h; exact ⟨ea, rfl, h⟩

theorem elemOf_cases (s : Str) (h : elemOf s ∈ periodicTable) :
    (s ∈ periodicTable ∧ elemOf s = s ∧ isoOf s = 0) ∨ (s = py!"D" ∧ elemOf s = py!"H" ∧ isoOf s = 2) ∨
      (s = py!"T" ∧ elemOf s = py!"H" ∧ isoOf s = 3) := by
  by_cases h1 : s = py!"D"
  · subst h1; right; left; decide
  · by_cases h2 : s = py!"T"
    · subst h2; right; right; decide
    · left
      have e : elemOf s = s := by simp [elemOf, h1, h2]
      exact ⟨e ▸ h, e, by simp [isoOf, h1, h2]⟩

theorem sym_shape (s : Str) (h : elemOf s ∈ periodicTable) :
    s.length ≤ 3 ∧ ' ' ∉ s ∧ ∀ c ∈ s, isLineBreak c = false := by
  rcases elemOf_cases s h with ⟨hs, _, _⟩ | ⟨rfl, _, _⟩ | ⟨rfl, _, _⟩
  · obtain ⟨a, b, _, _, c⟩ := table_syms s hs; exact ⟨a, b, c⟩
  · decide
  · decide

/-- value of a coordinate field of an atom line (`blank = 0`, otherwise `float()` of the ten columns) -/
def coordOf (env : DepEnv) (t : Str) : Val :=
  match fieldFloat env (fmt10 t) with | .ok v => v | .error _ => Val.none

/-- the coordinate fields are accepted by `float()` -/
def CoordsOK (env : DepEnv) (m : AMol) : Prop :=
  ∀ a ∈ m.atoms, ∀ t ∈ [a.x, a.y, a.z], ∃ v, fieldFloat env (fmt10 t) = .ok v

theorem coordOf_ok (env : DepEnv) (t : Str) (h : ∃ v, fieldFloat env (fmt10 t) = .ok v) :
    fieldFloat env (fmt10 t) = .ok (coordOf env t) := by
  obtain ⟨v, hv⟩ := h; simp [coordOf, hv]

/-- what `_parse_atom_line` returns on a rendered atom line -/
def attrs0 (env : DepEnv) (a : AAtom) (code : Nat) : Attrs :=
  Contracts.V2000.atomAttrs (elemOf a.sym) (Val.int (atomicNumber (elemOf a.sym)))
    (coordOf env a.x) (coordOf env a.y) (coordOf env a.z) code (isoOf a.sym)

theorem parse_atomLine (env : DepEnv) (a : AAtom) (code : Nat) (rest : Str) (ha : a.WF) (hcode : code ≤ 999)
    (hco : ∀ t ∈ [a.x, a.y, a.z], ∃ v, fieldFloat env (fmt10 t) = .ok v) :
    Tucan.molfile_v2000_reader._parse_atom_line env (atomLine a code rest) = .ok (attrs0 env a code) := by
  obtain ⟨hl, hb, _⟩ := sym_shape a.sym ha.elem
  obtain ⟨f0, f10, f20, f31, f36⟩ := fields_atomLine a code rest ⟨ha.xlen, ha.ylen, ha.zlen, hl⟩ hcode
  obtain ⟨ea, hea, hz⟩ := elem_of_table _ ha.elem
  have := Contracts.V2000._parse_atom_line_ok env (atomLine a code rest) a.sym ea (Val.int (atomicNumber (elemOf a.sym)))
    (coordOf env a.x) (coordOf env a.y) (coordOf env a.z) code
    (by rw [f31]; exact stripChar_fmtSym a.sym hb)
    (by rw [v2_hydrogenIsotope]; exact hea) hz
    (by rw [f0]; exact coordOf_ok env _ (hco _ (by simp)))
    (by rw [f10]; exact coordOf_ok env _ (hco _ (by simp)))
    (by rw [f20]; exact coordOf_ok env _ (hco _ (by simp)))
    (by rw [f36]; exact Contracts.V2000.fieldInt_fmt3 _ (by omega) (by omega))
  rw [this, v2_hydrogenIsotope]; rfl

theorem parse_bondLine (env : DepEnv) (attrs : List Attrs) (b : ABond) (rest : Str) (hb : b.WF attrs.length)
    (hn : attrs.length ≤ 999) :
    Tucan.molfile_v2000_reader._parse_bond_line env (bondLine b rest) (atomDict attrs) =
      .ok (((b.a1 : Int), (b.a2 : Int)), ⟨[("bond_type", Val.int b.typ)]⟩) := by
  have h1 := hb.a1
  have h2 := hb.a2
  have := Contracts.V2000._parse_bond_line_ok env (atomDict attrs) (b.a1 + 1) (b.a2 + 1) b.typ rest (by omega) (by omega)
    hb.typ (by rw [Contracts.V2000.atomDict_contains]; simp; omega)
    (by rw [Contracts.V2000.atomDict_contains]; simp; omega)
  unfold bondLine
  rw [this]
  simp

/-- the atom-block charge code `ccc` (CTfile): 1 = +3, 2 = +2, 3 = +1, 4 = doublet radical, 5 = −1, 6 = −2, 7 = −3 -/
def codeChg : Nat → Int
  | 1 => 3 | 2 => 2 | 3 => 1 | 5 => -1 | 6 => -2 | 7 => -3 | _ => 0
def codeRad : Nat → Nat
  | 4 => 2 | _ => 0

def optInt (v : Int) : Option Val := if v = 0 then none else some (Val.int v)

/-- the attributes of a node as a function of the key -/
def baseAttr (sym : Str) (z fx fy fz : Val) (chg rad mass : Int) (k : String) : Option Val :=
  if k = "element_symbol" then some (Val.str sym)
  else if k = "atomic_number" then some z
  else if k = "partition" then some (Val.int 0)
  else if k = "x_coord" then some fx
  else if k = "y_coord" then some fy
  else if k = "z_coord" then some fz
  else if k = "chg" then optInt chg
  else if k = "rad" then optInt rad
  else if k = "mass" then optInt mass
  else none

theorem lookup_cons_ite {ν : Type} (k a : String) (v : ν) (l : List (String × ν)) :
    List.lookup k ((a, v) :: l) = if k = a then some v else List.lookup k l := by
  by_cases h : k = a
  · subst h; simp
  · have : (k == a) = false := by simpa using h
    simp [List.lookup_cons, this, h]

theorem lookup_chargeOfCode (c : Nat) (hc : c ≤ 7) (k : String) :
    (Contracts.V2000.chargeOfCode c).lookup k =
      if k = "chg" then optInt (codeChg c) else if k = "rad" then optInt (codeRad c) else none := by
  interval_cases c <;> simp [Contracts.V2000.chargeOfCode, codeChg, codeRad, optInt, lookup_cons_ite] <;>
    (try simp_all) <;> (try (rintro rfl; decide))

theorem atomAttrs_get? (sym : Str) (z fx fy fz : Val) (c : Nat) (hc : c ≤ 7) (m : Nat) (k : String) :
    (Contracts.V2000.atomAttrs sym z fx fy fz c m).get? k = baseAttr sym z fx fy fz (codeChg c) (codeRad c) m k := by
  unfold Contracts.V2000.atomAttrs Dict.get?
  simp only [List.lookup_append, lookup_chargeOfCode c hc]
  have hm : (if (m : Int) = 0 then ([] : List (String × Val)) else [("mass", Val.int m)]).lookup k =
      if k = "mass" then optInt m else none := by
    by_cases h : m = 0
    · subst h; simp [optInt]
    · have h' : ¬ (m : Int) = 0 := by omega
      simp [h, h', optInt, lookup_cons_ite]
  rw [hm]
  unfold baseAttr
  simp only [lookup_cons_ite, List.lookup_nil]
  split_ifs <;> simp_all


/-- value of the attribute a property line of kind `K` sets -/
def valOf (K : Kind) (a : AAtom) : Int :=
  match K with
  | .chg => a.chg
  | .rad => a.rad
  | .iso => a.mass

/-- **the encoding choices of a V2000 rendering** -/
structure Choice where
  /-- the three header lines -/
  h0 : Str
  h1 : Str
  h2 : Str
  /-- the counts line after `aaabbblll` and before the version word -/
  countsMid : Str
  /-- blanks after the version word -/
  countsTrail : Nat
  /-- the charge code written on atom line `i` -/
  code : Nat → Nat
  /-- columns 39… of atom line `i` -/
  atomRest : Nat → Str
  /-- columns 9… of bond line `j` -/
  bondRest : Nat → Str
  /-- the lines of the property block before `M  END`: `M  CHG` / `M  RAD` / `M  ISO` lines with their entries
  (1-based atom number, value), grouped and ordered at will, and unrelated lines -/
  items : List Item
  /-- the lines after `M  END` -/
  post : List Str

/-- atom `i` (0-based) is named by an entry of a line of kind `K` -/
def Listed (items : List Item) (K : Kind) (i : Nat) : Prop :=
  ∃ es, Item.prop K es ∈ items ∧ ∃ e ∈ es, e.1 = i + 1

/-- some `M  CHG` or `M  RAD` line is present (then all atom-block charge codes are superseded) -/
def Supersede (items : List Item) : Prop := ∃ K es, Item.prop K es ∈ items ∧ K ≠ Kind.iso

structure Choice.OK (m : AMol) (c : Choice) : Prop where
  /-- charge codes are 0…7 -/
  codes : ∀ i < m.atoms.length, c.code i ≤ 7
  /-- unrelated lines are neither CHG/RAD/ISO lines nor `M  END` -/
  others : ∀ s, Item.other s ∈ c.items → lineKind s = none ∧ s ≠ endLine
  /-- at most eight entries per line -/
  lineLen : ∀ K es, Item.prop K es ∈ c.items → es.length ≤ 8
  /-- every entry names an atom of the molecule and states that atom's value — except that an `M  ISO` entry naming
  an atom written `D` / `T` may state any value that fits its three columns (0 and a "wrong" mass included): the
  symbol fixes the mass, "D and T keep denoting hydrogen-2 and hydrogen-3 whatever other property lines the file
  contains" -/
  entries : ∀ K es, Item.prop K es ∈ c.items → ∀ e ∈ es, 1 ≤ e.1 ∧ ∃ a, m.atoms[e.1 - 1]? = some a ∧
    (e.2 = valOf K a ∨ (K = Kind.iso ∧ isoOf a.sym ≠ 0 ∧ -99 ≤ e.2 ∧ e.2 ≤ 999))
  /-- without CHG/RAD lines the charge codes state charge and radical of every atom -/
  byCode : ¬ Supersede c.items → ∀ i a, m.atoms[i]? = some a →
    codeChg (c.code i) = a.chg ∧ codeRad (c.code i) = a.rad
  /-- with a CHG or RAD line every charged atom is named in a CHG line and every radical in a RAD line -/
  byLine : Supersede c.items → ∀ i a, m.atoms[i]? = some a →
    (a.chg ≠ 0 → Listed c.items .chg i) ∧ (a.rad ≠ 0 → Listed c.items .rad i)
  /-- every isotope-labelled atom is written `D` / `T` or named in an ISO line -/
  iso : ∀ i a, m.atoms[i]? = some a → a.mass ≠ 0 → isoOf a.sym ≠ 0 ∨ Listed c.items .iso i

theorem mem_entriesOf (items : List Item) (K : Kind) (p : Int × Int) :
    p ∈ entriesOf (items.filterMap Item.parsed) K ↔
      ∃ es, Item.prop K es ∈ items ∧ ∃ e ∈ es, p = ((e.1 : Int) - 1, e.2) := by
  simp only [entriesOf, List.mem_flatMap, List.mem_filter, List.mem_filterMap, decide_eq_true_eq]
  constructor
  · rintro ⟨q, ⟨⟨it, hit, hq⟩, hK⟩, hp⟩
    cases it with
    | prop K' es =>
      simp only [Item.parsed, Option.some.injEq] at hq
      subst hq
      simp only at hK
      subst hK
      refine ⟨es, hit, ?_⟩
      simp only [entryVals, List.mem_map] at hp
      obtain ⟨e, he, rfl⟩ := hp
      exact ⟨e, he, rfl⟩
    | other s => simp [Item.parsed] at hq
  · rintro ⟨es, hit, e, he, rfl⟩
    refine ⟨(K, entryVals es), ⟨⟨_, hit, rfl⟩, rfl⟩, ?_⟩
    simp only [entryVals, List.mem_map]
    exact ⟨e, he, rfl⟩

theorem lastWins_mem (es : List (Int × Int)) (a v : Int) (h : lastWins es a = some v) : (a, v) ∈ es := by
  unfold lastWins at h
  obtain ⟨p, hp, rfl⟩ := Option.map_eq_some_iff.mp h
  have := List.mem_of_getLast? hp
  simp only [List.mem_filter, decide_eq_true_eq] at this
  obtain ⟨hm, rfl⟩ := this
  exact hm

theorem lastWins_ne_none (es : List (Int × Int)) (a v : Int) (h : (a, v) ∈ es) : ∃ w, lastWins es a = some w := by
  unfold lastWins
  have hne : es.filter (fun e => decide (e.1 = a)) ≠ [] := by
    intro e
    have : (a, v) ∈ es.filter (fun e => decide (e.1 = a)) := by simp [h]
    rw [e] at this; cases this
  obtain ⟨p, hp⟩ : ∃ p, (es.filter (fun e => decide (e.1 = a))).getLast? = some p := by
    rw [List.getLast?_eq_some_getLast hne]; exact ⟨_, rfl⟩
  exact ⟨p.2, by rw [hp]; rfl⟩

theorem supersedes_iff (items : List Item) :
    supersedes (items.filterMap Item.parsed) = true ↔ Supersede items := by
  simp only [supersedes, List.any_eq_true, List.mem_filterMap, decide_eq_true_eq, Supersede]
  constructor
  · rintro ⟨q, ⟨it, hit, hq⟩, hK⟩
    cases it with
    | prop K es =>
      simp only [Item.parsed, Option.some.injEq] at hq
      subst hq
      exact ⟨K, es, hit, hK⟩
    | other s => simp [Item.parsed] at hq
  · rintro ⟨K, es, hit, hK⟩
    exact ⟨(K, entryVals es), ⟨_, hit, rfl⟩, hK⟩


/-- the attributes of the node of atom `a`, coordinates `fx fy fz` -/
def nodeAttr (fx fy fz : Val) (a : AAtom) (k : String) : Option Val :=
  baseAttr (elemOf a.sym) (Val.int (atomicNumber (elemOf a.sym))) fx fy fz a.chg a.rad a.mass k

section
variable (m : AMol) (c : Choice) (hc : c.OK m) (i : Nat) (a : AAtom) (hi : m.atoms[i]? = some a)
include hc hi

theorem lastWins_val (K : Kind) (v : Int)
    (h : lastWins (entriesOf (c.items.filterMap Item.parsed) K) (i : Int) = some v) :
    v = valOf K a ∨ (K = Kind.iso ∧ isoOf a.sym ≠ 0) := by
  obtain ⟨es, hit, e, he, hp⟩ := (mem_entriesOf _ _ _).mp (lastWins_mem _ _ _ h)
  obtain ⟨h1, a', ha', hv⟩ := hc.entries K es hit e he
  simp only [Prod.mk.injEq] at hp
  obtain ⟨hp1, rfl⟩ := hp
  have : e.1 - 1 = i := by omega
  rw [this, hi] at ha'
  cases ha'
  exact hv.imp id (fun h => ⟨h.1, h.2.1⟩)

theorem lastWins_none (K : Kind)
    (h : lastWins (entriesOf (c.items.filterMap Item.parsed) K) (i : Int) = none) : ¬ Listed c.items K i := by
  rintro ⟨es, hit, e, he, h1⟩
  obtain ⟨w, hw⟩ := lastWins_ne_none (entriesOf (c.items.filterMap Item.parsed) K) (i : Int) e.2
    ((mem_entriesOf _ _ _).mpr ⟨es, hit, e, he, by simp [h1]⟩)
  rw [hw] at h; cases h

end

theorem optInt_zero : optInt 0 = none := rfl
theorem optInt_ne {v : Int} (h : v ≠ 0) : optInt v = some (Val.int v) := by simp [optInt, h]

/-- **the property block on a rendering**: after the block, every attribute of atom `i` has the value the
abstract molecule states -/
theorem specGet_render (env : DepEnv) (m : AMol) (hm : m.WF) (c : Choice) (hc : c.OK m) (i : Nat) (a : AAtom)
    (hi : m.atoms[i]? = some a) (k : String) :
    specGet (c.items.filterMap Item.parsed) (i : Int) (attrs0 env a (c.code i)) k =
      nodeAttr (coordOf env a.x) (coordOf env a.y) (coordOf env a.z) a k := by
  have hil : i < m.atoms.length := (List.getElem?_eq_some_iff.mp hi).1
  have haw : a.WF := hm.atoms a (List.mem_of_getElem? hi)
  have hold : ∀ k, (attrs0 env a (c.code i)).get? k =
      baseAttr (elemOf a.sym) (Val.int (atomicNumber (elemOf a.sym))) (coordOf env a.x) (coordOf env a.y)
        (coordOf env a.z) (codeChg (c.code i)) (codeRad (c.code i)) (isoOf a.sym) k :=
    fun k => atomAttrs_get? _ _ _ _ _ _ (hc.codes i hil) _ k
  by_cases h1 : k = "chg"
  · subst h1
    rw [Contracts.V2000.specGet_chg, hold]
    simp only [nodeAttr, baseAttr, String.reduceEq, if_false, if_true]
    by_cases hs : supersedes (c.items.filterMap Item.parsed) = true
    · have hS := (supersedes_iff _).mp hs
      simp only [hs, if_true]
      cases hl : lastWins (entriesOf (c.items.filterMap Item.parsed) .chg) (i : Int) with
      | none =>
        have := lastWins_none m c hc i a hi .chg hl
        have h0 : a.chg = 0 := by
          by_contra hne; exact this ((hc.byLine hS i a hi).1 hne)
        simp [h0, optInt_zero]
      | some v =>
        have hv : v = a.chg := (lastWins_val m c hc i a hi .chg v hl).resolve_right (fun h => by cases h.1)
        subst hv
        by_cases h0 : a.chg = 0
        · simp [h0, optInt_zero]
        · simp [h0, optInt_ne h0]
    · have hS : ¬ Supersede c.items := fun h => hs ((supersedes_iff _).mpr h)
      have hnl : lastWins (entriesOf (c.items.filterMap Item.parsed) .chg) (i : Int) = none := by
        cases hl : lastWins (entriesOf (c.items.filterMap Item.parsed) .chg) (i : Int) with
        | none => rfl
        | some v =>
          obtain ⟨es, hit, _⟩ := (mem_entriesOf _ _ _).mp (lastWins_mem _ _ _ hl)
          exact absurd ⟨.chg, es, hit, by decide⟩ hS
      have hs' : supersedes (c.items.filterMap Item.parsed) = false := by simpa using hs
      simp only [hnl, hs', Bool.false_eq_true, if_false, (hc.byCode hS i a hi).1]
  · by_cases h2 : k = "rad"
    · subst h2
      rw [Contracts.V2000.specGet_rad, hold]
      simp only [nodeAttr, baseAttr, String.reduceEq, if_false, if_true]
      by_cases hs : supersedes (c.items.filterMap Item.parsed) = true
      · have hS := (supersedes_iff _).mp hs
        simp only [hs, if_true]
        cases hl : lastWins (entriesOf (c.items.filterMap Item.parsed) .rad) (i : Int) with
        | none =>
          have := lastWins_none m c hc i a hi .rad hl
          have h0 : a.rad = 0 := by
            by_contra hne; exact this ((hc.byLine hS i a hi).2 hne)
          simp [h0, optInt_zero]
        | some v =>
          have hv : v = (a.rad : Int) := (lastWins_val m c hc i a hi .rad v hl).resolve_right (fun h => by cases h.1)
          subst hv
          by_cases h0 : (a.rad : Int) = 0
          · simp [h0, optInt_zero]
          · have h0n : ¬ a.rad = 0 := by omega
            simp [h0, h0n, optInt_ne h0]
      · have hS : ¬ Supersede c.items := fun h => hs ((supersedes_iff _).mpr h)
        have hnl : lastWins (entriesOf (c.items.filterMap Item.parsed) .rad) (i : Int) = none := by
          cases hl : lastWins (entriesOf (c.items.filterMap Item.parsed) .rad) (i : Int) with
          | none => rfl
          | some v =>
            obtain ⟨es, hit, _⟩ := (mem_entriesOf _ _ _).mp (lastWins_mem _ _ _ hl)
            exact absurd ⟨.rad, es, hit, by decide⟩ hS
        have hs' : supersedes (c.items.filterMap Item.parsed) = false := by simpa using hs
        simp only [hnl, hs', Bool.false_eq_true, if_false, (hc.byCode hS i a hi).2]
    · by_cases h3 : k = "mass"
      · subst h3
        rw [Contracts.V2000.specGet_mass, hold]
        simp only [nodeAttr, baseAttr, String.reduceEq, if_false, if_true]
        by_cases hiso : isoOf a.sym = 0
        · -- an ordinary symbol: the ISO entries decide
          simp only [hiso, Nat.cast_zero, optInt_zero]
          cases hl : lastWins (entriesOf (c.items.filterMap Item.parsed) .iso) (i : Int) with
          | none =>
            have hnl := lastWins_none m c hc i a hi .iso hl
            have h0 : a.mass = 0 := by
              by_contra h0
              rcases hc.iso i a hi h0 with h | h
              · exact h hiso
              · exact hnl h
            simp [h0, optInt_zero]
          | some v =>
            have hv : v = (a.mass : Int) :=
              (lastWins_val m c hc i a hi .iso v hl).resolve_right (fun h => h.2 hiso)
            subst hv
            simp [optInt]
        · -- `D` / `T`: the symbol decides, whatever the ISO entries state
          have hmass : a.mass = isoOf a.sym := haw.iso hiso
          have h0' : ((isoOf a.sym : Nat) : Int) ≠ 0 := by omega
          simp only [hmass, optInt_ne h0']
      · rw [Contracts.V2000.specGet_other _ _ _ _ h1 h2 h3, hold]
        simp only [nodeAttr, baseAttr, h1, h2, h3, if_false]

/-- counts line `aaabbblll…V2000`: numbers of atoms and bonds, no atom lists -/
def countsLine (m : AMol) (c : Choice) : Str :=
  fmt3 (m.atoms.length : Int) ++ (fmt3 (m.bonds.length : Int) ++ (fmt3 0 ++ (c.countsMid ++ (py!" V2000" ++ blanks c.countsTrail))))

def atomLines (m : AMol) (c : Choice) : List Str :=
  m.atoms.zipIdx.map (fun p => atomLine p.1 (c.code p.2) (c.atomRest p.2))
def bondLines (m : AMol) (c : Choice) : List Str :=
  m.bonds.zipIdx.map (fun p => bondLine p.1 (c.bondRest p.2))

/-- **the V2000 renderer**: the lines of the file -/
def v2000Lines (m : AMol) (c : Choice) : List Str :=
  c.h0 :: c.h1 :: c.h2 :: countsLine m c ::
    (atomLines m c ++ (bondLines m c ++ (c.items.map Item.render ++ endLine :: c.post)))

/-- the text: every line terminated by `sep` (LF, CRLF or CR) -/
def renderV2000 (sep : Str) (m : AMol) (c : Choice) : Str := join sep (v2000Lines m c ++ [[]])

/-- what the atom block reads as -/
def attrsList (env : DepEnv) (m : AMol) (c : Choice) : List Attrs :=
  m.atoms.zipIdx.map (fun p => attrs0 env p.1 (c.code p.2))
/-- what the bond block reads as -/
def bondsList (m : AMol) : List ((Int × Int) × Attrs) :=
  m.bonds.map (fun b => (((b.a1 : Int), (b.a2 : Int)), ⟨[("bond_type", Val.int b.typ)]⟩))

theorem forall2_map {δ β γ : Type} (l : List δ) (f : δ → β) (g : δ → γ) (R : β → γ → Prop)
    (h : ∀ x ∈ l, R (f x) (g x)) : List.Forall₂ R (l.map f) (l.map g) := by
  induction l with
  | nil => exact List.Forall₂.nil
  | cons x l ih => exact List.Forall₂.cons (h x (by simp)) (ih (fun y hy => h y (by simp [hy])))

theorem length_attrsList (env : DepEnv) (m : AMol) (c : Choice) : (attrsList env m c).length = m.atoms.length := by
  simp [attrsList]

theorem getElem_attrsList (env : DepEnv) (m : AMol) (c : Choice) (i : Nat) (hi : i < (attrsList env m c).length)
    (a : AAtom) (ha : m.atoms[i]? = some a) : (attrsList env m c)[i] = attrs0 env a (c.code i) := by
  obtain ⟨h1, h2⟩ := List.getElem?_eq_some_iff.mp ha
  simp [attrsList, h2]

theorem bondsList_eq (m : AMol) : bondsList m =
    m.bonds.zipIdx.map (fun p => (((p.1.a1 : Int), (p.1.a2 : Int)), ⟨[("bond_type", Val.int p.1.typ)]⟩)) := by
  unfold bondsList
  conv_lhs => rw [← List.zipIdx_map_fst 0 m.bonds]
  rw [List.map_map]; rfl

section
variable (env : DepEnv) (m : AMol) (hm : m.WF) (c : Choice) (hc : c.OK m)

theorem counts_ver : lastWord (countsLine m c) = py!"V2000" := by
  unfold lastWord countsLine
  rw [← List.append_assoc, ← List.append_assoc, ← List.append_assoc, ← List.append_assoc,
    Contracts.Reader.rstrip_blanks, Contracts.Reader.rstrip_of_getLast _ (by simp; decide)]
  simp [Contracts.Reader.afterLastBlank, List.takeWhile]

include hm in
theorem counts_fields : fieldInt (field (countsLine m c) 0 3) = .ok ((atomLines m c).length : Int) ∧
    fieldInt (field (countsLine m c) 3 3) = .ok ((bondLines m c).length : Int) ∧
    fieldInt (field (countsLine m c) 6 3) = .ok 0 := by
  have hn := hm.natoms
  have hb := hm.nbonds
  have la := Contracts.V2000.length_fmt3 (m.atoms.length : Int) (by omega) (by omega)
  have lb := Contracts.V2000.length_fmt3 (m.bonds.length : Int) (by omega) (by omega)
  have l0 := Contracts.V2000.length_fmt3 0 (by omega) (by omega)
  unfold field countsLine
  refine ⟨?_, ?_, ?_⟩
  · rw [List.drop_zero, List.take_left' la, Contracts.V2000.fieldInt_fmt3 _ (by omega) (by omega)]; simp [atomLines]
  · rw [field_at _ _ _ 3 3 la lb, Contracts.V2000.fieldInt_fmt3 _ (by omega) (by omega)]; simp [bondLines]
  · have := field_at (fmt3 (m.atoms.length : Int) ++ fmt3 (m.bonds.length : Int)) (fmt3 0)
      (c.countsMid ++ (py!" V2000" ++ blanks c.countsTrail)) 6 3 (by simp [la, lb]) l0
    rw [List.append_assoc] at this
    rw [this]; exact Contracts.V2000.fieldInt_fmt3 0 (by omega) (by omega)

include hm hc in
theorem atoms_parse (hco : CoordsOK env m) :
    List.Forall₂ (fun l a => Tucan.molfile_v2000_reader._parse_atom_line env l = .ok a) (atomLines m c)
      (attrsList env m c) := by
  apply forall2_map
  intro p hp
  have hmem : m.atoms[p.2]? = some p.1 := List.mem_zipIdx_iff_getElem?.mp hp
  have hpm : p.1 ∈ m.atoms := List.mem_of_getElem? hmem
  have hlt : p.2 < m.atoms.length := (List.getElem?_eq_some_iff.mp hmem).1
  exact parse_atomLine env p.1 _ _ (hm.atoms _ hpm) (by have := hc.codes p.2 hlt; omega) (hco _ hpm)

include hm in
theorem bonds_parse :
    List.Forall₂ (fun l b => Tucan.molfile_v2000_reader._parse_bond_line env l (atomDict (attrsList env m c)) = .ok b)
      (bondLines m c) (bondsList m) := by
  rw [bondsList_eq]
  apply forall2_map
  intro p hp
  have hpm : p.1 ∈ m.bonds := List.mem_of_getElem? (List.mem_zipIdx_iff_getElem?.mp hp)
  exact parse_bondLine env _ p.1 _ (by rw [length_attrsList]; exact hm.bonds _ hpm)
    (by rw [length_attrsList]; exact hm.natoms)

theorem bonds_unrelated : ∀ l ∈ bondLines m c, lineKind l = none ∧ l ≠ endLine := by
  intro l hl
  simp only [bondLines, List.mem_map] at hl
  obtain ⟨p, _, rfl⟩ := hl
  unfold bondLine
  rw [List.append_assoc, List.append_assoc]
  exact Contracts.V2000.lineKind_numberLine (p.1.a1 + 1) _

include hm hc in
theorem items_legal : ∀ it ∈ c.items, it.Legal (atomDict (attrsList env m c)) := by
  intro it hit
  cases it with
  | other s => exact hc.others s hit
  | prop K es =>
    refine ⟨by have := hc.lineLen K es hit; omega, ?_, ?_⟩
    · intro e he
      obtain ⟨h1, a, ha, hv⟩ := hc.entries K es hit e he
      have hlt := (List.getElem?_eq_some_iff.mp ha).1
      have haw := hm.atoms a (List.mem_of_getElem? ha)
      have hn := hm.natoms
      refine ⟨by omega, ?_⟩
      rcases hv with hv | ⟨_, _, hlo, hhi⟩
      · rw [hv]
        cases K
        · exact ⟨haw.chgLo, haw.chgHi⟩
        · have := haw.rad; simp only [valOf]; omega
        · have := haw.mass; simp only [valOf]; omega
      · exact ⟨hlo, hhi⟩
    · intro e he
      obtain ⟨h1, a, ha, hv⟩ := hc.entries K es hit e he
      have hlt := (List.getElem?_eq_some_iff.mp ha).1
      rw [Contracts.V2000.atomDict_contains, length_attrsList]
      simp only [decide_eq_true_eq]
      omega

theorem attrs_wf : ∀ a ∈ attrsList env m c, a.WF := by
  intro a ha
  simp only [attrsList, List.mem_map] at ha
  obtain ⟨p, _, rfl⟩ := ha
  unfold attrs0 Contracts.V2000.atomAttrs
  by_cases h0 : isoOf p.1.sym = 0 <;>
    rcases Contracts.V2000.chargeOfCode_cases (c.code p.2) with h | ⟨v, h | h⟩ <;>
    simp [Dict.WF, Dict.keys, h, h0]

theorem attrs_Z : ∀ a ∈ attrsList env m c, ∃ z, a.get? "atomic_number" = some z := by
  intro a ha
  simp only [attrsList, List.mem_map] at ha
  obtain ⟨p, _, rfl⟩ := ha
  exact ⟨Val.int (atomicNumber (elemOf p.1.sym)), by simp [attrs0, Contracts.V2000.atomAttrs, Dict.get?, lookup_cons_ite]⟩

include hm in
theorem bonds_ends : ∀ b ∈ bondsList m, b.1.1 ∈ range ((attrsList env m c).length : Int) ∧
    b.1.2 ∈ range ((attrsList env m c).length : Int) := by
  intro q hq
  simp only [bondsList, List.mem_map] at hq
  obtain ⟨b, hb, rfl⟩ := hq
  have := hm.bonds b hb
  rw [length_attrsList, Contracts.Parser.mem_range, Contracts.Parser.mem_range]
  have h1 := this.a1; have h2 := this.a2
  simp only; omega

include hm in
theorem bonds_noself : ∀ b ∈ bondsList m, b.1.1 ≠ b.1.2 := by
  intro q hq
  simp only [bondsList, List.mem_map] at hq
  obtain ⟨b, hb, rfl⟩ := hq
  have := (hm.bonds b hb).ne
  simp only; omega

include hm hc in
theorem attrs_spec (i : Nat) (hi : i < (attrsList env m c).length) (a : AAtom) (ha : m.atoms[i]? = some a) (k : String) :
    specGet (c.items.filterMap Item.parsed) (i : Int) (attrsList env m c)[i] k =
      nodeAttr (coordOf env a.x) (coordOf env a.y) (coordOf env a.z) a k := by
  rw [getElem_attrsList env m c i hi a ha]
  exact specGet_render env m hm c hc i a ha k

include hm hc in
theorem attrs_notneg : ∀ (i : Nat) (hi : i < (attrsList env m c).length), ∀ k ∈ ["mass", "rad"], ∀ v,
    specGet (c.items.filterMap Item.parsed) i (attrsList env m c)[i] k = some v → isNeg v = false := by
  intro i hi k hk v hv
  have hi' : i < m.atoms.length := by rwa [length_attrsList] at hi
  rw [attrs_spec env m hm c hc i hi m.atoms[i] (by simp [hi'])] at hv
  simp only [List.mem_cons, List.not_mem_nil, or_false] at hk
  rcases hk with rfl | rfl
  · simp only [nodeAttr, baseAttr, String.reduceEq, if_false, if_true, optInt] at hv
    split_ifs at hv
    cases hv
    rw [Contracts.Reader.isNeg_int]; simp
  · simp only [nodeAttr, baseAttr, String.reduceEq, if_false, if_true, optInt] at hv
    split_ifs at hv
    cases hv
    rw [Contracts.Reader.isNeg_int]; simp

end

/-- the invariant code of an atom: (atomic number, isotope mass or 0, radical state or 0) -/
def codeVal (a : AAtom) : Val := Val.mkTup [Val.int (atomicNumber (elemOf a.sym)), Val.int a.mass, Val.int a.rad]

/-- **every attribute of the node of atom `a`** (coordinates `fx fy fz`): element symbol, atomic number, `partition` 0,
the coordinates, `chg` / `rad` / `mass` present iff non-zero, the invariant code; no other key -/
def nodeSpec (fx fy fz : Val) (a : AAtom) (k : String) : Option Val :=
  if k = "invariant_code" then some (codeVal a) else nodeAttr fx fy fz a k

theorem optInt_getD (v : Int) : (optInt v).getD (Val.int 0) = Val.int v := by
  unfold optInt; split_ifs with h
  · simp [h]
  · rfl

theorem withCode_spec (new : Attrs) (fx fy fz : Val) (a : AAtom) (h : ∀ k, new.get? k = nodeAttr fx fy fz a k) (k : String) :
    (withCode new).get? k = nodeSpec fx fy fz a k := by
  unfold nodeSpec
  by_cases hk : k = "invariant_code"
  · subst hk
    rw [Contracts.Reader.withCode_get?_code, if_pos rfl]
    unfold codeOf codeVal Dict.getD
    rw [h "atomic_number", h "mass", h "rad"]
    simp only [nodeAttr, baseAttr, String.reduceEq, if_false, if_true, optInt_getD, Option.getD_some]
  · rw [Contracts.Reader.withCode_get?_ne _ _ hk, if_neg hk, h]

theorem attrsOK_of_spec (new : Attrs) (fx fy fz : Val) (a : AAtom) (ha : a.WF)
    (h : ∀ k, new.get? k = nodeAttr fx fy fz a k) : AttrsOK new := by
  refine ⟨⟨elemOf a.sym, ha.elem, ?_, ?_⟩, ?_, ?_⟩
  · rw [h]; simp [nodeAttr, baseAttr]
  · rw [h]; simp [nodeAttr, baseAttr]
  · intro v hv
    rw [h] at hv
    simp only [nodeAttr, baseAttr, String.reduceEq, if_false, if_true, optInt] at hv
    split_ifs at hv with h0
    cases hv
    exact ⟨a.mass, by omega, rfl⟩
  · intro v hv
    rw [h] at hv
    simp only [nodeAttr, baseAttr, String.reduceEq, if_false, if_true, optInt] at hv
    split_ifs at hv with h0
    cases hv
    exact ⟨a.rad, by omega, rfl⟩

/-- **C08, first clause (line level)**: a text whose lines are a V2000 rendering of a well-formed abstract molecule
is read as that molecule -/
theorem read_v2000_lines (env : DepEnv) (fuel : Nat) (m : AMol) (hm : m.WF) (c : Choice) (hc : c.OK m)
    (hco : CoordsOK env m) (text : Str) (hlines : splitlines text = v2000Lines m c) :
    ∃ g, Tucan.molfile_reader.graph_from_molfile_text env fuel text = .ok g ∧ g.WF ∧ IdOK g ∧
      g.nodeList = range (m.atoms.length : Int) ∧
      (∀ (i : Nat) a, m.atoms[i]? = some a → ∀ k,
        g.attr (i : Int) k = nodeSpec (coordOf env a.x) (coordOf env a.y) (coordOf env a.z) a k) ∧
      (∀ x y, y ∈ g.nbrs x ↔ ∃ b ∈ m.bonds, (x = (b.a1 : Int) ∧ y = (b.a2 : Int)) ∨ (x = (b.a2 : Int) ∧ y = (b.a1 : Int))) ∧
      (∀ b ∈ m.bonds, (∀ b' ∈ m.bonds, b.SamePair b' → b'.typ = b.typ) →
        g.edgeAttrs (b.a1 : Int) (b.a2 : Int) = some (bondAttrs (b.typ : Int)) ∧
          g.edgeAttrs (b.a2 : Int) (b.a1 : Int) = some (bondAttrs (b.typ : Int))) := by
  obtain ⟨hna, hnb, hnl⟩ := counts_fields m hm c
  obtain ⟨g, hg, wg, ng, ag, bg, eg, _⟩ := Contracts.Bonds.graph_from_molfile_text_v2000_bonds env fuel text c.h0 c.h1 c.h2
    (countsLine m c) (atomLines m c) (bondLines m c) (attrsList env m c) (bondsList m) c.items c.post hlines
    (counts_ver m c) hna hnb hnl (atoms_parse env m hm c hc hco) (bonds_parse env m hm c) (bonds_unrelated m c)
    (items_legal env m hm c hc) (attrs_wf env m c) (attrs_Z env m c) (bonds_ends env m hm c)
    (attrs_notneg env m hm c hc) (bonds_noself m hm)
  rw [length_attrsList] at ng
  have hnode : ∀ (i : Nat) a, m.atoms[i]? = some a → ∃ new, g.node.get? (i : Int) = some (withCode new) ∧
      ∀ k, new.get? k = nodeAttr (coordOf env a.x) (coordOf env a.y) (coordOf env a.z) a k := by
    intro i a ha
    have hi : i < (attrsList env m c).length := by
      rw [length_attrsList]; exact (List.getElem?_eq_some_iff.mp ha).1
    obtain ⟨new, hnew, hs⟩ := ag i hi
    exact ⟨new, hnew, fun k => by rw [hs k, attrs_spec env m hm c hc i hi a ha k]⟩
  refine ⟨g, hg, wg, ?_, ng, ?_, ?_, ?_⟩
  · apply Contracts.Final.idOK_of_withCode wg
    intro n hn
    rw [ng, Contracts.Parser.mem_range] at hn
    obtain ⟨i, rfl⟩ := Int.eq_ofNat_of_zero_le hn.1
    have hi : i < m.atoms.length := by exact_mod_cast hn.2
    obtain ⟨new, hnew, hs⟩ := hnode i m.atoms[i] (by simp [hi])
    exact ⟨new, hnew, attrsOK_of_spec new _ _ _ _ (hm.atoms _ (List.getElem_mem hi)) hs⟩
  · intro i a ha k
    obtain ⟨new, hnew, hs⟩ := hnode i a ha
    rw [Graph.attr_eq, hnew]
    exact withCode_spec new _ _ _ a hs k
  · intro x y
    rw [bg]
    simp only [bondsList, List.mem_map, exists_exists_and_eq_and, Prod.mk.injEq]
    constructor
    · rintro ⟨b, hb, ⟨h1, h2⟩ | ⟨h1, h2⟩⟩
      · exact ⟨b, hb, Or.inl ⟨h1.symm, h2.symm⟩⟩
      · exact ⟨b, hb, Or.inr ⟨h2.symm, h1.symm⟩⟩
    · rintro ⟨b, hb, ⟨h1, h2⟩ | ⟨h1, h2⟩⟩
      · exact ⟨b, hb, Or.inl ⟨h1.symm, h2.symm⟩⟩
      · exact ⟨b, hb, Or.inr ⟨h2.symm, h1.symm⟩⟩
  · intro b hb hall
    have key : Contracts.Bonds.bondData (Dict.ofPairs (bondsList m)) (b.a1 : Int) (b.a2 : Int) =
        some (bondAttrs (b.typ : Int)) := by
      apply Contracts.Bonds.bondData_ofPairs_same _ _ _ _ (Contracts.Bonds.bondAttrs_wf _)
      · intro q hq hk
        simp only [bondsList, List.mem_map] at hq
        obtain ⟨b', hb', rfl⟩ := hq
        simp only [Prod.mk.injEq] at hk
        have : b.SamePair b' := by
          rcases hk with ⟨h1, h2⟩ | ⟨h1, h2⟩
          · exact Or.inl ⟨by omega, by omega⟩
          · exact Or.inr ⟨by omega, by omega⟩
        simp only [hall b' hb' this]; rfl
      · exact ⟨_, List.mem_map.mpr ⟨b, hb, rfl⟩, Or.inl rfl⟩
    exact ⟨by rw [eg, key], by rw [eg, Contracts.Bonds.bondData_symm, key]⟩

/-! ### the text: no line of a rendering contains a line break -/

theorem noBreak_append {a b : Str} (ha : NoBreak a) (hb : NoBreak b) : NoBreak (a ++ b) := by
  intro c hc
  rcases List.mem_append.mp hc with h | h
  · exact ha c h
  · exact hb c h

theorem noBreak_cons {c : Char} {b : Str} (hc : isLineBreak c = false) (hb : NoBreak b) : NoBreak (c :: b) := by
  intro d hd
  rcases List.mem_cons.mp hd with rfl | h
  · exact hc
  · exact hb d h

theorem noBreak_replicate (n : Nat) : NoBreak (List.replicate n ' ') := by
  intro c hc; rw [List.eq_of_mem_replicate hc]; decide

theorem noBreak_blanks (n : Nat) : NoBreak (blanks n) := noBreak_replicate n

theorem digit_noBreak (c : Char) (h : c.isDigit = true) : isLineBreak c = false := by
  by_contra hs
  rw [Bool.not_eq_false] at hs
  unfold isLineBreak at hs
  simp only [decide_eq_true_eq] at hs
  rcases hs with rfl|rfl|rfl|rfl|rfl|rfl|rfl|rfl|rfl|rfl <;> exact absurd h (by decide)

theorem noBreak_toDigits (n : Nat) : NoBreak (Nat.toDigits 10 n) := fun c hc =>
  digit_noBreak c (Nat.isDigit_of_mem_toDigits (by decide) (by decide) hc)

theorem noBreak_pyStrInt (n : Int) : NoBreak (pyStrInt n) := by
  rw [Contracts.V2000.pyStrInt_eq]
  split
  · exact noBreak_toDigits _
  · exact noBreak_cons (by decide) (noBreak_toDigits _)

theorem noBreak_fmt3 (n : Int) : NoBreak (fmt3 n) := noBreak_append (noBreak_replicate _) (noBreak_pyStrInt n)

theorem noBreak_fmt10 {t : Str} (h : NoBreak t) : NoBreak (fmt10 t) := noBreak_append (noBreak_replicate _) h

theorem noBreak_fmtSym {s : Str} (h : NoBreak s) : NoBreak (fmtSym s) := noBreak_append h (noBreak_blanks _)

theorem noBreak_flatMap {α : Type} (l : List α) (f : α → Str) (h : ∀ x ∈ l, NoBreak (f x)) : NoBreak (l.flatMap f) := by
  intro c hc
  obtain ⟨x, hx, hcx⟩ := List.mem_flatMap.mp hc
  exact h x hx c hcx

theorem noBreak_renderProp (K : Kind) (es : List (Nat × Int)) : NoBreak (Contracts.V2000.renderProp K.tag es) := by
  unfold Contracts.V2000.renderProp
  refine noBreak_append (noBreak_append ?_ (noBreak_fmt3 _)) (noBreak_flatMap _ _ ?_)
  · cases K <;> (unfold NoBreak; decide)
  · intro e _
    exact noBreak_cons (by decide) (noBreak_append (noBreak_fmt3 _) (noBreak_cons (by decide) (noBreak_fmt3 _)))

/-- the free parts of a rendering contain no line-break character -/
structure Choice.NoBreaks (m : AMol) (c : Choice) : Prop where
  h0 : NoBreak c.h0
  h1 : NoBreak c.h1
  h2 : NoBreak c.h2
  mid : NoBreak c.countsMid
  atomRest : ∀ i, NoBreak (c.atomRest i)
  bondRest : ∀ j, NoBreak (c.bondRest j)
  others : ∀ s, Item.other s ∈ c.items → NoBreak s
  post : ∀ l ∈ c.post, NoBreak l
  coords : ∀ a ∈ m.atoms, NoBreak a.x ∧ NoBreak a.y ∧ NoBreak a.z

theorem noBreak_v2000Lines (m : AMol) (hm : m.WF) (c : Choice) (hnb : c.NoBreaks m) :
    ∀ l ∈ v2000Lines m c, NoBreak l := by
  intro l hl
  simp only [v2000Lines, List.mem_cons, List.mem_append, List.mem_map] at hl
  rcases hl with rfl | rfl | rfl | rfl | hl | hl | hl | rfl | hl
  · exact hnb.h0
  · exact hnb.h1
  · exact hnb.h2
  · exact noBreak_append (noBreak_fmt3 _) (noBreak_append (noBreak_fmt3 _) (noBreak_append (noBreak_fmt3 _)
      (noBreak_append hnb.mid (noBreak_append (by unfold NoBreak; decide) (noBreak_blanks _)))))
  · simp only [atomLines, List.mem_map] at hl
    obtain ⟨p, hp, rfl⟩ := hl
    have hpm : p.1 ∈ m.atoms := List.mem_of_getElem? (List.mem_zipIdx_iff_getElem?.mp hp)
    obtain ⟨hx, hy, hz⟩ := hnb.coords _ hpm
    obtain ⟨_, _, hs⟩ := sym_shape p.1.sym (hm.atoms _ hpm).elem
    exact noBreak_append (noBreak_fmt10 hx) (noBreak_append (noBreak_fmt10 hy) (noBreak_append (noBreak_fmt10 hz)
      (noBreak_cons (by decide) (noBreak_append (noBreak_fmtSym hs) (noBreak_cons (by decide) (noBreak_cons (by decide)
        (noBreak_append (noBreak_fmt3 _) (hnb.atomRest _))))))))
  · simp only [bondLines, List.mem_map] at hl
    obtain ⟨p, hp, rfl⟩ := hl
    exact noBreak_append (noBreak_append (noBreak_append (noBreak_fmt3 _) (noBreak_fmt3 _)) (noBreak_fmt3 _))
      (hnb.bondRest _)
  · obtain ⟨it, hit, rfl⟩ := hl
    cases it with
    | prop K es => exact noBreak_renderProp K es
    | other s => exact hnb.others s hit
  · unfold NoBreak; decide
  · exact hnb.post l hl

theorem splitlines_renderV2000 (sep : Str) (hsep : IsSep sep) (m : AMol) (hm : m.WF) (c : Choice)
    (hnb : c.NoBreaks m) : splitlines (renderV2000 sep m c) = v2000Lines m c :=
  Contracts.Reader.splitlines_join_terminated sep hsep _ (noBreak_v2000Lines m hm c hnb)

/-- **C08, first clause.** For every well-formed abstract molecule `m` (≤ 999 atoms and bonds) and every V2000
rendering of it — any header lines, any rest of the counts line, charges / radicals by atom-block charge code or
by `M  CHG` / `M  RAD` lines (which supersede all codes), isotopes by `D` / `T` or `M  ISO` lines, entries grouped
into lines at will, unrelated property lines interleaved, any rest of the atom and bond lines, any lines after
`M  END`, LF / CRLF / CR — `graph_from_molfile_text` returns a graph with node `i` for atom `i` carrying exactly the
attributes `nodeSpec` (element symbol, atomic number, partition 0, coordinates, `chg` / `rad` / `mass` iff non-zero,
invariant code; nothing else), adjacency = the bonds of `m`; the graph has the identity facts `IdOK` (finding 8). -/
theorem read_v2000_render (env : DepEnv) (fuel : Nat) (sep : Str) (hsep : IsSep sep) (m : AMol) (hm : m.WF)
    (c : Choice) (hc : c.OK m) (hnb : c.NoBreaks m) (hco : CoordsOK env m) :
    ∃ g, Tucan.molfile_reader.graph_from_molfile_text env fuel (renderV2000 sep m c) = .ok g ∧ g.WF ∧ IdOK g ∧
      g.nodeList = range (m.atoms.length : Int) ∧
      (∀ (i : Nat) a, m.atoms[i]? = some a → ∀ k,
        g.attr (i : Int) k = nodeSpec (coordOf env a.x) (coordOf env a.y) (coordOf env a.z) a k) ∧
      (∀ x y, y ∈ g.nbrs x ↔ ∃ b ∈ m.bonds, (x = (b.a1 : Int) ∧ y = (b.a2 : Int)) ∨ (x = (b.a2 : Int) ∧ y = (b.a1 : Int))) ∧
      (∀ b ∈ m.bonds, (∀ b' ∈ m.bonds, b.SamePair b' → b'.typ = b.typ) →
        g.edgeAttrs (b.a1 : Int) (b.a2 : Int) = some (bondAttrs (b.typ : Int)) ∧
          g.edgeAttrs (b.a2 : Int) (b.a1 : Int) = some (bondAttrs (b.typ : Int))) :=
  read_v2000_lines env fuel m hm c hc hco _ (splitlines_renderV2000 sep hsep m hm c hnb)

/-! ## 3. the V3000 rendering of the same molecule -/

open Contracts.V3000 (AtomLine BondLine Prop' IsInt intOf NoOpt propInt propVals lastNonzero mkAtomAttrs optAttr)
open Contracts.Reader (Ctab Dress fileLines attrsOf fltOf zOf)

/-- `CHG=`, `RAD=`, `MASS=` properties of an atom line: present iff the value is not 0; no `MASS=` on `D` / `T` -/
def atomProps (a : AAtom) : List Prop' :=
  (if a.chg = 0 then [] else [⟨py!"CHG", pyStrInt a.chg, []⟩]) ++
  ((if a.rad = 0 then [] else [⟨py!"RAD", pyStrInt a.rad, []⟩]) ++
  (if a.mass = 0 ∨ isoOf a.sym ≠ 0 then [] else [⟨py!"MASS", pyStrInt a.mass, []⟩]))

/-- atom line `M  V30 i sym x y z 0 [CHG=c] [RAD=r] [MASS=m]` -/
def toAtomLine (a : AAtom) (i : Nat) : AtomLine :=
  ⟨pyStrInt ((i + 1 : Nat) : Int), a.sym, a.x, a.y, a.z, py!"0", atomProps a⟩
/-- bond line `M  V30 j type a1 a2` -/
def toBondLine (b : ABond) (j : Nat) : BondLine :=
  ⟨pyStrInt ((j + 1 : Nat) : Int), pyStrInt (b.typ : Int), pyStrInt ((b.a1 + 1 : Nat) : Int),
    pyStrInt ((b.a2 + 1 : Nat) : Int), [], none⟩

/-- **the V3000 connection table of an abstract molecule** (to be laid out by any `Reader.Dress`) -/
def toCtab (m : AMol) : Ctab :=
  ⟨m.atoms.zipIdx.map (fun p => toAtomLine p.1 p.2), m.bonds.zipIdx.map (fun p => toBondLine p.1 p.2)⟩

theorem parseInt_small (n : Int) (h : n.natAbs ≤ 1000) : parseInt (pyStrInt n) = .ok n := by
  have := Contracts.V2000.parseInt_pyStrInt [] (by simp) n (by
    have : (1000 : Nat) < 10 ^ 4300 := by
      calc (1000 : Nat) < 10 ^ 4 := by norm_num
        _ ≤ 10 ^ 4300 := Nat.pow_le_pow_right (by norm_num) (by norm_num)
    omega)
  simpa using this

theorem intOf_small (n : Int) (h : n.natAbs ≤ 1000) : intOf (pyStrInt n) = n :=
  Contracts.V3000.intOf_eq _ _ (parseInt_small n h)

theorem isInt_small (n : Int) (h : n.natAbs ≤ 1000) : IsInt (pyStrInt n) := ⟨n, parseInt_small n h⟩

theorem propInt_atomProps (a : AAtom) (ha : a.WF) :
    propInt (atomProps a) py!"CHG" = (if a.chg = 0 then none else some a.chg) ∧
    propInt (atomProps a) py!"RAD" = (if a.rad = 0 then none else some (a.rad : Int)) ∧
    propInt (atomProps a) py!"MASS" = (if a.mass = 0 ∨ isoOf a.sym ≠ 0 then none else some (a.mass : Int)) := by
  have h1 := intOf_small a.chg (by have := ha.chgLo; have := ha.chgHi; omega)
  have h2 := intOf_small a.rad (by have := ha.rad; omega)
  have h3 := intOf_small a.mass (by have := ha.mass; omega)
  unfold atomProps propInt propVals lastNonzero
  refine ⟨?_, ?_, ?_⟩ <;>
    by_cases c1 : a.chg = 0 <;> by_cases c2 : a.rad = 0 <;> by_cases c3 : (a.mass = 0 ∨ isoOf a.sym ≠ 0) <;>
    simp [c1, c2, c3, h1, h2, h3, Option.filter] <;> omega


/-- what a V3000 rendering needs of the coordinate tokens: accepted by `float()`, and not mistakable for a
`CHG=` / `MASS=` / `RAD=` property -/
structure V3OK (env : DepEnv) (m : AMol) : Prop where
  floats : ∀ a ∈ m.atoms, (∃ f, env.parseFloat a.x = .ok f) ∧ (∃ f, env.parseFloat a.y = .ok f) ∧
    (∃ f, env.parseFloat a.z = .ok f)
  noOpt : ∀ a ∈ m.atoms, NoOpt a.x ∧ NoOpt a.y ∧ NoOpt a.z

theorem v3_atomicNumber (s : Str) (hs : s ∈ periodicTable) :
    Contracts.V3000.atomicNumber s = .ok (Val.int (atomicNumber s)) := by
  obtain ⟨ea, h1, h2⟩ := elem_of_table s hs
  simp [Contracts.V3000.atomicNumber, h1, h2]

theorem mem_toCtab_atoms {m : AMol} {l : AtomLine} (h : l ∈ (toCtab m).atoms) :
    ∃ (i : Nat) (a : AAtom), m.atoms[i]? = some a ∧ l = toAtomLine a i := by
  simp only [toCtab, List.mem_map] at h
  obtain ⟨p, hp, rfl⟩ := h
  exact ⟨p.2, p.1, List.mem_zipIdx_iff_getElem?.mp hp, rfl⟩

theorem mem_toCtab_bonds {m : AMol} {l : BondLine} (h : l ∈ (toCtab m).bonds) :
    ∃ (j : Nat) (b : ABond), m.bonds[j]? = some b ∧ l = toBondLine b j := by
  simp only [toCtab, List.mem_map] at h
  obtain ⟨p, hp, rfl⟩ := h
  exact ⟨p.2, p.1, List.mem_zipIdx_iff_getElem?.mp hp, rfl⟩

theorem toCtab_atoms_getElem? (m : AMol) (i : Nat) :
    (toCtab m).atoms[i]? = (m.atoms[i]?).map (fun a => toAtomLine a i) := by
  simp [toCtab, List.getElem?_map, List.getElem?_zipIdx, Option.map_map, Function.comp_def]

theorem length_toCtab_atoms (m : AMol) : (toCtab m).atoms.length = m.atoms.length := by simp [toCtab]

theorem idx_toCtab (m : AMol) (hm : m.WF) :
    (toCtab m).atoms.map (fun a => intOf a.idx) = (List.range m.atoms.length).map (fun i => ((i + 1 : Nat) : Int)) := by
  apply List.ext_getElem
  · simp [toCtab]
  · intro i h1 h2
    simp only [List.length_map, length_toCtab_atoms] at h1
    have := hm.natoms
    simp only [toCtab, List.getElem_map, List.getElem_zipIdx, toAtomLine, List.getElem_range, Nat.zero_add]
    exact intOf_small _ (by omega)

theorem noOpt_of_isInt {s : Str} (h : IsInt s) : NoOpt s := h.noOpt

theorem noParen_pyStrInt (n : Int) : '(' ∉ pyStrInt n := by
  intro h
  rw [Contracts.V2000.pyStrInt_eq] at h
  have key : ∀ k, '(' ∉ Nat.toDigits 10 k := fun k hk =>
    absurd (Nat.isDigit_of_mem_toDigits (b := 10) (by decide) (by decide) hk) (by decide)
  split at h
  · exact key _ h
  · rcases List.mem_cons.mp h with h | h
    · exact absurd h (by decide)
    · exact key _ h

theorem toCtab_plain (env : DepEnv) (m : AMol) (hm : m.WF) (h3 : V3OK env m) : (toCtab m).Plain env where
  wf := by
    intro l hl
    obtain ⟨i, a, ha, rfl⟩ := mem_toCtab_atoms hl
    have hi := (List.getElem?_eq_some_iff.mp ha).1
    have ham := List.mem_of_getElem? ha
    have haw := hm.atoms a ham
    have hn := hm.natoms
    obtain ⟨nx, ny, nz⟩ := h3.noOpt a ham
    refine ⟨isInt_small _ (by omega), nx, ny, nz, (by show NoOpt py!"0"; unfold NoOpt; decide), ?_, ?_, ?_⟩
    · intro p hp
      simp only [toAtomLine, atomProps, List.mem_append] at hp
      rcases hp with hp | hp | hp <;> split_ifs at hp <;> simp at hp <;> subst hp <;> (simp only; decide)
    · intro p hp _
      simp only [toAtomLine, atomProps, List.mem_append] at hp
      rcases hp with hp | hp | hp <;> split_ifs at hp <;> simp at hp <;> subst hp
      · exact isInt_small _ (by have := haw.chgLo; have := haw.chgHi; omega)
      · exact isInt_small _ (by have := haw.rad; omega)
      · exact isInt_small _ (by have := haw.mass; omega)
    · intro p hp t ht
      simp only [toAtomLine, atomProps, List.mem_append] at hp
      rcases hp with hp | hp | hp <;> split_ifs at hp <;> simp at hp <;> subst hp <;> simp at ht
  nostar := by
    intro l hl
    obtain ⟨i, a, ha, rfl⟩ := mem_toCtab_atoms hl
    have haw := hm.atoms a (List.mem_of_getElem? ha)
    intro e
    simp only [toAtomLine] at e
    have := haw.elem
    rw [e] at this
    revert this; decide
  known := by
    intro l hl
    obtain ⟨i, a, ha, rfl⟩ := mem_toCtab_atoms hl
    have haw := hm.atoms a (List.mem_of_getElem? ha)
    exact ⟨_, by simp only [toAtomLine, v3_hydrogenIsotope]; exact v3_atomicNumber _ haw.elem⟩
  coords := by
    intro l hl
    obtain ⟨i, a, ha, rfl⟩ := mem_toCtab_atoms hl
    exact h3.floats a (List.mem_of_getElem? ha)
  uniq := by
    rw [idx_toCtab m hm]
    apply List.Nodup.map _ List.nodup_range
    intro x y h; simpa using h
  bondInts := by
    intro l hl
    obtain ⟨j, b, hb, rfl⟩ := mem_toCtab_bonds hl
    have hbw := hm.bonds b (List.mem_of_getElem? hb)
    have hn := hm.natoms
    have h1 := hbw.a1; have h2 := hbw.a2; have h3 := hbw.typ
    exact ⟨isInt_small _ (by omega), isInt_small _ (by omega), isInt_small _ (by omega)⟩
  bondEnds := by
    intro l hl
    obtain ⟨j, b, hb, rfl⟩ := mem_toCtab_bonds hl
    have hbw := hm.bonds b (List.mem_of_getElem? hb)
    have hn := hm.natoms
    have h1 := hbw.a1; have h2 := hbw.a2
    rw [idx_toCtab m hm]
    simp only [toBondLine, List.mem_map, List.mem_range]
    exact ⟨⟨b.a1, h1, (intOf_small _ (by omega)).symm⟩, ⟨b.a2, h2, (intOf_small _ (by omega)).symm⟩⟩

theorem toCtab_bondShape (m : AMol) : ∀ b ∈ (toCtab m).bonds, b.Shape := by
  intro l hl
  obtain ⟨j, b, hb, rfl⟩ := mem_toCtab_bonds hl
  refine ⟨?_, ?_⟩
  · intro t ht
    simp only [toBondLine, List.append_nil, List.mem_cons, List.not_mem_nil, or_false] at ht
    rcases ht with rfl | rfl | rfl | rfl <;> exact noParen_pyStrInt _
  · intro nums post h; simp [toBondLine] at h

theorem toCtab_notNeg (m : AMol) (hm : m.WF) : ¬ (toCtab m).NegMassRad := by
  rintro ⟨l, hl, hbad⟩
  obtain ⟨i, a, ha, rfl⟩ := mem_toCtab_atoms hl
  have haw := hm.atoms a (List.mem_of_getElem? ha)
  obtain ⟨_, pr, pm⟩ := propInt_atomProps a haw
  simp only [toAtomLine] at hbad
  rcases hbad with ⟨_, v, hv, hlt⟩ | ⟨v, hv, hlt⟩
  · rw [pm] at hv; split_ifs at hv; cases hv; omega
  · rw [pr] at hv; split_ifs at hv; cases hv; omega

theorem toCtab_notSelf (m : AMol) (hm : m.WF) : ¬ (toCtab m).SelfBond := by
  rintro ⟨l, hl, he⟩
  obtain ⟨j, b, hb, rfl⟩ := mem_toCtab_bonds hl
  have hbw := hm.bonds b (List.mem_of_getElem? hb)
  have hn := hm.natoms
  have h1 := hbw.a1; have h2 := hbw.a2; have h3 := hbw.ne
  simp only [toBondLine] at he
  rw [intOf_small _ (by omega), intOf_small _ (by omega)] at he
  omega


theorem lookup_optAttr (name k : String) (v : Int) :
    (optAttr name (if v = 0 then none else some v)).lookup k = if k = name then optInt v else none := by
  by_cases h : v = 0
  · subst h; simp [optAttr, optInt]
  · simp [optAttr, optInt, h, lookup_cons_ite]

theorem mkAtomAttrs_get? (el : Str) (Z : Val) (fx fy fz : Flt) (c m r : Int) (k : String) :
    (mkAtomAttrs el Z fx fy fz (if c = 0 then none else some c) (if m = 0 then none else some m)
      (if r = 0 then none else some r)).get? k = baseAttr el Z (Val.flt fx) (Val.flt fy) (Val.flt fz) c r m k := by
  unfold mkAtomAttrs Dict.get?
  simp only [List.lookup_append, lookup_optAttr]
  unfold baseAttr
  simp only [lookup_cons_ite, List.lookup_nil]
  split_ifs <;> simp_all

/-- the attributes the V3000 reader gives the atom line of atom `a` -/
theorem attrsOf_toAtomLine (env : DepEnv) (a : AAtom) (ha : a.WF) (i : Nat) (k : String) :
    (attrsOf env (toAtomLine a i)).get? k =
      nodeAttr (Val.flt (fltOf env a.x)) (Val.flt (fltOf env a.y)) (Val.flt (fltOf env a.z)) a k := by
  obtain ⟨pc, pr, pm⟩ := propInt_atomProps a ha
  have hZ : zOf (elemOf a.sym) = Val.int (atomicNumber (elemOf a.sym)) := by
    simp [zOf, v3_atomicNumber _ ha.elem]
  have hmass : (if ((isoOf a.sym : Nat) : Int) = 0 then (if a.mass = 0 ∨ isoOf a.sym ≠ 0 then none else some (a.mass : Int))
      else some ((isoOf a.sym : Nat) : Int)) = if (a.mass : Int) = 0 then none else some (a.mass : Int) := by
    by_cases h0 : isoOf a.sym = 0
    · by_cases h1 : a.mass = 0 <;> simp [h0, h1]
    · have := ha.iso h0
      have h1 : a.mass ≠ 0 := by omega
      simp [h0, h1, this]
  have hrad : (if a.rad = 0 then none else some (a.rad : Int)) = if (a.rad : Int) = 0 then none else some (a.rad : Int) := by
    by_cases h : a.rad = 0 <;> simp [h]
  unfold attrsOf Contracts.V3000.atomAttrs
  simp only [toAtomLine, v3_hydrogenIsotope, pc, pr, pm, hZ, hmass, hrad]
  exact mkAtomAttrs_get? _ _ _ _ _ _ _ _ _

theorem mem_bonds_toCtab {m : AMol} {b : ABond} (hb : b ∈ m.bonds) : ∃ j, toBondLine b j ∈ (toCtab m).bonds := by
  obtain ⟨j, hj, rfl⟩ := List.getElem_of_mem hb
  refine ⟨j, ?_⟩
  simp only [toCtab, List.mem_map]
  exact ⟨(m.bonds[j], j), List.mem_zipIdx_iff_getElem?.mpr (by simp [hj]), rfl⟩

/-- the bond lines of `toCtab m` join file indices `i+1`, `j+1` iff a bond of `m` joins positions `i`, `j` -/
theorem joins_toBondLine (m : AMol) (hm : m.WF) (b : ABond) (hb : b ∈ m.bonds) (k : Nat) (i j : Nat) :
    Contracts.Bonds.Joins (toBondLine b k) ((i + 1 : Nat) : Int) ((j + 1 : Nat) : Int) ↔
      ((b.a1 = i ∧ b.a2 = j) ∨ (b.a1 = j ∧ b.a2 = i)) := by
  have hbw := hm.bonds b hb
  have hn := hm.natoms
  have h1 := hbw.a1; have h2 := hbw.a2
  unfold Contracts.Bonds.Joins
  simp only [toBondLine]
  rw [intOf_small _ (by omega), intOf_small _ (by omega)]
  constructor
  · rintro (⟨e1, e2⟩ | ⟨e1, e2⟩)
    · exact Or.inl ⟨by omega, by omega⟩
    · exact Or.inr ⟨by omega, by omega⟩
  · rintro (⟨e1, e2⟩ | ⟨e1, e2⟩)
    · exact Or.inl ⟨by omega, by omega⟩
    · exact Or.inr ⟨by omega, by omega⟩

theorem joined_toCtab (m : AMol) (hm : m.WF) (i j : Nat) :
    (toCtab m).joined ((i + 1 : Nat) : Int) ((j + 1 : Nat) : Int) ↔
      ∃ b ∈ m.bonds, (b.a1 = i ∧ b.a2 = j) ∨ (b.a1 = j ∧ b.a2 = i) := by
  rw [Contracts.Bonds.joined_iff_joins]
  constructor
  · rintro ⟨l, hl, hj⟩
    obtain ⟨k, b, hb, rfl⟩ := mem_toCtab_bonds hl
    have hbm := List.mem_of_getElem? hb
    exact ⟨b, hbm, (joins_toBondLine m hm b hbm k i j).mp hj⟩
  · rintro ⟨b, hb, hj⟩
    obtain ⟨k, hk⟩ := mem_bonds_toCtab hb
    exact ⟨_, hk, (joins_toBondLine m hm b hb k i j).mpr hj⟩

theorem idx_toAtomLine (m : AMol) (hm : m.WF) (i : Nat) (a : AAtom) (ha : m.atoms[i]? = some a) :
    intOf (toAtomLine a i).idx = ((i + 1 : Nat) : Int) := by
  have hi := (List.getElem?_eq_some_iff.mp ha).1
  have hn := hm.natoms
  exact intOf_small _ (by omega)

/-- **the V3000 rendering is read as the molecule**: every layout (`Reader.Dress`: header lines, counts line,
blank runs, continuation cuts, further V30 lines, trailing lines; LF / CRLF / CR) of `toCtab m` is read as the
graph with node `i` carrying `nodeSpec` of atom `i` (coordinates: `float()` of the tokens), adjacency = the bonds
of `m`, bond types as in `m` -/
theorem read_v3000_render (env : DepEnv) (fuel : Nat) (sep : Str) (hsep : IsSep sep) (m : AMol) (hm : m.WF)
    (h3 : V3OK env m) (D : Dress) (hok : D.OK (toCtab m)) (hnb : D.NoBreaks (toCtab m))
    (hfuel : ((fileLines (toCtab m) D).drop 4).length + 1 ≤ fuel) :
    ∃ g, Tucan.molfile_reader.graph_from_molfile_text env fuel (join sep (fileLines (toCtab m) D ++ [[]])) = .ok g ∧
      g.WF ∧ IdOK g ∧ g.nodeList = range (m.atoms.length : Int) ∧
      (∀ (i : Nat) a, m.atoms[i]? = some a → ∀ k,
        g.attr (i : Int) k = nodeSpec (Val.flt (fltOf env a.x)) (Val.flt (fltOf env a.y)) (Val.flt (fltOf env a.z)) a k) ∧
      (∀ x y, y ∈ g.nbrs x ↔ ∃ b ∈ m.bonds, (x = (b.a1 : Int) ∧ y = (b.a2 : Int)) ∨ (x = (b.a2 : Int) ∧ y = (b.a1 : Int))) ∧
      (∀ b ∈ m.bonds, (∀ b' ∈ m.bonds, b.SamePair b' → b'.typ = b.typ) →
        g.edgeAttrs (b.a1 : Int) (b.a2 : Int) = some (bondAttrs (b.typ : Int)) ∧
          g.edgeAttrs (b.a2 : Int) (b.a1 : Int) = some (bondAttrs (b.typ : Int))) := by
  obtain ⟨g, hg, wg, ng, ag, bg, _, ebl, _⟩ := Contracts.Bonds.graph_from_molfile_text_render_ok_bonds env fuel sep hsep
    (toCtab m) D hok hnb (toCtab_bondShape m) hfuel (toCtab_plain env m hm h3) (toCtab_notNeg m hm) (toCtab_notSelf m hm)
  rw [length_toCtab_atoms] at ng
  have hat : ∀ (i : Nat) a, m.atoms[i]? = some a → (toCtab m).atoms[i]? = some (toAtomLine a i) := by
    intro i a ha; rw [toCtab_atoms_getElem?, ha]; rfl
  have hnode : ∀ (i : Nat) a, m.atoms[i]? = some a → ∃ new, g.node.get? (i : Int) = some (withCode new) ∧
      ∀ k, new.get? k = nodeAttr (Val.flt (fltOf env a.x)) (Val.flt (fltOf env a.y)) (Val.flt (fltOf env a.z)) a k :=
    fun i a ha => ⟨_, ag i _ (hat i a ha), attrsOf_toAtomLine env a (hm.atoms a (List.mem_of_getElem? ha)) i⟩
  have hidx : ∀ n ∈ g.nodeList, ∃ i : Nat, n = (i : Int) ∧ i < m.atoms.length := by
    intro n hn
    rw [ng, Contracts.Parser.mem_range] at hn
    obtain ⟨i, rfl⟩ := Int.eq_ofNat_of_zero_le hn.1
    exact ⟨i, rfl, by exact_mod_cast hn.2⟩
  have hadj : ∀ (i j : Nat), i < m.atoms.length → j < m.atoms.length →
      ((j : Int) ∈ g.nbrs (i : Int) ↔ ∃ b ∈ m.bonds, (b.a1 = i ∧ b.a2 = j) ∨ (b.a1 = j ∧ b.a2 = i)) := by
    intro i j hi hj
    have ha : m.atoms[i]? = some m.atoms[i] := by simp [hi]
    have hb : m.atoms[j]? = some m.atoms[j] := by simp [hj]
    rw [bg i j _ _ (hat i _ ha) (hat j _ hb), idx_toAtomLine m hm i _ ha, idx_toAtomLine m hm j _ hb,
      joined_toCtab m hm i j]
  refine ⟨g, hg, wg, ?_, ng, ?_, ?_, ?_⟩
  · apply Contracts.Final.idOK_of_withCode wg
    intro n hn
    obtain ⟨i, rfl, hi⟩ := hidx n hn
    obtain ⟨new, hnew, hs⟩ := hnode i m.atoms[i] (by simp [hi])
    exact ⟨new, hnew, attrsOK_of_spec new _ _ _ _ (hm.atoms _ (List.getElem_mem hi)) hs⟩
  · intro i a ha k
    obtain ⟨new, hnew, hs⟩ := hnode i a ha
    rw [Graph.attr_eq, hnew]
    exact withCode_spec new _ _ _ a hs k
  · intro x y
    constructor
    · intro h
      have hy := wg.nbr_mem x y h
      have hx := wg.nbr_mem y x (wg.mem_nbrs_symm h)
      obtain ⟨j, rfl, hj⟩ := hidx y hy
      obtain ⟨i, rfl, hi⟩ := hidx x hx
      obtain ⟨b, hb, hor⟩ := (hadj i j hi hj).mp h
      refine ⟨b, hb, ?_⟩
      rcases hor with ⟨e1, e2⟩ | ⟨e1, e2⟩
      · exact Or.inl ⟨by omega, by omega⟩
      · exact Or.inr ⟨by omega, by omega⟩
    · rintro ⟨b, hb, hor⟩
      have hbw := hm.bonds b hb
      rcases hor with ⟨rfl, rfl⟩ | ⟨rfl, rfl⟩
      · exact (hadj b.a1 b.a2 hbw.a1 hbw.a2).mpr ⟨b, hb, Or.inl ⟨rfl, rfl⟩⟩
      · exact (hadj b.a2 b.a1 hbw.a2 hbw.a1).mpr ⟨b, hb, Or.inr ⟨rfl, rfl⟩⟩
  · intro b hb hall
    have hbw := hm.bonds b hb
    have hn := hm.natoms
    have h1 := hbw.a1; have h2 := hbw.a2; have h3 := hbw.typ
    obtain ⟨k, hk⟩ := mem_bonds_toCtab hb
    have ha1 : m.atoms[b.a1]? = some m.atoms[b.a1] := by simp [h1]
    have ha2 : m.atoms[b.a2]? = some m.atoms[b.a2] := by simp [h2]
    have e1 : intOf (toBondLine b k).a1 = ((b.a1 + 1 : Nat) : Int) := intOf_small _ (by omega)
    have e2 : intOf (toBondLine b k).a2 = ((b.a2 + 1 : Nat) : Int) := intOf_small _ (by omega)
    have et : intOf (toBondLine b k).typ = (b.typ : Int) := intOf_small _ (by omega)
    have := ebl _ hk b.a1 b.a2 _ _ (hat _ _ ha1) (hat _ _ ha2)
      (by rw [e1, idx_toAtomLine m hm _ _ ha1]) (by rw [e2, idx_toAtomLine m hm _ _ ha2])
      (by
        intro l hl hj
        obtain ⟨k', b', hb', rfl⟩ := mem_toCtab_bonds hl
        have hbm' := List.mem_of_getElem? hb'
        rw [e1, e2, joins_toBondLine m hm b' hbm' k' b.a1 b.a2] at hj
        have hbw' := hm.bonds b' hbm'
        have := hbw'.typ
        rw [et, show intOf (toBondLine b' k').typ = (b'.typ : Int) from intOf_small _ (by omega)]
        exact_mod_cast hall b' hbm' hj)
    rw [et] at this
    exact this

/-! ## 4. the two readers agree -/

/-- the keys whose values are coordinates -/
def coordKeys : List String := ["x_coord", "y_coord", "z_coord"]

theorem nodeSpec_coords (fx fy fz fx' fy' fz' : Val) (a : AAtom) (k : String) (hk : k ∉ coordKeys) :
    nodeSpec fx fy fz a k = nodeSpec fx' fy' fz' a k := by
  simp only [coordKeys, List.mem_cons, List.not_mem_nil, or_false, not_or] at hk
  obtain ⟨h1, h2, h3⟩ := hk
  simp only [nodeSpec, nodeAttr, baseAttr, h1, h2, h3, if_false]

theorem nodeAttr_coords (fx fy fz fx' fy' fz' : Val) (a : AAtom) (k : String) (hk : k ∉ coordKeys) :
    nodeAttr fx fy fz a k = nodeAttr fx' fy' fz' a k := by
  simp only [coordKeys, List.mem_cons, List.not_mem_nil, or_false, not_or] at hk
  obtain ⟨h1, h2, h3⟩ := hk
  simp only [nodeAttr, baseAttr, h1, h2, h3, if_false]

/-- `hsameA` of `Final.C08_agree`, derived -/
theorem sameA (env : DepEnv) (m : AMol) (hm : m.WF) (c : Choice) (hc : c.OK m) :
    ∀ (i : Nat) (hi : i < (attrsList env m c).length) l, (toCtab m).atoms[i]? = some l →
      ∀ k ∈ Contracts.Reader.idKeys,
        (attrsOf env l).get? k = specGet (c.items.filterMap Item.parsed) i (attrsList env m c)[i] k := by
  intro i hi l hl k hk
  have hi' : i < m.atoms.length := by rwa [length_attrsList] at hi
  have ha : m.atoms[i]? = some m.atoms[i] := by simp [hi']
  rw [toCtab_atoms_getElem?, ha] at hl
  cases hl
  rw [attrs_spec env m hm c hc i hi _ ha k, attrsOf_toAtomLine env _ (hm.atoms _ (List.getElem_mem hi')) i k]
  apply nodeAttr_coords
  revert hk; simp only [Contracts.Reader.idKeys, coordKeys, List.mem_cons, List.not_mem_nil, or_false]
  rintro (rfl | rfl | rfl | rfl) <;> decide

/-- `hsameB` of `Final.C08_agree`, derived -/
theorem sameB (m : AMol) (hm : m.WF) :
    ∀ (i j : Nat) a b, (toCtab m).atoms[i]? = some a → (toCtab m).atoms[j]? = some b →
      ((toCtab m).joined (intOf a.idx) (intOf b.idx) ↔
        ∃ q ∈ bondsList m, q.1 = ((i : Int), (j : Int)) ∨ q.1 = ((j : Int), (i : Int))) := by
  intro i j la lb hla hlb
  rw [toCtab_atoms_getElem?] at hla hlb
  obtain ⟨a, ha, rfl⟩ := Option.map_eq_some_iff.mp hla
  obtain ⟨b, hb, rfl⟩ := Option.map_eq_some_iff.mp hlb
  rw [idx_toAtomLine m hm i a ha, idx_toAtomLine m hm j b hb, joined_toCtab m hm i j]
  simp only [bondsList, List.mem_map, exists_exists_and_eq_and, Prod.mk.injEq]
  constructor
  · rintro ⟨q, hq, ⟨h1, h2⟩ | ⟨h1, h2⟩⟩
    · exact ⟨q, hq, Or.inl ⟨by omega, by omega⟩⟩
    · exact ⟨q, hq, Or.inr ⟨by omega, by omega⟩⟩
  · rintro ⟨q, hq, ⟨h1, h2⟩ | ⟨h1, h2⟩⟩
    · exact ⟨q, hq, Or.inl ⟨by omega, by omega⟩⟩
    · exact ⟨q, hq, Or.inr ⟨by omega, by omega⟩⟩

/-- **C08.** For every well-formed abstract molecule `m` with at least one atom, every V2000 rendering
(`renderV2000 sep' m c`, `c.OK m`) and every V3000 rendering (`fileLines (toCtab m) D`, `D.OK`) are read
successfully, as graphs with the same nodes, the same value of every node attribute other than the coordinates
(element symbol, atomic number, `chg`, `rad`, `mass`, `partition`, invariant code; absent keys absent in both), the
same adjacency, the same edge data (`bond_type`) when no two bonds of `m` with different types join the same pair —
**and hence get the same TUCAN string** (`Final.C08_agree` with `hsameA` / `hsameB` discharged). -/
theorem read_v2000_eq_v3000 {env₁ env₂ : DepEnv} (envr : DepEnv) (hs₁ : env₁.SetLawful) (hs₂ : env₂.SetLawful)
    (hb : BlissLawful env₁) (hcp : env₂.canonicalPermutation = env₁.canonicalPermutation)
    (hpv : env₂.permuteVertices = env₁.permuteVertices)
    (m : AMol) (hm : m.WF) (hne : m.atoms ≠ [])
    -- the V3000 rendering
    (rf : Nat) (sep : Str) (hsep : IsSep sep) (h3 : V3OK envr m) (D : Dress) (hok : D.OK (toCtab m))
    (hnbD : D.NoBreaks (toCtab m)) (hrf : ((fileLines (toCtab m) D).drop 4).length + 1 ≤ rf)
    -- the V2000 rendering
    (rf' : Nat) (sep' : Str) (hsep' : IsSep sep') (c : Choice) (hc : c.OK m) (hnb : c.NoBreaks m)
    (hco : CoordsOK envr m) :
    ∃ g g', Tucan.molfile_reader.graph_from_molfile_text envr rf (join sep (fileLines (toCtab m) D ++ [[]])) = .ok g ∧
      Tucan.molfile_reader.graph_from_molfile_text envr rf' (renderV2000 sep' m c) = .ok g' ∧
      g'.nodeList = g.nodeList ∧
      (∀ n k, k ∉ coordKeys → g'.attr n k = g.attr n k) ∧
      (∀ x y, y ∈ g'.nbrs x ↔ y ∈ g.nbrs x) ∧
      ((∀ b ∈ m.bonds, ∀ b' ∈ m.bonds, b.SamePair b' → b'.typ = b.typ) → ∀ x y, g'.edgeAttrs x y = g.edgeAttrs x y) ∧
      fuelBound g' = fuelBound g ∧
      ∀ fuel ≥ fuelBound g, ∀ fuel' ≥ fuelBound g, ∃ s, tucan env₁ fuel g = .ok s ∧ tucan env₂ fuel' g' = .ok s := by
  obtain ⟨g, hg, wg, _, ng, ag, bg, eg⟩ := read_v3000_render envr rf sep hsep m hm h3 D hok hnbD hrf
  obtain ⟨g', hg', wg', _, ng', ag', bg', eg'⟩ := read_v2000_render envr rf' sep' hsep' m hm c hc hnb hco
  obtain ⟨hna, hnb2, hnl⟩ := counts_fields m hm c
  obtain ⟨g₀, g₀', e₀, e₀', hfb, hstr⟩ := Contracts.Final.C08_agree envr hs₁ hs₂ hb hcp hpv
    (toCtab m) (toCtab_plain envr m hm h3) (toCtab_notNeg m hm) (toCtab_notSelf m hm)
    (by intro e; apply hne; have := congrArg List.length e; rw [length_toCtab_atoms] at this
        exact List.eq_nil_of_length_eq_zero (by simpa using this))
    sep hsep D hok hnbD (toCtab_bondShape m) rf hrf
    rf' (renderV2000 sep' m c) c.h0 c.h1 c.h2 (countsLine m c) (atomLines m c) (bondLines m c) (attrsList envr m c)
    (bondsList m) c.items c.post (splitlines_renderV2000 sep' hsep' m hm c hnb)
    (counts_ver m c) hna hnb2 hnl (atoms_parse envr m hm c hc hco) (bonds_parse envr m hm c) (bonds_unrelated m c)
    (items_legal envr m hm c hc) (attrs_wf envr m c) (attrs_Z envr m c) (bonds_ends envr m hm c)
    (attrs_notneg envr m hm c hc) (bonds_noself m hm)
    (by rw [length_attrsList, length_toCtab_atoms]) (sameA envr m hm c hc) (sameB m hm)
  obtain rfl : g₀ = g := Except.ok.inj (e₀.symm.trans hg)
  obtain rfl : g₀' = g' := Except.ok.inj (e₀'.symm.trans hg')
  have hnl' : g₀'.nodeList = g₀.nodeList := by rw [ng, ng']
  have hnbrs : ∀ x y, y ∈ g₀'.nbrs x ↔ y ∈ g₀.nbrs x := fun x y => by rw [bg, bg']
  refine ⟨g₀, g₀', hg, hg', hnl', ?_, hnbrs, ?_, hfb, hstr⟩
  · intro n k hk
    by_cases hn : n ∈ g₀.nodeList
    · rw [ng, Contracts.Parser.mem_range] at hn
      obtain ⟨i, rfl⟩ := Int.eq_ofNat_of_zero_le hn.1
      have hi : i < m.atoms.length := by exact_mod_cast hn.2
      have ha : m.atoms[i]? = some m.atoms[i] := by simp [hi]
      rw [ag i _ ha k, ag' i _ ha k]
      exact nodeSpec_coords _ _ _ _ _ _ _ k hk
    · rw [Contracts.RoundTrip.attr_eq_none_of_not_mem hn, Contracts.RoundTrip.attr_eq_none_of_not_mem (hnl' ▸ hn)]
  · intro hsimple x y
    by_cases h : ∃ b ∈ m.bonds, (x = (b.a1 : Int) ∧ y = (b.a2 : Int)) ∨ (x = (b.a2 : Int) ∧ y = (b.a1 : Int))
    · obtain ⟨b, hbm, hor⟩ := h
      obtain ⟨p1, p2⟩ := eg b hbm (hsimple b hbm)
      obtain ⟨q1, q2⟩ := eg' b hbm (hsimple b hbm)
      rcases hor with ⟨rfl, rfl⟩ | ⟨rfl, rfl⟩
      · rw [p1, q1]
      · rw [p2, q2]
    · have h1 : y ∉ g₀.nbrs x := fun hy => h ((bg x y).mp hy)
      have h2 : y ∉ g₀'.nbrs x := fun hy => h ((bg' x y).mp hy)
      rw [Graph.mem_nbrs_iff] at h1 h2
      simp only [Bool.not_eq_true, Option.isSome_eq_false_iff, Option.isNone_iff_eq_none] at h1 h2
      rw [h1, h2]

/-! ## 5. sanity checks on concrete data; the hypotheses are satisfiable -/

/-- `nodeSpec`, key by key -/
theorem nodeSpec_values (fx fy fz : Val) (a : AAtom) :
    nodeSpec fx fy fz a "element_symbol" = some (Val.str (elemOf a.sym)) ∧
    nodeSpec fx fy fz a "atomic_number" = some (Val.int (atomicNumber (elemOf a.sym))) ∧
    nodeSpec fx fy fz a "partition" = some (Val.int 0) ∧
    nodeSpec fx fy fz a "x_coord" = some fx ∧ nodeSpec fx fy fz a "y_coord" = some fy ∧
    nodeSpec fx fy fz a "z_coord" = some fz ∧
    nodeSpec fx fy fz a "chg" = (if a.chg = 0 then none else some (Val.int a.chg)) ∧
    nodeSpec fx fy fz a "rad" = (if (a.rad : Int) = 0 then none else some (Val.int a.rad)) ∧
    nodeSpec fx fy fz a "mass" = (if (a.mass : Int) = 0 then none else some (Val.int a.mass)) ∧
    nodeSpec fx fy fz a "invariant_code" =
      some (Val.mkTup [Val.int (atomicNumber (elemOf a.sym)), Val.int a.mass, Val.int a.rad]) ∧
    ∀ k, k ∉ ["element_symbol", "atomic_number", "partition", "x_coord", "y_coord", "z_coord", "chg", "rad", "mass",
      "invariant_code"] → nodeSpec fx fy fz a k = none := by
  refine ⟨rfl, rfl, rfl, rfl, rfl, rfl, rfl, rfl, rfl, rfl, ?_⟩
  intro k hk
  simp only [List.mem_cons, List.not_mem_nil, or_false, not_or] at hk
  obtain ⟨h1, h2, h3, h4, h5, h6, h7, h8, h9, h10⟩ := hk
  simp only [nodeSpec, nodeAttr, baseAttr, h1, h2, h3, h4, h5, h6, h7, h8, h9, h10, if_false]

example : elemOf py!"D" = py!"H" ∧ isoOf py!"D" = 2 ∧ elemOf py!"T" = py!"H" ∧ isoOf py!"T" = 3 ∧
    elemOf py!"Cl" = py!"Cl" ∧ isoOf py!"Cl" = 0 := by decide

/-- decidable form of `Listed` -/
def listedB (items : List Item) (K : Kind) (i : Nat) : Bool :=
  items.any (fun it => match it with
    | .prop K' es => decide (K' = K) && es.any (fun e => decide (e.1 = i + 1))
    | .other _ => false)

theorem listed_of_listedB {items : List Item} {K : Kind} {i : Nat} (h : listedB items K i = true) : Listed items K i := by
  simp only [listedB, List.any_eq_true] at h
  obtain ⟨it, hit, h⟩ := h
  cases it with
  | other s => simp at h
  | prop K' es =>
    simp only [Bool.and_eq_true, decide_eq_true_eq, List.any_eq_true] at h
    obtain ⟨rfl, e, he, h1⟩ := h
    exact ⟨es, hit, e, he, h1⟩

/-- ¹³CD₂T-like example: `C⁻`, `N⁺` radical, `D`, `T`, ¹⁸O, ²H written `H` + `M  ISO`, a triplet `Cl`, `Lr¹⁵⁺` of mass 299 -/
def exMol : AMol := ⟨[
  ⟨py!"C", -1, 0, 0, py!"0.0000", py!"0.0000", py!"0.0000"⟩,
  ⟨py!"N", 1, 2, 0, py!"1.2000", py!"-0.5", py!""⟩,
  ⟨py!"D", 0, 0, 2, py!"2.0", py!"0", py!"0"⟩,
  ⟨py!"T", 0, 0, 3, py!"3.0", py!"0", py!"0"⟩,
  ⟨py!"O", 0, 0, 18, py!"4.0", py!"0", py!"0"⟩,
  ⟨py!"H", 0, 0, 2, py!"5.0", py!"0", py!"0"⟩,
  ⟨py!"Cl", 0, 3, 0, py!"6.0", py!"0", py!"0"⟩,
  ⟨py!"Lr", 15, 0, 299, py!"7.0", py!"0", py!"0"⟩],
  [⟨0, 1, 2⟩, ⟨1, 2, 1⟩, ⟨3, 0, 1⟩, ⟨4, 5, 1⟩, ⟨6, 7, 3⟩]⟩

/-- a rendering with `M  CHG` / `M  RAD` / `M  ISO` lines (several per kind, a zero entry, an ISO entry on `D`), superseded
charge codes 3 and 4 in the atom block, unrelated lines in the property block, lines after `M  END` -/
def exChoice : Choice where
  h0 := py!"name"
  h1 := py!"  prog"
  h2 := py!""
  countsMid := py!"  0  0  0  0  0  0  0999"
  countsTrail := 2
  code := fun i => if i = 0 then 3 else if i = 2 then 4 else 0
  atomRest := fun _ => py!"  0  0  0  0  0  0  0  0  0  0"
  bondRest := fun _ => py!"  0  0  0  0"
  items := [Item.other py!"M  STY  1   1 SUP", Item.prop .iso [(5, 18), (3, 2)], Item.prop .chg [(1, -1)],
    Item.other py!"A    1", Item.prop .rad [(7, 3), (2, 2)], Item.prop .chg [(2, 1), (8, 15), (3, 0)],
    Item.prop .iso [(6, 2), (8, 299)]]
  post := [py!"$$$$", py!"M  CHG  1   1   5"]

example : v2000Lines exMol exChoice = [
    py!"name", py!"  prog", py!"",
    py!"  8  5  0  0  0  0  0  0  0  0999 V2000  ",
    py!"    0.0000    0.0000    0.0000 C   0  3  0  0  0  0  0  0  0  0  0  0",
    py!"    1.2000      -0.5           N   0  0  0  0  0  0  0  0  0  0  0  0",
    py!"       2.0         0         0 D   0  4  0  0  0  0  0  0  0  0  0  0",
    py!"       3.0         0         0 T   0  0  0  0  0  0  0  0  0  0  0  0",
    py!"       4.0         0         0 O   0  0  0  0  0  0  0  0  0  0  0  0",
    py!"       5.0         0         0 H   0  0  0  0  0  0  0  0  0  0  0  0",
    py!"       6.0         0         0 Cl  0  0  0  0  0  0  0  0  0  0  0  0",
    py!"       7.0         0         0 Lr  0  0  0  0  0  0  0  0  0  0  0  0",
    py!"  1  2  2  0  0  0  0", py!"  2  3  1  0  0  0  0", py!"  4  1  1  0  0  0  0",
    py!"  5  6  1  0  0  0  0", py!"  7  8  3  0  0  0  0",
    py!"M  STY  1   1 SUP", py!"M  ISO  2   5  18   3   2", py!"M  CHG  1   1  -1", py!"A    1",
    py!"M  RAD  2   7   3   2   2", py!"M  CHG  3   2   1   8  15   3   0", py!"M  ISO  2   6   2   8 299",
    py!"M  END", py!"$$$$", py!"M  CHG  1   1   5"] := by decide

theorem exMol_wf : exMol.WF := by
  refine ⟨by decide, by decide, ?_, ?_⟩
  · intro a ha
    simp only [exMol, List.mem_cons, List.not_mem_nil, or_false] at ha
    rcases ha with rfl | rfl | rfl | rfl | rfl | rfl | rfl | rfl <;>
      exact ⟨by decide, by decide, by decide, by decide, by decide, by decide, by decide, by decide, by decide⟩
  · intro b hb
    simp only [exMol, List.mem_cons, List.not_mem_nil, or_false] at hb
    rcases hb with rfl | rfl | rfl | rfl | rfl <;> exact ⟨by decide, by decide, by decide, by decide⟩

theorem exChoice_ok : exChoice.OK exMol := by
  have hsup : Supersede exChoice.items := ⟨.chg, [(1, -1)], by simp [exChoice], by decide⟩
  have hat : ∀ i a, exMol.atoms[i]? = some a → i < 8 := by
    intro i a h; exact (List.getElem?_eq_some_iff.mp h).1
  refine ⟨?_, ?_, ?_, ?_, fun h => absurd hsup h, ?_, ?_⟩
  · intro i _; simp only [exChoice]; split_ifs <;> omega
  · intro s hs
    simp only [exChoice, List.mem_cons, List.not_mem_nil, or_false, reduceCtorEq, Item.other.injEq, false_or, or_false] at hs
    rcases hs with rfl | rfl <;> decide
  · intro K es h
    simp only [exChoice, List.mem_cons, List.not_mem_nil, or_false, reduceCtorEq, Item.prop.injEq, false_or] at h
    rcases h with ⟨rfl, rfl⟩ | ⟨rfl, rfl⟩ | ⟨rfl, rfl⟩ | ⟨rfl, rfl⟩ | ⟨rfl, rfl⟩ <;> decide
  · intro K es h
    simp only [exChoice, List.mem_cons, List.not_mem_nil, or_false, reduceCtorEq, Item.prop.injEq, false_or] at h
    rcases h with ⟨rfl, rfl⟩ | ⟨rfl, rfl⟩ | ⟨rfl, rfl⟩ | ⟨rfl, rfl⟩ | ⟨rfl, rfl⟩ <;>
      simp [exMol, valOf]
  · intro _ i a ha
    have hi := hat i a ha
    interval_cases i <;> simp [exMol] at ha <;> subst ha <;>
      exact ⟨fun _ => listed_of_listedB (by first | decide | (exfalso; simp_all)),
        fun _ => listed_of_listedB (by first | decide | (exfalso; simp_all))⟩
  · intro i a ha hmass
    have hi := hat i a ha
    interval_cases i <;> simp [exMol] at ha <;> subst ha <;>
      first | exact absurd rfl hmass | exact Or.inr (listed_of_listedB (by decide)) | exact Or.inl (by decide)

/-! ### `D` with a contradicting `M  ISO` entry: the symbol wins -/

/-- `D`–¹⁸O (blank coordinate fields, read as 0) -/
def dMol : AMol := ⟨[
  ⟨py!"D", 0, 0, 2, py!"", py!"", py!""⟩,
  ⟨py!"O", 0, 0, 18, py!"", py!"", py!""⟩],
  [⟨0, 1, 1⟩]⟩

/-- a rendering whose `M  ISO` line states mass 5 for the `D` atom (and 18 for the oxygen) -/
def dChoice : Choice where
  h0 := py!"D-18O"
  h1 := py!""
  h2 := py!""
  countsMid := py!"  0  0  0  0  0  0  0999"
  countsTrail := 0
  code := fun _ => 0
  atomRest := fun _ => py!"  0  0  0"
  bondRest := fun _ => py!"  0"
  items := [Item.prop .iso [(1, 5), (2, 18)]]
  post := []

example : v2000Lines dMol dChoice = [
    py!"D-18O", py!"", py!"",
    py!"  2  1  0  0  0  0  0  0  0  0999 V2000",
    py!"                               D   0  0  0  0  0",
    py!"                               O   0  0  0  0  0",
    py!"  1  2  1  0",
    py!"M  ISO  2   1   5   2  18",
    py!"M  END"] := by decide

theorem dMol_wf : dMol.WF := by
  refine ⟨by decide, by decide, ?_, ?_⟩
  · intro a ha
    simp only [dMol, List.mem_cons, List.not_mem_nil, or_false] at ha
    rcases ha with rfl | rfl <;>
      exact ⟨by decide, by decide, by decide, by decide, by decide, by decide, by decide, by decide, by decide⟩
  · intro b hb
    simp only [dMol, List.mem_cons, List.not_mem_nil, or_false] at hb
    subst hb; exact ⟨by decide, by decide, by decide, by decide⟩

/-- the rendering is well-formed although its ISO entry for the `D` atom states 5, not 2 -/
theorem dChoice_ok : dChoice.OK dMol := by
  have hnsup : ¬ Supersede dChoice.items := by
    rintro ⟨K, es, h, hK⟩
    simp only [dChoice, List.mem_cons, List.not_mem_nil, or_false, Item.prop.injEq] at h
    exact hK h.1
  have hat : ∀ i a, dMol.atoms[i]? = some a → i < 2 := by
    intro i a h; exact (List.getElem?_eq_some_iff.mp h).1
  refine ⟨fun _ _ => Nat.zero_le _, ?_, ?_, ?_, ?_, fun h => absurd h hnsup, ?_⟩
  · intro s hs; simp [dChoice] at hs
  · intro K es h
    simp only [dChoice, List.mem_cons, List.not_mem_nil, or_false, Item.prop.injEq] at h
    obtain ⟨rfl, rfl⟩ := h; decide
  · intro K es h e he
    simp only [dChoice, List.mem_cons, List.not_mem_nil, or_false, Item.prop.injEq] at h
    obtain ⟨rfl, rfl⟩ := h
    simp only [List.mem_cons, List.not_mem_nil, or_false] at he
    rcases he with rfl | rfl
    · -- the entry `1   5` names the `D` atom: any value is allowed
      exact ⟨by decide, _, rfl, Or.inr ⟨rfl, by decide, by decide, by decide⟩⟩
    · exact ⟨by decide, _, rfl, Or.inl rfl⟩
  · intro _ i a ha
    have hi := hat i a ha
    interval_cases i <;> simp [dMol] at ha <;> subst ha <;> exact ⟨rfl, rfl⟩
  · intro i a ha hmass
    have hi := hat i a ha
    interval_cases i <;> simp [dMol] at ha <;> subst ha
    · exact Or.inl (by decide)
    · exact Or.inr (listed_of_listedB (by decide))

theorem dChoice_noBreaks : dChoice.NoBreaks dMol where
  h0 := by unfold NoBreak; decide
  h1 := by unfold NoBreak; decide
  h2 := by unfold NoBreak; decide
  mid := by unfold NoBreak; decide
  atomRest := fun _ => by show NoBreak py!"  0  0  0"; unfold NoBreak; decide
  bondRest := fun _ => by show NoBreak py!"  0"; unfold NoBreak; decide
  others := by intro s hs; simp [dChoice] at hs
  post := by unfold NoBreak; decide
  coords := by unfold NoBreak; decide

theorem dMol_coords (env : DepEnv) : CoordsOK env dMol := by
  intro a ha t ht
  simp only [dMol, List.mem_cons, List.not_mem_nil, or_false] at ha
  rcases ha with rfl | rfl <;>
    (simp only [List.mem_cons, List.not_mem_nil, or_false, or_self] at ht; subst ht; exact ⟨Val.int 0, rfl⟩)

/-- **witness: `D` + `M  ISO  2   1   5   2  18`** is read (any line separator, any float parser) as hydrogen of
mass 2 — not 5 — bonded to oxygen of mass 18 -/
theorem read_D_iso5 (env : DepEnv) (fuel : Nat) (sep : Str) (hsep : IsSep sep) :
    ∃ g, Tucan.molfile_reader.graph_from_molfile_text env fuel (renderV2000 sep dMol dChoice) = .ok g ∧
      g.nodeList = range 2 ∧
      g.attr 0 "element_symbol" = some (Val.str py!"H") ∧ g.attr 0 "mass" = some (Val.int 2) ∧
      g.attr 1 "element_symbol" = some (Val.str py!"O") ∧ g.attr 1 "mass" = some (Val.int 18) := by
  obtain ⟨g, hg, _, _, hn, hat, _, _⟩ :=
    read_v2000_render env fuel sep hsep dMol dMol_wf dChoice dChoice_ok dChoice_noBreaks (dMol_coords env)
  have a0 := hat 0 ⟨py!"D", 0, 0, 2, py!"", py!"", py!""⟩ rfl
  have a1 := hat 1 ⟨py!"O", 0, 0, 18, py!"", py!"", py!""⟩ rfl
  refine ⟨g, hg, hn, ?_, ?_, ?_, ?_⟩
  · rw [show g.attr 0 "element_symbol" = _ from a0 "element_symbol"]; rfl
  · rw [show g.attr 0 "mass" = _ from a0 "mass"]; rfl
  · rw [show g.attr 1 "element_symbol" = _ from a1 "element_symbol"]; rfl
  · rw [show g.attr 1 "mass" = _ from a1 "mass"]; rfl

/-! ## 6. atom-list lines (`lll` of the counts line): irrelevant -/

/-- a rendering with atom-list lines (query feature `aaa kSSSSn 111 222 333 444 555`, counted by `lll` of the
counts line) between the bond block and the property block -/
structure ChoiceL extends Choice where
  lists : List Str

def countsLineL (m : AMol) (c : ChoiceL) : Str :=
  fmt3 (m.atoms.length : Int) ++ (fmt3 (m.bonds.length : Int) ++ (fmt3 (c.lists.length : Int) ++
    (c.countsMid ++ (py!" V2000" ++ blanks c.countsTrail))))

def v2000LinesL (m : AMol) (c : ChoiceL) : List Str :=
  c.h0 :: c.h1 :: c.h2 :: countsLineL m c ::
    (atomLines m c.toChoice ++ (bondLines m c.toChoice ++ (c.lists ++ (c.items.map Item.render ++ endLine :: c.post))))

def renderV2000L (sep : Str) (m : AMol) (c : ChoiceL) : Str := join sep (v2000LinesL m c ++ [[]])

structure ChoiceL.ListsOK (c : ChoiceL) : Prop where
  /-- `lll` has three columns -/
  len : c.lists.length ≤ 999
  /-- an atom-list line starts with a three-column atom number -/
  shape : ∀ l ∈ c.lists, ∃ (a : Nat) (rest : Str), l = fmt3 (a : Int) ++ rest
  noBreak : ∀ l ∈ c.lists, NoBreak l

theorem lastWord_version (P mid : Str) (t : Nat) : lastWord (P ++ (mid ++ (py!" V2000" ++ blanks t))) = py!"V2000" := by
  unfold lastWord
  rw [← List.append_assoc, ← List.append_assoc,
    Contracts.Reader.rstrip_blanks, Contracts.Reader.rstrip_of_getLast _ (by simp; decide)]
  simp [Contracts.Reader.afterLastBlank, List.takeWhile]

theorem scanProps_skip (atoms : Dict Int Attrs) (U R : List Str) (hU : ∀ l ∈ U, lineKind l = none ∧ l ≠ endLine) :
    Contracts.V2000.scanProps atoms (U ++ R) = Contracts.V2000.scanProps atoms R := by
  induction U with
  | nil => rfl
  | cons l U ih =>
    obtain ⟨h1, h2⟩ := hU l (by simp)
    rw [List.cons_append, Contracts.V2000.scanProps_cons, h1]
    simp only [h2, if_false]
    exact ih (fun x hx => hU x (by simp [hx]))

theorem attribute_block_skip (env : DepEnv) (atoms : Dict Int Attrs) (hw : Contracts.V2000.WF atoms) (U V R : List Str)
    (hU : ∀ l ∈ U, lineKind l = none ∧ l ≠ endLine) (hV : ∀ l ∈ V, lineKind l = none ∧ l ≠ endLine) :
    Tucan.molfile_v2000_reader._parse_attribute_block env (U ++ R) atoms =
      Tucan.molfile_v2000_reader._parse_attribute_block env (V ++ R) atoms := by
  rw [Contracts.V2000._parse_attribute_block_eq env _ atoms hw, Contracts.V2000._parse_attribute_block_eq env _ atoms hw]
  unfold Contracts.V2000.propLines
  rw [scanProps_skip atoms U R hU, scanProps_skip atoms V R hV]

/-- **atom lists are irrelevant**: a rendering with atom-list lines is read exactly as the rendering without them -/
theorem lists_irrelevant (env : DepEnv) (fuel : Nat) (sep : Str) (hsep : IsSep sep) (m : AMol) (hm : m.WF)
    (c : ChoiceL) (hc : c.toChoice.OK m) (hnb : c.toChoice.NoBreaks m) (hco : CoordsOK env m) (hl : c.ListsOK) :
    Tucan.molfile_reader.graph_from_molfile_text env fuel (renderV2000L sep m c) =
      Tucan.molfile_reader.graph_from_molfile_text env fuel (renderV2000 sep m c.toChoice) := by
  have hunrel : ∀ l ∈ c.lists, lineKind l = none ∧ l ≠ endLine := by
    intro l hl'
    obtain ⟨a, rest, rfl⟩ := hl.shape l hl'
    exact Contracts.V2000.lineKind_numberLine a rest
  have hlines0 := splitlines_renderV2000 sep hsep m hm c.toChoice hnb
  have hnbL : ∀ l ∈ v2000LinesL m c, NoBreak l := by
    intro l hl'
    have h0 : ∀ l, l ∈ atomLines m c.toChoice ++ (bondLines m c.toChoice ++
        (c.items.map Item.render ++ endLine :: c.post)) → NoBreak l := fun l h =>
      noBreak_v2000Lines m hm c.toChoice hnb l
        (List.mem_cons_of_mem _ (List.mem_cons_of_mem _ (List.mem_cons_of_mem _ (List.mem_cons_of_mem _ h))))
    unfold v2000LinesL at hl'
    rcases List.mem_cons.mp hl' with rfl | hl'
    · exact hnb.h0
    rcases List.mem_cons.mp hl' with rfl | hl'
    · exact hnb.h1
    rcases List.mem_cons.mp hl' with rfl | hl'
    · exact hnb.h2
    rcases List.mem_cons.mp hl' with rfl | hl'
    · exact noBreak_append (noBreak_fmt3 _) (noBreak_append (noBreak_fmt3 _) (noBreak_append (noBreak_fmt3 _)
        (noBreak_append hnb.mid (noBreak_append (by unfold NoBreak; decide) (noBreak_blanks _)))))
    rcases List.mem_append.mp hl' with h | hl'
    · exact h0 l (List.mem_append_left _ h)
    rcases List.mem_append.mp hl' with h | hl'
    · exact h0 l (List.mem_append_right _ (List.mem_append_left _ h))
    rcases List.mem_append.mp hl' with h | h
    · exact hl.noBreak l h
    · exact h0 l (List.mem_append_right _ (List.mem_append_right _ h))
  have hlinesL : splitlines (renderV2000L sep m c) = v2000LinesL m c :=
    Contracts.Reader.splitlines_join_terminated sep hsep _ hnbL
  have key : Tucan.molfile_v2000_reader.graph_attributes_from_molfile_v2000 env (v2000LinesL m c) =
      Tucan.molfile_v2000_reader.graph_attributes_from_molfile_v2000 env (v2000Lines m c.toChoice) := by
    -- the two connection tables
    obtain ⟨hna, hnbd, hnl⟩ := counts_fields m hm c.toChoice
    have hn := hm.natoms
    have hb := hm.nbonds
    have la := Contracts.V2000.length_fmt3 (m.atoms.length : Int) (by omega) (by omega)
    have lb := Contracts.V2000.length_fmt3 (m.bonds.length : Int) (by omega) (by omega)
    have ll := Contracts.V2000.length_fmt3 (c.lists.length : Int) (by omega) (by have := hl.len; omega)
    have hnaL : fieldInt (field (countsLineL m c) 0 3) = .ok ((atomLines m c.toChoice).length : Int) := by
      unfold field countsLineL
      rw [List.drop_zero, List.take_left' la, Contracts.V2000.fieldInt_fmt3 _ (by omega) (by omega)]; simp [atomLines]
    have hnbL' : fieldInt (field (countsLineL m c) 3 3) = .ok ((bondLines m c.toChoice).length : Int) := by
      unfold field countsLineL
      rw [field_at _ _ _ 3 3 la lb, Contracts.V2000.fieldInt_fmt3 _ (by omega) (by omega)]; simp [bondLines]
    have hnlL : fieldInt (field (countsLineL m c) 6 3) = .ok (c.lists.length : Int) := by
      unfold field countsLineL
      have := field_at (fmt3 (m.atoms.length : Int) ++ fmt3 (m.bonds.length : Int)) (fmt3 (c.lists.length : Int))
        (c.countsMid ++ (py!" V2000" ++ blanks c.countsTrail)) 6 3 (by simp [la, lb]) ll
      rw [List.append_assoc] at this
      rw [this]; exact Contracts.V2000.fieldInt_fmt3 _ (by omega) (by have := hl.len; omega)
    unfold v2000Lines v2000LinesL
    rw [Contracts.V2000.graph_attributes_from_molfile_v2000_eq env c.h0 c.h1 c.h2 (countsLineL m c) _ _ _ c.lists.length
        hnaL hnbL' hnlL,
      Contracts.V2000.graph_attributes_from_molfile_v2000_eq env c.h0 c.h1 c.h2 (countsLine m c.toChoice) _ _ _ 0
        hna hnbd hnl,
      Contracts.V2000._parse_atom_block_ok env _ _ (atoms_parse env m hm c.toChoice hc hco)]
    simp only [ok_bind, List.drop_zero]
    have hdrop : (bondLines m c.toChoice ++ (c.lists ++ (c.items.map Item.render ++ endLine :: c.post))).drop c.lists.length =
        (bondLines m c.toChoice ++ c.lists).drop c.lists.length ++ (c.items.map Item.render ++ endLine :: c.post) := by
      rw [← List.append_assoc, List.drop_append_of_le_length (by simp)]
    rw [hdrop, attribute_block_skip env _ (Contracts.V2000.atomDict_wf _) _ (bondLines m c.toChoice) _
      (by
        intro l hl'
        rcases List.mem_append.mp (List.mem_of_mem_drop hl') with h | h
        · exact bonds_unrelated m c.toChoice l h
        · exact hunrel l h)
      (bonds_unrelated m c.toChoice)]
  rw [Contracts.Reader.graph_from_molfile_text_eq, Contracts.Reader.graph_from_molfile_text_eq]
  unfold Contracts.Reader.readSpec
  rw [hlines0, hlinesL]
  have h3 : (v2000Lines m c.toChoice)[3]? = some (countsLine m c.toChoice) := rfl
  have h3L : (v2000LinesL m c)[3]? = some (countsLineL m c) := rfl
  have hne : py!"V2000" ≠ py!"V3000" := by decide
  have hver : lastWord (countsLineL m c) = py!"V2000" := by
    unfold countsLineL
    rw [← List.append_assoc, ← List.append_assoc]
    exact lastWord_version _ _ _
  simp only [h3, h3L, counts_ver, hver, hne, if_true, if_false, key]

/-- `read_v2000_render` for renderings with atom-list lines -/
theorem read_v2000_render_lists (env : DepEnv) (fuel : Nat) (sep : Str) (hsep : IsSep sep) (m : AMol) (hm : m.WF)
    (c : ChoiceL) (hc : c.toChoice.OK m) (hnb : c.toChoice.NoBreaks m) (hl : c.ListsOK) (hco : CoordsOK env m) :
    ∃ g, Tucan.molfile_reader.graph_from_molfile_text env fuel (renderV2000L sep m c) = .ok g ∧ g.WF ∧ IdOK g ∧
      g.nodeList = range (m.atoms.length : Int) ∧
      (∀ (i : Nat) a, m.atoms[i]? = some a → ∀ k,
        g.attr (i : Int) k = nodeSpec (coordOf env a.x) (coordOf env a.y) (coordOf env a.z) a k) ∧
      (∀ x y, y ∈ g.nbrs x ↔ ∃ b ∈ m.bonds, (x = (b.a1 : Int) ∧ y = (b.a2 : Int)) ∨ (x = (b.a2 : Int) ∧ y = (b.a1 : Int))) ∧
      (∀ b ∈ m.bonds, (∀ b' ∈ m.bonds, b.SamePair b' → b'.typ = b.typ) →
        g.edgeAttrs (b.a1 : Int) (b.a2 : Int) = some (bondAttrs (b.typ : Int)) ∧
          g.edgeAttrs (b.a2 : Int) (b.a1 : Int) = some (bondAttrs (b.typ : Int))) := by
  rw [lists_irrelevant env fuel sep hsep m hm c hc hnb hco hl]
  exact read_v2000_render env fuel sep hsep m hm c.toChoice hc hnb hco

/-- `read_v2000_eq_v3000` for V2000 renderings with atom-list lines -/
theorem read_v2000_eq_v3000_lists {env₁ env₂ : DepEnv} (envr : DepEnv) (hs₁ : env₁.SetLawful) (hs₂ : env₂.SetLawful)
    (hb : BlissLawful env₁) (hcp : env₂.canonicalPermutation = env₁.canonicalPermutation)
    (hpv : env₂.permuteVertices = env₁.permuteVertices)
    (m : AMol) (hm : m.WF) (hne : m.atoms ≠ [])
    (rf : Nat) (sep : Str) (hsep : IsSep sep) (h3 : V3OK envr m) (D : Dress) (hok : D.OK (toCtab m))
    (hnbD : D.NoBreaks (toCtab m)) (hrf : ((fileLines (toCtab m) D).drop 4).length + 1 ≤ rf)
    (rf' : Nat) (sep' : Str) (hsep' : IsSep sep') (c : ChoiceL) (hc : c.toChoice.OK m) (hnb : c.toChoice.NoBreaks m)
    (hl : c.ListsOK) (hco : CoordsOK envr m) :
    ∃ g g', Tucan.molfile_reader.graph_from_molfile_text envr rf (join sep (fileLines (toCtab m) D ++ [[]])) = .ok g ∧
      Tucan.molfile_reader.graph_from_molfile_text envr rf' (renderV2000L sep' m c) = .ok g' ∧
      g'.nodeList = g.nodeList ∧
      (∀ n k, k ∉ coordKeys → g'.attr n k = g.attr n k) ∧
      (∀ x y, y ∈ g'.nbrs x ↔ y ∈ g.nbrs x) ∧
      ((∀ b ∈ m.bonds, ∀ b' ∈ m.bonds, b.SamePair b' → b'.typ = b.typ) → ∀ x y, g'.edgeAttrs x y = g.edgeAttrs x y) ∧
      fuelBound g' = fuelBound g ∧
      ∀ fuel ≥ fuelBound g, ∀ fuel' ≥ fuelBound g, ∃ s, tucan env₁ fuel g = .ok s ∧ tucan env₂ fuel' g' = .ok s := by
  rw [lists_irrelevant envr rf' sep' hsep' m hm c hc hnb hco hl]
  exact read_v2000_eq_v3000 envr hs₁ hs₂ hb hcp hpv m hm hne rf sep hsep h3 D hok hnbD hrf rf' sep' hsep' c.toChoice hc hnb hco

end Contracts.V2000File

#print axioms Contracts.V2000File.read_v2000_lines
#print axioms Contracts.V2000File.read_v2000_render
#print axioms Contracts.V2000File.read_v3000_render
#print axioms Contracts.V2000File.read_v2000_eq_v3000
#print axioms Contracts.V2000File.lists_irrelevant
#print axioms Contracts.V2000File.read_v2000_render_lists
#print axioms Contracts.V2000File.read_v2000_eq_v3000_lists
#print axioms Contracts.V2000File.read_D_iso5
