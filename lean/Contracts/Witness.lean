/-
Contracts.Witness — machine-checked non-vacuity of the property-level theorems (reviewer's file, see AUDIT.md).

For each main theorem a CONCRETE instance is exhibited, every hypothesis of the theorem is proved for it (the
`have` lines carry the names of the theorem's hypotheses), the theorem is applied, and its conclusion for that
instance is the statement of the `*_witness` theorem.

Concrete data
* environments: `env0 = Spec.BlissModel.env` (bliss contract satisfied, `set` order = list order, `float(s)` accepts
  every token), `env1` = the same with *reversed* `set` iteration order, `envW` (writer: `f"{x:.6f}"` = `0.000000`,
  ten-character time stamp), `envS` (`random.shuffle` = list reversal).
* molecules: water `H2O/(1-3)(2-3)/(1:mass=2)(3:rad=2)` as the graph the TUCAN parser returns for `Parser.water`
  (`IsWater g`; unique, exists by `water_exists`); its second description `flip g` (atoms renumbered 0 ↔ 2 and listed
  in the order 2, 1, 0: `flip_nontrivial`); the respelling `RoundTrip.water'`; CO⁺ as the V3000 connection table
  `Reader.exampleCtab` rendered by `Reader.exampleDress` (16 lines, one continued atom line), its redrawing
  `example2` and a V2000 file `v2text`; DF as the literal graph `RoundTrip.exHF`; HDO⁺ as the literal graph `hdo`.

Witnesses: `C15_witness`, `C12_witness`, `C05_witness`, `C01_witness`, `C04_witness`, `C13_witness`,
`C03_pipeline_witness`, `C02_witness`, `C03_fixpoint_witness`, `C11_norm_witness`, `render_ok_witness`,
`C06_reader_witness`, `C09_witness`, `permute_witness`, `v2000_witness`, `C08_witness`.
Hypotheses of the form "this run returned `x`" (`r`, `e`, `p`, `pa`, `pb`, `h`) are discharged by the corresponding
totality theorem (`C15_*`, `C03_fixpoint_ex`, `graph_from_tree_accepts`) or, for `permute_molecule`, by evaluating the
call (`permute_runs`). The ANTLR assumption `V4` is instantiated by `RoundTrip.V4_satisfiable` (classical choice), so
`antlr` is the one non-concrete argument.
-/
import Contracts.Final
import Contracts.V2000
set_option autoImplicit false
open Py Py.Graph Contracts

namespace Contracts.Witness
open Contracts.Parser (water water_wf water_ok treeOf denote Represents AbstractMol expand)
open Contracts.Partition (Carries)
open Contracts.Canonicalize (identityKeys CodeDetermines)
open Contracts.FinalLabels (fuelBound)
open Contracts.RoundTrip (MolOK idKeys)
open Contracts.Final (IdOK InvariantCodeOK)

noncomputable abbrev env0 : DepEnv := BlissModel.env
noncomputable def env1 : DepEnv := { BlissModel.env with setOrder := fun l => l.reverse }

theorem env0_set : env0.SetLawful := fun _ => List.Perm.refl _
theorem env1_set : env1.SetLawful := fun l => List.reverse_perm l
theorem env0_bliss : BlissLawful env0 := BlissModel.blissLawful_env
theorem env1_cp : env1.canonicalPermutation = env0.canonicalPermutation := rfl
theorem env1_pv : env1.permuteVertices = env0.permuteVertices := rfl
/-- the two set orders really differ -/
example : env1.setOrder [1, 2] ≠ env0.setOrder [1, 2] := by
  show [1, 2].reverse ≠ [1, 2]
  decide

theorem nat_small {n : Nat} (h : n < 100) : n < 10 ^ 4300 :=
  lt_of_lt_of_le h (by
    calc (100 : Nat) = 10 ^ 2 := by norm_num
      _ ≤ 10 ^ 4300 := Nat.pow_le_pow_right (by norm_num) (by norm_num))

structure IsWater (g : Graph) : Prop where
  parsed : Tucan.parser.graph_from_tree env0 (treeOf water) = .ok g
  repr : ∃ mol, denote water = .ok mol ∧ Represents g mol

theorem water_exists : ∃ g, IsWater g := by
  obtain ⟨g, mol, e, hg, R⟩ := Contracts.Parser.graph_from_tree_accepts env0 _ water_wf water_ok
  exact ⟨g, hg, mol, e, R⟩

theorem expand_water : expand water.formula = [py!"H", py!"H", py!"O"] := by decide

structure WaterFacts (g : Graph) : Prop where
  idOK : IdOK g
  ne : g.nodeList ≠ []
  loopless : g.Loopless
  molOK : MolOK g
  nodes : g.nodeList = [0, 1, 2]

theorem IsWater.facts {g : Graph} (W : IsWater g) : WaterFacts g := by
  obtain ⟨mol, e, R⟩ := W.repr
  have hlen := Contracts.Final.denote_atoms_length e
  rw [expand_water] at hlen
  have hne : mol.atoms ≠ [] := by
    intro h0; rw [h0] at hlen; simp at hlen
  obtain ⟨_, h2, _, _, _, _, h7, h8⟩ := Contracts.Final.parsed_ok water_wf e R hne
  have hm := Contracts.Final.denote_molWf water_wf e
  have hs := Contracts.Final.denote_small water_wf e (by rw [expand_water]; exact nat_small (by decide))
  refine ⟨h8, h2, h7, Contracts.Final.parsed_molOK R hm hs, ?_⟩
  rw [R.nodes, hlen]; rfl


/-! ## single-molecule theorems on the parsed water -/

/-- `Pipeline.C15_pipeline_total`, instance: every hypothesis holds for water / `env0` -/
theorem C15_witness {g : Graph} (W : IsWater g) :
    ∃ c s m', Tucan.canonicalization.canonicalize_molecule env0 (g.nodeList.length + 1) g = .ok c ∧
      Tucan.serialization.serialize_molecule env0 (fuelBound g) c = .ok (s, m') := by
  have F := W.facts
  have h1 : env0.SetLawful := env0_set
  have h2 : BlissLawful env0 := env0_bliss
  have h3 : g.WF := F.idOK.wf
  have h4 : g.nodeList ≠ [] := F.ne
  have h5 : Carries g "invariant_code" := F.idOK.carries_code
  have h6 : Carries g "atomic_number" := F.idOK.carries_Z
  have h7 : g.nodeList.length + 1 ≥ g.nodeList.length + 1 := le_refl _
  have h8 : fuelBound g ≥ fuelBound g := le_refl _
  exact Contracts.Pipeline.C15_pipeline_total h1 h2 h3 h4 h5 h6 _ _ h7 h8

/-- `Canonicalize.C12_main`, instance -/
theorem C12_witness {g : Graph} (W : IsWater g) :
    ∃ r, Tucan.canonicalization.canonicalize_molecule env0 (g.nodeList.length + 1) g = .ok r ∧ r.WF ∧
      r.nodeList.Perm (range g.numberOfNodes) ∧
      ∃ ρ, Relabel.IsRelabelExcept "partition" ρ g r ∧ (∀ k, k ≠ "partition" → IsIsoOn k ρ g r) := by
  have F := W.facts
  exact Contracts.Canonicalize.C12_main env0_set env0_bliss F.idOK.wf F.ne F.idOK.carries_code _ (le_refl _)

theorem symbols_ok {g : Graph} (ok : IdOK g) : ∀ s ∈ Contracts.Serialize.symbolsOf g, s ∈ Tucan.Consts.ELEMENT_ATTRS.keys := by
  intro s hs
  rw [Contracts.Layout.symbolsOf_eq ok.wf, List.mem_filterMap] at hs
  obtain ⟨a, ha, e⟩ := hs
  obtain ⟨t, ht, e1, _⟩ := ok.elem a ha
  rw [e1] at e
  simp only [Option.map_some, Option.some.injEq] at e
  subst e
  rw [Contracts.Parser.keys_eq_table]
  exact ht

/-- `Pipeline.C05_pipeline`, instance (conclusion abbreviated to its first two conjuncts) -/
theorem C05_witness {g : Graph} (W : IsWater g) :
    ∃ c ms s, Contracts.Pipeline.Run env0 (g.nodeList.length + 1) (fuelBound g) g c ms s ∧
      Contracts.Layout.Grammar.tucan s := by
  have F := W.facts
  have hsym : ∀ s ∈ Contracts.Serialize.symbolsOf g, s ∈ Tucan.Consts.ELEMENT_ATTRS.keys := symbols_ok F.idOK
  have hmass : ∀ a ∈ g.nodeList, ∀ v, g.attr a "mass" = some v → Contracts.Layout.Grammar.PosInt v :=
    fun a ha v hv => F.idOK.mass a ha v hv
  have hrad : ∀ a ∈ g.nodeList, ∀ v, g.attr a "rad" = some v → Contracts.Layout.Grammar.PosInt v :=
    fun a ha v hv => F.idOK.rad a ha v hv
  obtain ⟨c, ms, s, R, G, _⟩ := Contracts.Pipeline.C05_pipeline env0_set env0_bliss F.idOK.wf F.ne F.idOK.carries_code
    F.idOK.carries_Z hsym hmass hrad _ _ (le_refl (g.nodeList.length + 1)) (le_refl (fuelBound g))
  exact ⟨c, ms, s, R, G⟩

/-! ## a second description of water: atoms renumbered 0 ↔ 2, listed in the order 2, 1, 0 -/

def flip (g : Graph) : Graph := g.relabelCopy (Dict.ofPairs (zip g.nodeList g.nodeList.reverse))
def flipMap (g : Graph) : Int → Int := relabelFun (Dict.ofPairs (zip g.nodeList g.nodeList.reverse))

structure FlipFacts (g : Graph) : Prop where
  wf : (flip g).WF
  rel : IsRelabel (flipMap g) g (flip g)
  nodes : (flip g).nodeList = g.nodeList.map (flipMap g)

theorem flip_facts {g : Graph} (hg : g.WF) : FlipFacts g := by
  obtain ⟨w, n, -, r⟩ := relabelCopy_zip_spec hg (List.Perm.refl g.nodeList)
    (List.nodup_reverse.2 hg.nodup_nodeList) (List.length_reverse).symm
  exact ⟨w, r, n⟩

/-- the renumbering is not the identity, and the node order of the second description is `2, 1, 0` -/
theorem flip_nontrivial {g : Graph} (W : IsWater g) : flipMap g 0 = 2 ∧ (flip g).nodeList = [2, 1, 0] := by
  have F := W.facts
  have hn := F.idOK.wf.nodup_nodeList
  have hl : g.nodeList.length = g.nodeList.reverse.length := (List.length_reverse).symm
  have h0 : flipMap g 0 = 2 := by
    unfold flipMap; rw [relabelFun_zip hn hl (by rw [F.nodes]; decide)]; simp [F.nodes]
  have h1 : flipMap g 1 = 1 := by
    unfold flipMap; rw [relabelFun_zip hn hl (by rw [F.nodes]; decide)]; simp [F.nodes]
  have h2 : flipMap g 2 = 0 := by
    unfold flipMap; rw [relabelFun_zip hn hl (by rw [F.nodes]; decide)]; simp [F.nodes]
  refine ⟨h0, ?_⟩
  rw [(flip_facts F.idOK.wf).nodes, F.nodes]
  simp [h0, h1, h2]

/-- `Pipeline.C01_main`, instance: water and its renumbered / reordered description, two different `set`
iteration orders -/
theorem C01_witness {g : Graph} (W : IsWater g) :
    ∃ rg rh s, Tucan.canonicalization.canonicalize_molecule env0 (fuelBound g) g = .ok rg ∧
      Tucan.canonicalization.canonicalize_molecule env1 (fuelBound (flip g)) (flip g) = .ok rh ∧
      Tucan.serialization.serialize_molecule env0 (fuelBound g) rg = .ok (s, FinalLabels.clearExplored rg) ∧
      Tucan.serialization.serialize_molecule env1 (fuelBound (flip g)) rh = .ok (s, FinalLabels.clearExplored rh) := by
  have F := W.facts
  have FF := flip_facts F.idOK.wf
  have hs₁ : env0.SetLawful := env0_set
  have hs₂ : env1.SetLawful := env1_set
  have hb : BlissLawful env0 := env0_bliss
  have hcp : env1.canonicalPermutation = env0.canonicalPermutation := rfl
  have hpv : env1.permuteVertices = env0.permuteVertices := rfl
  have hg : g.WF := F.idOK.wf
  have hh : (flip g).WF := FF.wf
  have hne : g.nodeList ≠ [] := F.ne
  have cg : Carries g "invariant_code" := F.idOK.carries_code
  have ag : Carries g "atomic_number" := F.idOK.carries_Z
  have hiso : IsIsoOn "invariant_code" (flipMap g) g (flip g) := FF.rel.isIsoOn _
  have hcarry : ∀ key ∈ identityKeys, ∀ n ∈ g.nodeList, (flip g).attr (flipMap g n) key = g.attr n key :=
    fun key _ n hn => FF.rel.attrs n hn key
  have hdet : ∀ key ∈ identityKeys, CodeDetermines g key := F.idOK.codeDetermines
  exact Contracts.Pipeline.C01_main hs₁ hs₂ hb hcp hpv hg hh hne cg ag hiso hcarry hdet
    (fuelBound g) (fuelBound g) (fuelBound (flip g)) (fuelBound (flip g))
    (Contracts.Pipeline.length_le_fuelBound g) (le_refl _) (Contracts.Pipeline.length_le_fuelBound _) (le_refl _)

/-- `Canonicalize.C04_main`, instance -/
theorem C04_witness {g : Graph} (W : IsWater g) :
    ∃ rg rh, Tucan.canonicalization.canonicalize_molecule env0 (g.nodeList.length + 1) g = .ok rg ∧
      Tucan.canonicalization.canonicalize_molecule env1 ((flip g).nodeList.length + 1) (flip g) = .ok rh ∧
      rg.WF ∧ rh.WF ∧
      rg.nodeList.Perm (range g.numberOfNodes) ∧ rh.nodeList.Perm (range g.numberOfNodes) ∧
      (∀ (k : Int) (key : String), key ∈ identityKeys ++ ["invariant_code", "partition"] →
        rg.attr k key = rh.attr k key) ∧
      (∀ j k : Int, j ∈ rg.nbrs k ↔ j ∈ rh.nbrs k) := by
  have F := W.facts
  have FF := flip_facts F.idOK.wf
  exact Contracts.Canonicalize.C04_main env0_set env1_set env0_bliss rfl rfl F.idOK.wf FF.wf F.ne F.idOK.carries_code
    (FF.rel.isIsoOn _) (fun key _ n hn => FF.rel.attrs n hn key) F.idOK.codeDetermines _ _ (le_refl _) (le_refl _)

/-- `Canonicalize.C13_main`, instance -/
theorem C13_witness {g : Graph} (W : IsWater g) :
    ∃ rg rh ρg ρh, Tucan.canonicalization.canonicalize_molecule env0 (g.nodeList.length + 1) g = .ok rg ∧
      Tucan.canonicalization.canonicalize_molecule env1 ((flip g).nodeList.length + 1) (flip g) = .ok rh ∧
      Relabel.IsRelabelExcept "partition" ρg g rg ∧ Relabel.IsRelabelExcept "partition" ρh (flip g) rh ∧
      (∀ a ∈ g.nodeList, rg.attr (ρg a) "partition" = rh.attr (ρh (flipMap g a)) "partition") ∧
      Contracts.Canonicalize.ClassesOK rg ∧ Contracts.Canonicalize.ClassesOK rh := by
  have F := W.facts
  have FF := flip_facts F.idOK.wf
  exact Contracts.Canonicalize.C13_main env0_set env1_set env0_bliss rfl rfl F.idOK.wf FF.wf F.ne F.idOK.carries_code
    (FF.rel.isIsoOn _) _ _ (le_refl _) (le_refl _)


/-! ## round trips through the TUCAN string -/

open Contracts.RoundTrip (V4 graphFromTucan V4_satisfiable Respell water')
open Contracts.Pipeline (tucan)

/-- `RoundTrip.C03_pipeline`, instance: the run hypotheses `r`, `e` are discharged by `C15_witness` -/
theorem C03_pipeline_witness {g : Graph} (W : IsWater g) : ∃ antlr, V4 antlr ∧
    ∃ s g' π, graphFromTucan antlr env0 s = .ok g' ∧ g'.WF ∧ g'.nodeList = range (g.nodeList.length : Int) ∧
      (∀ k ∈ idKeys, IsIsoOn k π g g') ∧
      g'.numberOfNodes = g.numberOfNodes ∧ g'.numberOfEdges = g.numberOfEdges := by
  have F := W.facts
  obtain ⟨antlr, hV4⟩ := V4_satisfiable
  obtain ⟨c, s, c', r, e⟩ := C15_witness W
  have hm : MolOK g := F.molOK
  have hne : g.nodeList ≠ [] := F.ne
  have hic : Carries g "invariant_code" := F.idOK.carries_code
  obtain ⟨g', π, h⟩ := Contracts.RoundTrip.C03_pipeline antlr hV4 env0_set env0_bliss hm hne hic
    (g.nodeList.length + 1) (fuelBound g) (le_refl _) (le_refl _) r e
  exact ⟨antlr, hV4, s, g', π, h⟩

theorem flip_molOK {g : Graph} (W : IsWater g) : MolOK (flip g) :=
  W.facts.molOK.of_iso (flip_facts W.facts.idOK.wf).wf (fun k _ => (flip_facts W.facts.idOK.wf).rel.isIsoOn k)

/-- `RoundTrip.C02_pipeline'`, instance: the two descriptions of water get the same string (`C01_main` with
`env₂ = env₁ = env0`), hence all hypotheses hold; conclusion: they are isomorphic -/
theorem C02_witness {g : Graph} (W : IsWater g) : ∃ π, ∀ k ∈ idKeys, IsIsoOn k π g (flip g) := by
  have F := W.facts
  have FF := flip_facts F.idOK.wf
  obtain ⟨rg, rh, s, r₁, r₂, e₁, e₂⟩ := Contracts.Pipeline.C01_main env0_set env0_set env0_bliss rfl rfl F.idOK.wf FF.wf F.ne
    F.idOK.carries_code F.idOK.carries_Z (FF.rel.isIsoOn _) (fun key _ n hn => FF.rel.attrs n hn key)
    F.idOK.codeDetermines (g.nodeList.length + 1) (fuelBound g) ((flip g).nodeList.length + 1) (fuelBound (flip g))
    (le_refl _) (le_refl _) (le_refl _) (le_refl _)
  have h₁ : MolOK g := F.molOK
  have h₂ : MolOK (flip g) := flip_molOK W
  have ne₁ : g.nodeList ≠ [] := F.ne
  have ne₂ : (flip g).nodeList ≠ [] := by rw [(flip_nontrivial W).2]; decide
  have ic₁ : Carries g "invariant_code" := F.idOK.carries_code
  have ic₂ : Carries (flip g) "invariant_code" := Contracts.Canonicalize.carries_of_iso (FF.rel.isIsoOn _) ic₁
  exact Contracts.RoundTrip.C02_pipeline' env0_set env0_bliss h₁ h₂ ne₁ ne₂ ic₁ ic₂ _ _ _ _ (le_refl _) (le_refl _)
    (le_refl _) (le_refl _) r₁ r₂ e₁ e₂

/-- `Final.C03_fixpoint`, instance: `e` from `C15_tucan_total`, `p` from `C03_fixpoint_ex` -/
theorem C03_fixpoint_witness {g : Graph} (W : IsWater g) : ∃ antlr, V4 antlr ∧ ∃ s g',
    tucan env0 (fuelBound g) g = .ok s ∧ graphFromTucan antlr env0 s = .ok g' ∧
    (∃ π, ∀ k ∈ idKeys, IsIsoOn k π g g') ∧ fuelBound g' = fuelBound g ∧
      ∀ fuel' ≥ fuelBound g', tucan env1 fuel' g' = .ok s := by
  have F := W.facts
  obtain ⟨antlr, hV4⟩ := V4_satisfiable
  have hm : MolOK g := F.molOK
  have hne : g.nodeList ≠ [] := F.ne
  have hcode : InvariantCodeOK g := F.idOK.code
  obtain ⟨s, e⟩ := Contracts.Pipeline.C15_tucan_total env0_set env0_bliss F.idOK.wf F.ne F.idOK.carries_code F.idOK.carries_Z
    (fuelBound g) (le_refl _)
  obtain ⟨g', p, _⟩ := Contracts.Final.C03_fixpoint_ex antlr hV4 env0 env0_set env1_set env0_bliss env1_cp env1_pv hm hne hcode
    (fuelBound g) (le_refl _) e
  obtain ⟨iso, _, _, _, _, fb, run⟩ := Contracts.Final.C03_fixpoint antlr hV4 env0 env0_set env1_set env0_bliss env1_cp env1_pv
    hm hne hcode (fuelBound g) (le_refl _) e p
  exact ⟨antlr, hV4, s, g', e, p, iso, fb, run⟩

/-! ### C11: `H2O/(1-3)(2-3)/(1:mass=2)(3:rad=2)` and `H2O/(3-2)(1-3)(3-1)/(3:rad=2)(1:mass=2)` -/

theorem water'_wf : water'.Wf where
  syms := by rw [Contracts.Parser.keys_eq_table]; decide
  counts := by
    intro p hp ds hds
    simp only [water', List.mem_cons, List.not_mem_nil, or_false] at hp
    rcases hp with rfl | rfl
    · cases hds; exact ⟨Contracts.Parser.numWf_of_decide _ (by decide), by decide⟩
    · cases hds
  tuples := by
    intro t ht
    simp only [water', List.mem_cons, List.not_mem_nil, or_false] at ht
    rcases ht with rfl | rfl | rfl <;>
      exact ⟨Contracts.Parser.numWf_of_decide _ (by decide), Contracts.Parser.numWf_of_decide _ (by decide)⟩
  attrs := by
    intro bs hbs b hb
    cases hbs
    simp only [List.mem_cons, List.not_mem_nil, or_false] at hb
    rcases hb with rfl | rfl
    · refine ⟨Contracts.Parser.numWf_of_decide _ (by decide), ?_⟩
      intro kv hkv; simp only [List.mem_cons, List.not_mem_nil, or_false] at hkv; subst hkv
      exact Contracts.Parser.numWf_of_decide _ (by decide)
    · refine ⟨Contracts.Parser.numWf_of_decide _ (by decide), ?_⟩
      intro kv hkv; simp only [List.mem_cons, List.not_mem_nil, or_false] at hkv; subst hkv
      exact Contracts.Parser.numWf_of_decide _ (by decide)

theorem respell_water : Respell water water' where
  formula := rfl
  bonds := by
    intro i j
    have e1 : water.bonds1 = [(1, 3), (2, 3)] := by decide
    have e2 : water'.bonds1 = [(3, 2), (1, 3), (3, 1)] := by decide
    rw [e1, e2]
    simp only [List.mem_cons, Prod.mk.injEq, List.not_mem_nil, or_false]
    omega
  settings := by
    have e1 : water.settings = [((1, Contracts.Parser.Key.mass), 2), ((3, Contracts.Parser.Key.rad), 2)] := by decide
    have e2 : water'.settings = [((3, Contracts.Parser.Key.rad), 2), ((1, Contracts.Parser.Key.mass), 2)] := by decide
    rw [e1, e2]
    exact List.Perm.swap _ _ _

theorem water'_ok : ¬ (water'.BadIndex ∨ water'.SelfBond ∨ water'.DupAttr) := fun h =>
  water_ok (respell_water.rejected_iff.2 h)

/-- `Final.C11_norm`, instance: the parser runs `pa`, `pb` exist by `graph_from_tree_accepts` -/
theorem C11_norm_witness : ∃ ga gb,
    Tucan.parser.graph_from_tree env0 (treeOf water) = .ok ga ∧
    Tucan.parser.graph_from_tree env1 (treeOf water') = .ok gb ∧
    fuelBound ga = fuelBound gb ∧ tucan env0 (fuelBound ga) ga = tucan env1 (fuelBound gb) gb ∧
      (ga.nodeList ≠ [] → ∃ s, tucan env0 (fuelBound ga) ga = .ok s) := by
  obtain ⟨ga, _, _, pa, _⟩ := Contracts.Parser.graph_from_tree_accepts env0 _ water_wf water_ok
  obtain ⟨gb, _, _, pb, _⟩ := Contracts.Parser.graph_from_tree_accepts env1 _ water'_wf water'_ok
  have ha : water.Wf := water_wf
  have hb' : water'.Wf := water'_wf
  have r : Respell water water' := respell_water
  exact ⟨ga, gb, pa, pb, Contracts.Final.C11_norm env0 env1 env0_set env1_set env0_bliss env1_cp env1_pv ha hb' r pa pb
    (fuelBound ga) (fuelBound gb) (le_refl _) (le_refl _)⟩


/-! ## the V3000 reader: `Reader.exampleCtab` (CO⁺, atom indices 7 and 3, first atom line continued) -/

open Contracts.Reader (Ctab Dress exampleCtab exampleDress fileLines IsSep isSep_crlf NoDash body logical
  SameIdentityCtab fileMeaning attrsOf)
open Contracts.V3000 (AtomLine BondLine IsInt intOf NoOpt Clean propInt hydrogenIsotope)

/-- Boolean check of `NoDash` -/
def noDashCheck (sp : Nat → Contracts.Reader.Spell) (L : List (List Str)) : Bool :=
  (List.range L.length).all (fun i => match L[i]? with
    | some ts => decide ((body (sp i) ts).getLast? ≠ some '-')
    | none => true)

theorem noDash_of_check (sp : Nat → Contracts.Reader.Spell) (L : List (List Str)) (h : noDashCheck sp L = true) :
    NoDash sp L := by
  intro i ts hi
  have hlt : i < L.length := (List.getElem?_eq_some_iff.1 hi).1
  have := List.all_eq_true.1 h i (List.mem_range.2 hlt)
  rw [hi] at this
  simpa using this

instance (t : Str) : Decidable (NoOpt t) := by unfold NoOpt; infer_instance
instance (l : Str) : Decidable (Contracts.Reader.Cont l) := by unfold Contracts.Reader.Cont; infer_instance
instance (t : Str) : Decidable (Clean t) := by unfold Clean; infer_instance
instance (l : Str) : Decidable (Contracts.Reader.NoBreak l) := by unfold Contracts.Reader.NoBreak; infer_instance
instance (C : Ctab) : Decidable C.SelfBond := by unfold Ctab.SelfBond; infer_instance

theorem isInt_of_eq {s : Str} {n : Int} (h : parseInt s = .ok n) : IsInt s := ⟨n, h⟩

theorem example_plain : exampleCtab.Plain env0 where
  wf := by
    intro a ha
    simp only [exampleCtab, List.mem_cons, List.not_mem_nil, or_false] at ha
    rcases ha with rfl | rfl
    · refine ⟨isInt_of_eq (n := 7) (by decide), by decide, by decide, by decide, by decide, by decide, ?_, by decide⟩
      intro p hp _
      simp only [List.mem_cons, List.not_mem_nil, or_false] at hp
      subst hp
      exact isInt_of_eq (n := 1) (by decide)
    · refine ⟨isInt_of_eq (n := 3) (by decide), by decide, by decide, by decide, by decide, by decide, ?_, by decide⟩
      intro p hp _
      simp at hp
  nostar := by decide
  known := by
    intro a ha
    simp only [exampleCtab, List.mem_cons, List.not_mem_nil, or_false] at ha
    rcases ha with rfl | rfl
    · have e : (hydrogenIsotope py!"C").1 = py!"C" := by decide
      simp only [e]
      obtain ⟨n, hn⟩ := Contracts.V3000.atomicNumber_known py!"C" (by rw [Contracts.Parser.keys_eq_table]; decide)
      exact ⟨_, hn⟩
    · have e : (hydrogenIsotope py!"O").1 = py!"O" := by decide
      simp only [e]
      obtain ⟨n, hn⟩ := Contracts.V3000.atomicNumber_known py!"O" (by rw [Contracts.Parser.keys_eq_table]; decide)
      exact ⟨_, hn⟩
  coords := fun a _ => ⟨⟨_, rfl⟩, ⟨_, rfl⟩, ⟨_, rfl⟩⟩
  uniq := by decide
  bondInts := by
    intro b hb
    simp only [exampleCtab, List.mem_cons, List.not_mem_nil, or_false] at hb
    subst hb
    exact ⟨isInt_of_eq (n := 7) (by decide), isInt_of_eq (n := 3) (by decide), isInt_of_eq (n := 2) (by decide)⟩
  bondEnds := by decide

theorem example_notNeg : ¬ exampleCtab.NegMassRad := by
  rintro ⟨a, ha, h⟩
  simp only [exampleCtab, List.mem_cons, List.not_mem_nil, or_false] at ha
  rcases ha with rfl | rfl
  · have e1 : propInt [(⟨py!"CHG", py!"1", []⟩ : Contracts.V3000.Prop')] py!"MASS" = none := by decide
    have e2 : propInt [(⟨py!"CHG", py!"1", []⟩ : Contracts.V3000.Prop')] py!"RAD" = none := by decide
    simp only [e1, e2] at h
    simp at h
  · simp [propInt, Contracts.V3000.propVals, Contracts.V3000.lastNonzero] at h

theorem example_notSelf : ¬ exampleCtab.SelfBond := by decide

theorem example_dressOK : exampleDress.OK exampleCtab where
  ver := by decide
  tail := by decide
  clean := by decide
  nodash := noDash_of_check _ _ (by decide)
  cntA := by decide
  cntB := by decide

theorem example_noBreaks : exampleDress.NoBreaks exampleCtab where
  hdr := by decide
  toks := by decide
  tail := by decide

theorem example_bondShape : ∀ b ∈ exampleCtab.bonds, b.Shape := by
  intro b hb
  simp only [exampleCtab, List.mem_cons, List.not_mem_nil, or_false] at hb
  subst hb
  exact ⟨by decide, by intro nums post h; cases h⟩

/-- `Reader.graph_from_molfile_text_render_ok`, instance: the 16-line file of `Reader.exampleDress`
(header lines, a continued atom line, an `END CTAB` line, `M  END`), CRLF line ends -/
theorem render_ok_witness :
    ∃ g, Tucan.molfile_reader.graph_from_molfile_text env0 (((fileLines exampleCtab exampleDress).drop 4).length + 1)
        (join py!"\r\n" (fileLines exampleCtab exampleDress ++ [[]])) = .ok g ∧
      g.WF ∧ g.nodeList = range (exampleCtab.atoms.length : Int) ∧
      (∀ (i : Nat) a, exampleCtab.atoms[i]? = some a → g.node.get? (i : Int) = some (Contracts.Parser.withCode (attrsOf env0 a))) ∧
      (∀ (i j : Nat) a b, exampleCtab.atoms[i]? = some a → exampleCtab.atoms[j]? = some b →
        ((j : Int) ∈ g.nbrs (i : Int) ↔ exampleCtab.joined (intOf a.idx) (intOf b.idx))) := by
  have hsep : IsSep py!"\r\n" := isSep_crlf
  have hok : exampleDress.OK exampleCtab := example_dressOK
  have hnb : exampleDress.NoBreaks exampleCtab := example_noBreaks
  have hB : ∀ b ∈ exampleCtab.bonds, b.Shape := example_bondShape
  have h : exampleCtab.Plain env0 := example_plain
  have hneg : ¬ exampleCtab.NegMassRad := example_notNeg
  have hself : ¬ exampleCtab.SelfBond := example_notSelf
  exact Contracts.Reader.graph_from_molfile_text_render_ok env0 _ _ hsep exampleCtab exampleDress hok hnb hB (le_refl _)
    h hneg hself


/-! ## C06: a redrawing of the same molecule — indices 1 and 2, other coordinates, no charge on C, an explicit
`CHG=0` and a foreign property on O, a double bond written in the other direction -/

def example2 : Ctab :=
  ⟨[⟨py!"1", py!"C", py!"3.5", py!"1", py!"0", py!"0", []⟩,
    ⟨py!"2", py!"O", py!"0", py!"0", py!"0", py!"0", [⟨py!"CHG", py!"0", []⟩, ⟨py!"CFG", py!"1", []⟩]⟩],
   [⟨py!"1", py!"2", py!"2", py!"1", [], none⟩]⟩

theorem example2_plain : example2.Plain env0 where
  wf := by
    intro a ha
    simp only [example2, List.mem_cons, List.not_mem_nil, or_false] at ha
    rcases ha with rfl | rfl
    · refine ⟨isInt_of_eq (n := 1) (by decide), by decide, by decide, by decide, by decide, by decide, ?_, by decide⟩
      intro p hp _
      simp at hp
    · refine ⟨isInt_of_eq (n := 2) (by decide), by decide, by decide, by decide, by decide, by decide, ?_, by decide⟩
      intro p hp hk
      simp only [List.mem_cons, List.not_mem_nil, or_false] at hp
      rcases hp with rfl | rfl
      · exact isInt_of_eq (n := 0) (by decide)
      · exact isInt_of_eq (n := 1) (by decide)
  nostar := by decide
  known := by
    intro a ha
    simp only [example2, List.mem_cons, List.not_mem_nil, or_false] at ha
    rcases ha with rfl | rfl
    · have e : (hydrogenIsotope py!"C").1 = py!"C" := by decide
      simp only [e]
      obtain ⟨n, hn⟩ := Contracts.V3000.atomicNumber_known py!"C" (by rw [Contracts.Parser.keys_eq_table]; decide)
      exact ⟨_, hn⟩
    · have e : (hydrogenIsotope py!"O").1 = py!"O" := by decide
      simp only [e]
      obtain ⟨n, hn⟩ := Contracts.V3000.atomicNumber_known py!"O" (by rw [Contracts.Parser.keys_eq_table]; decide)
      exact ⟨_, hn⟩
  coords := fun a _ => ⟨⟨_, rfl⟩, ⟨_, rfl⟩, ⟨_, rfl⟩⟩
  uniq := by decide
  bondInts := by
    intro b hb
    simp only [example2, List.mem_cons, List.not_mem_nil, or_false] at hb
    subst hb
    exact ⟨isInt_of_eq (n := 2) (by decide), isInt_of_eq (n := 1) (by decide), isInt_of_eq (n := 2) (by decide)⟩
  bondEnds := by decide

instance (C : Ctab) (m n : Int) : Decidable (C.joined m n) := by unfold Ctab.joined; infer_instance

theorem example_same : SameIdentityCtab exampleCtab example2 where
  natoms := rfl
  atoms := by
    intro i a a' h h'
    match i with
    | 0 =>
      simp only [exampleCtab, example2, List.getElem?_cons_zero, Option.some.injEq] at h h'
      subst h h'
      exact ⟨rfl, by decide, by decide⟩
    | 1 =>
      simp only [exampleCtab, example2, List.getElem?_cons_succ, List.getElem?_cons_zero, Option.some.injEq] at h h'
      subst h h'
      exact ⟨rfl, by decide, by decide⟩
    | n + 2 => simp [exampleCtab] at h
  bonds := by
    intro i j a b a' b' ha hb ha' hb'
    match i, j with
    | 0, 0 =>
      simp only [exampleCtab, example2, List.getElem?_cons_zero, Option.some.injEq] at ha hb ha' hb'
      subst ha hb ha' hb'; decide
    | 0, 1 =>
      simp only [exampleCtab, example2, List.getElem?_cons_succ, List.getElem?_cons_zero, Option.some.injEq] at ha hb ha' hb'
      subst ha hb ha' hb'; decide
    | 1, 0 =>
      simp only [exampleCtab, example2, List.getElem?_cons_succ, List.getElem?_cons_zero, Option.some.injEq] at ha hb ha' hb'
      subst ha hb ha' hb'; decide
    | 1, 1 =>
      simp only [exampleCtab, example2, List.getElem?_cons_succ, List.getElem?_cons_zero, Option.some.injEq] at ha hb ha' hb'
      subst ha hb ha' hb'; decide
    | n + 2, _ => simp [exampleCtab] at ha
    | 0, n + 2 => simp [exampleCtab] at hb
    | 1, n + 2 => simp [exampleCtab] at hb

/-- `Final.C06_reader`, instance: CO⁺ with indices 7 / 3 and its redrawing `example2` (uncharged, other coordinates,
other indices, double bond, foreign property) are both read and get the same TUCAN string, under two `set` orders -/
theorem C06_reader_witness :
    ∃ g g', fileMeaning env0 exampleCtab = .ok g ∧ fileMeaning env0 example2 = .ok g' ∧ fuelBound g' = fuelBound g ∧
      ∀ fuel ≥ fuelBound g, ∀ fuel' ≥ fuelBound g, ∃ s, tucan env0 fuel g = .ok s ∧ tucan env1 fuel' g' = .ok s := by
  have h : exampleCtab.Plain env0 := example_plain
  have h' : example2.Plain env0 := example2_plain
  have hsame : SameIdentityCtab exampleCtab example2 := example_same
  have hneg : ¬ exampleCtab.NegMassRad := example_notNeg
  have hself : ¬ exampleCtab.SelfBond := example_notSelf
  have hne : exampleCtab.atoms ≠ [] := by decide
  exact Contracts.Final.C06_reader env0 env0_set env1_set env0_bliss env1_cp env1_pv exampleCtab example2 h h' hsame hneg hself hne


/-! ## the writer: `RoundTrip.exHF` (deuterium fluoride), concrete float formatting -/

open Contracts.RoundTrip (exHF)

/-- environment of the writer: `f"{x:.6f}"` prints `0.000000` (the example has no coordinates), a ten-character
time stamp, version `1.0.0`; `float()` accepts every token -/
noncomputable def envW : DepEnv :=
  { BlissModel.env with fmt6 := fun _ => py!"0.000000", nowStamp := py!"0928261200", version := py!"1.0.0" }

theorem exHF_wf : exHF.WF := by
  have w0 : (Graph.empty.addNode 0 ⟨[("element_symbol", Val.str py!"H"), ("atomic_number", Val.int 1), ("mass", Val.int 2)]⟩).WF :=
    Graph.WF_addNode Graph.WF_empty 0 (by unfold Dict.WF Dict.keys; decide)
  have w1 := Graph.WF_addNode w0 1 (a := ⟨[("element_symbol", Val.str py!"F"), ("atomic_number", Val.int 9)]⟩) (by unfold Dict.WF Dict.keys; decide)
  exact Graph.WF_addEdge w1 0 1 Dict.empty

theorem exHF_nodesData : exHF.nodesData =
    [(0, ⟨[("element_symbol", Val.str py!"H"), ("atomic_number", Val.int 1), ("mass", Val.int 2)]⟩),
     (1, ⟨[("element_symbol", Val.str py!"F"), ("atomic_number", Val.int 9)]⟩)] := by decide

theorem exHF_edgesData : exHF.edgesData = [(0, 1, Dict.empty)] := by decide

theorem exHF_nodeRT : ∀ p ∈ exHF.nodesData, Contracts.Writer.NodeRT envW p := by
  intro p hp
  rw [exHF_nodesData] at hp
  simp only [List.mem_cons, List.not_mem_nil, or_false] at hp
  have hclean : Contracts.Writer.CleanTok py!"0.000000" := by unfold Contracts.Writer.CleanTok; decide
  rcases hp with rfl | rfl
  · refine ⟨⟨py!"H", by decide, by decide⟩, ⟨hclean, hclean, hclean⟩, ⟨nat_small (by decide), ?_⟩, ⟨_, rfl⟩, ⟨_, rfl⟩, ⟨_, rfl⟩⟩
    intro m hm
    have : Contracts.Writer.wMass ⟨[("element_symbol", Val.str py!"H"), ("atomic_number", Val.int 1), ("mass", Val.int 2)]⟩ = some 2 := by decide
    rw [this] at hm; cases hm
    exact nat_small (by decide)
  · refine ⟨⟨py!"F", by decide, by decide⟩, ⟨hclean, hclean, hclean⟩, ⟨nat_small (by decide), ?_⟩, ⟨_, rfl⟩, ⟨_, rfl⟩, ⟨_, rfl⟩⟩
    intro m hm
    have : Contracts.Writer.wMass ⟨[("element_symbol", Val.str py!"F"), ("atomic_number", Val.int 9)]⟩ = none := by decide
    rw [this] at hm; cases hm

/-- `Writer.C09`, instance -/
theorem C09_witness :
    ∃ text, Tucan.molfile_writer.graph_to_molfile envW
        (Contracts.Writer.maxLen (Contracts.Writer.logicalLines envW exHF) / 71 + 1) exHF false = .ok text ∧
      (∀ l ∈ splitlines text, l.length ≤ 79) ∧
      Tucan.molfile_v3000_reader.graph_attributes_from_molfile_v3000 envW
        ((Contracts.Writer.fileLines envW exHF).length + 1) (splitlines text) =
        .ok (Contracts.Writer.atomsBack envW exHF, Contracts.Writer.bondsBack exHF) := by
  have hg : exHF.WF := exHF_wf
  have hok : ∀ p ∈ exHF.nodesData, Contracts.Writer.NodeOk p.2 := by
    intro p hp
    rw [exHF_nodesData] at hp
    simp only [List.mem_cons, List.not_mem_nil, or_false] at hp
    rcases hp with rfl | rfl
    · refine ⟨by decide, ?_⟩
      intro v hv
      have : (⟨[("element_symbol", Val.str py!"H"), ("atomic_number", Val.int 1), ("mass", Val.int 2)]⟩ : Attrs).get? "mass" = some (Val.int 2) := by decide
      rw [this] at hv; cases hv; exact ⟨2, rfl⟩
    · refine ⟨by decide, ?_⟩
      intro v hv
      have : (⟨[("element_symbol", Val.str py!"F"), ("atomic_number", Val.int 9)]⟩ : Attrs).get? "mass" = none := by decide
      rw [this] at hv; cases hv
  have hn : ∀ p ∈ exHF.nodesData, Contracts.Writer.NodeRT envW p := exHF_nodeRT
  have he : ∀ e ∈ exHF.edgesData, Contracts.Writer.EdgeRT e := by
    intro e he
    rw [exHF_edgesData] at he
    simp only [List.mem_cons, List.not_mem_nil, or_false] at he
    subst he
    exact ⟨1, by decide, nat_small (by decide)⟩
  have hna : exHF.nodesData.length < 10 ^ 4300 := by rw [exHF_nodesData]; exact nat_small (by decide)
  have hnb : exHF.edgesData.length < 10 ^ 4300 := by rw [exHF_edgesData]; exact nat_small (by decide)
  have hstamp : envW.nowStamp.length = 10 := by decide
  have hv : Contracts.Writer.Plain envW.version := by unfold Contracts.Writer.Plain; decide
  have hs : Contracts.Writer.Plain envW.nowStamp := by unfold Contracts.Writer.Plain; decide
  have hp : Contracts.Writer.PlainValues envW exHF := by
    refine ⟨fun v => by
      show Contracts.Writer.Plain py!"0.000000"
      unfold Contracts.Writer.Plain; decide, ?_, ?_⟩
    · rw [exHF_nodesData]; unfold Contracts.Writer.Plain; decide
    · rw [exHF_edgesData]; unfold Contracts.Writer.Plain; decide
  exact Contracts.Writer.C09 envW exHF _ _ hg hok hn he hna hnb hstamp hv hs hp (le_refl _) (le_refl _)


/-! ## C16: `permute_molecule` on HDO⁺ with `random.shuffle` = list reversal -/

noncomputable def envS : DepEnv := { BlissModel.env with shuffle := fun _ _ l => l.reverse }
theorem envS_shuffle : Relabel.ShuffleLawful envS := fun _ _ l => List.reverse_perm l

def hAttrs : Attrs := ⟨[("element_symbol", Val.str py!"H"), ("atomic_number", Val.int 1)]⟩
def dAttrs : Attrs := ⟨[("element_symbol", Val.str py!"H"), ("atomic_number", Val.int 1), ("mass", Val.int 2)]⟩
def oAttrs : Attrs := ⟨[("element_symbol", Val.str py!"O"), ("atomic_number", Val.int 8), ("chg", Val.int 1)]⟩

/-- HDO⁺ as a networkx graph: atoms 0 (H), 1 (D), 2 (O); bonds 0–2 (type 1) and 1–2 (type 1) -/
def hdo : Graph :=
  ((((Graph.empty.addNode 0 hAttrs).addNode 1 dAttrs).addNode 2 oAttrs).addEdge 0 2 ⟨[("bond_type", Val.int 1)]⟩).addEdge 1 2
    ⟨[("bond_type", Val.int 1)]⟩

theorem hdo_wf : hdo.WF := by
  have w0 := Graph.WF_addNode Graph.WF_empty 0 (a := hAttrs) (by unfold Dict.WF Dict.keys; decide)
  have w1 := Graph.WF_addNode w0 1 (a := dAttrs) (by unfold Dict.WF Dict.keys; decide)
  have w2 := Graph.WF_addNode w1 2 (a := oAttrs) (by unfold Dict.WF Dict.keys; decide)
  exact Graph.WF_addEdge (Graph.WF_addEdge w2 0 2 _) 1 2 _

theorem hasEdge_false_of_edgeAttrs {r : Graph} {u v : Int} (h : r.edgeAttrs u v = none) : r.hasEdge u v = false := by
  unfold Graph.hasEdge
  unfold Graph.edgeAttrs at h
  cases hd : r.adj.get? u with
  | none => rfl
  | some d =>
    rw [hd] at h
    simp only [Option.bind_some] at h
    simp [Dict.contains, h]

theorem permute_runs : ∃ r rng', Tucan.graph_utils.permute_molecule envS 1 (Rng.ofSeed (Val.int 0)) hdo (Val.int 7) = .ok (r, rng') := by
  let m' := hdo.relabelCopy (Dict.ofPairs (zip (envS.shuffle (Val.int 7) 0 hdo.nodeList) hdo.nodeList))
  have hp := envS_shuffle (Val.int 7) 0 hdo.nodeList
  obtain ⟨w1, -, p1, r1⟩ := relabelCopy_zip_spec hdo_wf hp hdo_wf.nodup_nodeList hp.length_eq
  obtain ⟨r, hr, w2, s2, p2, asc, hnode, hedge⟩ := Relabel.sort_molecule_by_label_spec envS w1
  have hm'nodes : m'.nodeList = [2, 1, 0] := by decide
  have h12 : m'.edgeAttrs 1 2 = none := by decide
  have hE : r.hasEdge 1 2 = false := by
    apply hasEdge_false_of_edgeAttrs
    rw [hedge 1 (by show (1:Int) ∈ m'.nodeList; rw [hm'nodes]; decide) 2 (by show (2:Int) ∈ m'.nodeList; rw [hm'nodes]; decide)]
    exact h12
  have hedges : hdo.edges = [(0, 2), (1, 2)] := by decide
  have hEq : hdo.edgesEq r = false := by
    unfold Graph.edgesEq
    rw [hedges]
    simp [hE]
  have hne : hdo.numberOfEdges = 2 := by decide
  have hd : hdo.densityNeOne = true := by decide
  have haux : Tucan.graph_utils._permute_molecule envS (Rng.ofSeed (Val.int 7)) hdo = .ok (r, (Rng.ofSeed (Val.int 7)).next) := by
    rw [Relabel.permute_molecule_aux_eq]
    show (Tucan.graph_utils._sort_molecule_by_label envS m' >>= fun r => pure (r, (Rng.ofSeed (Val.int 7)).next)) = _
    rw [hr]; rfl
  refine ⟨r, (Rng.ofSeed (Val.int 7)).next, ?_⟩
  unfold Tucan.graph_utils.permute_molecule
  simp only [toVal, ToVal.toVal, id, haux, ok_bind, pure_eq_ok, hne, hd]
  simp [pyGt, PyCmp.gt, POrd.lt, truthy, Truthy.truthy, hEq, List.range_succ]


/-- `Relabel.permute_molecule_spec`, instance: the run hypothesis `h` is `permute_runs`; enforcement applies
(two bonds, not a complete graph), so the last clause of the conclusion is not vacuous here -/
theorem permute_witness : ∃ r rng',
    Tucan.graph_utils.permute_molecule envS 1 (Rng.ofSeed (Val.int 0)) hdo (Val.int 7) = .ok (r, rng') ∧
    r.WF ∧ r.nodeList.Perm hdo.nodeList ∧ r.nodeList.Pairwise (· < ·) ∧ (∃ π, IsRelabel π hdo r) ∧
    hdo.edgesEq r = false := by
  obtain ⟨r, rng', h⟩ := permute_runs
  have hs : Relabel.ShuffleLawful envS := envS_shuffle
  have hm : hdo.WF := hdo_wf
  obtain ⟨a, b, c, d, e⟩ := Relabel.permute_molecule_spec hs 1 (Rng.ofSeed (Val.int 0)) hm (Val.int 7) h
  exact ⟨r, rng', h, a, b, c, d, e ⟨by decide, by decide⟩⟩

/-! ## C08: a V2000 file for the same CO⁺ -/

open Contracts.V2000 (Item endLine lineKind specGet atomDict fieldInt field Kind fmt3 fieldFloat)

theorem elem_of_table (s : Str) (hs : s ∈ Contracts.Parser.periodicTable) :
    ∃ ea, Tucan.Consts.ELEMENT_ATTRS.get? s = some ea ∧
      ea.get? "atomic_number" = some (Val.int (Contracts.Parser.atomicNumber s)) := by
  have h := Contracts.Parser.table_ok s hs
  cases hg : Tucan.Consts.ELEMENT_ATTRS.get? s with
  | none => rw [hg] at h; cases h
  | some ea => rw [hg] at h; exact ⟨ea, rfl, h⟩

/-- atom lines of the V2000 file: coordinates in columns 0–29, symbol in 31–33, charge code in 36–38 -/
def v2C : Str := py!"    0.0000    0.0000    0.0000 C   0  0  0  0  0  0  0  0  0  0  0  0"
def v2O : Str := py!"    1.2000    0.0000    0.0000 O   0  0  0  0  0  0  0  0  0  0  0  0"
/-- bond line `  1  2  2  0  0  0  0` -/
def v2B : Str := fmt3 1 ++ fmt3 2 ++ fmt3 2 ++ py!"  0  0  0  0"
def v2counts : Str := py!"  2  1  0  0  0  0  0  0  0  0999 V2000"
/-- property block: an unrelated line and `M  CHG  1   1   1` (charge +1 on atom 1) -/
def v2items : List Item := [Item.other py!"M  STY  1   1 SUP", Item.prop Kind.chg [(1, 1)]]

def v2attrs : List Attrs :=
  [Contracts.V2000.atomAttrs py!"C" (Val.int 6) (Val.flt ⟨py!"    0.0000"⟩) (Val.flt ⟨py!"    0.0000"⟩) (Val.flt ⟨py!"    0.0000"⟩) 0 0,
   Contracts.V2000.atomAttrs py!"O" (Val.int 8) (Val.flt ⟨py!"    1.2000"⟩) (Val.flt ⟨py!"    0.0000"⟩) (Val.flt ⟨py!"    0.0000"⟩) 0 0]
def v2bonds : List ((Int × Int) × Attrs) := [((0, 1), ⟨[("bond_type", Val.int 2)]⟩)]

def v2lines : List Str :=
  py!"" :: py!"  witness" :: py!"" :: v2counts :: ([v2C, v2O] ++ ([v2B] ++ (v2items.map Item.render ++ endLine :: [])))

def v2text : Str := join py!"\n" (v2lines ++ [[]])

theorem v2_parse_C : Tucan.molfile_v2000_reader._parse_atom_line env0 v2C = .ok v2attrs[0] := by
  obtain ⟨ea, hea, hz⟩ := elem_of_table py!"C" (by decide)
  have h6 : Contracts.Parser.atomicNumber py!"C" = 6 := by decide
  rw [h6] at hz
  have := Contracts.V2000._parse_atom_line_ok env0 v2C py!"C" ea (Val.int 6) (Val.flt ⟨py!"    0.0000"⟩)
    (Val.flt ⟨py!"    0.0000"⟩) (Val.flt ⟨py!"    0.0000"⟩) 0 (by decide) hea hz (by decide) (by decide) (by decide) (by decide)
  rw [this]; rfl


theorem v2_parse_O : Tucan.molfile_v2000_reader._parse_atom_line env0 v2O = .ok v2attrs[1] := by
  obtain ⟨ea, hea, hz⟩ := elem_of_table py!"O" (by decide)
  have h8 : Contracts.Parser.atomicNumber py!"O" = 8 := by decide
  rw [h8] at hz
  have := Contracts.V2000._parse_atom_line_ok env0 v2O py!"O" ea (Val.int 8) (Val.flt ⟨py!"    1.2000"⟩)
    (Val.flt ⟨py!"    0.0000"⟩) (Val.flt ⟨py!"    0.0000"⟩) 0 (by decide) hea hz (by decide) (by decide) (by decide) (by decide)
  rw [this]; rfl

theorem v2_parse_B : Tucan.molfile_v2000_reader._parse_bond_line env0 v2B (atomDict v2attrs) = .ok v2bonds[0] := by
  have := Contracts.V2000._parse_bond_line_ok env0 (atomDict v2attrs) 1 2 2 py!"  0  0  0  0" (by decide) (by decide) (by decide)
    (by rw [Contracts.V2000.atomDict_contains]; decide) (by rw [Contracts.V2000.atomDict_contains]; decide)
  exact this


theorem v2_lines : splitlines v2text = v2lines :=
  Contracts.Reader.splitlines_join_terminated _ Contracts.Reader.isSep_lf v2lines (by decide)

theorem v2_specGet_id (i : Nat) (hi : i < v2attrs.length) (k : String) (hk : k ∈ ["element_symbol", "atomic_number", "mass", "rad"]) :
    specGet (v2items.filterMap Item.parsed) i v2attrs[i] k = v2attrs[i].get? k := by
  simp only [List.mem_cons, List.not_mem_nil, or_false] at hk
  rcases hk with rfl | rfl | rfl | rfl
  · exact Contracts.V2000.specGet_other _ _ _ _ (by decide) (by decide) (by decide)
  · exact Contracts.V2000.specGet_other _ _ _ _ (by decide) (by decide) (by decide)
  · apply Contracts.V2000.specGet_mass_kept
    intro v hv
    have : Contracts.V2000.entriesOf (v2items.filterMap Item.parsed) Kind.iso = [] := by decide
    rw [this] at hv; cases hv
  · match i, hi with
    | 0, _ => decide +revert
    | 1, _ => decide +revert

theorem v2_noMassRad : ∀ a ∈ v2attrs, a.get? "mass" = none ∧ a.get? "rad" = none := by decide

theorem v2_items_legal : ∀ it ∈ v2items, it.Legal (atomDict v2attrs) := by
  intro it hit
  simp only [v2items, List.mem_cons, List.not_mem_nil, or_false] at hit
  rcases hit with rfl | rfl
  · exact ⟨by decide, by decide⟩
  · refine ⟨by decide, by unfold Contracts.V2000.EntryFits; decide, ?_⟩
    intro e he
    simp only [List.mem_cons, List.not_mem_nil, or_false] at he
    subst he
    rw [Contracts.V2000.atomDict_contains]; decide

theorem v2_hZ : ∀ a ∈ v2attrs, ∃ z, a.get? "atomic_number" = some z := by
  intro a ha
  simp only [v2attrs, List.mem_cons, List.not_mem_nil, or_false] at ha
  rcases ha with rfl | rfl
  · exact ⟨Val.int 6, by decide⟩
  · exact ⟨Val.int 8, by decide⟩

theorem v2_hneg : ∀ (i : Nat) (hi : i < v2attrs.length), ∀ k ∈ ["mass", "rad"], ∀ v,
    specGet (v2items.filterMap Item.parsed) i v2attrs[i] k = some v → Contracts.Reader.isNeg v = false := by
  intro i hi k hk v hv
  rw [v2_specGet_id i hi k (by simp only [List.mem_cons, List.not_mem_nil, or_false] at hk ⊢; tauto)] at hv
  have hno := v2_noMassRad _ (List.getElem_mem hi)
  simp only [List.mem_cons, List.not_mem_nil, or_false] at hk
  rcases hk with rfl | rfl
  · rw [hno.1] at hv; cases hv
  · rw [hno.2] at hv; cases hv

/-- `Reader.graph_from_molfile_text_v2000`, instance: a V2000 file for CO⁺ (charge given by an `M  CHG` line, an
unrelated `M  STY` line in the property block) -/
theorem v2000_witness :
    ∃ g, Tucan.molfile_reader.graph_from_molfile_text env0 0 v2text = .ok g ∧ g.WF ∧
      g.nodeList = range (v2attrs.length : Int) ∧
      (∀ (i : Nat) (hi : i < v2attrs.length), ∃ new, g.node.get? (i : Int) = some (Contracts.Parser.withCode new) ∧
        ∀ k, new.get? k = specGet (v2items.filterMap Item.parsed) i v2attrs[i] k) ∧
      (∀ x y, y ∈ g.nbrs x ↔ ∃ b ∈ v2bonds, b.1 = (x, y) ∨ b.1 = (y, x)) := by
  have hlines : splitlines v2text = py!"" :: py!"  witness" :: py!"" :: v2counts ::
      ([v2C, v2O] ++ ([v2B] ++ (v2items.map Item.render ++ endLine :: []))) := v2_lines
  have hver : Contracts.Reader.lastWord v2counts = py!"V2000" := by decide
  have hna : fieldInt (field v2counts 0 3) = .ok ([v2C, v2O].length : Int) := by decide
  have hnb : fieldInt (field v2counts 3 3) = .ok ([v2B].length : Int) := by decide
  have hnl : fieldInt (field v2counts 6 3) = .ok 0 := by decide
  have hatoms : List.Forall₂ (fun l a => Tucan.molfile_v2000_reader._parse_atom_line env0 l = .ok a) [v2C, v2O] v2attrs :=
    List.Forall₂.cons v2_parse_C (List.Forall₂.cons v2_parse_O List.Forall₂.nil)
  have hbonds : List.Forall₂ (fun l b => Tucan.molfile_v2000_reader._parse_bond_line env0 l (atomDict v2attrs) = .ok b)
      [v2B] v2bonds := List.Forall₂.cons v2_parse_B List.Forall₂.nil
  have hbl : ∀ l ∈ [v2B], lineKind l = none ∧ l ≠ endLine := by decide
  have hitems : ∀ it ∈ v2items, it.Legal (atomDict v2attrs) := by
    intro it hit
    simp only [v2items, List.mem_cons, List.not_mem_nil, or_false] at hit
    rcases hit with rfl | rfl
    · exact ⟨by decide, by decide⟩
    · refine ⟨by decide, by unfold Contracts.V2000.EntryFits; decide, ?_⟩
      intro e he
      simp only [List.mem_cons, List.not_mem_nil, or_false] at he
      subst he
      rw [Contracts.V2000.atomDict_contains]; decide
  have hwf : ∀ a ∈ v2attrs, a.WF := by unfold Dict.WF Dict.keys; decide
  have hZ : ∀ a ∈ v2attrs, ∃ z, a.get? "atomic_number" = some z := by
    intro a ha
    simp only [v2attrs, List.mem_cons, List.not_mem_nil, or_false] at ha
    rcases ha with rfl | rfl
    · exact ⟨Val.int 6, by decide⟩
    · exact ⟨Val.int 8, by decide⟩
  have hends : ∀ b ∈ v2bonds, b.1.1 ∈ range (v2attrs.length : Int) ∧ b.1.2 ∈ range (v2attrs.length : Int) := by decide
  have hneg : ∀ (i : Nat) (hi : i < v2attrs.length), ∀ k ∈ ["mass", "rad"], ∀ v,
      specGet (v2items.filterMap Item.parsed) i v2attrs[i] k = some v → Contracts.Reader.isNeg v = false := by
    intro i hi k hk v hv
    rw [v2_specGet_id i hi k (by simp only [List.mem_cons, List.not_mem_nil, or_false] at hk ⊢; tauto)] at hv
    have hno := v2_noMassRad _ (List.getElem_mem hi)
    simp only [List.mem_cons, List.not_mem_nil, or_false] at hk
    rcases hk with rfl | rfl
    · rw [hno.1] at hv; cases hv
    · rw [hno.2] at hv; cases hv
  have hself : ∀ b ∈ v2bonds, b.1.1 ≠ b.1.2 := by decide
  exact Contracts.Reader.graph_from_molfile_text_v2000 env0 0 v2text _ _ _ v2counts [v2C, v2O] [v2B] v2attrs v2bonds v2items []
    hlines hver hna hnb hnl hatoms hbonds hbl hitems hwf hZ hends hneg hself


/-- `Final.C08_agree`, instance: the V3000 file of `render_ok_witness` and the V2000 file `v2text` (charge by
`M  CHG` instead of `CHG=`, a double instead of a single bond... identity data equal) get the same TUCAN string -/
theorem C08_witness :
    ∃ g g', Tucan.molfile_reader.graph_from_molfile_text env0 (((fileLines exampleCtab exampleDress).drop 4).length + 1)
        (join py!"\r\n" (fileLines exampleCtab exampleDress ++ [[]])) = .ok g ∧
      Tucan.molfile_reader.graph_from_molfile_text env0 0 v2text = .ok g' ∧ fuelBound g' = fuelBound g ∧
      ∀ fuel ≥ fuelBound g, ∀ fuel' ≥ fuelBound g, ∃ s, tucan env0 fuel g = .ok s ∧ tucan env1 fuel' g' = .ok s := by
  have hlines : splitlines v2text = py!"" :: py!"  witness" :: py!"" :: v2counts ::
      ([v2C, v2O] ++ ([v2B] ++ (v2items.map Item.render ++ endLine :: []))) := v2_lines
  have hatoms : List.Forall₂ (fun l a => Tucan.molfile_v2000_reader._parse_atom_line env0 l = .ok a) [v2C, v2O] v2attrs :=
    List.Forall₂.cons v2_parse_C (List.Forall₂.cons v2_parse_O List.Forall₂.nil)
  have hbonds : List.Forall₂ (fun l b => Tucan.molfile_v2000_reader._parse_bond_line env0 l (atomDict v2attrs) = .ok b)
      [v2B] v2bonds := List.Forall₂.cons v2_parse_B List.Forall₂.nil
  have hitems : ∀ it ∈ v2items, it.Legal (atomDict v2attrs) := v2_items_legal
  have hZ : ∀ a ∈ v2attrs, ∃ z, a.get? "atomic_number" = some z := v2_hZ
  have hneg2 := v2_hneg
  have hlen : v2attrs.length = exampleCtab.atoms.length := rfl
  have hsameA : ∀ (i : Nat) (hi : i < v2attrs.length) a, exampleCtab.atoms[i]? = some a → ∀ k ∈ idKeys,
      (attrsOf env0 a).get? k = specGet (v2items.filterMap Item.parsed) i v2attrs[i] k := by
    intro i hi a ha k hk
    rw [v2_specGet_id i hi k hk]
    simp only [idKeys, List.mem_cons, List.not_mem_nil, or_false] at hk
    match i, hi with
    | 0, _ =>
      simp only [exampleCtab, List.getElem?_cons_zero, Option.some.injEq] at ha
      subst ha
      rcases hk with rfl | rfl | rfl | rfl <;> decide +revert
    | 1, _ =>
      simp only [exampleCtab, List.getElem?_cons_succ, List.getElem?_cons_zero, Option.some.injEq] at ha
      subst ha
      rcases hk with rfl | rfl | rfl | rfl <;> decide +revert
  have hsameB : ∀ (i j : Nat) a b, exampleCtab.atoms[i]? = some a → exampleCtab.atoms[j]? = some b →
      (exampleCtab.joined (intOf a.idx) (intOf b.idx) ↔
        ∃ q ∈ v2bonds, q.1 = ((i : Int), (j : Int)) ∨ q.1 = ((j : Int), (i : Int))) := by
    intro i j a b ha hb
    match i, j with
    | 0, 0 =>
      simp only [exampleCtab, List.getElem?_cons_zero, Option.some.injEq] at ha hb
      subst ha hb; decide
    | 0, 1 =>
      simp only [exampleCtab, List.getElem?_cons_succ, List.getElem?_cons_zero, Option.some.injEq] at ha hb
      subst ha hb; decide
    | 1, 0 =>
      simp only [exampleCtab, List.getElem?_cons_succ, List.getElem?_cons_zero, Option.some.injEq] at ha hb
      subst ha hb; decide
    | 1, 1 =>
      simp only [exampleCtab, List.getElem?_cons_succ, List.getElem?_cons_zero, Option.some.injEq] at ha hb
      subst ha hb; decide
    | n + 2, _ => simp [exampleCtab] at ha
    | 0, n + 2 => simp [exampleCtab] at hb
    | 1, n + 2 => simp [exampleCtab] at hb
  exact Contracts.Final.C08_agree env0 env0_set env1_set env0_bliss env1_cp env1_pv
    exampleCtab example_plain example_notNeg example_notSelf (by decide) _ isSep_crlf exampleDress example_dressOK
    example_noBreaks example_bondShape _ (le_refl _)
    0 v2text _ _ _ v2counts [v2C, v2O] [v2B] v2attrs v2bonds v2items []
    hlines (by decide) (by decide) (by decide) (by decide) hatoms hbonds (by decide) hitems
    (by unfold Dict.WF Dict.keys; decide) hZ (by decide) hneg2 (by decide) hlen hsameA hsameB


end Contracts.Witness

/-! ## axioms -/
#print axioms Contracts.Witness.water_exists
#print axioms Contracts.Witness.C15_witness
#print axioms Contracts.Witness.C12_witness
#print axioms Contracts.Witness.C05_witness
#print axioms Contracts.Witness.C01_witness
#print axioms Contracts.Witness.C04_witness
#print axioms Contracts.Witness.C13_witness
#print axioms Contracts.Witness.C03_pipeline_witness
#print axioms Contracts.Witness.C02_witness
#print axioms Contracts.Witness.C03_fixpoint_witness
#print axioms Contracts.Witness.C11_norm_witness
#print axioms Contracts.Witness.render_ok_witness
#print axioms Contracts.Witness.C06_reader_witness
#print axioms Contracts.Witness.C09_witness
#print axioms Contracts.Witness.permute_witness
#print axioms Contracts.Witness.v2000_witness
#print axioms Contracts.Witness.C08_witness
