/-
Contracts.C10Full — property C10 composed, with the recogniser (ANTLR runtime + generated parser, not
verified) as an explicit two-sided assumption.

1. `Gram a`: the syntax tree `a` has the shape the published grammar prescribes (symbols in the order of the
   rules `with_carbon` / `without_carbon`, numerals as `greater_than_zero` / `greater_than_one`, non-empty
   property lists). `grammar_iff_ast : Grammar.tucan s ↔ ∃ a, Gram a ∧ render a = s`, and the reading is unique
   (`gram_unique`). Pure string / grammar reasoning, independent of the extracted code.
   `Ast.Wf` (the hypothesis of the tree-walk theorems of Contracts.Parser) is NOT this predicate
   (`wf_not_grammar`: `OH2/`; `grammar_not_wf`: a 4301-digit numeral); the exact relation is
   `wf_grammar_iff : a.Wf ∧ Grammar.tucan (render a) ↔ Gram a ∧ Small a`, where `Small a` says that no
   numeral has more than 4300 digits (Python's `int` limit).
2. `V4full antlr`: the two-sided recogniser assumption; `V4full_satisfiable`, `V4full.toV4`.
3. `C10_iff`, `C10_iff_exists`, `C10_accept`, `C10_reject`, `C10_total`, `C10_error_is_TPE` for every string `s`
   that satisfies the side condition `SmallNumbers s` (known finding for C10: a grammatical sentence with a
   numeral of more than 4300 digits is rejected by `_to_int`, whatever its indices). `SmallNumbers s` is implied
   by the string-level `ShortRuns s` (no run of more than 4300 digits) and holds for every ungrammatical `s`.
4. `C10_witness`: an accepted string, a grammatical rejected string (self-bond), two ungrammatical strings, with
   `antlr` from `V4full_satisfiable`.
-/
import Contracts.RoundTrip
set_option autoImplicit false
set_option linter.unusedSimpArgs false
set_option linter.unusedVariables false
open Py

namespace Contracts.C10Full
open Contracts.Parser Contracts.RoundTrip
open Contracts.Layout

/-! ## 1. the grammar and the abstract syntax -/

/-! ### numerals -/

/-- `greater_than_zero`: a digit `1..9` followed by digits `0..9` -/
def Gt0 (ds : Str) : Prop := ∃ d r, ds = d :: r ∧ d ∈ Grammar.d19 ∧ ∀ c ∈ r, c ∈ Grammar.d09
/-- `greater_than_one`: a `greater_than_zero` other than `"1"` -/
def Gt1 (ds : Str) : Prop := Gt0 ds ∧ ds ≠ py!"1"

theorem gt1_elim {ds : Str} (h : Grammar.greater_than_one ds) : Gt1 ds := by
  unfold Grammar.greater_than_one at h
  simp only [Grammar.alts, Grammar.alt, Grammar.lit] at h
  rcases h with rfl | rfl | rfl | rfl | rfl | rfl | rfl | rfl | h | h
  · exact ⟨⟨'2', [], rfl, by decide, by simp⟩, by decide⟩
  · exact ⟨⟨'3', [], rfl, by decide, by simp⟩, by decide⟩
  · exact ⟨⟨'4', [], rfl, by decide, by simp⟩, by decide⟩
  · exact ⟨⟨'5', [], rfl, by decide, by simp⟩, by decide⟩
  · exact ⟨⟨'6', [], rfl, by decide, by simp⟩, by decide⟩
  · exact ⟨⟨'7', [], rfl, by decide, by simp⟩, by decide⟩
  · exact ⟨⟨'8', [], rfl, by decide, by simp⟩, by decide⟩
  · exact ⟨⟨'9', [], rfl, by decide, by simp⟩, by decide⟩
  · obtain ⟨u, v, ⟨c, hc, rfl⟩, ⟨u', v', ⟨c', hc', rfl⟩, ⟨l, hl, rfl⟩, rfl⟩, rfl⟩ := h
    refine ⟨⟨c, c' :: l.flatten, by simp, hc, ?_⟩, by simp⟩
    intro x hx
    rcases List.mem_cons.1 hx with rfl | hx
    · exact hc'
    · obtain ⟨w, hw, hxw⟩ := List.mem_flatten.1 hx
      obtain ⟨y, hy, rfl⟩ := hl w hw
      rw [List.mem_singleton.1 hxw]; exact hy
  · exact h.elim

theorem gt1_intro {ds : Str} (h : Gt1 ds) : Grammar.greater_than_one ds := by
  obtain ⟨⟨d, r, rfl, hd, hr⟩, hne⟩ := h
  cases r with
  | nil =>
    simp only [Grammar.d19, List.mem_cons, List.not_mem_nil, or_false] at hd
    unfold Grammar.greater_than_one
    rcases hd with rfl | rfl | rfl | rfl | rfl | rfl | rfl | rfl | rfl
    · exact absurd rfl hne
    · exact Grammar.alts_mem (A := Grammar.lit py!"2") (by simp) rfl
    · exact Grammar.alts_mem (A := Grammar.lit py!"3") (by simp) rfl
    · exact Grammar.alts_mem (A := Grammar.lit py!"4") (by simp) rfl
    · exact Grammar.alts_mem (A := Grammar.lit py!"5") (by simp) rfl
    · exact Grammar.alts_mem (A := Grammar.lit py!"6") (by simp) rfl
    · exact Grammar.alts_mem (A := Grammar.lit py!"7") (by simp) rfl
    · exact Grammar.alts_mem (A := Grammar.lit py!"8") (by simp) rfl
    · exact Grammar.alts_mem (A := Grammar.lit py!"9") (by simp) rfl
  | cons c r =>
    apply Grammar.alts_mem (A := Grammar.GREATER_THAN_NINE) (by simp [Grammar.greater_than_one])
    exact ⟨[d], c :: r, ⟨d, hd, rfl⟩, Grammar.plus_chr (by simp) hr, rfl⟩

/-- the rule `greater_than_one` -/
theorem gt1_iff (ds : Str) : Grammar.greater_than_one ds ↔ Gt1 ds := ⟨gt1_elim, gt1_intro⟩

/-- the rule `greater_than_zero` -/
theorem gt0_iff (ds : Str) : Grammar.greater_than_zero ds ↔ Gt0 ds := by
  constructor
  · rintro (h | h)
    · rw [show ds = py!"1" from h]; exact ⟨'1', [], rfl, by decide, by simp⟩
    · exact (gt1_elim h).1
  · intro h
    by_cases h1 : ds = py!"1"
    · exact Or.inl h1
    · exact Or.inr (gt1_intro ⟨h, h1⟩)

theorem digit_of_d09 {c : Char} (h : c ∈ Grammar.d09) : isAsciiDigit c = true := by
  simp only [Grammar.d09, Grammar.d19, List.mem_cons, List.not_mem_nil, or_false] at h
  rcases h with rfl | rfl | rfl | rfl | rfl | rfl | rfl | rfl | rfl | rfl <;> decide

theorem d09_of_d19 {c : Char} (h : c ∈ Grammar.d19) : c ∈ Grammar.d09 := List.mem_cons_of_mem _ h

theorem Gt0.digits {ds : Str} (h : Gt0 ds) : ∀ c ∈ ds, isAsciiDigit c = true := by
  obtain ⟨d, r, rfl, hd, hr⟩ := h
  intro c hc
  rcases List.mem_cons.1 hc with rfl | hc
  · exact digit_of_d09 (d09_of_d19 hd)
  · exact digit_of_d09 (hr c hc)

theorem Gt0.ne_nil {ds : Str} (h : Gt0 ds) : ds ≠ [] := by
  obtain ⟨d, r, rfl, _, _⟩ := h; simp

/-- a grammatical numeral of at most 4300 digits is a numeral in the sense of `Ast.Wf` -/
theorem Gt0.numWf {ds : Str} (h : Gt0 ds) (hl : ds.length ≤ intMaxStrDigits) : NumWf ds := by
  refine ⟨h.ne_nil, List.all_eq_true.2 h.digits, ?_, hl⟩
  obtain ⟨d, r, rfl, hd, _⟩ := h
  simp only [List.head?_cons, ne_eq, Option.some.injEq]
  rintro rfl
  revert hd; decide

theorem d19_val {d : Char} (h : d ∈ Grammar.d19) : 1 ≤ d.toNat - '0'.toNat := by
  simp only [Grammar.d19, List.mem_cons, List.not_mem_nil, or_false] at h
  rcases h with rfl | rfl | rfl | rfl | rfl | rfl | rfl | rfl | rfl <;> decide

/-- a `greater_than_one` denotes a number ≥ 2 -/
theorem Gt1.two_le {ds : Str} (h : Gt1 ds) : 2 ≤ digitsToNat ds := by
  obtain ⟨⟨d, r, rfl, hd, hr⟩, hne⟩ := h
  cases r with
  | nil =>
    simp only [Grammar.d19, List.mem_cons, List.not_mem_nil, or_false] at hd
    rcases hd with rfl | rfl | rfl | rfl | rfl | rfl | rfl | rfl | rfl
    · exact absurd rfl hne
    all_goals decide
  | cons c r =>
    have h1 := d19_val hd
    unfold digitsToNat
    simp only [List.foldl_cons]
    refine le_trans ?_ (foldl_digits_ge r _)
    omega

/-! ### the shape of a grammatical syntax tree -/

/-- the order of the element rules in `sum_formula ::= with_carbon | without_carbon`: either `C` followed by
a selection (in order) of the optional elements of `with_carbon`, or a selection of those of `without_carbon` -/
def FormulaOrder (f : List (Str × Option Str)) : Prop :=
  (∃ c r, f = (py!"C", c) :: r ∧ (r.map Prod.fst).Sublist Grammar.withCarbonOptSyms)
    ∨ (f.map Prod.fst).Sublist Grammar.withoutCarbonSyms

/-- **the syntax trees of the sentences of the published grammar** (tucan.ebnf) -/
structure Gram (a : Ast) : Prop where
  order : FormulaOrder a.formula
  counts : ∀ p ∈ a.formula, ∀ ds, p.2 = some ds → Gt1 ds
  tuples : ∀ t ∈ a.tuples, Gt0 t.1 ∧ Gt0 t.2
  attrs : ∀ bs, a.attrs = some bs → ∀ b ∈ bs, Gt0 b.1 ∧ b.2 ≠ [] ∧ ∀ kv ∈ b.2, Gt0 kv.2

/-- no numeral has more than 4300 digits (`sys.get_int_max_str_digits()`) -/
structure Small (a : Ast) : Prop where
  counts : ∀ p ∈ a.formula, ∀ ds, p.2 = some ds → ds.length ≤ intMaxStrDigits
  tuples : ∀ t ∈ a.tuples, t.1.length ≤ intMaxStrDigits ∧ t.2.length ≤ intMaxStrDigits
  attrs : ∀ bs, a.attrs = some bs → ∀ b ∈ bs,
    b.1.length ≤ intMaxStrDigits ∧ ∀ kv ∈ b.2, kv.2.length ≤ intMaxStrDigits

/-! ### elimination: a sentence is the rendering of a `Gram` tree -/

theorem element_elim {s u : Str} (h : Grammar.element s u) :
    ∃ c : Option Str, (∀ ds, c = some ds → Gt1 ds) ∧ u = renderSym (s, c) := by
  obtain ⟨x, y, hx, hy, rfl⟩ := h
  rw [show x = s from hx]
  rcases hy with rfl | hy
  · exact ⟨none, by simp, rfl⟩
  · exact ⟨some y, fun ds hds => by cases hds; exact gt1_elim hy, rfl⟩

theorem element_intro (s : Str) (c : Option Str) (hc : ∀ ds, c = some ds → Gt1 ds) :
    Grammar.element s (renderSym (s, c)) := by
  cases c with
  | none => exact Grammar.cat_intro (A := Grammar.lit s) rfl Grammar.opt_none
  | some ds => exact Grammar.cat_intro (A := Grammar.lit s) rfl (Grammar.opt_some (gt1_intro (hc ds rfl)))

theorem formulaStr_cons (p : Str × Option Str) (f : List (Str × Option Str)) :
    formulaStr (p :: f) = renderSym p ++ formulaStr f := by simp [formulaStr]

theorem optElems_elim : ∀ (L : List Str) (w : Str),
    Grammar.seq (L.map (fun s => Grammar.opt (Grammar.element s))) w →
    ∃ f : List (Str × Option Str), (f.map Prod.fst).Sublist L ∧
      (∀ p ∈ f, ∀ ds, p.2 = some ds → Gt1 ds) ∧ w = formulaStr f
  | [], w, h => ⟨[], List.Sublist.slnil, by simp, h⟩
  | s :: L, w, h => by
    obtain ⟨u, v, hu, hv, rfl⟩ := h
    obtain ⟨f, hs, hc, rfl⟩ := optElems_elim L v hv
    rcases hu with rfl | hu
    · exact ⟨f, hs.cons s, hc, by simp⟩
    · obtain ⟨c, hcc, rfl⟩ := element_elim hu
      refine ⟨(s, c) :: f, by simpa using hs.cons_cons s, ?_, (formulaStr_cons _ _).symm⟩
      intro p hp ds hds
      rcases List.mem_cons.1 hp with rfl | hp
      · exact hcc ds hds
      · exact hc p hp ds hds

theorem optElems_intro : ∀ (L : List Str) (f : List (Str × Option Str)), (f.map Prod.fst).Sublist L →
    (∀ p ∈ f, ∀ ds, p.2 = some ds → Gt1 ds) →
    Grammar.seq (L.map (fun s => Grammar.opt (Grammar.element s))) (formulaStr f)
  | [], f, hs, _ => by
    have : f = [] := by simpa using hs
    subst this
    exact Grammar.seq_nil
  | s :: L, [], _, hc => by
    have := Grammar.seq_cons (Grammar.opt_none (A := Grammar.element s)) (optElems_intro L [] (by simp) hc)
    simpa using this
  | s :: L, (s', c) :: f, hs, hc => by
    rw [List.map_cons] at hs
    have hcf : ∀ p ∈ f, ∀ ds, p.2 = some ds → Gt1 ds := fun p hp => hc p (by simp [hp])
    cases hs with
    | cons _ h =>
      have := Grammar.seq_cons (Grammar.opt_none (A := Grammar.element s))
        (optElems_intro L ((s', c) :: f) (by simpa using h) hc)
      simpa using this
    | cons_cons _ h =>
      have := Grammar.seq_cons (Grammar.opt_some (element_intro s' c (hc (s', c) (by simp))))
        (optElems_intro L f h hcf)
      rw [formulaStr_cons]
      exact this

theorem formula_elim {w : Str} (h : Grammar.sum_formula w) :
    ∃ f, FormulaOrder f ∧ (∀ p ∈ f, ∀ ds, p.2 = some ds → Gt1 ds) ∧ w = formulaStr f := by
  rcases h with h | h
  · obtain ⟨u, v, hu, hv, rfl⟩ := h
    obtain ⟨c, hcc, rfl⟩ := element_elim hu
    obtain ⟨f, hs, hc, rfl⟩ := optElems_elim _ v hv
    refine ⟨(py!"C", c) :: f, Or.inl ⟨c, f, rfl, hs⟩, ?_, (formulaStr_cons _ _).symm⟩
    intro p hp ds hds
    rcases List.mem_cons.1 hp with rfl | hp
    · exact hcc ds hds
    · exact hc p hp ds hds
  · obtain ⟨f, hs, hc, rfl⟩ := optElems_elim _ w h
    exact ⟨f, Or.inr hs, hc, rfl⟩

theorem formula_intro {f : List (Str × Option Str)} (ho : FormulaOrder f)
    (hc : ∀ p ∈ f, ∀ ds, p.2 = some ds → Gt1 ds) : Grammar.sum_formula (formulaStr f) := by
  rcases ho with ⟨c, r, rfl, hs⟩ | hs
  · left
    rw [formulaStr_cons]
    exact Grammar.seq_cons (element_intro _ c (hc (py!"C", c) (by simp)))
      (optElems_intro _ r hs (fun p hp => hc p (by simp [hp])))
  · right
    exact optElems_intro _ f hs hc

/-- `A*` where every `A`-word is the rendering `r x` of some `x` with `P x` -/
theorem star_elim {A : Grammar.Lang} {α : Type} (r : α → Str) (P : α → Prop)
    (hA : ∀ u, A u → ∃ x, P x ∧ u = r x) {w : Str} (h : Grammar.star A w) :
    ∃ l : List α, (∀ x ∈ l, P x) ∧ w = (l.map r).flatten := by
  obtain ⟨us, hus, rfl⟩ := h
  induction us with
  | nil => exact ⟨[], by simp, rfl⟩
  | cons u us ih =>
    obtain ⟨l, hl, e⟩ := ih (fun v hv => hus v (by simp [hv]))
    obtain ⟨x, hx, rfl⟩ := hA u (hus u (by simp))
    refine ⟨x :: l, ?_, by simp [e]⟩
    intro y hy
    rcases List.mem_cons.1 hy with rfl | hy
    · exact hx
    · exact hl y hy

theorem star_map_intro {A : Grammar.Lang} {α : Type} (r : α → Str) (l : List α) (h : ∀ x ∈ l, A (r x)) :
    Grammar.star A (l.map r).flatten := by
  apply Grammar.star_intro
  intro u hu
  obtain ⟨x, hx, rfl⟩ := List.mem_map.1 hu
  exact h x hx

theorem tuple_elim {u : Str} (h : Grammar.tuple u) :
    ∃ t : Str × Str, (Gt0 t.1 ∧ Gt0 t.2) ∧ u = renderTuple t := by
  obtain ⟨_, _, rfl, ⟨i, _, hi, ⟨_, _, rfl, ⟨j, _, hj, ⟨_, _, rfl, rfl, rfl⟩, rfl⟩, rfl⟩, rfl⟩, rfl⟩ := h
  exact ⟨(i, j), ⟨(gt0_iff i).1 hi, (gt0_iff j).1 hj⟩, by simp [renderTuple]⟩

theorem tuple_intro (t : Str × Str) (h1 : Gt0 t.1) (h2 : Gt0 t.2) : Grammar.tuple (renderTuple t) := by
  have := Grammar.seq_cons (A := Grammar.lit py!"(") rfl
    (Grammar.seq_cons (A := Grammar.node_index) ((gt0_iff t.1).2 h1)
      (Grammar.seq_cons (A := Grammar.lit py!"-") rfl
        (Grammar.seq_cons (A := Grammar.node_index) ((gt0_iff t.2).2 h2)
          (Grammar.seq_single (A := Grammar.lit py!")") rfl))))
  unfold Grammar.tuple renderTuple
  simpa only [List.append_assoc] using this

theorem property_elim {q : Str} (h : Grammar.node_property q) :
    ∃ kv : Key × Str, Gt0 kv.2 ∧ q = renderProp kv := by
  obtain ⟨k, _, hk, ⟨_, _, rfl, ⟨v, _, hv, rfl, rfl⟩, rfl⟩, rfl⟩ := h
  rcases hk with hk | hk
  · rw [show k = py!"mass" from hk]
    exact ⟨(Key.mass, v), (gt0_iff v).1 hv, by simp [renderProp, Key.text]⟩
  · rw [show k = py!"rad" from hk]
    exact ⟨(Key.rad, v), (gt0_iff v).1 hv, by simp [renderProp, Key.text]⟩

theorem property_intro (kv : Key × Str) (h : Gt0 kv.2) : Grammar.node_property (renderProp kv) := by
  have hk : Grammar.node_property_key kv.1.text := by
    cases kv.1
    · exact Or.inl rfl
    · exact Or.inr rfl
  have := Grammar.seq_cons hk (Grammar.seq_cons (A := Grammar.lit py!"=") rfl
    (Grammar.seq_single (A := Grammar.node_property_value) ((gt0_iff kv.2).2 h)))
  unfold Grammar.node_property renderProp
  simpa only [List.append_assoc] using this

theorem renderAttr_cons (i : Str) (kv : Key × Str) (l : List (Key × Str)) :
    renderAttr (i, kv :: l) = py!"(" ++ (i ++ (py!":" ++ (renderProp kv ++
      ((l.map (fun kv => py!"," ++ renderProp kv)).flatten ++ py!")")))) := by
  simp [renderAttr, join, intercalate_cons, List.map_map, Function.comp_def, List.append_assoc]

theorem attr_elim {u : Str} (h : Grammar.node_attribute u) :
    ∃ b : Str × List (Key × Str), (Gt0 b.1 ∧ b.2 ≠ [] ∧ ∀ kv ∈ b.2, Gt0 kv.2) ∧ u = renderAttr b := by
  obtain ⟨_, _, rfl, ⟨i, _, hi, ⟨_, _, rfl, ⟨p, _, hp, ⟨w, _, hw, ⟨_, _, rfl, rfl, rfl⟩, rfl⟩, rfl⟩, rfl⟩, rfl⟩,
    rfl⟩ := h
  obtain ⟨kv, hkv, rfl⟩ := property_elim hp
  obtain ⟨l, hl, rfl⟩ := star_elim (fun kv : Key × Str => py!"," ++ renderProp kv) (fun kv => Gt0 kv.2)
    (by
      rintro u ⟨_, q, rfl, hq, rfl⟩
      obtain ⟨kv, h1, rfl⟩ := property_elim hq
      exact ⟨kv, h1, rfl⟩) hw
  refine ⟨(i, kv :: l), ⟨(gt0_iff i).1 hi, by simp, ?_⟩, ?_⟩
  · intro x hx
    rcases List.mem_cons.1 hx with rfl | hx
    · exact hkv
    · exact hl x hx
  · rw [renderAttr_cons]; simp

theorem attr_intro (b : Str × List (Key × Str)) (h1 : Gt0 b.1) (h2 : b.2 ≠ []) (h3 : ∀ kv ∈ b.2, Gt0 kv.2) :
    Grammar.node_attribute (renderAttr b) := by
  obtain ⟨i, kvs⟩ := b
  obtain ⟨kv, l, rfl⟩ := List.exists_cons_of_ne_nil h2
  have hw : Grammar.star (Grammar.cat (Grammar.lit py!",") Grammar.node_property)
      (l.map (fun kv => py!"," ++ renderProp kv)).flatten :=
    star_map_intro _ l (fun x hx => Grammar.cat_intro rfl (property_intro x (h3 x (by simp [hx]))))
  have := Grammar.seq_cons (A := Grammar.lit py!"(") rfl
    (Grammar.seq_cons (A := Grammar.node_index) ((gt0_iff i).2 h1)
      (Grammar.seq_cons (A := Grammar.lit py!":") rfl
        (Grammar.seq_cons (property_intro kv (h3 kv (by simp)))
          (Grammar.seq_cons hw (Grammar.seq_single (A := Grammar.lit py!")") rfl)))))
  rw [renderAttr_cons]
  exact this

/-- the parse direction: every sentence of the character-level grammar is the rendering of a `Gram` tree -/
theorem grammar_parse {s : Str} (h : Grammar.tucan s) : ∃ a : Ast, Gram a ∧ render a = s := by
  obtain ⟨f, _, hf, ⟨_, _, rfl, ⟨t, _, ht, ⟨o, _, ho, rfl, rfl⟩, rfl⟩, rfl⟩, rfl⟩ := h
  obtain ⟨fl, hord, hcnt, rfl⟩ := formula_elim hf
  obtain ⟨ts, hts, rfl⟩ := star_elim renderTuple (fun t => Gt0 t.1 ∧ Gt0 t.2) (fun u => tuple_elim) ht
  rcases ho with rfl | ⟨_, x, rfl, hx, rfl⟩
  · refine ⟨⟨fl, ts, none⟩, ⟨hord, hcnt, hts, by intro bs hbs; cases hbs⟩, ?_⟩
    rw [render_eq]; simp [tuplesStr]
  · obtain ⟨bs, hbs, rfl⟩ := star_elim renderAttr (fun b => Gt0 b.1 ∧ b.2 ≠ [] ∧ ∀ kv ∈ b.2, Gt0 kv.2)
      (fun u => attr_elim) hx
    refine ⟨⟨fl, ts, some bs⟩, ⟨hord, hcnt, hts, by intro bs' h'; cases h'; exact hbs⟩, ?_⟩
    rw [render_eq]; simp [tuplesStr, blocksStr]

/-- the rendering of a `Gram` tree is a sentence of the grammar -/
theorem gram_in_grammar {a : Ast} (h : Gram a) : Grammar.tucan (render a) := by
  have hf := formula_intro h.order h.counts
  have ht : Grammar.tuples (tuplesStr a.tuples) :=
    star_map_intro _ _ (fun t ht => tuple_intro t (h.tuples t ht).1 (h.tuples t ht).2)
  rw [render_eq]
  unfold Grammar.tucan
  cases ha : a.attrs with
  | none =>
    have := Grammar.seq_cons hf (Grammar.seq_cons (A := Grammar.lit py!"/") rfl (Grammar.seq_cons ht
      (Grammar.seq_single (A := Grammar.opt (Grammar.cat (Grammar.lit py!"/") Grammar.node_attributes))
        Grammar.opt_none)))
    simpa using this
  | some bs =>
    have hb : Grammar.node_attributes (blocksStr bs) :=
      star_map_intro _ _ (fun b hb => attr_intro b (h.attrs bs ha b hb).1 (h.attrs bs ha b hb).2.1
        (h.attrs bs ha b hb).2.2)
    have := Grammar.seq_cons hf (Grammar.seq_cons (A := Grammar.lit py!"/") rfl (Grammar.seq_cons ht
      (Grammar.seq_single (A := Grammar.opt (Grammar.cat (Grammar.lit py!"/") Grammar.node_attributes))
        (Grammar.opt_some (Grammar.cat_intro rfl hb)))))
    simpa using this

/-- **Deliverable 1.** A string is a sentence of the published character-level grammar iff it is the rendering
of a syntax tree of grammatical shape. (The reading is unique: `gram_unique`.) -/
theorem grammar_iff_ast (s : Str) : Grammar.tucan s ↔ ∃ a : Ast, Gram a ∧ render a = s :=
  ⟨grammar_parse, fun ⟨a, ha, e⟩ => e ▸ gram_in_grammar ha⟩


/-! ### uniqueness of the reading -/

/-- what `RoundTrip.render_inj` really uses of `Ast.Wf`: the character classes of the pieces -/
structure Shape (a : Ast) : Prop where
  elem : ∀ p ∈ a.formula, ElemOK p
  tup : ∀ t ∈ a.tuples, TupOK t
  block : ∀ bs, a.attrs = some bs → ∀ b ∈ bs, BlockOK b

theorem Shape.of_wf {a : Ast} (h : a.Wf) : Shape a := ⟨wf_elemOK h, wf_tupOK h, fun _ hbs => wf_blockOK h hbs⟩

/-- `RoundTrip.render_inj` with the hypotheses it uses (same proof) -/
theorem render_inj_shape {a b : Ast} (ha : Shape a) (hb : Shape b) (e : render a = render b) : a = b := by
  rw [render_eq, render_eq] at e
  have hs : ∀ (R : Str) c, ('/' :: R).head? = some c → notSlash c = false := by
    intro R c hc; simp at hc; subst hc; decide
  have hn : ∀ c, ([] : Str).head? = some c → notSlash c = false := by intro c hc; simp at hc
  obtain ⟨e1, e2⟩ := span_unique notSlash _ _ _ _ (notSlash_formulaStr _ ha.elem)
    (notSlash_formulaStr _ hb.elem) (hs _) (hs _) e
  have e3 := (List.cons.inj e2).2
  have f1 : a.formula = b.formula := formulaStr_inj _ _ ha.elem hb.elem e1
  have nt := notSlash_tuplesStr _ ha.tup
  have nt' := notSlash_tuplesStr _ hb.tup
  have key : a.tuples = b.tuples ∧ a.attrs = b.attrs := by
    cases haa : a.attrs with
    | none =>
      cases hab : b.attrs with
      | none =>
        rw [haa, hab] at e3
        simp only [List.append_nil] at e3
        exact ⟨tuplesStr_inj _ _ ha.tup hb.tup e3, rfl⟩
      | some bs' =>
        rw [haa, hab] at e3
        obtain ⟨_, e4⟩ := span_unique notSlash _ _ _ _ nt nt' hn (hs _) e3
        cases e4
    | some bs =>
      cases hab : b.attrs with
      | none =>
        rw [haa, hab] at e3
        obtain ⟨_, e4⟩ := span_unique notSlash _ _ _ _ nt nt' (hs _) hn e3
        cases e4
      | some bs' =>
        rw [haa, hab] at e3
        obtain ⟨e4, e5⟩ := span_unique notSlash _ _ _ _ nt nt' (hs _) (hs _) e3
        have e6 := (List.cons.inj e5).2
        rw [blocksStr_inj _ _ (ha.block bs haa) (hb.block bs' hab) e6]
        exact ⟨tuplesStr_inj _ _ ha.tup hb.tup e4, rfl⟩
  obtain ⟨fa, ta, aa⟩ := a
  obtain ⟨fb, tb, ab⟩ := b
  simp only at f1 key
  rw [f1, key.1, key.2]

set_option maxRecDepth 100000 in
theorem withoutCarbon_table : Grammar.withoutCarbonSyms.all (fun s => decide (s ∈ periodicTable)) = true := by
  decide

set_option maxRecDepth 100000 in
theorem withCarbon_table : Grammar.withCarbonOptSyms.all (fun s => decide (s ∈ periodicTable)) = true := by
  decide

/-- the symbols of a formula in grammar order are element symbols -/
theorem FormulaOrder.mem_table {f : List (Str × Option Str)} (ho : FormulaOrder f) :
    ∀ p ∈ f, p.1 ∈ periodicTable := by
  intro p hp
  rcases ho with ⟨c, r, rfl, hs⟩ | hs
  · rcases List.mem_cons.1 hp with rfl | hp
    · show py!"C" ∈ periodicTable
      decide
    · have := hs.subset (List.mem_map_of_mem (f := Prod.fst) hp)
      simpa using List.all_eq_true.1 withCarbon_table _ this
  · have := hs.subset (List.mem_map_of_mem (f := Prod.fst) hp)
    simpa using List.all_eq_true.1 withoutCarbon_table _ this

theorem Shape.of_gram {a : Ast} (h : Gram a) : Shape a where
  elem := fun p hp => ⟨h.order.mem_table p hp, fun ds hds =>
    ⟨(h.counts p hp ds hds).1.ne_nil, (h.counts p hp ds hds).1.digits⟩⟩
  tup := fun t ht => ⟨(h.tuples t ht).1.digits, (h.tuples t ht).2.digits⟩
  block := fun bs hbs b hb => ⟨(h.attrs bs hbs b hb).1.digits, fun kv hkv => ((h.attrs bs hbs b hb).2.2 kv hkv).digits⟩

/-- **a sentence has exactly one reading** -/
theorem gram_unique {a b : Ast} (ha : Gram a) (hb : Gram b) (e : render a = render b) : a = b :=
  render_inj_shape (Shape.of_gram ha) (Shape.of_gram hb) e

/-! ### `Ast.Wf` versus the grammar -/

/-- a grammatical syntax tree without over-long numerals satisfies the hypothesis `Ast.Wf` of the tree-walk
theorems -/
theorem wf_of_gram {a : Ast} (h : Gram a) (hs : Small a) : a.Wf where
  syms := fun p hp => keys_eq_table ▸ h.order.mem_table p hp
  counts := fun p hp ds hds => ⟨(h.counts p hp ds hds).1.numWf (hs.counts p hp ds hds), (h.counts p hp ds hds).two_le⟩
  tuples := fun t ht => ⟨(h.tuples t ht).1.numWf (hs.tuples t ht).1, (h.tuples t ht).2.numWf (hs.tuples t ht).2⟩
  attrs := fun bs hbs b hb => ⟨(h.attrs bs hbs b hb).1.numWf (hs.attrs bs hbs b hb).1,
    fun kv hkv => ((h.attrs bs hbs b hb).2.2 kv hkv).numWf ((hs.attrs bs hbs b hb).2 kv hkv)⟩

theorem small_of_wf {a : Ast} (h : a.Wf) : Small a where
  counts := fun p hp ds hds => (h.counts p hp ds hds).1.2.2.2
  tuples := fun t ht => ⟨(h.tuples t ht).1.2.2.2, (h.tuples t ht).2.2.2.2⟩
  attrs := fun bs hbs b hb => ⟨(h.attrs bs hbs b hb).1.2.2.2, fun kv hkv => ((h.attrs bs hbs b hb).2 kv hkv).2.2.2⟩

theorem gram_of_wf {a : Ast} (h : a.Wf) (hg : Grammar.tucan (render a)) : Gram a := by
  obtain ⟨b, hb, e⟩ := grammar_parse hg
  rw [← render_inj_shape (Shape.of_gram hb) (Shape.of_wf h) e]
  exact hb

/-- the hypothesis pair of assumption V4 (`a.Wf`, `render a` in the grammar) is exactly: grammatical shape and
no numeral of more than 4300 digits -/
theorem wf_grammar_iff (a : Ast) : (a.Wf ∧ Grammar.tucan (render a)) ↔ (Gram a ∧ Small a) :=
  ⟨fun h => ⟨gram_of_wf h.1 h.2, small_of_wf h.1⟩, fun h => ⟨wf_of_gram h.1 h.2, gram_in_grammar h.1⟩⟩

/-! ## 2. the recogniser assumption, two-sided -/

/-- **Assumption V4full** about the ANTLR runtime + generated recogniser `antlr : Str → Option PTree`
(`none`: an error listener fired, which in parser.py raises `TucanParserException`):
* `pos` (this is `RoundTrip.V4`): a sentence of the grammar that is the rendering of a well-formed syntax tree
  is parsed into the tree `treeOf` of that syntax;
* `neg`: a string that is not a sentence of the grammar is reported as a syntax error.
Nothing is assumed about grammatical sentences with a numeral of more than 4300 digits. -/
structure V4full (antlr : Str → Option PTree) : Prop where
  pos : ∀ a : Ast, a.Wf → Grammar.tucan (render a) → antlr (render a) = some (treeOf a)
  neg : ∀ s : Str, ¬ Grammar.tucan s → antlr s = none

theorem V4full.toV4 {antlr : Str → Option PTree} (h : V4full antlr) : V4 antlr := h.pos

open Classical in
/-- the reference recogniser: the tree of the unique grammatical reading -/
noncomputable def refAntlrFull (s : Str) : Option PTree :=
  if h : ∃ a : Ast, Gram a ∧ render a = s then some (treeOf (Classical.choose h)) else none

theorem refAntlrFull_render {a : Ast} (ha : Gram a) : refAntlrFull (render a) = some (treeOf a) := by
  have h : ∃ b : Ast, Gram b ∧ render b = render a := ⟨a, ha, rfl⟩
  unfold refAntlrFull
  rw [dif_pos h]
  have := Classical.choose_spec h
  rw [gram_unique this.1 ha this.2]

/-- **V4full is satisfiable** -/
theorem refAntlrFull_spec : V4full refAntlrFull where
  pos := fun a ha hg => refAntlrFull_render (gram_of_wf ha hg)
  neg := fun s hs => by
    unfold refAntlrFull
    rw [dif_neg]
    exact fun h => hs ((grammar_iff_ast s).2 h)

theorem V4full_satisfiable : ∃ antlr, V4full antlr := ⟨refAntlrFull, refAntlrFull_spec⟩

/-! ## 3. C10 -/

/-- side condition (exact): if `s` is a sentence, its numerals have at most 4300 digits. Vacuous for
ungrammatical strings. -/
def SmallNumbers (s : Str) : Prop := ∀ a : Ast, Gram a → render a = s → Small a

/-- the three semantic reasons for rejection -/
def Bad (a : Ast) : Prop := a.BadIndex ∨ a.SelfBond ∨ a.DupAttr

/-- the molecule a good syntax tree denotes (the `.ok` branch of `Parser.denote`): atoms = the formula
expanded and stably sorted by atomic number (`sortedSyms`), atom `i` (0-based) carrying the mass / rad set for
index `i+1`; bonds = the listed tuples, 0-based -/
def molOf (a : Ast) : AbstractMol :=
  { atoms := (sortedSyms a).zipIdx.map (fun si =>
      { symbol := si.1, z := atomicNumber si.1,
        mass := (assoc a.settings (si.2 + 1, Key.mass)).map Int.ofNat,
        rad := (assoc a.settings (si.2 + 1, Key.rad)).map Int.ofNat })
    bonds := a.bonds1.map (fun b => (b.1 - 1, b.2 - 1)) }

instance (a : Ast) : Decidable (Bad a) := by unfold Bad; infer_instance

theorem denote_eq (a : Ast) : denote a = if Bad a then Except.error TPE else Except.ok (molOf a) := by
  unfold denote Bad molOf
  rfl

/-! what `molOf a` says about the atoms: they are the atoms of the formula (`expand`: every symbol as often as
its count says), numbered by increasing atomic number -/

theorem sortedSyms_perm (a : Ast) : (sortedSyms a).Perm (expand a.formula) := by
  rw [sortedSyms_eq]; exact List.mergeSort_perm _ _

theorem sortedSyms_sorted (a : Ast) : (sortedSyms a).Pairwise (fun x y => atomicNumber x ≤ atomicNumber y) := by
  rw [sortedSyms_eq]
  have := List.pairwise_mergeSort byZ_trans byZ_total (expand a.formula)
  exact this.imp (by intro x y h; simpa [byZ] using h)

theorem molOf_symbols (a : Ast) : (molOf a).atoms.map Atom.symbol = sortedSyms a := by
  simp [molOf, List.map_map, Function.comp_def]

theorem molOf_z (a : Ast) : ∀ x ∈ (molOf a).atoms, x.z = atomicNumber x.symbol := by
  intro x hx
  simp only [molOf, List.mem_map] at hx
  obtain ⟨si, _, rfl⟩ := hx
  rfl


variable {antlr : Str → Option PTree}

/-- on a sentence without over-long numerals the model of `graph_from_tucan` is the tree walk over `treeOf a` -/
theorem run_eq (hV : V4full antlr) (env : DepEnv) {a : Ast} (hg : Gram a) (hs : Small a) :
    graphFromTucan antlr env (render a) = Tucan.parser.graph_from_tree env (treeOf a) := by
  unfold graphFromTucan
  rw [hV.pos a (wf_of_gram hg hs) (gram_in_grammar hg)]

/-- **C10, acceptance.** A sentence whose (unique) reading `a` has valid indices, no self-bond and no attribute
set twice is accepted, and the returned graph represents `molOf a`. -/
theorem C10_accept (hV : V4full antlr) (env : DepEnv) {s : Str} (hsm : SmallNumbers s) {a : Ast} (hg : Gram a)
    (hr : render a = s) (hok : ¬ Bad a) :
    ∃ g, graphFromTucan antlr env s = .ok g ∧ Represents g (molOf a) := by
  subst hr
  have := graph_from_tree_ok env a (wf_of_gram hg (hsm a hg rfl))
  rw [denote_eq, if_neg hok] at this
  rw [run_eq hV env hg (hsm a hg rfl)]
  exact this

/-- a sentence whose reading is bad is rejected with `TucanParserException` -/
theorem C10_reject_bad (hV : V4full antlr) (env : DepEnv) {s : Str} (hsm : SmallNumbers s) {a : Ast} (hg : Gram a)
    (hr : render a = s) (hbad : Bad a) : graphFromTucan antlr env s = .error TPE := by
  subst hr
  rw [run_eq hV env hg (hsm a hg rfl)]
  exact graph_from_tree_rejects env a (wf_of_gram hg (hsm a hg rfl)) hbad

/-- a string that is not a sentence is rejected with `TucanParserException` -/
theorem C10_reject_syntax (hV : V4full antlr) (env : DepEnv) {s : Str} (h : ¬ Grammar.tucan s) :
    graphFromTucan antlr env s = .error TPE := by
  unfold graphFromTucan
  rw [hV.neg s h]

/-- **C10, the decision** (∃-form): `s` is accepted iff it is the rendering of a grammatical syntax tree with
valid indices, no self-bond and no attribute set twice on one atom. -/
theorem C10_iff_exists (hV : V4full antlr) (env : DepEnv) (s : Str) (hsm : SmallNumbers s) :
    (∃ g, graphFromTucan antlr env s = .ok g) ↔ ∃ a : Ast, Gram a ∧ render a = s ∧ ¬ Bad a := by
  constructor
  · rintro ⟨g, hg⟩
    by_cases hgr : Grammar.tucan s
    · obtain ⟨a, ha, hr⟩ := grammar_parse hgr
      refine ⟨a, ha, hr, fun hbad => ?_⟩
      rw [C10_reject_bad hV env hsm ha hr hbad] at hg
      cases hg
    · rw [C10_reject_syntax hV env hgr] at hg
      cases hg
  · rintro ⟨a, ha, hr, hok⟩
    obtain ⟨g, hg, _⟩ := C10_accept hV env hsm ha hr hok
    exact ⟨g, hg⟩

/-- **C10, the decision**: `s` is accepted iff it is a sentence of the published grammar and its unique reading
has valid indices, no self-bond and no attribute set twice on one atom. -/
theorem C10_iff (hV : V4full antlr) (env : DepEnv) (s : Str) (hsm : SmallNumbers s) :
    (∃ g, graphFromTucan antlr env s = .ok g) ↔
      (Grammar.tucan s ∧ ∀ a : Ast, Gram a → render a = s → ¬ Bad a) := by
  rw [C10_iff_exists hV env s hsm]
  constructor
  · rintro ⟨a, ha, hr, hok⟩
    refine ⟨(grammar_iff_ast s).2 ⟨a, ha, hr⟩, fun b hb hrb => ?_⟩
    rw [gram_unique hb ha (hrb.trans hr.symm)]
    exact hok
  · rintro ⟨hgr, hall⟩
    obtain ⟨a, ha, hr⟩ := grammar_parse hgr
    exact ⟨a, ha, hr, hall a ha hr⟩

/-- **C10, rejection.** Every string that is not accepted is rejected with the parser's own exception
`TucanParserException`, never with another error. -/
theorem C10_reject (hV : V4full antlr) (env : DepEnv) (s : Str) (hsm : SmallNumbers s)
    (h : ¬ ∃ a : Ast, Gram a ∧ render a = s ∧ ¬ Bad a) : graphFromTucan antlr env s = .error TPE := by
  by_cases hgr : Grammar.tucan s
  · obtain ⟨a, ha, hr⟩ := grammar_parse hgr
    have hbad : Bad a := by
      by_contra hok
      exact h ⟨a, ha, hr, hok⟩
    exact C10_reject_bad hV env hsm ha hr hbad
  · exact C10_reject_syntax hV env hgr

/-- **C10 in one statement**: the outcome of `graph_from_tucan` on any string (without over-long numerals) is
either a graph representing the molecule of its grammatical, good reading, or `TucanParserException`. -/
theorem C10_total (hV : V4full antlr) (env : DepEnv) (s : Str) (hsm : SmallNumbers s) :
    (∃ a g, Gram a ∧ render a = s ∧ ¬ Bad a ∧ graphFromTucan antlr env s = .ok g ∧ Represents g (molOf a)) ∨
    ((¬ ∃ a : Ast, Gram a ∧ render a = s ∧ ¬ Bad a) ∧ graphFromTucan antlr env s = .error TPE) := by
  by_cases h : ∃ a : Ast, Gram a ∧ render a = s ∧ ¬ Bad a
  · obtain ⟨a, ha, hr, hok⟩ := h
    obtain ⟨g, hg, hrep⟩ := C10_accept hV env hsm ha hr hok
    exact Or.inl ⟨a, g, ha, hr, hok, hg, hrep⟩
  · exact Or.inr ⟨h, C10_reject hV env s hsm h⟩

/-- never an unrelated error -/
theorem C10_error_is_TPE (hV : V4full antlr) (env : DepEnv) (s : Str) (hsm : SmallNumbers s) (e : Err)
    (he : graphFromTucan antlr env s = .error e) : e = TPE := by
  rcases C10_total hV env s hsm with ⟨a, g, _, _, _, hg, _⟩ | ⟨_, h⟩
  · rw [hg] at he; cases he
  · rw [h] at he; cases he; rfl


/-! ### the side condition -/

theorem smallNumbers_render {a : Ast} (hg : Gram a) (hs : Small a) : SmallNumbers (render a) := by
  intro b hb e
  rw [gram_unique hb hg e]; exact hs

theorem smallNumbers_of_not_grammar {s : Str} (h : ¬ Grammar.tucan s) : SmallNumbers s :=
  fun a ha e => absurd ((grammar_iff_ast s).2 ⟨a, ha, e⟩) h

/-- the side condition cannot be dropped from `grammar ↔ ∃ well-formed reading`: `SmallNumbers s` is exactly
"if `s` is a sentence, it is the rendering of an `Ast.Wf` tree" -/
theorem smallNumbers_iff (s : Str) : SmallNumbers s ↔ (Grammar.tucan s → ∃ a : Ast, a.Wf ∧ render a = s) := by
  constructor
  · intro h hg
    obtain ⟨a, ha, e⟩ := grammar_parse hg
    exact ⟨a, wf_of_gram ha (h a ha e), e⟩
  · intro h a ha e
    obtain ⟨b, hb, eb⟩ := h ((grammar_iff_ast s).2 ⟨a, ha, e⟩)
    have : b = a := render_inj_shape (Shape.of_wf hb) (Shape.of_gram ha) (eb.trans e.symm)
    exact this ▸ small_of_wf hb

theorem mem_intercalate (sep : Str) (l : List Str) (x : Str) (h : x ∈ l) : x <:+: sep.intercalate l := by
  cases l with
  | nil => simp at h
  | cons y r =>
    rw [intercalate_cons]
    rcases List.mem_cons.1 h with rfl | h
    · exact List.infix_append' [] _ _
    · have h1 : (sep ++ x) ∈ r.map (fun y => sep ++ y) := List.mem_map_of_mem h
      have h2 := List.infix_of_mem_flatten h1
      exact ((List.infix_append' sep x []).trans (by simpa using h2)).trans (List.infix_append' y _ [] |>.trans (by simp))

/-- string-level form of the side condition: no run of more than 4300 consecutive digits -/
def ShortRuns (s : Str) : Prop :=
  ∀ ds : Str, ds <:+: s → (∀ c ∈ ds, isAsciiDigit c = true) → ds.length ≤ intMaxStrDigits

theorem infix_formula {f : List (Str × Option Str)} {p : Str × Option Str} (hp : p ∈ f) {ds : Str}
    (hds : p.2 = some ds) : ds <:+: formulaStr f := by
  have h1 : renderSym p ∈ f.map renderSym := List.mem_map_of_mem hp
  have h2 : ds <:+: renderSym p := by
    unfold renderSym; rw [hds]; exact (List.suffix_append _ _).isInfix
  exact h2.trans (List.infix_of_mem_flatten h1)

theorem infix_tuples {ts : List (Str × Str)} {t : Str × Str} (ht : t ∈ ts) :
    t.1 <:+: tuplesStr ts ∧ t.2 <:+: tuplesStr ts := by
  have h1 : renderTuple t ∈ ts.map renderTuple := List.mem_map_of_mem ht
  have h0 := List.infix_of_mem_flatten h1
  constructor
  · exact List.IsInfix.trans ⟨py!"(", py!"-" ++ t.2 ++ py!")", by simp [renderTuple]⟩ h0
  · exact List.IsInfix.trans ⟨py!"(" ++ t.1 ++ py!"-", py!")", by simp [renderTuple]⟩ h0

theorem infix_blocks {bs : List (Str × List (Key × Str))} {b : Str × List (Key × Str)} (hb : b ∈ bs) :
    b.1 <:+: blocksStr bs ∧ ∀ kv ∈ b.2, kv.2 <:+: blocksStr bs := by
  have h1 : renderAttr b ∈ bs.map renderAttr := List.mem_map_of_mem hb
  have h0 := List.infix_of_mem_flatten h1
  constructor
  · exact List.IsInfix.trans ⟨py!"(", py!":" ++ join py!"," (b.2.map renderProp) ++ py!")", by simp [renderAttr]⟩ h0
  · intro kv hkv
    have h2 : kv.2 <:+: renderProp kv := by
      unfold renderProp; exact (List.suffix_append _ _).isInfix
    have h3 : renderProp kv <:+: join py!"," (b.2.map renderProp) :=
      mem_intercalate _ _ _ (List.mem_map_of_mem hkv)
    have h4 : join py!"," (b.2.map renderProp) <:+: renderAttr b :=
      ⟨py!"(" ++ b.1 ++ py!":", py!")", by simp [renderAttr]⟩
    exact ((h2.trans h3).trans h4).trans h0

/-- a string without a run of more than 4300 digits satisfies the side condition -/
theorem smallNumbers_of_shortRuns {s : Str} (h : ShortRuns s) : SmallNumbers s := by
  intro a ha e
  subst e
  have hf : formulaStr a.formula <:+: render a := by
    rw [render_eq]; exact (List.prefix_append _ _).isInfix
  have ht : tuplesStr a.tuples <:+: render a := by
    rw [render_eq]
    exact (List.prefix_append _ _).isInfix.trans
      ((List.suffix_cons '/' _).isInfix.trans (List.suffix_append _ _).isInfix)
  have hb : ∀ bs, a.attrs = some bs → blocksStr bs <:+: render a := by
    intro bs hbs
    rw [render_eq, hbs]
    exact ⟨formulaStr a.formula ++ py!"/" ++ tuplesStr a.tuples ++ py!"/", [], by simp⟩
  refine ⟨?_, ?_, ?_⟩
  · intro p hp ds hds
    exact h ds ((infix_formula hp hds).trans hf) (ha.counts p hp ds hds).1.digits
  · intro t ht'
    exact ⟨h _ ((infix_tuples ht').1.trans ht) (ha.tuples t ht').1.digits,
      h _ ((infix_tuples ht').2.trans ht) (ha.tuples t ht').2.digits⟩
  · intro bs hbs b hb'
    refine ⟨h _ ((infix_blocks hb').1.trans (hb bs hbs)) (ha.attrs bs hbs b hb').1.digits, ?_⟩
    intro kv hkv
    exact h _ (((infix_blocks hb').2 kv hkv).trans (hb bs hbs)) ((ha.attrs bs hbs b hb').2.2 kv hkv).digits

/-- `C10_total` under the string-level side condition -/
theorem C10_total_shortRuns {antlr : Str → Option PTree} (hV : V4full antlr) (env : DepEnv) (s : Str)
    (hsr : ShortRuns s) :
    (∃ a g, Gram a ∧ render a = s ∧ ¬ Bad a ∧ graphFromTucan antlr env s = .ok g ∧ Represents g (molOf a)) ∨
    ((¬ ∃ a : Ast, Gram a ∧ render a = s ∧ ¬ Bad a) ∧ graphFromTucan antlr env s = .error TPE) :=
  C10_total hV env s (smallNumbers_of_shortRuns hsr)

/-! ## 4. witnesses -/

def gt0b : Str → Bool
  | [] => false
  | d :: r => decide (d ∈ Grammar.d19) && r.all (fun c => decide (c ∈ Grammar.d09))

theorem gt0_iff_b (ds : Str) : Gt0 ds ↔ gt0b ds = true := by
  cases ds with
  | nil => simp [Gt0, gt0b]
  | cons d r =>
    simp only [Gt0, gt0b, Bool.and_eq_true, decide_eq_true_eq, List.all_eq_true]
    constructor
    · rintro ⟨d', r', e, h1, h2⟩
      cases e; exact ⟨h1, h2⟩
    · rintro ⟨h1, h2⟩
      exact ⟨d, r, rfl, h1, h2⟩

instance (ds : Str) : Decidable (Gt0 ds) := decidable_of_iff _ (gt0_iff_b ds).symm
instance (ds : Str) : Decidable (Gt1 ds) := by unfold Gt1; infer_instance

/-- `H2O/(1-3)(2-3)/(1:mass=2)(3:rad=2)` -/
def sWater : Str := py!"H2O/(1-3)(2-3)/(1:mass=2)(3:rad=2)"
/-- `C2/(1-1)` -/
def sSelf : Str := py!"C2/(1-1)"
/-- `OH2/`: the symbols are not in the order of the grammar -/
def sOrder : Str := py!"OH2/"
/-- `H2O`: no `/` -/
def sNoSlash : Str := py!"H2O"

theorem render_water : render water = sWater := by decide

set_option maxRecDepth 100000 in
theorem water_gram : Gram water where
  order := Or.inr (by decide)
  counts := by
    intro p hp ds hds
    simp only [water, List.mem_cons, List.not_mem_nil, or_false] at hp
    rcases hp with rfl | rfl
    · cases hds; decide
    · cases hds
  tuples := by
    intro t ht
    simp only [water, List.mem_cons, List.not_mem_nil, or_false] at ht
    rcases ht with rfl | rfl <;> decide
  attrs := by
    intro bs hbs b hb
    cases hbs
    simp only [List.mem_cons, List.not_mem_nil, or_false] at hb
    rcases hb with rfl | rfl
    · refine ⟨by decide, by simp, ?_⟩
      intro kv hkv; simp only [List.mem_cons, List.not_mem_nil, or_false] at hkv; subst hkv; decide
    · refine ⟨by decide, by simp, ?_⟩
      intro kv hkv; simp only [List.mem_cons, List.not_mem_nil, or_false] at hkv; subst hkv; decide

theorem water_mol : molOf water =
    { atoms := [⟨py!"H", 1, some 2, none⟩, ⟨py!"H", 1, none, none⟩, ⟨py!"O", 8, none, some 2⟩],
      bonds := [(0, 2), (1, 2)] } := by
  unfold molOf
  rw [water_sorted]
  decide

/-- the syntax tree of `C2/(1-1)` -/
def selfAst : Ast := { formula := [(py!"C", some py!"2")], tuples := [(py!"1", py!"1")], attrs := none }

theorem render_self : render selfAst = sSelf := by decide

theorem self_gram : Gram selfAst where
  order := Or.inl ⟨some py!"2", [], rfl, by simp⟩
  counts := by
    intro p hp ds hds
    simp only [selfAst, List.mem_cons, List.not_mem_nil, or_false] at hp
    subst hp; cases hds; decide
  tuples := by
    intro t ht
    simp only [selfAst, List.mem_cons, List.not_mem_nil, or_false] at ht
    subst ht; decide
  attrs := by intro bs hbs; cases hbs

theorem self_small : Small selfAst where
  counts := by
    intro p hp ds hds
    simp only [selfAst, List.mem_cons, List.not_mem_nil, or_false] at hp
    subst hp; cases hds; simp [intMaxStrDigits]
  tuples := by
    intro t ht
    simp only [selfAst, List.mem_cons, List.not_mem_nil, or_false] at ht
    subst ht; simp [intMaxStrDigits]
  attrs := by intro bs hbs; cases hbs

theorem self_bad : Bad selfAst := Or.inr (Or.inl (by decide))

/-- the (only) reading of `OH2/`: well formed in the sense of `Ast.Wf`, but not grammatical -/
def orderAst : Ast := { formula := [(py!"O", none), (py!"H", some py!"2")], tuples := [], attrs := none }

theorem render_order : render orderAst = sOrder := by decide

theorem order_wf : orderAst.Wf where
  syms := by rw [keys_eq_table]; decide
  counts := by
    intro p hp ds hds
    simp only [orderAst, List.mem_cons, List.not_mem_nil, or_false] at hp
    rcases hp with rfl | rfl
    · cases hds
    · cases hds; exact ⟨numWf_of_decide _ (by decide), by decide⟩
  tuples := by intro t ht; simp [orderAst] at ht
  attrs := by intro bs hbs; cases hbs

set_option maxRecDepth 100000 in
theorem order_not_grammar : ¬ Grammar.tucan sOrder := by
  intro h
  rw [← render_order] at h
  rcases (gram_of_wf order_wf h).order with ⟨c, r, e, _⟩ | hs
  · simp [orderAst] at e
  · revert hs
    simp only [orderAst, List.map_cons, List.map_nil]
    decide

/-- a sentence contains `/` -/
theorem slash_mem_of_grammar {s : Str} (h : Grammar.tucan s) : '/' ∈ s := by
  obtain ⟨a, _, rfl⟩ := grammar_parse h
  rw [render_eq]; simp

theorem noSlash_not_grammar : ¬ Grammar.tucan sNoSlash := fun h => by
  have := slash_mem_of_grammar h
  revert this; decide

/-- **Witness of C10** with a recogniser obtained from `V4full_satisfiable`:
* `H2O/(1-3)(2-3)/(1:mass=2)(3:rad=2)` is a sentence and is accepted, with the graph of heavy water radical:
  atoms 0,1 = H, atom 2 = O, bonds {0,2}, {1,2}, mass 2 on atom 0, rad 2 on atom 2;
* `C2/(1-1)` is a sentence and is rejected (self-bond) with `TucanParserException`;
* `OH2/` and `H2O` are not sentences and are rejected with `TucanParserException`;
and `C10_iff` applies to all four strings. -/
theorem C10_witness : ∃ antlr, V4full antlr ∧ ∀ env : DepEnv,
    (Grammar.tucan sWater ∧ SmallNumbers sWater ∧
      ∃ g, graphFromTucan antlr env sWater = .ok g ∧ Represents g
        { atoms := [⟨py!"H", 1, some 2, none⟩, ⟨py!"H", 1, none, none⟩, ⟨py!"O", 8, none, some 2⟩],
          bonds := [(0, 2), (1, 2)] }) ∧
    (Grammar.tucan sSelf ∧ SmallNumbers sSelf ∧ graphFromTucan antlr env sSelf = .error TPE ∧
      ¬ ∃ g, graphFromTucan antlr env sSelf = .ok g) ∧
    (¬ Grammar.tucan sOrder ∧ SmallNumbers sOrder ∧ graphFromTucan antlr env sOrder = .error TPE ∧
      ¬ ∃ g, graphFromTucan antlr env sOrder = .ok g) ∧
    (¬ Grammar.tucan sNoSlash ∧ SmallNumbers sNoSlash ∧ graphFromTucan antlr env sNoSlash = .error TPE ∧
      ¬ ∃ g, graphFromTucan antlr env sNoSlash = .ok g) := by
  obtain ⟨antlr, hV⟩ := V4full_satisfiable
  refine ⟨antlr, hV, fun env => ⟨?_, ?_, ?_, ?_⟩⟩
  · have hsm : SmallNumbers sWater := render_water ▸ smallNumbers_render water_gram (small_of_wf water_wf)
    refine ⟨render_water ▸ gram_in_grammar water_gram, hsm, ?_⟩
    have := C10_accept hV env hsm water_gram render_water water_ok
    rwa [water_mol] at this
  · have hsm : SmallNumbers sSelf := render_self ▸ smallNumbers_render self_gram self_small
    refine ⟨render_self ▸ gram_in_grammar self_gram, hsm, C10_reject_bad hV env hsm self_gram render_self self_bad, ?_⟩
    rw [C10_iff_exists hV env sSelf hsm]
    rintro ⟨a, ha, hr, hok⟩
    rw [gram_unique ha self_gram (hr.trans render_self.symm)] at hok
    exact hok self_bad
  · have hsm := smallNumbers_of_not_grammar order_not_grammar
    refine ⟨order_not_grammar, hsm, C10_reject_syntax hV env order_not_grammar, ?_⟩
    rw [C10_iff hV env sOrder hsm]
    exact fun h => order_not_grammar h.1
  · have hsm := smallNumbers_of_not_grammar noSlash_not_grammar
    refine ⟨noSlash_not_grammar, hsm, C10_reject_syntax hV env noSlash_not_grammar, ?_⟩
    rw [C10_iff hV env sNoSlash hsm]
    exact fun h => noSlash_not_grammar h.1

/-! ### the two reasons why `Ast.Wf` cannot replace `Gram` in `grammar_iff_ast` -/

/-- `Ast.Wf` is weaker than the grammar: `OH2/` is the rendering of a well-formed tree and not a sentence -/
theorem wf_not_grammar : ∃ a : Ast, a.Wf ∧ ¬ Grammar.tucan (render a) :=
  ⟨orderAst, order_wf, render_order ▸ order_not_grammar⟩

/-- a numeral of 4301 digits: `1000…0` -/
def bigNum : Str := '1' :: List.replicate 4300 '0'
/-- `H/` + `/(1:mass=1000…0)` -/
def bigAst : Ast := { formula := [(py!"H", none)], tuples := [], attrs := some [(py!"1", [(Key.mass, bigNum)])] }

theorem bigNum_gt0 : Gt0 bigNum :=
  ⟨'1', List.replicate 4300 '0', rfl, by decide, fun c hc => by rw [List.eq_of_mem_replicate hc]; decide⟩

set_option maxRecDepth 100000 in
theorem big_gram : Gram bigAst where
  order := Or.inr (by decide)
  counts := by
    intro p hp ds hds
    simp only [bigAst, List.mem_cons, List.not_mem_nil, or_false] at hp
    subst hp; cases hds
  tuples := by intro t ht; simp [bigAst] at ht
  attrs := by
    intro bs hbs b hb
    cases hbs
    simp only [List.mem_cons, List.not_mem_nil, or_false] at hb
    subst hb
    refine ⟨by decide, by simp, ?_⟩
    intro kv hkv; simp only [List.mem_cons, List.not_mem_nil, or_false] at hkv; subst hkv
    exact bigNum_gt0

theorem big_not_small : ¬ Small bigAst := by
  intro h
  have h1 : bigNum.length ≤ intMaxStrDigits :=
    (h.attrs [(py!"1", [(Key.mass, bigNum)])] rfl (py!"1", [(Key.mass, bigNum)]) (List.mem_singleton.2 rfl)).2
      (Key.mass, bigNum) (List.mem_singleton.2 rfl)
  have hl : bigNum.length = 4301 := by
    unfold bigNum
    rw [List.length_cons, List.length_replicate]
  rw [hl] at h1
  unfold intMaxStrDigits at h1
  omega

/-- the grammar is weaker than `Ast.Wf` on numerals: the sentence `H//(1:mass=1000…0)` (4301 digits) has valid
indices, no self-bond and no duplicate attribute, but is not the rendering of any `Ast.Wf` tree, and
`SmallNumbers` fails for it. (Known finding for C10: `_to_int` turns Python's `ValueError` for more than 4300
digits into `TucanParserException` — `Parser.int_total` — so the code rejects this sentence.) -/
theorem grammar_not_wf : Grammar.tucan (render bigAst) ∧ ¬ SmallNumbers (render bigAst) ∧
    ¬ ∃ a : Ast, a.Wf ∧ render a = render bigAst := by
  have h1 := gram_in_grammar big_gram
  have h2 : ¬ SmallNumbers (render bigAst) := fun h => big_not_small (h bigAst big_gram rfl)
  exact ⟨h1, h2, fun h => h2 ((smallNumbers_iff _).2 (fun _ => h))⟩

end Contracts.C10Full

#print axioms Contracts.C10Full.grammar_iff_ast
#print axioms Contracts.C10Full.gram_unique
#print axioms Contracts.C10Full.wf_grammar_iff
#print axioms Contracts.C10Full.V4full_satisfiable
#print axioms Contracts.C10Full.C10_iff
#print axioms Contracts.C10Full.C10_iff_exists
#print axioms Contracts.C10Full.C10_accept
#print axioms Contracts.C10Full.C10_reject
#print axioms Contracts.C10Full.C10_total
#print axioms Contracts.C10Full.C10_witness
#print axioms Contracts.C10Full.smallNumbers_of_shortRuns
#print axioms Contracts.C10Full.C10_error_is_TPE
#print axioms Contracts.C10Full.wf_not_grammar
#print axioms Contracts.C10Full.grammar_not_wf
