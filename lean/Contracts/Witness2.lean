/-
Contracts.Witness2 — second independent audit (lean/AUDIT2.md): machine-checked instances of the NEW property-level
theorems whose own files only witness *parts* of their hypotheses.

 * `read_v2000_render_witness`     V2000File.read_v2000_render on `exMol` / `exChoice` (the file shown in V2000File §5),
                                   every hypothesis (incl. `Choice.NoBreaks`, `CoordsOK`) discharged, CRLF
 * `read_v2000_eq_v3000_witness`   V2000File.read_v2000_eq_v3000 on a three-atom radical cation `N⁺•(D)(¹⁸O)`:
                                   V3000 rendering of `toCtab` vs a V2000 rendering with stale charge codes,
                                   `M  CHG` / `M  RAD` / `M  ISO` lines and an unrelated line; two `set` orders
 * `C11_renumber_witness`          C11Ext.C11_renumber on water and water with the two hydrogens renumbered
 * `C06_files_witness`, `C01_files_witness`
                                   FileIso.C06_files (`Redrawn`) and FileIso.C01_files (`Relisted`) on deuterium fluoride
                                   (FileIsoWitness only instantiates their common parent `C01_C06_redescribed`)
 * `C13_attrs_witness`, `C09_tucan'_witness`
 * `C05_v2000_rendering`           NOT a witness but the composition the registry claims for C05: every V2000 rendering of a
                                   well-formed non-empty abstract molecule is read as a loop-free graph for which
                                   `Pipeline.C05_pipeline` applies (grammar membership of the emitted string)
 * `C06_v2000_renderings`          NOT a witness but a composition missing from the contract files: two V2000 *files*
                                   (renderings of two abstract molecules with the same identity data up to an atom
                                   bijection) are both read and get one TUCAN string — `FileIso.C01_C06_v2000` says this
                                   only about data the code parsed
No `sorry`, no axioms beyond propext / Classical.choice / Quot.sound (printed at the end).
-/
import Contracts.V2000File
import Contracts.FileIsoWitness
import Contracts.C11Ext
import Contracts.WriterExt
set_option autoImplicit false
open Py Py.Graph Contracts

namespace Contracts.Witness2
open Contracts.Witness (env0 env1 env0_set env1_set env0_bliss env1_cp env1_pv isInt_of_eq noDash_of_check)
open Contracts.Reader (Ctab Dress fileLines IsSep isSep_crlf isSep_lf NoBreak)
open Contracts.FinalLabels (fuelBound)
open Contracts.Pipeline (tucan)

instance (l : Str) : Decidable (NoBreak l) := by unfold NoBreak; infer_instance

/-! ## 1. `V2000File.read_v2000_render` -/

section V2
open Contracts.V2000File
open Contracts.V2000 (Item Kind fieldFloat)

theorem fieldFloat_env0 (s : Str) : ∃ v, fieldFloat env0 s = .ok v := by
  unfold fieldFloat
  split
  · exact ⟨_, rfl⟩
  · exact ⟨_, rfl⟩

theorem coordsOK_env0 (m : AMol) : CoordsOK env0 m := fun _ _ _ _ => fieldFloat_env0 _

theorem exChoice_noBreaks : exChoice.NoBreaks exMol where
  h0 := by decide
  h1 := by decide
  h2 := by decide
  mid := by decide
  atomRest := fun _ => by show NoBreak py!"  0  0  0  0  0  0  0  0  0  0"; decide
  bondRest := fun _ => by show NoBreak py!"  0  0  0  0"; decide
  others := by
    intro s hs
    simp only [exChoice, List.mem_cons, List.not_mem_nil, or_false, reduceCtorEq, Item.other.injEq, false_or] at hs
    rcases hs with rfl | rfl <;> decide
  post := by decide
  coords := by decide

/-- **`V2000File.read_v2000_render`, instance**: the 25-line file of `V2000File` §5 (`exMol`, `exChoice`), CRLF, is
read; the conclusion is restated for two atoms: atom 2 (`N`, stale code 0, `M  CHG` +1, `M  RAD` 2) and atom 3
(`D` with a stale doublet code 4 and an `M  ISO` entry) -/
theorem read_v2000_render_witness :
    ∃ g, Tucan.molfile_reader.graph_from_molfile_text env0 0 (renderV2000 py!"\r\n" exMol exChoice) = .ok g ∧
      g.nodeList = range 8 ∧
      g.attr 1 "chg" = some (Val.int 1) ∧ g.attr 1 "rad" = some (Val.int 2) ∧ g.attr 1 "mass" = none ∧
      g.attr 2 "element_symbol" = some (Val.str py!"H") ∧ g.attr 2 "mass" = some (Val.int 2) ∧
      g.attr 2 "rad" = none ∧ g.attr 0 "chg" = some (Val.int (-1)) ∧
      g.edgeAttrs 6 7 = some (Contracts.V3000.bondAttrs 3) := by
  obtain ⟨g, hg, _, _, hn, hat, _, hty⟩ :=
    read_v2000_render env0 0 py!"\r\n" isSep_crlf exMol exMol_wf exChoice exChoice_ok exChoice_noBreaks
      (coordsOK_env0 exMol)
  have a0 := hat 0 ⟨py!"C", -1, 0, 0, py!"0.0000", py!"0.0000", py!"0.0000"⟩ rfl
  have a1 := hat 1 ⟨py!"N", 1, 2, 0, py!"1.2000", py!"-0.5", py!""⟩ rfl
  have a2 := hat 2 ⟨py!"D", 0, 0, 2, py!"2.0", py!"0", py!"0"⟩ rfl
  have hb : (⟨6, 7, 3⟩ : ABond) ∈ exMol.bonds := by simp [exMol]
  have t := (hty _ hb (by
    intro b' hb' hs
    simp only [exMol, List.mem_cons, List.not_mem_nil, or_false] at hb'
    rcases hb' with rfl | rfl | rfl | rfl | rfl <;> simp [ABond.SamePair] at hs ⊢)).1
  refine ⟨g, hg, hn, ?_, ?_, ?_, ?_, ?_, ?_, ?_, ?_⟩
  · rw [show g.attr 1 "chg" = _ from a1 "chg"]; rfl
  · rw [show g.attr 1 "rad" = _ from a1 "rad"]; rfl
  · rw [show g.attr 1 "mass" = _ from a1 "mass"]; rfl
  · rw [show g.attr 2 "element_symbol" = _ from a2 "element_symbol"]; rfl
  · rw [show g.attr 2 "mass" = _ from a2 "mass"]; rfl
  · rw [show g.attr 2 "rad" = _ from a2 "rad"]; rfl
  · rw [show g.attr 0 "chg" = _ from a0 "chg"]; rfl
  · exact t

/-! ## 2. `V2000File.read_v2000_eq_v3000` -/

/-- `N⁺•` (doublet radical cation), `D`, `¹⁸O`; N=O double bond, N–D single bond -/
def mol3 : AMol := ⟨[
  ⟨py!"N", 1, 2, 0, py!"1.2000", py!"-0.5", py!"0"⟩,
  ⟨py!"D", 0, 0, 2, py!"2.0", py!"0", py!"0"⟩,
  ⟨py!"O", 0, 0, 18, py!"4.0", py!"0", py!"0"⟩],
  [⟨0, 1, 1⟩, ⟨2, 0, 2⟩]⟩

/-- V2000 encoding: stale charge codes (`+3` on N, doublet on D), superseded by `M  RAD` / `M  CHG` lines; ¹⁸O by
`M  ISO`; an unrelated `M  STY` line in between; a line after `M  END` -/
def choice3 : Choice where
  h0 := py!"mol3"
  h1 := py!""
  h2 := py!"comment"
  countsMid := py!"  0  0  0  0  0  0  0999"
  countsTrail := 0
  code := fun i => if i = 0 then 1 else if i = 1 then 4 else 0
  atomRest := fun _ => py!"  0  0  0"
  bondRest := fun _ => py!"  0"
  items := [Item.prop .rad [(1, 2)], Item.other py!"M  STY  1   1 SUP", Item.prop .iso [(3, 18)],
    Item.prop .chg [(1, 1), (3, 0)]]
  post := [py!"$$$$"]

example : v2000Lines mol3 choice3 = [
    py!"mol3", py!"", py!"comment",
    py!"  3  2  0  0  0  0  0  0  0  0999 V2000",
    py!"    1.2000      -0.5         0 N   0  1  0  0  0",
    py!"       2.0         0         0 D   0  4  0  0  0",
    py!"       4.0         0         0 O   0  0  0  0  0",
    py!"  1  2  1  0", py!"  3  1  2  0",
    py!"M  RAD  1   1   2", py!"M  STY  1   1 SUP", py!"M  ISO  1   3  18", py!"M  CHG  2   1   1   3   0",
    py!"M  END", py!"$$$$"] := by decide

theorem mol3_wf : mol3.WF := by
  refine ⟨by decide, by decide, ?_, ?_⟩
  · intro a ha
    simp only [mol3, List.mem_cons, List.not_mem_nil, or_false] at ha
    rcases ha with rfl | rfl | rfl <;>
      exact ⟨by decide, by decide, by decide, by decide, by decide, by decide, by decide, by decide, by decide⟩
  · intro b hb
    simp only [mol3, List.mem_cons, List.not_mem_nil, or_false] at hb
    rcases hb with rfl | rfl <;> exact ⟨by decide, by decide, by decide, by decide⟩

theorem choice3_ok : choice3.OK mol3 := by
  have hsup : Supersede choice3.items := ⟨.rad, [(1, 2)], by simp [choice3], by decide⟩
  have hat : ∀ i a, mol3.atoms[i]? = some a → i < 3 := by
    intro i a h; exact (List.getElem?_eq_some_iff.mp h).1
  refine ⟨?_, ?_, ?_, ?_, fun h => absurd hsup h, ?_, ?_⟩
  · intro i _; simp only [choice3]; split_ifs <;> omega
  · intro s hs
    simp only [choice3, List.mem_cons, List.not_mem_nil, or_false, reduceCtorEq, Item.other.injEq, false_or, or_false] at hs
    subst hs; decide
  · intro K es h
    simp only [choice3, List.mem_cons, List.not_mem_nil, or_false, reduceCtorEq, Item.prop.injEq, false_or, or_false] at h
    rcases h with ⟨rfl, rfl⟩ | ⟨rfl, rfl⟩ | ⟨rfl, rfl⟩ <;> decide
  · intro K es h
    simp only [choice3, List.mem_cons, List.not_mem_nil, or_false, reduceCtorEq, Item.prop.injEq, false_or, or_false] at h
    rcases h with ⟨rfl, rfl⟩ | ⟨rfl, rfl⟩ | ⟨rfl, rfl⟩ <;> simp [mol3, valOf]
  · intro _ i a ha
    have hi := hat i a ha
    interval_cases i <;> simp [mol3] at ha <;> subst ha <;>
      exact ⟨fun _ => listed_of_listedB (by first | decide | (exfalso; simp_all)),
        fun _ => listed_of_listedB (by first | decide | (exfalso; simp_all))⟩
  · intro i a ha hmass
    have hi := hat i a ha
    interval_cases i <;> simp [mol3] at ha <;> subst ha <;>
      first | exact absurd rfl hmass | exact Or.inr (listed_of_listedB (by decide)) | exact Or.inl (by decide)

theorem choice3_noBreaks : choice3.NoBreaks mol3 where
  h0 := by decide
  h1 := by decide
  h2 := by decide
  mid := by decide
  atomRest := fun _ => by show NoBreak py!"  0  0  0"; decide
  bondRest := fun _ => by show NoBreak py!"  0"; decide
  others := by
    intro s hs
    simp only [choice3, List.mem_cons, List.not_mem_nil, or_false, reduceCtorEq, Item.other.injEq, false_or, or_false] at hs
    subst hs; decide
  post := by decide
  coords := by decide

instance (t : Str) : Decidable (Contracts.V3000.NoOpt t) := by unfold Contracts.V3000.NoOpt; infer_instance
instance (l : Str) : Decidable (Contracts.Reader.Cont l) := by unfold Contracts.Reader.Cont; infer_instance
instance (t : Str) : Decidable (Contracts.V3000.Clean t) := by unfold Contracts.V3000.Clean; infer_instance

theorem mol3_v3ok : V3OK env0 mol3 where
  floats := fun _ _ => ⟨⟨_, rfl⟩, ⟨_, rfl⟩, ⟨_, rfl⟩⟩
  noOpt := by decide

/-- the V3000 layout: three header lines, counts line, `END CTAB`, `M  END`; the atom line of `N` is written with
extra blanks and cut into two physical lines right after the minus sign of `-0.5` -/
def dress3 : Dress where
  h0 := py!"mol3 as V3000"
  h1 := py!""
  h2 := py!""
  h3 := py!"  0  0  0     0  0            999 V3000"
  cntA := py!"3"
  cntB := py!"2"
  cntRest := [py!"0", py!"0", py!"0"]
  extra := [[py!"END", py!"CTAB"]]
  tail := [py!"M  END"]
  spell := fun i => if i = 3 then { gaps := [0, 1], cuts := [13] } else {}

example : fileLines (toCtab mol3) dress3 =
    [py!"mol3 as V3000", py!"", py!"", py!"  0  0  0     0  0            999 V3000",
      py!"M  V30 BEGIN CTAB", py!"M  V30 COUNTS 3 2 0 0 0", py!"M  V30 BEGIN ATOM",
      py!"M  V30 1  N 1.2000 --", py!"M  V30 0.5 0 0 CHG=1 RAD=2", py!"M  V30 2 D 2.0 0 0 0", py!"M  V30 3 O 4.0 0 0 0 MASS=18",
      py!"M  V30 END ATOM", py!"M  V30 BEGIN BOND", py!"M  V30 1 1 1 2", py!"M  V30 2 2 3 1", py!"M  V30 END BOND",
      py!"M  V30 END CTAB", py!"M  END"] := by
  decide

theorem dress3_ok : dress3.OK (toCtab mol3) where
  ver := by decide
  tail := by decide
  clean := by decide
  nodash := noDash_of_check _ _ (by decide)
  cntA := by decide
  cntB := by decide

theorem dress3_noBreaks : dress3.NoBreaks (toCtab mol3) where
  hdr := by decide
  toks := by decide
  tail := by decide

/-- **`V2000File.read_v2000_eq_v3000`, instance**: the V3000 file above (LF) and the V2000 file above (CRLF) are both
read, node for node with the same attributes (coordinates excepted), the same adjacency and bond data, and get one
TUCAN string under two `set` orders -/
theorem read_v2000_eq_v3000_witness :
    ∃ g g', Tucan.molfile_reader.graph_from_molfile_text env0 (((fileLines (toCtab mol3) dress3).drop 4).length + 1)
        (join py!"\n" (fileLines (toCtab mol3) dress3 ++ [[]])) = .ok g ∧
      Tucan.molfile_reader.graph_from_molfile_text env0 0 (renderV2000 py!"\r\n" mol3 choice3) = .ok g' ∧
      g'.nodeList = g.nodeList ∧
      (∀ n k, k ∉ coordKeys → g'.attr n k = g.attr n k) ∧
      (∀ x y, y ∈ g'.nbrs x ↔ y ∈ g.nbrs x) ∧ (∀ x y, g'.edgeAttrs x y = g.edgeAttrs x y) ∧
      ∃ s, tucan env0 (fuelBound g) g = .ok s ∧ tucan env1 (fuelBound g) g' = .ok s := by
  obtain ⟨g, g', e, e', hn, ha, hb, hed, _, hs⟩ :=
    read_v2000_eq_v3000 env0 env0_set env1_set env0_bliss env1_cp env1_pv mol3 mol3_wf (by decide)
      _ py!"\n" isSep_lf mol3_v3ok dress3 dress3_ok dress3_noBreaks (le_refl _)
      0 py!"\r\n" isSep_crlf choice3 choice3_ok choice3_noBreaks (coordsOK_env0 mol3)
  refine ⟨g, g', e, e', hn, ha, hb, hed ?_, hs _ (le_refl _) _ (le_refl _)⟩
  intro b hb b' hb' hsp
  simp only [mol3, List.mem_cons, List.not_mem_nil, or_false] at hb hb'
  rcases hb with rfl | rfl <;> rcases hb' with rfl | rfl <;> simp [ABond.SamePair] at hsp ⊢

end V2

/-! ## 3. `C11Ext.C11_renumber`: water with the two hydrogens renumbered -/

section C11
open Contracts.Parser (water water_wf water_ok treeOf Key numWf_of_decide)
open Contracts.C11Ext

/-- `H2O/(2-3)(1-3)/(2:mass=2)(3:rad=2)`: `H2O/(1-3)(2-3)/(1:mass=2)(3:rad=2)` with atoms 1 and 2 exchanged -/
def waterR : Parser.Ast := renumberAst swap12 water

theorem waterR_formula : waterR.formula = [(py!"H", some py!"2"), (py!"O", none)] := by decide
theorem waterR_tuples : waterR.tuples = [(py!"2", py!"3"), (py!"1", py!"3")] := by decide
theorem waterR_attrs : waterR.attrs = some [(py!"2", [(Key.mass, py!"2")]), (py!"3", [(Key.rad, py!"2")])] := by decide

theorem waterR_wf : waterR.Wf where
  syms := by rw [waterR_formula, Contracts.Parser.keys_eq_table]; decide
  counts := by
    intro p hp ds hds
    rw [waterR_formula] at hp
    simp only [List.mem_cons, List.not_mem_nil, or_false] at hp
    rcases hp with rfl | rfl
    · cases hds; exact ⟨numWf_of_decide _ (by decide), by decide⟩
    · cases hds
  tuples := by
    intro t ht
    rw [waterR_tuples] at ht
    simp only [List.mem_cons, List.not_mem_nil, or_false] at ht
    rcases ht with rfl | rfl <;> exact ⟨numWf_of_decide _ (by decide), numWf_of_decide _ (by decide)⟩
  attrs := by
    intro bs hbs b hb
    rw [waterR_attrs] at hbs
    cases hbs
    simp only [List.mem_cons, List.not_mem_nil, or_false] at hb
    rcases hb with rfl | rfl
    · refine ⟨numWf_of_decide _ (by decide), ?_⟩
      intro kv hkv; simp only [List.mem_cons, List.not_mem_nil, or_false] at hkv; subst hkv
      exact numWf_of_decide _ (by decide)
    · refine ⟨numWf_of_decide _ (by decide), ?_⟩
      intro kv hkv; simp only [List.mem_cons, List.not_mem_nil, or_false] at hkv; subst hkv
      exact numWf_of_decide _ (by decide)

/-- **`C11Ext.C11_renumber`, instance** (a genuine renumbering inside the hydrogen block, the `mass=2` label moving
from atom 1 to atom 2): both trees are parsed (two parser environments), the pipeline returns the same string for
both under two `set` orders -/
theorem C11_renumber_witness : ∃ ga gb t,
    Tucan.parser.graph_from_tree env0 (treeOf water) = .ok ga ∧
    Tucan.parser.graph_from_tree env1 (treeOf waterR) = .ok gb ∧
    tucan env0 (fuelBound ga) ga = .ok t ∧ tucan env1 (fuelBound gb) gb = .ok t := by
  obtain ⟨ga, W⟩ := Contracts.Witness.water_exists
  have pa := W.parsed
  have s : Spelling water waterR := Spelling.of_renumber renumber_water
  obtain ⟨gb, _, pb, _⟩ := C11_renumber_graph env0 env1 water_wf waterR_wf s pa
  obtain ⟨t, e1, e2⟩ := C11_renumber env0 env1 env0_set env1_set env0_bliss env1_cp env1_pv water_wf waterR_wf s pa pb
    W.facts.ne (fuelBound ga) (fuelBound gb) (le_refl _) (le_refl _)
  exact ⟨ga, gb, t, pa, pb, e1, e2⟩

end C11

/-! ## 4. `FileIso.C06_files` (`Redrawn`) and `FileIso.C01_files` (`Relisted`) on deuterium fluoride -/

section Files
open Contracts.FileIso Contracts.FileIsoWitness
open Contracts.Reader (exampleDress)
open Contracts.V3000 (AtomLine BondLine IsInt intOf propInt hydrogenIsotope)

/-- `df` redrawn: the same two atoms in the same order, `D` respelled `H MASS=2` and given a charge, other
coordinates, other index values (11 and 5), an explicit `RAD=0` on F, the bond written the other way round as a
triple bond -/
def dfRedrawn : Ctab :=
  ⟨[⟨py!"11", py!"H", py!"3", py!"3", py!"3", py!"0", [⟨py!"MASS", py!"2", []⟩, ⟨py!"CHG", py!"1", []⟩]⟩,
    ⟨py!"5", py!"F", py!"0", py!"0", py!"0", py!"0", [⟨py!"RAD", py!"0", []⟩]⟩],
   [⟨py!"1", py!"3", py!"5", py!"11", [], none⟩]⟩

/-- `df` relisted: the atom lines in the other order and renumbered (9 ↦ 1, 4 ↦ 2), the bond endpoints swapped;
nothing else changed -/
def dfRelisted : Ctab :=
  ⟨[⟨py!"1", py!"F", py!"1.2", py!"0", py!"0", py!"0", [⟨py!"CHG", py!"0", []⟩]⟩,
    ⟨py!"2", py!"D", py!"0", py!"0", py!"0", py!"0", []⟩],
   [⟨py!"1", py!"1", py!"1", py!"2", [], none⟩]⟩

def rho2 (x : Int) : Int := if x = 4 then 11 else 5

theorem dfRedrawn_plain : dfRedrawn.Plain env0 where
  wf := by
    intro a ha
    simp only [dfRedrawn, List.mem_cons, List.not_mem_nil, or_false] at ha
    rcases ha with rfl | rfl
    · refine ⟨isInt_of_eq (n := 11) (by decide), by decide, by decide, by decide, by decide, by decide, ?_, by decide⟩
      intro p hp _
      simp only [List.mem_cons, List.not_mem_nil, or_false] at hp
      rcases hp with rfl | rfl
      · exact isInt_of_eq (n := 2) (by decide)
      · exact isInt_of_eq (n := 1) (by decide)
    · refine ⟨isInt_of_eq (n := 5) (by decide), by decide, by decide, by decide, by decide, by decide, ?_, by decide⟩
      intro p hp _
      simp only [List.mem_cons, List.not_mem_nil, or_false] at hp
      subst hp; exact isInt_of_eq (n := 0) (by decide)
  nostar := by decide
  known := by
    intro a ha
    simp only [dfRedrawn, List.mem_cons, List.not_mem_nil, or_false] at ha
    rcases ha with rfl | rfl
    · have e : (hydrogenIsotope py!"H").1 = py!"H" := by decide
      simp only [e]; exact known_of _ (by decide)
    · have e : (hydrogenIsotope py!"F").1 = py!"F" := by decide
      simp only [e]; exact known_of _ (by decide)
  coords := fun a _ => ⟨⟨_, rfl⟩, ⟨_, rfl⟩, ⟨_, rfl⟩⟩
  uniq := by decide
  bondInts := by
    intro b hb
    simp only [dfRedrawn, List.mem_cons, List.not_mem_nil, or_false] at hb
    subst hb
    exact ⟨isInt_of_eq (n := 5) (by decide), isInt_of_eq (n := 11) (by decide), isInt_of_eq (n := 3) (by decide)⟩
  bondEnds := by decide

theorem dfRelisted_plain : dfRelisted.Plain env0 where
  wf := by
    intro a ha
    simp only [dfRelisted, List.mem_cons, List.not_mem_nil, or_false] at ha
    rcases ha with rfl | rfl
    · refine ⟨isInt_of_eq (n := 1) (by decide), by decide, by decide, by decide, by decide, by decide, ?_, by decide⟩
      intro p hp _
      simp only [List.mem_cons, List.not_mem_nil, or_false] at hp
      subst hp; exact isInt_of_eq (n := 0) (by decide)
    · refine ⟨isInt_of_eq (n := 2) (by decide), by decide, by decide, by decide, by decide, by decide, ?_, by decide⟩
      intro p hp _; simp at hp
  nostar := by decide
  known := by
    intro a ha
    simp only [dfRelisted, List.mem_cons, List.not_mem_nil, or_false] at ha
    rcases ha with rfl | rfl
    · have e : (hydrogenIsotope py!"F").1 = py!"F" := by decide
      simp only [e]; exact known_of _ (by decide)
    · have e : (hydrogenIsotope py!"D").1 = py!"H" := by decide
      simp only [e]; exact known_of _ (by decide)
  coords := fun a _ => ⟨⟨_, rfl⟩, ⟨_, rfl⟩, ⟨_, rfl⟩⟩
  uniq := by decide
  bondInts := by
    intro b hb
    simp only [dfRelisted, List.mem_cons, List.not_mem_nil, or_false] at hb
    subst hb
    exact ⟨isInt_of_eq (n := 1) (by decide), isInt_of_eq (n := 2) (by decide), isInt_of_eq (n := 1) (by decide)⟩
  bondEnds := by decide

theorem dfRedrawn_dressOK : exampleDress.OK dfRedrawn where
  ver := by decide
  tail := by decide
  clean := by decide
  nodash := noDash_of_check _ _ (by decide)
  cntA := by decide
  cntB := by decide

theorem dfRelisted_dressOK : exampleDress.OK dfRelisted where
  ver := by decide
  tail := by decide
  clean := by decide
  nodash := noDash_of_check _ _ (by decide)
  cntA := by decide
  cntB := by decide

/-- same atoms in the same order with the same normalised identity, index values renumbered, charge / coordinates /
bond type / bond direction changed -/
theorem df_redrawn : Redrawn df dfRedrawn rho2 where
  atoms := List.Forall₂.cons ⟨by decide, by decide⟩ (List.Forall₂.cons ⟨by decide, by decide⟩ List.Forall₂.nil)
  bonds := ⟨dfRedrawn.bonds, List.Forall₂.cons (Or.inr ⟨by decide, by decide⟩) List.Forall₂.nil, List.Perm.refl _⟩

/-- the same lines renumbered, listed in the other order, bond endpoints swapped -/
theorem df_relisted : Relisted df dfRelisted rho where
  atoms := ⟨[dfRelisted.atoms[1], dfRelisted.atoms[0]], by
    refine List.Forall₂.cons ⟨rfl, rfl, rfl, rfl, rfl, rfl, by decide⟩
      (List.Forall₂.cons ⟨rfl, rfl, rfl, rfl, rfl, rfl, by decide⟩ List.Forall₂.nil),
    List.Perm.swap _ _ _⟩
  bonds := ⟨dfRelisted.bonds,
    List.Forall₂.cons ⟨rfl, rfl, rfl, Or.inr ⟨by decide, by decide⟩⟩ List.Forall₂.nil, List.Perm.refl _⟩

theorem df_rendering (sep : Str) (hsep : IsSep sep) :
    Rendering env0 df exampleDress (join sep (fileLines df exampleDress ++ [[]]))
      (((fileLines df exampleDress).drop 4).length + 1) :=
  Rendering.of_join df_plain df_dressOK (bondShape df (by decide)) (le_refl _) _ hsep ⟨by decide, by decide, by decide⟩

/-- **`FileIso.C06_files`, instance**: the CRLF file of `df` and the LF file of `dfRedrawn` are both read and get one
TUCAN string -/
theorem C06_files_witness :
    ∃ g g', Tucan.molfile_reader.graph_from_molfile_text env0 (((fileLines df exampleDress).drop 4).length + 1)
        (join py!"\r\n" (fileLines df exampleDress ++ [[]])) = .ok g ∧
      Tucan.molfile_reader.graph_from_molfile_text env0 (((fileLines dfRedrawn exampleDress).drop 4).length + 1)
        (join py!"\n" (fileLines dfRedrawn exampleDress ++ [[]])) = .ok g' ∧ fuelBound g' = fuelBound g ∧
      ∀ fuel ≥ fuelBound g, ∀ fuel' ≥ fuelBound g, ∃ s, tucan env0 fuel g = .ok s ∧ tucan env1 fuel' g' = .ok s := by
  have R' : Rendering env0 dfRedrawn exampleDress (join py!"\n" (fileLines dfRedrawn exampleDress ++ [[]])) _ :=
    Rendering.of_join dfRedrawn_plain dfRedrawn_dressOK (bondShape dfRedrawn (by decide)) (le_refl _) _ isSep_lf
      ⟨by decide, by decide, by decide⟩
  exact C06_files env0 env0 env0_set env1_set env0_bliss env1_cp env1_pv (df_rendering _ isSep_crlf) R' rho2 df_redrawn
    df_notNeg (by decide) (by decide)

/-- **`FileIso.C01_files`, instance**: the CRLF file of `df` and the CR file of `dfRelisted` -/
theorem C01_files_witness :
    ∃ g g', Tucan.molfile_reader.graph_from_molfile_text env0 (((fileLines df exampleDress).drop 4).length + 1)
        (join py!"\r\n" (fileLines df exampleDress ++ [[]])) = .ok g ∧
      Tucan.molfile_reader.graph_from_molfile_text env0 (((fileLines dfRelisted exampleDress).drop 4).length + 1)
        (join py!"\r" (fileLines dfRelisted exampleDress ++ [[]])) = .ok g' ∧ fuelBound g' = fuelBound g ∧
      ∀ fuel ≥ fuelBound g, ∀ fuel' ≥ fuelBound g, ∃ s, tucan env0 fuel g = .ok s ∧ tucan env1 fuel' g' = .ok s := by
  have R' : Rendering env0 dfRelisted exampleDress (join py!"\r" (fileLines dfRelisted exampleDress ++ [[]])) _ :=
    Rendering.of_join dfRelisted_plain dfRelisted_dressOK (bondShape dfRelisted (by decide)) (le_refl _) _
      Contracts.Reader.isSep_cr ⟨by decide, by decide, by decide⟩
  exact C01_files env0 env0 env0_set env1_set env0_bliss env1_cp env1_pv (df_rendering _ isSep_crlf) R' rho df_relisted
    df_notNeg (by decide) (by decide)

end Files

/-! ## 5. a composition the contract files do not contain: C06 / C01 for two V2000 *files*

`FileIso.C01_C06_v2000` compares two V2000 files through the data the code parsed from their lines (`V2000Parsed`,
hypotheses `hsameA` / `hsameB` about `specGet`). With `V2000File.read_v2000_render` the same can be said about the
files themselves: two abstract molecules with the same atoms (element with `D`/`T` = hydrogen, isotope mass, radical
state) up to a bijection `σ` of the atom positions and the same bonded pairs — charges, coordinates, bond types,
the order of atoms and bonds free — rendered as V2000 with any two encodings (`Choice`: codes vs `M  CHG`/`M  RAD`
lines, grouping, unrelated lines, headers, line endings) are both read and get one TUCAN string. -/

section V2pair
open Contracts.V2000File Contracts.FileIso

theorem nodeSpec_identity (fx fy fz fx' fy' fz' : Val) (a a' : AAtom) (he : elemOf a'.sym = elemOf a.sym)
    (hm : a'.mass = a.mass) (hr : a'.rad = a.rad) :
    ∀ k ∈ Contracts.RoundTrip.idKeys ++ ["invariant_code"], nodeSpec fx' fy' fz' a' k = nodeSpec fx fy fz a k := by
  intro k hk
  simp only [Contracts.RoundTrip.idKeys, List.cons_append, List.nil_append, List.mem_cons, List.not_mem_nil,
    or_false] at hk
  rcases hk with rfl | rfl | rfl | rfl | rfl <;>
    simp [nodeSpec, nodeAttr, baseAttr, codeVal, he, hm, hr]

theorem C06_v2000_renderings {env₁ env₂ : DepEnv} (envr envr' : DepEnv) (hs₁ : env₁.SetLawful) (hs₂ : env₂.SetLawful)
    (hb : BlissLawful env₁) (hcp : env₂.canonicalPermutation = env₁.canonicalPermutation)
    (hpv : env₂.permuteVertices = env₁.permuteVertices)
    (m m' : AMol) (hm : m.WF) (hm' : m'.WF) (hne : m.atoms ≠ [])
    (σ : Nat → Nat) (hlen : m'.atoms.length = m.atoms.length) (hσ : PosIso m.atoms.length σ)
    (hid : ∀ (i : Nat) a a', m.atoms[i]? = some a → m'.atoms[σ i]? = some a' →
      elemOf a'.sym = elemOf a.sym ∧ a'.mass = a.mass ∧ a'.rad = a.rad)
    (hbonds : ∀ i < m.atoms.length, ∀ j < m.atoms.length,
      ((∃ b ∈ m.bonds, (b.a1 = i ∧ b.a2 = j) ∨ (b.a1 = j ∧ b.a2 = i)) ↔
        ∃ b ∈ m'.bonds, (b.a1 = σ i ∧ b.a2 = σ j) ∨ (b.a1 = σ j ∧ b.a2 = σ i)))
    (sep sep' : Str) (hsep : IsSep sep) (hsep' : IsSep sep') (c c' : Choice) (hc : c.OK m) (hc' : c'.OK m')
    (hnb : c.NoBreaks m) (hnb' : c'.NoBreaks m') (hco : CoordsOK envr m) (hco' : CoordsOK envr' m') (rf rf' : Nat) :
    ∃ g g', Tucan.molfile_reader.graph_from_molfile_text envr rf (renderV2000 sep m c) = .ok g ∧
      Tucan.molfile_reader.graph_from_molfile_text envr' rf' (renderV2000 sep' m' c') = .ok g' ∧
      fuelBound g' = fuelBound g ∧
      ∀ fuel ≥ fuelBound g, ∀ fuel' ≥ fuelBound g, ∃ s, tucan env₁ fuel g = .ok s ∧ tucan env₂ fuel' g' = .ok s := by
  obtain ⟨g, e, _, ok, ng, ag, bg, _⟩ := read_v2000_render envr rf sep hsep m hm c hc hnb hco
  obtain ⟨g', e', wg', _, ng', ag', bg', _⟩ := read_v2000_render envr' rf' sep' hsep' m' hm' c' hc' hnb' hco'
  rw [hlen] at ng'
  have hpos : 0 < m.atoms.length := List.length_pos_iff.mpr hne
  obtain ⟨_, fb, run⟩ := tucan_eq_of_posIso hs₁ hs₂ hb hcp hpv ok wg' ng ng' hpos hσ
    (by
      intro i hi k hk
      have hi' : σ i < m'.atoms.length := hlen ▸ hσ.maps i hi
      have ha := getElem?_of_lt m.atoms hi
      have ha' := getElem?_of_lt m'.atoms hi'
      obtain ⟨h1, h2, h3⟩ := hid i _ _ ha ha'
      rw [ag' (σ i) _ ha' k, ag i _ ha k]
      exact nodeSpec_identity _ _ _ _ _ _ _ _ h1 h2 h3 k hk)
    (by
      intro i hi j hj
      rw [bg', bg]
      constructor
      · rintro ⟨b, hb', hor⟩
        obtain ⟨b₀, hb₀, hor₀⟩ := (hbonds i hi j hj).2 ⟨b, hb', by
          rcases hor with ⟨h1, h2⟩ | ⟨h1, h2⟩
          · exact Or.inl ⟨by exact_mod_cast h1.symm, by exact_mod_cast h2.symm⟩
          · exact Or.inr ⟨by exact_mod_cast h2.symm, by exact_mod_cast h1.symm⟩⟩
        refine ⟨b₀, hb₀, ?_⟩
        rcases hor₀ with ⟨h1, h2⟩ | ⟨h1, h2⟩
        · exact Or.inl ⟨by exact_mod_cast h1.symm, by exact_mod_cast h2.symm⟩
        · exact Or.inr ⟨by exact_mod_cast h2.symm, by exact_mod_cast h1.symm⟩
      · rintro ⟨b, hb', hor⟩
        obtain ⟨b₀, hb₀, hor₀⟩ := (hbonds i hi j hj).1 ⟨b, hb', by
          rcases hor with ⟨h1, h2⟩ | ⟨h1, h2⟩
          · exact Or.inl ⟨by exact_mod_cast h1.symm, by exact_mod_cast h2.symm⟩
          · exact Or.inr ⟨by exact_mod_cast h2.symm, by exact_mod_cast h1.symm⟩⟩
        refine ⟨b₀, hb₀, ?_⟩
        rcases hor₀ with ⟨h1, h2⟩ | ⟨h1, h2⟩
        · exact Or.inl ⟨by exact_mod_cast h1.symm, by exact_mod_cast h2.symm⟩
        · exact Or.inr ⟨by exact_mod_cast h2.symm, by exact_mod_cast h1.symm⟩)
  exact ⟨g, g', e, e', fb, run⟩

end V2pair

/-! ## 6. `C11Ext.C13_attrs` (water) and `WriterExt.C09_tucan'` (the carbon atom of WriterExt §7, model `floatEnv`) -/

/-- **`C11Ext.C13_attrs`, instance** -/
theorem C13_attrs_witness {g : Graph} (W : Contracts.Witness.IsWater g) :
    ∃ r ρ, Tucan.canonicalization.canonicalize_molecule env0 (g.nodeList.length + 1) g = .ok r ∧
      Relabel.IsRelabelExcept "partition" ρ g r ∧ Contracts.C11Ext.ClassesShareIdentity r := by
  obtain ⟨r, ρ, e, rel, sh, _⟩ :=
    Contracts.C11Ext.C13_attrs env0_set env0_bliss W.facts.idOK W.facts.ne _ (le_refl _)
  exact ⟨r, ρ, e, rel, sh⟩

open Contracts.WriterExt Contracts.Writer in
/-- **`WriterExt.C09_tucan'`, instance**: writer and reader under `floatEnv` (which obeys the float law), pipeline
under two `set` orders -/
theorem C09_tucan'_witness :
    ∃ text g₂, Tucan.molfile_writer.graph_to_molfile floatEnv (maxLen (logicalLines floatEnv exC) / 71 + 1) exC false = .ok text ∧
      Tucan.molfile_reader.graph_from_molfile_text floatEnv ((fileLines floatEnv exC).length + 1) text = .ok g₂ ∧
      ∃ s, tucan env0 (fuelBound exC) exC = .ok s ∧ tucan env1 (fuelBound exC) g₂ = .ok s := by
  have hl : exC.Loopless := by
    intro u hu
    have : exC.nbrs u = [] := by
      unfold Graph.nbrs exC Graph.addNode
      simp [Graph.empty, Dict.get?, Dict.set, Dict.empty, Dict.contains]
      simp only [List.lookup]
      split <;> simp [Dict.keys]
    rw [this] at hu; cases hu
  have hn : exC.nodeList = [0] := by decide
  have hrad : ∀ i ∈ exC.nodeList, ∀ r : Int, exC.attr i "rad" = some (Val.int r) → r ≤ 3 := by
    intro i hi r hr
    rw [hn] at hi; simp only [List.mem_singleton] at hi; subst hi
    have : exC.attr 0 "rad" = none := by decide
    rw [this] at hr; cases hr
  obtain ⟨text, g₂, w, r, _, hs⟩ := C09_tucan' floatEnv env0_set env1_set env0_bliss env1_cp env1_pv floatLawful_floatEnv
    exC_idOK hl (by rw [hn]; simp) hrad exC_inRange (by decide) (by decide) _ _ (le_refl _) (le_refl _)
  exact ⟨text, g₂, w, r, hs _ (le_refl _) _ (le_refl _)⟩

/-! ## 7. C05 for V2000-reader output, composed (first audit, finding 8): the registry lists `read_v2000_render`
(which gives `IdOK`) under C05; here the composition with `Pipeline.C05_pipeline` is carried out, including the
premise `Loopless` of the bond-tuple clause, which `read_v2000_render` does not state but implies -/

section C05
open Contracts.V2000File

theorem C05_v2000_rendering {env : DepEnv} (hs : env.SetLawful) (hb : BlissLawful env) (envr : DepEnv) (rf : Nat)
    (sep : Str) (hsep : IsSep sep) (m : AMol) (hm : m.WF) (hne : m.atoms ≠ []) (c : Choice) (hc : c.OK m)
    (hnb : c.NoBreaks m) (hco : CoordsOK envr m) :
    ∃ g, Tucan.molfile_reader.graph_from_molfile_text envr rf (renderV2000 sep m c) = .ok g ∧ g.Loopless ∧
      ∃ cg ms s, Contracts.Pipeline.Run env (g.nodeList.length + 1) (fuelBound g) g cg ms s ∧
        Contracts.Layout.Grammar.tucan s := by
  obtain ⟨g, e, _, ok, ng, _, bg, _⟩ := read_v2000_render envr rf sep hsep m hm c hc hnb hco
  have hl : g.Loopless := by
    intro u hu
    obtain ⟨b, hbm, hor⟩ := (bg u u).1 hu
    have := (hm.bonds b hbm).ne
    rcases hor with ⟨h1, h2⟩ | ⟨h1, h2⟩ <;> omega
  have hne' : g.nodeList ≠ [] := by
    rw [ng]; intro h0
    have := congrArg List.length h0
    rw [Contracts.RoundTrip.length_range] at this
    exact hne (List.eq_nil_of_length_eq_zero (by simpa using this))
  obtain ⟨cg, ms, s, R, G, _⟩ := Contracts.Pipeline.C05_pipeline hs hb ok.wf hne' ok.carries_code ok.carries_Z
    (Contracts.Witness.symbols_ok ok) (fun a ha v hv => ok.mass a ha v hv) (fun a ha v hv => ok.rad a ha v hv)
    _ _ (le_refl (g.nodeList.length + 1)) (le_refl (fuelBound g))
  exact ⟨g, e, hl, cg, ms, s, R, G⟩

end C05

end Contracts.Witness2

#print axioms Contracts.Witness2.read_v2000_render_witness
#print axioms Contracts.Witness2.read_v2000_eq_v3000_witness
#print axioms Contracts.Witness2.C11_renumber_witness
#print axioms Contracts.Witness2.C06_files_witness
#print axioms Contracts.Witness2.C01_files_witness
#print axioms Contracts.Witness2.C06_v2000_renderings
#print axioms Contracts.Witness2.C05_v2000_rendering
#print axioms Contracts.Witness2.C13_attrs_witness
#print axioms Contracts.Witness2.C09_tucan'_witness
