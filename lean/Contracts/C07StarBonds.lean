/-
Contracts.C07StarBonds — bond types of the graph read from a V3000 connection table with star atoms
(property C07, "one bond per bond line with the stated type … multi-attachment bonds to a star atom, which
expand to one bond per listed endpoint"): `Contracts.C07Star.graph_from_molfile_text_render_star` plus the
edge-attribute clauses of `Contracts.Bonds`. Kept apart from `Contracts.C07Star` so that that file does not
depend on `Contracts.Bonds`.
-/
import Contracts.C07Star
import Contracts.Bonds
set_option autoImplicit false
open Py

namespace Contracts.C07Star

open Contracts.V3000
open Contracts.Reader (Ctab Dress fileLines IsSep fileMeaning attrsOf general_at isSep_crlf)
open Contracts.Parser (withCode)

/-! ## 1b. bond types (with `Contracts.Bonds`) -/

open Contracts.Bonds (bondData bondData_ofPairs_same bondAttrs_wf bondData_symm graph_from_molecule_edges)

/-- the bond dictionary on a pair of file indices all of whose linking bond lines state the type `t` -/
theorem bondData_bondDict (C : Ctab) (m n t : Int) (hj : ∃ b ∈ C.bonds, (m, n) ∈ bondLinks C b)
    (hall : ∀ b ∈ C.bonds, ((m, n) ∈ bondLinks C b ∨ (n, m) ∈ bondLinks C b) → intOf b.typ = t) :
    bondData (bondDict C) (m - 1) (n - 1) = some (bondAttrs t) := by
  unfold bondDict
  apply bondData_ofPairs_same _ _ _ _ (bondAttrs_wf t)
  · intro q hq hk
    simp only [List.mem_flatMap, List.mem_map] at hq
    obtain ⟨b', hb', t', ⟨p', hp', rfl⟩, rfl⟩ := hq
    have : (m, n) ∈ bondLinks C b' ∨ (n, m) ∈ bondLinks C b' := by
      rcases hk with hk | hk
      · left; exact (dec_inj p' (m, n) hk) ▸ hp'
      · right; exact (dec_inj p' (n, m) hk) ▸ hp'
    simp only [hall b' hb' this]
  · obtain ⟨b, hb, hl⟩ := hj
    refine ⟨(dec (m, n), bondAttrs (intOf b.typ)), ?_, Or.inl rfl⟩
    simp only [List.mem_flatMap, List.mem_map]
    exact ⟨b, hb, dec (m, n), ⟨(m, n), hl, rfl⟩, rfl⟩

/-- **C07, the graph of a connection table with star atoms, with bond types**: `fileMeaning_starry_graph` plus
* the edge between the nodes of two non-star atom lines carries `bondData` of the bond dictionary on their
  file indices (all links on that pair merged);
* per bond line `bl` and per link `(m, n)` of `bl` — for a star bond: per listed endpoint —: if every bond
  line linking the same two atoms states the same type (in particular if `bl` is the only one), the edge
  carries exactly `{bond_type: type of bl}`, in both orientations;
* pairs that are not linked carry no data. -/
theorem fileMeaning_starry_graph_bonds (env : DepEnv) (C : Ctab) (h : Starry env C) (hneg : ¬ NegMassRad C)
    (hself : ¬ SelfLink C) :
    ∃ g, fileMeaning env C = .ok g ∧ g.WF ∧ g.nodeList = range ((real C).length : Int) ∧
      (∀ (i : Nat) a, (real C)[i]? = some a → g.node.get? (i : Int) = some (withCode (attrsOf env a))) ∧
      (∀ (i j : Nat) a b, (real C)[i]? = some a → (real C)[j]? = some b →
        ((j : Int) ∈ g.nbrs (i : Int) ↔ linked C (intOf a.idx) (intOf b.idx))) ∧
      (∀ (i j : Nat) a b, (real C)[i]? = some a → (real C)[j]? = some b →
        g.edgeAttrs (i : Int) (j : Int) = bondData (bondDict C) (intOf a.idx - 1) (intOf b.idx - 1)) ∧
      (∀ bl ∈ C.bonds, ∀ (i j : Nat) a b, (real C)[i]? = some a → (real C)[j]? = some b →
        (intOf a.idx, intOf b.idx) ∈ bondLinks C bl →
        (∀ b' ∈ C.bonds, ((intOf a.idx, intOf b.idx) ∈ bondLinks C b' ∨ (intOf b.idx, intOf a.idx) ∈ bondLinks C b') →
          intOf b'.typ = intOf bl.typ) →
        g.edgeAttrs (i : Int) (j : Int) = some (bondAttrs (intOf bl.typ)) ∧
          g.edgeAttrs (j : Int) (i : Int) = some (bondAttrs (intOf bl.typ))) ∧
      (∀ (i j : Nat) a b, (real C)[i]? = some a → (real C)[j]? = some b →
        ¬ linked C (intOf a.idx) (intOf b.idx) → g.edgeAttrs (i : Int) (j : Int) = none) := by
  have hm := h.molOK
  obtain ⟨g, R, hg, wg, ng, ag, bg, eg⟩ :=
    graph_from_molecule_edges env (atomDict env C) (bondDict C) hm.wf hm.attrs_wf hm.z hm.ends
  have hlen : (atomDict env C).keys.length = (real C).length := by rw [atomDict_keys]; simp [realIdx]
  have hat : ∀ (i : Nat) a, (real C)[i]? = some a →
      (atomDict env C).get? (intOf a.idx - 1) = some (attrsOf env a) ∧ intOf a.idx - 1 ∈ (atomDict env C).keys ∧
        (atomDict env C).keys.idxOf (intOf a.idx - 1) = i := by
    intro i a ha
    have hi : i < (atomDict env C).keys.length := by
      rw [hlen]; exact (List.getElem?_eq_some_iff.mp ha).1
    obtain ⟨k, v, hit, -, hget, hmem, hidx⟩ := general_at _ hm.wf i hi
    simp only [atomDict, Ctab.atomDict, List.getElem?_map, ha, Option.map_some, Option.some.injEq, Prod.mk.injEq] at hit
    obtain ⟨rfl, rfl⟩ := hit
    exact ⟨hget, hmem, hidx⟩
  have hadj : ∀ (i j : Nat) a b, (real C)[i]? = some a → (real C)[j]? = some b →
      ((j : Int) ∈ g.nbrs (i : Int) ↔ linked C (intOf a.idx) (intOf b.idx)) := by
    intro i j a b ha hb
    obtain ⟨-, hma, hia⟩ := hat i a ha
    obtain ⟨-, hmb, hib⟩ := hat j b hb
    have := bg _ hma _ hmb
    rw [hia, hib, linked_iff] at this
    exact this
  have hed : ∀ (i j : Nat) a b, (real C)[i]? = some a → (real C)[j]? = some b →
      g.edgeAttrs (i : Int) (j : Int) = bondData (bondDict C) (intOf a.idx - 1) (intOf b.idx - 1) := by
    intro i j a b ha hb
    obtain ⟨-, hma, hia⟩ := hat i a ha
    obtain ⟨-, hmb, hib⟩ := hat j b hb
    have := eg _ hma _ hmb
    rw [hia, hib] at this
    exact this
  refine ⟨g, ?_, wg, by rw [ng, hlen], ?_, hadj, hed, ?_, ?_⟩
  · rw [fileMeaning_starry_ok env C h hneg hself, hg]; rfl
  · intro i a ha
    obtain ⟨hget, -, hidx⟩ := hat i a ha
    have := ag _ _ hget
    rwa [hidx] at this
  · intro bl hbl i j a b ha hb hl hall
    have key : bondData (bondDict C) (intOf a.idx - 1) (intOf b.idx - 1) = some (bondAttrs (intOf bl.typ)) :=
      bondData_bondDict C _ _ _ ⟨bl, hbl, hl⟩ hall
    exact ⟨by rw [hed i j a b ha hb, key], by rw [hed j i b a hb ha, bondData_symm, key]⟩
  · intro i j a b ha hb hnj
    have := (hadj i j a b ha hb).not.2 hnj
    rw [Graph.mem_nbrs_iff] at this
    cases hq : g.edgeAttrs (i : Int) (j : Int) with
    | none => rfl
    | some d => rw [hq] at this; simp at this

open Contracts.Reader (graph_from_molfile_text_render) in
/-- **C07 at the text level, star atoms and bond types**: `graph_from_molfile_text_render_star` plus the bond
clauses of `fileMeaning_starry_graph_bonds`, for the graph the reader returns on every rendering -/
theorem graph_from_molfile_text_render_star_bonds (env : DepEnv) (fuel : Nat) (sep : Str) (hsep : IsSep sep)
    (C : Ctab) (D : Dress) (hok : D.OK C) (hnb : D.NoBreaks C)
    (hB : ∀ b ∈ C.bonds, b.Shape) (hfuel : ((fileLines C D).drop 4).length + 1 ≤ fuel)
    (h : Starry env C) (hneg : ¬ NegMassRad C) (hself : ¬ SelfLink C) :
    ∃ g, Tucan.molfile_reader.graph_from_molfile_text env fuel (join sep (fileLines C D ++ [[]])) = .ok g ∧
      g.WF ∧ g.nodeList = range ((real C).length : Int) ∧
      (∀ (i : Nat) a, (real C)[i]? = some a → g.node.get? (i : Int) = some (withCode (attrsOf env a))) ∧
      (∀ (i j : Nat) a b, (real C)[i]? = some a → (real C)[j]? = some b →
        ((j : Int) ∈ g.nbrs (i : Int) ↔ linked C (intOf a.idx) (intOf b.idx))) ∧
      (∀ (i j : Nat) a b, (real C)[i]? = some a → (real C)[j]? = some b →
        g.edgeAttrs (i : Int) (j : Int) = bondData (bondDict C) (intOf a.idx - 1) (intOf b.idx - 1)) ∧
      (∀ bl ∈ C.bonds, ∀ (i j : Nat) a b, (real C)[i]? = some a → (real C)[j]? = some b →
        (intOf a.idx, intOf b.idx) ∈ bondLinks C bl →
        (∀ b' ∈ C.bonds, ((intOf a.idx, intOf b.idx) ∈ bondLinks C b' ∨ (intOf b.idx, intOf a.idx) ∈ bondLinks C b') →
          intOf b'.typ = intOf bl.typ) →
        g.edgeAttrs (i : Int) (j : Int) = some (bondAttrs (intOf bl.typ)) ∧
          g.edgeAttrs (j : Int) (i : Int) = some (bondAttrs (intOf bl.typ))) ∧
      (∀ (i j : Nat) a b, (real C)[i]? = some a → (real C)[j]? = some b →
        ¬ linked C (intOf a.idx) (intOf b.idx) → g.edgeAttrs (i : Int) (j : Int) = none) := by
  obtain ⟨g, hg, rest⟩ := fileMeaning_starry_graph_bonds env C h hneg hself
  exact ⟨g, by rw [graph_from_molfile_text_render env fuel sep hsep C D hok hnb
    (fun a ha => (h.wf a ha).shape) hB hfuel, hg], rest⟩



/-- **`graph_from_molfile_text_render_star_bonds`, instance**: the 19-line CRLF file above is read as a graph
with three nodes (C, C⁻, Fe — the star atom has none and atom 3 becomes node 1); node 2 (Fe) is adjacent to
nodes 0 and 1 through the one star bond line, each of the two edges carrying `bond_type = 9`; nodes 0 and 1
are joined by the ordinary bond of type 1 -/
theorem star_witness_bonds :
    ∃ g, Tucan.molfile_reader.graph_from_molfile_text BlissModel.env (((fileLines starCtab starDress).drop 4).length + 1)
        (join py!"\r\n" (fileLines starCtab starDress ++ [[]])) = .ok g ∧
      g.WF ∧ g.nodeList = range 3 ∧
      (2 : Int) ∈ g.nbrs 0 ∧ (2 : Int) ∈ g.nbrs 1 ∧ (1 : Int) ∈ g.nbrs 0 ∧
      g.edgeAttrs 2 0 = some (bondAttrs 9) ∧ g.edgeAttrs 2 1 = some (bondAttrs 9) ∧
      g.edgeAttrs 0 1 = some (bondAttrs 1) := by
  obtain ⟨g, hg, wg, hn, _, hadj, _, hty, _⟩ :=
    graph_from_molfile_text_render_star_bonds BlissModel.env _ _ isSep_crlf starCtab starDress starDress_ok
      starDress_noBreaks starCtab_bondShape (le_refl _) starCtab_starry starCtab_notNeg (by decide)
  have hr : real starCtab = [⟨py!"1", py!"C", py!"0", py!"0", py!"0", py!"0", []⟩,
      ⟨py!"3", py!"C", py!"1.4", py!"0", py!"0", py!"0", [⟨py!"CHG", py!"-1", []⟩]⟩,
      ⟨py!"4", py!"Fe", py!"0", py!"2", py!"0", py!"0", []⟩] := by rfl
  have i9 : intOf py!"9" = 9 := by decide
  have i1 : intOf py!"1" = 1 := by decide
  have i3 : intOf py!"3" = 3 := by decide
  have i4 : intOf py!"4" = 4 := by decide
  have b2 : (⟨py!"2", py!"9", py!"4", py!"2", [], some ([py!"2", py!"1", py!"3"], [py!"ATTACH=ALL"])⟩ : BondLine) ∈
      starCtab.bonds := by simp [starCtab]
  have b1 : (⟨py!"1", py!"1", py!"1", py!"3", [], none⟩ : BondLine) ∈ starCtab.bonds := by simp [starCtab]
  have l41 : linked starCtab 1 4 := ⟨_, b2, Or.inr (by decide)⟩
  have l43 : linked starCtab 3 4 := ⟨_, b2, Or.inr (by decide)⟩
  have l13 : linked starCtab 1 3 := ⟨_, b1, Or.inl (by decide)⟩
  refine ⟨g, hg, wg, by rw [hn, hr]; rfl, ?_, ?_, ?_, ?_, ?_, ?_⟩
  · have := (hadj 0 2 _ _ (by rw [hr]; rfl) (by rw [hr]; rfl)).mpr (by simpa only [i1, i4] using l41)
    simpa using this
  · have := (hadj 1 2 _ _ (by rw [hr]; rfl) (by rw [hr]; rfl)).mpr (by simpa only [i3, i4] using l43)
    simpa using this
  · have := (hadj 0 1 _ _ (by rw [hr]; rfl) (by rw [hr]; rfl)).mpr (by simpa only [i1, i3] using l13)
    simpa using this
  · have := (hty _ b2 2 0 _ _ (by rw [hr]; rfl) (by rw [hr]; rfl) (by decide) (by decide)).1
    simpa [i9, i1] using this
  · have := (hty _ b2 2 1 _ _ (by rw [hr]; rfl) (by rw [hr]; rfl) (by decide) (by decide)).1
    simpa [i9, i1] using this
  · have := (hty _ b1 0 1 _ _ (by rw [hr]; rfl) (by rw [hr]; rfl) (by decide) (by decide)).1
    simpa [i9, i1] using this


#print axioms graph_from_molfile_text_render_star_bonds
#print axioms star_witness_bonds

end Contracts.C07Star
